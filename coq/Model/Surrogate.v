(* Model of the history-driven ML-surrogate samplers
     MLSurrogateSampler.sample_batch / sample_candidates   (black_it/samplers/surrogate.py:73-135)
     RandomUniformSampler.sample_batch                      (black_it/samplers/random_uniform.py:31-52)  -- the pool
     RandomForestSampler.fit                                (black_it/samplers/random_forest.py:94-110)
     XGBoostSampler._clip_losses / fit                      (black_it/samplers/xgboost.py:93-132, repaired in 893b4f5)
     GaussianProcessSampler.fit                             (black_it/samplers/gaussian_process.py:99-127)
   and of the history-reading prefixes of the remaining built-in samplers (halton, r-sequence, random uniform,
   particle swarm, CORS).  Executable definitions only; proofs are in Proofs/SurrogateP.v.

   Mutation is explicit (DESIGN.md section 3): Python hands the LIVE history arrays to a sampler, so every function of
   this file that is handed them returns, next to its result, the arrays as the caller sees them afterwards
   (`history'`); "does not modify" is the theorem `history' = history`.  Library calls that are handed an array
   (sklearn / xgboost `.fit`, np.argsort, np.quantile, ...) are Section variables of PURE type: their contract "does not
   write into its arguments" is what the harness observes on every run (byte snapshots + read-only arrays). *)
From Coq Require Import List QArith Qabs Bool Arith ZArith Floats.
From BlackIt Require Export Lib.Cases Model.Snap.
Import ListNotations.

(* ---------------------------------------------------------------- np.argsort, as ANY sorting permutation *)
Section Order.
  Variable V : Type.
  Variable d : V.
  Variable leb : V -> V -> bool.                 (* a <= b *)

  (* executable admissibility test of an answer `o` of np.argsort(l): a permutation of 0..len-1 along which the
     values never decrease.  Nothing is said about the order of equal values (numpy's default sort is not stable). *)
  Fixpoint nondecr_along (l : list V) (o : list nat) : bool :=
    match o with
    | [] => true
    | i :: o' => match o' with
                 | [] => true
                 | j :: _ => leb (nth i l d) (nth j l d) && nondecr_along l o'
                 end
    end.
  Definition is_perm_of_range (n : nat) (o : list nat) : bool :=
    Nat.eqb (length o) n && forallb (fun i => existsb (Nat.eqb i) o) (seq 0 n).
  Definition is_argsort (l : list V) (o : list nat) : bool :=
    is_perm_of_range (length l) o && nondecr_along l o.

  (* a reference argsort (stable insertion sort), used for the non-vacuity witnesses only *)
  Fixpoint ins_idx (l : list V) (i : nat) (o : list nat) : list nat :=
    match o with
    | [] => [i]
    | j :: o' => if leb (nth i l d) (nth j l d) then i :: o else j :: ins_idx l i o'
    end.
  Definition argsort_ref (l : list V) : list nat := fold_right (ins_idx l) [] (seq 0 (length l)).
End Order.

(* candidates[sorting_indices] : fancy indexing of the rows of a 2-D array *)
Definition take_rows {A} (rows : list (list A)) (idx : list nat) : list (list A) := map (fun i => nth i rows []) idx.

(* ---------------------------------------------------------------- MLSurrogateSampler.sample_batch *)
Section Surrogate.
  Variable num : Type.                            (* coordinates *)
  Variable zero : num.
  Variable ltb : num -> num -> bool.
  Variable absdiff : num -> num -> num.
  Variable L : Type.                              (* loss values *)
  Variable P : Type.                              (* surrogate predictions *)

  Definition point : Type := list num.
  Definition history : Type := (list point * list L)%type.      (* existing_points, existing_losses *)

  Variable Surr : Type.                           (* the fitted surrogate (self._classifier, ...) *)
  Variable St : Type.                             (* the sampler's generator state *)
  (* surrogate.py:73-89  self.sample_candidates(pool_size, search_space, existing_points, existing_losses):
     handed the live arrays *)
  Variable draw_pool : St -> nat -> list (list num) -> history -> list point * St * history.
  (* surrogate.py:126    self.fit(existing_points, existing_losses): handed the live arrays *)
  Variable fit : St -> history -> Surr * St * history.
  (* surrogate.py:129    self.predict(candidates): not handed the history *)
  Variable predict : Surr -> list point -> list P.
  (* surrogate.py:132    np.argsort(predictions) *)
  Variable argsort : list P -> list nat.

  (* what the intermediate values of one call were (observed by the harness) *)
  Record sb_trace : Type := mk_trace {
    t_pool : list point;                          (* candidates, as handed to predict: NOT snapped *)
    t_fit_arg : history;                          (* the arrays handed to fit *)
    t_preds : list P;
    t_order : list nat;                           (* sorting_indices *)
    t_selected : list point                       (* candidates[sorting_indices][:batch_size], before the snap *)
  }.

  (* surrogate.py:117-135, statement by statement.  The pool is drawn first, then the surrogate is fitted, then the
     WHOLE un-snapped pool is predicted, and only the selected rows are snapped (line 135).
     The constructor (since b8551a2) rejects candidate_pool_size < batch_size; a subclass overriding sample_candidates
     can still return fewer rows, hence `firstn` and `min k |pool|`. *)
  Definition sample_batch (k pool_size : nat) (grids : list (list num)) (h : history) (st : St)
    : list point * history * St * sb_trace :=
    let '(cands, st1, h1) := draw_pool st pool_size grids h in
    let '(m, st2, h2) := fit st1 h1 in
    let preds := predict m cands in
    let order := argsort preds in
    let selected := firstn k (take_rows cands order) in
    (digitize num zero ltb absdiff selected grids, h2, st2, mk_trace cands h1 preds order selected).

  Definition proposals (r : list point * history * St * sb_trace) : list point := fst (fst (fst r)).
  Definition history_after (r : list point * history * St * sb_trace) : history := snd (fst (fst r)).
  Definition state_after (r : list point * history * St * sb_trace) : St := snd (fst r).
  Definition trace_of (r : list point * history * St * sb_trace) : sb_trace := snd r.

  (* BaseSampler.sample (base.py:62-112) calls sample_batch once with batch_size and then once per de-duplication
     pass with the number of repeats, always with the same live arrays: any sequence of calls *)
  Fixpoint run_calls (ks : list nat) (pool_size : nat) (grids : list (list num)) (h : history) (st : St)
    : list (list point) * history * St :=
    match ks with
    | [] => ([], h, st)
    | k :: ks' => let r := sample_batch k pool_size grids h st in
                  let '(outs, h', st') := run_calls ks' pool_size grids (history_after r) (state_after r) in
                  (proposals r :: outs, h', st')
    end.

  (* round 4 - ONE sampler object used again and again by its caller.  Every call has its own batch size (the public
     attribute `batch_size` may have been reassigned, or sample_batch is called directly), its own search space and its
     own history: the calibrator's grown arrays, another history of any length, the same array objects overwritten in
     place by the caller, the array a previous call returned - for the model each of these is just "the history handed
     to that call".  The ONLY thing sample_batch carries from one call to the next is the generator state (surrogate.py
     keeps no other attribute that sample_batch reads: the fitted surrogate is rebuilt by every call's fit). *)
  Definition request : Type := (nat * list (list num) * history)%type.
  Definition req_k (q : request) : nat := fst (fst q).
  Definition req_grids (q : request) : list (list num) := snd (fst q).
  Definition req_history (q : request) : history := snd q.
  Fixpoint run_session (reqs : list request) (pool_size : nat) (st : St)
    : list (list point * history * St * sb_trace) :=
    match reqs with
    | [] => []
    | q :: reqs' => let r := sample_batch (req_k q) pool_size (req_grids q) (req_history q) st in
                    r :: run_session reqs' pool_size (state_after r)
    end.
End Surrogate.

(* ---------------------------------------------------------------- the pool of the built-in surrogates
   random_uniform.py:47-49
       candidates = np.zeros((batch_size, dims))
       for i, params in enumerate(search_space.param_grid): candidates[:, i] = generator.choice(params, size=(batch_size,))
   existing_points / existing_losses are not used.  generator.choice is a Section variable returning POSITIONS. *)
Section UniformPool.
  Variable num : Type.
  Variable zero : num.
  Variable L : Type.
  Variable St : Type.
  Variable choice : St -> nat -> nat -> list nat * St.        (* choice st len n = n positions < len *)

  Fixpoint uniform_columns (st : St) (n : nat) (grids : list (list num)) : list (list num) * St :=
    match grids with
    | [] => ([], st)
    | g :: gs => let '(pos, st1) := choice st (length g) n in
                 let '(cols, st2) := uniform_columns st1 n gs in
                 (map (fun p => nth p g zero) pos :: cols, st2)
    end.
  Definition rows_of_columns (n : nat) (cols : list (list num)) : list (list num) :=
    map (fun r => map (fun col => nth r col zero) cols) (seq 0 n).

  Definition uniform_batch (st : St) (n : nat) (grids : list (list num)) (h : list (list num) * list L)
    : list (list num) * St * (list (list num) * list L) :=
    let '(cols, st') := uniform_columns st n grids in (rows_of_columns n cols, st', h).
End UniformPool.

(* ---------------------------------------------------------------- XGBoostSampler._clip_losses  (xgboost.py:93-113)
   An array function handed the caller's array returns (result, caller's array afterwards). *)
Section Clip.
  Variable L : Type.
  Variable leb : L -> L -> bool.
  Variables maxf minf : L.                        (* MAX_FLOAT32, MIN_FLOAT32 *)
  Variables hi_to lo_to : L.                      (* MAX_FLOAT32 - EPS_FLOAT32, MIN_FLOAT32 + EPS_FLOAT32 as computed *)

  Definition is_large (v : L) : bool := leb maxf v.            (* y >= MAX_FLOAT32 *)
  Definition is_small (v : L) : bool := leb v minf.            (* y <= MIN_FLOAT32 *)
  (* y[large_floats] = hi_to ; then y[small_floats] = lo_to  (the later assignment wins) *)
  Definition clip1 (v : L) : L := if is_small v then lo_to else if is_large v then hi_to else v.
  Definition in_range (y : list L) : bool := forallb (fun v => negb (is_large v) && negb (is_small v)) y.

  (* the code of the working tree (after 893b4f5): `return y` when nothing is out of range, otherwise
     `y = np.copy(y)` and the assignments go to the copy *)
  Definition clip_losses (y : list L) : list L * list L :=
    if in_range y then (y, y) else (map clip1 y, y).
  (* the code before 893b4f5: the assignments went to the argument *)
  Definition clip_losses_inplace (y : list L) : list L * list L :=
    if in_range y then (y, y) else (map clip1 y, map clip1 y).
End Clip.

(* ---------------------------------------------------------------- fit of the three built-in surrogates *)
Section Fits.
  Variable num : Type.
  Variable L : Type.
  Variable Surr St : Type.
  Definition hist : Type := (list (list num) * list L)%type.

  (* random_forest.py:94-110: (X, y_cat, _) = prepare_data_for_classifier(X, y, n_classes)  [X passed through, y only
     read by np.quantile / np.max / np.digitize]; seed drawn; classifier.fit(X, y_cat) *)
  Variable categories : list L -> list nat.
  Variable rf_lib_fit : St -> list (list num) -> list nat -> Surr * St.
  Definition fit_rf (st : St) (h : hist) : Surr * St * hist :=
    let '(m, st') := rf_lib_fit st (fst h) (categories (snd h)) in (m, st', h).

  (* xgboost.py:115-132: y = self._clip_losses(y); DMatrix(X, y) discarded; regressor.fit(X, y) *)
  Variable leb : L -> L -> bool.
  Variables maxf minf hi_to lo_to : L.
  Variable xgb_lib_fit : St -> list (list num) -> list L -> Surr * St.
  Definition fit_xgb_with (clip : list L -> list L * list L) (st : St) (h : hist) : Surr * St * hist :=
    let '(y, losses') := clip (snd h) in
    let '(m, st') := xgb_lib_fit st (fst h) y in (m, st', (fst h, losses')).
  Definition fit_xgb := fit_xgb_with (clip_losses L leb maxf minf hi_to lo_to).
  Definition fit_xgb_before_repair := fit_xgb_with (clip_losses_inplace L leb maxf minf hi_to lo_to).
  (* what regressor.fit is handed *)
  Definition xgb_lib_args (h : hist) : list (list num) * list L :=
    (fst h, fst (clip_losses L leb maxf minf hi_to lo_to (snd h))).

  (* gaussian_process.py:99-127: y = np.atleast_2d(y).T (a view); noise = y.var() * 0.01; seed drawn;
     gpmodel.fit(X, y); fmin = min(mean prediction on X) *)
  Variable gp_lib_fit : St -> list (list num) -> list L -> Surr * St.
  Definition fit_gp (st : St) (h : hist) : Surr * St * hist :=
    let '(m, st') := gp_lib_fit st (fst h) (snd h) in (m, st', h).
End Fits.

(* ---------------------------------------------------------------- the other built-in samplers: where the history goes
   Each returns (raw batch before the final digitize_data, generator state, history'). *)
Section Readers.
  Variable num : Type.
  Variable L : Type.
  Variable St : Type.
  Definition rhist : Type := (list (list num) * list L)%type.

  (* halton.py, r_sequence.py, random_uniform.py: sample_batch never mentions existing_points / existing_losses *)
  Variable blind_gen : St -> nat -> list (list num) * St.
  Definition blind_batch (st : St) (k : nat) (h : rhist) : list (list num) * St * rhist :=
    let '(b, st') := blind_gen st k in (b, st', h).

  (* particle_swarm.py:188-210 + _update_best (:213-245): reads len(existing_points), np.argmin(existing_losses),
     the row existing_points[argmin] (kept as a VIEW in self._best_point and only ever read), and the slice
     [start:start+batch_size] of both arrays whose VALUES are assigned into the sampler's own arrays *)
  Variable argmin : list L -> nat.
  Variable pso_step : St -> nat -> list num -> list (list num) -> list L -> list (list num) * St.
  Definition slice {A} (a b : nat) (l : list A) : list A := firstn (b - a) (skipn a l).
  Definition pso_batch (st : St) (start bsize : nat) (h : rhist) : list (list num) * St * rhist :=
    let best_point := nth (argmin (snd h)) (fst h) [] in
    let '(b, st') := pso_step st (length (fst h)) best_point (slice start (start + bsize) (fst h))
                              (slice start (start + bsize) (snd h)) in
    (b, st', h).

  (* cors.py:185-193: fmax = max|losses|; current_points = boxtocube(existing_points, bounds) = (X - l)/(u - l);
     current_losses = existing_losses / fmax -- both NEW arrays; everything after works on them *)
  Variable to_cube : list num -> list num.                    (* one row of boxtocube *)
  Variable scale_losses : list L -> list L.                   (* existing_losses / np.max(np.abs(existing_losses)) *)
  Variable cors_optimise : St -> nat -> list (list num) -> list L -> list (list num) * St.
  Definition cors_batch (st : St) (k : nat) (h : rhist) : list (list num) * St * rhist :=
    let '(b, st') := cors_optimise st k (map to_cube (fst h)) (scale_losses (snd h)) in (b, st', h).
  (* a variant that normalises in place (what the property forbids), for the refutation witness *)
  Definition cors_batch_inplace (st : St) (k : nat) (h : rhist) : list (list num) * St * rhist :=
    let h' := (map to_cube (fst h), scale_losses (snd h)) in
    let '(b, st') := cors_optimise st k (fst h') (snd h') in (b, st', h').
End Readers.

(* ---------------------------------------------------------------- instance and correspondence over exact rationals *)
Definition Qleb : Q -> Q -> bool := Qle_bool.
Definition is_argsortQ : list Q -> list nat -> bool := is_argsort Q 0 Qleb.
Definition argsort_refQ : list Q -> list nat := argsort_ref Q 0 Qleb.

(* float32 limits (numpy: np.finfo(np.float32).max / .min / .eps) *)
Definition MAX32 : Q := 340282346638528859811704183484516925440 # 1.        (* (2^24 - 1) * 2^104 *)
Definition MIN32 : Q := - MAX32.
Definition EPS32 : Q := 1 # 8388608.                                       (* 2^-23 *)
(* MAX_FLOAT32 and EPS_FLOAT32 are np.float32 scalars: their difference is computed in float32 and is MAX_FLOAT32
   again (the harness reads the two constants actually assigned from the module on every run) *)
Definition HI_TO : Q := MAX32.
Definition LO_TO : Q := MIN32.
Definition clip_lossesQ : list Q -> list Q * list Q := clip_losses Q Qleb MAX32 MIN32 HI_TO LO_TO.
Definition clip_losses_inplaceQ : list Q -> list Q * list Q := clip_losses_inplace Q Qleb MAX32 MIN32 HI_TO LO_TO.

(* the stub surrogate of the correspondence: the pool, the predictions and the answer of np.argsort are the ones the
   implementation was observed to use (monitor: the model consumes the implementation's choice among the admissible
   argsort answers and checks that it IS admissible) *)
Definition stub_sample_batch (k : nat) (grids pool : list (list Q)) (preds : list Q) (order : list nat)
    (h : list (list Q) * list Q) :=
  sample_batch Q 0 Qltb Qabsdiff Q Q unit unit
    (fun st _ _ h => (pool, st, h)) (fun st h => (tt, st, h)) (fun _ _ => preds) (fun _ => order)
    k (length pool) grids h tt.

(* order-preserving injection of the float64 extended reals into Q (losses may be +-inf): +-inf |-> +-2^1100 *)
Definition BIGQ : Q := Z.shiftl 1 1100 # 1.
Definition l_of_float (f : float) : Q :=
  if is_infinity f then (if PrimFloat.ltb f 0 then - BIGQ else BIGQ) else q_of_float f.
Definition ls (l : list float) : list Q := map l_of_float l.
Definition no_nan_l (l : list float) : bool := forallb (fun f => negb (is_nan f)) l.

Definition rows_tol_ok (tol : bool) (grids raw obs : list (list Q)) : bool :=
  if tol then mat_ok true grids raw obs else qmat_eqb (digitizeQ raw grids) obs.

Fixpoint nat_list_eqb (a b : list nat) : bool :=
  match a, b with
  | [], [] => true
  | x :: a', y :: b' => Nat.eqb x y && nat_list_eqb a' b'
  | _, _ => false
  end.

Definition hist_eqb (a b : list (list Q) * list Q) : bool := qmat_eqb (fst a) (fst b) && qlist_eqb (snd a) (snd b).

Inductive case :=
(* one sample_batch call of a surrogate sampler: batch size, grid, observed pool (argument of predict), observed
   predictions, observed np.argsort answer, observed argument of digitize_data, observed return value;
   tol = the pool is off-grid on a non-dyadic grid (see Model/Snap.v cell_ok) *)
| SB (tol : bool) (k : nat) (grids pool : list (list float)) (preds : list float) (order : list nat)
     (selected out : list (list float))
     (pts : list (list float)) (losses : list float)          (* the history arrays when sample_batch was entered *)
     (fit_x : list (list float)) (fit_y : list float)         (* the arrays fit was handed *)
     (pts' : list (list float)) (losses' : list float)        (* the caller's arrays when sample_batch returned *)
(* XGBoostSampler._clip_losses: argument, the two constants assigned, returned array, argument afterwards *)
| CLIP (y : list float) (hi lo : float) (ret after : list float).

Definition check_case (c : case) : bool :=
  match c with
  | SB tol k grids pool preds order selected out pts losses fit_x fit_y pts' losses' =>
      finite_m grids && finite_m pool && finite_l preds && finite_m selected && finite_m out &&
      finite_m pts && finite_m fit_x && finite_m pts' && no_nan_l losses && no_nan_l fit_y && no_nan_l losses' &&
      let r := stub_sample_batch k (qss grids) (qss pool) (qs preds) order (qss pts, ls losses) in
      hist_eqb (t_fit_arg _ _ _ (trace_of _ _ _ _ r)) (qss fit_x, ls fit_y) &&
      hist_eqb (history_after _ _ _ _ r) (qss pts', ls losses') &&
      is_argsortQ (qs preds) order &&
      Nat.eqb (length preds) (length pool) &&
      qmat_eqb (t_selected _ _ _ (trace_of _ _ _ _ r)) (qss selected) &&
      (if tol then mat_ok true (qss grids) (qss selected) (qss out)
       else qmat_eqb (proposals _ _ _ _ r) (qss out))
  | CLIP y hi lo ret after =>
      no_nan_l y && no_nan_l ret && no_nan_l after &&
      let r := clip_losses Q Qleb MAX32 MIN32 (l_of_float hi) (l_of_float lo) (ls y) in
      qlist_eqb (fst r) (ls ret) && qlist_eqb (snd r) (ls after)
  end.
