(* C13, round 4: a rejected request between two batches.  A caller that catches the exception of a request the sampler
   rejects (size <= 0, dimension < 1) and goes on using the same object: the object must continue exactly where the last
   ACCEPTED batch ended.  Transcribed from halton.py:121-131 (get_n_primes, then halton(), then the cursor) and
   r_sequence.py:132-139 (compute_phi's check_arg first, the cursor last).  Executable definitions only. *)
From Coq Require Import List ZArith QArith Bool.
From BlackIt Require Import Model.Halton Model.RSeq.
Import ListNotations.
Open Scope Z_scope.

(* ------------------------------------------------------------------ HaltonSampler *)
(* _halton(nb_samples, dims) as a total step: (None, state after) = the call raised.  As written: get_n_primes runs
   first, so a request with a valid dimension and an invalid size leaves the prime cache EXTENDED and the cursor alone *)
Definition hsample_t (st : hstate) (k dims : Z) : option (list (list Q)) * hstate :=
  match get_n_primes dims (h_pc st) with
  | None => (None, st)
  | Some (bases, pc') =>
      match halton k bases (h_cursor st) with
      | None => (None, {| h_cursor := h_cursor st; h_pc := pc' |})
      | Some pts => (Some pts, {| h_cursor := h_cursor st + k; h_pc := pc' |})
      end
  end.

Fixpoint hrun_t (st : hstate) (ops : list (Z * Z)) : list (option (list (list Q))) * hstate :=
  match ops with
  | [] => ([], st)
  | (k, dims) :: r =>
      let '(o, st1) := hsample_t st k dims in
      let '(outs, st2) := hrun_t st1 r in (o :: outs, st2)
  end.

(* the requests that are served: positive size and a dimension >= 1 *)
Definition served (op : Z * Z) : bool := (0 <? fst op) && (1 <=? snd op).

(* what a run with rejected requests must return: None for a rejected request, and for a served one the rows
   cursor+1 .. cursor+k in the first dims primes, the cursor counting the served requests only *)
Fixpoint spec_outs_t (s : Z) (ops : list (Z * Z)) : list (option (list (list Q))) :=
  match ops with
  | [] => []
  | (k, dims) :: r =>
      if served (k, dims)
      then Some (hpoints (firstn (Z.to_nat dims) primes40) s (Z.to_nat k)) :: spec_outs_t (s + k) r
      else None :: spec_outs_t s r
  end.

Fixpoint somes {B} (l : list (option B)) : list B :=
  match l with [] => [] | Some b :: r => b :: somes r | None :: r => somes r end.

(* ------------------------------------------------------------------ RSequenceSampler *)
(* _r_sequence(nb_samples, dims): compute_phi(dims) raises for dims < 1 before anything else happens; a request for 0
   points is answered with 0 rows.  State = cursor; the offset is fixed between reseeds; alphas d = alpha vector of
   dimension d *)
Definition rsample_t (off : Q) (alphas : Z -> list Q) (s : Z) (k : nat) (dims : Z) : option (list (list Q)) * Z :=
  if dims <? 1 then (None, s) else let '(pts, s') := rsample off (alphas dims) s k in (Some pts, s').

Fixpoint rrun_t (off : Q) (alphas : Z -> list Q) (s : Z) (ops : list (nat * Z)) : list (option (list (list Q))) * Z :=
  match ops with
  | [] => ([], s)
  | (k, dims) :: r =>
      let '(o, s1) := rsample_t off alphas s k dims in
      let '(outs, s2) := rrun_t off alphas s1 r in (o :: outs, s2)
  end.

Definition rserved (op : nat * Z) : bool := 1 <=? snd op.

Fixpoint rspec_outs_t (off : Q) (alphas : Z -> list Q) (s : Z) (ops : list (nat * Z)) : list (option (list (list Q))) :=
  match ops with
  | [] => []
  | (k, dims) :: r =>
      if rserved (k, dims)
      then Some (rbatch off (alphas dims) s k) :: rspec_outs_t off alphas (s + Z.of_nat k) r
      else None :: rspec_outs_t off alphas s r
  end.

(* ------------------------------------------------------------------ correspondence checks *)
(* Halton object: s0, the requests as made (k, dims) - rejected ones included -, and per request the observed
   (cursor after, Some rows | None = the call raised) *)
Fixpoint check_calls_t (st : hstate) (ops : list (Z * Z)) (obs : list (Z * option (list (list Q)))) : bool :=
  match ops, obs with
  | [], [] => true
  | (k, dims) :: ops', (cur, o) :: obs' =>
      let '(m, st') := hsample_t st k dims in
      match m, o with
      | None, None => true
      | Some pts, Some rows => rows_close pts rows
      | _, _ => false
      end && (h_cursor st' =? cur) && check_calls_t st' ops' obs'
  | _, _ => false
  end.

Definition check_case_t (c : Z * list (Z * Z) * list (Z * option (list (list Q)))) : bool :=
  let '(s0, ops, obs) := c in
  (20 <=? s0) && (s0 <? 2 ^ 16) && check_calls_t {| h_cursor := s0; h_pc := pcache_init |} ops obs.

(* R-sequence object, requests of one dimension d (or a rejected dimension < 1): (d, phi, cursor at the first request,
   offset, requests (k, dims), observations) *)
Fixpoint check_rcalls_t (off : Q) (alphas : Z -> list Q) (s : Z) (ops : list (nat * Z))
         (obs : list (Z * option (list (list Q)))) : bool :=
  match ops, obs with
  | [], [] => true
  | (k, dims) :: ops', (cur, o) :: obs' =>
      let '(m, s') := rsample_t off alphas s k dims in
      match m, o with
      | None, None => true
      | Some pts, Some rows => rrows_close_from s pts rows
      | _, _ => false
      end && (s' =? cur) && check_rcalls_t off alphas s' ops' obs'
  | _, _ => false
  end.

Definition check_rseq_t (c : nat * Q * Z * Q * list (nat * Z) * list (Z * option (list (list Q)))) : bool :=
  let '(d, phi, s_first, off, ops, obs) := c in
  phi_cert d phi (1 # (2 ^ 45)%positive) && (20 <=? s_first) && Qle_bool 0 off && Qlt_bool off 1
  && check_rcalls_t off (fun _ => map (qtrunc 100) (alpha_of phi d)) s_first ops obs.
