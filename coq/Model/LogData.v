(* np.log(time_series) (time_series.py:142,153) is an external call.  The correspondence passes the series y and
   the float values l_i = log(y_i) as data; this check certifies, by verified interval arithmetic, that every
   y_i is positive and that l_i is the natural logarithm of y_i up to 2^-44 relative (512 ulp of binary64; np.log is observed within 1.6 ulp), so
   that the algebraic checks of Model/HP.v (CaseLogHP, CaseDiffDemean) are about ln y and not about whatever
   the harness happened to pass.  Executable definitions only; soundness in Proofs/LogDataP.v. *)
From Coq Require Import List ZArith QArith Qabs Bool.
From BlackIt Require Import Lib.IvLn Model.HP.
Import ListNotations.
Open Scope Q_scope.

Definition ln_tol (l : Q) : Q := (1 # (2 ^ 44)) * Qabs l.

Definition ln_data_ok (y l : list Q) : bool := all2 (fun y l => ln_close y l (ln_tol l)) y l.

Definition check_ln_case (c : list dy * list dy) : bool := ln_data_ok (dyl (fst c)) (dyl (snd c)).

(* Round 4 (generator sweep).  A series held in float32 / float16 gets its logarithm taken by numpy in that format
   (np.log(float32 array) is a float32 array): the values l_i handed to CaseLogHP are then float32 / float16 numbers,
   logarithms up to the rounding of THAT format.  Same certificate with the accuracy as a parameter: every y_i is
   positive and |ln y_i - l_i| <= 2^-k |l_i|  (the harness passes k = 19 for float32, observed <= 1.8 ulp = 2^-22.2, and k = 8
   for float16, observed <= 2^-11). *)
Definition ln_tol_w (k : positive) (l : Q) : Q := (1 # (2 ^ k)) * Qabs l.

Definition ln_data_ok_w (k : positive) (y l : list Q) : bool := all2 (fun y l => ln_close y l (ln_tol_w k l)) y l.

Definition check_ln_case_w (c : positive * (list dy * list dy)) : bool :=
  ln_data_ok_w (fst c) (dyl (fst (snd c))) (dyl (snd (snd c))).
