(* Token instantiation of Model/Checkpoint.v used by the C04 correspondence.
   A float64 is its 64-bit pattern (a Z), strings are small naturals (the harness keeps the dictionary), the
   generator state is the list of integers of bit_generator.state, scheduler and loss objects are a digest of their
   deep attribute-wise content plus a flag "pickle.dumps succeeds".  With these types every codec is the identity, so
   the contracts json_rt / pickle_*_rt / csv_exact hold by computation; that the real json / pickle / pandas / h5py /
   sqlite meet them is what the comparison with the observed restored state checks on every run. *)
From Coq Require Import List ZArith Bool Arith.
From BlackIt Require Export Lib.Cases Model.Checkpoint.
Import ListNotations.

Definition TF := Z.
Definition TStr := nat.
Definition TGen := list Z.
Definition TObj := (Z * bool)%type.                      (* digest, picklable *)
Definition tstate := state TF TStr TGen TObj TObj.
Definition tcsv := csvtable TF.
(* digests are modelled as perfect: the digest of a file IS its content *)
Inductive tdig := DgS (x : option Z) | DgL (x : option Z) | DgC (t : tcsv) | DgH (h : h5file TF).
Definition tjparams := jparams TF TStr TGen tdig.
Definition tfolder := folder TF tjparams Z Z tcsv.

Definition optZ_eqb (a b : option Z) : bool :=
  match a, b with None, None => true | Some x, Some y => Z.eqb x y | _, _ => false end.
Definition zmat_eqb (a b : list (list Z)) : bool := list_eqb (list_eqb Z.eqb) a b.
Definition csvrow_eqb (a b : csvrow TF) : bool :=
  let '(l1, b1, m1, p1) := a in let '(l2, b2, m2, p2) := b in Z.eqb l1 l2 && Z.eqb b1 b2 && Z.eqb m1 m2 && list_eqb Z.eqb p1 p2.
Definition tdig_eqb (a b : tdig) : bool :=
  match a, b with
  | DgS x, DgS y | DgL x, DgL y => optZ_eqb x y
  | DgC t, DgC u => Nat.eqb (t_ncols _ t) (t_ncols _ u) && list_eqb csvrow_eqb (t_rows _ t) (t_rows _ u)
  | DgH h, DgH k => shape_eqb (h_shape _ h) (h_shape _ k) && zmat_eqb (h_rows _ h) (h_rows _ k)
  | _, _ => false
  end.

Definition t_pick (x : TObj) : option Z := if snd x then Some (fst x) else None.
Definition t_unpick (b : Z) : option TObj := Some (b, true).
Definition t_fresh_gen (_ : option Z) : TGen := [].
Definition t_table_of (_ : TObj) : list (TStr * nat) := [].

Definition T_save_with w : tfolder -> tstate -> sresult TF tjparams Z Z tcsv :=
  save_with TF TStr TGen TObj TObj tjparams Z Z tcsv tdig DgS DgL DgC DgH (fun p => p) t_pick t_pick (fun t => t) w.
Definition T_save := T_save_with (h5_write TF Z.eqb).
Definition T_save_legacy := T_save_with (h5_write_legacy TF).
Definition T_load : tfolder -> result (loaded TF TStr TGen TObj TObj tdig) :=
  load TF TStr TGen TObj TObj tjparams Z Z tcsv tdig tdig_eqb DgS DgL DgC DgH (fun p => Some p) t_unpick t_unpick (fun t => Some t).
Definition T_restore : tfolder -> TStr -> result tstate :=
  restore TF TStr TGen TObj TObj Nat.eqb tjparams Z Z tcsv tdig tdig_eqb DgS DgL DgC DgH (fun p => Some p) t_unpick t_unpick
          (fun t => Some t) t_fresh_gen t_table_of.
Definition T_empty : tfolder := empty_folder TF tjparams Z Z tcsv.

Definition tdb := db TF TStr TGen Z Z.
Definition T_save_sql : tdb -> tstate -> result tdb := save_sql TF TStr TGen TObj TObj Z Z t_pick t_pick.
Definition T_load_sql : tdb -> result (loaded20 TF TStr TGen TObj TObj) := load_sql TF TStr TGen TObj TObj Z Z t_unpick t_unpick.

(* short constructor for the literals written by the harness *)
Definition tS := mkState TF TStr TGen TObj TObj.

(* ---------------------------------------------------------------- component-wise comparison *)
Definition optb {A} (f : A -> A -> bool) (a b : option A) : bool :=
  match a, b with None, None => true | Some x, Some y => f x y | _, _ => false end.
Definition mat_eqb (a b : list (list Z)) : bool := list_eqb (list_eqb Z.eqb) a b.
Definition obj_eqb (a b : TObj) : bool := Z.eqb (fst a) (fst b).
Definition dt_eqb (a b : dtype) : bool := Nat.eqb (dtype_code a) (dtype_code b).
Definition dts_eqb (a b : dtype * dtype * dtype * dtype) : bool :=
  let '(a1, a2, a3, a4) := a in let '(b1, b2, b3, b4) := b in dt_eqb a1 b1 && dt_eqb a2 b2 && dt_eqb a3 b3 && dt_eqb a4 b4.
Definition tbl_eqb (a b : list (nat * nat)) : bool :=
  list_eqb (fun x y => Nat.eqb (fst x) (fst y) && Nat.eqb (snd x) (snd y)) a b.

(* numbered components of the persisted state: the numbers appear in replays and in the harness *)
Definition components (a b : tstate) : list (nat * bool) :=
  [ (1, mat_eqb (s_bounds _ _ _ _ _ a) (s_bounds _ _ _ _ _ b));
    (2, list_eqb Z.eqb (s_precision _ _ _ _ _ a) (s_precision _ _ _ _ _ b));
    (3, mat_eqb (s_real _ _ _ _ _ a) (s_real _ _ _ _ _ b));
    (4, Nat.eqb (s_E _ _ _ _ _ a) (s_E _ _ _ _ _ b));
    (5, Nat.eqb (s_N _ _ _ _ _ a) (s_N _ _ _ _ _ b));
    (6, Nat.eqb (s_D _ _ _ _ _ a) (s_D _ _ _ _ _ b));
    (7, optb Nat.eqb (s_prec _ _ _ _ _ a) (s_prec _ _ _ _ _ b));
    (8, Bool.eqb (s_verbose _ _ _ _ _ a) (s_verbose _ _ _ _ _ b));
    (9, optb Nat.eqb (s_saving _ _ _ _ _ a) (s_saving _ _ _ _ _ b));
    (10, optb Z.eqb (s_seed _ _ _ _ _ a) (s_seed _ _ _ _ _ b));
    (11, list_eqb Z.eqb (s_gen _ _ _ _ _ a) (s_gen _ _ _ _ _ b));
    (12, Nat.eqb (s_model _ _ _ _ _ a) (s_model _ _ _ _ _ b));
    (13, obj_eqb (s_sched _ _ _ _ _ a) (s_sched _ _ _ _ _ b));
    (14, obj_eqb (s_loss _ _ _ _ _ a) (s_loss _ _ _ _ _ b));
    (15, Nat.eqb (s_batch _ _ _ _ _ a) (s_batch _ _ _ _ _ b));
    (16, Nat.eqb (s_nsampled _ _ _ _ _ a) (s_nsampled _ _ _ _ _ b));
    (17, Nat.eqb (s_njobs _ _ _ _ _ a) (s_njobs _ _ _ _ _ b));
    (18, Nat.eqb (s_pdims _ _ _ _ _ a) (s_pdims _ _ _ _ _ b) && mat_eqb (s_params _ _ _ _ _ a) (s_params _ _ _ _ _ b));
    (19, list_eqb Z.eqb (s_losses _ _ _ _ _ a) (s_losses _ _ _ _ _ b));
    (20, shape_eqb (s_sshape _ _ _ _ _ a) (s_sshape _ _ _ _ _ b) && mat_eqb (s_series _ _ _ _ _ a) (s_series _ _ _ _ _ b));
    (21, list_eqb Z.eqb (s_bnums _ _ _ _ _ a) (s_bnums _ _ _ _ _ b));
    (22, list_eqb Z.eqb (s_methods _ _ _ _ _ a) (s_methods _ _ _ _ _ b));
    (23, tbl_eqb (s_table _ _ _ _ _ a) (s_table _ _ _ _ _ b));
    (24, dts_eqb (s_dts _ _ _ _ _ a) (s_dts _ _ _ _ _ b)) ].
Definition state_diff (a b : tstate) : list nat := map fst (filter (fun x => negb (snd x)) (components a b)).

(* ---------------------------------------------------------------- folder histories *)
(* the states are saved one after the other into the same folder (starting from an empty one); per save the model
   says: 0 = raised, 1 = series file (re)created, 2 = appended in place *)
Fixpoint run_saves (w : option (h5file TF) -> shape3 -> list (list TF) -> result (h5file TF)) (legacy : bool)
         (f : tfolder) (l : list tstate) : tfolder * list nat :=
  match l with
  | [] => (f, [])
  | s :: r =>
      let res := T_save_with w f s in
      let m := match res with
               | SRaise _ _ _ _ _ _ _ => 0
               | SOk _ _ _ _ _ _ => if legacy then (match f_h5 _ _ _ _ _ f with None => 1 | Some _ => 2 end)
                                    else h5_mode TF Z.eqb (f_h5 _ _ _ _ _ f) (s_sshape _ _ _ _ _ s) (s_series _ _ _ _ _ s)
               end in
      let '(f', ms) := run_saves w legacy (folder_of _ _ _ _ _ res) r in (f', m :: ms)
  end.

Record ccase := mkCC {
  cc_hist : list tstate;           (* states saved into the folder, in order; the last one is the one to be restored *)
  cc_name : nat;                   (* model.__name__ passed to restore_from_checkpoint *)
  cc_modes : list nat;             (* observed per save *)
  cc_rexn : nat;                   (* observed restore outcome: 0 = returned, else cexn_code of the exception class *)
  cc_restored : option tstate      (* the restored calibrator *)
}.

Definition outcome_ok (r : result tstate) (c : ccase) : bool :=
  match r, cc_restored c with
  | Ok s, Some o => Nat.eqb (cc_rexn c) 0 && match state_diff s o with [] => true | _ => false end
  | Raise e, None => Nat.eqb (cc_rexn c) (cexn_code e)
  | _, _ => false
  end.

Definition check_case (c : ccase) : bool :=
  let '(f, ms) := run_saves (h5_write TF Z.eqb) false T_empty (cc_hist c) in
  list_eqb Nat.eqb ms (cc_modes c) && outcome_ok (T_restore f (cc_name c)) c.

(* the same history on the writer of the pinned (unrepaired) tree: used only to classify a disagreement *)
Definition check_case_legacy (c : ccase) : bool :=
  let '(f, ms) := run_saves (h5_write_legacy TF) true T_empty (cc_hist c) in
  list_eqb Nat.eqb ms (cc_modes c) && outcome_ok (T_restore f (cc_name c)) c.

(* diagnostics for replays: predicted modes, restore outcome code, numbers of the components that differ *)
Definition explain (c : ccase) : list nat * nat * list nat :=
  let '(f, ms) := run_saves (h5_write TF Z.eqb) false T_empty (cc_hist c) in
  match T_restore f (cc_name c), cc_restored c with
  | Ok s, Some o => (ms, 0, state_diff s o)
  | Ok s, None => (ms, 0, [])
  | Raise e, _ => (ms, cexn_code e, [])
  end.

(* ---------------------------------------------------------------- SQLite back-end *)
Definition l20_of (s : tstate) := project20 TF TStr TGen TObj TObj s.
Record sqcase := mkSQ {
  sq_hist : list tstate;           (* states saved one after the other into the same database file *)
  sq_saved : list nat;             (* observed per save: 1 = returned, 0 = raised *)
  sq_rexn : nat;
  sq_loaded : option tstate;       (* the loaded tuple, re-packed as a state (absent fields copied from the saved one) *)
  sq_prec_is_int : bool;           (* type(convergence_precision) is int (or None) *)
  sq_verbose_is_bool : bool
}.
Fixpoint run_sql (d : tdb) (l : list tstate) : tdb * list nat :=
  match l with
  | [] => (d, [])
  | s :: r => match T_save_sql d s with
              | Ok d' => let '(d2, ms) := run_sql d' r in (d2, 1 :: ms)
              | Raise _ => let '(d2, ms) := run_sql d r in (d2, 0 :: ms)      (* nothing was written *)
              end
  end.
Definition l20_eqb (a : loaded20 TF TStr TGen TObj TObj) (o : tstate) : bool :=
  let b := l20_of o in
  mat_eqb (r_bounds _ _ _ _ _ a) (r_bounds _ _ _ _ _ b) && list_eqb Z.eqb (r_precision _ _ _ _ _ a) (r_precision _ _ _ _ _ b) &&
  mat_eqb (r_real _ _ _ _ _ a) (r_real _ _ _ _ _ b) && Nat.eqb (r_E _ _ _ _ _ a) (r_E _ _ _ _ _ b) &&
  Nat.eqb (r_N _ _ _ _ _ a) (r_N _ _ _ _ _ b) && Nat.eqb (r_D _ _ _ _ _ a) (r_D _ _ _ _ _ b) &&
  optb Nat.eqb (r_prec _ _ _ _ _ a) (r_prec _ _ _ _ _ b) && Bool.eqb (r_verbose _ _ _ _ _ a) (r_verbose _ _ _ _ _ b) &&
  optb Nat.eqb (r_saving _ _ _ _ _ a) (r_saving _ _ _ _ _ b) && optb Z.eqb (r_seed _ _ _ _ _ a) (r_seed _ _ _ _ _ b) &&
  list_eqb Z.eqb (r_gen _ _ _ _ _ a) (r_gen _ _ _ _ _ b) && Nat.eqb (r_model _ _ _ _ _ a) (r_model _ _ _ _ _ b) &&
  obj_eqb (r_sched _ _ _ _ _ a) (r_sched _ _ _ _ _ b) && obj_eqb (r_loss _ _ _ _ _ a) (r_loss _ _ _ _ _ b) &&
  Nat.eqb (r_batch _ _ _ _ _ a) (r_batch _ _ _ _ _ b) &&
  Nat.eqb (r_pdims _ _ _ _ _ a) (r_pdims _ _ _ _ _ b) && mat_eqb (r_params _ _ _ _ _ a) (r_params _ _ _ _ _ b) &&
  list_eqb Z.eqb (r_losses _ _ _ _ _ a) (r_losses _ _ _ _ _ b) &&
  shape_eqb (h_shape _ (r_series _ _ _ _ _ a)) (h_shape _ (r_series _ _ _ _ _ b)) &&
  mat_eqb (h_rows _ (r_series _ _ _ _ _ a)) (h_rows _ (r_series _ _ _ _ _ b)) &&
  list_eqb Z.eqb (r_bnums _ _ _ _ _ a) (r_bnums _ _ _ _ _ b) && list_eqb Z.eqb (r_methods _ _ _ _ _ a) (r_methods _ _ _ _ _ b) &&
  dts_eqb (r_dts _ _ _ _ _ a) (r_dts _ _ _ _ _ b).

Definition check_sql (c : sqcase) : bool :=
  let '(d, ms) := run_sql (empty_db TF TStr TGen Z Z) (sq_hist c) in
  list_eqb Nat.eqb ms (sq_saved c) &&
  match T_load_sql d, sq_loaded c with
  | Ok l, Some o => Nat.eqb (sq_rexn c) 0 && l20_eqb l o && sq_prec_is_int c && sq_verbose_is_bool c
  | Raise e, None => Nat.eqb (sq_rexn c) (cexn_code e)
  | _, _ => false
  end.
