(* The simulation length in force (calibrator.py:106-116):
     if sim_length is None: self.N = self.real_data.shape[0]   else: self.N = sim_length   (a warning if they differ)
   and its use: every model invocation is model(param, self.N, seed) (calibrator.py:344-347), the batch is reshaped to
   (rows, ensemble_size, self.N, self.D) (calibrator.py:351-354).  Executable definitions only. *)
From Coq Require Import List ZArith.
Import ListNotations.

Definition sim_len (sim_length : option nat) (real_rows : nat) : nat :=
  match sim_length with None => real_rows | Some n => n end.

(* A calibrator model whose `model` takes the length explicitly is turned into the shared model's `model : Param -> Z -> Series`
   by fixing the length once, at construction - exactly what self.N does. *)
Definition model_at {Param Series : Type} (modelN : Param -> nat -> Z -> Series) (sim_length : option nat) (real_rows : nat)
  : Param -> Z -> Series := fun p seed => modelN p (sim_len sim_length real_rows) seed.
