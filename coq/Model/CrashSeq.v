(* C06, generator sweep (round 4) - extension of the crash model (Model/Crash.v) by what the tree does today and the
   first model did not express:

   * the third way series_samp.h5 is written (json_pandas_checkpointing.py, save_calibrator_state, the `is_prefix` test
     added by the repair of C04): the file exists but its rows are NOT the first rows of the series being saved (checkpoint
     of another run, of a later state, of another ensemble size, rows changed in place) - it is opened in mode "a", closed,
     then re-created in mode "w" and written by create_dataset;
   * a save on top of ANY folder, in particular on the folder an earlier interrupted save left (sequences of faults): the
     way the series file is written is decided by what is on disk at that moment; a series file without its dataset (left
     by a crash between h5py.File(mode="w") and create_dataset) makes `series_file["data"]` raise;
   * a previous checkpoint written by a version of the library that recorded no digests (its json is loaded without any
     check: load_calibrator_state, `cp.get("files_sha256", {})`).

   Nothing of Model/Crash.v is changed; `save_ops_m`, `run_ops2`, `load2` coincide with `save_ops`, `run_ops`, `load` on
   the situations the first model covers (lemmas seq_* in Proofs/CrashSeqP.v). Executable definitions only. *)
From Coq Require Import List Arith Bool.
From BlackIt Require Export Model.Crash.
Import ListNotations.

Inductive h5mode :=
| MAppend      (* file exists, its rows are a prefix of the series: resize + write the new rows in place *)
| MFresh       (* no file: h5py.File(mode="w") + create_dataset *)
| MRewrite.    (* file exists, rows are not a prefix: opened "a", closed, then as MFresh *)

Definition h5_ops_m (m : h5mode) : list op :=
  match m with
  | MAppend => [H5OpenRW; H5Resize; H5WriteRows; H5Close]
  | MFresh => [H5Create; H5CreateDataset; H5Close]
  | MRewrite => [H5OpenRW; H5Close; H5Create; H5CreateDataset; H5Close]
  end.

(* None: the file exists and cannot be read as a series file (no dataset "data", or not an HDF5 file): the statement
   after h5py.File(mode="a") raises and the save ends there *)
Definition data_ops (m : option h5mode) : list op :=
  text_ops FSched ++ text_ops FLoss ++ text_ops FCsv ++ match m with Some m' => h5_ops_m m' | None => [H5OpenRW] end.
Definition commit_ops : list op := [Digest FSched; Digest FLoss; Digest FCsv; Digest FH5] ++ text_ops FTmp ++ [Replace].

Definition save_ops_m (v : variant) (m : option h5mode) : list op :=
  match v with
  | Legacy => text_ops FJson ++ data_ops m
  | Repaired => data_ops m ++ match m with Some _ => commit_ops | None => [] end
  end.

(* the operations on a folder in any state: resizing to the size the dataset already has / writing no row changes nothing *)
Definition apply_op2 (o : op) (d : folder) : folder :=
  match o with
  | H5Resize => match f_h5 d with Old => set FH5 Resized d | _ => d end
  | H5WriteRows => match f_h5 d with Resized => set FH5 New d | _ => d end
  | _ => apply_op o d
  end.
Definition run_ops2 (l : list op) (d : folder) : folder := fold_left (fun d o => apply_op2 o d) l d.

Definition events_m (v : variant) (m : option h5mode) : list op := filter observable (save_ops_m v m).

(* where one save of a sequence stops *)
Inductive stop :=
| SComplete                                  (* ran to its end (or to the exception the code raises by itself) *)
| SEvent (i : nat)                           (* the i-th observable operation raised instead of running *)
| SCut (f : file) (empty : bool) (c : cut).  (* file f cut, the files written before it complete *)

Definition step_folder (v : variant) (m : option h5mode) (d : folder) (st : stop) : folder :=
  let ops := save_ops_m v m in
  match st with
  | SComplete => run_ops2 ops d
  | SEvent i => run_ops2 (firstn (ops_before_event i ops) ops) d
  | SCut f true _ => set f Empty (run_ops2 (firstn (index_of (writes f) ops) ops) d)
  | SCut f false c => set f (Partial c) (run_ops2 (firstn (index_of (writes f) ops) ops) d)
  end.

Section Seq.
  Variables J Sc Lo Hdr Row HRow : Type.
  Variable J_eqb : J -> J -> bool.
  Variable S_eqb : Sc -> Sc -> bool.
  Variable L_eqb : Lo -> Lo -> bool.
  Variable Hdr_eqb : Hdr -> Hdr -> bool.
  Variable Row_eqb : Row -> Row -> bool.
  Variable HRow_eqb : HRow -> HRow -> bool.
  Variable zrow : HRow.
  Variable D : Type.
  Variable digest : content Sc Lo Hdr Row HRow -> D.
  Variable D_eqb : D -> D -> bool.

  Notation state := (state J Sc Lo Hdr Row HRow).
  Notation content := (content Sc Lo Hdr Row HRow).
  Notation content_of := (content_of J Sc Lo Hdr Row HRow zrow).

  (* json_pandas_checkpointing.py, `is_prefix`: same trailing shape, not more rows, same bytes (rows are compared by
     their bytes: a row of another shape is another row) *)
  Fixpoint prefix_b (a b : list HRow) : bool :=
    match a, b with
    | [], _ => true
    | x :: a', y :: b' => HRow_eqb x y && prefix_b a' b'
    | _ :: _, [] => false
    end.

  Definition mode_of (s0 s1 : state) (d : folder) : option h5mode :=
    match content_of s0 s1 FH5 (f_h5 d) with
    | KAbsent _ _ _ _ _ => Some MFresh
    | KH _ _ _ _ _ rows => Some (if prefix_b rows (sh s1) then MAppend else MRewrite)
    | _ => None
    end.

  (* the files of the complete checkpoint s *)
  Definition canon (s : state) (f : file) : content :=
    match f with
    | FSched => KS _ _ _ _ _ (ss s)
    | FLoss => KL _ _ _ _ _ (sl s)
    | FCsv => KCsv _ _ _ _ _ (shd s) (sr s) false
    | FH5 => KH _ _ _ _ _ (sh s)
    | FJson | FTmp => KEmpty _ _ _ _ _
    end.

  (* json.load of calibration_params.json. The json of a complete save records the digests of the files of that
     checkpoint (lemma complete_leaves_canon: whatever the folder was, the data files of a save that reaches its digest
     step are those of s1); oldfmt = the previous checkpoint was written by a version that recorded no digests *)
  Definition read_json2 (v : variant) (oldfmt : bool) (s0 s1 : state) (x : slot) : rd (J * option (list D)) :=
    match x with
    | Whole w =>
        ROk (sj (pick J Sc Lo Hdr Row HRow s0 s1 w),
             match v, w with
             | Legacy, _ => None
             | Repaired, W0 => if oldfmt then None else Some (map (fun f => digest (canon s0 f)) data_files)
             | Repaired, W1 => Some (map (fun f => digest (canon s1 f)) data_files)
             end)
    | _ => RErr
    end.

  Definition load2 (v : variant) (t : tail_choice) (oldfmt : bool) (s0 s1 : state) (d : folder)
    : rd (rstate J Sc Lo Hdr Row HRow) :=
    match read_json2 v oldfmt s0 s1 (f_json d) with
    | RErr => RErr
    | ROk (j, dg) =>
        let ks := map (fun f => content_of s0 s1 f (get f d)) data_files in
        if match dg with None => true | Some ds => digests_ok Sc Lo Hdr Row HRow D digest D_eqb ds ks end then
          match read_csv J Sc Lo Hdr Row HRow t s1 (content_of s0 s1 FCsv (f_csv d)),
                read_S Sc Lo Hdr Row HRow (content_of s0 s1 FSched (f_sched d)),
                read_L Sc Lo Hdr Row HRow (content_of s0 s1 FLoss (f_loss d)),
                read_H Sc Lo Hdr Row HRow (content_of s0 s1 FH5 (f_h5 d)) with
          | ROk (h, rows, bad), ROk s, ROk l, ROk hr => ROk (mkR J Sc Lo Hdr Row HRow j s l h rows bad hr)
          | _, _, _, _ => RErr
          end
        else RErr
    end.

  Definition class2 (v : variant) (t : tail_choice) (oldfmt has_prev : bool) (s0 s1 : state) (d : folder) : cls :=
    match load2 v t oldfmt s0 s1 d with
    | RErr => Error
    | ROk r =>
        if has_prev && same J Sc Lo Hdr Row HRow J_eqb S_eqb L_eqb Hdr_eqb Row_eqb HRow_eqb r s0 then Exactly_old
        else if same J Sc Lo Hdr Row HRow J_eqb S_eqb L_eqb Hdr_eqb Row_eqb HRow_eqb r s1 then Exactly_new else Hybrid
    end.

  (* a sequence of saves of s1, each stopped somewhere, each choosing its way of writing the series file from what
     is on disk when it starts *)
  Definition seq_step (v : variant) (s0 s1 : state) (d : folder) (st : stop) : folder :=
    step_folder v (mode_of s0 s1 d) d st.
  Definition seq_folder (v : variant) (s0 s1 : state) (d : folder) (l : list stop) : folder :=
    fold_left (seq_step v s0 s1) l d.

  (* the stop leaves the save before its commit (os.replace): the only operation that changes calibration_params.json
     in the repaired order *)
  Definition before_commit (m : option h5mode) (st : stop) : bool :=
    match st with
    | SComplete => match m with None => true | Some _ => false end
    | SEvent i => Nat.ltb (ops_before_event i (save_ops_m Repaired m)) (length (save_ops_m Repaired m))
                  || match m with None => true | Some _ => false end
    | SCut f _ _ => match f with FJson => false | _ => true end
    end.
End Seq.

(* ------------------------------------------------------------------ bundled (theorem statements) *)
Definition class2_of (c : components) (v : variant) (t : tail_choice) (oldfmt has_prev : bool) (s0 s1 : checkpoint c)
  (d : folder) : cls :=
  class2 (cJ c) (cSc c) (cLo c) (cHdr c) (cRow c) (cHRow c) (cJ_eqb c) (cS_eqb c) (cL_eqb c) (cHdr_eqb c)
    (cRow_eqb c) (cHRow_eqb c) (czrow c) (cD c) (cdigest c) (cD_eqb c) v t oldfmt has_prev s0 s1 d.
Definition mode_of_c (c : components) (s0 s1 : checkpoint c) (d : folder) : option h5mode :=
  mode_of (cJ c) (cSc c) (cLo c) (cHdr c) (cRow c) (cHRow c) (cHRow_eqb c) (czrow c) s0 s1 d.
Definition seq_folder_c (c : components) (v : variant) (s0 s1 : checkpoint c) (d : folder) (l : list stop) : folder :=
  seq_folder (cJ c) (cSc c) (cLo c) (cHdr c) (cRow c) (cHRow c) (cHRow_eqb c) (czrow c) v s0 s1 d l.
(* every save of the sequence stops before its commit *)
Fixpoint all_before_commit (c : components) (s0 s1 : checkpoint c) (d : folder) (l : list stop) : bool :=
  match l with
  | [] => true
  | st :: r =>
      before_commit (mode_of_c c s0 s1 d) st
      && all_before_commit c s0 s1 (step_folder Repaired (mode_of_c c s0 s1 d) d st) r
  end.
(* the rows on disk are not the first rows of the series being saved (another run, a later state, edited rows) *)
Definition not_prefix (c : components) (s0 s1 : checkpoint c) : Prop :=
  prefix_b (cHRow c) (cHRow_eqb c) (sh s0) (sh s1) = false.

(* ------------------------------------------------------------------ correspondence cases *)
Record case2 := mkCase2 {
  k_prev : bool;                          (* the folder held s0 before the first save *)
  k_oldfmt : bool;                        (* ... written without digests *)
  k_zrow : nat; k_s0 : tstate; k_s1 : tstate;
  k_steps : list (list op * stop);        (* per save: the observed operations of an uninterrupted save on the folder
                                             as it was at that moment, and where this save stopped *)
  k_obs : cls }.

Definition tmode (zr : nat) (s0 s1 : tstate) (d : folder) : option h5mode := mode_of_c (tcomponents zr) s0 s1 d.
Definition tclass2_set (v : variant) (oldfmt has_prev : bool) (zr : nat) (s0 s1 : tstate) (d : folder) : list cls :=
  map (fun t => class2_of (tcomponents zr) v t oldfmt has_prev s0 s1 d) [TIntact; TGarbled; TRaise].

Definition detect_m (m : option h5mode) (evs : list op) : option variant :=
  if ops_eqb evs (events_m Legacy m) then Some Legacy
  else if ops_eqb evs (events_m Repaired m) then Some Repaired else None.

(* every save of the sequence must show the operations the model predicts for the folder it starts on *)
Fixpoint run_steps (v : variant) (zr : nat) (s0 s1 : tstate) (d : folder) (l : list (list op * stop)) : option folder :=
  match l with
  | [] => Some d
  | (evs, st) :: r =>
      let m := tmode zr s0 s1 d in
      if ops_eqb evs (events_m v m) then run_steps v zr s0 s1 (step_folder v m d st) r else None
  end.

Definition check_case2 (c : case2) : bool :=
  let d0 := if k_prev c then folder_old else folder_absent in
  match k_steps c with
  | [] => false
  | (evs, _) :: _ =>
      match detect_m (tmode (k_zrow c) (k_s0 c) (k_s1 c) d0) evs with
      | None => false
      | Some v =>
          match run_steps v (k_zrow c) (k_s0 c) (k_s1 c) d0 (k_steps c) with
          | None => false
          | Some d => cls_in (k_obs c) (tclass2_set v (k_oldfmt c) (k_prev c) (k_zrow c) (k_s0 c) (k_s1 c) d)
          end
      end
  end.

(* the way the model predicts the series file is written by each save of the sequence (evidence / diagnostics) *)
Fixpoint modes_of_steps (v : variant) (zr : nat) (s0 s1 : tstate) (d : folder) (l : list stop) : list (option h5mode) :=
  match l with
  | [] => []
  | st :: r => tmode zr s0 s1 d :: modes_of_steps v zr s0 s1 (step_folder v (tmode zr s0 s1 d) d st) r
  end.

(* ------------------------------------------------------------------ SQLite: sequences of failed saves *)
Section SqlSeq.
  Variable St : Type.
  (* each element: the statement that raises and whether it raised after running *)
  Definition failed_saves (v : variant) (s1 : St) (l : list (nat * bool)) (x : db St) : db St :=
    fold_left (fun x f => failed_save St v s1 (fst f) (snd f) x) l x.
End SqlSeq.

Record sqlseq := mkSqlSeq {
  qs_prev : bool; qs_stmts : list stmt;
  qs_faults : list (nat * bool);          (* the failed saves, in order *)
  qs_then_complete : bool;                (* followed by a save that completes *)
  qs_obs : sql_out }.

Definition sqlseq_check (c : sqlseq) : bool :=
  match sql_detect (qs_stmts c) with
  | None => false
  | Some v =>
      let x0 := db_of nat (if qs_prev c then Some 0 else None) in
      let x := failed_saves nat v 1 (qs_faults c) x0 in
      let x := if qs_then_complete c then complete_save nat v 1 x else x in
      sql_out_eqb (qs_obs c)
        (match sql_load nat x with
         | RErr => SErr
         | ROk r => if Nat.eqb r 0 then (if qs_prev c then SOld else SOther) else if Nat.eqb r 1 then SNew else SOther
         end)
  end.
