(* Model of BaseLoss.compute_loss (black_it/loss_functions/base.py:53-142) over exact rationals, with the
   single-coordinate loss `compute_loss_1d` an arbitrary Section variable, plus exact (transcendental-free)
   specifications of the built-in single-coordinate losses that C08 speaks about (Minkowski p=1 / p=2 squared,
   identity- and inverse-variance-weighted method of moments on a user moment function, ensemble-average form of
   GSL-div).  Executable definitions only; proofs are in Proofs/LossBaseP.v.

   Array layout: real_data (N,D) is the list of its D columns  real[:, i];  sim_data_ensemble (E,N,D) is the list of
   its E members, each the list of its D columns  sim[e, :, i].  Nothing in base.py depends on the memory layout. *)
From Coq Require Import List QArith Qabs Bool Arith.
From BlackIt Require Export Lib.Cases.
Import ListNotations.
Open Scope Q_scope.

Definition series := list Q.
Definition ensemble := list series.                  (* sim_data_ensemble[:, :, i] : E series *)
Definition filt := option (series -> series).        (* an entry of coordinate_filters; None = no filter *)

Inductive errmsg :=
| WeightsLen (got want : nat)    (* "the length of coordinate_weights should be equal to the number of coordinates, got .. and .." *)
| FiltersLen (got want : nat).   (* "the length of coordinate_filters should be equal ..." *)
Inductive exn := ValueError (m : errmsg).
Inductive result (A : Type) := Ok (a : A) | Raise (e : exn).
Arguments Ok {A} a.
Arguments Raise {A} e.

(* sim_data_ensemble[:, :, i] *)
Definition column (i : nat) (sim : list (list series)) : ensemble := map (fun m => nth i m []) sim.

(* base.py:89-97 : None -> the slice itself; else the filter applied to every ensemble member's series *)
Definition apply_filter (f : filt) (ens : ensemble) : ensemble :=
  match f with None => ens | Some g => map g ens end.

(* base.py:81-100 _filter_data : for i, filter_ in enumerate(filters) *)
Fixpoint filter_data_from (i : nat) (fs : list filt) (sim : list (list series)) : list ensemble :=
  match fs with
  | [] => []
  | f :: r => apply_filter f (column i sim) :: filter_data_from (S i) r sim
  end.
Definition filter_data (fs : list filt) (sim : list (list series)) : list ensemble := filter_data_from 0 fs sim.

(* base.py:107  np.ones(num_coords) / num_coords *)
Definition default_weights (D : nat) : list Q := map (fun o => o / inject_Z (Z.of_nat D)) (repeat 1 D).

(* base.py:102-120 *)
Definition check_coordinate_weights (cw : option (list Q)) (D : nat) : result (list Q) :=
  match cw with
  | None => Ok (default_weights D)
  | Some w => if Nat.eqb (length w) D then Ok w else Raise (ValueError (WeightsLen (length w) D))
  end.

(* base.py:122-141 *)
Definition check_coordinate_filters (cf : option (list filt)) (D : nat) : result (list filt) :=
  match cf with
  | None => Ok (repeat None D)
  | Some fs => if Nat.eqb (length fs) D then Ok fs else Raise (ValueError (FiltersLen (length fs) D))
  end.

(* the argument pairs at which compute_loss_1d is invoked, in call order (base.py:75-76) *)
Definition l1_args (cw : option (list Q)) (cf : option (list filt)) (sim : list (list series)) (real : list series)
  : list (ensemble * series) :=
  let D := length real in
  match check_coordinate_weights cw D with
  | Raise _ => []
  | Ok _ =>
      match check_coordinate_filters cf D with
      | Raise _ => []
      | Ok fs => let filtered := filter_data fs sim in
                 map (fun i => (nth i filtered [], nth i real [])) (seq 0 D)
      end
  end.

(* a coordinate as a record (w_i, f_i, sim_i = sim[:, :, i], real_i = real[:, i]) *)
Record coord := { cw_ : Q; cf_ : filt; csim : ensemble; creal : series }.

Section Base.
  (* the user's / subclass's compute_loss_1d(sim_data_ensemble (E,N), real_data (N,)) : arbitrary *)
  Variable l1 : ensemble -> series -> Q.

  (* base.py:74-76   loss = 0; for i in range(num_coords): loss += compute_loss_1d(filtered[i], real[:, i]) * weights[i] *)
  Definition loss_loop (ws : list Q) (filtered : list ensemble) (real : list series) (D : nat) : Q :=
    fold_left (fun loss i => loss + l1 (nth i filtered []) (nth i real []) * nth i ws 0) (seq 0 D) 0.

  (* base.py:53-78 ; the weight check precedes the filter check, both precede every call of compute_loss_1d *)
  Definition compute_loss (cw : option (list Q)) (cf : option (list filt)) (sim : list (list series))
             (real : list series) : result Q :=
    let D := length real in                                 (* num_coords = real_data.shape[1] *)
    match check_coordinate_weights cw D with
    | Raise e => Raise e
    | Ok ws =>
        match check_coordinate_filters cf D with
        | Raise e => Raise e
        | Ok fs => Ok (loss_loop ws (filter_data fs sim) real D)
        end
    end.

  (* ---- the same thing seen as a list of coordinate records (w_i, f_i, sim_i, real_i) ---- *)

  (* value of compute_loss_1d on one coordinate: the filter touches the simulated series only *)
  Definition single (c : coord) : Q := l1 (apply_filter (cf_ c) (csim c)) (creal c).

  (* the (E, N, D) array whose i-th coordinate slice is csim (c_i) *)
  Definition sim_of (E : nat) (cs : list coord) : list (list series) :=
    map (fun e => map (fun c => nth e (csim c) []) cs) (seq 0 E).

  (* the call of the real compute_loss that a list of coordinate records stands for *)
  Definition run (E : nat) (cs : list coord) : result Q :=
    compute_loss (Some (map cw_ cs)) (Some (map cf_ cs)) (sim_of E cs) (map creal cs).

  (* the same with coordinate_weights=None *)
  Definition run_default (E : nat) (cs : list coord) : result Q :=
    compute_loss None (Some (map cf_ cs)) (sim_of E cs) (map creal cs).

  (* a single-coordinate evaluation: the loss object restricted to coordinate c with weight 1 *)
  Definition single_eval (E : nat) (c : coord) : result Q :=
    run E [ {| cw_ := 1; cf_ := cf_ c; csim := csim c; creal := creal c |} ].

  Definition set_weight (w : Q) (c : coord) : coord := {| cw_ := w; cf_ := cf_ c; csim := csim c; creal := creal c |}.
  Fixpoint set_weights (ws : list Q) (cs : list coord) : list coord :=
    match ws, cs with
    | w :: ws', c :: cs' => set_weight w c :: set_weights ws' cs'
    | _, _ => []
    end.
End Base.

(* equality of outcomes: same exception, or values equal as rationals *)
Definition req (a b : result Q) : Prop :=
  match a, b with
  | Ok x, Ok y => x == y
  | Raise e, Raise e' => e = e'
  | _, _ => False
  end.

(* ------------------------------------------------------------------------------------------------------------
   Exact specifications of built-in single-coordinate losses (the parts that need no sqrt / log / cos).        *)

Definition qsum (l : list Q) : Q := fold_right Qplus 0 l.
Definition qlen (l : list Q) : Q := inject_Z (Z.of_nat (length l)).
Definition mean (l : list Q) : Q := qsum l / qlen l.                   (* np.mean ; 0 on the empty list (numpy: nan) *)

(* np.mean(vs, axis=0) of E vectors of width K *)
Definition vmean (K : nat) (vs : list (list Q)) : list Q :=
  map (fun k => mean (map (fun v => nth k v 0) vs)) (seq 0 K).

Fixpoint zipw (f : Q -> Q -> Q) (a b : list Q) : list Q :=
  match a, b with x :: a', y :: b' => f x y :: zipw f a' b' | _, _ => [] end.

Definition sqr (x : Q) : Q := x * x.

(* minkowski.py:54-57 : sim.mean(axis=0), then  (sum_t |u_t - v_t|^p)^(1/p).  phi = |.| gives p=1 exactly,
   phi = sqr gives the SQUARE of the p=2 value (the root itself is C07's business). *)
Definition mink_pow (phi : Q -> Q) (ens : ensemble) (real : series) : Q :=
  qsum (map phi (zipw Qminus (vmean (length real) ens) real)).
Definition mink_p1 := mink_pow Qabs.
Definition mink_p2sq := mink_pow sqr.

(* msm.py:178-199 with covariance_mat="identity", standardise_moments=False, any moment calculator m returning K
   moments:  g = m(real) - mean_e m(sim_e) ;  g.g *)
Definition sqdist (a b : list Q) : Q := qsum (map sqr (zipw Qminus a b)).
Definition msm_id_moms (K : nat) (sim_moms : list (list Q)) (real_mom : list Q) : Q := sqdist real_mom (vmean K sim_moms).
Definition msm_id (m : series -> list Q) (ens : ensemble) (real : series) : Q :=
  msm_id_moms (length (m real)) (map m ens) (m real).

(* msm.py:205-212 inverse_variance: W = diag(1 / mean_e (m(real) - m(sim_e))^2) ;  g W g *)
Definition msm_iv_moms (K : nat) (sim_moms : list (list Q)) (real_mom : list Q) : Q :=
  let g := zipw Qminus real_mom (vmean K sim_moms) in
  let var := vmean K (map (fun sm => map sqr (zipw Qminus real_mom sm)) sim_moms) in
  qsum (zipw (fun gk vk => gk * (1 / vk) * gk) g var).
Definition msm_iv (m : series -> list Q) (ens : ensemble) (real : series) : Q :=
  msm_iv_moms (length (m real)) (map m ens) (m real).

(* any loss of the form  g(mean_e h(sim_e), real)  (Minkowski, MSM, Fourier) and of the form  mean_e h(sim_e, real)  (GSL-div) *)
Definition mean_form (K : nat) (h : series -> list Q) (g : list Q -> series -> Q) (ens : ensemble) (real : series) : Q :=
  g (vmean K (map h ens)) real.
Definition sum_form (h : series -> series -> Q) (ens : ensemble) (real : series) : Q :=
  qsum (map (fun s => h s real) ens) / qlen (map (fun s => h s real) ens).

(* ------------------------------------------------------------------------------------------------------------
   Correspondence: the token user loss and token filters used by harness/props/c08.py, and check_case.         *)

(* sum_k (a*k + b) * x_k, k counted from k0 *)
Fixpoint ramp_sum (a b : Z) (k : Z) (xs : series) : Q :=
  match xs with
  | [] => 0
  | x :: r => Qred (inject_Z (a * k + b) * x + ramp_sum a b (k + 1) r)
  end.
Fixpoint dot (a b : series) : Q :=
  match a, b with x :: a', y :: b' => Qred (x * y + dot a' b') | _, _ => 0 end.
Fixpoint member_sum (e : Z) (ens : ensemble) : Q :=
  match ens with
  | [] => 0
  | s :: r => Qred (ramp_sum e e 0 s + member_sum (e + 1) r)     (* e*(t+1), e = 1-based member index, t from 0 *)
  end.
(* token_l1(ens, real) = sum_{e,t} (e+1)(t+1) ens[e][t] + sum_t (2t+3) real[t] + ens[0] . real  (order- and
   position-sensitive in both arguments, couples them, integer coefficients: exact on dyadic data) *)
Definition token_l1 (ens : ensemble) (real : series) : Q :=
  Qred (member_sum 1 ens + ramp_sum 2 3 0 real + dot (hd [] ens) real).

Inductive ftok := FAffine (a b : Q) | FReverse | FCumsum | FSquare.
Fixpoint cumsum_from (acc : Q) (xs : series) : series :=
  match xs with [] => [] | x :: r => Qred (acc + x) :: cumsum_from (Qred (acc + x)) r end.
Definition interp (f : ftok) : series -> series :=
  match f with
  | FAffine a b => map (fun x => Qred (a * x + b))
  | FReverse => @rev Q
  | FCumsum => cumsum_from 0
  | FSquare => map (fun x => Qred (x * x))
  end.

Inductive obs := ObsVal (v : Q) | ObsErr (m : errmsg).

Definition errmsg_eqb (a b : errmsg) : bool :=
  match a, b with
  | WeightsLen g w, WeightsLen g' w' => Nat.eqb g g' && Nat.eqb w w'
  | FiltersLen g w, FiltersLen g' w' => Nat.eqb g g' && Nat.eqb w w'
  | _, _ => false
  end.
Fixpoint series_eqb (a b : series) : bool :=
  match a, b with
  | [], [] => true
  | x :: a', y :: b' => Qeq_bool x y && series_eqb a' b'
  | _, _ => false
  end.
Fixpoint ens_eqb (a b : ensemble) : bool :=
  match a, b with
  | [], [] => true
  | x :: a', y :: b' => series_eqb x y && ens_eqb a' b'
  | _, _ => false
  end.
Fixpoint args_eqb (a b : list (ensemble * series)) : bool :=
  match a, b with
  | [], [] => true
  | (e, r) :: a', (e', r') :: b' => ens_eqb e e' && series_eqb r r' && args_eqb a' b'
  | _, _ => false
  end.

(* (coordinate_weights, coordinate_filters, sim, real, observed outcome, logged compute_loss_1d arguments, tolerance)
   tolerance is 0 (exact) except for the default weights 1/D with D not a power of two *)
Definition case : Type :=
  option (list Q) * option (list (option ftok)) * list (list series) * list series * obs * list (ensemble * series) * Q.

Definition check_case (c : case) : bool :=
  let '(cw, cf, sim, real, o, args, tol) := c in
  let cf' := option_map (map (option_map interp)) cf in
  match compute_loss token_l1 cw cf' sim real, o with
  | Ok v, ObsVal v' => Qle_bool (Qabs (v - v')) tol && args_eqb (l1_args cw cf' sim real) args
  | Raise (ValueError m), ObsErr m' => errmsg_eqb m m' && args_eqb (l1_args cw cf' sim real) args && args_eqb args []
  | _, _ => false
  end.

(* spec tie for the built-in exact specs (single coordinate, weight 1):
   kind 0: Minkowski p=1 value v ; kind 1: Minkowski p=2, v*v against mink_p2sq ; kind 2: MSM identity with the
   token moment calculator ; kind 3: MSM inverse_variance with the token moment calculator.  |model - obs| <= tol. *)
Definition token_moments (s : series) : list Q :=
  [ mean s ; mean (map sqr s) ; Qred (hd 0 s * last s 0) ; ramp_sum 1 1 0 s ].

Definition spec_case : Type := nat * ensemble * series * Q * Q.
Definition check_spec_case (c : spec_case) : bool :=
  let '(kind, ens, real, v, tol) := c in
  let m := match kind with
           | 0%nat => mink_p1 ens real
           | 1%nat => mink_p2sq ens real
           | 2%nat => msm_id token_moments ens real
           | _ => msm_iv token_moments ens real
           end in
  let o := match kind with 1%nat => v * v | _ => v end in
  Qle_bool (Qabs (Qred m - o)) tol.
