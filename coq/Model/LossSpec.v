(* C07 - the published definitions of the built-in losses as CoqInterval [Tree.expr] terms.

   Everything here is an executable definition (no proofs).  A loss is a *program* (Lib/IvEval.v): a list of
   expressions in which definition k may refer to earlier ones through [Evar]; the first definitions are the inputs
   (exact dyadic numbers m*2^e), so a case program is closed and [run_r prog []] is literally the real-valued
   definition evaluated on the case's data, [run_i prec prog []] its verified enclosure.

   Discrete parts (symbolisation, words, counts, number of kept frequencies, signs of the third/fourth cumulant, "is
   the variance exactly zero") are computed exactly over Z/Q from the same inputs and select the shape of the term.

   Anchors: loss_functions/base.py:53-142 (combination), minkowski.py:33-75, msm.py:159-228 + utils/time_series.py:43-92,
   fourier.py:36-146, gsl_div.py:98-306, likelihood.py:30-118. *)
From Coq Require Import ZArith QArith Qabs Qround List Bool.
From Interval Require Import Eval.Tree Interval.Interval Interval.Float Interval.Float_full Float.Specific_ops
  Float.Specific_bigint Real.Xreal Float.Basic.
From BlackIt Require Import Lib.IvEval.
Import ListNotations.
Open Scope Z_scope.

(* ------------------------------------------------------------------ expression helpers *)
Definition cst (z : Z) : expr := Econst (Int z).
Definition eadd a b := Ebinary Add a b.
Definition esub a b := Ebinary Sub a b.
Definition emul a b := Ebinary Mul a b.
Definition ediv a b := Ebinary Div a b.
Definition eneg a := Eunary Neg a.
Definition eabs a := Eunary Abs a.
Definition esqrt a := Eunary Sqrt a.
Definition esqr a := Eunary Sqr a.
Definition eexp a := Eunary Exp a.
Definition eln a := Eunary Ln a.
Definition ecos a := Eunary Cos a.
Definition esin a := Eunary Sin a.
Definition epow a (n : Z) := Eunary (PowerInt n) a.
Definition esum (l : list expr) : expr := fold_right eadd (cst 0) l.
Definition elen {A} (l : list A) : expr := cst (Z.of_nat (length l)).
Definition emean (l : list expr) : expr := ediv (esum l) (elen l).
Definition qexpr (q : Q) : expr := ediv (cst (Qnum q)) (cst (Zpos (Qden q))).
Definition enan : expr := Eunary Inv (cst 0).          (* an undefined value: 1/0 *)

(* exact dyadic inputs  m * 2^e *)
Definition dy := (Z * Z)%type.
Definition dyQ (d : dy) : Q :=
  let (m, e) := d in if 0 <=? e then inject_Z (m * 2 ^ e) else Qmake m (Z.to_pos (2 ^ (- e))).
Definition dy_expr (d : dy) : expr :=
  let (m, e) := d in if 0 <=? e then cst (m * 2 ^ e) else ediv (cst m) (cst (2 ^ (- e))).

Definition Qlt_b (a b : Q) : bool := negb (Qle_bool b a).
Definition Qsum (l : list Q) : Q := fold_right (fun x a => Qred (x + a)) 0%Q l.
Definition Qmean (l : list Q) : Q := Qred (Qsum l / inject_Z (Z.of_nat (length l))).
Definition Qsign (q : Q) : Z := Z.sgn (Qnum q).
Definition Qminl (l : list Q) : Q := match l with [] => 0%Q | x :: r => fold_left (fun a y => if Qle_bool y a then y else a) r x end.
Definition Qmaxl (l : list Q) : Q := match l with [] => 0%Q | x :: r => fold_left (fun a y => if Qle_bool a y then y else a) r x end.

Fixpoint map2 {A B C} (f : A -> B -> C) (l : list A) (m : list B) : list C :=
  match l, m with a :: l', b :: m' => f a b :: map2 f l' m' | _, _ => [] end.
Fixpoint zrange (k : Z) (n : nat) : list Z := match n with O => [] | S n' => k :: zrange (k + 1) n' end.

(* ------------------------------------------------------------------ program builder (sharing) *)
Record bst := mkB { nxt : nat; acc : list expr }.
Definition b0 : bst := mkB 0 [].
(* name a sub-term; variables and constants are not re-bound *)
Definition bind (e : expr) (s : bst) : expr * bst :=
  match e with
  | Evar _ | Econst _ => (e, s)
  | _ => (Evar (nxt s), mkB (S (nxt s)) (e :: acc s))
  end.
Definition bindF (e : expr) (s : bst) : nat * bst := (nxt s, mkB (S (nxt s)) (e :: acc s)).
Fixpoint binds (es : list expr) (s : bst) : list expr * bst :=
  match es with
  | [] => ([], s)
  | e :: r => let '(v, s1) := bind e s in let '(vs, s2) := binds r s1 in (v :: vs, s2)
  end.
Definition prog_of (s : bst) : list expr := rev (acc s).

(* a series: handles of its elements and their exact values *)
Record ser := mkSer { sx : list expr; sq : list Q }.
Definition bind_series (ds : list dy) (s : bst) : ser * bst :=
  let '(vs, s1) := binds (map dy_expr ds) s in (mkSer vs (map dyQ ds), s1).
Fixpoint bind_ens (ens : list (list dy)) (s : bst) : list ser * bst :=
  match ens with
  | [] => ([], s)
  | d :: r => let '(x, s1) := bind_series d s in let '(xs, s2) := bind_ens r s1 in (x :: xs, s2)
  end.

(* pointwise mean over the ensemble: element t is mean_e ens[e][t] *)
Definition pw_mean (ens : list (list expr)) (n : nat) : list expr :=
  map (fun t => emean (map (fun s => nth t s (cst 0)) ens)) (seq 0 n).
Definition pw_meanQ (ens : list (list Q)) (n : nat) : list Q :=
  map (fun t => Qmean (map (fun s => nth t s 0%Q) ens)) (seq 0 n).

(* ------------------------------------------------------------------ base class: weighted combination *)
(* base.py:70-79  loss = sum_i loss1d_i * w_i ;  base.py:104-105 default w_i = 1/D *)
Definition default_weights (d : nat) : list expr := repeat (ediv (cst 1) (cst (Z.of_nat d))) d.
Definition wcombine (ws ls : list expr) : expr := esum (map2 (fun l w => emul l w) ls ws).

(* ------------------------------------------------------------------ Minkowski (minkowski.py:60-75) *)
(* p-th root; for p outside {1,2,4} it is exp(ln S / p), S = 0 (decided exactly) giving 0 *)
Definition eroot (p : Z) (zero : bool) (s : expr) : expr :=
  if p =? 1 then s else if p =? 2 then esqrt s else if p =? 4 then esqrt (esqrt s)
  else if zero then cst 0 else eexp (ediv (eln s) (cst p)).
Definition mink_sum (p : Z) (ms rs : list expr) : expr :=
  esum (map2 (fun m r => epow (eabs (esub m r)) p) ms rs).
Definition minkowski_1d (p : Z) (ens : list ser) (real : ser) : expr :=
  let n := length (sx real) in
  let zero := forallb (fun b => b) (map2 Qeq_bool (pw_meanQ (map sq ens) n) (sq real)) in
  eroot p zero (mink_sum p (pw_mean (map sx ens) n) (sx real)).

(* ------------------------------------------------------------------ moments (utils/time_series.py:43-92) *)
Inductive momk := Mean | Std | Skew3 | Kurt4 | Acf (k : nat) | Raw2.

Definition absdiffQ (l : list Q) : list Q := map2 (fun a b => Qabs (Qred (b - a))) l (tl l).
Definition absdiffE (l : list expr) : list expr := map2 (fun a b => eabs (esub b a)) l (tl l).

(* shared quantities of one series *)
Record mctx := mkM { m_n : expr; m_x : list expr; m_mu : expr; m_d : list expr; m_ss : expr (* sum d^2 *);
                     m_var0 : bool; m_sg3 : Z; m_sg4 : Z }.
Definition mk_ctx (x : ser) (s : bst) : mctx * bst :=
  let n := elen (sx x) in
  let '(mu, s1) := bind (emean (sx x)) s in
  let '(d, s2) := binds (map (fun v => esub v mu) (sx x)) s1 in
  let '(ss, s3) := bind (esum (map esqr d)) s2 in
  let muQ := Qmean (sq x) in
  let dQ := map (fun v => Qred (v - muQ)) (sq x) in
  let m2 := Qmean (map (fun v => v * v)%Q dQ) in
  let m3 := Qmean (map (fun v => v * v * v)%Q dQ) in
  let m4 := Qmean (map (fun v => v * v * v * v)%Q dQ) in
  (mkM n (sx x) mu d ss (Qeq_bool m2 0) (Qsign m3) (Qsign (m4 - 3 * m2 * m2)%Q), s3).

Definition signed (sg : Z) (e : expr) : expr := if sg =? 0 then cst 0 else if sg <? 0 then eneg e else e.

(* guard = np.nan_to_num of get_mom_ts_1d: skewness, kurtosis, autocorrelations of a constant series are 0 *)
Definition moment (guard : bool) (c : mctx) (k : momk) : expr :=
  let m2 := ediv (m_ss c) (m_n c) in
  match k with
  | Mean => m_mu c
  | Raw2 => ediv (esum (map esqr (m_x c))) (m_n c)
  | Std => esqrt m2
  | Skew3 => if guard && m_var0 c then cst 0 else
      let m3 := ediv (esum (map (fun v => epow v 3) (m_d c))) (m_n c) in
      let sk := ediv m3 (emul m2 (esqrt m2)) in
      signed (m_sg3 c) (eexp (ediv (eln (eabs sk)) (cst 3)))
  | Kurt4 => if guard && m_var0 c then cst 0 else
      let m4 := ediv (esum (map (fun v => epow v 4) (m_d c))) (m_n c) in
      let ku := esub (ediv m4 (esqr m2)) (cst 3) in
      signed (m_sg4 c) (esqrt (esqrt (eabs ku)))
  | Acf j => if guard && m_var0 c then cst 0 else
      ediv (esum (map2 emul (m_d c) (skipn j (m_d c)))) (m_ss c)
  end.

(* ks: (on the absolute first differences?, which moment) *)
Definition moments_of (ks : list (bool * momk)) (guard : bool) (x : ser) (s : bst) : list expr * bst :=
  let '(c0, s1) := mk_ctx x s in
  let r : mctx * bst :=
    if existsb (fun bk : bool * momk => fst bk) ks
    then let '(ad, s2) := binds (absdiffE (sx x)) s1 in mk_ctx (mkSer ad (absdiffQ (sq x))) s2
    else (c0, s1) in
  let '(c1, s3) := r in
  binds (map (fun bk : bool * momk => moment guard (if fst bk then c1 else c0) (snd bk)) ks) s3.

Definition default_moments : list (bool * momk) :=
  let base := [Mean; Std; Skew3; Kurt4; Acf 1; Acf 2; Acf 3; Acf 4; Acf 5] in
  map (fun k => (false, k)) base ++ map (fun k => (true, k)) base.

(* ------------------------------------------------------------------ method of moments (msm.py:159-228) *)
Inductive covk := CovId | CovIV | CovW (w : list (list dy)).

Fixpoint moments_ens (ks : list (bool * momk)) (guard : bool) (ens : list ser) (s : bst) : list (list expr) * bst :=
  match ens with
  | [] => ([], s)
  | x :: r => let '(m, s1) := moments_of ks guard x s in
              let '(ms, s2) := moments_ens ks guard r s1 in (m :: ms, s2)
  end.
Fixpoint binds2 (ess : list (list expr)) (s : bst) : list (list expr) * bst :=
  match ess with
  | [] => ([], s)
  | es :: r => let '(v, s1) := binds es s in let '(vs, s2) := binds2 r s1 in (v :: vs, s2)
  end.

Definition msm_1d (ks : list (bool * momk)) (guard : bool) (cov : covk) (std : bool)
                  (ens : list ser) (real : ser) (s : bst) : expr * bst :=
  let '(mr0, s1) := moments_of ks guard real s in
  let '(ms0, s2) := moments_ens ks guard ens s1 in
  (* standardise_moments: every moment divided by |real moment| *)
  let '(ms, s3) := if std then binds2 (map (fun m => map2 (fun a r => ediv a (eabs r)) m mr0) ms0) s2 else (ms0, s2) in
  let '(mr, s4) := if std then binds (map (fun r => ediv r (eabs r)) mr0) s3 else (mr0, s3) in
  let k := length mr in
  let '(g, s5) := binds (map2 esub mr (pw_mean ms k)) s4 in
  match cov with
  | CovId => (esum (map esqr g), s5)
  | CovIV =>
      let var := map (fun j => emean (map (fun m => esqr (esub (nth j mr (cst 0)) (nth j m (cst 0)))) ms)) (seq 0 k) in
      (esum (map2 (fun gj vj => emul (emul gj (ediv (cst 1) vj)) gj) g var), s5)
  | CovW w =>
      (esum (map2 (fun ga row => emul ga (esum (map2 (fun wab gb => emul (dy_expr wab) gb) row g))) g w), s5)
  end.

(* ------------------------------------------------------------------ Fourier (fourier.py:36-146) *)
(* round half to even of a rational (np.round) *)
Definition round_half_even (q : Q) : Z :=
  let fl := Qfloor q in
  let r := (q - inject_Z fl)%Q in
  match Qcompare r (1 # 2) with
  | Lt => fl | Gt => fl + 1
  | Eq => if Z.even fl then fl else fl + 1
  end.
Definition n_freq (n : nat) : Z := Z.of_nat n / 2 + 1.              (* length of rfft *)
Definition n_keep (fnum fden : Z) (n : nat) : Z := round_half_even ((fnum # Z.to_pos fden) * inject_Z (n_freq n))%Q.

(* twiddle factors cos/sin(2 pi m / N), m = 0..N-1, named once *)
Definition twiddles (n : nat) (s : bst) : (list expr * list expr) * bst :=
  let ang m := ediv (emul (emul (cst 2) (Econst Pi)) (cst m)) (cst (Z.of_nat n)) in
  let '(cs, s1) := binds (map (fun m => ecos (ang m)) (zrange 0 n)) s in
  let '(sn, s2) := binds (map (fun m => esin (ang m)) (zrange 0 n)) s1 in
  ((cs, sn), s2).
(* DFT coefficient j of x:  sum_k x_k (cos(2 pi jk/N) - i sin(2 pi jk/N)); the angle is reduced modulo N *)
Definition dft_coef (n : nat) (cs sn x : list expr) (j : Z) : expr * expr :=
  let idx k := Z.to_nat ((j * k) mod Z.of_nat n) in
  (esum (map2 (fun xk k => emul xk (nth (idx k) cs (cst 0))) x (zrange 0 n)),
   eneg (esum (map2 (fun xk k => emul xk (nth (idx k) sn (cst 0))) x (zrange 0 n)))).
(* low-pass masks.  ideal: first n_keep coefficients; gaussian: exp(-j^2 / (2 sigma^2)), sigma = n_keep *)
Definition mask (ideal : bool) (keep : Z) (j : Z) : expr :=
  if ideal then (if j <? keep then cst 1 else cst 0)
  else eexp (eneg (ediv (cst (j * j)) (cst (2 * keep * keep)))).
Definition filt_dft (ideal : bool) (keep : Z) (n : nat) (cs sn mk : list expr) (x : list expr) : list (expr * expr) :=
  map2 (fun j m => let '(re, im) := dft_coef n cs sn x j in (emul re m, emul im m)) (zrange 0 (Z.to_nat (n_freq n))) mk.
Fixpoint bind_pairs (l : list (expr * expr)) (s : bst) : list (expr * expr) * bst :=
  match l with
  | [] => ([], s)
  | (a, b) :: r => let '(a', s1) := bind a s in let '(b', s2) := bind b s1 in
                   let '(r', s3) := bind_pairs r s2 in ((a', b') :: r', s3)
  end.
Fixpoint filt_dft_ens ideal keep n cs sn mk (ens : list ser) (s : bst) : list (list (expr * expr)) * bst :=
  match ens with
  | [] => ([], s)
  | x :: r => let '(f, s1) := bind_pairs (filt_dft ideal keep n cs sn mk (sx x)) s in
              let '(fs, s2) := filt_dft_ens ideal keep n cs sn mk r s1 in (f :: fs, s2)
  end.
Definition fourier_1d (ideal : bool) (fnum fden : Z) (ens : list ser) (real : ser) (s : bst) : expr * bst :=
  let n := length (sx real) in
  let nf := Z.to_nat (n_freq n) in
  let keep := n_keep fnum fden n in
  let '((cs, sn), s1) := twiddles n s in
  let '(mk, s2) := binds (map (mask ideal keep) (zrange 0 nf)) s1 in
  let '(fr, s3) := bind_pairs (filt_dft ideal keep n cs sn mk (sx real)) s2 in
  let '(fs, s4) := filt_dft_ens ideal keep n cs sn mk ens s3 in
  let re_m := pw_mean (map (map fst) fs) nf in
  let im_m := pw_mean (map (map snd) fs) nf in
  let sq_abs := map2 (fun sm r => eadd (esqr (esub (fst sm) (fst r))) (esqr (esub (snd sm) (snd r))))
                     (combine re_m im_m) fr in
  (esqrt (ediv (esum sq_abs) (cst (n_freq n))), s4).

(* ------------------------------------------------------------------ GSL-div (gsl_div.py:98-306) *)
Definition gsl_eps : Q := 5902958103587057 # 590295810358705651712.    (* the double 0.00001 *)
(* np.linspace(lo, hi, b+1) *)
Definition edges (b : nat) (lo hi : Q) : list Q :=
  map (fun i => (lo + inject_Z (Z.of_nat i) * ((hi - lo) / inject_Z (Z.of_nat b)))%Q) (seq 0 (S b)).
(* np.searchsorted(edges, x, side="left") = number of edges strictly below x *)
Definition sym_of (es : list Q) (x : Q) : Z := Z.of_nat (length (filter (fun e => Qlt_b e x) es)).
Definition symbolize (b : nat) (xs : list Q) : list Z :=
  let es := edges b (Qminl xs - gsl_eps)%Q (Qmaxl xs + gsl_eps)%Q in map (sym_of es) xs.
(* overlapping words of length l *)
Fixpoint words (l : nat) (xs : list Z) : list (list Z) :=
  match xs with
  | [] => []
  | _ :: r => if (l <=? length xs)%nat then firstn l xs :: words l r else []
  end.
Definition word_eq_dec : forall a b : list Z, {a = b} + {a <> b} := list_eq_dec Z.eq_dec.
Definition wcount (ws : list (list Z)) (w : list Z) : nat := count_occ word_eq_dec ws w.
Definition distinct (ws : list (list Z)) : list (list Z) := nodup word_eq_dec ws.
Definition probs (ws : list (list Z)) : list Q :=
  map (fun w => (Z.of_nat (wcount ws w) # Pos.of_nat (length ws))) (distinct ws).
(* the packing of gsl_div.py:262-266:  sum_i s_i 10^(l-1-i) *)
Definition pack10 (w : list Z) : Z := fold_left (fun a s => 10 * a + s) w 0.
Definition words_v (variant : nat) (l : nat) (xs : list Z) : list (list Z) :=
  match variant with O => words l xs | _ => map (fun w => [pack10 w]) (words l xs) end.
Definition gsl_weight (L : nat) (l : nat) : Q := (2 * Z.of_nat l) # Pos.of_nat (L * (L + 1)).

(* memo of  p ln p  terms keyed by (count, total) *)
Definition memo := list ((Z * Z) * expr).
Fixpoint memo_find (c n : Z) (m : memo) : option expr :=
  match m with [] => None | ((c', n'), e) :: r => if (c =? c') && (n =? n') then Some e else memo_find c n r end.
Definition plogp (c n : Z) (ms : memo * bst) : expr * (memo * bst) :=
  let '(m, s) := ms in
  match memo_find c n m with
  | Some e => (e, ms)
  | None => let p := ediv (cst c) (cst n) in
            let '(e, s1) := bind (emul p (eln p)) s in (e, (((c, n), e) :: m, s1))
  end.
Fixpoint plogps (cs : list Z) (n : Z) (ms : memo * bst) : list expr * (memo * bst) :=
  match cs with
  | [] => ([], ms)
  | c :: r => let '(e, ms1) := plogp c n ms in let '(es, ms2) := plogps r n ms1 in (e :: es, ms2)
  end.
(* Shannon entropy in base `base` of the empirical word distribution: - sum_w p_w ln p_w / ln base *)
Definition entropy (ws : list (list Z)) (lnbase : expr) (ms : memo * bst) : expr * (memo * bst) :=
  let n := Z.of_nat (length ws) in
  let cs := map (fun w => Z.of_nat (wcount ws w)) (distinct ws) in
  let '(ts, ms1) := plogps cs n ms in
  (eneg (ediv (esum ts) lnbase), ms1).

Fixpoint gsl_lengths (variant : nat) (b L T : nat) (sxd oxd : list Z) (ls : list nat) (ms : memo * bst)
  : list expr * (memo * bst) :=
  match ls with
  | [] => ([], ms)
  | l :: r =>
      let sw := words_v variant l sxd in
      let mw := sw ++ words_v variant l oxd in
      let '(lnb, s1) := bind (eln (cst (Z.of_nat b ^ Z.of_nat l))) (snd ms) in
      let '(hs, ms1) := entropy sw lnb (fst ms, s1) in
      let '(hm, ms2) := entropy mw lnb ms1 in
      let corr := qexpr ((Z.of_nat (length (distinct mw)) - Z.of_nat (length (distinct sw))) # Pos.of_nat (2 * T)) in
      let term := emul (qexpr (gsl_weight L l)) (eadd (esub (emul (cst 2) hm) hs) corr) in
      let '(t, s2) := bind term (snd ms2) in
      let '(ts, ms3) := gsl_lengths variant b L T sxd oxd r (fst ms2, s2) in
      (t :: ts, ms3)
  end.
Fixpoint gsl_ens (variant : nat) (b L T : nat) (ens : list ser) (oxd : list Z) (ms : memo * bst) : list expr * (memo * bst) :=
  match ens with
  | [] => ([], ms)
  | x :: r =>
      let '(ts, ms1) := gsl_lengths variant b L T (symbolize b (sq x)) oxd (seq 1 L) ms in
      let '(rest, ms2) := gsl_ens variant b L T r oxd ms1 in
      (esum ts :: rest, ms2)
  end.
Definition gsl_default (T : nat) : nat := (T - 1) / 2.                 (* int((T-1)/2.0) *)
Definition gsl_1d (variant : nat) (ob oL : option Z) (ens : list ser) (real : ser) (s : bst) : expr * bst :=
  let T := length (sx real) in
  let b := match ob with Some v => Z.to_nat v | None => gsl_default T end in
  let L := match oL with Some v => Z.to_nat v | None => gsl_default T end in
  if (T + 1 <? L)%nat then (enan, s)                                   (* "the chosen word length is too high" *)
  else
  let '(ls, ms) := gsl_ens variant b L T ens (symbolize b (sq real)) ([], s) in
  (emean ls, snd ms).

(* ------------------------------------------------------------------ likelihood (likelihood.py:30-118) *)
Inductive bwk := Silverman | Scott | BwGiven (h : dy).
Definition bandwidth (h : bwk) (S D : nat) : expr :=
  let d4 := cst (Z.of_nat D + 4) in
  match h with
  | Silverman => eexp (eneg (ediv (eln (ediv (cst (Z.of_nat S * (Z.of_nat D + 2))) (cst 4))) d4))
  | Scott => eexp (eneg (ediv (eln (cst (Z.of_nat S))) d4))
  | BwGiven v => dy_expr v
  end.
(* sim : [coordinate][member][s] (after the coordinate filters); real : [coordinate][t] *)
Definition likelihood (h : bwk) (sim : list (list ser)) (real : list ser) (s : bst) : expr * bst :=
  let D := length real in
  let R := length (hd [] sim) in
  let S := length (sx (hd (mkSer [] []) (hd [] sim))) in
  let T := length (sx (hd (mkSer [] []) real)) in
  let '(hh, s1) := bind (bandwidth h S D) s in
  let '(i2, s2) := bind (ediv (cst 1) (emul (cst 2) (esqr hh))) s1 in
  let '(nrm, s3) := bind (emul (epow hh (Z.of_nat D)) (epow (esqrt (emul (cst 2) (Econst Pi))) (Z.of_nat D))) s2 in
  let pt (c : list ser) (r k : nat) := nth k (sx (nth r c (mkSer [] []))) (cst 0) in
  let dist2 r t k := ediv (esum (map2 (fun c x => esqr (esub (pt c r k) (nth t (sx x) (cst 0)))) sim real)) (cst (Z.of_nat D)) in
  let lik r t := ediv (esum (map (fun k => ediv (eexp (eneg (emul (dist2 r t k) i2))) nrm) (seq 0 S))) (cst (Z.of_nat S)) in
  let ll r := esum (map (fun t => eln (lik r t)) (seq 0 T)) in
  (eneg (ediv (esum (map ll (seq 0 R))) (cst (Z.of_nat R))), s3).

(* ------------------------------------------------------------------ cases *)
Inductive lossk :=
| LMink (p : Z)
| LMsm (ks : list (bool * momk)) (guard : bool) (cov : covk) (std : bool)
| LFourier (ideal : bool) (fnum fden : Z)
| LGsl (b L : option Z)
| LLik (h : bwk).

Record case := mkCase {
  ckind : lossk;
  cvariant : nat;                            (* 0: documented definition; 1: code-shaped deviation (Minkowski ignores
                                                its filters / GSL-div words packed base 10) *)
  csim : list (list (list dy));              (* [coordinate][member][t], as passed to compute_loss *)
  cfilt : list (option (list (list dy)));    (* [coordinate]: the coordinate filter's output on every member *)
  creal : list (list dy);                    (* [coordinate][t] *)
  cweights : option (list dy);
  cobs : option dy }.                        (* returned float; None = non-finite or an exception *)

Fixpoint bind_coords (sims : list (list (list dy))) (s : bst) : list (list ser) * bst :=
  match sims with
  | [] => ([], s)
  | e :: r => let '(x, s1) := bind_ens e s in let '(xs, s2) := bind_coords r s1 in (x :: xs, s2)
  end.

(* base.py:82-100: a coordinate with a filter uses the filtered members, otherwise the raw ones *)
Definition effective (c : case) : list (list (list dy)) :=
  let ignore := match ckind c, cvariant c with LMink _, S _ => true | _, _ => false end in
  if ignore then csim c
  else map2 (fun raw f => match f with Some y => y | None => raw end) (csim c) (cfilt c).
Definition gsl_variant (c : case) : nat := match ckind c with LGsl _ _ => cvariant c | _ => O end.

Fixpoint losses_1d (k : lossk) (variant : nat) (sims : list (list ser)) (reals : list ser) (s : bst) : list expr * bst :=
  match sims, reals with
  | ens :: sr, real :: rr =>
      let '(l, s1) :=
        match k with
        | LMink p => (minkowski_1d p ens real, s)
        | LMsm ks g cov std => msm_1d ks g cov std ens real s
        | LFourier ideal a b => fourier_1d ideal a b ens real s
        | LGsl b L => gsl_1d variant b L ens real s
        | LLik _ => (enan, s)
        end in
      let '(l', s2) := bind l s1 in
      let '(ls, s3) := losses_1d k variant sr rr s2 in (l' :: ls, s3)
  | _, _ => ([], s)
  end.

(* the whole loss of a case: program and the index of the loss value *)
Definition case_loss (c : case) : nat * bst :=
  let '(sims, s1) := bind_coords (effective c) b0 in
  let '(reals, s2) := bind_ens (creal c) s1 in
  let D := length (creal c) in
  match ckind c with
  | LLik h => let '(l, s3) := likelihood h sims reals s2 in bindF l s3   (* no coordinate weights (likelihood.py:88-93) *)
  | k =>
      let '(ws, s3) := match cweights c with
                       | Some w => binds (map dy_expr w) s2
                       | None => (default_weights D, s2) end in
      let '(ls, s4) := losses_1d k (gsl_variant c) sims reals s3 in
      bindF (wcombine ws ls) s4
  end.

Definition tolQ (v : Q) : Q := ((1 # 1000000000) * (if Qle_bool 1 (Qabs v) then Qabs v else 1))%Q.

(* the case program, followed (when a finite value was returned) by the two entries |loss - observed| and the tolerance;
   they sit at positions  length p  and  length p + 1  of the run *)
Definition case_prog (c : case) : nat * list expr :=
  let '(i, s) := case_loss c in
  match cobs c with
  | None => (i, prog_of s)
  | Some v => (i, prog_of s ++ [eabs (esub (Evar i) (dy_expr v)); qexpr (tolQ (dyQ v))])
  end.

(* the comparison registered as C07's correspondence:
   observed finite  ->  the definition's enclosure is bounded and |definition - observed| <= 1e-9 max(1,|observed|)
   observed non-finite / exception -> the enclosure is not bounded (the definition is undefined on this input) *)
Definition check_case (c : case) : bool :=
  let '(i, s) := case_loss c in
  let p := prog_of s in
  match cobs c with
  | None => negb (bounded (nth i (run_i prec80 p []) I.nai))
  | Some v =>
      let r := run_i prec80 (snd (case_prog c)) [] in
      (i <? length p)%nat && bounded (nth i r I.nai)
      && le_cert (nth (length p) r I.nai) (nth (S (length p)) r I.nai)
  end.

(* diagnostics: the enclosure as (mantissa, exponent) pairs *)
Definition fl_pair (f : F.type) : option (Z * Z) :=
  match F.toF f with
  | Basic.Fzero => Some (0, 0)
  | Basic.Float sg m e => Some ((if sg then Zneg m else Zpos m), e)
  | _ => None
  end.
Definition case_enclosure (c : case) : option ((Z * Z) * (Z * Z)) :=
  let '(i, p) := case_prog c in
  match nth i (run_i prec80 p []) I.nai with
  | Ibnd l u => match fl_pair l, fl_pair u with Some a, Some b => Some (a, b) | _, _ => None end
  | _ => None
  end.
