(* Model of black_it/samplers/halton.py (HaltonSampler._halton 109-131, _PrimesIterator 134-166,
   _CachedPrimesCalculator 169-193, halton() 196-229).  Executable definitions only; proofs are in
   Proofs/HaltonP.v.  Integers are Z, values are exact rationals Q (the implementation's floats are
   compared with these within a stated tolerance by the check functions at the end of the file). *)
From Coq Require Import List ZArith QArith Qabs Bool.
From BlackIt Require Export Lib.Cases.
Import ListNotations.
Open Scope Z_scope.

(* ------------------------------------------------------------------ digit expansion (specification side) *)

(* repeated divmod, least significant digit first; stops when the quotient is exhausted *)
Fixpoint digits_fuel (fuel : nat) (b n : Z) : list Z :=
  match fuel with
  | O => []
  | S f => if n <=? 0 then [] else (n mod b) :: digits_fuel f b (n / b)
  end.
(* b >= 2 : n has at most log2 n + 1 digits *)
Definition dfuel (n : Z) : nat := S (Z.to_nat (Z.log2 n)).
Definition digits (b n : Z) : list Z := digits_fuel (dfuel n) b n.

(* sum_j d_j * b^(j0+j) *)
Fixpoint dsum (b j : Z) (ds : list Z) : Z :=
  match ds with [] => 0 | d :: r => d * b ^ j + dsum b (j + 1) r end.

(* sum_j d_j / b^(j0+j+1) *)
Fixpoint rsum (b j : Z) (ds : list Z) : Q :=
  match ds with [] => 0%Q | d :: r => (inject_Z d / inject_Z (b ^ (j + 1)) + rsum b (j + 1) r)%Q end.

(* the radical inverse of n in base b: digits mirrored around the radix point *)
Definition radinv (b n : Z) : Q := rsum b 0 (digits b n).

(* ------------------------------------------------------------------ halton(): the vectorised loop, as written *)

Fixpoint zip2 {A B C} (f : A -> B -> C) (l1 : list A) (l2 : list B) : list C :=
  match l1, l2 with
  | a :: l1', b :: l2' => f a b :: zip2 f l1' l2'
  | _, _ => []
  end.

(* the four arrays of one index: i, denoms, done, n_th_numbers (halton.py:217-220) *)
Record vstate := { vi : list Z; vden : list Q; vdone : list bool; vacc : list Q }.

Definition vinit (bases : list Z) (index : Z) : vstate :=
  {| vi := map (fun _ => index) bases;          (* np.repeat(np.int64(index), nb_bases) *)
     vden := map (fun _ => 1%Q) bases;           (* np.ones *)
     vdone := map (fun _ => false) bases;        (* np.zeros(dtype=bool) *)
     vacc := map (fun _ => 0%Q) bases |}.        (* np.zeros *)

(* exact a + t, with the representation kept small: nothing to do when t = 0 (the masked / exhausted bases),
   otherwise the sum in lowest terms *)
Definition qacc (a t : Q) : Q := if (Qnum t =? 0) then a else Qred (a + t).

(* one pass of the while body (halton.py:222-227) *)
Definition vstep (bases : list Z) (st : vstate) : vstate :=
  let i' := zip2 Z.div (vi st) bases in                                        (* i, remainders = np.divmod(i, bases) *)
  let rem := zip2 Z.modulo (vi st) bases in
  let den' := zip2 (fun d b => (d * inject_Z b)%Q) (vden st) bases in          (* denoms *= bases *)
  let rem' := zip2 (fun (dn : bool) r => if dn then 0 else r) (vdone st) rem in (* remainders[done] = 0.0 *)
  (* n_th_numbers += remainders / denoms ; qacc is exact addition (see below) *)
  let acc' := zip2 qacc (vacc st) (zip2 (fun r d => (inject_Z r / d)%Q) rem' den') in
  let done' := zip2 (fun (dn : bool) q => dn || (q =? 0)) (vdone st) i' in     (* done[i == 0] = True *)
  {| vi := i'; vden := den'; vdone := done'; vacc := acc' |}.

(* while (i > 0).any(): ... *)
Fixpoint vloop (fuel : nat) (bases : list Z) (st : vstate) : vstate :=
  match fuel with
  | O => st
  | S f => if existsb (fun x => 0 <? x) (vi st) then vloop f bases (vstep bases st) else st
  end.

(* row `index` of the sequence: one coordinate per base *)
Definition halton_point (bases : list Z) (index : Z) : list Q :=
  vacc (vloop (dfuel index) bases (vinit bases index)).

(* [a; a+1; ...; a+k-1] *)
Fixpoint zrange (a : Z) (k : nat) : list Z :=
  match k with O => [] | S k' => a :: zrange (a + 1) k' end.

(* for index in range(n_start + 1, sample_size + n_start + 1) *)
Definition hpoints (bases : list Z) (n_start : Z) (k : nat) : list (list Q) :=
  map (halton_point bases) (zrange (n_start + 1) k).

(* halton(sample_size, bases, n_start); None = ValueError raised by one of the three check_arg *)
Definition halton (sample_size : Z) (bases : list Z) (n_start : Z) : option (list (list Q)) :=
  if negb (0 <? sample_size) then None
  else if negb (forallb (fun b => 1 <? b) bases) then None
  else if negb (0 <=? n_start) then None
  else Some (hpoints bases n_start (Z.to_nat sample_size)).

(* ------------------------------------------------------------------ _PrimesIterator: unbounded sieve *)

(* _primes : list of [p, current multiple of p];  _candidate *)
Record piter := { p_primes : list (Z * Z); p_cand : Z }.
Definition piter_init : piter := {| p_primes := [(2, 2)]; p_cand := 2 |}.

(* while candidate > i[1]: i[1] = i[0] + i[1] *)
Fixpoint bump (fuel : nat) (c p m : Z) : Z :=
  match fuel with
  | O => m
  | S f => if m <? c then bump f c p (p + m) else m
  end.

(* the for loop over self._primes; true = left by `break`; entries after the break are not advanced *)
Fixpoint scan (c : Z) (l : list (Z * Z)) : list (Z * Z) * bool :=
  match l with
  | [] => ([], false)
  | (p, m) :: r =>
      let m' := bump (Z.to_nat (c - m)) c p m in
      if c =? m' then ((p, m') :: r, true)
      else let '(r', br) := scan c r in ((p, m') :: r', br)
  end.

(* __next__ : while True ... ; fuel bounds the number of candidates tried (None = out of fuel) *)
Fixpoint next_prime (fuel : nat) (st : piter) : option (Z * piter) :=
  match fuel with
  | O => None
  | S f =>
      let c := p_cand st + 1 in
      let '(l', br) := scan c (p_primes st) in
      if br then next_prime f {| p_primes := l'; p_cand := c |}
      else Some (c, {| p_primes := l' ++ [(c, c)]; p_cand := c |})
  end.
(* Bertrand: there is a prime in (c, 2c] *)
Definition np_fuel (st : piter) : nat := S (S (Z.to_nat (p_cand st))).

(* itertools.islice(iterator, n) consumed by list.extend *)
Fixpoint islice (n : nat) (st : piter) : option (list Z * piter) :=
  match n with
  | O => Some ([], st)
  | S n' =>
      match next_prime (np_fuel st) st with
      | None => None
      | Some (p, st') =>
          match islice n' st' with None => None | Some (ps, st'') => Some (p :: ps, st'') end
      end
  end.

(* _CachedPrimesCalculator *)
Record pcache := { pc_iter : piter; pc_cached : list Z }.
Definition pcache_init : pcache := {| pc_iter := piter_init; pc_cached := [2] |}.

(* get_n_primes(n); None = ValueError of check_arg (or sieve out of fuel) *)
Definition get_n_primes (n : Z) (pc : pcache) : option (list Z * pcache) :=
  if negb (1 <=? n) then None
  else if n <=? Z.of_nat (length (pc_cached pc)) then Some (firstn (Z.to_nat n) (pc_cached pc), pc)
  else
    match islice (Z.to_nat (n - Z.of_nat (length (pc_cached pc)))) (pc_iter pc) with
    | None => None
    | Some (ps, it') =>
        let cached' := pc_cached pc ++ ps in
        Some (firstn (Z.to_nat n) cached', {| pc_iter := it'; pc_cached := cached' |})
    end.

Definition primes40 : list Z :=
  [2;3;5;7;11;13;17;19;23;29;31;37;41;43;47;53;59;61;67;71;73;79;83;89;97;101;103;107;109;113;
   127;131;137;139;149;151;157;163;167;173].

(* trial division *)
Definition is_primeb (p : Z) : bool :=
  (1 <? p) && forallb (fun d => negb (p mod d =? 0)) (zrange 2 (Z.to_nat (p - 2))).

(* ------------------------------------------------------------------ HaltonSampler: state = cursor (+ prime cache) *)

Record hstate := { h_cursor : Z; h_pc : pcache }.

(* _halton(nb_samples, dims) : bases from the cache, rows cursor+1 .. cursor+nb_samples, cursor += nb_samples.
   None = exception (the cursor is then not advanced). *)
Definition hsample (st : hstate) (k dims : Z) : option (list (list Q) * hstate) :=
  match get_n_primes dims (h_pc st) with
  | None => None
  | Some (bases, pc') =>
      match halton k bases (h_cursor st) with
      | None => None
      | Some pts => Some (pts, {| h_cursor := h_cursor st + k; h_pc := pc' |})
      end
  end.

(* a sequence of calls (k, dims) on one sampler object; outputs of the calls in order *)
Fixpoint hrun (st : hstate) (ops : list (Z * Z)) : option (list (list (list Q)) * hstate) :=
  match ops with
  | [] => Some ([], st)
  | (k, dims) :: r =>
      match hsample st k dims with
      | None => None
      | Some (pts, st') =>
          match hrun st' r with None => None | Some (outs, st'') => Some (pts :: outs, st'') end
      end
  end.

(* the same with the bases fixed (any list of bases: any dimension) and the cursor as the whole state *)
Definition hsample_b (bases : list Z) (s k : Z) : option (list (list Q) * Z) :=
  match halton k bases s with None => None | Some pts => Some (pts, s + k) end.
Fixpoint hrun_b (bases : list Z) (s : Z) (ks : list Z) : option (list (list Q) * Z) :=
  match ks with
  | [] => Some ([], s)
  | k :: r =>
      match hsample_b bases s k with
      | None => None
      | Some (pts, s') =>
          match hrun_b bases s' r with None => None | Some (rest, s'') => Some (pts ++ rest, s'') end
      end
  end.

(* ------------------------------------------------------------------ correspondence checks *)

Definition Qlt_bool (x y : Q) : bool := negb (Qle_bool y x).
Definition tol40 : Q := 1 # (2 ^ 40)%positive.
Definition close40 (x y : Q) : bool := Qle_bool (Qabs (x - y)) tol40.

Fixpoint all2 {A B} (f : A -> B -> bool) (l1 : list A) (l2 : list B) : bool :=
  match l1, l2 with
  | [], [] => true
  | a :: l1', b :: l2' => f a b && all2 f l1' l2'
  | _, _ => false
  end.
Definition rows_close (model obs : list (list Q)) : bool := all2 (all2 close40) model obs.
Definition rows_same (a b : list (list Q)) : bool := all2 (all2 Qeq_bool) a b.

(* independent route to the expected coordinates: radinv of the index in each of the first dims primes *)
Definition spec_rows (dims : nat) (s : Z) (k : nat) : list (list Q) :=
  map (fun n => map (fun b => radinv b n) (firstn dims primes40)) (zrange (s + 1) k).

(* One sampler object after seeding: s0 = cursor read from the object, calls (k, dims), and per call the
   observed (cursor after, raw unit-cube rows).  twin = rows of ONE call of sum-k points on an equally
   seeded sampler ([] when the dimensions of the calls differ): must be identical to the concatenation. *)
Fixpoint check_calls (st : hstate) (ops : list (Z * Z)) (obs : list (Z * list (list Q))) : bool :=
  match ops, obs with
  | [], [] => true
  | (k, dims) :: ops', (cur, rows) :: obs' =>
      match hsample st k dims with
      | None => false
      | Some (pts, st') =>
          rows_close pts rows
          && rows_close (spec_rows (Z.to_nat dims) (h_cursor st) (Z.to_nat k)) rows
          && (h_cursor st' =? cur) && check_calls st' ops' obs'
      end
  | _, _ => false
  end.

Definition check_case (c : Z * list (Z * Z) * list (Z * list (list Q)) * list (list Q)) : bool :=
  let '(s0, ops, obs, twin) := c in
  (20 <=? s0) && (s0 <? 2 ^ 16)
  && check_calls {| h_cursor := s0; h_pc := pcache_init |} ops obs
  && match twin with [] => true | _ => rows_same (concat (map snd obs)) twin end.

(* halton() called directly: (sample_size, bases, n_start, observation; None = ValueError) *)
Definition check_direct (c : Z * list Z * Z * option (list (list Q))) : bool :=
  let '(k, bases, s, obs) := c in
  match halton k bases s, obs with
  | None, None => true
  | Some pts, Some rows =>
      rows_close pts rows
      && rows_close (map (fun n => map (fun b => radinv b n) bases) (zrange (s + 1) (Z.to_nat k))) rows
  | _, _ => false
  end.

(* a sequence of get_n_primes calls on one _CachedPrimesCalculator; None = ValueError *)
Fixpoint check_primes_from (pc : pcache) (calls : list (Z * option (list Z))) : bool :=
  match calls with
  | [] => true
  | (n, obs) :: r =>
      match get_n_primes n pc, obs with
      | None, None => check_primes_from pc r
      | Some (ps, pc'), Some o =>
          (if list_eq_dec Z.eq_dec ps o then true else false) && check_primes_from pc' r
      | _, _ => false
      end
  end.
Definition check_primes (calls : list (Z * option (list Z))) : bool := check_primes_from pcache_init calls.
