(* C10 - the exchange between the calibration thread and the RL agent's thread, as an interleaving transition system.

   Source (statement by statement between synchronisation points):
     black_it/schedulers/rl/rl_scheduler.py   _train, start_session, get_next_sampler, update, end_session
     black_it/schedulers/rl/envs/base.py:69-83   CalibrationEnv.step   (put action, blocking get of the outcome)
     black_it/schedulers/rl/envs/mab.py:35-48    get_reward            (reads and writes _curr_best_loss)
     black_it/schedulers/base.py:100-107         session()             (start_session; body; end_session)

   Two threads: M (calibration) and A (agent, one thread object per session).  A synchronisation point is a queue
   put/get, a read or write of RLScheduler._stopped, Thread.start, Thread.join.  The program counter of a thread names
   the synchronisation operation it is about to perform; one `step` performs that operation and runs the thread's
   code up to its next synchronisation operation.  ATOMICITY ASSUMPTION: the code between two synchronisation points
   touches only thread-local state (see design.d/C10.md for the one shared variable, _curr_best_loss, and why its
   accesses are ordered by the queues).

   `step`     : the protocol of the repaired tree (fixes.d/C10-protocol.patch): the agent loop leaves on the end
                marker before learning and does not read the flag; end_session discards the pending action.
   `step_old` : the protocol as it was before the repair (kept with its refutation lemmas).
   Executable definitions only; proofs are in Proofs/RLProtoP.v. *)
From Coq Require Import List ZArith QArith Bool Arith.
From BlackIt Require Export Lib.Cases.
Import ListNotations.
Local Open Scope nat_scope.

Inductive tid := M | A.

Inductive mpc_t :=
| MReadS     (* start_session: `if not self._stopped` *)
| MWriteS    (* start_session: `self._stopped = False` *)
| MStart     (* start_session: Thread(target=self._train).start() *)
| MGet       (* get_next_sampler: self._in_queue.get()            (action queue) *)
| MPut       (* update: self._out_queue.put((best_param, best_loss))   (outcome queue) *)
| MReadE     (* end_session: `if self._stopped` *)
| MWriteE    (* end_session: `self._stopped = True` *)
| MPutNone   (* end_session: self._out_queue.put(None) *)
| MJoin      (* end_session: self._agent_thread.join() *)
| MDrain     (* end_session (repaired tree only): self._in_queue.get_nowait() under suppress(Empty) *)
| MDone      (* all sessions done *)
| MErr.      (* ValueError raised by start_session / end_session *)

Inductive apc_t :=
| AIdle              (* no agent thread exists *)
| ARead              (* `while not self._stopped`  (old protocol only) *)
| APut (a : nat)     (* env.step: self._out_queue.put(action) *)
| AGet (a : nat)     (* env.step: self._in_queue.get() *)
| ADone              (* _train returned *)
| AErr.              (* the thread died of an exception (invalid action / reward without reference loss / reference loss 0) *)

(* message on the outcome queue: None = end marker; Some (best_loss, ghost: batch that produced it) *)
Definition msg := option (Q * nat).

(* mab.py:44-48   (reward, new _curr_best_loss) *)
Definition reward (c b : Q) : Q * Q := if Qle_bool c b then (0%Q, c) else (((c - b) / c)%Q, b).
(* mab.py:46: `best_loss` and `_curr_best_loss` are Python floats (rl_scheduler.py:152 `float(np.min(...))`), so the division
   raises ZeroDivisionError when the loss improved on a reference that is exactly 0 (Coq's `/` would silently give 0):
   the exception leaves env.step and _train, i.e. the agent's thread dies, after the outcome was taken off the queue and
   before _curr_best_loss is written. *)
Definition reward_raises (c b : Q) : bool := negb (Qle_bool c b) && Qeq_bool c 0.
(* rl_scheduler.py:154-155   `if best_new_loss < self._best_loss` *)
Definition better (old l : Q) : Q := if Qle_bool old l then old else l.

Section Proto.
  Variable AS : Type.                          (* the agent's own state *)
  Variable policy : AS -> nat * AS.            (* Agent.policy: chosen action, new agent state *)
  Variable learn : AS -> nat -> Q -> AS.       (* Agent.learn(state, action, reward, next_state) *)
  Variable nsam : nat.                         (* number of samplers = size of the action space *)
  Variable halton : nat.                       (* index of the bootstrap sampler *)
  Variable loss : nat -> Q.                    (* min of the losses of the k-th batch ever run *)

  Record state := mk {
    mpc : mpc_t; sess : list nat (* sessions still to come *); bleft : nat (* batches left in this session *);
    bidx : nat (* batches completed so far *); best : option Q (* RLScheduler._best_loss *);
    flag : bool (* RLScheduler._stopped *); aq : list nat (* action queue, head = oldest *);
    oq : list msg (* outcome queue *); cbl : option Q (* env._curr_best_loss *);
    apc : apc_t; ast : AS;
    (* ghost logs, newest first *)
    executed : list (nat * nat * bool);    (* batch, sampler index, chosen by the agent? *)
    learned : list (nat * Q * option nat); (* action, reward, batch the reward came from (None: end marker) *)
    sent : list nat; got : list nat        (* actions put on / taken from the action queue *)
  }.

  Definition set_mpc p s := mk p (sess s) (bleft s) (bidx s) (best s) (flag s) (aq s) (oq s) (cbl s) (apc s) (ast s)
                               (executed s) (learned s) (sent s) (got s).
  Definition set_flag f s := mk (mpc s) (sess s) (bleft s) (bidx s) (best s) f (aq s) (oq s) (cbl s) (apc s) (ast s)
                               (executed s) (learned s) (sent s) (got s).
  Definition set_apc p s := mk (mpc s) (sess s) (bleft s) (bidx s) (best s) (flag s) (aq s) (oq s) (cbl s) p (ast s)
                               (executed s) (learned s) (sent s) (got s).
  Definition set_oq q s := mk (mpc s) (sess s) (bleft s) (bidx s) (best s) (flag s) (aq s) q (cbl s) (apc s) (ast s)
                               (executed s) (learned s) (sent s) (got s).

  (* ------------------------------------------------------------------ agent thread, local code *)
  (* policy, then the action-space check of env.step (envs/base.py:74), up to the put *)
  Definition choose (s : state) : state :=
    let (a, st') := policy (ast s) in
    mk (mpc s) (sess s) (bleft s) (bidx s) (best s) (flag s) (aq s) (oq s) (cbl s)
       (if a <? nsam then APut a else AErr) st' (executed s) (learned s) (sent s) (got s).

  (* Agent.learn(action a, reward r) with the ghost source of the reward *)
  Definition do_learn (a : nat) (r : Q) (src : option nat) (c : option Q) (q : list msg) (s : state) : state :=
    mk (mpc s) (sess s) (bleft s) (bidx s) (best s) (flag s) (aq s) q c (apc s) (learn (ast s) a r)
       (executed s) ((a, r, src) :: learned s) (sent s) (got s).

  Definition a_put (a : nat) (s : state) : state :=
    mk (mpc s) (sess s) (bleft s) (bidx s) (best s) (flag s) (aq s ++ [a]) (oq s) (cbl s) (AGet a) (ast s)
       (executed s) (learned s) (a :: sent s) (got s).

  (* repaired _train: policy; step; `if truncated: break`; learn *)
  Definition a_step (s : state) : option state :=
    match apc s with
    | APut a => Some (a_put a s)
    | AGet a =>
        match oq s with
        | [] => None
        | None :: q => Some (set_apc ADone (set_oq q s))
        | Some (b, src) :: q =>
            match cbl s with
            | None => Some (set_apc AErr (set_oq q s))
            | Some c => if reward_raises c b then Some (set_apc AErr (set_oq q s))
                        else let (r, c') := reward c b in Some (choose (do_learn a r (Some src) (Some c') q s))
            end
        end
    | _ => None
    end.

  (* old _train: `while not self._stopped: policy; step; learn` - learns the terminal reward 0.0 on the marker *)
  Definition a_step_old (s : state) : option state :=
    match apc s with
    | ARead => Some (if flag s then set_apc ADone s else choose s)
    | APut a => Some (a_put a s)
    | AGet a =>
        match oq s with
        | [] => None
        | None :: q => Some (set_apc ARead (do_learn a 0%Q None (cbl s) q s))
        | Some (b, src) :: q =>
            match cbl s with
            | None => Some (set_apc AErr (set_oq q s))
            | Some c => if reward_raises c b then Some (set_apc AErr (set_oq q s))
                        else let (r, c') := reward c b in Some (set_apc ARead (do_learn a r (Some src) (Some c') q s))
            end
        end
    | _ => None
    end.

  (* the first synchronisation point of a freshly started agent thread *)
  Definition a_begin (repaired : bool) (s : state) : state := if repaired then choose s else set_apc ARead s.

  (* ------------------------------------------------------------------ calibration thread, local code *)
  (* first batch ever: get_next_sampler returns the bootstrap sampler without consulting the agent; update() stores
     the loss in _best_loss and env._curr_best_loss and returns without a put  (rl_scheduler.py:134-136, 149-153) *)
  Definition boot (k : nat) (s : state) : state :=
    mk (mpc s) (sess s) k (S (bidx s)) (Some (loss (bidx s))) (flag s) (aq s) (oq s) (Some (loss (bidx s))) (apc s) (ast s)
       ((bidx s, halton, false) :: executed s) (learned s) (sent s) (got s).

  (* head of the batch loop of a session: runs to the next synchronisation operation of M *)
  Definition m_head (s : state) : state :=
    match bleft s with
    | 0 => set_mpc MReadE s
    | S k =>
        match best s with
        | Some _ => set_mpc MGet s
        | None => match k with 0 => set_mpc MReadE (boot k s) | S _ => set_mpc MGet (boot k s) end
        end
    end.

  Definition next_session (s : state) : state :=
    match sess s with
    | [] => mk MDone [] 0 (bidx s) (best s) (flag s) (aq s) (oq s) (cbl s) AIdle (ast s)
               (executed s) (learned s) (sent s) (got s)
    | n :: r => mk MReadS r n (bidx s) (best s) (flag s) (aq s) (oq s) (cbl s) AIdle (ast s)
                   (executed s) (learned s) (sent s) (got s)
    end.

  Definition terminated (p : apc_t) : bool := match p with ADone | AErr => true | _ => false end.

  Definition m_step (repaired : bool) (s : state) : option state :=
    match mpc s with
    | MReadS => Some (if flag s then set_mpc MWriteS s else set_mpc MErr s)
    | MWriteS => Some (set_mpc MStart (set_flag false s))
    | MStart => Some (m_head (a_begin repaired s))
    | MGet =>
        match aq s with
        | [] => None
        | a :: q => Some (mk MPut (sess s) (bleft s) (bidx s) (best s) (flag s) q (oq s) (cbl s) (apc s) (ast s)
                             ((bidx s, a, true) :: executed s) (learned s) (sent s) (a :: got s))
        end
    | MPut =>
        let b := match best s with Some b0 => better b0 (loss (bidx s)) | None => loss (bidx s) end in
        Some (m_head (mk MPut (sess s) (pred (bleft s)) (S (bidx s)) (Some b) (flag s) (aq s)
                         (oq s ++ [Some (b, bidx s)]) (cbl s) (apc s) (ast s)
                         (executed s) (learned s) (sent s) (got s)))
    | MReadE => Some (if flag s then set_mpc MErr s else set_mpc MWriteE s)
    | MWriteE => Some (set_mpc MPutNone (set_flag true s))
    | MPutNone => Some (set_mpc MJoin (set_oq (oq s ++ [None]) s))
    | MJoin => if terminated (apc s) then Some (if repaired then set_mpc MDrain s else next_session s) else None
    | MDrain =>
        Some (next_session (mk MDrain (sess s) (bleft s) (bidx s) (best s) (flag s) (tl (aq s)) (oq s) (cbl s) (apc s) (ast s)
                               (executed s) (learned s) (sent s) (firstn 1 (aq s) ++ got s)))
    | MDone | MErr => None
    end.

  Definition step (s : state) (t : tid) : option state :=
    match t with M => m_step true s | A => a_step s end.
  Definition step_old (s : state) (t : tid) : option state :=
    match t with M => m_step false s | A => a_step_old s end.

  Definition init (sessions : list nat) (a0 : AS) : state :=
    next_session (mk MDone sessions 0 0 None true [] [] None AIdle a0 [] [] [] []).

  Definition is_final (s : state) : bool := match mpc s with MDone => true | _ => false end.

  Section Run.
    Variable stp : state -> tid -> option state.
    Definition enabled (s : state) (t : tid) : bool := match stp s t with Some _ => true | None => false end.
    (* a schedule is a list of thread ids; a pick of a disabled thread is skipped *)
    Definition pick (s : state) (t : tid) : state := match stp s t with Some s' => s' | None => s end.
    Definition run (sigma : list tid) (s : state) : state := fold_left pick sigma s.
    (* bit mask of the enabled threads: M = 1, A = 2 *)
    Definition mask (s : state) : nat := (if enabled s M then 1 else 0) + (if enabled s A then 2 else 0).
    (* kind of the synchronisation operation thread t is about to perform:
       1 read flag, 2 write flag, 3 start, 4 blocking get on the action queue, 5 put on the outcome queue, 6 join,
       7 get_nowait on the action queue, 8 put on the action queue, 9 blocking get on the outcome queue, 0 none *)
    Definition opcode (s : state) (t : tid) : nat :=
      match t with
      | M => match mpc s with MReadS | MReadE => 1 | MWriteS | MWriteE => 2 | MStart => 3 | MGet => 4 | MPut | MPutNone => 5
                            | MJoin => 6 | MDrain => 7 | MDone | MErr => 0 end
      | A => match apc s with ARead => 1 | APut _ => 8 | AGet _ => 9 | _ => 0 end
      end.
    (* run that also checks the observed enabled sets and operations; None as soon as a mask or an operation differs or
       a pick is disabled *)
    Fixpoint run_checked (sigma : list tid) (masks ops : list nat) (s : state) : option state :=
      match sigma, masks, ops with
      | [], [], [] => Some s
      | t :: sg, m :: ms, o :: os =>
          if Nat.eqb (mask s) m && Nat.eqb (opcode s t) o
          then match stp s t with Some s' => run_checked sg ms os s' | None => None end
          else None
      | _, _, _ => None
      end.
    (* every maximal run from s, depth first (fuel bounds the length) *)
    Fixpoint all_runs (fuel : nat) (s : state) : list state :=
      match fuel with
      | 0 => [s]
      | S f =>
          match stp s M, stp s A with
          | None, None => [s]
          | Some s1, None => all_runs f s1
          | None, Some s2 => all_runs f s2
          | Some s1, Some s2 => all_runs f s1 ++ all_runs f s2
          end
      end.
  End Run.

  (* ------------------------------------------------------------------ sequential specification (repaired protocol) *)
  (* What the exchange computes when nothing is concurrent: per session the agent chooses, the batch runs with that
     choice, the agent learns the reward of that batch and chooses again; the choice pending at the end of a session
     is dropped.  seq state = (agent, curr_best_loss, best_loss, batches done, executed, learned). *)
  Record sq := mksq { q_ast : AS; q_cbl : option Q; q_best : option Q; q_bidx : nat;
                      q_exec : list (nat * nat * bool); q_learned : list (nat * Q * option nat) }.

  Definition seq_batch (a : nat) (q : sq) : sq * nat :=
    let b := match q_best q with Some b0 => better b0 (loss (q_bidx q)) | None => loss (q_bidx q) end in
    let (r, c') := reward (match q_cbl q with Some c => c | None => 0%Q end) b in
    let (a', st') := policy (learn (q_ast q) a r) in
    (mksq st' (Some c') (Some b) (S (q_bidx q)) ((q_bidx q, a, true) :: q_exec q) ((a, r, Some (q_bidx q)) :: q_learned q), a').

  Fixpoint seq_batches (n : nat) (a : nat) (q : sq) : sq :=
    match n with 0 => q | S k => let (q', a') := seq_batch a q in seq_batches k a' q' end.

  Definition seq_boot (q : sq) : sq :=
    mksq (q_ast q) (Some (loss (q_bidx q))) (Some (loss (q_bidx q))) (S (q_bidx q))
         ((q_bidx q, halton, false) :: q_exec q) (q_learned q).

  Definition seq_session (q : sq) (n : nat) : sq :=
    let (a, st') := policy (q_ast q) in
    let q1 := mksq st' (q_cbl q) (q_best q) (q_bidx q) (q_exec q) (q_learned q) in
    match n with
    | 0 => q1
    | S k => match q_best q1 with Some _ => seq_batches n a q1 | None => seq_batches k a (seq_boot q1) end
    end.

  Definition seq_sessions (l : list nat) (q : sq) : sq := fold_left seq_session l q.
  Definition sq_of (s : state) : sq := mksq (ast s) (cbl s) (best s) (bidx s) (executed s) (learned s).
  Definition sq0 (a0 : AS) : sq := mksq a0 None None 0 [] [].
End Proto.

Arguments mpc {AS}. Arguments sess {AS}. Arguments bleft {AS}. Arguments bidx {AS}. Arguments best {AS}.
Arguments flag {AS}. Arguments aq {AS}. Arguments oq {AS}. Arguments cbl {AS}. Arguments apc {AS}. Arguments ast {AS}.
Arguments executed {AS}. Arguments learned {AS}. Arguments sent {AS}. Arguments got {AS}.

(* ====================================================================== concrete agents used by the correspondence *)
(* One state type covers both agents of the harness:
   scripted : the k-th call of policy returns script[k mod len]; learn only logs;
   greedy   : MABEpsilonGreedy (agents/epsilon_greedy.py:56-86) with constant step size alpha and the random draws of
              policy() replaced by a recorded list (explore?, choice), used cyclically; ag_alpha = -1 selects the
              sample-average step 1 / actions_count[action] (epsilon_greedy.py `get_step_size`), the count being
              incremented by learn before the step size is read (ag_counts). *)
Record cagent := mkag { ag_script : list nat; ag_k : nat; ag_greedy : bool; ag_alpha : Q; ag_q : list Q;
                        ag_draws : list (bool * nat); ag_n : nat; ag_counts : list nat }.

Fixpoint argmax_from (i besti : nat) (bestv : Q) (l : list Q) : nat :=
  match l with [] => besti | x :: r => if Qle_bool x bestv then argmax_from (S i) besti bestv r else argmax_from (S i) i x r end.
(* np.argmax: first maximal position *)
Definition argmax (l : list Q) : nat := match l with [] => 0 | x :: r => argmax_from 1 0 x r end.

Fixpoint upd_nth (i : nat) (f : Q -> Q) (l : list Q) : list Q :=
  match l, i with [], _ => [] | x :: r, 0 => f x :: r | x :: r, S j => x :: upd_nth j f r end.

Fixpoint upd_nth_nat (i : nat) (l : list nat) : list nat :=
  match l, i with [], _ => [] | x :: r, 0 => S x :: r | x :: r, S j => x :: upd_nth_nat j r end.

(* epsilon_greedy.py get_step_size: `1 / self.actions_count[action] if self.alpha == -1 else self.alpha` *)
Definition c_step_size (g : cagent) (cnt : nat) : Q :=
  if Qeq_bool (ag_alpha g) (-1) then (1 # Pos.of_nat cnt)%Q else ag_alpha g.

Definition c_policy (g : cagent) : nat * cagent :=
  let g' := mkag (ag_script g) (S (ag_k g)) (ag_greedy g) (ag_alpha g) (ag_q g) (ag_draws g) (ag_n g) (ag_counts g) in
  if ag_greedy g then
    let d := nth (Nat.modulo (ag_k g) (length (ag_draws g))) (ag_draws g) (false, 0) in
    ((if fst d then Nat.modulo (snd d) (ag_n g) else argmax (ag_q g)), g')
  else (nth (Nat.modulo (ag_k g) (length (ag_script g))) (ag_script g) 0, g').

Definition c_learn (g : cagent) (a : nat) (r : Q) : cagent :=
  if ag_greedy g then
    let cnts := upd_nth_nat a (ag_counts g) in
    let st := c_step_size g (nth a cnts 0) in
    mkag (ag_script g) (ag_k g) true (ag_alpha g) (upd_nth a (fun x => Qred (x + st * (r - x))%Q) (ag_q g)) (ag_draws g) (ag_n g) cnts
  else g.

(* ====================================================================== correspondence case *)
Record rl_obs := mkobs {
  o_final : bool;                         (* the calibration thread ran all its sessions *)
  o_endmask : nat;                        (* threads enabled when the run stopped (0 and not final = deadlock) *)
  o_executed : list (nat * nat);          (* oldest first: batch, sampler index *)
  o_learned : list (nat * Q * option nat);(* oldest first *)
  o_aq : list nat; o_oq : list (option Q);(* what is left in the queues *)
  o_alive : bool;                         (* an agent thread exists that has not terminated *)
  o_flag : bool; o_cbl : option Q; o_best : option Q;
  o_policy_calls : nat; o_qvals : list Q
}.
Record rl_case := mkcase {
  c_repaired : bool;                      (* which protocol the tree is expected to follow *)
  c_nsam : nat; c_halton : nat; c_losses : list Q; c_sessions : list nat; c_agent : cagent;
  c_sched : list tid; c_masks : list nat; c_ops : list nat; c_obs : rl_obs
}.

Definition qeqb (a b : Q) : bool := Qeq_bool a b.
Definition oqeqb (a b : option Q) : bool :=
  match a, b with None, None => true | Some x, Some y => Qeq_bool x y | _, _ => false end.
Definition onateqb (a b : option nat) : bool :=
  match a, b with None, None => true | Some x, Some y => Nat.eqb x y | _, _ => false end.
Fixpoint list_eqb {X} (f : X -> X -> bool) (a b : list X) : bool :=
  match a, b with [], [] => true | x :: a', y :: b' => f x y && list_eqb f a' b' | _, _ => false end.

Definition cstep (c : rl_case) :=
  let lossf := fun k => nth k (c_losses c) 0%Q in
  if c_repaired c then step cagent c_policy c_learn (c_nsam c) (c_halton c) lossf
  else step_old cagent c_policy c_learn (c_nsam c) (c_halton c) lossf.

Definition alive_b (p : apc_t) : bool := match p with AIdle | ADone | AErr => false | _ => true end.

Definition obs_matches (s : state cagent) (stp : state cagent -> tid -> option (state cagent)) (o : rl_obs) : bool :=
  Bool.eqb (is_final cagent s) (o_final o)
  && Nat.eqb (mask cagent stp s) (o_endmask o)
  && list_eqb (fun x y => Nat.eqb (fst x) (fst y) && Nat.eqb (snd x) (snd y))
              (map (fun e => (fst (fst e), snd (fst e))) (rev (executed s))) (o_executed o)
  && list_eqb (fun x y => Nat.eqb (fst (fst x)) (fst (fst y)) && qeqb (snd (fst x)) (snd (fst y)) && onateqb (snd x) (snd y))
              (rev (learned s)) (o_learned o)
  && list_eqb Nat.eqb (aq s) (o_aq o)
  && list_eqb oqeqb (map (fun m : msg => match m with Some (b, _) => Some b | None => None end) (oq s)) (o_oq o)
  && Bool.eqb (alive_b (apc s)) (o_alive o)
  && Bool.eqb (flag s) (o_flag o) && oqeqb (cbl s) (o_cbl o) && oqeqb (best s) (o_best o)
  && Nat.eqb (ag_k (ast s)) (o_policy_calls o)
  && (if ag_greedy (ast s) then list_eqb qeqb (ag_q (ast s)) (o_qvals o) else true).

(* the model follows the very schedule the implementation followed: same enabled set before every step, same
   logs / queues / liveness at the end *)
Definition check_case (c : rl_case) : bool :=
  match run_checked cagent (cstep c) (c_sched c) (c_masks c) (c_ops c) (init cagent (c_sessions c) (c_agent c)) with
  | Some s => obs_matches s (cstep c) (c_obs c)
  | None => false
  end.

(* same case against the other protocol (diagnostic: tells which protocol a tree follows) *)
Definition check_case_other (c : rl_case) : bool :=
  check_case (mkcase (negb (c_repaired c)) (c_nsam c) (c_halton c) (c_losses c) (c_sessions c) (c_agent c)
                     (c_sched c) (c_masks c) (c_ops c) (c_obs c)).
