(* Extension of the shared calibrator model (Model/Calibrator.v) by the *public attributes that a caller may reassign
   after construction* (round-4 generator sweep of C09 / C14 / C18):

     calibrator.convergence_precision = p | None      (read by calibrate() after every batch, calibrator.py:458-463)
     calibrator.verbose = b                           (calibrator.py:424, 465)
     calibrator.saving_folder = folder | None         (calibrator.py:468-477)
     sampler.batch_size = k                           (samplers/base.py:53, read by BaseSampler.sample and by the
                                                       label bookkeeping of calibrate(), calibrator.py:411-418)

   None of these goes through a method of the library: the value in force is simply the assigned one, from the next
   read on.  Executable definitions only; Model/Calibrator.v is not changed (its `op` type is embedded by `XOp`). *)
From Coq Require Import List ZArith QArith Bool Arith.
From BlackIt Require Export Model.CalibTokens.
Import ListNotations.
Local Close Scope Q_scope.
Local Open Scope nat_scope.

Definition set_bsize (uid bs : nat) (s : sampler) : sampler :=
  if Nat.eqb (s_uid s) uid then mkS (s_class s) (s_uid s) bs (s_calls s) (s_seed s) else s.

Section X.
  Variables (Param Series LossV : Type).
  Variable model : Param -> Z -> Series.
  Variable lossf : list Series -> LossV.
  Variable loss_leb : LossV -> LossV -> bool.
  Variable rounds0 : LossV -> nat -> bool.
  Variable propose : sampler -> list Param -> list LossV -> list Param.
  Variable draws : nat -> Z.
  Variable agent_actions : nat -> nat.
  Variable plan : fault.

  Inductive xop :=
  | XOp (o : op)
  | XSetCfg (prec : option nat) (verbose saving : bool)     (* the three calibrator attributes, assigned together *)
  | XSetBsize (uid bs : nat).                                 (* batch_size of the sampler OBJECT uid (all its positions) *)

  Definition set_cfg (c : core Param Series LossV) (g : config) : core Param Series LossV :=
    mkCore _ _ _ g (params _ _ _ c) (losses _ _ _ c) (series _ _ _ c) (batch_nums _ _ _ c) (methods _ _ _ c)
           (n_sampled _ _ _ c) (batch_idx _ _ _ c) (sch _ _ _ c) (rng_pos _ _ _ c) (tbl _ _ _ c)
           (model_calls _ _ _ c) (loss_calls _ _ _ c).

  Definition xstep (s : cstate Param Series LossV) (x : xop)
    : cstate Param Series LossV * option exn * list (Param * LossV) :=
    match x with
    | XOp o => step Param Series LossV model lossf loss_leb rounds0 propose draws agent_actions plan s o
    | XSetCfg p v sv =>
        let c := live _ _ _ s in
        (mkSt _ _ _ (set_cfg c (mkCfg (c_E (cfg _ _ _ c)) p v sv)) (disk _ _ _ s), None, [])
    | XSetBsize u b =>
        let c := live _ _ _ s in
        (mkSt _ _ _ (set_sch _ _ _ c (with_samplers _ (sch _ _ _ c) (map (set_bsize u b) (sched_samplers _ (sch _ _ _ c)))))
              (disk _ _ _ s), None, [])
    end.

  Definition xrun (ops : list xop) (s : cstate Param Series LossV) : cstate Param Series LossV :=
    fold_left (fun st o => fst (fst (xstep st o))) ops s.
End X.

(* ---------- token instantiation and replay ---------- *)
Section XRun.
  Variable palette : list Q.
  Variable salt : Z.
  Variable drawl : list Z.
  Variable actions : list nat.
  Variable plan : fault.

  Definition MX_step := xstep TParam TSeries TLoss t_model (t_lossf palette salt) t_leb t_rounds0 t_propose
                              (nthZ drawl) (nthN actions) plan.

  Fixpoint xreplay (k : nat) (s : cstate TParam TSeries TLoss) (ops : list (xop * view)) : option nat :=
    match ops with
    | [] => None
    | (o, v) :: r =>
        let '(s', e, ret) := MX_step s o in
        if core_ok drawl (live _ _ _ s') e ret v && disk_ok drawl (disk _ _ _ s') v then xreplay (S k) s' r else Some k
    end.
End XRun.

(* an extended case = a token case (whose own operation list is empty) + the extended operation list *)
Record xcase := mkXCase { xc_base : tcase; xc_ops : list (xop * view) }.

Definition x_initial (b : tcase) : cstate TParam TSeries TLoss + exn :=
  let sc := match tc_rl b, tc_rr b with
            | Some (l, h), _ => Some (RL TLoss l h None true false (0, 0))
            | None, Some l => Some (RR TLoss (map unseeded l) 0)
            | None, None => None end in
  M_construct (tc_cfg b) (tc_samplers b) sc.

Definition check_xcase (c : xcase) : bool :=
  let b := xc_base c in
  match x_initial b with
  | inr e => Nat.eqb (exn_code e) (tc_ctor_exn b)
  | inl s0 =>
      Nat.eqb (tc_ctor_exn b) 0 &&
      match xreplay (tc_palette b) (tc_salt b) (tc_draws b) (tc_actions b) (tc_plan b) 0 s0 (xc_ops c) with
      | None => true | Some _ => false end
  end.

Definition first_bad_x (c : xcase) : option nat :=
  let b := xc_base c in
  match x_initial b with
  | inr e => None
  | inl s0 => xreplay (tc_palette b) (tc_salt b) (tc_draws b) (tc_actions b) (tc_plan b) 0 s0 (xc_ops c)
  end.
