(* Shared model of the calibration loop: black_it/calibrator.py (constructor 158-176, seeds 177-183,
   id table 185-244, restore 246-321, simulate_model 323-351, calibrate 353-467, check_convergence 469-489),
   schedulers/base.py (session 100-105, _set_random_state 61-65), schedulers/round_robin.py,
   schedulers/rl/rl_scheduler.py seen sequentially (the agent is an oracle of actions; interleavings are C10's).
   Executable definitions only.  Payload types are abstract; Model/CalibTokens.v instantiates them. *)
From Coq Require Import List ZArith Bool Arith.
Import ListNotations.

Inductive exn := ExModel | ExLoss | ExSampler | ExValue | ExOther.
Definition exn_code (e : exn) : nat :=
  match e with ExModel => 1 | ExLoss => 2 | ExSampler => 3 | ExValue => 4 | ExOther => 5 end.

(* a fault plan: raise at the k-th (0-based, counted over the whole life) invocation *)
Inductive fault := NoFault | FModel (k : nat) | FLoss (k : nat) | FSampler (uid k : nat).

Record sampler := mkS {
  s_class : nat;            (* type(sampler).__name__ *)
  s_uid : nat;              (* identity of the object *)
  s_bsize : nat;            (* batch_size *)
  s_calls : nat;            (* number of sample() calls so far: stands for all internal sampler state *)
  s_seed : option Z         (* random_state; None = not determined by the calibrator seed *)
}.
Definition reseed (z : Z) (s : sampler) : sampler :=
  mkS (s_class s) (s_uid s) (s_bsize s) (s_calls s) (Some z).
Definition called (s : sampler) : sampler :=
  mkS (s_class s) (s_uid s) (s_bsize s) (S (s_calls s)) (s_seed s).

Definition table := list (nat * nat).     (* class -> id, insertion order *)
Fixpoint tlookup (c : nat) (t : table) : option nat :=
  match t with [] => None | (c', i) :: r => if Nat.eqb c c' then Some i else tlookup c r end.
(* _construct_samplers_id_table : first-seen numbering from 0 *)
Fixpoint tconstruct_from (next : nat) (t : table) (l : list sampler) : table :=
  match l with
  | [] => t
  | s :: r => match tlookup (s_class s) t with
              | Some _ => tconstruct_from next t r
              | None => tconstruct_from (S next) (t ++ [(s_class s, next)]) r
              end
  end.
Definition tconstruct (l : list sampler) : table := tconstruct_from 0 [] l.
Definition tmax (t : table) : option nat :=
  match t with [] => None | _ => Some (fold_right (fun ci m => Nat.max (snd ci) m) 0 t) end.
(* update_samplers_id_table : max(values)+1 onwards, append only; max() of an empty table raises ValueError *)
Definition tupdate (t : table) (l : list sampler) : option table :=
  match tmax t with None => None | Some m => Some (tconstruct_from (S m) t l) end.

(* RLScheduler._add_or_get_bootstrap_sampler (rl_scheduler.py:80-109): `{type(s): i}` keeps the LAST index of each
   class; a HaltonSampler(batch_size=1) is appended when the class is absent *)
Definition HALTON : nat := 9.
Fixpoint last_index_of (c : nat) (l : list sampler) (k : nat) (acc : option nat) : option nat :=
  match l with
  | [] => acc
  | s :: r => last_index_of c r (S k) (if Nat.eqb (s_class s) c then Some k else acc)
  end.
Definition rl_bootstrap (l : list sampler) (fresh : sampler) : list sampler * nat :=
  match last_index_of HALTON l 0 None with
  | Some i => (l, i)
  | None => (l ++ [fresh], length l)
  end.

Section Calib.
  Variables (Param Series LossV : Type).
  Variable model : Param -> Z -> Series.                    (* model(theta, N, seed); N is configuration *)
  Variable lossf : list Series -> LossV.                    (* loss.compute_loss(ensemble, real_data) *)
  Variable loss_leb : LossV -> LossV -> bool.
  Variable rounds0 : LossV -> nat -> bool.                  (* np.round(x, p) == 0 *)
  Variable propose : sampler -> list Param -> list LossV -> list Param.   (* sampler.sample(space, params, losses) *)
  Variable draws : nat -> Z.                                (* k-th integers(2^32-1) draw of default_rng(seed) *)
  Variable agent_actions : nat -> nat.                      (* k-th action the RL agent put on the queue *)
  Variable plan : fault.

  Inductive sched :=
  | RR (samplers : list sampler) (batch_id : nat)
  | RL (samplers : list sampler) (halton_id : nat) (best : option LossV) (stopped alive : bool)
       (q : nat * nat).   (* action queue seen sequentially: (actions consumed or discarded so far, actions put so far) *)

  Definition sched_samplers (sc : sched) : list sampler :=
    match sc with RR l _ => l | RL l _ _ _ _ _ => l end.
  Definition with_samplers (sc : sched) (l : list sampler) : sched :=
    match sc with RR _ b => RR l b | RL _ h b st al c => RL l h b st al c end.

  Record config := mkCfg { c_E : nat; c_prec : option nat; c_verbose : bool; c_saving : bool }.

  Record core := mkCore {
    cfg : config;
    params : list Param; losses : list LossV; series : list (list Series);
    batch_nums : list nat; methods : list nat;
    n_sampled : nat; batch_idx : nat;
    sch : sched; rng_pos : nat;
    tbl : table;
    model_calls : nat; loss_calls : nat          (* ghost invocation counters for the fault plan *)
  }.
  Record cstate := mkSt { live : core; disk : option core }.

  Definition set_sch (c : core) (sc : sched) : core :=
    mkCore (cfg c) (params c) (losses c) (series c) (batch_nums c) (methods c) (n_sampled c) (batch_idx c)
           sc (rng_pos c) (tbl c) (model_calls c) (loss_calls c).
  Definition set_rng (c : core) (p : nat) : core :=
    mkCore (cfg c) (params c) (losses c) (series c) (batch_nums c) (methods c) (n_sampled c) (batch_idx c)
           (sch c) p (tbl c) (model_calls c) (loss_calls c).
  Definition set_tbl (c : core) (t : table) : core :=
    mkCore (cfg c) (params c) (losses c) (series c) (batch_nums c) (methods c) (n_sampled c) (batch_idx c)
           (sch c) (rng_pos c) t (model_calls c) (loss_calls c).
  Definition set_counts (c : core) (m l : nat) : core :=
    mkCore (cfg c) (params c) (losses c) (series c) (batch_nums c) (methods c) (n_sampled c) (batch_idx c)
           (sch c) (rng_pos c) (tbl c) m l.

  (* ---- constructor ---- *)
  (* __validate_samplers_and_scheduler_constructor_args: `both_none or both_not_none` raises ValueError
     (after the repair d1af1dd; the pinned source had `and`, which is unsatisfiable). *)
  Definition ctor_validation_raises (has_samplers has_scheduler : bool) : bool :=
    (negb has_samplers && negb has_scheduler) || (has_samplers && has_scheduler).
  Definition unseeded (s : sampler) : sampler := mkS (s_class s) (s_uid s) (s_bsize s) (s_calls s) None.
  Definition construct (c : config) (samplers : option (list sampler)) (scheduler : option sched)
    : cstate + exn :=
    if ctor_validation_raises (if samplers then true else false) (if scheduler then true else false)
    then inr ExValue
    else
      let osc := match samplers with
                 | Some l => Some (RR (map unseeded l) 0)      (* RoundRobinScheduler(samplers): reseeds from entropy *)
                 | None => scheduler
                 end in
      match osc with
      | None => inr ExOther
      | Some sc => inl (mkSt (mkCore c [] [] [] [] [] 0 0 sc 0 (tconstruct (sched_samplers sc)) 0 0) None)
      end.

  (* ---- seeds (calibrator._set_samplers_seeds, BaseScheduler/RLScheduler._set_random_state) ---- *)
  Fixpoint reseed_from (k : nat) (l : list sampler) : list sampler :=
    match l with [] => [] | s :: r => reseed (draws k) s :: reseed_from (S k) r end.
  Definition set_samplers_seeds (c : core) : core :=
    let l := sched_samplers (sch c) in
    let n := length l in
    let sc' := match sch c with
               | RR _ b => RR (reseed_from 0 l) b
               | RL _ h b st al cs => RL (reseed_from n l) h b st al cs   (* seeded twice; second loop wins *)
               end in
    set_rng (set_sch c sc') (rng_pos c + n).      (* the calibrator burns one draw per sampler *)

  (* ---- one batch ---- *)
  (* the sampler object is mutated in place: every position of the tuple that holds this object sees it *)
  Definition replace_uid (s' : sampler) (l : list sampler) : list sampler :=
    map (fun s => if Nat.eqb (s_uid s) (s_uid s') then s' else s) l.

  Definition min_loss (l : list LossV) : option LossV :=
    match l with [] => None | x :: r => Some (fold_left (fun m y => if loss_leb m y then m else y) r x) end.

  (* scheduler.get_next_sampler : position in the samplers tuple + new scheduler state *)
  Definition next_sampler (sc : sched) : option (nat * sched) :=
    match sc with
    | RR l b => match l with [] => None | _ => Some (b mod length l, sc) end    (* `% 0` raises *)
    | RL l h best st al cs =>
        match best with
        | None => Some (h, sc)
        | Some _ => Some (agent_actions (fst cs), RL l h best st al (S (fst cs), snd cs))
        end
    end.

  Definition sched_update (sc : sched) (new_losses : list LossV) : sched :=
    match sc with
    | RR l b => RR l (S b)
    | RL l h best st al cs =>
        match min_loss new_losses, best with
        | Some m, None => RL l h (Some m) st al cs
        | Some m, Some b =>            (* the outcome is put; the agent learns from it and puts its next action *)
            RL l h (Some (if loss_leb b m then b else m)) st al (fst cs, S (snd cs))
        | None, _ => sc
        end
    end.

  (* np.repeat(params, E) / seeds drawn in the parent in order / reshape (B*E) -> (B,E), with the fault plan:
     returns the simulated rows, or the number of model calls made before the raise *)
  Fixpoint sim_member (p : Param) (e : nat) (pos mc : nat) : list Series + nat (*calls made incl. failing*) :=
    match e with
    | 0 => inl []
    | S e' =>
        match plan with
        | FModel k => if Nat.eqb k mc then inr 1 else
                        match sim_member p e' (S pos) (S mc) with
                        | inl r => inl (model p (draws pos) :: r) | inr n => inr (S n) end
        | _ => match sim_member p e' (S pos) (S mc) with
               | inl r => inl (model p (draws pos) :: r) | inr n => inr (S n) end
        end
    end.
  Fixpoint simulate (E : nat) (ps : list Param) (pos mc : nat) : list (list Series) + nat :=
    match ps with
    | [] => inl []
    | p :: ps' =>
        match sim_member p E pos mc with
        | inr n => inr n
        | inl row => match simulate E ps' (pos + E) (mc + E) with
                     | inl rows => inl (row :: rows) | inr n => inr (E + n) end
        end
    end.

  Fixpoint eval_losses (rows : list (list Series)) (lc : nat) : list LossV + nat :=
    match rows with
    | [] => inl []
    | r :: rows' =>
        match plan with
        | FLoss k => if Nat.eqb k lc then inr 1 else
                       match eval_losses rows' (S lc) with inl l => inl (lossf r :: l) | inr n => inr (S n) end
        | _ => match eval_losses rows' (S lc) with inl l => inl (lossf r :: l) | inr n => inr (S n) end
        end
    end.

  Definition sampler_faults (s : sampler) : bool :=
    match plan with FSampler u k => Nat.eqb u (s_uid s) && Nat.eqb k (s_calls s) | _ => false end.

  Inductive outcome := Done | Converged | Raised (e : exn).

  Definition save (c : core) : option core :=
    match sch c with RR _ _ => Some c | RL _ _ _ _ _ _ => None end.   (* an RL scheduler cannot be pickled *)

  (* body of the for-loop of calibrate(); after the repair 55d2acb the stop does not read `verbose` and the
     checkpoint of the triggering batch is written before the `break` *)
  Definition one_batch (s : cstate) : cstate * outcome :=
    let c := live s in
    match next_sampler (sch c) with
    | None => (s, Raised ExOther)
    | Some (i, sc1) =>
      match nth_error (sched_samplers sc1) i with
      | None => (mkSt (set_sch c sc1) (disk s), Raised ExOther)          (* IndexError *)
      | Some m =>
        let m' := called m in
        let sc2 := with_samplers sc1 (replace_uid m' (sched_samplers sc1)) in
        if sampler_faults m then (mkSt (set_sch c sc2) (disk s), Raised ExSampler) else
        let new_params := propose m (params c) (losses c) in
        let E := c_E (cfg c) in
        match simulate E new_params (rng_pos c) (model_calls c) with
        | inr n => (mkSt (set_counts (set_rng (set_sch c sc2) (rng_pos c + n)) (model_calls c + n) (loss_calls c)) (disk s),
                    Raised ExModel)
        | inl rows =>
          let pos' := rng_pos c + length new_params * E in
          let mc' := model_calls c + length new_params * E in
          match eval_losses rows (loss_calls c) with
          | inr n => (mkSt (set_counts (set_rng (set_sch c sc2) pos') mc' (loss_calls c + n)) (disk s), Raised ExLoss)
          | inl new_losses =>
            match tlookup (s_class m) (tbl c) with
            | None => (mkSt (set_counts (set_rng (set_sch c sc2) pos') mc' (loss_calls c + length rows)) (disk s),
                       Raised ExOther)                                   (* KeyError *)
            | Some mid =>
              let c' := mkCore (cfg c)
                          (params c ++ new_params) (losses c ++ new_losses) (series c ++ rows)
                          (batch_nums c ++ repeat (batch_idx c) (s_bsize m))     (* sized by batch_size, as written *)
                          (methods c ++ repeat mid (s_bsize m))
                          (n_sampled c + length new_params) (S (batch_idx c))
                          (sched_update sc2 new_losses) pos' (tbl c) mc' (loss_calls c + length rows) in
              let conv := match c_prec (cfg c) with
                          | None => Some false
                          | Some p => match min_loss (firstn (n_sampled c') (losses c')) with
                                      | None => None                      (* np.min of an empty array *)
                                      | Some m0 => Some (rounds0 m0 p)
                                      end
                          end in
              match conv with
              | None => (mkSt c' (disk s), Raised ExValue)
              | Some cv =>
                let oc := if cv then Converged else Done in
                if c_saving (cfg c)
                then match save c' with
                     | Some d => (mkSt c' (Some d), oc)
                     | None => (mkSt c' (disk s), Raised ExOther)
                     end
                else (mkSt c' (disk s), oc)
              end
            end
          end
        end
      end
    end.

  Fixpoint batches (n : nat) (s : cstate) : cstate * outcome :=
    match n with
    | 0 => (s, Done)
    | S n' => match one_batch s with
              | (s', Done) => batches n' s'
              | r => r
              end
    end.

  Definition start_session (sc : sched) : sched + exn :=
    match sc with
    | RR _ _ => inl sc
    | RL l h b st al cs =>            (* the agent thread starts and puts its first action of the session *)
        if st then inl (RL l h b false true (fst cs, S (snd cs))) else inr ExValue
    end.
  Definition end_session (sc : sched) : sched + exn :=
    match sc with
    | RR _ _ => inl sc
    | RL l h b st al cs =>            (* repair 0ccda0a: the pending, never executed action is discarded *)
        if st then inr ExValue else inl (RL l h b true false (snd cs, snd cs))
    end.

  (* stable insertion sort of the (param, loss) pairs by loss: what calibrate() returns up to ties *)
  Fixpoint ins_pair (x : Param * LossV) (l : list (Param * LossV)) : list (Param * LossV) :=
    match l with
    | [] => [x]
    | y :: r => if loss_leb (snd y) (snd x) then y :: ins_pair x r else x :: l
    end.
  Definition sort_pairs (l : list (Param * LossV)) : list (Param * LossV) := fold_left (fun acc x => ins_pair x acc) l [].

  (* calibrate(n): reseeding at batch 0, the session, the batch loop, the sorted return value *)
  Definition calibrate_pos (n : nat) (s : cstate) : cstate * option exn * list (Param * LossV) :=
    let c0 := live s in
    let c1 := if Nat.eqb (batch_idx c0) 0 then set_samplers_seeds c0 else c0 in
    match start_session (sch c1) with
    | inr e => (mkSt c1 (disk s), Some e, [])
    | inl sc =>
      match batches n (mkSt (set_sch c1 sc) (disk s)) with
      | (s', Raised e) =>                                        (* try/finally (repair df6395c): session ended *)
        match end_session (sch (live s')) with
        | inr e' => (s', Some e', [])
        | inl sc' => (mkSt (set_sch (live s') sc') (disk s'), Some e, [])
        end
      | (s', _) =>
        match end_session (sch (live s')) with
        | inr e => (s', Some e, [])
        | inl sc' => let c' := set_sch (live s') sc' in
                     (mkSt c' (disk s'), None, sort_pairs (combine (params c') (losses c')))
        end
      end
    end.

  (* repair 32f0e7b: when no batch was requested the state is checkpointed all the same (the call may have reseeded the
     samplers), so that the folder holds the state calibrate() returns with *)
  Definition zero_ckpt (r : cstate * option exn * list (Param * LossV)) : cstate * option exn * list (Param * LossV) :=
    let '(s', e, ret) := r in
    match e with
    | Some _ => r
    | None => if c_saving (cfg (live s'))
              then match save (live s') with
                   | Some d => (mkSt (live s') (Some d), None, ret)
                   | None => (s', Some ExOther, [])
                   end
              else r
    end.
  Definition calibrate (n : nat) (s : cstate) : cstate * option exn * list (Param * LossV) :=
    match n with 0 => zero_ckpt (calibrate_pos 0 s) | S _ => calibrate_pos n s end.

  (* ---- other operations ---- *)
  Definition create_checkpoint (s : cstate) : cstate * option exn :=
    match save (live s) with Some d => (mkSt (live s) (Some d), None) | None => (s, Some ExOther) end.

  (* restore_from_checkpoint: constructor with the unpickled scheduler, then counters, records, generator state
     and (after the repair c25ce62) the sampler id table are overwritten with the saved ones *)
  Definition restore (s : cstate) : cstate * option exn :=
    match disk s with
    | None => (s, Some ExOther)
    | Some d => (mkSt (set_counts d (model_calls (live s)) (loss_calls (live s))) (disk s), None)   (* ghost counters run on *)
    end.

  Definition set_samplers (l : list sampler) (s : cstate) : cstate * option exn :=
    let c := live s in
    let c1 := set_sch c (with_samplers (sch c) l) in          (* assigned before the table update *)
    match tupdate (tbl c) l with
    | None => (mkSt c1 (disk s), Some ExValue)
    | Some t => (mkSt (set_tbl c1 t) (disk s), None)
    end.

  Definition set_scheduler (sc : sched) (s : cstate) : cstate * option exn :=
    let c1 := set_sch (live s) sc in
    match tupdate (tbl (live s)) (sched_samplers sc) with
    | None => (mkSt c1 (disk s), Some ExValue)
    | Some t => (mkSt (set_tbl c1 t) (disk s), None)
    end.

  Inductive op :=
  | OCalibrate (n : nat) | OCheckpoint | ORestore
  | OSetSamplers (l : list sampler) | OSetScheduler (l : list sampler) (* a fresh round-robin scheduler *).

  Definition step (s : cstate) (o : op) : cstate * option exn * list (Param * LossV) :=
    match o with
    | OCalibrate n => calibrate n s
    | OCheckpoint => let '(s', e) := create_checkpoint s in (s', e, [])
    | ORestore => let '(s', e) := restore s in (s', e, [])
    | OSetSamplers l => let '(s', e) := set_samplers l s in (s', e, [])
    | OSetScheduler l => let '(s', e) := set_scheduler (RR (map unseeded l) 0) s in (s', e, [])
    end.

  Definition run (ops : list op) (s : cstate) : cstate := fold_left (fun st o => fst (fst (step st o))) ops s.
End Calib.
