(* C06 - crash model of the two checkpoint back-ends.
   black_it/utils/json_pandas_checkpointing.py  save_calibrator_state / load_calibrator_state
   black_it/utils/sqlite3_checkpointing.py       save_calibrator_state / load_calibrator_state
   black_it/calibrator.py                         restore_from_checkpoint (cross-checks nothing itself)

   Two write orders are modelled, both "as written":
     Legacy    the tree before the repair:  json, scheduler pickle, loss pickle, csv, h5 (append in place / create),
               every file truncated and rewritten in place; load checks nothing.
     Repaired  the tree after fixes.d/C06-json.patch: scheduler pickle, loss pickle, csv, h5 exactly as before, then
               the four files are read back and digested, the json (with the digests) is written to
               calibration_params.json.tmp and moved over calibration_params.json by os.replace; load compares the
               digest of every file with the one recorded in the json and raises on a difference.
   Executable definitions only; proofs are in Proofs/CrashP.v. *)
From Coq Require Import List Arith Bool.
From BlackIt Require Export Lib.Cases.
Import ListNotations.

Inductive variant := Legacy | Repaired.
Inductive file := FJson | FSched | FLoss | FCsv | FH5 | FTmp.      (* FTmp = calibration_params.json.tmp *)
Inductive who := W0 | W1.                                          (* previous checkpoint s0 / checkpoint being saved s1 *)

(* where a file being written was cut, abstracted to what the readers can distinguish *)
Inductive cut :=
| CutBytes                        (* non-empty strict prefix of a JSON text / pickle stream / HDF5 file *)
| CutHeader                       (* CSV: inside the header line *)
| CutRows (j : nat) (mid : bool). (* CSV: header and j data lines complete; mid = some bytes of the next line follow *)

Inductive slot :=
| Absent
| Whole (w : who)                 (* Old = complete file of s0;  New = complete file as the save of s1 leaves it *)
| Empty                           (* opened for writing (truncated), nothing written / HDF5 file without its dataset *)
| Partial (c : cut)
| Resized                         (* h5 only: dataset resized for the new rows, rows not yet written *)
| Created.                        (* h5 only: written by create_dataset(data=series) into a folder without series file *)
Notation Old := (Whole W0).
Notation New := (Whole W1).

Record folder := mkFolder { f_json : slot; f_sched : slot; f_loss : slot; f_csv : slot; f_h5 : slot; f_tmp : slot }.

Definition get (f : file) (d : folder) : slot :=
  match f with FJson => f_json d | FSched => f_sched d | FLoss => f_loss d | FCsv => f_csv d | FH5 => f_h5 d
             | FTmp => f_tmp d end.
Definition set (f : file) (x : slot) (d : folder) : folder :=
  match f with
  | FJson => mkFolder x (f_sched d) (f_loss d) (f_csv d) (f_h5 d) (f_tmp d)
  | FSched => mkFolder (f_json d) x (f_loss d) (f_csv d) (f_h5 d) (f_tmp d)
  | FLoss => mkFolder (f_json d) (f_sched d) x (f_csv d) (f_h5 d) (f_tmp d)
  | FCsv => mkFolder (f_json d) (f_sched d) (f_loss d) x (f_h5 d) (f_tmp d)
  | FH5 => mkFolder (f_json d) (f_sched d) (f_loss d) (f_csv d) x (f_tmp d)
  | FTmp => mkFolder (f_json d) (f_sched d) (f_loss d) (f_csv d) (f_h5 d) x
  end.

Definition folder_old : folder := mkFolder Old Old Old Old Old Absent.          (* holds the complete checkpoint s0 *)
Definition folder_absent : folder := mkFolder Absent Absent Absent Absent Absent Absent.

(* ------------------------------------------------------------------ the save as a list of file operations *)
Inductive op :=
| OpenTrunc (f : file)            (* Path.open("w"/"wb"), or the open inside DataFrame.to_csv: truncates *)
| Write (f : file)                (* json.dump / pickle.dump / body of to_csv *)
| Close (f : file)                (* end of the with block *)
| H5OpenRW | H5Resize | H5WriteRows | H5Close          (* series file exists: h5py.File(mode="a"), resize, data[a:b]=.. *)
| H5Create | H5CreateDataset                            (* series file absent: h5py.File(mode="w"), create_dataset *)
| Digest (f : file)               (* Repaired: the file is read back and hashed; no effect on the folder *)
| Replace.                        (* Repaired: os.replace(calibration_params.json.tmp, calibration_params.json) *)

Definition text_ops (f : file) : list op := [OpenTrunc f; Write f; Close f].
Definition h5_ops (exists_ : bool) : list op :=
  if exists_ then [H5OpenRW; H5Resize; H5WriteRows; H5Close] else [H5Create; H5CreateDataset; H5Close].

(* json_pandas_checkpointing.py save_calibrator_state, statement order as written *)
Definition save_ops (v : variant) (h5_exists : bool) : list op :=
  match v with
  | Legacy => text_ops FJson ++ text_ops FSched ++ text_ops FLoss ++ text_ops FCsv ++ h5_ops h5_exists
  | Repaired => text_ops FSched ++ text_ops FLoss ++ text_ops FCsv ++ h5_ops h5_exists
                ++ [Digest FSched; Digest FLoss; Digest FCsv; Digest FH5] ++ text_ops FTmp ++ [Replace]
  end.

Definition apply_op (o : op) (d : folder) : folder :=
  match o with
  | OpenTrunc f => set f Empty d
  | Write f => set f New d
  | Close _ => d
  | H5OpenRW => d
  | H5Resize => set FH5 Resized d
  | H5WriteRows => set FH5 New d
  | H5Close => d
  | H5Create => set FH5 Empty d
  | H5CreateDataset => set FH5 Created d
  | Digest _ => d
  | Replace => set FTmp Absent (set FJson (f_tmp d) d)
  end.

Definition run_ops (l : list op) (d : folder) : folder := fold_left (fun d o => apply_op o d) l d.

Definition h5_present (d : folder) : bool := match f_h5 d with Absent => false | _ => true end.

(* the folder left when the process stops (or an exception leaves the function) after the first k operations of a
   save started on folder d; an open text file is closed with what was written so far *)
Definition crash_from (v : variant) (d : folder) (k : nat) : folder :=
  run_ops (firstn k (save_ops v (h5_present d))) d.
Definition crash (v : variant) (k : nat) : folder := crash_from v folder_old k.           (* on top of checkpoint s0 *)
Definition crash_fresh (v : variant) (k : nat) : folder := crash_from v folder_absent k.  (* first save in the folder *)
Definition nops (v : variant) : nat := length (save_ops v true).
Definition nops_fresh (v : variant) : nat := length (save_ops v false).

(* the operation that (re)writes the content of file f: the cut crash points sit inside it *)
Definition writes (f : file) (o : op) : bool :=
  match o, f with
  | Write FJson, FJson | Write FSched, FSched | Write FLoss, FLoss | Write FCsv, FCsv | Write FTmp, FTmp => true
  | H5Resize, FH5 | H5CreateDataset, FH5 => true
  | _, _ => false
  end.
Fixpoint index_of (p : op -> bool) (l : list op) : nat :=
  match l with [] => 0 | o :: r => if p o then 0 else S (index_of p r) end.
(* file f cut at c, the files written before it complete, the files written after it untouched *)
Definition crash_cut_from (v : variant) (d : folder) (f : file) (c : cut) : folder :=
  set f (Partial c) (crash_from v d (index_of (writes f) (save_ops v (h5_present d)))).
Definition crash_cut (v : variant) (f : file) (c : cut) : folder := crash_cut_from v folder_old f c.

(* ------------------------------------------------------------------ what the instrumented run can observe *)
(* the harness wraps Path.open, json.dump, pickle.dump, DataFrame.to_csv (seen as the open of the csv), h5py.File,
   Dataset.resize, Dataset.__setitem__, Group.create_dataset, os.replace; closes and the body of to_csv are not seen *)
Definition observable (o : op) : bool :=
  match o with
  | OpenTrunc _ => true
  | Write FCsv => false
  | Write _ => true
  | Close _ | H5Close => false
  | _ => true
  end.
Definition op_eqb_file (a b : file) : bool :=
  match a, b with FJson, FJson | FSched, FSched | FLoss, FLoss | FCsv, FCsv | FH5, FH5 | FTmp, FTmp => true | _, _ => false end.
Definition op_eqb (a b : op) : bool :=
  match a, b with
  | OpenTrunc f, OpenTrunc g | Write f, Write g | Close f, Close g | Digest f, Digest g => op_eqb_file f g
  | H5OpenRW, H5OpenRW | H5Resize, H5Resize | H5WriteRows, H5WriteRows | H5Close, H5Close | H5Create, H5Create
  | H5CreateDataset, H5CreateDataset | Replace, Replace => true
  | _, _ => false
  end.
Fixpoint ops_eqb (a b : list op) : bool :=
  match a, b with [] , [] => true | x :: a', y :: b' => op_eqb x y && ops_eqb a' b' | _, _ => false end.
Definition events (v : variant) (h5_exists : bool) : list op := filter observable (save_ops v h5_exists).
(* which write order the observed event trace of a complete save belongs to *)
Definition detect (h5_exists : bool) (evs : list op) : option variant :=
  if ops_eqb evs (events Legacy h5_exists) then Some Legacy
  else if ops_eqb evs (events Repaired h5_exists) then Some Repaired else None.
(* number of operations performed when the i-th observable operation is about to start *)
Fixpoint ops_before_event (i : nat) (l : list op) : nat :=
  match l with
  | [] => 0
  | o :: r => if observable o then match i with 0 => 0 | S i' => S (ops_before_event i' r) end
              else S (ops_before_event i r)
  end.

(* ------------------------------------------------------------------ contents, readers, restore *)
Inductive cls := Error | Exactly_old | Exactly_new | Hybrid.
Definition cls_eqb (a b : cls) : bool :=
  match a, b with Error, Error | Exactly_old, Exactly_old | Exactly_new, Exactly_new | Hybrid, Hybrid => true
                | _, _ => false end.
Inductive rd (A : Type) := RErr | ROk (a : A).
Arguments RErr {A}. Arguments ROk {A} a.

(* what pandas makes of a last line that was cut: the same values, other values (nan padding / shorter numerals), or
   an exception - the model is a monitor there and accepts the three *)
Inductive tail_choice := TIntact | TGarbled | TRaise.

Section Crash.
  (* the five components of a checkpoint, any types with a decidable equality:
     J  everything stored in calibration_params.json (configuration, counters, generator state, id table)
     Sc the pickled scheduler (with samplers), Lo the pickled loss,
     Hdr/Row  header and data lines of calibration_results.csv,  HRow  one row of the series dataset *)
  Variables J Sc Lo Hdr Row HRow : Type.
  Variable J_eqb : J -> J -> bool.
  Variable S_eqb : Sc -> Sc -> bool.
  Variable L_eqb : Lo -> Lo -> bool.
  Variable Hdr_eqb : Hdr -> Hdr -> bool.
  Variable Row_eqb : Row -> Row -> bool.
  Variable HRow_eqb : HRow -> HRow -> bool.
  Variable zrow : HRow.                           (* the row of zeros HDF5 shows for allocated, unwritten rows *)

  Record state := mkState { sj : J; ss : Sc; sl : Lo; shd : Hdr; sr : list Row; sh : list HRow }.

  Fixpoint list_eqb {A} (e : A -> A -> bool) (a b : list A) : bool :=
    match a, b with [], [] => true | x :: a', y :: b' => e x y && list_eqb e a' b' | _, _ => false end.

  (* json_pandas_checkpointing.py:224-237 as written: rows on disk are kept, series[nb_rows:] is appended *)
  Definition h5_appended (s0 s1 : state) : list HRow := sh s0 ++ skipn (length (sh s0)) (sh s1).
  Definition h5_resized (s0 s1 : state) : list HRow :=
    sh s0 ++ repeat zrow (length (skipn (length (sh s0)) (sh s1))).

  (* what is on disk in a slot *)
  Inductive content :=
  | KAbsent | KEmpty | KJunk (c : cut)
  | KS (x : Sc) | KL (x : Lo)
  | KCsv (h : Hdr) (rows : list Row) (tail : bool)      (* tail = a cut last line follows the complete rows *)
  | KH (rows : list HRow).

  Definition pick (s0 s1 : state) (w : who) : state := match w with W0 => s0 | W1 => s1 end.

  Definition content_of (s0 s1 : state) (f : file) (x : slot) : content :=
    match x with
    | Absent => KAbsent
    | Empty => KEmpty
    | Whole w =>
        match f with
        | FSched => KS (ss (pick s0 s1 w))
        | FLoss => KL (sl (pick s0 s1 w))
        | FCsv => KCsv (shd (pick s0 s1 w)) (sr (pick s0 s1 w)) false
        | FH5 => KH (match w with W0 => sh s0 | W1 => h5_appended s0 s1 end)
        | FJson | FTmp => KEmpty   (* the json files are read by read_json below *)
        end
    | Partial c =>
        match f, c with
        | FCsv, CutRows j mid => KCsv (shd s1) (firstn j (sr s1)) mid
        | _, _ => KJunk c
        end
    | Resized => match f with FH5 => KH (h5_resized s0 s1) | _ => KEmpty end
    | Created => match f with FH5 => KH (sh s1) | _ => KEmpty end
    end.

  (* pickle.load / pd.read_csv + column selection / h5py read of "data" on a content *)
  Definition read_S (k : content) : rd Sc := match k with KS x => ROk x | _ => RErr end.
  Definition read_L (k : content) : rd Lo := match k with KL x => ROk x | _ => RErr end.
  Definition read_H (k : content) : rd (list HRow) := match k with KH r => ROk r | _ => RErr end.
  (* rows and "the last row is not one that was saved" *)
  Definition read_csv (t : tail_choice) (s1 : state) (k : content) : rd (Hdr * list Row * bool) :=
    match k with
    | KCsv h rows false => ROk (h, rows, false)
    | KCsv h rows true =>
        match t with
        | TIntact => ROk (h, firstn (S (length rows)) (sr s1), false)
        | TGarbled => ROk (h, rows, true)
        | TRaise => RErr
        end
    | _ => RErr
    end.

  (* digests recorded in the json by the Repaired save: one per data file, of the bytes on disk at that moment *)
  Variable D : Type.
  Variable digest : content -> D.
  Variable D_eqb : D -> D -> bool.
  Definition data_files : list file := [FSched; FLoss; FCsv; FH5].

  (* json.load of calibration_params.json: the J component of its writer and (Repaired) the digests it recorded.
     A json written by the save of s_w recorded the files that save left: Whole w (Created for the series file of a
     first save). *)
  Definition left_by (has_prev : bool) (w : who) (f : file) : slot :=
    match w, f, has_prev with W1, FH5, false => Created | _, _, _ => Whole w end.
  Definition read_json (v : variant) (has_prev : bool) (s0 s1 : state) (x : slot) : rd (J * option (list D)) :=
    match x with
    | Whole w =>
        ROk (sj (pick s0 s1 w),
             match v with
             | Legacy => None
             | Repaired => Some (map (fun f => digest (content_of s0 s1 f (left_by has_prev w f))) data_files)
             end)
    | _ => RErr
    end.

  Fixpoint digests_ok (ds : list D) (ks : list content) : bool :=
    match ds, ks with
    | [], [] => true
    | d :: ds', k :: ks' => D_eqb (digest k) d && digests_ok ds' ks'
    | _, _ => false
    end.

  Record rstate := mkR { rj : J; rs : Sc; rl : Lo; rhd : Hdr; rr : list Row; rbad : bool; rh : list HRow }.

  (* load_calibrator_state (json_pandas_checkpointing.py:40-101; Repaired: + the digest loop) followed by
     Calibrator.restore_from_checkpoint (calibrator.py:248-327), which copies the loaded values into a new object *)
  Definition load (v : variant) (t : tail_choice) (has_prev : bool) (s0 s1 : state) (d : folder) : rd rstate :=
    match read_json v has_prev s0 s1 (f_json d) with
    | RErr => RErr
    | ROk (j, dg) =>
        let ks := map (fun f => content_of s0 s1 f (get f d)) data_files in
        if match dg with None => true | Some ds => digests_ok ds ks end then
          match read_csv t s1 (content_of s0 s1 FCsv (f_csv d)),
                read_S (content_of s0 s1 FSched (f_sched d)),
                read_L (content_of s0 s1 FLoss (f_loss d)),
                read_H (content_of s0 s1 FH5 (f_h5 d)) with
          | ROk (h, rows, bad), ROk s, ROk l, ROk hr => ROk (mkR j s l h rows bad hr)
          | _, _, _, _ => RErr
          end
        else RErr
    end.

  Definition same (r : rstate) (s : state) : bool :=
    J_eqb (rj r) (sj s) && S_eqb (rs r) (ss s) && L_eqb (rl r) (sl s) && Hdr_eqb (rhd r) (shd s)
    && list_eqb Row_eqb (rr r) (sr s) && negb (rbad r) && list_eqb HRow_eqb (rh r) (sh s).

  (* has_prev = the folder held checkpoint s0 before the save; otherwise only "exactly s1" can be a clean outcome *)
  Definition load_class_gen (v : variant) (t : tail_choice) (has_prev : bool) (s0 s1 : state) (d : folder) : cls :=
    match load v t has_prev s0 s1 d with
    | RErr => Error
    | ROk r => if has_prev && same r s0 then Exactly_old else if same r s1 then Exactly_new else Hybrid
    end.
  Definition load_class (v : variant) (s0 s1 : state) (d : folder) : cls := load_class_gen v TGarbled true s0 s1 d.
  (* the admissible classes where the outcome depends on the bytes of a cut line *)
  Definition load_class_set (v : variant) (has_prev : bool) (s0 s1 : state) (d : folder) : list cls :=
    map (fun t => load_class_gen v t has_prev s0 s1 d) [TIntact; TGarbled; TRaise].

  Definition hybrid_points (v : variant) (s0 s1 : state) : list nat :=
    filter (fun k => cls_eqb (load_class v s0 s1 (crash v k)) Hybrid) (seq 0 (S (nops v))).
End Crash.
Arguments sj {_ _ _ _ _ _} _. Arguments ss {_ _ _ _ _ _} _. Arguments sl {_ _ _ _ _ _} _.
Arguments shd {_ _ _ _ _ _} _. Arguments sr {_ _ _ _ _ _} _. Arguments sh {_ _ _ _ _ _} _.
Arguments rj {_ _ _ _ _ _} _. Arguments rs {_ _ _ _ _ _} _. Arguments rl {_ _ _ _ _ _} _. Arguments rhd {_ _ _ _ _ _} _.
Arguments rr {_ _ _ _ _ _} _. Arguments rbad {_ _ _ _ _ _} _. Arguments rh {_ _ _ _ _ _} _.

(* ------------------------------------------------------------------ the parameters bundled (theorem statements) *)
Record components := mkComponents {
  cJ : Type; cSc : Type; cLo : Type; cHdr : Type; cRow : Type; cHRow : Type;
  cJ_eqb : cJ -> cJ -> bool; cS_eqb : cSc -> cSc -> bool; cL_eqb : cLo -> cLo -> bool; cHdr_eqb : cHdr -> cHdr -> bool;
  cRow_eqb : cRow -> cRow -> bool; cHRow_eqb : cHRow -> cHRow -> bool;
  czrow : cHRow;
  cD : Type; cdigest : content cSc cLo cHdr cRow cHRow -> cD; cD_eqb : cD -> cD -> bool }.

(* a checkpoint: any values of the five component types *)
Definition checkpoint (c : components) : Type := state (cJ c) (cSc c) (cLo c) (cHdr c) (cRow c) (cHRow c).

(* class of the restore on folder d, for checkpoints s0 (previous) and s1 (being saved) *)
Definition class_of (c : components) (v : variant) (t : tail_choice) (has_prev : bool) (s0 s1 : checkpoint c) (d : folder)
  : cls :=
  load_class_gen (cJ c) (cSc c) (cLo c) (cHdr c) (cRow c) (cHRow c) (cJ_eqb c) (cS_eqb c) (cL_eqb c) (cHdr_eqb c)
    (cRow_eqb c) (cHRow_eqb c) (czrow c) (cD c) (cdigest c) (cD_eqb c) v t has_prev s0 s1 d.

(* the boolean equalities decide equality *)
Record decides_eq (c : components) : Prop := mkDecides {
  dJ : forall a b, cJ_eqb c a b = true <-> a = b;
  dS : forall a b, cS_eqb c a b = true <-> a = b;
  dL : forall a b, cL_eqb c a b = true <-> a = b;
  dHdr : forall a b, cHdr_eqb c a b = true <-> a = b;
  dRow : forall a b, cRow_eqb c a b = true <-> a = b;
  dHRow : forall a b, cHRow_eqb c a b = true <-> a = b;
  dD : forall a b, cD_eqb c a b = true <-> a = b }.

(* different file contents have different digests (SHA-256 collision freedom, assumed) *)
Definition digest_injective (c : components) : Prop := forall a b, cdigest c a = cdigest c b -> a = b.

(* series on disk after the in-place append / after the resize only *)
Definition appended (c : components) (s0 s1 : checkpoint c) : list (cHRow c) := h5_appended _ _ _ _ _ _ s0 s1.
Definition resized (c : components) (s0 s1 : checkpoint c) : list (cHRow c) := h5_resized _ _ _ _ _ _ (czrow c) s0 s1.

(* two successive checkpoints in generic position: counters / generator state differ, the series grew, the new rows
   are not all zero, and the rows on disk are a prefix of the new series (same run) *)
Definition generic_pair (c : components) (s0 s1 : checkpoint c) : Prop :=
  sj s0 <> sj s1 /\ sh s0 <> sh s1 /\ resized c s0 s1 <> sh s1 /\ appended c s0 s1 = sh s1.

(* ------------------------------------------------------------------ token instantiation (correspondence, witnesses) *)
Definition tstate := state nat nat nat nat nat nat.
Definition tcontent := content nat nat nat nat nat.
Definition cut_eqb (a b : cut) : bool :=
  match a, b with
  | CutBytes, CutBytes | CutHeader, CutHeader => true
  | CutRows j m, CutRows j' m' => Nat.eqb j j' && Bool.eqb m m'
  | _, _ => false
  end.
Definition tcontent_eqb (a b : tcontent) : bool :=
  match a, b with
  | KAbsent _ _ _ _ _, KAbsent _ _ _ _ _ | KEmpty _ _ _ _ _, KEmpty _ _ _ _ _ => true
  | KJunk _ _ _ _ _ c, KJunk _ _ _ _ _ c' => cut_eqb c c'
  | KS _ _ _ _ _ x, KS _ _ _ _ _ y | KL _ _ _ _ _ x, KL _ _ _ _ _ y => Nat.eqb x y
  | KCsv _ _ _ _ _ h r t, KCsv _ _ _ _ _ h' r' t' => Nat.eqb h h' && list_eqb Nat.eqb r r' && Bool.eqb t t'
  | KH _ _ _ _ _ r, KH _ _ _ _ _ r' => list_eqb Nat.eqb r r'
  | _, _ => false
  end.
(* tokens: every component a number, the digest of a content is the content itself *)
Definition tcomponents (zr : nat) : components :=
  mkComponents nat nat nat nat nat nat Nat.eqb Nat.eqb Nat.eqb Nat.eqb Nat.eqb Nat.eqb zr tcontent (fun k => k) tcontent_eqb.
Definition tload_class_set (v : variant) (has_prev : bool) (zr : nat) (s0 s1 : tstate) (d : folder) : list cls :=
  map (fun t => class_of (tcomponents zr) v t has_prev s0 s1 d) [TIntact; TGarbled; TRaise].

(* generic pair: every mutable component differs, s1 extends s0 by rows that are not zero *)
Definition tok0 : tstate := mkState _ _ _ _ _ _ 0 0 0 0 [1; 2] [1; 2].
Definition tok1 : tstate := mkState _ _ _ _ _ _ 1 1 0 0 [1; 2; 3] [1; 2; 3].
Definition hybrid_list_legacy : list nat :=
  Eval vm_compute in hybrid_points nat nat nat nat nat nat Nat.eqb Nat.eqb Nat.eqb Nat.eqb Nat.eqb Nat.eqb 0 nat
    (fun _ => 0) Nat.eqb Legacy tok0 tok1.

(* ------------------------------------------------------------------ correspondence cases *)
Inductive point :=
| PEvent (i : nat)               (* the i-th observable file operation raised instead of running *)
| PComplete                      (* the save ran to its end *)
| PCut (f : file) (empty : bool) (c : cut).  (* file f of a completed save cut (empty: at byte 0) over the old files *)

Record case := mkCase {
  c_prev : bool;                 (* the folder held s0 before the save *)
  c_events : list op;            (* observed file operations of an uninterrupted save on that folder *)
  c_zrow : nat; c_s0 : tstate; c_s1 : tstate;
  c_point : point;
  c_expect : option variant;     (* write order the harness believes it is looking at (None: only detect) *)
  c_obs : cls }.

Definition case_folder (v : variant) (c : case) : folder :=
  let d0 := if c_prev c then folder_old else folder_absent in
  match c_point c with
  | PEvent i => crash_from v d0 (ops_before_event i (save_ops v (c_prev c)))
  | PComplete => crash_from v d0 (length (save_ops v (c_prev c)))
  | PCut f true _ => set f Empty (crash_cut_from v d0 f CutBytes)
  | PCut f false ct => crash_cut_from v d0 f ct
  end.

Fixpoint cls_in (x : cls) (l : list cls) : bool := match l with [] => false | y :: r => cls_eqb x y || cls_in x r end.

Definition variant_eqb (a b : variant) : bool :=
  match a, b with Legacy, Legacy | Repaired, Repaired => true | _, _ => false end.

Definition check_case (c : case) : bool :=
  match detect (c_prev c) (c_events c) with
  | None => false
  | Some v =>
      match c_expect c with None => true | Some v' => variant_eqb v v' end
      && cls_in (c_obs c) (tload_class_set v (c_prev c) (c_zrow c) (c_s0 c) (c_s1 c) (case_folder v c))
  end.

(* ------------------------------------------------------------------ SQLite back-end *)
(* sqlite3_checkpointing.py save_calibrator_state: the statements issued on the connection, in order.
   Python's sqlite3 (legacy transaction control): PRAGMA and executescript run in autocommit mode, executescript first
   commits a pending transaction; DELETE/INSERT issued through execute open a transaction implicitly; on an exception
   the function calls rollback() and closes. *)
Inductive stmt :=
| SPragma                         (* PRAGMA user_version=... *)
| SScript (with_delete : bool)    (* executescript(DDL [; DELETE FROM checkpoint]) *)
| SDelete                         (* execute(DELETE FROM checkpoint) *)
| SInsert                         (* execute(INSERT ...) *)
| SCommit.

Definition sql_stmts (v : variant) : list stmt :=
  match v with
  | Legacy => [SPragma; SScript true; SInsert; SCommit]
  | Repaired => [SPragma; SScript false; SDelete; SInsert; SCommit]
  end.

Definition stmt_eqb (a b : stmt) : bool :=
  match a, b with
  | SPragma, SPragma | SDelete, SDelete | SInsert, SInsert | SCommit, SCommit => true
  | SScript x, SScript y => Bool.eqb x y
  | _, _ => false
  end.
Fixpoint stmts_eqb (a b : list stmt) : bool :=
  match a, b with [], [] => true | x :: a', y :: b' => stmt_eqb x y && stmts_eqb a' b' | _, _ => false end.
Definition sql_detect (l : list stmt) : option variant :=
  if stmts_eqb l (sql_stmts Legacy) then Some Legacy else if stmts_eqb l (sql_stmts Repaired) then Some Repaired else None.

Section Sqlite.
  Variable St : Type.                       (* the single row of table checkpoint *)
  (* durable = rows of the table as committed; txn = rows as seen inside the open transaction, if one is open *)
  Record db := mkDb { durable : list St; txn : option (list St) }.

  Definition view (x : db) : list St := match txn x with Some r => r | None => durable x end.
  Definition commit (x : db) : db := mkDb (view x) None.
  Definition rollback (x : db) : db := mkDb (durable x) None.

  Definition exec (s1 : St) (q : stmt) (x : db) : db :=
    match q with
    | SPragma => x
    | SScript del => let y := commit x in if del then mkDb [] None else y
    | SDelete => mkDb (durable x) (Some [])
    | SInsert => mkDb (durable x) (Some (view x ++ [s1]))
    | SCommit => commit x
    end.
  Definition exec_all (s1 : St) (l : list stmt) (x : db) : db := fold_left (fun x q => exec s1 q x) l x.

  (* the i-th statement raises (before = instead of running, otherwise right after it ran); the handler rolls back *)
  Definition failed_save (v : variant) (s1 : St) (i : nat) (after : bool) (x : db) : db :=
    rollback (exec_all s1 (firstn (if after then S i else i) (sql_stmts v)) x).
  Definition complete_save (v : variant) (s1 : St) (x : db) : db := exec_all s1 (sql_stmts v) x.

  (* load_calibrator_state: SELECT ... FROM checkpoint; fetchone() - None on an empty table -> TypeError *)
  Definition sql_load (x : db) : rd St := match durable x with r :: _ => ROk r | [] => RErr end.
  Definition db_of (prev : option St) : db := mkDb (match prev with Some s => [s] | None => [] end) None.
End Sqlite.

Inductive sql_out := SErr | SOld | SNew | SOther.
Definition sql_out_eqb (a b : sql_out) : bool :=
  match a, b with SErr, SErr | SOld, SOld | SNew, SNew | SOther, SOther => true | _, _ => false end.

Record sqlcase := mkSql {
  q_prev : bool; q_stmts : list stmt;
  q_fault : option (nat * bool);          (* (index of the statement that raises, after?) ; None = complete save *)
  q_expect : option variant;
  q_obs : sql_out }.

(* tokens: previous row 0, new row 1 *)
Definition sql_check (c : sqlcase) : bool :=
  match sql_detect (q_stmts c) with
  | None => false
  | Some v =>
      match q_expect c with None => true | Some v' => variant_eqb v v' end
      && let x0 := db_of nat (if q_prev c then Some 0 else None) in
         let x := match q_fault c with
                  | Some (i, a) => failed_save nat v 1 i a x0
                  | None => complete_save nat v 1 x0
                  end in
         sql_out_eqb (q_obs c)
           (match sql_load nat x with
            | RErr => SErr
            | ROk r => if Nat.eqb r 0 then (if q_prev c then SOld else SOther) else if Nat.eqb r 1 then SNew else SOther
            end)
  end.
