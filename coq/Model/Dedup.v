(* Model of BaseSampler.sample / find_and_get_duplicates  (black_it/samplers/base.py:62-148).
   Executable definitions only; proofs are in Proofs/DedupP.v. *)
From Coq Require Import List ZArith Bool Arith.
From BlackIt Require Export Lib.Cases.
Import ListNotations.

Definition point := list Z.

Definition point_eq_dec : forall a b : point, {a = b} + {a <> b} := list_eq_dec Z.eq_dec.
Definition point_eqb (a b : point) : bool := if point_eq_dec a b then true else false.

(* lexicographic order = the order of np.unique(axis=0) on rows of equal width *)
Fixpoint point_leb (a b : point) : bool :=
  match a, b with
  | [], _ => true
  | _ :: _, [] => false
  | x :: a', y :: b' => if Z.ltb x y then true else if Z.ltb y x then false else point_leb a' b'
  end.

Fixpoint insert (p : point) (l : list point) : list point :=
  match l with
  | [] => [p]
  | x :: r => if point_leb p x then p :: l else x :: insert p r
  end.
Definition isort (l : list point) : list point := fold_right insert [] l.
Definition sort_uniq (l : list point) : list point := isort (nodup point_eq_dec l).

Definition count (p : point) (l : list point) : nat := length (filter (point_eqb p) l).

(* np.argwhere(np.all(new_points == g, axis=1)) : ascending positions of g in s *)
Fixpoint positions_from (k : nat) (g : point) (s : list point) : list nat :=
  match s with
  | [] => []
  | x :: r => if point_eqb g x then k :: positions_from (S k) g r else positions_from (S k) g r
  end.
Definition positions_of (g : point) (s : list point) : list nat := positions_from 0 g s.

(* find_and_get_duplicates(new_points = s, existing_points = h) *)
Definition repeated_groups (h s : list point) : list point :=
  filter (fun g => 2 <=? count g (h ++ s)) (sort_uniq (h ++ s)).
Definition dup_positions (h s : list point) : list nat :=
  flat_map (fun g => positions_of g s) (repeated_groups h s).

Fixpoint set_nth (i : nat) (v : point) (s : list point) : list point :=
  match s, i with
  | [], _ => []
  | _ :: r, 0 => v :: r
  | x :: r, S i' => x :: set_nth i' v r
  end.

(* samples[duplicates] = new_samples : k-th flagged position receives k-th new row *)
Fixpoint substitute (s : list point) (pos : list nat) (news : list point) : list point :=
  match pos, news with
  | i :: pos', v :: news' => substitute (set_nth i v s) pos' news'
  | _, _ => s
  end.

Section Sample.
  Variable St : Type.
  (* sample_batch(batch_size = n, ...) of an arbitrary generator with internal state *)
  Variable gen : St -> nat -> list point * St.

  (* the for-loop of sample(); returns (samples, state, flagged positions of each pass that redrew) *)
  Fixpoint passes (budget : nat) (h s : list point) (st : St) : list point * St * list (list nat) :=
    match budget with
    | 0 => (s, st, [])
    | S b =>
        match dup_positions h s with
        | [] => (s, st, [])
        | d => let '(news, st') := gen st (length d) in
               let '(out, st'', fl) := passes b h (substitute s d news) st' in
               (out, st'', d :: fl)
        end
    end.

  Definition sample (bsize budget : nat) (h : list point) (st : St) : list point * St * list (list nat) :=
    let '(s, st1) := gen st bsize in passes budget h s st1.

  Definition requests (r : list point * St * list (list nat)) : list nat := map (@length nat) (snd r).
  Definition output (r : list point * St * list (list nat)) : list point := fst (fst r).
End Sample.

(* scripted generator used by the correspondence: k-th call returns k-th scripted batch *)
Definition script_gen (st : list (list point)) (n : nat) : list point * list (list point) :=
  match st with [] => ([], []) | b :: r => (b, r) end.

Definition sample_script bsize budget h script := sample _ script_gen bsize budget h script.

Fixpoint points_eqb (a b : list point) : bool :=
  match a, b with
  | [], [] => true
  | x :: a', y :: b' => point_eqb x y && points_eqb a' b'
  | _, _ => false
  end.
Fixpoint nats_eqb (a b : list nat) : bool :=
  match a, b with
  | [], [] => true
  | x :: a', y :: b' => Nat.eqb x y && nats_eqb a' b'
  | _, _ => false
  end.

(* one correspondence case: inputs and what the implementation was observed to do *)
Definition check_case (c : nat * nat * list point * list (list point) * list point * list nat) : bool :=
  let '(bsize, budget, h, script, obs_out, obs_reqs) := c in
  let r := sample_script bsize budget h script in
  points_eqb (output _ r) obs_out && nats_eqb (requests _ r) obs_reqs.

(* ---- round 4: a generator whose FIRST batch is a view of rows [a, a + bsize) of the caller's history array
   (`return existing_points[a:a + batch_size]`).  sample() writes the redraws into the very array sample_batch returned
   (base.py:113 `samples[duplicates] = new_samples`), hence through the view into the history: after every substitution
   the history holds the current batch at offset a, and the next pass compares the batch with THAT history. *)
Definition window (a n : nat) (h : list point) : list point := firstn n (skipn a h).
Definition write_through (a : nat) (h s : list point) : list point := firstn a h ++ s ++ skipn (a + length s) h.

Section SampleView.
  Variable St : Type.
  Variable gen : St -> nat -> list point * St.

  (* returns (samples, history as the caller finds it afterwards, state, flagged positions of each pass that redrew) *)
  Fixpoint passes_view (budget a : nat) (h s : list point) (st : St) : list point * list point * St * list (list nat) :=
    match budget with
    | 0 => (s, h, st, [])
    | S b =>
        match dup_positions h s with
        | [] => (s, h, st, [])
        | d => let '(news, st') := gen st (length d) in
               let s' := substitute s d news in
               let '(out, h', st'', fl) := passes_view b a (write_through a h s') s' st' in
               (out, h', st'', d :: fl)
        end
    end.

  (* the generator is called (its state advances) but the batch IS the window of the history *)
  Definition sample_view (bsize budget a : nat) (h : list point) (st : St) :=
    let '(_, st1) := gen st bsize in passes_view budget a h (window a bsize h) st1.

  Definition view_output (r : list point * list point * St * list (list nat)) : list point := fst (fst (fst r)).
  Definition view_history (r : list point * list point * St * list (list nat)) : list point := snd (fst (fst r)).
  Definition view_requests (r : list point * list point * St * list (list nat)) : list nat := map (@length nat) (snd r).
End SampleView.

Definition sample_view_script bsize budget a h script := sample_view _ script_gen bsize budget a h script.

(* one correspondence case of the aliased situation: inputs, and the batch / history / requests observed afterwards *)
Definition check_case_view (c : nat * nat * nat * list point * list (list point) * list point * list point * list nat) : bool :=
  let '(bsize, budget, a, h, script, obs_out, obs_hist, obs_reqs) := c in
  let r := sample_view_script bsize budget a h script in
  points_eqb (view_output _ r) obs_out && points_eqb (view_history _ r) obs_hist && nats_eqb (view_requests _ r) obs_reqs.
