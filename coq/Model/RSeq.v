(* Model of black_it/samplers/r_sequence.py (compute_phi 59-75, _reset 88-94, _r_sequence 122-140) over exact
   rationals.  Executable definitions only; proofs are in Proofs/RSeqP.v (the statements about the irrational
   root phi_d live over R there; this file only evaluates the polynomial at rational points). *)
From Coq Require Import List ZArith QArith Qabs Qround Qminmax Bool.
From BlackIt Require Export Model.Halton.
Import ListNotations.
Open Scope Q_scope.

Fixpoint qpow (x : Q) (n : nat) : Q := match n with O => 1 | S n' => x * qpow x n' end.

(* phi_d is the root >= 1 of  x^(d+1) = x + 1 ; fpoly d x = x^(d+1) - x - 1 *)
Definition fpoly (d : nat) (x : Q) : Q := qpow x (S d) - x - 1.

(* certificate that the unique root >= 1 lies in (x - eps, x + eps): sign change of fpoly, exact evaluation *)
Definition phi_cert (d : nat) (x eps : Q) : bool :=
  Qle_bool 1 (x - eps) && Qle_bool 1 (x + eps)
  && Qlt_bool (fpoly d (x - eps)) 0 && Qlt_bool 0 (fpoly d (x + eps)).

(* alpha = np.power(1 / phi, np.arange(1, dims + 1)) : [r; r^2; ...; r^dims] with r = 1 / phi (running product) *)
Fixpoint alpha_from (r a : Q) (n : nat) : list Q :=
  match n with O => [] | S n' => a :: alpha_from r (a * r) n' end.
Definition alpha_of (phi : Q) (dims : nat) : list Q := alpha_from (/ phi) (/ phi) dims.

(* x % 1 for the (non-negative) values that occur; defined for every rational as x - floor x *)
Definition frac (x : Q) : Q := x - inject_Z (Qfloor x).

(* row of index n: (sequence_start + n * alpha) % 1 *)
Definition rpoint (off : Q) (alpha : list Q) (n : Z) : list Q :=
  map (fun a => frac (off + inject_Z n * a)) alpha.

(* indexes = np.arange(cursor, cursor + k): the first row of a batch has index = cursor itself *)
Definition rbatch (off : Q) (alpha : list Q) (s : Z) (k : nat) : list (list Q) :=
  map (rpoint off alpha) (zrange s k).

(* _r_sequence(nb_samples, dims) with the cursor as the state (offset and alpha do not change between reseeds) *)
Definition rsample (off : Q) (alpha : list Q) (s : Z) (k : nat) : list (list Q) * Z :=
  (rbatch off alpha s k, (s + Z.of_nat k)%Z).
Fixpoint rrun (off : Q) (alpha : list Q) (s : Z) (ks : list nat) : list (list Q) * Z :=
  match ks with
  | [] => ([], s)
  | k :: r => let '(pts, s') := rsample off alpha s k in
              let '(rest, s'') := rrun off alpha s' r in (pts ++ rest, s'')
  end.

(* ------------------------------------------------------------------ correspondence checks *)

(* distance on the circle R/Z between two values of [0,1] *)
Definition circ_dist (x y : Q) : Q := let d := Qabs (x - y) in Qmin d (Qabs (1 - d)).

(* floor to a multiple of 2^-p (keeps the numbers of the check small; error < 2^-p) *)
Definition qtrunc (p : positive) (x : Q) : Q := Qfloor (x * inject_Z (Zpos (2 ^ p)%positive)) # (2 ^ p)%positive.

(* tolerance for coordinate k (1-based) of row n: the float alpha_k is within (k+2) ulp-halves of (1/phi)^k, this is
   multiplied by n; plus the roundings of the product and of the sum (each < 2^-37 for n < 2^17):
   (n * (k + 4) + 64) * 2^-49 *)
Definition rtol (n : Z) (k : nat) : Q := (inject_Z (n * (Z.of_nat k + 4) + 64)) * (1 # (2 ^ 49)%positive).

Fixpoint row_close_from (k : nat) (n : Z) (model obs : list Q) : bool :=
  match model, obs with
  | [], [] => true
  | m :: model', o :: obs' =>
      Qle_bool 0 o && Qle_bool o 1 && Qle_bool (circ_dist m o) (rtol n k) && row_close_from (S k) n model' obs'
  | _, _ => false
  end.
Fixpoint rrows_close_from (n : Z) (model obs : list (list Q)) : bool :=
  match model, obs with
  | [], [] => true
  | m :: model', o :: obs' => row_close_from 1 n m o && rrows_close_from (n + 1) model' obs'
  | _, _ => false
  end.

Fixpoint check_rcalls (off : Q) (alpha : list Q) (s : Z) (ks : list nat) (obs : list (Z * list (list Q))) : bool :=
  match ks, obs with
  | [], [] => true
  | k :: ks', (cur, rows) :: obs' =>
      let '(pts, s') := rsample off alpha s k in
      rrows_close_from s pts rows && (s' =? cur)%Z && check_rcalls off alpha s' ks' obs'
  | _, _ => false
  end.

(* One R-sequence sampler object: dims, phi = compute_phi(dims) as returned, s_seed = cursor right after seeding and
   offset (both read from the object), s_first = cursor before the first call of this run, batch sizes, per call
   (cursor after, raw rows), twin = one call of sum-k points on an equally seeded sampler ([] = not applicable). *)
Definition check_rseq (c : nat * Q * Z * Z * Q * list nat * list (Z * list (list Q)) * list (list Q)) : bool :=
  let '(dims, phi, s_seed, s_first, off, ks, obs, twin) := c in
  phi_cert dims phi (1 # (2 ^ 45)%positive)
  && (20 <=? s_seed)%Z && (s_seed <? 2 ^ 16)%Z && (s_seed <=? s_first)%Z && Qle_bool 0 off && Qlt_bool off 1
  && check_rcalls off (map (qtrunc 100) (alpha_of phi dims)) s_first ks obs
  && match twin with [] => true | _ => rows_same (concat (map snd obs)) twin end.

(* compute_phi(d) alone *)
Definition check_phi (c : nat * Q) : bool := let '(d, phi) := c in phi_cert d phi (1 # (2 ^ 45)%positive).
