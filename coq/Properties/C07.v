(* C07 - each built-in loss computes its published definition.
   Property theorems only; each is closed by `exact` of a lemma of Lib/IvEval.v or Proofs/LossSpecP.v.
   What these theorems cover: the soundness of the reference evaluator against which /repo is compared on every run,
   the soundness of the comparison itself, and the structure / constants / discrete parts of the definitions.
   That the Python evaluates the definitions within the tolerance is *sampled* by harness/props/c07.py, not proved. *)
From Coq Require Import Reals ZArith QArith List.
From Interval Require Import Eval.Tree Interval.Interval Interval.Float Real.Xreal.
From BlackIt Require Import Lib.IvEval Model.LossSpec Proofs.LossSpecP.
Import ListNotations.

(* --- the reference evaluator *)
(* the interval computed for a term always contains the real value of the definition (undefined sub-terms: Inan) *)
Theorem C07_eval_tree_sound : forall prec e (bs : list I.type) (vs : list R),
  env_ok bs (map Xreal vs) -> contains (I.convert (eval_i prec e bs)) (Xreal (Tree.eval e vs)).
Proof. exact eval_tree_sound. Qed.
Print Assumptions C07_eval_tree_sound.

(* a bounded enclosure proves that the definition is defined (no x/0, no ln of a non-positive number) and brackets it *)
Theorem C07_enclosure_sound : forall prec e (bs : list I.type) (vs : list R) lo hi,
  env_ok bs (map Xreal vs) ->
  I.convert (eval_i prec e bs) = Interval.Ibnd (Xreal lo) (Xreal hi) ->
  eval_x e (map Xreal vs) = Xreal (Tree.eval e vs) /\ (lo <= Tree.eval e vs <= hi)%R.
Proof. exact enclosure_sound. Qed.
Print Assumptions C07_enclosure_sound.

(* the same for programs with shared sub-terms (every loss is one) *)
Theorem C07_run_tree_sound : forall prec p n,
  contains (I.convert (nth n (run_i prec p []) I.nai)) (Xreal (nth n (run_r p []) 0%R)).
Proof. exact run_tree_sound. Qed.
Print Assumptions C07_run_tree_sound.

Theorem C07_prog_le_sound : forall prec p i j, prog_le prec p i j = true ->
  (nth i (run_r p []) 0 <= nth j (run_r p []) 0)%R.
Proof. exact prog_le_sound. Qed.
Print Assumptions C07_prog_le_sound.

(* the correspondence check is sound: `check_case c = true` with a finite returned value v means that the real-valued
   definition evaluated on the case's exact inputs is within 1e-9 max(1,|v|) of v *)
Theorem C07_check_case_sound : forall c v, cobs c = Some v -> check_case c = true ->
  (Rabs (case_value c - dyR v) <= Q2R (tolQ (dyQ v)))%R.
Proof. exact check_case_sound. Qed.
Print Assumptions C07_check_case_sound.

(* --- base class *)
Theorem C07_compute_loss_is_weighted_sum : forall ws ls vs,
  Tree.eval (wcombine ws ls) vs = Rsum (map2 (fun l w => (Tree.eval l vs * Tree.eval w vs)%R) ls ws).
Proof. exact wcombine_is_weighted_sum. Qed.
Print Assumptions C07_compute_loss_is_weighted_sum.

Theorem C07_default_weights_sum_1 : forall d vs, (0 < d)%nat -> Tree.eval (esum (default_weights d)) vs = 1%R.
Proof. exact default_weights_sum_1. Qed.
Print Assumptions C07_default_weights_sum_1.

(* --- Minkowski *)
Theorem C07_mink_sum_zero_iff : forall p ms rs vs, length ms = length rs ->
  (Tree.eval (mink_sum (Zpos p) ms rs) vs = 0%R <-> Forall2 (fun m r => Tree.eval m vs = Tree.eval r vs) ms rs).
Proof. exact mink_sum_zero_iff. Qed.
Print Assumptions C07_mink_sum_zero_iff.

Theorem C07_minkowski_zero_iff : forall p z ms rs vs, p = 1%positive \/ p = 2%positive \/ p = 4%positive ->
  length ms = length rs ->
  (Tree.eval (eroot (Zpos p) z (mink_sum (Zpos p) ms rs)) vs = 0%R <->
   Forall2 (fun m r => Tree.eval m vs = Tree.eval r vs) ms rs).
Proof. exact minkowski_zero_iff. Qed.
Print Assumptions C07_minkowski_zero_iff.

(* --- method of moments, identity weighting: a sum of squares *)
Theorem C07_msm_identity_nonneg : forall g vs, (0 <= Tree.eval (esum (map esqr g)) vs)%R.
Proof. exact sum_squares_nonneg. Qed.
Print Assumptions C07_msm_identity_nonneg.

(* --- Fourier: the angle reduction used by the DFT term *)
Theorem C07_twiddle_reduction : forall m n : Z, (0 < n)%Z -> (0 <= m)%Z ->
  cos (2 * PI * IZR m / IZR n) = cos (2 * PI * IZR (m mod n) / IZR n) /\
  sin (2 * PI * IZR m / IZR n) = sin (2 * PI * IZR (m mod n) / IZR n).
Proof. exact twiddle_reduction. Qed.
Print Assumptions C07_twiddle_reduction.

(* --- GSL-div, discrete parts *)
Theorem C07_gsl_weights_sum_1 : forall L, (0 < L)%nat -> fold_right Qplus 0%Q (map (gsl_weight L) (seq 1 L)) == 1%Q.
Proof. exact gsl_weights_sum_1. Qed.
Print Assumptions C07_gsl_weights_sum_1.

Theorem C07_symbols_in_range : forall (b : nat) (lo hi x : Q), (0 < b)%nat -> (lo < x)%Q -> (x < hi)%Q ->
  (1 <= sym_of (edges b lo hi) x <= Z.of_nat b)%Z.
Proof. exact symbols_in_range. Qed.
Print Assumptions C07_symbols_in_range.

Theorem C07_symbolize_in_range : forall b xs, (0 < b)%nat -> Forall (fun s => 1 <= s <= Z.of_nat b)%Z (symbolize b xs).
Proof. exact symbolize_in_range. Qed.
Print Assumptions C07_symbolize_in_range.

Theorem C07_word_count : forall l xs, (1 <= l)%nat -> length (words l xs) = (length xs + 1 - l)%nat.
Proof. exact word_count. Qed.
Print Assumptions C07_word_count.

Theorem C07_probs_sum_1 : forall ws, ws <> [] -> fold_right Qplus 0%Q (probs ws) == 1%Q.
Proof. exact probs_sum_1. Qed.
Print Assumptions C07_probs_sum_1.

(* --- GSL-div, the base-10 word packing of gsl_div.py:262-266 *)
Theorem C07_pack10_injective_small : forall w w',
  Forall (fun s => 0 <= s <= 9)%Z w -> Forall (fun s => 0 <= s <= 9)%Z w' ->
  length w = length w' -> pack10 w = pack10 w' -> w = w'.
Proof. exact pack10_injective_small. Qed.
Print Assumptions C07_pack10_injective_small.

(* below ten symbols the packed words have the same counts as the tuples *)
Theorem C07_pack10_counts_small : forall ws w,
  Forall (fun v => Forall (fun s => 0 <= s <= 9)%Z v /\ length v = length w) ws ->
  Forall (fun s => 0 <= s <= 9)%Z w ->
  count_occ word_eq_dec (map (fun v => [pack10 v]) ws) [pack10 w] = count_occ word_eq_dec ws w.
Proof. exact map_pack_count. Qed.
Print Assumptions C07_pack10_counts_small.

(* "distinct words are distinct after packing" is refuted as soon as a symbol can exceed 9 *)
Theorem C07_pack10_conflates_refuted : [1; 12]%Z <> [2; 2]%Z /\ pack10 [1; 12]%Z = pack10 [2; 2]%Z.
Proof. exact pack10_conflates_refuted. Qed.
Print Assumptions C07_pack10_conflates_refuted.

(* --- non-vacuity witnesses *)
(* a Minkowski case (E=2, N=3, D=1, p=2): mean series (1,2,3), real (1,2,5): distance 2, returned 2 -> accepted;
   returned 2.5 -> rejected; the enclosure is bounded *)
Definition ex_mink (v : dy) : case :=
  mkCase (LMink 2) 0 [[[(0,0);(2,0);(3,0)]; [(2,0);(2,0);(3,0)]]]%Z [None] [[(1,0);(2,0);(5,0)]]%Z None (Some v).
Example ex_mink_accepts : check_case (ex_mink (2, 0)%Z) = true.
Proof. vm_compute. reflexivity. Qed.
Example ex_mink_rejects : check_case (ex_mink (5, -1)%Z) = false.
Proof. vm_compute. reflexivity. Qed.
(* inverse-variance weighting with identical series divides by zero: the enclosure is Inan, only a non-finite
   observation is accepted *)
Definition ex_iv (v : option dy) : case :=
  mkCase (LMsm [(false, Mean); (false, Std)] false CovIV false) 0 [[[(1,0);(2,0);(4,0)]]]%Z [None] [[(1,0);(2,0);(4,0)]]%Z None v.
Example ex_iv_undefined : check_case (ex_iv None) = true /\ check_case (ex_iv (Some (0, 0)%Z)) = false.
Proof. vm_compute. split; reflexivity. Qed.
(* the symbolisation of the docstring example of GslDivLoss.discretize is reproduced up to the eps widening *)
Example ex_symbolize : symbolize 3 (map inject_Z [1;2;3;4;5;6;7;8;9;10]%Z) = [1;1;1;2;2;2;2;3;3;3]%Z.
Proof. vm_compute. reflexivity. Qed.
Example ex_words : map pack10 (words 2 [1;2;2;2]%Z) = [12;22;22]%Z.
Proof. vm_compute. reflexivity. Qed.
(* with 12 symbols the code-shaped words of [1;12;2;2] have 2 distinct values, the tuples 3 *)
Example ex_conflation : length (distinct (words_v 1 2 [1;12;2;2]%Z)) = 2%nat /\ length (distinct (words_v 0 2 [1;12;2;2]%Z)) = 3%nat.
Proof. vm_compute. split; reflexivity. Qed.
