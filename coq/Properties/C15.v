(* C15 — search-space specifications are validated and discretised as documented.
   Property theorems only; each is closed by `exact` of a lemma proved in Proofs/SearchSpaceP.v.
   Part 1 holds for ANY numeric interface (==, >, -, 0), hence for IEEE binary64 (check_bounds_F, the instance the
   correspondence runs against /repo) and for exact rationals (check_bounds_Q).  Parts 2-3 are over Q, for all inputs. *)
From Coq Require Import List ZArith QArith Sorted Floats.
From BlackIt Require Import Model.SearchSpace Proofs.SearchSpaceP.
Import ListNotations.
Local Open Scope nat_scope.

(* ---------------------------------------------------------------- 1. validation cascade *)

(* Precedence: the cascade returns the FIRST element of the declarative list of all violated conditions
   (three structural conditions, then index-major  same, inverted, zero precision, precision too large). *)
Theorem C15_check_first_violation : forall num eqb gtb sub zero bounds prec,
  check_bounds num eqb gtb sub zero bounds prec = first_violation num eqb gtb sub zero bounds prec.
Proof. exact check_first_violation. Qed.
Print Assumptions C15_check_first_violation.

(* That list is exactly the set of violated conditions, each tested on its own ... *)
Theorem C15_violations_complete : forall num eqb gtb sub zero e b p,
  In e (violations num eqb gtb sub zero b p) <->
    ((e = BoundsNotOfSizeTwo (length b) /\ length b <> 2) \/
     (e = BoundsOfDifferentLength (length (nth 0 b [])) (length (nth 1 b [])) /\
        length (nth 0 b []) <> length (nth 1 b [])) \/
     (e = BadPrecisionLength (length p) (length (nth 0 b [])) /\ length p <> length (nth 0 b []))) \/
    exists i l u pr, nth_error (nth 0 b []) i = Some l /\ nth_error (nth 1 b []) i = Some u /\ nth_error p i = Some pr /\
      ((e = SameLowerAndUpperBound i l /\ eqb l u = true) \/
       (e = LowerBoundGreaterThanUpperBound i l u /\ gtb l u = true) \/
       (e = PrecisionZero i /\ eqb pr zero = true) \/
       (e = PrecisionGreaterThanBoundsRange i l u pr /\ gtb pr (sub u l) = true)).
Proof. exact violations_complete. Qed.
Print Assumptions C15_violations_complete.

(* ... and it is strictly increasing for the documented order (err_key = (0, rank) for structural errors,
   (index+1, rank) for per-parameter ones), so "first" means "least". *)
Theorem C15_violations_sorted : forall num eqb gtb sub zero b p,
  StronglySorted (fun a b => key_lt (err_key a) (err_key b)) (violations num eqb gtb sub zero b p).
Proof. exact violations_sorted. Qed.
Print Assumptions C15_violations_sorted.

Theorem C15_reported_error_is_least_violation : forall num eqb gtb sub zero b p e,
  check_bounds num eqb gtb sub zero b p = Err e ->
  In e (violations num eqb gtb sub zero b p) /\
  forall e', In e' (violations num eqb gtb sub zero b p) -> e' = e \/ key_lt (err_key e) (err_key e').
Proof. exact check_err_minimal. Qed.
Print Assumptions C15_reported_error_is_least_violation.

(* Acceptance: exactly the specifications with the right shape and no violated condition at any index. *)
Theorem C15_check_ok_iff_wellformed : forall num eqb gtb sub zero b p,
  check_bounds num eqb gtb sub zero b p = Ok <->
  (length b = 2 /\ length (nth 0 b []) = length (nth 1 b []) /\ length p = length (nth 0 b [])) /\
  forall i l u pr, nth_error (nth 0 b []) i = Some l -> nth_error (nth 1 b []) i = Some u -> nth_error p i = Some pr ->
    eqb l u = false /\ gtb l u = false /\ eqb pr zero = false /\ gtb pr (sub u l) = false.
Proof. exact check_ok_iff_wellformed. Qed.
Print Assumptions C15_check_ok_iff_wellformed.

(* The same, read on exact values. *)
Theorem C15_check_ok_Q_iff : forall b p,
  check_bounds_Q b p = Ok <->
  (length b = 2 /\ length (nth 0 b []) = length (nth 1 b []) /\ length p = length (nth 0 b [])) /\
  forall i l u pr, nth_error (nth 0 b []) i = Some l -> nth_error (nth 1 b []) i = Some u -> nth_error p i = Some pr ->
    (l < u /\ ~ pr == 0 /\ pr <= u - l)%Q.
Proof. exact check_ok_Q_iff. Qed.
Print Assumptions C15_check_ok_Q_iff.

(* Payloads. *)
Theorem C15_payload_not_size_two : forall num eqb gtb sub zero b p n,
  check_bounds num eqb gtb sub zero b p = Err (BoundsNotOfSizeTwo n) -> n = length b /\ n <> 2.
Proof. exact payload_not_size_two. Qed.
Print Assumptions C15_payload_not_size_two.

Theorem C15_payload_different_length : forall num eqb gtb sub zero b p n m,
  check_bounds num eqb gtb sub zero b p = Err (BoundsOfDifferentLength n m) ->
  length b = 2 /\ n = length (nth 0 b []) /\ m = length (nth 1 b []) /\ n <> m.
Proof. exact payload_different_length. Qed.
Print Assumptions C15_payload_different_length.

Theorem C15_payload_bad_precision_length : forall num eqb gtb sub zero b p n m,
  check_bounds num eqb gtb sub zero b p = Err (BadPrecisionLength n m) ->
  length b = 2 /\ length (nth 0 b []) = length (nth 1 b []) /\ n = length p /\ m = length (nth 0 b []) /\ n <> m.
Proof. exact payload_bad_precision_length. Qed.
Print Assumptions C15_payload_bad_precision_length.

Theorem C15_payload_same : forall num eqb gtb sub zero b p i v,
  check_bounds num eqb gtb sub zero b p = Err (SameLowerAndUpperBound i v) ->
  shape_ok num b p /\ nth_error (nth 0 b []) i = Some v /\ exists u, nth_error (nth 1 b []) i = Some u /\ eqb v u = true.
Proof. exact payload_same. Qed.
Print Assumptions C15_payload_same.

Theorem C15_payload_inverted : forall num eqb gtb sub zero b p i l u,
  check_bounds num eqb gtb sub zero b p = Err (LowerBoundGreaterThanUpperBound i l u) ->
  shape_ok num b p /\ nth_error (nth 0 b []) i = Some l /\ nth_error (nth 1 b []) i = Some u /\
  gtb l u = true /\ eqb l u = false.
Proof. exact payload_inverted. Qed.
Print Assumptions C15_payload_inverted.

Theorem C15_payload_precision_zero : forall num eqb gtb sub zero b p i,
  check_bounds num eqb gtb sub zero b p = Err (PrecisionZero i) ->
  shape_ok num b p /\ exists l u pr, nth_error (nth 0 b []) i = Some l /\ nth_error (nth 1 b []) i = Some u /\
    nth_error p i = Some pr /\ eqb pr zero = true /\ eqb l u = false /\ gtb l u = false.
Proof. exact payload_precision_zero. Qed.
Print Assumptions C15_payload_precision_zero.

Theorem C15_payload_precision_too_large : forall num eqb gtb sub zero b p i l u pr,
  check_bounds num eqb gtb sub zero b p = Err (PrecisionGreaterThanBoundsRange i l u pr) ->
  shape_ok num b p /\ nth_error (nth 0 b []) i = Some l /\ nth_error (nth 1 b []) i = Some u /\ nth_error p i = Some pr /\
  gtb pr (sub u l) = true /\ eqb l u = false /\ gtb l u = false /\ eqb pr zero = false.
Proof. exact payload_precision_too_large. Qed.
Print Assumptions C15_payload_precision_too_large.

(* Index-major: every parameter before the reported one violates nothing. *)
Theorem C15_earlier_indices_clean : forall num eqb gtb sub zero b p e j l u pr,
  check_bounds num eqb gtb sub zero b p = Err e -> S j < fst (err_key e) ->
  nth_error (nth 0 b []) j = Some l -> nth_error (nth 1 b []) j = Some u -> nth_error p j = Some pr ->
  at_index num eqb gtb sub zero j l u pr = [].
Proof. exact earlier_indices_clean. Qed.
Print Assumptions C15_earlier_indices_clean.

(* ---------------------------------------------------------------- 2. the grid (all l u p eps in Q) *)
Local Open Scope Q_scope.

Theorem C15_grid_first : forall eps l u p x, nth_error (grid_e eps l u p) 0 = Some x -> x == l.
Proof. exact grid_first. Qed.
Print Assumptions C15_grid_first.

Theorem C15_grid_step : forall eps l u p i x y,
  nth_error (grid_e eps l u p) i = Some x -> nth_error (grid_e eps l u p) (S i) = Some y -> y - x == p.
Proof. exact grid_step. Qed.
Print Assumptions C15_grid_step.

Theorem C15_grid_nth : forall eps l u p i,
  nth_error (grid_e eps l u p) i =
  if (i <? grid_len eps l u p)%nat then Some (l + inject_Z (Z.of_nat i) * p) else None.
Proof. exact grid_nth. Qed.
Print Assumptions C15_grid_nth.

Theorem C15_grid_last_lt : forall eps l u p x, 0 < p -> last_of (grid_e eps l u p) x -> x < u + eps.
Proof. exact grid_last_lt. Qed.
Print Assumptions C15_grid_last_lt.

Theorem C15_grid_next_beyond : forall eps l u p x, 0 < p -> last_of (grid_e eps l u p) x -> u + eps <= x + p.
Proof. exact grid_next_beyond. Qed.
Print Assumptions C15_grid_next_beyond.

Theorem C15_grid_all_in_range : forall eps l u p i x, 0 < p ->
  nth_error (grid_e eps l u p) i = Some x -> l <= x /\ x < u + eps.
Proof. exact grid_all_in_range. Qed.
Print Assumptions C15_grid_all_in_range.

Theorem C15_grid_hits_upper : forall eps l u p k x,
  0 < eps -> eps < p -> u - l == inject_Z k * p -> last_of (grid_e eps l u p) x -> x == u.
Proof. exact grid_hits_upper. Qed.
Print Assumptions C15_grid_hits_upper.

Theorem C15_grid_len_multiple : forall eps l u p k,
  0 < eps -> eps < p -> (0 <= k)%Z -> u - l == inject_Z k * p -> grid_len eps l u p = S (Z.to_nat k).
Proof. exact grid_len_multiple. Qed.
Print Assumptions C15_grid_len_multiple.

Theorem C15_grid_len_ge_2 : forall eps l u p, 0 < eps -> 0 < p -> p <= u - l -> (2 <= length (grid_e eps l u p))%nat.
Proof. exact grid_length_ge_2. Qed.
Print Assumptions C15_grid_len_ge_2.

Theorem C15_grid_no_repeats : forall l p i j, ~ p == 0 -> grid_elt l p i == grid_elt l p j -> i = j.
Proof. exact grid_elt_injective. Qed.
Print Assumptions C15_grid_no_repeats.

(* the constant of the implementation is positive, so the theorems above apply to `grid = grid_e eps_impl` *)
Theorem C15_eps_impl_pos : 0 < eps_impl.
Proof. exact eps_impl_pos. Qed.
Print Assumptions C15_eps_impl_pos.

(* What is modelled, not what one would like: a negative precision passes the cascade and yields an empty grid. *)
Theorem C15_negative_precision_accepted_empty : forall l u p, l < u -> p < 0 ->
  check_bounds_Q [[l]; [u]] [p] = Ok /\ grid l u p = [].
Proof. exact negative_precision_accepted_empty. Qed.
Print Assumptions C15_negative_precision_accepted_empty.

(* ---------------------------------------------------------------- 3. space size *)
Local Open Scope nat_scope.

Theorem C15_space_size_is_cardinal : forall A (gs : list (list A)),
  space_size gs = Z.of_nat (length (cartesian gs)).
Proof. exact space_size_is_cardinal. Qed.
Print Assumptions C15_space_size_is_cardinal.

Theorem C15_space_size_is_product : forall A (gs : list (list A)),
  space_size gs = fold_right Z.mul 1%Z (map (fun g => Z.of_nat (length g)) gs).
Proof. exact space_size_product. Qed.
Print Assumptions C15_space_size_is_product.

Theorem C15_cartesian_members : forall A (gs : list (list A)) (pt : list A),
  In pt (cartesian gs) <-> Forall2 (fun x g => In x g) pt gs.
Proof. exact in_cartesian. Qed.
Print Assumptions C15_cartesian_members.

Theorem C15_cartesian_no_repeats : forall A (gs : list (list A)), Forall (@NoDup A) gs -> NoDup (cartesian gs).
Proof. exact NoDup_cartesian. Qed.
Print Assumptions C15_cartesian_no_repeats.

(* the constructor: raise the cascade's error, or one grid per parameter, size = cardinal, dims = #precisions *)
Theorem C15_init_ok : forall b p,
  check_bounds_Q b p = Ok ->
  exists gs, init_Q b p = inr (gs, Z.of_nat (length (cartesian gs)), length p) /\ length gs = length p /\
    forall i l u pr, nth_error (nth 0 b []) i = Some l -> nth_error (nth 1 b []) i = Some u -> nth_error p i = Some pr ->
      nth_error gs i = Some (grid l u pr).
Proof. exact init_Q_ok. Qed.
Print Assumptions C15_init_ok.

Theorem C15_init_err : forall b p e, check_bounds_Q b p = Err e -> init_Q b p = inl e.
Proof. exact init_Q_err. Qed.
Print Assumptions C15_init_err.

(* ---------------------------------------------------------------- non-vacuity *)
(* three simultaneous violations at index 0 and two at index 1: inverted wins over zero precision, index 0 over 1 *)
Example C15_nonvacuous_precedence :
  violations_Q [[2; 0]; [1; 0]]%Q [0; 1]%Q =
    [LowerBoundGreaterThanUpperBound 0 2 1; PrecisionZero 0; PrecisionGreaterThanBoundsRange 0 2 1 0;
     SameLowerAndUpperBound 1 0;
     PrecisionGreaterThanBoundsRange 1 0 0 1]%Q /\
  check_bounds_Q [[2; 0]; [1; 0]]%Q [0; 1]%Q = Err (LowerBoundGreaterThanUpperBound 0 2 1)%Q.
Proof. vm_compute. auto. Qed.
(* structural precedence: three subarrays AND wrong precision length -> BoundsNotOfSizeTwo *)
Example C15_nonvacuous_structural :
  check_bounds_Q [[0]; [1]; [2]]%Q [1; 1]%Q = Err (BoundsNotOfSizeTwo 3) /\
  check_bounds_Q [[0; 0]; [1]]%Q [1; 1; 1]%Q = Err (BoundsOfDifferentLength 2 1) /\
  check_bounds_Q [[0; 0]; [1; 1]]%Q [1]%Q = Err (BadPrecisionLength 1 2).
Proof. vm_compute. auto. Qed.
(* binary64 instance: p = u - l is accepted (strict >), 1+2^-52 is distinguished from 1 *)
Example C15_nonvacuous_float :
  check_bounds_F [[0]; [1]]%float [1]%float = Ok /\
  check_bounds_F [[0]; [1]]%float [0x1.0000000000001p+0]%float =
    Err (PrecisionGreaterThanBoundsRange 0 0 1 0x1.0000000000001p+0)%float /\
  check_bounds_F [[1]; [0x1.0000000000001p+0]]%float [1]%float =
    Err (PrecisionGreaterThanBoundsRange 0 1 0x1.0000000000001p+0 1)%float.
Proof. vm_compute. auto. Qed.
(* a well-formed spec, hypotheses of the grid theorems met: [0,1] step 1/4 ends on 1 with 5 points; step 3/10 ends on 9/10 *)
Example C15_nonvacuous_grid :
  check_bounds_Q [[0]; [1]]%Q [1 # 4]%Q = Ok /\
  map Qred (grid 0 1 (1 # 4)) = [0; 1 # 4; 1 # 2; 3 # 4; 1]%Q /\
  map Qred (grid 0 1 (3 # 10)) = [0; 3 # 10; 3 # 5; 9 # 10]%Q /\
  (0 < eps_impl /\ eps_impl < 1 # 4 /\ 1 - 0 == inject_Z 4 * (1 # 4))%Q.
Proof. vm_compute. repeat split; auto; discriminate. Qed.
Example C15_nonvacuous_size :
  space_size [grid 0 1 (1 # 4); grid 0 1 (3 # 10)] = 20%Z /\ length (cartesian [grid 0 1 (1 # 4); grid 0 1 (3 # 10)]) = 20.
Proof. vm_compute. auto. Qed.
Example C15_eps_is_the_double : F2Q 0x1.ad7f29abcaf48p-24%float = eps_impl.
Proof. vm_compute. reflexivity. Qed.

(* ---------------------------------------------------------------- 4. round 4: the nudge as the code computes it *)
Local Open Scope Q_scope.
(* search_space.py:77 adds 1e-7 to the upper bound in binary64.  Whenever that addition returns the upper bound itself
   (eff_eps = 0: every |upper| >= 2^30) the grid is arange(lower, upper, precision): *)
Theorem C15_without_nudge_upper_excluded : forall l u p i x, 0 < p ->
  nth_error (grid_e 0 l u p) i = Some x -> x < u.
Proof. exact without_nudge_upper_excluded. Qed.
Print Assumptions C15_without_nudge_upper_excluded.

Theorem C15_without_nudge_len_multiple : forall l u p k, 0 < p -> (0 <= k)%Z -> u - l == inject_Z k * p ->
  grid_len 0 l u p = Z.to_nat k.
Proof. exact without_nudge_len_multiple. Qed.
Print Assumptions C15_without_nudge_len_multiple.

(* so "ends on the bound itself when the range is a multiple of the precision" is FALSE of the code as written:
   SearchSpace([[0.0], [2e9]], [1e9]) is accepted, its range is exactly 2 steps, and its grid is {0, 1e9}.
   (An Example, not a Theorem: the witness is computed with Coq's primitive binary64 operations.) *)
Example C15_grid_hits_upper_refuted_far_from_origin : exists l u p : float,
  check_bounds_F [[l]; [u]] [p] = Ok /\ F2Q u - F2Q l == inject_Z 2 * F2Q p /\ (0 < F2Q p) /\
  nudge_absorbed u = true /\ eff_eps u == 0 /\
  grid_len (eff_eps u) (F2Q l) (F2Q u) (F2Q p) = 2%nat /\
  forall x, In x (grid_e (eff_eps u) (F2Q l) (F2Q u) (F2Q p)) -> x < F2Q u.
Proof. exact hits_upper_refuted_far_from_origin. Qed.

(* the threshold: 1e-7 survives next to 2^29 (as one ulp = 2^-23) and is absorbed from 2^30 on (below -2^30 on the
   negative side); the constant is the double nearest 1e-7; next to 1.0 the surviving nudge is 1e-7 up to rounding *)
Example C15_nudge_threshold :
  nudge_absorbed 0x1p+29%float = false /\ nudge_absorbed 0x1p+30%float = true /\
  nudge_absorbed (-0x1p+30)%float = false /\ nudge_absorbed (-0x1p+31)%float = true /\
  F2Q eps_F = eps_impl /\ eff_eps 1%float - eps_impl < 1 # 4503599627370496 /\ eps_impl - eff_eps 1%float < 1 # 4503599627370496.
Proof. vm_compute. repeat split; reflexivity. Qed.
