(* C03 — every proposed parameter vector belongs to the declared search space.
   Property theorems only; each is closed by `exact` of a lemma proved in Proofs/SamplersP.v, which itself reuses
   C17 (Proofs/SnapP.v: digitize_on_grid, digitize_shape, digitize_rows_in_product) and C12 (Proofs/DedupP.v: run_ok/substitute,
   sample_shape).  Model: Model/Samplers.v on top of Model/Snap.v and Model/Dedup.v. *)
From Coq Require Import List ZArith QArith Qround Bool Arith Lia Floats.
From BlackIt Require Import Model.Snap Model.Dedup Model.Samplers Proofs.DedupP Proofs.SamplersP.
Import ListNotations.
Local Close Scope Q_scope.

(* --- the last step of the eight snapping samplers, for ARBITRARY raw values: any numeric type, any comparison
       (so: any history, any seed, any internal state, NaN/inf raw values, any number of previous calls) --- *)
Theorem C03_sample_batch_on_grid : forall (num : Type) (zero : num) (ltb : num -> num -> bool) (absdiff : num -> num -> num)
  (raw grids : list (list num)),
  Forall (fun g => g <> []) grids -> width num raw <= length grids ->
  forall r c, r < length raw -> c < width num raw ->
  In (cell num zero r c (snap_rows num zero ltb absdiff raw grids)) (nth c grids []).
Proof. exact snap_rows_cell_on_grid. Qed.
Print Assumptions C03_sample_batch_on_grid.

(* row form: the returned rows are elements of grid_0 x ... x grid_{dims-1} (Forall2 also says: one column per parameter) *)
Theorem C03_sample_batch_rows_on_grid : forall (num : Type) (zero : num) (ltb : num -> num -> bool)
  (absdiff : num -> num -> num) (raw grids : list (list num)),
  Forall (fun g => g <> []) grids -> Forall (fun row => length row = length grids) raw ->
  Forall (on_grid num grids) (snap_rows num zero ltb absdiff raw grids).
Proof. exact snap_rows_on_grid. Qed.
Print Assumptions C03_sample_batch_rows_on_grid.

Theorem C03_sample_batch_shape : forall (num : Type) (zero : num) (ltb : num -> num -> bool) (absdiff : num -> num -> num)
  (raw grids : list (list num)),
  length (snap_rows num zero ltb absdiff raw grids) = length raw /\
  Forall (fun row => length row = width num raw) (snap_rows num zero ltb absdiff raw grids).
Proof. exact snap_rows_shape. Qed.
Print Assumptions C03_sample_batch_shape.

(* --- RandomUniformSampler: indexing the grids with any in-range indices --- *)
Theorem C03_uniform_on_grid : forall (num : Type) (zero : num) (grids : list (list num)) (idx : list (list nat)),
  Forall (idx_in_range num grids) idx ->
  length (index_rows num zero grids idx) = length idx /\ Forall (on_grid num grids) (index_rows num zero grids idx).
Proof. exact index_rows_spec. Qed.
Print Assumptions C03_uniform_on_grid.

(* --- de-duplication (BaseSampler.sample) never invents a row: every returned row is a row of the first draw or of one of
       the redraws that were actually performed --- *)
Theorem C03_rows_from_draws : forall St (gen : St -> nat -> list point * St) bsize budget h st p,
  In p (output St (sample St gen bsize budget h st)) ->
  In p (first_draw St gen bsize st ++ concat (sample_redraws St gen bsize budget h st)).
Proof. exact sample_rows_from_draws. Qed.
Print Assumptions C03_rows_from_draws.

Theorem C03_dedup_closed : forall St (gen : St -> nat -> list point * St) (OnGrid : point -> Prop) bsize budget h st,
  Forall OnGrid (first_draw St gen bsize st) ->
  Forall (Forall OnGrid) (sample_redraws St gen bsize budget h st) ->
  Forall OnGrid (output St (sample St gen bsize budget h st)).
Proof. exact sample_dedup_closed. Qed.
Print Assumptions C03_dedup_closed.

(* --- shape of what sample() returns: batch_size rows, one column per parameter (from C12's shape theorem) --- *)
Theorem C03_sample_shape : forall (ltb : Z -> Z -> bool) (absdiff : Z -> Z -> Z) (grids : list (list Z)) (St Hist : Type)
  (points_of : Hist -> list point) (raw_of : cls -> St -> Hist -> nat -> list (list Z) * St)
  (idx_of : St -> Hist -> nat -> list (list nat) * St),
  Forall (fun g : list Z => g <> []) grids ->
  forall c bsize budget h st,
  raw_width_ok grids St Hist raw_of -> idx_ok grids St Hist idx_of ->
  raw_rows_ok St Hist raw_of -> idx_rows_ok St Hist idx_of ->
  length (output St (sampler_sample ltb absdiff grids St Hist points_of raw_of idx_of c bsize budget h st)) = bsize /\
  Forall (fun p => length p = length grids)
         (output St (sampler_sample ltb absdiff grids St Hist points_of raw_of idx_of c bsize budget h st)).
Proof. exact sampler_sample_shape. Qed.
Print Assumptions C03_sample_shape.

(* --- composition: each of the nine classes, any pass budget, any batch size, any list of successive calls on the same
       object (k-th call: arbitrary k-th history, state left by the previous call), any initial state, any code before the
       last step: every row of every returned batch lies in the product of the grids --- *)
Theorem C03_main_on_grid : forall (ltb : Z -> Z -> bool) (absdiff : Z -> Z -> Z) (grids : list (list Z)) (St Hist : Type)
  (points_of : Hist -> list point) (raw_of : cls -> St -> Hist -> nat -> list (list Z) * St)
  (idx_of : St -> Hist -> nat -> list (list nat) * St),
  Forall (fun g : list Z => g <> []) grids ->
  forall c bsize budget,
  raw_width_ok grids St Hist raw_of -> idx_ok grids St Hist idx_of ->
  forall calls st,
  Forall (Forall (on_grid Z grids)) (run_calls ltb absdiff grids St Hist points_of raw_of idx_of c bsize budget calls st).
Proof. exact run_calls_on_grid. Qed.
Print Assumptions C03_main_on_grid.

Theorem C03_main : forall (ltb : Z -> Z -> bool) (absdiff : Z -> Z -> Z) (grids : list (list Z)) (St Hist : Type)
  (points_of : Hist -> list point) (raw_of : cls -> St -> Hist -> nat -> list (list Z) * St)
  (idx_of : St -> Hist -> nat -> list (list nat) * St),
  Forall (fun g : list Z => g <> []) grids ->
  forall c bsize budget,
  raw_width_ok grids St Hist raw_of -> idx_ok grids St Hist idx_of ->
  raw_rows_ok St Hist raw_of -> idx_rows_ok St Hist idx_of ->
  forall calls st,
  Forall (fun batch => length batch = bsize /\ Forall (on_grid Z grids) batch)
         (run_calls ltb absdiff grids St Hist points_of raw_of idx_of c bsize budget calls st).
Proof. exact run_calls_main. Qed.
Print Assumptions C03_main.

(* --- round 4: ONE sampler object reconfigured between calls.  A step is a sample() on whatever space is passed to that
       call, with the batch size and pass budget assigned at that moment, or a call that raised after moving the internal
       state arbitrarily.  Every batch that is returned has the batch size in force rows, one column per parameter of the
       space in force, and lies on the grid of the space in force - for any interleaving of spaces (also of different
       dimension), reassignments and failed calls --- *)
Theorem C03_main_reconfigured : forall (ltb : Z -> Z -> bool) (absdiff : Z -> Z -> Z) (St Hist : Type)
  (points_of : Hist -> list point) (raw_of : list (list Z) -> cls -> St -> Hist -> nat -> list (list Z) * St)
  (idx_of : list (list Z) -> St -> Hist -> nat -> list (list nat) * St) c,
  contracts_any_space St Hist raw_of idx_of ->
  forall (steps : list (sstep St Hist)) st, spaces_ok St Hist steps ->
  Forall (fun e => length (snd e) = snd (fst e) /\ Forall (on_grid Z (fst (fst e))) (snd e) /\
                   Forall (fun p => length p = length (fst (fst e))) (snd e))
         (run_ssteps ltb absdiff St Hist points_of raw_of idx_of c steps st).
Proof. exact run_steps_main. Qed.
Print Assumptions C03_main_reconfigured.

Theorem C03_reconfigured_on_grid : forall (ltb : Z -> Z -> bool) (absdiff : Z -> Z -> Z) (St Hist : Type)
  (points_of : Hist -> list point) (raw_of : list (list Z) -> cls -> St -> Hist -> nat -> list (list Z) * St)
  (idx_of : list (list Z) -> St -> Hist -> nat -> list (list nat) * St) c,
  width_contracts_any_space St Hist raw_of idx_of ->
  forall (steps : list (sstep St Hist)) st, spaces_ok St Hist steps ->
  Forall (fun e => Forall (on_grid Z (fst (fst e))) (snd e)) (run_ssteps ltb absdiff St Hist points_of raw_of idx_of c steps st).
Proof. exact run_steps_on_grid. Qed.
Print Assumptions C03_reconfigured_on_grid.

(* the log has exactly one entry per successful call, tagged with the space and batch size that were in force *)
Theorem C03_reconfigured_log : forall (ltb : Z -> Z -> bool) (absdiff : Z -> Z -> Z) (St Hist : Type)
  (points_of : Hist -> list point) (raw_of : list (list Z) -> cls -> St -> Hist -> nat -> list (list Z) * St)
  (idx_of : list (list Z) -> St -> Hist -> nat -> list (list nat) * St) c (steps : list (sstep St Hist)) st,
  map (fun e => (fst (fst e), snd (fst e))) (run_ssteps ltb absdiff St Hist points_of raw_of idx_of c steps st) =
  concat (map (fun s => match s with SCall g b _ _ => [(g, b)] | SFailed _ => [] end) steps).
Proof. exact run_steps_spaces. Qed.
Print Assumptions C03_reconfigured_log.

(* a row on the grid, read coordinate by coordinate *)
Theorem C03_on_grid_coordinates : forall (num : Type) (zero : num) (grids : list (list num)) (row : list num),
  on_grid num grids row -> length row = length grids /\ forall c, c < length grids -> In (nth c row zero) (nth c grids []).
Proof. exact on_grid_coordinates. Qed.
Print Assumptions C03_on_grid_coordinates.

(* --- the grid itself stays inside [lower, upper + 1e-7): g_i = l + i*p, i < ceil((u + 1e-7 - l)/p) --- *)
Theorem C03_grid_within_bounds : forall (l u p : Q) (i : nat), (0 < p)%Q -> i < grid_len l u p ->
  (l <= grid_elem l p i)%Q /\ (grid_elem l p i < u + end_tol)%Q.
Proof. exact grid_elem_in_bounds. Qed.
Print Assumptions C03_grid_within_bounds.

Theorem C03_grid_elements_within_bounds : forall (l u p x : Q), (0 < p)%Q -> In x (gridQ l u p) ->
  (l <= x)%Q /\ (x < u + end_tol)%Q.
Proof. exact gridQ_in_bounds. Qed.
Print Assumptions C03_grid_elements_within_bounds.

(* --- HISTORICAL (what bc8d6d0 repaired): perturbing by whole precision steps and clipping to the bounds WITHOUT snapping
       leaves the grid although it stays inside the bounds: bounds [0,1], precision 3/10, x = 9/10 (on grid), k = +1
       gives min(12/10, 1) = 1, and 1 is not in {0, 3/10, 6/10, 9/10} --- *)
Theorem C03_best_batch_unsnapped_refuted :
  exists (l u delta x : Q) (k : Z),
    (0 < delta)%Q /\ (delta <= u - l)%Q /\ (exists g, In g (gridQ l u delta) /\ (g == x)%Q) /\
    (l <= best_batch_unsnapped x k delta l u <= u)%Q /\
    ~ (exists g, In g (gridQ l u delta) /\ (g == best_batch_unsnapped x k delta l u)%Q).
Proof. exact best_batch_unsnapped_off_grid. Qed.
Print Assumptions C03_best_batch_unsnapped_refuted.

(* --- FINDING (surrogate-pool-smaller-than-batch): the row-count clause of C03_main cannot drop its hypothesis raw_rows_ok.
       A surrogate sampler whose candidate pool has fewer rows than batch_size (surrogate.py `candidates[...][:batch_size]`)
       satisfies every other hypothesis, returns on-grid rows (C03_main_on_grid still applies: the partial statement), but
       fewer than batch_size of them --- *)
Theorem C03_short_pool_shape_refuted :
  exists (grids : list (list Z)) (raw_of : cls -> unit -> unit -> nat -> list (list Z) * unit)
         (idx_of : unit -> unit -> nat -> list (list nat) * unit) (c : cls) (bsize : nat),
    Forall (fun g : list Z => g <> []) grids /\ raw_width_ok grids unit unit raw_of /\ idx_ok grids unit unit idx_of /\
    idx_rows_ok unit unit idx_of /\
    length (output unit (sampler_sample Z.ltb (fun a b => Z.abs (a - b)) grids unit unit (fun _ => []) raw_of idx_of
                                        c bsize 0 tt tt)) <> bsize /\
    Forall (on_grid Z grids) (output unit (sampler_sample Z.ltb (fun a b => Z.abs (a - b)) grids unit unit (fun _ => []) raw_of
                                                          idx_of c bsize 0 tt tt)).
Proof. exact short_pool_shape_refuted. Qed.
Print Assumptions C03_short_pool_shape_refuted.

(* ------------------------------------------------------------------ non-vacuity witnesses *)
Local Open Scope Z_scope.
(* codes = tenths; comparison and distance of the integers *)
Definition ex_ltb := Z.ltb.
Definition ex_absdiff (a b : Z) := Z.abs (a - b).
Definition ex_grids : list (list Z) := [[0; 3; 6; 9]; [-10; -5; 0; 5; 10]].
Example C03_ex_grids_nonempty : Forall (fun g : list Z => g <> []) ex_grids.
Proof. repeat constructor; discriminate. Qed.

(* a snapping batch: raw values inside, outside, at mid-points *)
Example C03_ex_snap :
  snap_rows Z 0 ex_ltb ex_absdiff [[10; -7]; [4; 100]; [-3; 2]] ex_grids = [[9; -5]; [3; 10]; [0; 0]]
  /\ Forall (fun row => length row = length ex_grids) [[10; -7]; [4; 100]; [-3; 2]].
Proof. split; [vm_compute; reflexivity | repeat constructor]. Qed.
Example C03_ex_index :
  index_rows Z 0 ex_grids [[3%nat; 0%nat]; [1%nat; 4%nat]] = [[9; -10]; [3; 10]]
  /\ Forall (idx_in_range Z ex_grids) [[3%nat; 0%nat]; [1%nat; 4%nat]].
Proof. split; [vm_compute; reflexivity|]. repeat constructor; cbn; lia. Qed.

(* a stateful sampler: state = call counter; raw depends on class, state, history and requested size;
   history = list of points.  The contracts of C03_main hold for it. *)
Definition ex_raw_of (c : cls) (st : nat) (h : list point) (n : nat) : list (list Z) * nat :=
  (map (fun k => [Z.of_nat (k + st) * 4 - Z.of_nat (length h); 7 - Z.of_nat (k * st) * 3]) (seq 0 n), S st).
Definition ex_idx_of (st : nat) (h : list point) (n : nat) : list (list nat) * nat :=
  (map (fun k => [Nat.modulo (k + st) 4; Nat.modulo (k + length h) 5]) (seq 0 n), S st).
Example C03_ex_contracts :
  raw_width_ok ex_grids nat (list point) ex_raw_of /\ raw_rows_ok nat (list point) ex_raw_of /\
  idx_ok ex_grids nat (list point) ex_idx_of /\ idx_rows_ok nat (list point) ex_idx_of.
Proof.
  unfold raw_width_ok, raw_rows_ok, idx_ok, idx_rows_ok, ex_raw_of, ex_idx_of. cbn [fst]. repeat split; intros.
  - apply Forall_map, Forall_forall. reflexivity.
  - now rewrite map_length, seq_length.
  - apply Forall_map, Forall_forall. intros k _. unfold idx_in_range, ex_grids.
    constructor; [|constructor; [|constructor]]; cbn [length]; apply Nat.mod_upper_bound; discriminate.
  - now rewrite map_length, seq_length.
Qed.
(* three successive calls with a history that repeats a proposed point: de-duplication redraws (requests non-empty),
   the batches differ from call to call, and all of it is on the grid *)
Example C03_ex_run :
  run_calls ex_ltb ex_absdiff ex_grids nat (list point) (fun h => h) ex_raw_of ex_idx_of Halton 2 3
            [[[0; 5]]; [[0; 5]; [3; 5]]; []] 0%nat
  = [[[6; 5]; [9; 0]]; [[9; 5]; [9; 0]]; [[9; 5]; [9; -5]]]
  /\ requests nat (sampler_sample ex_ltb ex_absdiff ex_grids nat (list point) (fun h => h) ex_raw_of ex_idx_of
                                  Halton 2 3 [[0; 5]] 0%nat) = [1%nat; 2%nat]
  /\ run_calls ex_ltb ex_absdiff ex_grids nat (list point) (fun h => h) ex_raw_of ex_idx_of RandomUniform 2 3
            [[[0; -5]]; []] 0%nat
  = [[[3; -5]; [3; 0]]; [[6; -10]; [9; -5]]]
  /\ requests nat (sampler_sample ex_ltb ex_absdiff ex_grids nat (list point) (fun h => h) ex_raw_of ex_idx_of
                                  RandomUniform 2 3 [[0; -5]] 0%nat) = [1%nat].
Proof. vm_compute. repeat split; reflexivity. Qed.

(* round 4: the same stateful generator used on two spaces of different dimension, with the batch size reassigned and a
   failed call (which moves the state) in between: three batches, each on the grid of the space in force *)
Definition ex_grids1 : list (list Z) := [[100; 200; 300]].
Definition ex_raw_any (g : list (list Z)) (c : cls) (st : nat) (h : list point) (n : nat) : list (list Z) * nat :=
  (map (fun k => map (fun j => Z.of_nat (k + st) * 4 - Z.of_nat (length h) + 90 * Z.of_nat j * Z.of_nat (length g)) (seq 0 (length g)))
       (seq 0 n), S st).
Definition ex_idx_any (g : list (list Z)) (st : nat) (h : list point) (n : nat) : list (list nat) * nat :=
  (map (fun k => map (fun x => Nat.modulo (k + st) (length x)) g) (seq 0 n), S st).
Example C03_ex_reconfigured :
  run_ssteps ex_ltb ex_absdiff nat (list point) (fun h => h) ex_raw_any ex_idx_any Halton
            [SCall ex_grids 2 3 [[0; 5]]; SFailed (fun st => st + 5)%nat; SCall ex_grids1 3 0 []; SCall ex_grids 1 1 [[9; 10]]] 0%nat
  = [(ex_grids, 2%nat, [[0; 10]; [3; 10]]); (ex_grids1, 3%nat, [[100]; [100]; [100]]); (ex_grids, 1%nat, [[9; 10]])]
  /\ run_ssteps ex_ltb ex_absdiff nat (list point) (fun h => h) ex_raw_any ex_idx_any RandomUniform
            [SCall ex_grids 2 0 []; SCall ex_grids1 2 0 []] 0%nat
  = [(ex_grids, 2%nat, [[0; -10]; [3; -5]]); (ex_grids1, 2%nat, [[200]; [300]])].
Proof. vm_compute. repeat split; reflexivity. Qed.
Example C03_ex_reconfigured_contracts : contracts_any_space nat (list point) ex_raw_any ex_idx_any.
Proof.
  intros g Hg. unfold raw_width_ok, raw_rows_ok, idx_ok, idx_rows_ok, ex_raw_any, ex_idx_any. cbn [fst]. repeat split; intros.
  - apply Forall_map, Forall_forall. intros k _. now rewrite map_length, seq_length.
  - apply Forall_map, Forall_forall. intros k _. unfold idx_in_range. clear - Hg.
    induction g as [|x g IH]; cbn [map]; constructor.
    + inversion Hg; subst. apply Nat.mod_upper_bound. destruct x; [congruence | discriminate].
    + apply IH. now inversion Hg.
  - now rewrite map_length, seq_length.
  - now rewrite map_length, seq_length.
Qed.

(* the exact-rational grid of bounds [0,1] precision 3/10, and the historical off-grid value *)
Example C03_ex_gridQ :
  gridQ 0 1 (3 # 10) = [0 + inject_Z 0 * (3 # 10); 0 + inject_Z 1 * (3 # 10); 0 + inject_Z 2 * (3 # 10); 0 + inject_Z 3 * (3 # 10)]%Q
  /\ grid_len 0 1 (1 # 10) = 11%nat /\ grid_len (-5) 5 (3 # 1) = 4%nat
  /\ in_gridQ (9 # 10) (gridQ 0 1 (3 # 10)) = true
  /\ Qeq_bool (best_batch_unsnapped (9 # 10) 1 (3 # 10) 0 1) 1 = true
  /\ in_gridQ (best_batch_unsnapped (9 # 10) 1 (3 # 10) 0 1) (gridQ 0 1 (3 # 10)) = false
  /\ in_gridQ (get_closestQ (gridQ 0 1 (3 # 10)) (best_batch_unsnapped (9 # 10) 1 (3 # 10) 0 1)) (gridQ 0 1 (3 # 10)) = true.
Proof. vm_compute. repeat split; reflexivity. Qed.

(* the float64 witness of the same defect on the aligned grid arange(0, 1.0000001, 0.1):
   0.5 + 1*0.1 is inside the bounds (clip is the identity) but is not the grid's element 6*0.1 *)
Example C03_ex_float_witness :
  ((0x1p-1 + 0x1.999999999999ap-4)%float = 0x1.3333333333333p-1%float)
  /\ (6 * 0x1.999999999999ap-4)%float = 0x1.3333333333334p-1%float
  /\ PrimFloat.eqb 0x1.3333333333333p-1 0x1.3333333333334p-1 = false
  /\ PrimFloat.ltb 0x1.3333333333333p-1 1 = true.
Proof. vm_compute. repeat split; reflexivity. Qed.

(* check_case accepts a true observation and rejects an unsnapped / wrongly indexed one *)
Example C03_ex_check_case :
  check_case (SnapCall false [[0; 0x1p-1; 1]; [10; 20]]%float [[0x1.8p-1; 17]; [0x1p-2; 12]]%float [[1; 20]; [0x1p-1; 10]]%float) = true
  /\ check_case (SnapCall false [[0; 0x1p-1; 1]; [10; 20]]%float [[0x1.8p-1; 17]]%float [[0x1.8p-1; 20]]%float) = false
  /\ check_case (SnapCall true [[0; 0x1p-1; 1]; [10; 20]]%float [[0x1.8p-1; 17]]%float [[0x1.8p-1; 20]]%float) = false
  /\ check_case (SnapCall true [[0; 0x1p-1; 1]; [10; 20]]%float [[0x1.8p-1; 17]]%float [[1; 20]]%float) = true
  /\ check_case (IndexCall [[0; 0x1p-1; 1]; [10; 20]]%float [[2%nat; 0%nat]; [1%nat; 1%nat]] [[1; 10]; [0x1p-1; 20]]%float) = true
  /\ check_case (IndexCall [[0; 0x1p-1; 1]; [10; 20]]%float [[2%nat; 0%nat]] [[0x1p-1; 10]]%float) = false.
Proof. vm_compute. repeat split; reflexivity. Qed.

(* Consequently the user's model is never simulated at a parameter outside the declared space: in the calibrator model
   (C02) driven by the built-in sampler model, every parameter recorded in every reachable state - live or checkpointed,
   after any sequence of calibrate / checkpoint / restore / set_samplers / set_scheduler, with any faults - is on the grid;
   and by C02's invariant each recorded series is the model run on exactly such a parameter. *)
From BlackIt Require Import Model.Calibrator Proofs.CalibratorP Proofs.CalibLinkP.
Theorem C03_calibrator_never_leaves_space :
  forall Series LossV ltb absdiff grids St raw_of idx_of cls_of state_of budget_of,
  Forall (fun g : list Z => g <> []) grids ->
  raw_width_ok grids St (list point * list LossV) raw_of -> idx_ok grids St (list point * list LossV) idx_of ->
  raw_rows_ok St (list point * list LossV) raw_of -> idx_rows_ok St (list point * list LossV) idx_of ->
  forall (model : point -> Z -> Series) lossf loss_leb rounds0 draws agent_actions plan cfg0 samplers scheduler s0 ops,
    construct point Series LossV cfg0 samplers scheduler = inl s0 ->
    PInvS point Series LossV (on_grid Z grids)
         (run point Series LossV model lossf loss_leb rounds0
              (builtin_propose LossV ltb absdiff grids St raw_of idx_of cls_of state_of budget_of)
              draws agent_actions plan ops s0).
Proof. intros. eapply reachable_params_P; [| |eassumption]; intros; [now apply builtin_propose_len | now apply builtin_propose_on_grid]. Qed.
Print Assumptions C03_calibrator_never_leaves_space.
