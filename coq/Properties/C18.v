(* C18 — sampler labels in a history can always be mapped back to sampler names.  Property theorems only. *)
From Coq Require Import List ZArith Bool.
From BlackIt Require Import Model.Calibrator Proofs.CalibratorP Proofs.CalibTableP.
Import ListNotations.

(* Every state reachable from a calibrator constructed with a non-empty line-up, by ANY sequence of operations, has a
   table that is non-empty, injective (one id per class, one class per id) and covers the classes of the scheduler's
   current samplers — live and in the checkpoint. *)
Theorem C18_table_invariant :
  forall Param Series LossV model lossf loss_leb rounds0 propose draws agent_actions plan cfg0 samplers scheduler s0 ops,
    construct Param Series LossV cfg0 samplers scheduler = inl s0 ->
    sched_samplers _ (sch _ _ _ (live _ _ _ s0)) <> [] ->
    TInvS Param Series LossV (run Param Series LossV model lossf loss_leb rounds0 propose draws agent_actions plan ops s0).
Proof. intros. apply run_TInv. eapply construct_TInv; eauto. Qed.
Print Assumptions C18_table_invariant.

(* An id, once given to a class, is never reassigned by calibrate / create_checkpoint / set_samplers / set_scheduler. *)
Theorem C18_table_monotone :
  forall Param Series LossV model lossf loss_leb rounds0 propose draws agent_actions plan s o s' e r c i,
    TInvS Param Series LossV s ->
    step Param Series LossV model lossf loss_leb rounds0 propose draws agent_actions plan s o = (s', e, r) -> o <> ORestore ->
    tlookup c (tbl _ _ _ (live _ _ _ s)) = Some i -> tlookup c (tbl _ _ _ (live _ _ _ s')) = Some i.
Proof. exact table_monotone. Qed.
Print Assumptions C18_table_monotone.

(* The id-to-name table is recovered from the checkpoint: a restore returns exactly the table (and the labels) saved. *)
Theorem C18_table_recoverable :
  forall Param Series LossV (s s' : cstate Param Series LossV) e d,
    restore Param Series LossV s = (s', e) -> disk _ _ _ s = Some d ->
    tbl _ _ _ (live _ _ _ s') = tbl _ _ _ d /\ methods _ _ _ (live _ _ _ s') = methods _ _ _ d.
Proof. exact restore_table. Qed.
Print Assumptions C18_table_recoverable.

(* One id identifies one class. *)
Theorem C18_id_identifies_class :
  forall t c c' i, NoDup (map snd t) -> tlookup c t = Some i -> tlookup c' t = Some i -> c = c'.
Proof. exact table_id_identifies_class. Qed.
Print Assumptions C18_id_identifies_class.

(* The label stored with the rows of a batch is the table id of the class of the sampler designated for that batch
   (appended_batch: methods extended by `repeat mid batch_size` with tlookup (class m) table = Some mid). *)
Theorem C18_labels_identify_class :
  forall Param Series LossV model lossf loss_leb rounds0 propose draws agent_actions plan,
  (forall s ps ls, length (propose s ps ls) = s_bsize s) ->
  forall s s' o,
  one_batch Param Series LossV model lossf loss_leb rounds0 propose draws agent_actions plan s = (s', o) ->
    (exists e, o = Raised e /\ records _ _ _ (live _ _ _ s') = records _ _ _ (live _ _ _ s) /\ disk _ _ _ s' = disk _ _ _ s /\
               cfg _ _ _ (live _ _ _ s') = cfg _ _ _ (live _ _ _ s) /\ tbl _ _ _ (live _ _ _ s') = tbl _ _ _ (live _ _ _ s) /\
               e <> ExValue) \/
    (exists i sc1 m, next_sampler LossV agent_actions (sch _ _ _ (live _ _ _ s)) = Some (i, sc1) /\
        nth_error (sched_samplers _ sc1) i = Some m /\
        appended_batch _ _ _ model lossf propose draws (live _ _ _ s) (live _ _ _ s') m /\
        (o = Done \/ o = Converged \/ o = Raised ExValue \/ o = Raised ExOther) /\
        (disk _ _ _ s' = disk _ _ _ s \/ disk _ _ _ s' = Some (live _ _ _ s'))).
Proof. exact one_batch_cases. Qed.
Print Assumptions C18_labels_identify_class.

(* The class of the designated sampler is always in the table: the KeyError of the label lookup cannot happen. *)
Theorem C18_designated_class_in_table :
  forall Param Series LossV agent_actions (s : cstate Param Series LossV) i sc1 m, TInvS Param Series LossV s ->
     next_sampler _ agent_actions (sch _ _ _ (live _ _ _ s)) = Some (i, sc1) -> nth_error (sched_samplers _ sc1) i = Some m ->
     tlookup (s_class m) (tbl _ _ _ (live _ _ _ s)) <> None.
Proof. exact designated_class_in_table. Qed.
Print Assumptions C18_designated_class_in_table.

(* Non-vacuity: [A;B] then set_samplers [B;C] keeps A:0, B:1 and gives C the fresh id 2. *)
Example C18_example :
  tupdate (tconstruct [mkS 0 0 1 0 None; mkS 1 1 1 0 None]) [mkS 1 2 1 0 None; mkS 2 3 1 0 None] = Some [(0, 0); (1, 1); (2, 2)].
Proof. reflexivity. Qed.

(* ---- round 4: attributes reassigned after construction (Model/CalibX.v) never touch the id table ---- *)
From BlackIt Require Import Model.CalibX Proofs.CalibXP.
Theorem C18_table_unaffected_by_attribute_reassignment :
  forall Param Series LossV model lossf loss_leb rounds0 propose draws agent_actions plan s x s1 e r,
  (forall o, x <> XOp o) ->
  xstep Param Series LossV model lossf loss_leb rounds0 propose draws agent_actions plan s x = (s1, e, r) ->
    tbl _ _ _ (live _ _ _ s1) = tbl _ _ _ (live _ _ _ s) /\ methods _ _ _ (live _ _ _ s1) = methods _ _ _ (live _ _ _ s) /\
    disk _ _ _ s1 = disk _ _ _ s /\
    map s_class (sched_samplers _ (sch _ _ _ (live _ _ _ s1))) = map s_class (sched_samplers _ (sch _ _ _ (live _ _ _ s))).
Proof.
  intros until r. intros Hx H. destruct x as [o | p v sv | u b].
  - exfalso. eapply Hx; reflexivity.
  - apply xsetcfg_frame in H. destruct H as (_ & _ & Hd & Hr & Hs & Ht & _). unfold records in Hr.
    repeat split; try congruence.
  - apply xsetbsize_frame in H. destruct H as (_ & _ & Hd & Hr & _ & Ht & _ & Hs). unfold records in Hr.
    repeat split; try congruence. rewrite Hs, map_map. apply map_ext. intros a. apply (set_bsize_keeps u b a).
Qed.
Print Assumptions C18_table_unaffected_by_attribute_reassignment.
