(* C01 — a calibration run is a pure function of its configuration and seed.  Property theorems only.
   In Gallina calibrate is a function: what the theorems add is that its arguments are exactly configuration + seed
   stream, and that verbosity, the saving folder and what it held before are NOT among the things it depends on. *)
From Coq Require Import List ZArith Bool Arith.
From BlackIt Require Import Model.Calibrator Proofs.CalibratorP Proofs.CalibFlagsP Proofs.CalibFaultP Proofs.CalibSchedP Proofs.CalibResumeP.
Import ListNotations.

Theorem C01_calibrate_noninterference :
  forall Param Series LossV model lossf loss_leb rounds0 propose draws agent_actions plan v sv n c d d' s1 e r,
  is_rr _ _ _ c ->
  calibrate Param Series LossV model lossf loss_leb rounds0 propose draws agent_actions plan n (mkSt _ _ _ c d) = (s1, e, r) ->
  exists d1', calibrate Param Series LossV model lossf loss_leb rounds0 propose draws agent_actions plan n
                (mkSt _ _ _ (reflag _ _ _ v sv c) d') = (mkSt _ _ _ (reflag _ _ _ v sv (live _ _ _ s1)) d1', e, r).
Proof. exact calibrate_noninterference. Qed.
Print Assumptions C01_calibrate_noninterference.

(* The seeds the sampler objects were constructed with are forgotten: construction erases them and the first
   calibrate() hands out draws 0..n-1 of the calibrator's stream. *)
Theorem C01_ctor_seeds_forgotten : forall (l : list sampler),
  map unseeded (map (fun s => mkS (s_class s) (s_uid s) (s_bsize s) (s_calls s) None) l) = map unseeded l.
Proof. intros l. rewrite map_map. reflexivity. Qed.
Print Assumptions C01_ctor_seeds_forgotten.

Theorem C01_reseed_keeps_lineup : forall draws l k, map skey (reseed_from draws k l) = map skey l.
Proof. exact reseed_from_keys. Qed.
Print Assumptions C01_reseed_keeps_lineup.

(* Each simulated series of a recorded row used its own consecutive draw of the calibrator's stream (C02's invariant:
   row series = member_series param pos E), so no seed is shared between ensemble members. *)
Theorem C01_rows_use_consecutive_draws :
  forall Param Series LossV model lossf loss_leb rounds0 propose draws agent_actions plan,
  (forall s ps ls, length (propose s ps ls) = s_bsize s) ->
  forall cfg0 samplers scheduler s0 ops,
    construct Param Series LossV cfg0 samplers scheduler = inl s0 ->
    InvS Param Series LossV model lossf draws (c_E cfg0)
         (run Param Series LossV model lossf loss_leb rounds0 propose draws agent_actions plan ops s0).
Proof. exact reachable_aligned. Qed.
Print Assumptions C01_rows_use_consecutive_draws.

(* Round 4.  A scheduler object handed to the constructor keeps the seeds it and its samplers were constructed with
   (`construct` takes it as it is); the first calibrate() - the one that runs at batch index 0 - forgets them all: two
   calibrators that differ only in the seeds carried by their sampler objects give the same result, state and return value. *)
Theorem C01_first_calibrate_forgets_all_seeds :
  forall Param Series LossV model lossf loss_leb rounds0 propose draws agent_actions plan n (c : core Param Series LossV) d l',
    batch_idx _ _ _ c = 0 -> map unseeded l' = map unseeded (sched_samplers _ (sch _ _ _ c)) ->
    calibrate Param Series LossV model lossf loss_leb rounds0 propose draws agent_actions plan n (mkSt _ _ _ (reseat _ _ _ c l') d) =
    calibrate Param Series LossV model lossf loss_leb rounds0 propose draws agent_actions plan n (mkSt _ _ _ c d).
Proof. exact first_calibrate_forgets_all_seeds. Qed.
Print Assumptions C01_first_calibrate_forgets_all_seeds.
