(* C09 — samplers are scheduled exactly as the chosen scheduler prescribes.  Property theorems only. *)
From Coq Require Import List ZArith Bool.
From BlackIt Require Import Model.Calibrator Proofs.CalibratorP Proofs.CalibSchedP.
Import ListNotations.

(* Round-robin: after ANY sequence of calibrate(n) / create_checkpoint / restore operations on a calibrator built from
   the list l0 (each sampler object once), the sampler designated for the next batch is at position
   (global batch index) mod n and is the object that was supplied at that position (same class, identity, batch size). *)
Theorem C09_round_robin_global :
  forall Param Series LossV model lossf loss_leb rounds0 propose draws agent_actions plan cfg0 l0 s0 ops,
    NoDup (map s_uid l0) ->
    construct Param Series LossV cfg0 (Some l0) None = inl s0 ->
    Forall plain ops ->
    let s := run Param Series LossV model lossf loss_leb rounds0 propose draws agent_actions plan ops s0 in
    forall i sc1, next_sampler LossV agent_actions (sch _ _ _ (live _ _ _ s)) = Some (i, sc1) ->
      i = batch_idx _ _ _ (live _ _ _ s) mod length l0 /\
      forall m, nth_error (sched_samplers _ sc1) i = Some m -> nth_error (map skey l0) i = Some (skey m).
Proof. exact round_robin_global. Qed.
Print Assumptions C09_round_robin_global.

(* ... and the batch recorded has exactly that sampler's batch_size rows, labelled with the global batch index. *)
Theorem C09_batch_has_designated_size :
  forall Param Series LossV model lossf loss_leb rounds0 propose draws agent_actions plan,
  (forall s ps ls, length (propose s ps ls) = s_bsize s) ->
  forall s s' o,
  one_batch Param Series LossV model lossf loss_leb rounds0 propose draws agent_actions plan s = (s', o) ->
    (exists e, o = Raised e /\ records _ _ _ (live _ _ _ s') = records _ _ _ (live _ _ _ s) /\ disk _ _ _ s' = disk _ _ _ s /\
               cfg _ _ _ (live _ _ _ s') = cfg _ _ _ (live _ _ _ s) /\ tbl _ _ _ (live _ _ _ s') = tbl _ _ _ (live _ _ _ s) /\
               e <> ExValue) \/
    (exists i sc1 m, next_sampler LossV agent_actions (sch _ _ _ (live _ _ _ s)) = Some (i, sc1) /\
        nth_error (sched_samplers _ sc1) i = Some m /\
        appended_batch _ _ _ model lossf propose draws (live _ _ _ s) (live _ _ _ s') m /\
        (o = Done \/ o = Converged \/ o = Raised ExValue \/ o = Raised ExOther) /\
        (disk _ _ _ s' = disk _ _ _ s \/ disk _ _ _ s' = Some (live _ _ _ s'))).
Proof. exact one_batch_cases. Qed.
Print Assumptions C09_batch_has_designated_size.

(* RL scheduler (sequential view): first batch from the bootstrap index, later batches from the agent's queue in order. *)
Theorem C09_rl_first_is_bootstrap : forall LossV agent_actions l h st al cs,
  next_sampler LossV agent_actions (RL LossV l h None st al cs) = Some (h, RL LossV l h None st al cs).
Proof. exact rl_first_is_bootstrap. Qed.
Print Assumptions C09_rl_first_is_bootstrap.
Theorem C09_rl_later_from_agent : forall LossV agent_actions l h b st al cs,
  next_sampler LossV agent_actions (RL LossV l h (Some b) st al cs) =
  Some (agent_actions (fst cs), RL LossV l h (Some b) st al (S (fst cs), snd cs)).
Proof. exact rl_later_from_agent. Qed.
Print Assumptions C09_rl_later_from_agent.

(* The constructor raises ValueError exactly for both-or-neither, and accepts exactly-one. *)
Theorem C09_ctor_rejects_iff : forall Param Series LossV cfg0 (samplers : option (list sampler)) (scheduler : option (sched LossV)),
  construct Param Series LossV cfg0 samplers scheduler = inr ExValue <->
  ((samplers = None /\ scheduler = None) \/ (samplers <> None /\ scheduler <> None)).
Proof. exact ctor_rejects_iff. Qed.
Print Assumptions C09_ctor_rejects_iff.
Theorem C09_ctor_accepts : forall Param Series LossV cfg0 (samplers : option (list sampler)) (scheduler : option (sched LossV)),
  (samplers = None <-> scheduler <> None) -> exists s, construct Param Series LossV cfg0 samplers scheduler = inl s.
Proof. exact ctor_accepts. Qed.
Print Assumptions C09_ctor_accepts.

(* RL: the bootstrap sampler is a Halton sampler - the supplied one (the last of them) or one added at the end. *)
Theorem C09_rl_bootstrap_spec : forall l fresh, s_class fresh = HALTON ->
  let '(l', h) := rl_bootstrap l fresh in
  (exists s, nth_error l' h = Some s /\ s_class s = HALTON) /\
  ((exists s, In s l /\ s_class s = HALTON) -> l' = l) /\
  ((forall s, In s l -> s_class s <> HALTON) -> l' = l ++ [fresh] /\ h = length l).
Proof. exact rl_bootstrap_spec. Qed.
Print Assumptions C09_rl_bootstrap_spec.

Theorem C09_rl_session_end_nothing_pending : forall LossV l h b st al cs sc',
  end_session LossV (RL LossV l h b st al cs) = inl sc' -> exists q, sc' = RL LossV l h b true false (q, q).
Proof. exact rl_session_end_nothing_pending. Qed.
Print Assumptions C09_rl_session_end_nothing_pending.

(* ---- round 4: sampler.batch_size reassigned after construction (Model/CalibX.v, operation XSetBsize) ----
   The reassignment changes nothing but the batch size of the sampler object(s) with that identity ... *)
From BlackIt Require Import Model.CalibX Proofs.CalibXP.
Theorem C09_batch_size_reassigned_frame :
  forall Param Series LossV model lossf loss_leb rounds0 propose draws agent_actions plan s u b s1 e r,
  xstep Param Series LossV model lossf loss_leb rounds0 propose draws agent_actions plan s (XSetBsize u b) = (s1, e, r) ->
    e = None /\ r = [] /\ disk _ _ _ s1 = disk _ _ _ s /\
    records _ _ _ (live _ _ _ s1) = records _ _ _ (live _ _ _ s) /\
    cfg _ _ _ (live _ _ _ s1) = cfg _ _ _ (live _ _ _ s) /\ tbl _ _ _ (live _ _ _ s1) = tbl _ _ _ (live _ _ _ s) /\
    rng_pos _ _ _ (live _ _ _ s1) = rng_pos _ _ _ (live _ _ _ s) /\
    sched_samplers _ (sch _ _ _ (live _ _ _ s1)) = map (set_bsize u b) (sched_samplers _ (sch _ _ _ (live _ _ _ s))).
Proof. intros. eapply xsetbsize_frame; eauto. Qed.
Print Assumptions C09_batch_size_reassigned_frame.

(* ... so the sampler designated for the next batch keeps its position, class and identity, and carries the ASSIGNED batch
   size; C09_batch_has_designated_size (universal in the state) then gives a batch of exactly that many rows. *)
Theorem C09_batch_size_reassigned_designation :
  forall Param Series LossV model lossf loss_leb rounds0 propose draws agent_actions plan s u b s1 e r i sc1,
  xstep Param Series LossV model lossf loss_leb rounds0 propose draws agent_actions plan s (XSetBsize u b) = (s1, e, r) ->
  next_sampler LossV agent_actions (sch _ _ _ (live _ _ _ s)) = Some (i, sc1) ->
  exists sc1', next_sampler LossV agent_actions (sch _ _ _ (live _ _ _ s1)) = Some (i, sc1') /\
    forall m, nth_error (sched_samplers _ sc1) i = Some m ->
      nth_error (sched_samplers _ sc1') i = Some (set_bsize u b m) /\
      s_class (set_bsize u b m) = s_class m /\ s_uid (set_bsize u b m) = s_uid m /\
      s_bsize (set_bsize u b m) = if Nat.eqb (s_uid m) u then b else s_bsize m.
Proof.
  intros until sc1. intros H1 H2.
  destruct (xsetbsize_designation _ _ _ _ _ _ _ _ _ _ _ _ _ _ _ _ _ _ _ H1 H2) as (sc1' & Hn & Hm).
  exists sc1'. split; [exact Hn|]. intros m Hm'. split; [now apply Hm|].
  pose proof (set_bsize_keeps u b m). tauto.
Qed.
Print Assumptions C09_batch_size_reassigned_designation.

Example C09_example_reassigned_size :
  map s_bsize (map (set_bsize 1 3) [mkS 0 0 2 0 None; mkS 1 1 2 5 (Some 7%Z); mkS 0 1 1 0 None]) = [2; 3; 3].
Proof. reflexivity. Qed.
