(* C13 — quasi-random samplers emit the true Halton and R sequences, without gaps.
   Property theorems only; each is closed by `exact` of a lemma proved in Proofs/HaltonP.v / Proofs/RSeqP.v. *)
From Coq Require Import List ZArith QArith Reals Znumtheory Sorted.
From BlackIt Require Import Model.Halton Model.RSeq Proofs.HaltonP Proofs.HaltonInjP Proofs.RSeqP Model.SeqRej Proofs.SeqRejP.
Import ListNotations.
Open Scope Z_scope.

(* ---------------------------------------------------------------- Halton: digits and radical inverse *)

(* the divmod loop yields the base-b digits of n: n = sum_j d_j b^j with 0 <= d_j < b *)
Theorem C13_digits_spec : forall b n, 2 <= b -> 0 <= n ->
  n = dsum b 0 (digits b n) /\ Forall (fun d => 0 <= d < b) (digits b n).
Proof. exact digits_spec. Qed.
Print Assumptions C13_digits_spec.

(* halton()'s vectorised loop with its `done` mask (all bases advanced together until the slowest one is
   exhausted) returns, for ANY list of bases >= 2, the radical inverse sum_j d_j / b^(j+1) in each base:
   the mask is redundant, finished bases contribute 0 *)
Theorem C13_masked_loop_eq_per_base : forall bases n, Forall (fun b => 2 <= b) bases -> 0 <= n ->
  Forall2 Qeq (halton_point bases n) (map (fun b => radinv b n) bases).
Proof. exact masked_loop_eq_per_base. Qed.
Print Assumptions C13_masked_loop_eq_per_base.

Theorem C13_radinv_range : forall b n, 2 <= b -> 0 <= n -> (0 <= radinv b n /\ radinv b n < 1)%Q.
Proof. exact radinv_range. Qed.
Print Assumptions C13_radinv_range.

(* round 5: the radical inverse is injective - distinct indices never give the same coordinate, in any base; with
   C13_kth_point_index / C13_indices_exact (consecutive, distinct indices) no coordinate of a run is ever repeated *)
Theorem C13_radinv_injective : forall b n m, 2 <= b -> 0 <= n -> 0 <= m -> (radinv b n == radinv b m)%Q -> n = m.
Proof. exact radinv_inj. Qed.
Print Assumptions C13_radinv_injective.

(* the recursion of the radical inverse: shift the last digit behind the radix point *)
Theorem C13_radinv_step : forall b n, 2 <= b -> 0 < n ->
  (radinv b n == (inject_Z (n mod b) + radinv b (n / b)) / inject_Z b)%Q.
Proof. exact radinv_step. Qed.
Print Assumptions C13_radinv_step.

Theorem C13_radinv_positive : forall b n, 2 <= b -> 0 < n -> (0 < radinv b n)%Q.
Proof. exact radinv_pos. Qed.
Print Assumptions C13_radinv_positive.

Example C13_nonvacuous_radinv_step :
  Qeq_bool (radinv 11 1331) (1 # 14641) = true /\ Qeq_bool (radinv 3 5) ((2 # 3) + (1 # 9)) = true /\
  Qeq_bool (radinv 2 6) (radinv 2 3 / 2) = true.
Proof. vm_compute. auto. Qed.

(* the j-th row (0-based) of a batch drawn at cursor s is the point of index s + 1 + j *)
Theorem C13_kth_point_index : forall bases s k j, (j < k)%nat ->
  nth j (hpoints bases s k) [] = halton_point bases (s + 1 + Z.of_nat j).
Proof. exact hpoints_nth. Qed.
Print Assumptions C13_kth_point_index.

(* the indices used by a batch of k rows from a: exactly a .. a+k-1, each once (no gap, no overlap) *)
Theorem C13_indices_exact : forall a k, NoDup (zrange a k) /\ forall x, In x (zrange a k) <-> a <= x < a + Z.of_nat k.
Proof. exact zrange_exact. Qed.
Print Assumptions C13_indices_exact.

(* halton() raises exactly on an invalid argument (in particular on sample_size = 0) *)
Theorem C13_halton_raises_iff : forall k bases s,
  halton k bases s = None <-> (k <= 0 \/ ~ Forall (fun b => 2 <= b) bases \/ s < 0).
Proof. exact halton_none. Qed.
Print Assumptions C13_halton_raises_iff.

(* ---------------------------------------------------------------- Halton: batches continue the sequence *)

(* a batch of k1 at cursor s followed by a batch of k2 at cursor s + k1 is the batch of k1 + k2 at s *)
Theorem C13_batches_concat : forall bases s k1 k2 a b,
  halton k1 bases s = Some a -> halton k2 bases (s + k1) = Some b -> halton (k1 + k2) bases s = Some (a ++ b).
Proof. exact batches_concat. Qed.
Print Assumptions C13_batches_concat.

(* ... and so for ANY list of (positive) batch sizes and ANY list of bases (any dimension): the concatenated output of
   the successive calls is the single batch of sum-k rows from the initial cursor, the cursor ends at s + sum k *)
Theorem C13_batches_fold : forall bases, Forall (fun b => 2 <= b) bases ->
  forall ks s, Forall (fun k => 0 < k) ks -> 0 <= s ->
  hrun_b bases s ks = Some (hpoints bases s (Z.to_nat (zsum ks)), s + zsum ks).
Proof. exact batches_fold. Qed.
Print Assumptions C13_batches_fold.

Theorem C13_nonpositive_batch_raises : forall bases s ks, Exists (fun k => k <= 0) ks -> hrun_b bases s ks = None.
Proof. exact hrun_b_raises. Qed.
Print Assumptions C13_nonpositive_batch_raises.

(* the sampler object itself (cursor + prime cache), any sequence of calls (k_i, dims_i) with dims_i in 1..40,
   from any cache state a fresh object can reach: call i returns rows cursor_i + 1 .. cursor_i + k_i in the first
   dims_i primes, and the cursor advances by exactly k_i *)
Theorem C13_sampler_run_spec : forall ops m s, (m <= 40)%nat -> 0 <= s ->
  Forall (fun op => 0 < fst op /\ 1 <= snd op <= 40) ops ->
  exists m', (m' <= 40)%nat /\
    hrun {| h_cursor := s; h_pc := pc_after m |} ops =
    Some (spec_outs s ops, {| h_cursor := s + zsum (map fst ops); h_pc := pc_after m' |}).
Proof. exact hrun_spec. Qed.
Print Assumptions C13_sampler_run_spec.

Theorem C13_sampler_batches_concat : forall dims ks s, 1 <= dims <= 40 -> 0 <= s -> Forall (fun k => 0 < k) ks ->
  exists outs st', hrun {| h_cursor := s; h_pc := pcache_init |} (map (fun k => (k, dims)) ks) = Some (outs, st') /\
    concat outs = hpoints (firstn (Z.to_nat dims) primes40) s (Z.to_nat (zsum ks)) /\
    h_cursor st' = s + zsum ks.
Proof. exact hsampler_batches_concat. Qed.
Print Assumptions C13_sampler_batches_concat.

(* ---------------------------------------------------------------- primes *)

(* finite domain (bound in the statement): the sieve + cache returns the first n entries of the table *)
Theorem C13_primes_first_40 : forall n, 1 <= n <= 40 ->
  option_map fst (get_n_primes n pcache_init) = Some (firstn (Z.to_nat n) primes40).
Proof. exact primes_first_40. Qed.
Print Assumptions C13_primes_first_40.

(* any history of calls (n <= 40) on one calculator object: the cache never corrupts a later answer *)
Theorem C13_primes_any_history : forall ns, Forall (fun n => 1 <= n <= 40) ns ->
  primes_calls pcache_init ns = Some (map (fun n => firstn (Z.to_nat n) primes40) ns).
Proof. exact primes_any_history. Qed.
Print Assumptions C13_primes_any_history.

(* the table is the list of ALL primes up to 173 in increasing order: trial division is Znumtheory.prime *)
Theorem C13_is_primeb_spec : forall p, is_primeb p = true <-> prime p.
Proof. exact is_primeb_spec. Qed.
Print Assumptions C13_is_primeb_spec.
Theorem C13_primes40_all_prime : Forall prime primes40.
Proof. exact primes40_all_prime. Qed.
Print Assumptions C13_primes40_all_prime.
Theorem C13_primes40_complete : forall p, prime p -> p <= 173 -> In p primes40.
Proof. exact primes40_complete. Qed.
Print Assumptions C13_primes40_complete.
Theorem C13_primes40_sorted : StronglySorted Z.lt primes40 /\ length primes40 = 40%nat.
Proof. exact (conj primes40_sorted primes40_length). Qed.
Print Assumptions C13_primes40_sorted.

(* ---------------------------------------------------------------- R-sequence *)

(* x^(d+1) - x - 1 is strictly increasing on [1, oo): at most one root there ... *)
Theorem C13_phi_unique : forall d r1 r2, (1 <= d)%nat -> (1 <= r1)%R -> (1 <= r2)%R ->
  Rf d r1 = 0%R -> Rf d r2 = 0%R -> r1 = r2.
Proof. exact phi_unique. Qed.
Print Assumptions C13_phi_unique.
Theorem C13_phi_strict_mono : forall d a b, (1 <= d)%nat -> (1 <= a)%R -> (a < b)%R -> (Rf d a < Rf d b)%R.
Proof. exact Rf_strict_mono. Qed.
Print Assumptions C13_phi_strict_mono.
(* ... and there is one, in (1, 2) *)
Theorem C13_phi_exists : forall d, (1 <= d)%nat -> exists r, (1 < r < 2)%R /\ Rf d r = 0%R.
Proof. exact phi_exists. Qed.
Print Assumptions C13_phi_exists.

(* the certificate evaluated by the check on compute_phi's result (exact rational arithmetic) *)
Theorem C13_phi_bracket : forall d x eps, (1 <= d)%nat -> phi_cert d x eps = true ->
  forall r, (1 <= r)%R -> Rf d r = 0%R -> (Q2R x - Q2R eps < r < Q2R x + Q2R eps)%R.
Proof. exact phi_bracket. Qed.
Print Assumptions C13_phi_bracket.
Theorem C13_phi_bracket_the_root : forall d x eps, (1 <= d)%nat -> phi_cert d x eps = true ->
  exists r, (1 < r < 2)%R /\ Rf d r = 0%R /\ (Rabs (Q2R x - r) < Q2R eps)%R /\
            (forall r', (1 <= r')%R -> Rf d r' = 0%R -> r' = r).
Proof. exact phi_bracket_the_root. Qed.
Print Assumptions C13_phi_bracket_the_root.

(* alpha_k = phi^-k for k = 1..dims *)
Theorem C13_alpha_spec : forall phi dims,
  Forall2 Qeq (alpha_of phi dims) (map (fun k => qpow (/ phi) k) (seq 1 dims)).
Proof. exact alpha_of_spec. Qed.
Print Assumptions C13_alpha_spec.

Theorem C13_qtrunc_bound : forall p x, (qtrunc p x <= x /\ x < qtrunc p x + (1 # (2 ^ p)%positive))%Q.
Proof. exact qtrunc_bound. Qed.
Print Assumptions C13_qtrunc_bound.

(* consecutive points advance by alpha modulo 1, coordinates stay in [0,1) *)
Theorem C13_rseq_increment : forall off alpha n,
  Forall2 Qeq (rpoint off alpha (n + 1)) (zip2 (fun p a => frac (p + a)) (rpoint off alpha n) alpha).
Proof. exact rseq_increment. Qed.
Print Assumptions C13_rseq_increment.
Theorem C13_rpoint_range : forall off alpha n, Forall (fun x => (0 <= x /\ x < 1)%Q) (rpoint off alpha n).
Proof. exact rpoint_range. Qed.
Print Assumptions C13_rpoint_range.

(* the j-th row of a batch drawn at cursor s has index s + j (the R-sequence starts AT the cursor) *)
Theorem C13_rseq_kth_point_index : forall off alpha s k j, (j < k)%nat ->
  nth j (rbatch off alpha s k) [] = rpoint off alpha (s + Z.of_nat j).
Proof. exact rbatch_nth. Qed.
Print Assumptions C13_rseq_kth_point_index.

Theorem C13_rseq_batches_concat : forall off alpha s k1 k2,
  rbatch off alpha s k1 ++ rbatch off alpha (s + Z.of_nat k1) k2 = rbatch off alpha s (k1 + k2).
Proof. exact rbatch_concat. Qed.
Print Assumptions C13_rseq_batches_concat.
Theorem C13_rseq_batches_fold : forall off alpha ks s,
  rrun off alpha s ks = (rbatch off alpha s (nsum ks), s + Z.of_nat (nsum ks)).
Proof. exact rbatches_fold. Qed.
Print Assumptions C13_rseq_batches_fold.

(* ---------------------------------------------------------------- non-vacuity *)

Example C13_ex_digits : digits 3 10 = [1; 0; 1] /\ digits 173 (2 ^ 16 + 2 ^ 12) = [86; 56; 2].
Proof. vm_compute. auto. Qed.
Example C13_ex_point : map Qred (halton_point [2; 3; 5] 10) = [5 # 16; 10 # 27; 2 # 25]%Q
  /\ map (fun b => Qred (radinv b 10)) [2; 3; 5] = [5 # 16; 10 # 27; 2 # 25]%Q.
Proof. vm_compute. auto. Qed.
(* two batches of 2 = one batch of 4, on the sampler object with 3 dimensions, cursor 20 -> 24 *)
Example C13_ex_run :
  match hrun {| h_cursor := 20; h_pc := pcache_init |} [(2, 3); (2, 3)],
        hrun {| h_cursor := 20; h_pc := pcache_init |} [(4, 3)] with
  | Some ([a; b], st), Some ([c], st') => a ++ b = c /\ h_cursor st = 24 /\ h_cursor st' = 24 /\ length c = 4%nat
  | _, _ => False
  end.
Proof. vm_compute. auto. Qed.
Example C13_ex_raise : halton 0 [2; 3] 5 = None /\ halton 1 [2; 1] 5 = None /\ halton 1 [2] (-1) = None.
Proof. vm_compute. auto. Qed.
(* compute_phi(1) = 0x1.9e3779b97f4a8p+0 and compute_phi(2) = 0x1.5320b74eca44bp+0 pass the certificate with eps = 2^-45;
   a value off by 2^-40 does not *)
Example C13_ex_phi :
  phi_cert 1 (Qmake 7286977268806824 4503599627370496) (1 # (2 ^ 45)%positive) = true /\
  phi_cert 2 (Qmake 5965999298618443 4503599627370496) (1 # (2 ^ 45)%positive) = true /\
  phi_cert 1 (Qmake 7286977268806824 4503599627370496 + (1 # (2 ^ 40)%positive)) (1 # (2 ^ 45)%positive) = false.
Proof. vm_compute. auto. Qed.
Example C13_ex_rseq : map Qred (rpoint (1 # 3) [1 # 2; 3 # 4] 5) = [5 # 6; 1 # 12]%Q
  /\ fst (rrun (1 # 3) [1 # 2] 7 [2; 1]%nat) = rbatch (1 # 3) [1 # 2] 7 3.
Proof. vm_compute. auto. Qed.

(* ---------------------------------------------------------------- round 4: a rejected request between two batches *)
(* hsample_t (Model/SeqRej.v) is _halton as a TOTAL step: (None, state after) when the call raises.  It is the partial
   step of Model/Halton.v ... *)
Theorem C13_total_step_agrees : forall st k dims,
  hsample st k dims = match hsample_t st k dims with (Some pts, st') => Some (pts, st') | (None, _) => None end.
Proof. exact hsample_t_agrees. Qed.
Print Assumptions C13_total_step_agrees.
(* ... a request that raises never moves the cursor (any cache, any cursor, any arguments) ... *)
Theorem C13_rejected_request_keeps_cursor : forall st k dims,
  fst (hsample_t st k dims) = None -> h_cursor (snd (hsample_t st k dims)) = h_cursor st.
Proof. exact hsample_t_rejected_cursor. Qed.
Print Assumptions C13_rejected_request_keeps_cursor.
(* ... and on an object in a reachable state a request raises exactly when its size is <= 0 or its dimension < 1 *)
Theorem C13_rejected_iff : forall m s k dims, (m <= 40)%nat -> 0 <= s -> dims <= 40 ->
  (fst (hsample_t {| h_cursor := s; h_pc := pc_after m |} k dims) = None <-> k <= 0 \/ dims < 1).
Proof. exact hsample_t_rejected_iff. Qed.
Print Assumptions C13_rejected_iff.
(* any sequence of requests, rejected ones anywhere in it: a served request returns the rows cursor+1 .. cursor+k in
   the first dims primes, a rejected one returns nothing, and the cursor counts the served requests only *)
Theorem C13_sampler_run_with_rejections_spec : forall ops m s, (m <= 40)%nat -> 0 <= s ->
  Forall (fun op => snd op <= 40) ops ->
  exists m', (m' <= 40)%nat /\
    hrun_t {| h_cursor := s; h_pc := pc_after m |} ops =
    (spec_outs_t s ops, {| h_cursor := s + zsum (map fst (filter served ops)); h_pc := pc_after m' |}).
Proof. exact hrun_t_spec. Qed.
Print Assumptions C13_sampler_run_with_rejections_spec.
(* the rows delivered are those of the run from which the rejected requests have been removed (C13_sampler_run_spec) *)
Theorem C13_rejections_transparent : forall ops s, somes (spec_outs_t s ops) = spec_outs s (filter served ops).
Proof. exact somes_spec_outs_t. Qed.
Print Assumptions C13_rejections_transparent.
(* R-sequence: _r_sequence raises exactly for a dimension < 1 (compute_phi's check), and then the cursor stays *)
Theorem C13_rseq_rejected_iff : forall off alphas s k dims,
  fst (rsample_t off alphas s k dims) = None <-> dims < 1.
Proof. exact rsample_t_rejected_iff. Qed.
Print Assumptions C13_rseq_rejected_iff.
Theorem C13_rseq_rejected_request_keeps_cursor : forall off alphas s k dims,
  fst (rsample_t off alphas s k dims) = None -> snd (rsample_t off alphas s k dims) = s.
Proof. exact rsample_t_rejected_cursor. Qed.
Print Assumptions C13_rseq_rejected_request_keeps_cursor.
Theorem C13_rseq_run_with_rejections_spec : forall off alphas ops s,
  rrun_t off alphas s ops =
  (rspec_outs_t off alphas s ops, s + Z.of_nat (nsum (map fst (filter rserved ops)))).
Proof. exact rrun_t_spec. Qed.
Print Assumptions C13_rseq_run_with_rejections_spec.
(* requests of one dimension d with rejected ones (and requests for 0 points) in between: ONE batch from the first cursor *)
Theorem C13_rseq_rejections_one_batch : forall off alphas d ops, 1 <= d ->
  Forall (fun op => snd op = d \/ snd op < 1) ops ->
  forall s, concat (somes (rspec_outs_t off alphas s ops)) =
            rbatch off (alphas d) s (nsum (map fst (filter rserved ops))).
Proof. exact rrun_t_one_batch. Qed.
Print Assumptions C13_rseq_rejections_one_batch.
(* 2 points, a request for 0 points (raises), a request in dimension 0 (raises), 2 points: the 4 points of one batch *)
Example C13_ex_rejected :
  match hrun_t {| h_cursor := 20; h_pc := pcache_init |} [(2, 3); (0, 3); (2, 0); (2, 3)],
        hrun {| h_cursor := 20; h_pc := pcache_init |} [(4, 3)] with
  | ([Some a; None; None; Some b], st), Some ([c], _) => a ++ b = c /\ h_cursor st = 24
  | _, _ => False
  end.
Proof. vm_compute. auto. Qed.
Example C13_ex_rseq_rejected :
  rrun_t (1 # 3) (fun _ => [1 # 2]) 7 [(2%nat, 1); (3%nat, 0); (0%nat, 1); (1%nat, 1)]
  = ([Some (rbatch (1 # 3) [1 # 2] 7 2); None; Some []; Some (rbatch (1 # 3) [1 # 2] 9 1)], 10).
Proof. vm_compute. auto. Qed.
