(* C10 - the RL scheduler-agent exchange is correct under every thread interleaving.
   Property theorems only; each is closed by `exact` of a lemma proved in Proofs/RLProtoP.v.

   `step` is the protocol of the repaired tree (fixes.d/C10-protocol.patch), `step_old` the protocol before the repair.
   Every theorem about `step` quantifies over: any agent (state type, policy, learn), any number of samplers, any
   loss sequence, any list of sessions with any number of batches each, and EVERY schedule sigma (a list of thread
   ids; a pick of a disabled thread is skipped).  The one hypothesis is that the agent's policy returns indices of
   the action space (otherwise env.step raises inside the agent's thread); the one hypothesis on the losses is
   `reward_defined` (no improvement on a best loss of exactly 0, where get_reward divides by zero). *)
From Coq Require Import List ZArith QArith Bool Arith.
From BlackIt Require Import Model.RLProto Proofs.RLProtoP.
Import ListNotations.
Local Open Scope nat_scope.

Section C10.
  Variable AS : Type.
  Variable policy : AS -> nat * AS.
  Variable learn : AS -> nat -> Q -> AS.
  Variable nsam halton : nat.
  Variable loss : nat -> Q.
  Variable sessions : list nat.
  Variable a0 : AS.
  Notation reach sigma := (run AS (step AS policy learn nsam halton loss) sigma (init AS sessions a0)).
  Notation reach_old sigma := (run AS (step_old AS policy learn nsam halton loss) sigma (init AS sessions a0)).
  Definition policy_valid := forall st : AS, fst (policy st) < nsam.
  (* mab.py:46 divides by the reference best loss: a loss that improves on a running best (bm) of exactly 0 raises
     ZeroDivisionError in the agent's thread.  The theorems hold for every loss sequence on which that never happens -
     in particular for all non-negative losses and for all sequences whose running best is never exactly 0; outside the
     hypothesis the clauses are false of the code (C10_zero_reference_*_refuted below, finding `zero-reference-loss`). *)
  Definition reward_defined := forall k, reward_raises (bm loss k) (bm loss (S k)) = false.
  Theorem C10_reward_defined_nonneg_losses : (forall k, 0 <= loss k)%Q -> reward_defined.
  Proof. exact (nonneg_losses_reward_defined loss). Qed.
  Theorem C10_reward_defined_nonzero_best : (forall k, ~ bm loss k == 0)%Q -> reward_defined.
  Proof. exact (nonzero_best_reward_defined loss). Qed.

  (* Exactly one learn call per batch the agent chose, in order, for the sampler that actually ran: at the end of a
     complete run the (source batch, action) pairs of the learn calls are, position by position, the (batch, sampler)
     pairs of the batches run on the agent's choice; and the executed log holds every batch index n-1..0 once. *)
  Theorem C10_learn_once_per_executed : policy_valid -> reward_defined -> forall sigma, is_final AS (reach sigma) = true ->
    exch (executed (reach sigma)) = map lsrc (learned (reach sigma)) /\
    map (fun e => fst (fst e)) (executed (reach sigma)) = down (bidx (reach sigma)).
  Proof. exact (fun H R => T_learn_once_per_executed AS policy learn nsam halton loss H R sessions a0). Qed.

  (* The reward learnt for batch k+1 is get_reward(best loss after batches 0..k, best loss after batches 0..k+1):
     computed from that very batch's outcome against the reference loss of the batches before it. *)
  Theorem C10_reward_from_own_batch : policy_valid -> reward_defined -> forall sigma, is_final AS (reach sigma) = true ->
    forall a r src, In (a, r, src) (learned (reach sigma)) ->
    exists k, src = Some (S k) /\ S k < bidx (reach sigma) /\ r = fst (reward (bm loss k) (bm loss (S k))).
  Proof. exact (fun H R => T_reward_from_own_batch AS policy learn nsam halton loss H R sessions a0). Qed.

  (* At every moment of every run: whatever has been learnt is about a batch that ran, with the action that ran it
     (in particular never about the end marker: the source is never None). *)
  Theorem C10_never_learns_unexecuted : policy_valid -> reward_defined -> forall sigma a r src, In (a, r, src) (learned (reach sigma)) ->
    exists b, src = Some b /\ In (b, a, true) (executed (reach sigma)).
  Proof. exact (fun H R => T_never_learns_unexecuted AS policy learn nsam halton loss H R sessions a0). Qed.

  (* ... and the learn calls follow the agent-chosen batches in order, at most one batch behind. *)
  Theorem C10_learned_follows_executed : policy_valid -> reward_defined -> forall sigma,
    exists pend, length pend <= 1 /\ exch (executed (reach sigma)) = pend ++ map lsrc (learned (reach sigma)).
  Proof. exact (fun H R => T_learned_in_order_always AS policy learn nsam halton loss H R sessions a0). Qed.

  (* Whenever the calibration thread is outside a session (end_session has returned / start_session has not started
     the agent yet / all sessions done) both queues are empty and no agent thread exists. *)
  Theorem C10_queues_empty_at_session_end : policy_valid -> reward_defined -> forall sigma, between_sessions (mpc (reach sigma)) = true ->
    aq (reach sigma) = [] /\ oq (reach sigma) = [] /\ apc (reach sigma) = AIdle.
  Proof. exact (fun H R => T_queues_empty_at_session_end AS policy learn nsam halton loss H R sessions a0). Qed.

  (* Every reachable state that is not final has an enabled thread. *)
  Theorem C10_deadlock_free : policy_valid -> reward_defined -> forall sigma, is_final AS (reach sigma) = false ->
    enabled AS (step AS policy learn nsam halton loss) (reach sigma) M = true \/
    enabled AS (step AS policy learn nsam halton loss) (reach sigma) A = true.
  Proof. exact (fun H R => T_deadlock_free AS policy learn nsam halton loss H R sessions a0). Qed.

  (* No run has more than mu(init) steps, and every run can be completed. *)
  Theorem C10_sessions_terminate : policy_valid -> reward_defined -> forall sigma,
    all_enabled AS policy learn nsam halton loss sigma (init AS sessions a0) -> length sigma <= mu AS (init AS sessions a0).
  Proof. exact (fun H R => T_sessions_terminate AS policy learn nsam halton loss H R sessions a0). Qed.
  Theorem C10_can_always_complete : policy_valid -> reward_defined -> forall sigma, exists sigma', is_final AS (reach (sigma ++ sigma')) = true.
  Proof. exact (fun H R => T_can_always_complete AS policy learn nsam halton loss H R sessions a0). Qed.

  (* All complete schedules end with the same executed log (hence the same sequence of samplers), the same learn log,
     the same agent state and reference losses. *)
  Theorem C10_choice_schedule_independent : policy_valid -> reward_defined -> forall sigma sigma',
    is_final AS (reach sigma) = true -> is_final AS (reach sigma') = true ->
    executed (reach sigma) = executed (reach sigma') /\ learned (reach sigma) = learned (reach sigma') /\
    ast (reach sigma) = ast (reach sigma') /\ cbl (reach sigma) = cbl (reach sigma') /\ best (reach sigma) = best (reach sigma').
  Proof. exact (fun H R => T_choice_schedule_independent AS policy learn nsam halton loss H R sessions a0). Qed.

  (* ... namely those computed by the sequential specification (choose; run the batch; learn its reward; choose again;
     drop the choice pending at the end of the session). *)
  Theorem C10_refines_sequential_spec : policy_valid -> reward_defined -> forall sigma, is_final AS (reach sigma) = true ->
    sq_of AS (reach sigma) = seq_sessions AS policy learn halton loss sessions (sq0 AS a0).
  Proof. exact (fun H R => T_sequential_refinement AS policy learn nsam halton loss H R sessions a0). Qed.

  (* No thread ever dies of an exception, end_session's get_nowait always finds exactly the one pending action,
     and the queues never hold more than one action / one outcome plus the marker. *)
  Theorem C10_no_error_state : policy_valid -> reward_defined -> forall sigma, mpc (reach sigma) <> MErr /\ apc (reach sigma) <> AErr.
  Proof. exact (fun H R => T_no_error_state AS policy learn nsam halton loss H R sessions a0). Qed.
  Theorem C10_drain_finds_one : policy_valid -> reward_defined -> forall sigma, mpc (reach sigma) = MDrain -> exists a, aq (reach sigma) = [a].
  Proof. exact (fun H R => T_drain_finds_one AS policy learn nsam halton loss H R sessions a0). Qed.
  Theorem C10_queue_bounds : policy_valid -> reward_defined -> forall sigma, length (aq (reach sigma)) <= 1 /\ length (oq (reach sigma)) <= 2.
  Proof. exact (fun H R => T_queue_bounds AS policy learn nsam halton loss H R sessions a0). Qed.

  (* ---- what holds under BOTH protocols for every schedule (no hypothesis on the agent) *)
  (* the k-th action taken from the action queue is the k-th action put on it *)
  Theorem C10_fifo_consumption_partial : forall sigma, fifo AS (reach sigma) /\ fifo AS (reach_old sigma).
  Proof. intros. split; [exact (fifo_every_schedule_new AS policy learn nsam halton loss sessions a0 sigma)
                        | exact (fifo_every_schedule_old AS policy learn nsam halton loss sessions a0 sigma)]. Qed.
  Theorem C10_only_valid_indices_partial : halton < nsam -> forall sigma, valid AS nsam (reach sigma) /\ valid AS nsam (reach_old sigma).
  Proof. intros H sigma. split; [exact (valid_every_schedule_new AS policy learn nsam halton loss H sessions a0 sigma)
                                | exact (valid_every_schedule_old AS policy learn nsam halton loss H sessions a0 sigma)]. Qed.

  (* ---- a rejected request (start_session while a session runs, end_session outside a session: ValueError at the flag test)
     changes nothing but the calibration thread's program counter, under both protocols: queues, flag, reference losses, agent
     thread and state, logs are as before *)
  Theorem C10_rejected_request_moves_nothing : forall rep (s s' : state AS),
    (mpc s = MReadS /\ flag s = false) \/ (mpc s = MReadE /\ flag s = true) ->
    m_step AS policy nsam halton loss rep s = Some s' ->
    s' = set_mpc AS MErr s /\
    aq s' = aq s /\ oq s' = oq s /\ flag s' = flag s /\ apc s' = apc s /\ cbl s' = cbl s /\ best s' = best s /\ ast s' = ast s /\
    executed s' = executed s /\ learned s' = learned s /\ bidx s' = bidx s.
  Proof. exact (rejected_request_full AS policy nsam halton loss). Qed.
End C10.

Print Assumptions C10_rejected_request_moves_nothing.
Print Assumptions C10_reward_defined_nonneg_losses.
Print Assumptions C10_reward_defined_nonzero_best.
Print Assumptions C10_learn_once_per_executed.
Print Assumptions C10_reward_from_own_batch.
Print Assumptions C10_never_learns_unexecuted.
Print Assumptions C10_learned_follows_executed.
Print Assumptions C10_queues_empty_at_session_end.
Print Assumptions C10_deadlock_free.
Print Assumptions C10_sessions_terminate.
Print Assumptions C10_can_always_complete.
Print Assumptions C10_choice_schedule_independent.
Print Assumptions C10_refines_sequential_spec.
Print Assumptions C10_no_error_state.
Print Assumptions C10_drain_finds_one.
Print Assumptions C10_queue_bounds.
Print Assumptions C10_fifo_consumption_partial.
Print Assumptions C10_only_valid_indices_partial.

(* ---- the repaired protocol outside `reward_defined` (losses 1, 0, -1, -2; 2 samplers; scripted agent): the agent's thread
   dies of the division by zero.  One session of 4 batches: the calibration thread blocks for ever on the action queue
   (not final, no thread enabled).  One session of 3 batches: the session ends, but the end marker stays on the outcome
   queue and the last batch the agent chose is never learnt.  Replayed on the implementation by the check
   (known finding `zero-reference-loss`). *)
Theorem C10_zero_reference_deadlock_refuted : exists sigma,
  let s := z_run [4] sigma in
  is_final cagent s = false /\ mask cagent z_new s = 0 /\ mpc s = MGet /\ apc s = AErr /\ cbl s = Some 0%Q /\ best s = Some (-1)%Q.
Proof. exists (alt_sched 40). exact zero_reference_deadlock. Qed.
Print Assumptions C10_zero_reference_deadlock_refuted.
Theorem C10_zero_reference_leftover_refuted : exists sigma,
  let s := z_run [3] sigma in
  is_final cagent s = true /\ oq s = [None] /\ length (exch (executed s)) = 2 /\ length (learned s) = 1.
Proof. exists (alt_sched 40). exact zero_reference_leftover. Qed.
Print Assumptions C10_zero_reference_leftover_refuted.
Theorem C10_zero_reference_outside_hypothesis : reward_raises (bm (lossl z_losses) 1) (bm (lossl z_losses) 2) = true.
Proof. exact zero_reference_not_defined. Qed.
Print Assumptions C10_zero_reference_outside_hypothesis.

(* ---- the protocol before the repair: the clauses are false (explicit schedules, replayed on the implementation by
   fixes.d/C10-demo.py), and what does hold on a bounded domain.  Instance: 2 samplers, bootstrap index 1, scripted
   agent [0;1;1;0;0], losses 256,128,64,... *)
Theorem C10_never_learns_unexecuted_refuted_old : exists sigma,
  let s := w_run_old [1] sigma in
  is_final cagent s = true /\ learned s = [(0, 0%Q, None)] /\ executed s = [(0, 1, false)] /\ aq s = [0] /\ oq s = [].
Proof. exists sigma_stale_action. exact old_learns_unexecuted. Qed.
Print Assumptions C10_never_learns_unexecuted_refuted_old.

Theorem C10_queues_empty_refuted_old : exists sigma,
  let s := w_run_old [1] sigma in is_final cagent s = true /\ oq s = [None] /\ aq s = [] /\ learned s = [].
Proof. exists sigma_stale_marker. exact old_leftover_marker. Qed.
Print Assumptions C10_queues_empty_refuted_old.

Theorem C10_reward_attribution_refuted_old : exists sigma,
  let s := w_run_old [1; 1] sigma in
  is_final cagent s = true /\ In (1, 0, true) (executed s) /\
  existsb (fun e => Nat.eqb (fst (fst e)) 1 && qeqb (snd (fst e)) (1#2)%Q && onateqb (snd e) (Some 1)) (learned s) = true /\
  aq s = [1] /\ oq s = [None].
Proof. exists sigma_misattributed. exact old_misattributed. Qed.
Print Assumptions C10_reward_attribution_refuted_old.

Theorem C10_outcome_schedule_independent_refuted_old : exists sigma sigma',
  let s := w_run_old [1; 1] sigma in let s' := w_run_old [1; 1] sigma' in
  is_final cagent s = true /\ is_final cagent s' = true /\ length (learned s) = 2 /\ length (learned s') = 1 /\
  oq s = [None] /\ oq s' = [Some ((128#1)%Q, 1); None].
Proof. exists sigma_misattributed, sigma_short. exact old_outcome_depends_on_schedule. Qed.
Print Assumptions C10_outcome_schedule_independent_refuted_old.

(* bounded domain, ALL schedules (enumerated by all_runs, 60 resp. 80 steps of fuel): one session of 0..4 batches - every
   learn call with a real source is about the batch that ran that action; two sessions of two batches with a greedy learner -
   all 39130 schedules complete and run the same samplers [1;0;1;0] *)
Theorem C10_first_session_pairing_partial_old_bounded :
  forallb (fun n => forallb (fun s => is_final cagent s && pairs_ok s) (all_runs cagent w_old 60 (init cagent [n] w_agent)))
          [0; 1; 2; 3; 4] = true.
Proof. exact old_first_session_pairing_bounded. Qed.
Print Assumptions C10_first_session_pairing_partial_old_bounded.

Theorem C10_choice_independent_partial_old_bounded_2x2 :
  let runs := all_runs cagent w_old 80 (init cagent [2; 2] w_greedy) in
  N.of_nat (length runs) = 39130%N /\ forallb (fun s => is_final cagent s && list_eqb Nat.eqb (exlog s) [1; 0; 1; 0]) runs = true.
Proof. exact old_executed_independent_bounded_2x2. Qed.
Print Assumptions C10_choice_independent_partial_old_bounded_2x2.

(* ---- non-vacuity *)
(* a complete schedule of one session of two batches under the repaired protocol, with its logs: the bootstrap batch, one
   batch chosen by the agent and learnt once, the second choice dropped *)
Example C10_nonvacuous_complete_run :
  let s := run cagent w_new [M; M; M; A; M; M; M; M; M; A; A; A; M; M] (init cagent [2] w_agent) in
  is_final cagent s = true /\ exlog s = [1; 0] /\ length (learned s) = 1 /\ aq s = [] /\ oq s = [] /\ ag_k (ast s) = 2.
Proof. vm_compute. repeat split. Qed.
(* all 1000 schedules of three sessions of two batches: complete, same samplers, 5 learn calls, empty queues *)
Example C10_nonvacuous_all_schedules_2x2x2 :
  let runs := all_runs cagent w_new 80 (init cagent [2; 2; 2] w_agent) in
  N.of_nat (length runs) = 1000%N /\
  forallb (fun s => is_final cagent s && list_eqb Nat.eqb (exlog s) [1; 0; 1; 0; 0; 1] &&
                    Nat.eqb (length (learned s)) 5 && Nat.eqb (length (aq s)) 0 && Nat.eqb (length (oq s)) 0) runs = true.
Proof. exact new_all_schedules_bounded_2x2x2. Qed.
(* the hypothesis policy_valid is satisfiable *)
Example C10_nonvacuous_policy_valid : policy_valid nat (fun k => (Nat.modulo k 2, S k)) 2.
Proof. intros k. unfold fst. apply Nat.mod_upper_bound. discriminate. Qed.
