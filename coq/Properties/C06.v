(* C06 - an interrupted checkpoint save is never restored as a silent hybrid.
   Property theorems only; each is closed by `exact` of a lemma proved in Proofs/CrashP.v.

   c : components      the five component types of a checkpoint (json content, scheduler pickle, loss pickle, csv rows,
                       series rows), any types with a decidable equality, + the digest function of the repaired order
   checkpoint c        any values of them; lists of rows of arbitrary length
   crash v k           folder after the first k file operations of a save of s1 on a folder holding s0 (write order v)
   crash_cut v f ct    file f cut at ct, files written before it complete, the others untouched
   class_of c v t true s0 s1 d   outcome of restore_from_checkpoint on folder d: Error / Exactly_old / Exactly_new / Hybrid
                       (t : what the csv parser makes of a cut last line - the theorems hold for every t) *)
From Coq Require Import List Arith Bool.
From BlackIt Require Import Model.Crash Proofs.CrashP Model.CrashSeq Proofs.CrashSeqP.
Import ListNotations.

(* ---------------- the order of the tree before the repair (json first, nothing cross-checked): refuted, and the
   hybrid crash points characterised *)

(* which operation prefixes are silent hybrids: exactly those of hybrid_list_legacy = [2;3;5;6;8;9;11;12;13;14], i.e.
   every point between "json written" and "series rows written" at which no file is empty *)
Theorem C06_hybrid_points_exact : forall c, decides_eq c -> forall t (s0 s1 : checkpoint c) k, generic_pair c s0 s1 ->
  (class_of c Legacy t true s0 s1 (crash Legacy k) = Hybrid <-> In k hybrid_list_legacy).
Proof. exact b_legacy_hybrid_points_exact. Qed.
Print Assumptions C06_hybrid_points_exact.

Theorem C06_no_hybrid_outside : forall c, decides_eq c -> forall t (s0 s1 : checkpoint c) k, generic_pair c s0 s1 ->
  ~ In k hybrid_list_legacy -> In (class_of c Legacy t true s0 s1 (crash Legacy k)) [Error; Exactly_old; Exactly_new].
Proof. exact b_legacy_no_hybrid_outside. Qed.
Print Assumptions C06_no_hybrid_outside.

(* the property fails for EVERY generic pair of checkpoints (not for one witness only) *)
Theorem C06_refuted : forall c, decides_eq c -> forall (s0 s1 : checkpoint c), generic_pair c s0 s1 ->
  exists k, k < nops Legacy /\ class_of c Legacy TGarbled true s0 s1 (crash Legacy k) = Hybrid.
Proof. exact b_legacy_refuted. Qed.
Print Assumptions C06_refuted.

(* for any pair whatsoever (not only generic ones) and either order, the hybrid prefixes are the computed set *)
Theorem C06_hybrid_points_computed : forall c v (s0 s1 : checkpoint c) k,
  class_of c v TGarbled true s0 s1 (crash v k) = Hybrid <->
  exists k', In k' (hybrid_points _ _ _ _ _ _ (cJ_eqb c) (cS_eqb c) (cL_eqb c) (cHdr_eqb c) (cRow_eqb c) (cHRow_eqb c)
                      (czrow c) _ (cdigest c) (cD_eqb c) v s0 s1) /\ crash v k = crash v k'.
Proof. exact b_hybrid_points_decide. Qed.
Print Assumptions C06_hybrid_points_computed.

(* partially written files: a cut json / pickle / series file is always an error ... *)
Theorem C06_legacy_cut_unreadable : forall c t hp (s0 s1 : checkpoint c) f ct, f <> FCsv -> f <> FTmp ->
  class_of c Legacy t hp s0 s1 (crash_cut Legacy f ct) = Error.
Proof. exact b_legacy_cut_unreadable. Qed.
Print Assumptions C06_legacy_cut_unreadable.

Theorem C06_legacy_cut_csv_header : forall c t hp (s0 s1 : checkpoint c),
  class_of c Legacy t hp s0 s1 (crash_cut Legacy FCsv CutHeader) = Error.
Proof. exact b_legacy_cut_csv_header. Qed.
Print Assumptions C06_legacy_cut_csv_header.

(* ... but a csv cut after its header is a silent hybrid at every line boundary, for any number j of rows, and a
   hybrid or an error inside a line *)
Theorem C06_legacy_cut_csv_rows : forall c, decides_eq c -> forall t (s0 s1 : checkpoint c) j mid, generic_pair c s0 s1 ->
  In (class_of c Legacy t true s0 s1 (crash_cut Legacy FCsv (CutRows j mid))) [Hybrid; Error]
  /\ (mid = false -> class_of c Legacy t true s0 s1 (crash_cut Legacy FCsv (CutRows j mid)) = Hybrid).
Proof. exact b_legacy_cut_csv_rows. Qed.
Print Assumptions C06_legacy_cut_csv_rows.

(* ---------------- the repaired order (data files, digests, json last by os.replace; load checks the digests):
   the property holds for all checkpoints, all operation prefixes, all cuts *)

Theorem C06_repaired_no_hybrid_before_commit : forall c, decides_eq c -> digest_injective c ->
  forall t (s0 s1 : checkpoint c) k, k < nops Repaired ->
  class_of c Repaired t true s0 s1 (crash Repaired k) = Error \/ class_of c Repaired t true s0 s1 (crash Repaired k) = Exactly_old.
Proof. exact b_repaired_no_hybrid_before_commit. Qed.
Print Assumptions C06_repaired_no_hybrid_before_commit.

Theorem C06_repaired_no_hybrid_cut : forall c, decides_eq c -> digest_injective c ->
  forall t (s0 s1 : checkpoint c) f ct, f <> FJson ->
  class_of c Repaired t true s0 s1 (crash_cut Repaired f ct) = Error
  \/ class_of c Repaired t true s0 s1 (crash_cut Repaired f ct) = Exactly_old.
Proof. exact b_repaired_no_hybrid_cut. Qed.
Print Assumptions C06_repaired_no_hybrid_cut.

Theorem C06_repaired_complete : forall c, decides_eq c -> forall t (s0 s1 : checkpoint c) k, s0 <> s1 ->
  appended c s0 s1 = sh s1 -> nops Repaired <= k -> class_of c Repaired t true s0 s1 (crash Repaired k) = Exactly_new.
Proof. exact b_repaired_complete. Qed.
Print Assumptions C06_repaired_complete.

Theorem C06_repaired_never_hybrid : forall c, decides_eq c -> digest_injective c ->
  forall t (s0 s1 : checkpoint c) k, s0 <> s1 -> appended c s0 s1 = sh s1 ->
  In (class_of c Repaired t true s0 s1 (crash Repaired k)) [Error; Exactly_old; Exactly_new].
Proof. exact b_repaired_never_hybrid. Qed.
Print Assumptions C06_repaired_never_hybrid.

(* ---------------- first save into an empty folder (both orders): an error until the operation that completes it *)
Theorem C06_fresh_error_until_complete : forall c v t (s0 s1 : checkpoint c) k, k < fresh_commit v ->
  class_of c v t false s0 s1 (crash_fresh v k) = Error.
Proof. exact b_fresh_error_until_complete. Qed.
Print Assumptions C06_fresh_error_until_complete.

Theorem C06_fresh_complete : forall c, decides_eq c -> forall v t (s0 s1 : checkpoint c) k, fresh_commit v <= k ->
  class_of c v t false s0 s1 (crash_fresh v k) = Exactly_new.
Proof. exact b_fresh_complete. Qed.
Print Assumptions C06_fresh_complete.

Theorem C06_fresh_cut_error : forall c v t (s0 s1 : checkpoint c) f ct, (v = Legacy -> f <> FTmp) ->
  class_of c v t false s0 s1 (crash_cut_from v folder_absent f ct) = Error.
Proof. exact b_fresh_cut_error. Qed.
Print Assumptions C06_fresh_cut_error.

(* ---------------- SQLite back-end: "a failed save leaves the previous checkpoint loadable" *)

(* current statement order [PRAGMA; executescript(DDL; DELETE); INSERT; COMMIT]: refuted at statement 2, the INSERT
   (the DELETE inside executescript is already committed) - and the exact outcome of a failure at any statement *)
Theorem C06_sqlite_failed_save_keeps_previous_refuted : forall St (s0 s1 : St),
  nth_error (sql_stmts Legacy) 2 = Some SInsert /\ sql_load St (failed_save St Legacy s1 2 false (db_of St (Some s0))) = RErr.
Proof. exact sql_legacy_insert_loses_previous. Qed.
Print Assumptions C06_sqlite_failed_save_keeps_previous_refuted.

Theorem C06_sqlite_legacy_kept_iff : forall St (s0 s1 : St) i, i < length (sql_stmts Legacy) ->
  (sql_load St (failed_save St Legacy s1 i false (db_of St (Some s0))) = ROk s0 <-> i < 2).
Proof. exact sql_legacy_lost_iff. Qed.
Print Assumptions C06_sqlite_legacy_kept_iff.

Theorem C06_sqlite_legacy_outcome : forall St (s0 s1 : St) i after,
  sql_load St (failed_save St Legacy s1 i after (db_of St (Some s0))) =
    if ran i after <=? 1 then ROk s0 else if ran i after <=? 3 then RErr else ROk s1.
Proof. exact sql_legacy_outcome. Qed.
Print Assumptions C06_sqlite_legacy_outcome.

(* repaired order [PRAGMA; executescript(DDL); DELETE; INSERT; COMMIT]: the full statement *)
Theorem C06_sqlite_failed_save_keeps_previous : forall St (s0 s1 : St) i, i < length (sql_stmts Repaired) ->
  sql_load St (failed_save St Repaired s1 i false (db_of St (Some s0))) = ROk s0.
Proof. exact sql_repaired_keeps_previous. Qed.
Print Assumptions C06_sqlite_failed_save_keeps_previous.

(* also when the exception comes right after a statement ran: previous row, or the new one once COMMIT ran *)
Theorem C06_sqlite_repaired_outcome : forall St (s0 s1 : St) i after,
  sql_load St (failed_save St Repaired s1 i after (db_of St (Some s0))) = if ran i after <=? 4 then ROk s0 else ROk s1.
Proof. exact sql_repaired_outcome. Qed.
Print Assumptions C06_sqlite_repaired_outcome.

Theorem C06_sqlite_complete : forall St v (prev : option St) s1, sql_load St (complete_save St v s1 (db_of St prev)) = ROk s1.
Proof. exact sql_complete. Qed.
Print Assumptions C06_sqlite_complete.

(* ---------------- non-vacuity *)
(* the hypotheses decides_eq / digest_injective are satisfiable, generic pairs exist, and the refutation has a
   concrete witness: s0 = 2 rows, s1 = 3 rows, crash after calibration_params.json was written (k = 2) *)
Example C06_components_exist : decides_eq (tcomponents 0) /\ digest_injective (tcomponents 0).
Proof. exact (tcomponents_ok 0). Qed.
Example C06_generic_pair_exists : generic_pair (tcomponents 0) tok0 tok1.
Proof. exact tok_generic. Qed.
Example C06_refuted_witness :
  tok0 <> tok1 /\ class_of (tcomponents 0) Legacy TGarbled true tok0 tok1 (crash Legacy 2) = Hybrid.
Proof. exact tok_refuted. Qed.
Example C06_hybrid_list_value : hybrid_list_legacy = [2; 3; 5; 6; 8; 9; 11; 12; 13; 14].
Proof. reflexivity. Qed.
Example C06_repaired_classes_on_tokens :
  map (fun k => class_of (tcomponents 0) Repaired TGarbled true tok0 tok1 (crash Repaired k)) (seq 0 22)
  = [Exactly_old; Error; Error; Error; Error; Error; Error; Error; Error; Error; Error; Error; Error; Error; Error; Error;
     Error; Error; Error; Error; Error; Exactly_new].
Proof. vm_compute. reflexivity. Qed.
Example C06_legacy_classes_on_tokens :
  map (fun k => class_of (tcomponents 0) Legacy TGarbled true tok0 tok1 (crash Legacy k)) (seq 0 17)
  = [Exactly_old; Error; Hybrid; Hybrid; Error; Hybrid; Hybrid; Error; Hybrid; Hybrid; Error; Hybrid; Hybrid; Hybrid;
     Hybrid; Exactly_new; Exactly_new].
Proof. vm_compute. reflexivity. Qed.

(* ================= generator sweep (round 4): Model/CrashSeq.v =================
   class2_of c v t oldfmt true s0 s1 d   as class_of, the json of a complete save recording the digests of the files of
                       that checkpoint; oldfmt = the previous checkpoint was written by a version that recorded none
   mode_of_c c s0 s1 d how a save of s1 started on folder d writes series_samp.h5: appended in place (rows on disk a
                       prefix), created (no file), re-created (rows not a prefix), None = file unreadable, the save raises
   seq_folder_c c v s0 s1 d l   folder after a sequence l of saves of s1, each stopped at an operation / inside a file *)

(* the extension says what the first model says, where both apply *)
Theorem C06_extension_agrees_prev : forall c v t (s0 s1 : checkpoint c) d,
  appended c s0 s1 = sh s1 -> class2_of c v t false true s0 s1 d = class_of c v t true s0 s1 d.
Proof. exact b_class2_agrees_prev. Qed.
Print Assumptions C06_extension_agrees_prev.

Theorem C06_extension_agrees_ops : forall v k,
  run_ops2 (firstn k (save_ops_m v (Some MAppend))) folder_old = crash v k
  /\ run_ops2 (firstn k (save_ops_m v (Some MFresh))) folder_absent = crash_fresh v k.
Proof. intros v k. split; [apply run_ops2_crash | apply run_ops2_crash_fresh]. Qed.
Print Assumptions C06_extension_agrees_ops.

(* the property for the repaired order, in its strongest form: NO folder at all - whatever mixture of old, new, empty,
   cut, resized or re-created files any sequence of crashes left - is restored as a hybrid *)
Theorem C06_any_folder_never_hybrid : forall c, decides_eq c -> digest_injective c ->
  forall t (s0 s1 : checkpoint c) (d : folder),
  In (class2_of c Repaired t false true s0 s1 d) [Error; Exactly_old; Exactly_new].
Proof. exact b_any_folder_never_hybrid. Qed.
Print Assumptions C06_any_folder_never_hybrid.

Theorem C06_any_folder_never_hybrid_fresh : forall c, decides_eq c -> digest_injective c ->
  forall t (s0 s1 : checkpoint c) (d : folder), f_json d <> Old ->
  In (class2_of c Repaired t false false s0 s1 d) [Error; Exactly_new].
Proof. exact b_any_folder_never_hybrid_fresh. Qed.
Print Assumptions C06_any_folder_never_hybrid_fresh.

(* any sequence of interrupted saves (each choosing its way of writing the series file from what the previous ones left)
   on top of checkpoint s0: an error or exactly s0 *)
Theorem C06_fault_sequence_error_or_previous : forall c, decides_eq c -> digest_injective c ->
  forall t (s0 s1 : checkpoint c) (l : list stop), all_before_commit c s0 s1 folder_old l = true ->
  class2_of c Repaired t false true s0 s1 (seq_folder_c c Repaired s0 s1 folder_old l) = Error
  \/ class2_of c Repaired t false true s0 s1 (seq_folder_c c Repaired s0 s1 folder_old l) = Exactly_old.
Proof. exact b_seq_error_or_previous. Qed.
Print Assumptions C06_fault_sequence_error_or_previous.

(* a save that completes, started on ANY folder whose series file can be opened, commits exactly s1 *)
Theorem C06_save_after_any_crash_commits_new : forall c, decides_eq c -> forall t (s0 s1 : checkpoint c) d m,
  mode_of_c c s0 s1 d = Some m -> s0 <> s1 ->
  class2_of c Repaired t false true s0 s1 (run_ops2 (save_ops_m Repaired (Some m)) d) = Exactly_new.
Proof. exact b_complete_from_any. Qed.
Print Assumptions C06_save_after_any_crash_commits_new.

(* the rows on disk are not the first rows of the series being saved: the series file is re-created *)
Theorem C06_rewrite_mode : forall c (s0 s1 : checkpoint c), not_prefix c s0 s1 ->
  mode_of_c c s0 s1 folder_old = Some MRewrite.
Proof. exact b_rewrite_mode. Qed.
Print Assumptions C06_rewrite_mode.

Theorem C06_rewrite_no_hybrid_before_commit : forall c, decides_eq c -> digest_injective c ->
  forall t (s0 s1 : checkpoint c) k, k < length (save_ops_m Repaired (Some MRewrite)) ->
  let d := run_ops2 (firstn k (save_ops_m Repaired (Some MRewrite))) folder_old in
  class2_of c Repaired t false true s0 s1 d = Error \/ class2_of c Repaired t false true s0 s1 d = Exactly_old.
Proof. exact b_rewrite_before_commit. Qed.
Print Assumptions C06_rewrite_no_hybrid_before_commit.

Theorem C06_rewrite_no_hybrid_cut : forall c, decides_eq c -> digest_injective c ->
  forall t (s0 s1 : checkpoint c) f e ct, f <> FJson ->
  let d := step_folder Repaired (Some MRewrite) folder_old (SCut f e ct) in
  class2_of c Repaired t false true s0 s1 d = Error \/ class2_of c Repaired t false true s0 s1 d = Exactly_old.
Proof. exact b_rewrite_cut. Qed.
Print Assumptions C06_rewrite_no_hybrid_cut.

Theorem C06_rewrite_complete : forall c, decides_eq c -> forall t (s0 s1 : checkpoint c) k,
  not_prefix c s0 s1 -> s0 <> s1 -> length (save_ops_m Repaired (Some MRewrite)) <= k ->
  class2_of c Repaired t false true s0 s1 (run_ops2 (firstn k (save_ops_m Repaired (Some MRewrite))) folder_old)
  = Exactly_new.
Proof. exact b_rewrite_complete. Qed.
Print Assumptions C06_rewrite_complete.

(* a previous checkpoint WITHOUT digests (written by an older version; loaded without any check): the property is
   refuted for the tree as it is - for every generic pair, every crash point from "new rows in the series file" to the
   commit is a silent hybrid (old counters, new records). With digests in the previous json the same points are an error
   (C06_repaired_no_hybrid_before_commit): that is the partial statement that holds. *)
Theorem C06_digestless_previous_refuted : forall c, decides_eq c -> forall (s0 s1 : checkpoint c), generic_pair c s0 s1 ->
  exists k, k < nops Repaired /\ class2_of c Repaired TGarbled true true s0 s1 (crash Repaired k) = Hybrid.
Proof. exact b_digestless_refuted. Qed.
Print Assumptions C06_digestless_previous_refuted.

Theorem C06_digestless_previous_hybrid_points : forall c, decides_eq c -> forall t (s0 s1 : checkpoint c) k,
  generic_pair c s0 s1 -> 12 <= k -> k < 21 -> class2_of c Repaired t true true s0 s1 (crash Repaired k) = Hybrid.
Proof. exact b_digestless_hybrid. Qed.
Print Assumptions C06_digestless_previous_hybrid_points.

(* SQLite: any number of failed saves keep the previous checkpoint, and the save that finally completes stores s1 *)
Theorem C06_sqlite_repeated_failures_keep_previous : forall St (s0 s1 : St) (l : list (nat * bool)),
  Forall (fun f => ran (fst f) (snd f) <= 4) l ->
  sql_load St (failed_saves St Repaired s1 l (db_of St (Some s0))) = ROk s0.
Proof. exact sql_failures_keep_previous. Qed.
Print Assumptions C06_sqlite_repeated_failures_keep_previous.

Theorem C06_sqlite_retry_after_failures_complete : forall St (prev : option St) (s1 : St) (l : list (nat * bool)),
  Forall (fun f => ran (fst f) (snd f) <= 4) l ->
  sql_load St (complete_save St Repaired s1 (failed_saves St Repaired s1 l (db_of St prev))) = ROk s1.
Proof. exact sql_retry_after_failures. Qed.
Print Assumptions C06_sqlite_retry_after_failures_complete.

(* non-vacuity of the new statements, on tokens: tokr0 / tokr1 = checkpoints of two different runs (rows not a prefix) *)
Definition tokr0 : tstate := mkState _ _ _ _ _ _ 0 0 0 0 [1; 2] [1; 2].
Definition tokr1 : tstate := mkState _ _ _ _ _ _ 1 1 0 0 [3; 4; 5] [3; 4; 5].
Example C06_rewrite_witness : not_prefix (tcomponents 0) tokr0 tokr1 /\ tokr0 <> tokr1.
Proof. split; [reflexivity | discriminate]. Qed.
Example C06_rewrite_classes_on_tokens :
  map (fun k => class2_of (tcomponents 0) Repaired TGarbled false true tokr0 tokr1
                  (run_ops2 (firstn k (save_ops_m Repaired (Some MRewrite))) folder_old)) (seq 0 23)
  = [Exactly_old; Error; Error; Error; Error; Error; Error; Error; Error; Error; Error; Error; Error; Error; Error; Error;
     Error; Error; Error; Error; Error; Error; Exactly_new].
Proof. vm_compute. reflexivity. Qed.
(* a crash after the resize, then a retry: the resized file is not a prefix, the retry re-creates it and commits *)
Example C06_retry_after_resize_on_tokens :
  modes_of_steps Repaired 0 tok0 tok1 folder_old [SEvent 7; SComplete] = [Some MAppend; Some MRewrite]
  /\ class2_of (tcomponents 0) Repaired TGarbled false true tok0 tok1
       (seq_folder_c (tcomponents 0) Repaired tok0 tok1 folder_old [SEvent 7; SComplete]) = Exactly_new.
Proof. vm_compute. split; reflexivity. Qed.
(* a crash between h5py.File(mode="w") and create_dataset leaves a series file no later save can open *)
Example C06_series_file_without_dataset_on_tokens :
  modes_of_steps Repaired 0 tokr0 tokr1 folder_old [SEvent 7; SComplete; SComplete] = [Some MRewrite; None; None]
  /\ class2_of (tcomponents 0) Repaired TGarbled false true tokr0 tokr1
       (seq_folder_c (tcomponents 0) Repaired tokr0 tokr1 folder_old [SEvent 7; SComplete; SComplete]) = Error.
Proof. vm_compute. split; reflexivity. Qed.
Example C06_digestless_classes_on_tokens :
  map (fun k => class2_of (tcomponents 0) Repaired TGarbled true true tok0 tok1 (crash Repaired k)) (seq 0 22)
  = [Exactly_old; Error; Hybrid; Hybrid; Error; Hybrid; Hybrid; Error; Hybrid; Hybrid; Hybrid; Hybrid; Hybrid; Hybrid; Hybrid;
     Hybrid; Hybrid; Hybrid; Hybrid; Hybrid; Hybrid; Exactly_new].
Proof. vm_compute. reflexivity. Qed.
