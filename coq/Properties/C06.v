(* C06 - an interrupted checkpoint save is never restored as a silent hybrid.
   Property theorems only; each is closed by `exact` of a lemma proved in Proofs/CrashP.v.

   c : components      the five component types of a checkpoint (json content, scheduler pickle, loss pickle, csv rows,
                       series rows), any types with a decidable equality, + the digest function of the repaired order
   checkpoint c        any values of them; lists of rows of arbitrary length
   crash v k           folder after the first k file operations of a save of s1 on a folder holding s0 (write order v)
   crash_cut v f ct    file f cut at ct, files written before it complete, the others untouched
   class_of c v t true s0 s1 d   outcome of restore_from_checkpoint on folder d: Error / Exactly_old / Exactly_new / Hybrid
                       (t : what the csv parser makes of a cut last line - the theorems hold for every t) *)
From Coq Require Import List Arith Bool.
From BlackIt Require Import Model.Crash Proofs.CrashP.
Import ListNotations.

(* ---------------- the order of the tree before the repair (json first, nothing cross-checked): refuted, and the
   hybrid crash points characterised *)

(* which operation prefixes are silent hybrids: exactly those of hybrid_list_legacy = [2;3;5;6;8;9;11;12;13;14], i.e.
   every point between "json written" and "series rows written" at which no file is empty *)
Theorem C06_hybrid_points_exact : forall c, decides_eq c -> forall t (s0 s1 : checkpoint c) k, generic_pair c s0 s1 ->
  (class_of c Legacy t true s0 s1 (crash Legacy k) = Hybrid <-> In k hybrid_list_legacy).
Proof. exact b_legacy_hybrid_points_exact. Qed.
Print Assumptions C06_hybrid_points_exact.

Theorem C06_no_hybrid_outside : forall c, decides_eq c -> forall t (s0 s1 : checkpoint c) k, generic_pair c s0 s1 ->
  ~ In k hybrid_list_legacy -> In (class_of c Legacy t true s0 s1 (crash Legacy k)) [Error; Exactly_old; Exactly_new].
Proof. exact b_legacy_no_hybrid_outside. Qed.
Print Assumptions C06_no_hybrid_outside.

(* the property fails for EVERY generic pair of checkpoints (not for one witness only) *)
Theorem C06_refuted : forall c, decides_eq c -> forall (s0 s1 : checkpoint c), generic_pair c s0 s1 ->
  exists k, k < nops Legacy /\ class_of c Legacy TGarbled true s0 s1 (crash Legacy k) = Hybrid.
Proof. exact b_legacy_refuted. Qed.
Print Assumptions C06_refuted.

(* for any pair whatsoever (not only generic ones) and either order, the hybrid prefixes are the computed set *)
Theorem C06_hybrid_points_computed : forall c v (s0 s1 : checkpoint c) k,
  class_of c v TGarbled true s0 s1 (crash v k) = Hybrid <->
  exists k', In k' (hybrid_points _ _ _ _ _ _ (cJ_eqb c) (cS_eqb c) (cL_eqb c) (cHdr_eqb c) (cRow_eqb c) (cHRow_eqb c)
                      (czrow c) _ (cdigest c) (cD_eqb c) v s0 s1) /\ crash v k = crash v k'.
Proof. exact b_hybrid_points_decide. Qed.
Print Assumptions C06_hybrid_points_computed.

(* partially written files: a cut json / pickle / series file is always an error ... *)
Theorem C06_legacy_cut_unreadable : forall c t hp (s0 s1 : checkpoint c) f ct, f <> FCsv -> f <> FTmp ->
  class_of c Legacy t hp s0 s1 (crash_cut Legacy f ct) = Error.
Proof. exact b_legacy_cut_unreadable. Qed.
Print Assumptions C06_legacy_cut_unreadable.

Theorem C06_legacy_cut_csv_header : forall c t hp (s0 s1 : checkpoint c),
  class_of c Legacy t hp s0 s1 (crash_cut Legacy FCsv CutHeader) = Error.
Proof. exact b_legacy_cut_csv_header. Qed.
Print Assumptions C06_legacy_cut_csv_header.

(* ... but a csv cut after its header is a silent hybrid at every line boundary, for any number j of rows, and a
   hybrid or an error inside a line *)
Theorem C06_legacy_cut_csv_rows : forall c, decides_eq c -> forall t (s0 s1 : checkpoint c) j mid, generic_pair c s0 s1 ->
  In (class_of c Legacy t true s0 s1 (crash_cut Legacy FCsv (CutRows j mid))) [Hybrid; Error]
  /\ (mid = false -> class_of c Legacy t true s0 s1 (crash_cut Legacy FCsv (CutRows j mid)) = Hybrid).
Proof. exact b_legacy_cut_csv_rows. Qed.
Print Assumptions C06_legacy_cut_csv_rows.

(* ---------------- the repaired order (data files, digests, json last by os.replace; load checks the digests):
   the property holds for all checkpoints, all operation prefixes, all cuts *)

Theorem C06_repaired_no_hybrid_before_commit : forall c, decides_eq c -> digest_injective c ->
  forall t (s0 s1 : checkpoint c) k, k < nops Repaired ->
  class_of c Repaired t true s0 s1 (crash Repaired k) = Error \/ class_of c Repaired t true s0 s1 (crash Repaired k) = Exactly_old.
Proof. exact b_repaired_no_hybrid_before_commit. Qed.
Print Assumptions C06_repaired_no_hybrid_before_commit.

Theorem C06_repaired_no_hybrid_cut : forall c, decides_eq c -> digest_injective c ->
  forall t (s0 s1 : checkpoint c) f ct, f <> FJson ->
  class_of c Repaired t true s0 s1 (crash_cut Repaired f ct) = Error
  \/ class_of c Repaired t true s0 s1 (crash_cut Repaired f ct) = Exactly_old.
Proof. exact b_repaired_no_hybrid_cut. Qed.
Print Assumptions C06_repaired_no_hybrid_cut.

Theorem C06_repaired_complete : forall c, decides_eq c -> forall t (s0 s1 : checkpoint c) k, s0 <> s1 ->
  appended c s0 s1 = sh s1 -> nops Repaired <= k -> class_of c Repaired t true s0 s1 (crash Repaired k) = Exactly_new.
Proof. exact b_repaired_complete. Qed.
Print Assumptions C06_repaired_complete.

Theorem C06_repaired_never_hybrid : forall c, decides_eq c -> digest_injective c ->
  forall t (s0 s1 : checkpoint c) k, s0 <> s1 -> appended c s0 s1 = sh s1 ->
  In (class_of c Repaired t true s0 s1 (crash Repaired k)) [Error; Exactly_old; Exactly_new].
Proof. exact b_repaired_never_hybrid. Qed.
Print Assumptions C06_repaired_never_hybrid.

(* ---------------- first save into an empty folder (both orders): an error until the operation that completes it *)
Theorem C06_fresh_error_until_complete : forall c v t (s0 s1 : checkpoint c) k, k < fresh_commit v ->
  class_of c v t false s0 s1 (crash_fresh v k) = Error.
Proof. exact b_fresh_error_until_complete. Qed.
Print Assumptions C06_fresh_error_until_complete.

Theorem C06_fresh_complete : forall c, decides_eq c -> forall v t (s0 s1 : checkpoint c) k, fresh_commit v <= k ->
  class_of c v t false s0 s1 (crash_fresh v k) = Exactly_new.
Proof. exact b_fresh_complete. Qed.
Print Assumptions C06_fresh_complete.

Theorem C06_fresh_cut_error : forall c v t (s0 s1 : checkpoint c) f ct, (v = Legacy -> f <> FTmp) ->
  class_of c v t false s0 s1 (crash_cut_from v folder_absent f ct) = Error.
Proof. exact b_fresh_cut_error. Qed.
Print Assumptions C06_fresh_cut_error.

(* ---------------- SQLite back-end: "a failed save leaves the previous checkpoint loadable" *)

(* current statement order [PRAGMA; executescript(DDL; DELETE); INSERT; COMMIT]: refuted at statement 2, the INSERT
   (the DELETE inside executescript is already committed) - and the exact outcome of a failure at any statement *)
Theorem C06_sqlite_failed_save_keeps_previous_refuted : forall St (s0 s1 : St),
  nth_error (sql_stmts Legacy) 2 = Some SInsert /\ sql_load St (failed_save St Legacy s1 2 false (db_of St (Some s0))) = RErr.
Proof. exact sql_legacy_insert_loses_previous. Qed.
Print Assumptions C06_sqlite_failed_save_keeps_previous_refuted.

Theorem C06_sqlite_legacy_kept_iff : forall St (s0 s1 : St) i, i < length (sql_stmts Legacy) ->
  (sql_load St (failed_save St Legacy s1 i false (db_of St (Some s0))) = ROk s0 <-> i < 2).
Proof. exact sql_legacy_lost_iff. Qed.
Print Assumptions C06_sqlite_legacy_kept_iff.

Theorem C06_sqlite_legacy_outcome : forall St (s0 s1 : St) i after,
  sql_load St (failed_save St Legacy s1 i after (db_of St (Some s0))) =
    if ran i after <=? 1 then ROk s0 else if ran i after <=? 3 then RErr else ROk s1.
Proof. exact sql_legacy_outcome. Qed.
Print Assumptions C06_sqlite_legacy_outcome.

(* repaired order [PRAGMA; executescript(DDL); DELETE; INSERT; COMMIT]: the full statement *)
Theorem C06_sqlite_failed_save_keeps_previous : forall St (s0 s1 : St) i, i < length (sql_stmts Repaired) ->
  sql_load St (failed_save St Repaired s1 i false (db_of St (Some s0))) = ROk s0.
Proof. exact sql_repaired_keeps_previous. Qed.
Print Assumptions C06_sqlite_failed_save_keeps_previous.

(* also when the exception comes right after a statement ran: previous row, or the new one once COMMIT ran *)
Theorem C06_sqlite_repaired_outcome : forall St (s0 s1 : St) i after,
  sql_load St (failed_save St Repaired s1 i after (db_of St (Some s0))) = if ran i after <=? 4 then ROk s0 else ROk s1.
Proof. exact sql_repaired_outcome. Qed.
Print Assumptions C06_sqlite_repaired_outcome.

Theorem C06_sqlite_complete : forall St v (prev : option St) s1, sql_load St (complete_save St v s1 (db_of St prev)) = ROk s1.
Proof. exact sql_complete. Qed.
Print Assumptions C06_sqlite_complete.

(* ---------------- non-vacuity *)
(* the hypotheses decides_eq / digest_injective are satisfiable, generic pairs exist, and the refutation has a
   concrete witness: s0 = 2 rows, s1 = 3 rows, crash after calibration_params.json was written (k = 2) *)
Example C06_components_exist : decides_eq (tcomponents 0) /\ digest_injective (tcomponents 0).
Proof. exact (tcomponents_ok 0). Qed.
Example C06_generic_pair_exists : generic_pair (tcomponents 0) tok0 tok1.
Proof. exact tok_generic. Qed.
Example C06_refuted_witness :
  tok0 <> tok1 /\ class_of (tcomponents 0) Legacy TGarbled true tok0 tok1 (crash Legacy 2) = Hybrid.
Proof. exact tok_refuted. Qed.
Example C06_hybrid_list_value : hybrid_list_legacy = [2; 3; 5; 6; 8; 9; 11; 12; 13; 14].
Proof. reflexivity. Qed.
Example C06_repaired_classes_on_tokens :
  map (fun k => class_of (tcomponents 0) Repaired TGarbled true tok0 tok1 (crash Repaired k)) (seq 0 22)
  = [Exactly_old; Error; Error; Error; Error; Error; Error; Error; Error; Error; Error; Error; Error; Error; Error; Error;
     Error; Error; Error; Error; Error; Exactly_new].
Proof. vm_compute. reflexivity. Qed.
Example C06_legacy_classes_on_tokens :
  map (fun k => class_of (tcomponents 0) Legacy TGarbled true tok0 tok1 (crash Legacy k)) (seq 0 17)
  = [Exactly_old; Error; Hybrid; Hybrid; Error; Hybrid; Hybrid; Error; Hybrid; Hybrid; Error; Hybrid; Hybrid; Hybrid;
     Hybrid; Exactly_new; Exactly_new].
Proof. vm_compute. reflexivity. Qed.
