(* C16 — history-driven samplers use the history faithfully and never modify it.
   Property theorems only; each is closed by `exact` of a lemma proved in Proofs/SurrogateP.v / Proofs/BestBatchP.v.
   Models: Model/Surrogate.v (surrogate.py, random_forest.py, xgboost.py, gaussian_process.py, random_uniform.py and the
   history-reading prefixes of halton / r-sequence / particle swarm / CORS), Model/BestBatch.v (best_batch.py).
   Every sampler model returns (proposals, ..., history'): "does not modify" is `history' = history`. *)
From Coq Require Import List QArith Qabs Bool Arith ZArith Sorted Permutation Lia Floats.
From BlackIt Require Import Model.Surrogate Model.BestBatch Proofs.SurrogateP Proofs.BestBatchP.
Import ListNotations.

(* ================================================================== the no-modification clause *)

(* generic surrogate (ANY sample_candidates / fit / predict / argsort): sample_batch adds no write of its own -- the
   arrays the caller holds afterwards are the given ones as soon as the two user-overridable methods that are handed
   them leave them alone *)
Theorem C16_history_untouched_surrogate :
  forall (num : Type) (zero : num) (ltb : num -> num -> bool) (absdiff : num -> num -> num) (L P Surr St : Type)
    (draw_pool : St -> nat -> list (list num) -> history num L -> list (point num) * St * history num L)
    (fit : St -> history num L -> Surr * St * history num L)
    (predict : Surr -> list (point num) -> list P) (argsort : list P -> list nat)
    (k n : nat) (g : list (list num)) (h : history num L) (st : St),
  pool_pure num L St draw_pool -> fit_pure num L Surr St fit ->
  history_after num L P St (Surrogate.sample_batch num zero ltb absdiff L P Surr St draw_pool fit predict argsort k n g h st) = h.
Proof. exact sb_history. Qed.
Print Assumptions C16_history_untouched_surrogate.

(* ... for the whole of BaseSampler.sample: the first call and every de-duplication re-draw, whatever their sizes *)
Theorem C16_history_untouched_surrogate_all_calls :
  forall (num : Type) (zero : num) (ltb : num -> num -> bool) (absdiff : num -> num -> num) (L P Surr St : Type)
    (draw_pool : St -> nat -> list (list num) -> history num L -> list (point num) * St * history num L)
    (fit : St -> history num L -> Surr * St * history num L)
    (predict : Surr -> list (point num) -> list P) (argsort : list P -> list nat)
    (ks : list nat) (n : nat) (g : list (list num)) (h : history num L) (st : St),
  pool_pure num L St draw_pool -> fit_pure num L Surr St fit ->
  snd (fst (run_calls num zero ltb absdiff L P Surr St draw_pool fit predict argsort ks n g h st)) = h.
Proof. exact calls_history. Qed.
Print Assumptions C16_history_untouched_surrogate_all_calls.

(* the pool of the built-in surrogates (RandomUniformSampler.sample_batch) *)
Theorem C16_history_untouched_random_uniform :
  forall (num : Type) (zero : num) (L St : Type) (choice : St -> nat -> nat -> list nat * St)
    (st : St) (n : nat) (g : list (list num)) (h : list (list num) * list L),
  snd (uniform_batch num zero L St choice st n g h) = h.
Proof. exact uniform_batch_history. Qed.
Print Assumptions C16_history_untouched_random_uniform.

(* random forest: any generator, any library fit, any binning of the losses, any predict / argsort *)
Theorem C16_history_untouched_random_forest :
  forall (num : Type) (zero : num) (ltb : num -> num -> bool) (absdiff : num -> num -> num) (L P Surr St : Type)
    (choice : St -> nat -> nat -> list nat * St)
    (predict : Surr -> list (point num) -> list P) (argsort : list P -> list nat)
    (categories : list L -> list nat) (lib : St -> list (list num) -> list nat -> Surr * St)
    (k n : nat) (g : list (list num)) (h : history num L) (st : St),
  history_after num L P St
    (Surrogate.sample_batch num zero ltb absdiff L P Surr St (uniform_batch num zero L St choice)
       (fit_rf num L Surr St categories lib) predict argsort k n g h st) = h.
Proof. exact rf_history. Qed.
Print Assumptions C16_history_untouched_random_forest.

(* xgboost (working tree, i.e. after 893b4f5): any losses -- also those beyond the float32 limits *)
Theorem C16_history_untouched_xgboost :
  forall (num : Type) (zero : num) (ltb : num -> num -> bool) (absdiff : num -> num -> num) (L P Surr St : Type)
    (choice : St -> nat -> nat -> list nat * St)
    (predict : Surr -> list (point num) -> list P) (argsort : list P -> list nat)
    (leb : L -> L -> bool) (maxf minf hi_to lo_to : L) (lib : St -> list (list num) -> list L -> Surr * St)
    (k n : nat) (g : list (list num)) (h : history num L) (st : St),
  history_after num L P St
    (Surrogate.sample_batch num zero ltb absdiff L P Surr St (uniform_batch num zero L St choice)
       (fit_xgb num L Surr St leb maxf minf hi_to lo_to lib) predict argsort k n g h st) = h.
Proof. exact xgb_history. Qed.
Print Assumptions C16_history_untouched_xgboost.

Theorem C16_history_untouched_gaussian_process :
  forall (num : Type) (zero : num) (ltb : num -> num -> bool) (absdiff : num -> num -> num) (L P Surr St : Type)
    (choice : St -> nat -> nat -> list nat * St)
    (predict : Surr -> list (point num) -> list P) (argsort : list P -> list nat)
    (lib : St -> list (list num) -> list L -> Surr * St)
    (k n : nat) (g : list (list num)) (h : history num L) (st : St),
  history_after num L P St
    (Surrogate.sample_batch num zero ltb absdiff L P Surr St (uniform_batch num zero L St choice)
       (fit_gp num L Surr St lib) predict argsort k n g h st) = h.
Proof. exact gp_history. Qed.
Print Assumptions C16_history_untouched_gaussian_process.

Theorem C16_history_untouched_best_batch :
  forall (L : Type) (argsort : list L -> list nat) (k : nat) (sp : space) (h : bhistory L)
    (choices : list row_choice) (out : list (list Q)) (h' : bhistory L) (tr : bb_trace),
  BestBatch.sample_batch L argsort k sp h choices = Ok (out, h', tr) -> h' = h.
Proof. exact history_untouched. Qed.
Print Assumptions C16_history_untouched_best_batch.

(* halton, r-sequence (and random uniform used as a sampler): the history is not an input of the generator *)
Theorem C16_history_untouched_halton_rsequence :
  forall (num L St : Type) (gen : St -> nat -> list (list num) * St) (st : St) (k : nat) (h : rhist num L),
  snd (blind_batch num L St gen st k h) = h.
Proof. exact blind_batch_history. Qed.
Print Assumptions C16_history_untouched_halton_rsequence.

Theorem C16_history_untouched_particle_swarm :
  forall (num L St : Type) (argmin : list L -> nat)
    (step : St -> nat -> list num -> list (list num) -> list L -> list (list num) * St)
    (st : St) (start bs : nat) (h : rhist num L),
  snd (pso_batch num L St argmin step st start bs h) = h.
Proof. exact pso_batch_history. Qed.
Print Assumptions C16_history_untouched_particle_swarm.

Theorem C16_history_untouched_cors :
  forall (num L St : Type) (to_cube : list num -> list num) (scale : list L -> list L)
    (opt : St -> nat -> list (list num) -> list L -> list (list num) * St) (st : St) (k : nat) (h : rhist num L),
  snd (cors_batch num L St to_cube scale opt st k h) = h.
Proof. exact cors_batch_history. Qed.
Print Assumptions C16_history_untouched_cors.

(* the repaired _clip_losses: the caller's array is the given one, the returned one is the element-wise clip *)
Theorem C16_xgboost_clip_keeps_caller_array :
  forall (L : Type) (leb : L -> L -> bool) (maxf minf hi_to lo_to : L) (y : list L),
  snd (clip_losses L leb maxf minf hi_to lo_to y) = y /\
  fst (clip_losses L leb maxf minf hi_to lo_to y) = map (clip1 L leb maxf minf hi_to lo_to) y /\
  (in_range L leb maxf minf y = true -> fst (clip_losses L leb maxf minf hi_to lo_to y) = y).
Proof. exact clip_repaired_spec. Qed.
Print Assumptions C16_xgboost_clip_keeps_caller_array.

(* HISTORICAL (what 893b4f5 repaired): with the in-place version the caller's array changes -- a loss above the
   float32 maximum is overwritten -- at the level of _clip_losses and at the level of the whole sampler *)
Theorem C16_xgboost_clip_touched_history_refuted :
  exists (y : list Q) (i : nat), ~ nth i (snd (clip_losses_inplaceQ y)) 0 == nth i y 0.
Proof. exact clip_inplace_touches. Qed.
Print Assumptions C16_xgboost_clip_touched_history_refuted.

Theorem C16_xgboost_sampler_touched_history_refuted :
  exists h : list (list Q) * list Q,
  forall (P Surr St : Type) (choice : St -> nat -> nat -> list nat * St)
    (predict : Surr -> list (point Q) -> list P) (argsort : list P -> list nat)
    (lib : St -> list (list Q) -> list Q -> Surr * St) (k n : nat) (g : list (list Q)) (st : St),
    ~ Forall2 Qeq
        (snd (history_after Q Q P St
           (Surrogate.sample_batch Q 0 Qltb Qabsdiff Q P Surr St (uniform_batch Q 0 Q St choice)
              (fit_xgb_before_repair Q Q Surr St Qleb MAX32 MIN32 HI_TO LO_TO lib) predict argsort k n g h st)))
        (snd h).
Proof. exact xgb_before_repair_touches. Qed.
Print Assumptions C16_xgboost_sampler_touched_history_refuted.

(* what the clause forbids, exhibited on a variant of CORS that normalises in place *)
Theorem C16_cors_inplace_variant_refuted :
  exists h : list (list Q) * list Q,
  forall (St : Type) (opt : St -> nat -> list (list Q) -> list Q -> list (list Q) * St) (st : St) (k : nat),
    snd (cors_batch_inplace Q Q St (map (fun x => x / 2)) (map (fun l => l / 4)) opt st k h) <> h.
Proof. exact cors_inplace_touches. Qed.
Print Assumptions C16_cors_inplace_variant_refuted.

(* ================================================================== the surrogate trains on the given history *)

Theorem C16_surrogate_fit_on_given_history :
  forall (num : Type) (zero : num) (ltb : num -> num -> bool) (absdiff : num -> num -> num) (L P Surr St : Type)
    (draw_pool : St -> nat -> list (list num) -> history num L -> list (point num) * St * history num L)
    (fit : St -> history num L -> Surr * St * history num L)
    (predict : Surr -> list (point num) -> list P) (argsort : list P -> list nat)
    (k n : nat) (g : list (list num)) (h : history num L) (st : St),
  pool_pure num L St draw_pool ->
  t_fit_arg num L P
    (trace_of num L P St (Surrogate.sample_batch num zero ltb absdiff L P Surr St draw_pool fit predict argsort k n g h st)) = h.
Proof. exact sb_fit_arg. Qed.
Print Assumptions C16_surrogate_fit_on_given_history.

(* the three built-in surrogates (pool = grid indexing): unconditionally *)
Theorem C16_builtin_surrogate_fit_on_given_history :
  forall (num : Type) (zero : num) (ltb : num -> num -> bool) (absdiff : num -> num -> num) (L P Surr St : Type)
    (choice : St -> nat -> nat -> list nat * St)
    (predict : Surr -> list (point num) -> list P) (argsort : list P -> list nat)
    (fit : St -> history num L -> Surr * St * history num L)
    (k n : nat) (g : list (list num)) (h : history num L) (st : St),
  t_fit_arg num L P
    (trace_of num L P St
       (Surrogate.sample_batch num zero ltb absdiff L P Surr St (uniform_batch num zero L St choice) fit predict argsort k n g h st))
  = h.
Proof. exact builtin_fit_arg. Qed.
Print Assumptions C16_builtin_surrogate_fit_on_given_history.

(* xgboost's library fit is handed the given points and the given losses with the out-of-range ones replaced *)
Theorem C16_xgboost_library_fit_arguments :
  forall (num L Surr St : Type) (leb : L -> L -> bool) (maxf minf hi_to lo_to : L)
    (lib : St -> list (list num) -> list L -> Surr * St) (st : St) (h : hist num L),
  fst (fst (fit_xgb num L Surr St leb maxf minf hi_to lo_to lib st h))
  = fst (lib st (fst (xgb_lib_args num L leb maxf minf hi_to lo_to h)) (snd (xgb_lib_args num L leb maxf minf hi_to lo_to h))).
Proof. exact fit_xgb_lib_args. Qed.
Print Assumptions C16_xgboost_library_fit_arguments.

(* ================================================================== the batch_size lowest predictions are selected *)

(* For ANY predict (ties included) and ANY answer of argsort that is a sorting permutation -- no property of <= is
   used, not even transitivity: the selection is the pool taken at k positions `sel`, the rest of the pool sits at the
   complementary positions, and every selected prediction is <= every prediction left out. *)
Theorem C16_surrogate_selects_minimisers :
  forall (num : Type) (zero : num) (ltb : num -> num -> bool) (absdiff : num -> num -> num) (L P Surr St : Type)
    (draw_pool : St -> nat -> list (list num) -> history num L -> list (point num) * St * history num L)
    (fit : St -> history num L -> Surr * St * history num L)
    (predict : Surr -> list (point num) -> list P) (argsort : list P -> list nat)
    (dP : P) (pleb : P -> P -> bool)
    (k n : nat) (g : list (list num)) (h : history num L) (st : St),
  let t := trace_of num L P St (Surrogate.sample_batch num zero ltb absdiff L P Surr St draw_pool fit predict argsort k n g h st) in
  ArgsortSpec P dP pleb (t_preds num L P t) (argsort (t_preds num L P t)) ->
  length (t_preds num L P t) = length (t_pool num L P t) ->
  let sel := firstn k (t_order num L P t) in
  let rest := skipn k (t_order num L P t) in
  t_selected num L P t = take_rows (t_pool num L P t) sel /\
  length (t_selected num L P t) = Nat.min k (length (t_pool num L P t)) /\
  Permutation (sel ++ rest) (seq 0 (length (t_pool num L P t))) /\
  Permutation (t_selected num L P t ++ take_rows (t_pool num L P t) rest) (t_pool num L P t) /\
  (forall i j, In i sel -> In j rest -> pleb (nth i (t_preds num L P t) dP) (nth j (t_preds num L P t) dP) = true) /\
  proposals num L P St (Surrogate.sample_batch num zero ltb absdiff L P Surr St draw_pool fit predict argsort k n g h st)
  = digitize num zero ltb absdiff (t_selected num L P t) g.
Proof. exact sb_selects_minimisers. Qed.
Print Assumptions C16_surrogate_selects_minimisers.

(* element form: In c selected -> In c' (pool \ selected) -> pred c <= pred c' *)
Theorem C16_surrogate_selects_minimisers_pointwise :
  forall (num : Type) (zero : num) (ltb : num -> num -> bool) (absdiff : num -> num -> num) (L P Surr St : Type)
    (draw_pool : St -> nat -> list (list num) -> history num L -> list (point num) * St * history num L)
    (fit : St -> history num L -> Surr * St * history num L)
    (predict : Surr -> list (point num) -> list P) (argsort : list P -> list nat)
    (dP : P) (pleb : P -> P -> bool) (f : point num -> P)
    (k n : nat) (g : list (list num)) (h : history num L) (st : St),
  (forall m rows, predict m rows = map f rows) ->
  let t := trace_of num L P St (Surrogate.sample_batch num zero ltb absdiff L P Surr St draw_pool fit predict argsort k n g h st) in
  ArgsortSpec P dP pleb (t_preds num L P t) (argsort (t_preds num L P t)) ->
  forall c c', In c (t_selected num L P t) ->
               In c' (take_rows (t_pool num L P t) (skipn k (t_order num L P t))) ->
               pleb (f c) (f c') = true.
Proof. exact sb_selects_minimisers_pointwise. Qed.
Print Assumptions C16_surrogate_selects_minimisers_pointwise.

(* the executable admissibility test used by the correspondence implies the contract; the contract is satisfiable *)
Theorem C16_argsort_check_sound : forall l o, is_argsortQ l o = true -> ArgsortSpec Q 0 Qleb l o.
Proof. exact is_argsortQ_spec. Qed.
Print Assumptions C16_argsort_check_sound.

Theorem C16_argsort_contract_satisfiable : forall l, ArgsortSpec Q 0 Qleb l (argsort_refQ l).
Proof. exact argsort_refQ_spec. Qed.
Print Assumptions C16_argsort_contract_satisfiable.

(* ================================================================== best batch *)

Theorem C16_best_batch_needs_k_points :
  forall (L : Type) (argsort : list L -> list nat) (k : nat) (sp : space) (h : bhistory L) (choices : list row_choice),
  BestBatch.sample_batch L argsort k sp h choices = RaiseValueError <-> (length (fst h) < k)%nat.
Proof. exact needs_k_points. Qed.
Print Assumptions C16_best_batch_needs_k_points.

(* the parent of a row (drawn position < batch_size) is one of the batch_size lowest-loss points, for any reflexive
   <= on losses and any sorting answer of argsort: it is the history point at position i of the order, i is among the
   first k positions, every point left out of the candidates has a loss >= the parent's, and FEWER THAN k points of the
   history have a strictly lower loss (i.e. the parent's loss <= the k-th smallest loss) *)
Theorem C16_best_batch_parent_is_top_k :
  forall (L : Type) (dL : L) (leb : L -> L -> bool) (argsort : list L -> list nat),
  (forall a, leb a a = true) ->
  forall (k : nat) (h : bhistory L) (c : row_choice),
  ArgsortSpec L dL leb (snd h) (argsort (snd h)) ->
  length (snd h) = length (fst h) -> (k <= length (fst h))%nat -> (fst c < k)%nat ->
  let o := argsort (snd h) in
  let i := nth (fst c) o 0%nat in
  parent_of L argsort k h c = nth i (fst h) [] /\ (i < length (fst h))%nat /\
  In i (firstn k o) /\ length (firstn k o) = k /\
  (forall j, In j (skipn k o) -> leb (nth i (snd h) dL) (nth j (snd h) dL) = true) /\
  (length (filter (fun j => negb (leb (nth i (snd h) dL) (nth j (snd h) dL))) (seq 0 (length (snd h)))) < k)%nat.
Proof. exact parent_is_top_k. Qed.
Print Assumptions C16_best_batch_parent_is_top_k.

(* before clipping, a row differs from its parent on the 1 <= |J| <= dims distinct drawn coordinates, on each by a
   whole number s of ITS OWN precision with 1 <= |s| <= perturbation_range - 1, and nowhere else *)
Theorem C16_best_batch_displacement :
  forall (k : nat) (sp : space) (range : nat) (c : list Q) (ch : row_choice),
  choice_okb k sp range ch = true -> length c = dims sp ->
  let y := shocked sp false c (snd ch) in
  let J := map s_coord (snd ch) in
  length y = length c /\ (1 <= length J <= dims sp)%nat /\ NoDup J /\
  (forall j, In j J -> (j < dims sp)%nat /\
     exists s : Z, (1 <= Z.abs s <= Z.of_nat range - 1)%Z /\ nth j y 0 == nth j c 0 + inject_Z s * nth j (prec sp) 0) /\
  (forall j, ~ In j J -> nth j y 0 = nth j c 0).
Proof. exact displacement. Qed.
Print Assumptions C16_best_batch_displacement.

(* "then confined to the space": what is handed to the snap is the displaced value clipped to the bounds on the drawn
   coordinates and the parent's value elsewhere; the clip lands inside the bounds *)
Theorem C16_best_batch_confined :
  forall (k : nat) (sp : space) (range : nat) (c : list Q) (ch : row_choice),
  choice_okb k sp range ch = true -> length c = dims sp ->
  let y := shocked sp false c (snd ch) in
  let z := shocked sp true c (snd ch) in
  let J := map s_coord (snd ch) in
  length z = length c /\
  (forall j, In j J -> nth j z 0 = clipQ (nth j y 0) (nth j (lower sp) 0) (nth j (upper sp) 0)) /\
  (forall j, ~ In j J -> nth j z 0 = nth j c 0).
Proof. exact confined. Qed.
Print Assumptions C16_best_batch_confined.

Theorem C16_clip_between : forall x lo hi, lo <= hi -> lo <= clipQ x lo hi /\ clipQ x lo hi <= hi.
Proof. exact clipQ_between. Qed.
Print Assumptions C16_clip_between.

(* all of it for row r of a successful call *)
Theorem C16_best_batch_proposal_structure :
  forall (L : Type) (argsort : list L -> list nat) (k : nat) (sp : space) (range : nat) (h : bhistory L)
    (choices : list row_choice) (out : list (list Q)) (h' : bhistory L) (tr : bb_trace) (r : nat),
  BestBatch.sample_batch L argsort k sp h choices = Ok (out, h', tr) ->
  (r < length choices)%nat -> choice_okb k sp range (nth r choices (0%nat, [])) = true ->
  length (nth r (b_parents tr) []) = dims sp ->
  let c := nth r (b_parents tr) [] in
  let ch := nth r choices (0%nat, []) in
  let y := shocked sp false c (snd ch) in
  let z := nth r (b_raw tr) [] in
  let J := map s_coord (snd ch) in
  c = nth (fst ch) (b_candidates tr) [] /\ (fst ch < k)%nat /\
  (1 <= length J <= dims sp)%nat /\ NoDup J /\
  (forall j, In j J -> (j < dims sp)%nat /\
     (exists s : Z, (1 <= Z.abs s <= Z.of_nat range - 1)%Z /\ nth j y 0 == nth j c 0 + inject_Z s * nth j (prec sp) 0) /\
     nth j z 0 = clipQ (nth j y 0) (nth j (lower sp) 0) (nth j (upper sp) 0)) /\
  (forall j, ~ In j J -> nth j y 0 = nth j c 0 /\ nth j z 0 = nth j c 0) /\
  out = digitizeQ (b_raw tr) (grids sp).
Proof. exact proposal_structure. Qed.
Print Assumptions C16_best_batch_proposal_structure.

(* ================================================================== round 4: one sampler object reused by its caller *)

(* a session of calls on ONE surrogate sampler, every call with its own batch size (attribute reassigned / direct
   sample_batch), its own search space and its own history (grown, replaced, overwritten in place by the caller, of any
   length): every history handed in is what the caller holds afterwards ... *)
Theorem C16_reuse_every_history_untouched :
  forall (num : Type) (zero : num) (ltb : num -> num -> bool) (absdiff : num -> num -> num) (L P Surr St : Type)
    (draw_pool : St -> nat -> list (list num) -> history num L -> list (point num) * St * history num L)
    (fit : St -> history num L -> Surr * St * history num L)
    (predict : Surr -> list (point num) -> list P) (argsort : list P -> list nat)
    (reqs : list (request num L)) (n : nat) (st : St),
  pool_pure num L St draw_pool -> fit_pure num L Surr St fit ->
  map (history_after num L P St) (run_session num zero ltb absdiff L P Surr St draw_pool fit predict argsort reqs n st)
  = map (req_history num L) reqs.
Proof. exact session_histories. Qed.
Print Assumptions C16_reuse_every_history_untouched.

(* ... every call trains on the history of THAT call, whatever the earlier calls were handed ... *)
Theorem C16_reuse_each_call_fits_its_own_history :
  forall (num : Type) (zero : num) (ltb : num -> num -> bool) (absdiff : num -> num -> num) (L P Surr St : Type)
    (draw_pool : St -> nat -> list (list num) -> history num L -> list (point num) * St * history num L)
    (fit : St -> history num L -> Surr * St * history num L)
    (predict : Surr -> list (point num) -> list P) (argsort : list P -> list nat)
    (reqs : list (request num L)) (n : nat) (st : St),
  pool_pure num L St draw_pool ->
  map (fun r => t_fit_arg num L P (trace_of num L P St r))
      (run_session num zero ltb absdiff L P Surr St draw_pool fit predict argsort reqs n st)
  = map (req_history num L) reqs.
Proof. exact session_fit_args. Qed.
Print Assumptions C16_reuse_each_call_fits_its_own_history.

(* ... and the i-th call IS sample_batch on the i-th request (from some generator state): the selection theorems above
   apply to it unchanged; no other trace of the earlier calls exists *)
Theorem C16_reuse_call_is_sample_batch_of_its_request :
  forall (num : Type) (zero : num) (ltb : num -> num -> bool) (absdiff : num -> num -> num) (L P Surr St : Type)
    (draw_pool : St -> nat -> list (list num) -> history num L -> list (point num) * St * history num L)
    (fit : St -> history num L -> Surr * St * history num L)
    (predict : Surr -> list (point num) -> list P) (argsort : list P -> list nat)
    (reqs : list (request num L)) (n : nat) (st : St) (i : nat) (q : request num L),
  nth_error reqs i = Some q ->
  exists st', nth_error (run_session num zero ltb absdiff L P Surr St draw_pool fit predict argsort reqs n st) i
              = Some (Surrogate.sample_batch num zero ltb absdiff L P Surr St draw_pool fit predict argsort
                        (req_k num L q) n (req_grids num L q) (req_history num L q) st').
Proof. exact session_nth. Qed.
Print Assumptions C16_reuse_call_is_sample_batch_of_its_request.

(* ================================================================== non-vacuity witnesses *)

(* a surrogate call with tied predictions: pool of 5 (one row off the grid), k = 2; the reference argsort meets the
   contract, the selection is rows 1 and 3 (prediction 1), the off-grid row is predicted as is and snapped afterwards *)
Definition ex_grids : list (list Q) := [[0; 1#2; 1]; [0; 1; 2; 3]].
Definition ex_pool : list (list Q) := [[1; 3]; [(1#2) + (1#8); 2]; [0; 0]; [1#2; 1]; [1; 0]].
Definition ex_preds : list Q := [5; 1; 7; 1; 5].
Definition ex_hist : list (list Q) * list Q := ([[0; 0]; [1; 1]], [3; 4]).
Example C16_ex_surrogate :
  let r := stub_sample_batch 2 ex_grids ex_pool ex_preds (argsort_refQ ex_preds) ex_hist in
  argsort_refQ ex_preds = [1; 3; 0; 4; 2]%nat
  /\ is_argsortQ ex_preds (argsort_refQ ex_preds) = true
  /\ is_argsortQ ex_preds [3; 1; 4; 0; 2]%nat = true            (* another admissible answer *)
  /\ is_argsortQ ex_preds [1; 0; 3; 4; 2]%nat = false           (* not sorted *)
  /\ is_argsortQ ex_preds [1; 3; 0; 4; 4]%nat = false           (* not a permutation *)
  /\ t_selected _ _ _ (trace_of _ _ _ _ r) = [[(1#2) + (1#8); 2]; [1#2; 1]]
  /\ proposals _ _ _ _ r = [[1#2; 2]; [1#2; 1]]
  /\ history_after _ _ _ _ r = ex_hist
  /\ t_fit_arg _ _ _ (trace_of _ _ _ _ r) = ex_hist
  /\ length (t_preds _ _ _ (trace_of _ _ _ _ r)) = length (t_pool _ _ _ (trace_of _ _ _ _ r)).
Proof. vm_compute. repeat split; reflexivity. Qed.
(* round 4: a session - batch of 2 on ex_hist, then a batch of 1 on ANOTHER history of the same length, then a batch of 3
   on a shorter one: each call is fitted on, and leaves alone, its own history *)
Example C16_ex_session :
  let other : list (list Q) * list Q := ([[1; 3]; [1#2; 2]], [4; 3]) in
  let short : list (list Q) * list Q := ([[1; 3]], [7]) in
  let rs := run_session Q 0 Qltb Qabsdiff Q Q unit unit
              (fun st _ _ h => (ex_pool, st, h)) (fun st h => (tt, st, h)) (fun _ _ => ex_preds) (fun _ => argsort_refQ ex_preds)
              [(2%nat, ex_grids, ex_hist); (1%nat, ex_grids, other); (3%nat, ex_grids, short)] (length ex_pool) tt in
  map (history_after _ _ _ _) rs = [ex_hist; other; short]
  /\ map (fun r => t_fit_arg _ _ _ (trace_of _ _ _ _ r)) rs = [ex_hist; other; short]
  /\ map (fun r => length (proposals _ _ _ _ r)) rs = [2; 1; 3]%nat.
Proof. vm_compute. repeat split; reflexivity. Qed.
(* pool smaller than the batch: min k |pool| rows *)
Example C16_ex_small_pool :
  length (proposals _ _ _ _ (stub_sample_batch 4 ex_grids [[1; 3]; [0; 0]] [2; 1] [1; 0]%nat ex_hist)) = 2%nat.
Proof. vm_compute. reflexivity. Qed.

(* clip: in range -> same list; out of range -> copy clipped, caller's list kept; before the repair both clipped *)
Example C16_ex_clip :
  clip_lossesQ [1; -3; 5] = ([1; -3; 5], [1; -3; 5])
  /\ fst (clip_lossesQ [1; 2 * MAX32; - (2 * MAX32); MAX32]) = [1; MAX32; MIN32; MAX32]
  /\ snd (clip_lossesQ [1; 2 * MAX32; - (2 * MAX32); MAX32]) = [1; 2 * MAX32; - (2 * MAX32); MAX32]
  /\ snd (clip_losses_inplaceQ [1; 2 * MAX32]) = [1; MAX32]
  /\ in_range Q Qleb MAX32 MIN32 [1; -3; 5] = true /\ in_range Q Qleb MAX32 MIN32 [MAX32] = false.
Proof. vm_compute. repeat split; reflexivity. Qed.

(* best batch: 2 parameters, bounds [0,1] x [0,3], precisions 1/4 and 1/2; history of 4 with a tie at the cut *)
Definition ex_space : space :=
  mk_space [0; 0] [1; 3] [1#4; 1#2] [[0; 1#4; 1#2; 3#4; 1]; [0; 1#2; 1; 3#2; 2; 5#2; 3]].
Definition ex_bhist : list (list Q) * list Q := ([[1#2; 1]; [1; 3]; [0; 0]; [1#4; 2]], [7; 2; 7; 1]).
Definition ex_choices : list row_choice :=
  [(1%nat, [(0%nat, 2%nat, true); (1%nat, 1%nat, false)]);      (* parent #1 = [1;3]: +2 steps (clipped), -1 step *)
   (0%nat, [(1%nat, 5%nat, false)])].                            (* parent #0 = [1/4;2]: -5 steps -> clipped at 0 *)
Example C16_ex_best_batch :
  forallb (choice_okb 2 ex_space 6) ex_choices = true
  /\ is_argsortQ (snd ex_bhist) [3; 1; 0; 2]%nat = true /\ is_argsortQ (snd ex_bhist) [3; 1; 2; 0]%nat = true
  /\ shocked ex_space false [1; 3] (snd (nth 0 ex_choices (0%nat, []))) = [1 + (1#4) * 1 * inject_Z 2; 3 + (1#2) * -1 * inject_Z 1]
  /\ match BestBatch.sample_batch Q (fun _ => [3; 1; 0; 2]%nat) 2 ex_space ex_bhist ex_choices with
     | Ok (out, h', tr) =>
         qmat_eqb out [[1; 5#2]; [1#4; 0]] = true /\ h' = ex_bhist
         /\ b_candidates tr = [[1#4; 2]; [1; 3]] /\ b_parents tr = [[1; 3]; [1#4; 2]]
         /\ qmat_eqb (b_raw tr) [[1; 5#2]; [1#4; 0]] = true
     | RaiseValueError => False
     end
  /\ BestBatch.sample_batch Q (fun _ => [3; 1; 0; 2]%nat) 5 ex_space ex_bhist ex_choices = RaiseValueError.
Proof. vm_compute. repeat split; reflexivity. Qed.
(* ranges of the draws: size 0, size = range, a repeated coordinate, no shock, parent position = k are all rejected *)
Example C16_ex_choice_ranges :
  choice_okb 2 ex_space 6 (0%nat, [(0%nat, 0%nat, true)]) = false
  /\ choice_okb 2 ex_space 6 (0%nat, [(0%nat, 6%nat, true)]) = false
  /\ choice_okb 2 ex_space 6 (0%nat, [(0%nat, 5%nat, true)]) = true
  /\ choice_okb 2 ex_space 6 (0%nat, [(0%nat, 1%nat, true); (0%nat, 2%nat, false)]) = false
  /\ choice_okb 2 ex_space 6 (0%nat, []) = false
  /\ choice_okb 2 ex_space 6 (2%nat, [(0%nat, 1%nat, true)]) = false
  /\ choice_okb 2 ex_space 6 (0%nat, [(2%nat, 1%nat, true)]) = false.
Proof. vm_compute. repeat split; reflexivity. Qed.

(* the correspondence functions accept a true observation and reject a wrong one *)
Open Scope float_scope.
Example C16_ex_check_case :
  check_case (SB false 2 [[0; 0x1p-1; 1]; [0; 1; 2; 3]] [[1; 3]; [0x1.4p-1; 2]; [0; 0]; [0x1p-1; 1]; [1; 0]]
                [5; 1; 7; 1; 5] [3; 1; 0; 4; 2]%nat [[0x1p-1; 1]; [0x1.4p-1; 2]] [[0x1p-1; 1]; [0x1p-1; 2]]
                [[0; 0]; [1; 1]] [3; infinity] [[0; 0]; [1; 1]] [3; infinity] [[0; 0]; [1; 1]] [3; infinity]) = true
  /\ (* fit handed the history without its last row *)
  check_case (SB false 2 [[0; 0x1p-1; 1]; [0; 1; 2; 3]] [[1; 3]; [0x1.4p-1; 2]; [0; 0]; [0x1p-1; 1]; [1; 0]]
                [5; 1; 7; 1; 5] [3; 1; 0; 4; 2]%nat [[0x1p-1; 1]; [0x1.4p-1; 2]] [[0x1p-1; 1]; [0x1p-1; 2]]
                [[0; 0]; [1; 1]] [3; infinity] [[0; 0]] [3] [[0; 0]; [1; 1]] [3; infinity]) = false
  /\ (* a loss of the caller's array overwritten *)
  check_case (SB false 2 [[0; 0x1p-1; 1]; [0; 1; 2; 3]] [[1; 3]; [0x1.4p-1; 2]; [0; 0]; [0x1p-1; 1]; [1; 0]]
                [5; 1; 7; 1; 5] [3; 1; 0; 4; 2]%nat [[0x1p-1; 1]; [0x1.4p-1; 2]] [[0x1p-1; 1]; [0x1p-1; 2]]
                [[0; 0]; [1; 1]] [3; infinity] [[0; 0]; [1; 1]] [3; infinity] [[0; 0]; [1; 1]] [3; 0x1.fffffep+127]) = false
  /\ (* the two LARGEST predictions *)
  check_case (SB false 2 [[0; 0x1p-1; 1]; [0; 1; 2; 3]] [[1; 3]; [0x1.4p-1; 2]; [0; 0]; [0x1p-1; 1]; [1; 0]]
                [5; 1; 7; 1; 5] [2; 4; 0; 3; 1]%nat [[0; 0]; [1; 0]] [[0; 0]; [1; 0]]
                [[0; 0]; [1; 1]] [3; infinity] [[0; 0]; [1; 1]] [3; infinity] [[0; 0]; [1; 1]] [3; infinity]) = false
  /\ (* the right rows, not snapped *)
  check_case (SB false 2 [[0; 0x1p-1; 1]; [0; 1; 2; 3]] [[1; 3]; [0x1.4p-1; 2]; [0; 0]; [0x1p-1; 1]; [1; 0]]
                [5; 1; 7; 1; 5] [3; 1; 0; 4; 2]%nat [[0x1p-1; 1]; [0x1.4p-1; 2]] [[0x1p-1; 1]; [0x1.4p-1; 2]]
                [[0; 0]; [1; 1]] [3; infinity] [[0; 0]; [1; 1]] [3; infinity] [[0; 0]; [1; 1]] [3; infinity]) = false
  /\ check_case (CLIP [1; infinity; 0x1p+130; neg_infinity] 0x1.fffffep+127 (-0x1.fffffep+127)
                      [1; 0x1.fffffep+127; 0x1.fffffep+127; -0x1.fffffep+127] [1; infinity; 0x1p+130; neg_infinity]) = true
  /\ (* the in-place behaviour *)
  check_case (CLIP [1; 0x1p+130] 0x1.fffffep+127 (-0x1.fffffep+127) [1; 0x1.fffffep+127] [1; 0x1.fffffep+127]) = false.
Proof. vm_compute. repeat split; reflexivity. Qed.
Example C16_ex_check_bcase :
  check_bcase (BB true 2 6 [0; 0] [1; 3] [0x1p-2; 0x1p-1] [[0; 0x1p-2; 0x1p-1; 0x1.8p-1; 1]; [0; 0x1p-1; 1; 0x1.8p+0; 2; 0x1.4p+1; 3]]
                 [[0x1p-1; 1]; [1; 3]; [0; 0]; [0x1p-2; 2]] [7; 2; infinity; 1] [3; 1; 0; 2]%nat
                 [(1%nat, [(0%nat, 2%nat, true); (1%nat, 1%nat, false)]); (0%nat, [(1%nat, 5%nat, false)])]
                 false [[1; 0x1.4p+1]; [0x1p-2; 0]] [[1; 0x1.4p+1]; [0x1p-2; 0]] [[0x1p-1; 1]; [1; 3]; [0; 0]; [0x1p-2; 2]] [7; 2; infinity; 1]) = true
  /\ (* the history sorted in place *)
  check_bcase (BB true 2 6 [0; 0] [1; 3] [0x1p-2; 0x1p-1] [[0; 0x1p-2; 0x1p-1; 0x1.8p-1; 1]; [0; 0x1p-1; 1; 0x1.8p+0; 2; 0x1.4p+1; 3]]
                 [[0x1p-1; 1]; [1; 3]; [0; 0]; [0x1p-2; 2]] [7; 2; infinity; 1] [3; 1; 0; 2]%nat
                 [(1%nat, [(0%nat, 2%nat, true); (1%nat, 1%nat, false)]); (0%nat, [(1%nat, 5%nat, false)])]
                 false [[1; 0x1.4p+1]; [0x1p-2; 0]] [[1; 0x1.4p+1]; [0x1p-2; 0]]
                 [[0x1p-2; 2]; [1; 3]; [0x1p-1; 1]; [0; 0]] [1; 2; 7; infinity]) = false
  /\ (* parent taken among the WORST points *)
  check_bcase (BB true 2 6 [0; 0] [1; 3] [0x1p-2; 0x1p-1] [[0; 0x1p-2; 0x1p-1; 0x1.8p-1; 1]; [0; 0x1p-1; 1; 0x1.8p+0; 2; 0x1.4p+1; 3]]
                 [[0x1p-1; 1]; [1; 3]; [0; 0]; [0x1p-2; 2]] [7; 2; infinity; 1] [2; 0; 1; 3]%nat
                 [(1%nat, [(0%nat, 2%nat, true)]); (0%nat, [(1%nat, 5%nat, false)])]
                 false [[1; 1]; [0; 0]] [[1; 1]; [0; 0]] [[0x1p-1; 1]; [1; 3]; [0; 0]; [0x1p-2; 2]] [7; 2; infinity; 1]) = false
  /\ (* a shock of perturbation_range steps *)
  check_bcase (BB true 2 6 [0; 0] [1; 3] [0x1p-2; 0x1p-1] [[0; 0x1p-2; 0x1p-1; 0x1.8p-1; 1]; [0; 0x1p-1; 1; 0x1.8p+0; 2; 0x1.4p+1; 3]]
                 [[0x1p-1; 1]; [1; 3]; [0; 0]; [0x1p-2; 2]] [7; 2; infinity; 1] [3; 1; 0; 2]%nat
                 [(1%nat, [(1%nat, 6%nat, false)]); (0%nat, [(1%nat, 5%nat, false)])]
                 false [[1; 0]; [0x1p-2; 0]] [[1; 0]; [0x1p-2; 0]] [[0x1p-1; 1]; [1; 3]; [0; 0]; [0x1p-2; 2]] [7; 2; infinity; 1]) = false
  /\ (* too short a history must raise *)
  check_bcase (BB true 3 6 [0; 0] [1; 3] [0x1p-2; 0x1p-1] [[0; 1]; [0; 3]] [[0; 0]; [1; 3]] [1; 2] [] [] true [] [] [[0; 0]; [1; 3]] [1; 2]) = true
  /\ check_bcase (BB true 3 6 [0; 0] [1; 3] [0x1p-2; 0x1p-1] [[0; 1]; [0; 3]] [[0; 0]; [1; 3]] [1; 2] [] [] false [] [] [[0; 0]; [1; 3]] [1; 2]) = false.
Proof. vm_compute. repeat split; reflexivity. Qed.
