(* C08 — the loss interface is pure, weight-linear and coordinate-symmetric.
   Property theorems only; each is closed by `exact` of a lemma proved in Proofs/LossBaseP.v.
   `l1` (the single-coordinate loss compute_loss_1d) is universally quantified in every base-class theorem:
   "arbitrary user-defined single-coordinate loss" is literally the quantifier.  Values are rationals, equality of
   values is Qeq (==); D (number of coordinates), E (ensemble size) and series lengths are unbounded. *)
From Coq Require Import List QArith Qabs Permutation.
From BlackIt Require Import Model.LossBase Proofs.LossBaseP.
Import ListNotations.
Open Scope Q_scope.

(* ---------------- base class: the value is the weighted sum of the single-coordinate values ---------------- *)

(* on coordinate records (w_i, f_i, sim_i, real_i): run = the real compute_loss called on the arrays they stand for *)
Theorem C08_loss_weighted_sum : forall (l1 : ensemble -> series -> Q) E cs, uniform E cs ->
  exists v, run l1 E cs = Ok v /\ v == qsum (map (fun c => cw_ c * single l1 c) cs).
Proof. exact loss_weighted_sum. Qed.
Print Assumptions C08_loss_weighted_sum.

(* ... and `single` is what a single-coordinate evaluation of the same loss object returns *)
Theorem C08_single_evaluation : forall (l1 : ensemble -> series -> Q) E c, length (csim c) = E ->
  req (single_eval l1 E c) (Ok (single l1 c)).
Proof. exact single_eval_value. Qed.
Print Assumptions C08_single_evaluation.

Theorem C08_loss_weighted_sum_of_evaluations : forall (l1 : ensemble -> series -> Q) E cs, uniform E cs ->
  exists v vs, run l1 E cs = Ok v /\ Forall2 (fun c x => single_eval l1 E c = Ok x) cs vs /\
               v == qsum (zipw Qmult (map cw_ cs) vs).
Proof. exact loss_weighted_sum_of_evaluations. Qed.
Print Assumptions C08_loss_weighted_sum_of_evaluations.

(* on arbitrary inputs (weights / filters given or None), whenever the call returns *)
Theorem C08_loss_weighted_sum_general : forall (l1 : ensemble -> series -> Q) cw cf sim real v,
  compute_loss l1 cw cf sim real = Ok v ->
  v == qsum (map (fun i => nth i (weights_of cw (length real)) 0 *
                           l1 (apply_filter (nth i (filters_of cf (length real)) None) (column i sim)) (nth i real []))
                 (seq 0 (length real))).
Proof. exact loss_weighted_sum_general. Qed.
Print Assumptions C08_loss_weighted_sum_general.

(* coordinate_weights=None is the plain average (weights 1/D) *)
Theorem C08_default_weights_mean : forall (l1 : ensemble -> series -> Q) E cs, uniform E cs ->
  exists v, run_default l1 E cs = Ok v /\ v == qsum (map (single l1) cs) / inject_Z (Z.of_nat (length cs)).
Proof. exact default_weights_mean. Qed.
Print Assumptions C08_default_weights_mean.

Theorem C08_loss_linear_in_weights : forall (l1 : ensemble -> series -> Q) E cs ws ws' a b, uniform E cs ->
  length ws = length cs -> length ws' = length cs ->
  exists v v1 v2,
    run l1 E (set_weights (zipw (fun x y => a * x + b * y) ws ws') cs) = Ok v /\
    run l1 E (set_weights ws cs) = Ok v1 /\ run l1 E (set_weights ws' cs) = Ok v2 /\
    v == a * v1 + b * v2.
Proof. exact loss_linear_in_weights. Qed.
Print Assumptions C08_loss_linear_in_weights.

Theorem C08_zero_weight_removes_coordinate : forall (l1 : ensemble -> series -> Q) E cs1 c cs2,
  uniform E (cs1 ++ c :: cs2) -> cw_ c == 0 ->
  req (run l1 E (cs1 ++ c :: cs2)) (run l1 E (cs1 ++ cs2)).
Proof. exact zero_weight_removes_coordinate. Qed.
Print Assumptions C08_zero_weight_removes_coordinate.

(* permuting coordinates together with their weights and filters changes nothing *)
Theorem C08_coord_perm_invariant : forall (l1 : ensemble -> series -> Q) E cs cs', uniform E cs ->
  Permutation cs cs' -> req (run l1 E cs) (run l1 E cs').
Proof. exact coord_perm_invariant. Qed.
Print Assumptions C08_coord_perm_invariant.

(* ---------------- wrong lengths ---------------- *)

(* exactly when, and with which of the two messages (the weight check comes first) *)
Theorem C08_wrong_length_rejected : forall (l1 : ensemble -> series -> Q) cw cf sim real e,
  compute_loss l1 cw cf sim real = Raise e <->
  (exists w, cw = Some w /\ length w <> length real /\ e = ValueError (WeightsLen (length w) (length real)))
  \/ ((cw = None \/ exists w, cw = Some w /\ length w = length real) /\
      exists fs, cf = Some fs /\ length fs <> length real /\ e = ValueError (FiltersLen (length fs) (length real))).
Proof. exact wrong_length_rejected. Qed.
Print Assumptions C08_wrong_length_rejected.

Theorem C08_rejected_iff : forall (l1 : ensemble -> series -> Q) cw cf sim real,
  (exists e, compute_loss l1 cw cf sim real = Raise e) <->
  (exists w, cw = Some w /\ length w <> length real) \/ (exists fs, cf = Some fs /\ length fs <> length real).
Proof. exact rejected_iff. Qed.
Print Assumptions C08_rejected_iff.

Theorem C08_weights_checked_first : forall (l1 : ensemble -> series -> Q) w fs sim real, length w <> length real ->
  compute_loss l1 (Some w) (Some fs) sim real = Raise (ValueError (WeightsLen (length w) (length real))).
Proof. exact weights_checked_first. Qed.
Print Assumptions C08_weights_checked_first.

(* nothing is evaluated before both checks have passed *)
Theorem C08_no_call_before_checks : forall (l1 : ensemble -> series -> Q) cw cf sim real e,
  compute_loss l1 cw cf sim real = Raise e -> l1_args cw cf sim real = [].
Proof. exact l1_args_raise. Qed.
Print Assumptions C08_no_call_before_checks.

(* ---------------- filters are applied to the simulated series only ---------------- *)

(* compute_loss uses compute_loss_1d only at the argument pairs l1_args ... *)
Theorem C08_depends_on_l1_only_at_args : forall (l1 l1' : ensemble -> series -> Q) cw cf sim real,
  (forall a, In a (l1_args cw cf sim real) -> l1 (fst a) (snd a) = l1' (fst a) (snd a)) ->
  compute_loss l1 cw cf sim real = compute_loss l1' cw cf sim real.
Proof. exact depends_on_l1_only_at_args. Qed.
Print Assumptions C08_depends_on_l1_only_at_args.

(* ... whose second components are the real columns verbatim, whatever the filters ... *)
Theorem C08_real_untouched : forall (l1 : ensemble -> series -> Q) cw cf sim real v,
  compute_loss l1 cw cf sim real = Ok v -> map snd (l1_args cw cf sim real) = real.
Proof. exact real_untouched. Qed.
Print Assumptions C08_real_untouched.

(* ... and whose first components are filter_i mapped over the members of sim[:, :, i] *)
Theorem C08_sim_filtered_memberwise : forall (l1 : ensemble -> series -> Q) cw cf sim real v,
  compute_loss l1 cw cf sim real = Ok v ->
  map fst (l1_args cw cf sim real) =
  map (fun i => apply_filter (nth i (filters_of cf (length real)) None) (column i sim)) (seq 0 (length real)).
Proof. exact sim_filtered_memberwise. Qed.
Print Assumptions C08_sim_filtered_memberwise.

(* a 1-d loss that ignores the simulated data makes the loss independent of the filters *)
Theorem C08_filters_touch_sim_only : forall (l1 : ensemble -> series -> Q) cw fs fs' sim real,
  (forall e e' r, l1 e r = l1 e' r) -> length fs = length fs' ->
  compute_loss l1 cw (Some fs) sim real = compute_loss l1 cw (Some fs') sim real.
Proof. exact filters_touch_sim_only. Qed.
Print Assumptions C08_filters_touch_sim_only.

(* ---------------- lifting single-coordinate facts through the base class ---------------- *)

Theorem C08_nonneg_lift : forall (l1 : ensemble -> series -> Q) cw cf sim real v,
  (forall e r, 0 <= l1 e r) -> (forall w, cw = Some w -> Forall (fun x => 0 <= x) w) ->
  compute_loss l1 cw cf sim real = Ok v -> 0 <= v.
Proof. exact nonneg_lift. Qed.
Print Assumptions C08_nonneg_lift.

Theorem C08_ensemble_perm_lift : forall (l1 : ensemble -> series -> Q) cw cf sim sim' real,
  (forall ens ens' r, Permutation ens ens' -> l1 ens r == l1 ens' r) -> Permutation sim sim' ->
  req (compute_loss l1 cw cf sim real) (compute_loss l1 cw cf sim' real).
Proof. exact ensemble_perm_lift. Qed.
Print Assumptions C08_ensemble_perm_lift.

Theorem C08_zero_when_equal_lift : forall (l1 : ensemble -> series -> Q) cw sim real v,
  (forall ens r, ens <> [] -> Forall (fun s => s = r) ens -> l1 ens r == 0) ->
  sim <> [] -> Forall (fun member => member = real) sim ->
  compute_loss l1 cw None sim real = Ok v -> v == 0.
Proof. exact zero_when_equal_full. Qed.
Print Assumptions C08_zero_when_equal_lift.

(* ---------------- ensemble means ---------------- *)

Theorem C08_mean_perm : forall l l', Permutation l l' -> mean l == mean l'.
Proof. exact mean_perm. Qed.
Print Assumptions C08_mean_perm.

(* any loss of the form g(mean_e h(sim_e), real) — Minkowski, method of moments, Fourier *)
Theorem C08_ensemble_mean_perm_invariant : forall K h (g : list Q -> series -> Q) ens ens' real,
  (forall u u' r, Forall2 Qeq u u' -> g u r == g u' r) ->
  Permutation ens ens' -> mean_form K h g ens real == mean_form K h g ens' real.
Proof. exact ensemble_mean_perm_invariant. Qed.
Print Assumptions C08_ensemble_mean_perm_invariant.

(* any loss of the form (sum_e h(sim_e, real)) / E — GSL-div *)
Theorem C08_ensemble_sum_perm_invariant : forall h ens ens' real,
  Permutation ens ens' -> sum_form h ens real == sum_form h ens' real.
Proof. exact ensemble_sum_perm_invariant. Qed.
Print Assumptions C08_ensemble_sum_perm_invariant.

(* ---------------- Minkowski p = 1, and p = 2 on the squared value ---------------- *)

Theorem C08_ensemble_perm_invariant_minkowski_p1 : forall ens ens' real,
  Permutation ens ens' -> mink_p1 ens real == mink_p1 ens' real.
Proof. exact mink_p1_perm. Qed.
Print Assumptions C08_ensemble_perm_invariant_minkowski_p1.

Theorem C08_nonneg_minkowski_p1 : forall ens real, 0 <= mink_p1 ens real.
Proof. exact mink_p1_nonneg. Qed.
Print Assumptions C08_nonneg_minkowski_p1.

Theorem C08_zero_when_equal_minkowski_p1 : forall ens real, ens <> [] ->
  Forall (fun s => Forall2 Qeq s real) ens -> mink_p1 ens real == 0.
Proof. exact mink_p1_zero_when_equal. Qed.
Print Assumptions C08_zero_when_equal_minkowski_p1.

Theorem C08_ensemble_perm_invariant_minkowski_p2sq : forall ens ens' real,
  Permutation ens ens' -> mink_p2sq ens real == mink_p2sq ens' real.
Proof. exact mink_p2sq_perm. Qed.
Print Assumptions C08_ensemble_perm_invariant_minkowski_p2sq.

Theorem C08_nonneg_minkowski_p2sq : forall ens real, 0 <= mink_p2sq ens real.
Proof. exact mink_p2sq_nonneg. Qed.
Print Assumptions C08_nonneg_minkowski_p2sq.

Theorem C08_zero_when_equal_minkowski_p2sq : forall ens real, ens <> [] ->
  Forall (fun s => Forall2 Qeq s real) ens -> mink_p2sq ens real == 0.
Proof. exact mink_p2sq_zero_when_equal. Qed.
Print Assumptions C08_zero_when_equal_minkowski_p2sq.

(* ---------------- method of moments, identity weighting, any moment calculator m ---------------- *)

Theorem C08_ensemble_perm_invariant_msm_id : forall (m : series -> list Q) ens ens' real,
  Permutation ens ens' -> msm_id m ens real == msm_id m ens' real.
Proof. exact msm_id_perm. Qed.
Print Assumptions C08_ensemble_perm_invariant_msm_id.

Theorem C08_nonneg_msm_id : forall (m : series -> list Q) ens real, 0 <= msm_id m ens real.
Proof. exact msm_id_nonneg. Qed.
Print Assumptions C08_nonneg_msm_id.

Theorem C08_zero_when_equal_msm_id : forall (m : series -> list Q) ens real, ens <> [] ->
  Forall (fun s => Forall2 Qeq (m s) (m real)) ens -> msm_id m ens real == 0.
Proof. exact msm_id_zero_when_equal. Qed.
Print Assumptions C08_zero_when_equal_msm_id.

(* on given moment vectors: squared distance of the real moments from the ensemble-mean moments *)
Theorem C08_msm_id_moments : forall ms r,
  0 <= msm_id_moms (length r) ms r /\
  (ms <> [] -> Forall (fun m => Forall2 Qeq m r) ms -> msm_id_moms (length r) ms r == 0) /\
  (forall ms', Permutation ms ms' -> msm_id_moms (length r) ms r == msm_id_moms (length r) ms' r).
Proof.
  exact (fun ms r => conj (msm_id_moms_nonneg (length r) ms r)
                          (conj (msm_id_moms_zero ms r) (fun ms' => msm_id_moms_perm (length r) ms ms' r))).
Qed.
Print Assumptions C08_msm_id_moments.

(* ---------------- method of moments, inverse-variance weighting ---------------- *)

Theorem C08_ensemble_perm_invariant_msm_iv : forall (m : series -> list Q) ens ens' real,
  Permutation ens ens' -> msm_iv m ens real == msm_iv m ens' real.
Proof. exact msm_iv_perm. Qed.
Print Assumptions C08_ensemble_perm_invariant_msm_iv.

Theorem C08_nonneg_msm_iv : forall (m : series -> list Q) ens real,
  Forall (fun v => 0 < v) (vmean (length (m real)) (map (fun sm => map sqr (zipw Qminus (m real) sm)) (map m ens))) ->
  0 <= msm_iv m ens real.
Proof. exact msm_iv_nonneg. Qed.
Print Assumptions C08_nonneg_msm_iv.

(* ---------------- the same facts for the full multi-coordinate loss (base class + built-in 1-d spec) ---------------- *)

Theorem C08_minkowski_p1_full : forall cw cf sim real v, compute_loss mink_p1 cw cf sim real = Ok v ->
  ((forall w, cw = Some w -> Forall (fun x => 0 <= x) w) -> 0 <= v) /\
  (cf = None -> sim <> [] -> Forall (fun member => member = real) sim -> v == 0) /\
  (forall sim', Permutation sim sim' -> req (Ok v) (compute_loss mink_p1 cw cf sim' real)).
Proof.
  exact (fun cw cf sim real v H =>
    conj (fun Hw => minkowski_p1_full_nonneg cw cf sim real v Hw H)
   (conj (fun Hcf Hne Hall => minkowski_p1_full_zero cw sim real v Hne Hall (eq_ind cf (fun c => compute_loss mink_p1 cw c sim real = Ok v) H None Hcf))
         (fun sim' HP => eq_ind (compute_loss mink_p1 cw cf sim real) (fun r => req r (compute_loss mink_p1 cw cf sim' real))
                                (minkowski_p1_full_ensemble_perm cw cf sim sim' real HP) (Ok v) H))).
Qed.
Print Assumptions C08_minkowski_p1_full.

Theorem C08_minkowski_p2sq_full : forall cw cf sim real v, compute_loss mink_p2sq cw cf sim real = Ok v ->
  ((forall w, cw = Some w -> Forall (fun x => 0 <= x) w) -> 0 <= v) /\
  (cf = None -> sim <> [] -> Forall (fun member => member = real) sim -> v == 0) /\
  (forall sim', Permutation sim sim' -> req (Ok v) (compute_loss mink_p2sq cw cf sim' real)).
Proof.
  exact (fun cw cf sim real v H =>
    conj (fun Hw => minkowski_p2sq_full_nonneg cw cf sim real v Hw H)
   (conj (fun Hcf Hne Hall => minkowski_p2sq_full_zero cw sim real v Hne Hall (eq_ind cf (fun c => compute_loss mink_p2sq cw c sim real = Ok v) H None Hcf))
         (fun sim' HP => eq_ind (compute_loss mink_p2sq cw cf sim real) (fun r => req r (compute_loss mink_p2sq cw cf sim' real))
                                (minkowski_p2sq_full_ensemble_perm cw cf sim sim' real HP) (Ok v) H))).
Qed.
Print Assumptions C08_minkowski_p2sq_full.

Theorem C08_msm_id_full : forall (m : series -> list Q) cw cf sim real v, compute_loss (msm_id m) cw cf sim real = Ok v ->
  ((forall w, cw = Some w -> Forall (fun x => 0 <= x) w) -> 0 <= v) /\
  (cf = None -> sim <> [] -> Forall (fun member => member = real) sim -> v == 0) /\
  (forall sim', Permutation sim sim' -> req (Ok v) (compute_loss (msm_id m) cw cf sim' real)).
Proof.
  exact (fun m cw cf sim real v H =>
    conj (fun Hw => msm_id_full_nonneg m cw cf sim real v Hw H)
   (conj (fun Hcf Hne Hall => msm_id_full_zero m cw sim real v Hne Hall (eq_ind cf (fun c => compute_loss (msm_id m) cw c sim real = Ok v) H None Hcf))
         (fun sim' HP => eq_ind (compute_loss (msm_id m) cw cf sim real) (fun r => req r (compute_loss (msm_id m) cw cf sim' real))
                                (msm_id_full_ensemble_perm m cw cf sim sim' real HP) (Ok v) H))).
Qed.
Print Assumptions C08_msm_id_full.

Theorem C08_msm_iv_full_ensemble_perm : forall (m : series -> list Q) cw cf sim sim' real, Permutation sim sim' ->
  req (compute_loss (msm_iv m) cw cf sim real) (compute_loss (msm_iv m) cw cf sim' real).
Proof. exact msm_iv_full_ensemble_perm. Qed.
Print Assumptions C08_msm_iv_full_ensemble_perm.

Theorem C08_sum_form_full_ensemble_perm : forall h cw cf sim sim' real, Permutation sim sim' ->
  req (compute_loss (sum_form h) cw cf sim real) (compute_loss (sum_form h) cw cf sim' real).
Proof. exact sum_form_full_ensemble_perm. Qed.
Print Assumptions C08_sum_form_full_ensemble_perm.

(* ---------------- non-vacuity ---------------- *)

(* two coordinates, ensemble of 2, one filter: the hypotheses `uniform` and `run = Ok` are met, the value is not trivial *)
Example C08_nonvacuous_run :
  let c1 := {| cw_ := 1 # 2; cf_ := None; csim := [[1; 2; 3]; [0; 1; 0]]; creal := [1; 1; 2] |} in
  let c2 := {| cw_ := 3; cf_ := Some (interp FReverse); csim := [[2; 0; 1]; [1; 1; 1]]; creal := [0; 2; 2] |} in
  uniform 2 [c1; c2] /\ (exists v, run token_l1 2 [c1; c2] = Ok v /\ ~ v == 0) /\
  ~ single token_l1 c1 == single token_l1 c2 /\
  req (run token_l1 2 [c1; c2]) (run token_l1 2 [c2; c1]) /\
  run token_l1 2 [c1; c2] = compute_loss token_l1 (Some [1 # 2; 3]) (Some [None; Some (interp FReverse)])
                             [[[1; 2; 3]; [2; 0; 1]]; [[0; 1; 0]; [1; 1; 1]]] [[1; 1; 2]; [0; 2; 2]].
Proof.
  split; [repeat constructor|].
  split; [eexists; split; [vm_compute; reflexivity | vm_compute; discriminate]|].
  split; [vm_compute; discriminate|].
  split; vm_compute; reflexivity.
Qed.

(* both lists wrong: the weights' message; only the filters wrong: the filters' message *)
Example C08_nonvacuous_reject :
  compute_loss token_l1 (Some [1]) (Some [None]) [[[1]; [2]]] [[1]; [2]] = Raise (ValueError (WeightsLen 1 2)) /\
  compute_loss token_l1 None (Some [None]) [[[1]; [2]]] [[1]; [2]] = Raise (ValueError (FiltersLen 1 2)) /\
  exists v, compute_loss token_l1 None None [[[1]; [2]]] [[1]; [2]] = Ok v.
Proof.
  split; [vm_compute; reflexivity|]. split; [vm_compute; reflexivity|]. eexists; vm_compute; reflexivity.
Qed.

(* the zero-when-equal and permutation hypotheses are satisfiable with a non-trivial ensemble; and the specs separate *)
Example C08_nonvacuous_specs :
  mink_p1 [[1; 2]; [1; 2]] [1; 2] == 0 /\ ~ mink_p1 [[1; 2]; [3; 2]] [1; 2] == 0 /\
  mink_p2sq [[1; 2]; [3; 2]] [1; 2] == 1 /\
  msm_id token_moments [[1; 2; 3]; [1; 2; 3]] [1; 2; 3] == 0 /\ ~ msm_id token_moments [[1; 2; 3]; [3; 2; 2]] [1; 2; 3] == 0 /\
  Forall (fun v => 0 < v) (vmean 4 (map (fun sm => map sqr (zipw Qminus (token_moments [1; 2; 3]) sm))
                                        (map token_moments [[0; 2; 5]; [3; 1; 2]]))).
Proof.
  split; [vm_compute; reflexivity|]. split; [vm_compute; discriminate|]. split; [vm_compute; reflexivity|].
  split; [vm_compute; reflexivity|]. split; [vm_compute; discriminate|].
  vm_compute. repeat constructor.
Qed.
