(* C14 — early stopping happens exactly when the best loss rounds to zero.  Property theorems only. *)
From Coq Require Import List ZArith Bool Arith.
From BlackIt Require Import Model.Calibrator Proofs.CalibratorP Proofs.CalibStopP Proofs.CalibFlagsP.
Import ListNotations.

(* The batch loop of calibrate(n): either all n batches run and the test (smallest loss so far rounds to zero at p) was
   false after each; or it stops after batch k+1 <= n, the test being false after each of the first k and true after
   batch k+1 — "immediately after the first batch at which ..., and not before". *)
Theorem C14_stops_at_first_zero :
  forall Param Series LossV model lossf loss_leb rounds0 propose draws agent_actions plan n s s' o,
  batches Param Series LossV model lossf loss_leb rounds0 propose draws agent_actions plan n s = (s', o) ->
    match o with
    | Done => batch_idx _ _ _ (live _ _ _ s') = batch_idx _ _ _ (live _ _ _ s) + n /\
              (0 < n -> conv_test _ _ _ loss_leb rounds0 (live _ _ _ s') = Some false)
    | Converged => exists k s1, k < n /\
              steps Param Series LossV model lossf loss_leb rounds0 propose draws agent_actions plan k s s1 /\
              (0 < k -> conv_test _ _ _ loss_leb rounds0 (live _ _ _ s1) = Some false) /\
              batch_idx _ _ _ (live _ _ _ s') = batch_idx _ _ _ (live _ _ _ s) + S k /\
              conv_test _ _ _ loss_leb rounds0 (live _ _ _ s') = Some true
    | Raised _ => True
    end.
Proof. exact stops_at_first_zero. Qed.
Print Assumptions C14_stops_at_first_zero.

Theorem C14_every_step_not_converged :
  forall Param Series LossV model lossf loss_leb rounds0 propose draws agent_actions plan k s s',
  steps Param Series LossV model lossf loss_leb rounds0 propose draws agent_actions plan k s s' ->
    batch_idx _ _ _ (live _ _ _ s') = batch_idx _ _ _ (live _ _ _ s) + k /\
    (0 < k -> conv_test _ _ _ loss_leb rounds0 (live _ _ _ s') = Some false).
Proof. exact steps_facts. Qed.
Print Assumptions C14_every_step_not_converged.

Theorem C14_no_prec_runs_all :
  forall Param Series LossV model lossf loss_leb rounds0 propose draws agent_actions plan n s s',
  c_prec (cfg _ _ _ (live _ _ _ s)) = None ->
  batches Param Series LossV model lossf loss_leb rounds0 propose draws agent_actions plan n s <> (s', Converged).
Proof. exact no_prec_runs_all. Qed.
Print Assumptions C14_no_prec_runs_all.

(* The stop does not depend on verbosity (nor on the folder): same live state, same outcome, same returned pairs. *)
Theorem C14_stop_independent_of_verbose :
  forall Param Series LossV model lossf loss_leb rounds0 propose draws agent_actions plan v sv n c d d' s1 e r,
  is_rr _ _ _ c ->
  calibrate Param Series LossV model lossf loss_leb rounds0 propose draws agent_actions plan n (mkSt _ _ _ c d) = (s1, e, r) ->
  exists d1', calibrate Param Series LossV model lossf loss_leb rounds0 propose draws agent_actions plan n
                (mkSt _ _ _ (reflag _ _ _ v sv c) d') = (mkSt _ _ _ (reflag _ _ _ v sv (live _ _ _ s1)) d1', e, r).
Proof. exact calibrate_noninterference. Qed.
Print Assumptions C14_stop_independent_of_verbose.

(* The triggering batch (like every completed batch) is in the checkpoint. *)
Theorem C14_trigger_batch_in_checkpoint :
  forall Param Series LossV model lossf loss_leb rounds0 propose draws agent_actions plan s s' o l b,
  one_batch Param Series LossV model lossf loss_leb rounds0 propose draws agent_actions plan s = (s', o) ->
  (o = Done \/ o = Converged) -> c_saving (cfg _ _ _ (live _ _ _ s)) = true -> sch _ _ _ (live _ _ _ s) = RR LossV l b ->
  disk _ _ _ s' = Some (live _ _ _ s').
Proof. exact trigger_batch_in_checkpoint. Qed.
Print Assumptions C14_trigger_batch_in_checkpoint.

(* ---- round 4: convergence_precision / verbose / saving_folder reassigned after construction (Model/CalibX.v, XSetCfg) ----
   The reassignment changes the three attributes and nothing else ... *)
From BlackIt Require Import Model.CalibX Proofs.CalibXP.
Theorem C14_reassignment_changes_only_the_attributes :
  forall Param Series LossV model lossf loss_leb rounds0 propose draws agent_actions plan s p v sv s1 e r,
  xstep Param Series LossV model lossf loss_leb rounds0 propose draws agent_actions plan s (XSetCfg p v sv) = (s1, e, r) ->
    e = None /\ r = [] /\ disk _ _ _ s1 = disk _ _ _ s /\
    records _ _ _ (live _ _ _ s1) = records _ _ _ (live _ _ _ s) /\
    sch _ _ _ (live _ _ _ s1) = sch _ _ _ (live _ _ _ s) /\ tbl _ _ _ (live _ _ _ s1) = tbl _ _ _ (live _ _ _ s) /\
    rng_pos _ _ _ (live _ _ _ s1) = rng_pos _ _ _ (live _ _ _ s) /\
    cfg _ _ _ (live _ _ _ s1) = mkCfg (c_E (cfg _ _ _ (live _ _ _ s))) p v sv.
Proof. intros. eapply xsetcfg_frame; eauto. Qed.
Print Assumptions C14_reassignment_changes_only_the_attributes.

(* ... and the assigned precision is the one the convergence test reads after EVERY later batch (the batch loop never writes
   the configuration): C14_stops_at_first_zero, universal in the start state, then speaks about the assigned precision. *)
Theorem C14_reassigned_precision_in_force :
  forall Param Series LossV model lossf loss_leb rounds0 propose draws agent_actions plan s p v sv s1 e r n s' o,
  xstep Param Series LossV model lossf loss_leb rounds0 propose draws agent_actions plan s (XSetCfg p v sv) = (s1, e, r) ->
  batches Param Series LossV model lossf loss_leb rounds0 propose draws agent_actions plan n s1 = (s', o) ->
    c_prec (cfg _ _ _ (live _ _ _ s')) = p /\ c_verbose (cfg _ _ _ (live _ _ _ s')) = v /\ c_saving (cfg _ _ _ (live _ _ _ s')) = sv.
Proof. intros. eapply xsetcfg_in_force_batches; eauto. Qed.
Print Assumptions C14_reassigned_precision_in_force.

Theorem C14_reassigned_configuration_survives_calibrate :
  forall Param Series LossV model lossf loss_leb rounds0 propose draws agent_actions plan s p v sv s1 e r n s' e' r',
  xstep Param Series LossV model lossf loss_leb rounds0 propose draws agent_actions plan s (XSetCfg p v sv) = (s1, e, r) ->
  calibrate Param Series LossV model lossf loss_leb rounds0 propose draws agent_actions plan n s1 = (s', e', r') ->
    cfg _ _ _ (live _ _ _ s') = mkCfg (c_E (cfg _ _ _ (live _ _ _ s))) p v sv.
Proof. intros. eapply xsetcfg_in_force; eauto. Qed.
Print Assumptions C14_reassigned_configuration_survives_calibrate.
