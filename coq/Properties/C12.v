(* C12 — de-duplication replaces only repeated points and gives up only after its passes.
   Property theorems only; each is closed by `exact` of a lemma proved in Proofs/DedupP.v. *)
From Coq Require Import List ZArith Arith.
From BlackIt Require Import Model.Dedup Proofs.DedupP.
Import ListNotations.

(* The positions flagged by find_and_get_duplicates are exactly the repeats (count >= 2 in history ++ batch),
   each flagged once: so "as many new points as there were repeats" is length (dup_positions h s). *)
Theorem C12_flagged_iff_repeat : forall h s i, In i (dup_positions h s) <-> is_repeat h s i.
Proof. exact dup_positions_spec. Qed.
Print Assumptions C12_flagged_iff_repeat.

Theorem C12_flagged_once : forall h s, NoDup (dup_positions h s).
Proof. exact dup_positions_nodup. Qed.
Print Assumptions C12_flagged_once.

(* For ANY stateful generator: the loop is a run of the declarative specification run_ok, i.e. each pass
   asks the generator for exactly |repeats| points and substitutes them at exactly the repeat positions. *)
Theorem C12_requests_exact : forall St gen bsize budget h st,
  run_ok St gen h budget (first_draw St gen bsize st) (snd (gen st bsize)) (sample St gen bsize budget h st).
Proof. exact sample_run_ok. Qed.
Print Assumptions C12_requests_exact.

(* A repeat (of the history or inside the batch) is returned only if every one of the budgeted passes
   redrew at least one point. *)
Theorem C12_repeat_only_after_budget : forall St gen bsize budget h st,
  (exists i, is_repeat h (output St (sample St gen bsize budget h st)) i) ->
  length (requests St (sample St gen bsize budget h st)) = budget /\
  Forall (fun n => 0 < n) (requests St (sample St gen bsize budget h st)).
Proof. exact sample_repeat_only_after_budget. Qed.
Print Assumptions C12_repeat_only_after_budget.

Theorem C12_clean_when_budget_left : forall St gen bsize budget h st,
  length (requests St (sample St gen bsize budget h st)) < budget ->
  forall i, ~ is_repeat h (output St (sample St gen bsize budget h st)) i.
Proof. exact sample_clean_when_budget_left. Qed.
Print Assumptions C12_clean_when_budget_left.

(* Points never flagged are never altered. *)
Theorem C12_fresh_untouched : forall St gen bsize budget h st i,
  (forall d, In d (snd (sample St gen bsize budget h st)) -> ~ In i d) ->
  nth_error (output St (sample St gen bsize budget h st)) i = nth_error (first_draw St gen bsize st) i.
Proof. exact sample_fresh_untouched. Qed.
Print Assumptions C12_fresh_untouched.

(* A flagged position receives the redraw of the same rank. *)
Theorem C12_redrawn_value : forall s d news k i v, NoDup d -> nth_error d k = Some i -> i < length s ->
  nth_error news k = Some v -> nth_error (substitute s d news) i = Some v.
Proof. exact substituted_value. Qed.
Print Assumptions C12_redrawn_value.

Theorem C12_shape_preserved : forall St gen bsize budget h st dims,
  (forall st n, length (fst (gen st n)) = n) ->
  (forall st n, Forall (fun p => length p = dims) (fst (gen st n))) ->
  length (output St (sample St gen bsize budget h st)) = bsize /\
  Forall (fun p => length p = dims) (output St (sample St gen bsize budget h st)).
Proof. exact sample_shape. Qed.
Print Assumptions C12_shape_preserved.

Theorem C12_budget0_identity : forall St gen bsize h st,
  output St (sample St gen bsize 0 h st) = first_draw St gen bsize st /\ requests St (sample St gen bsize 0 h st) = [].
Proof. exact sample_budget0. Qed.
Print Assumptions C12_budget0_identity.

(* Non-vacuity: a run whose repeat survives a budget of 2 (hypothesis of C12_repeat_only_after_budget is met),
   and a run that cleans up after one pass with budget left. *)
Example C12_nonvacuous_survivor :
  let r := sample_script 2 2 [[1%Z]] [[[1%Z]; [2%Z]]; [[1%Z]]; [[1%Z]]] in
  output _ r = [[1%Z]; [2%Z]] /\ requests _ r = [1; 1] /\ In 0 (dup_positions [[1%Z]] (output _ r)).
Proof. vm_compute. auto. Qed.
Example C12_nonvacuous_cleaned :
  let r := sample_script 2 3 [[1%Z]] [[[1%Z]; [2%Z]]; [[3%Z]]] in
  output _ r = [[3%Z]; [2%Z]] /\ requests _ r = [1] /\ dup_positions [[1%Z]] (output _ r) = [].
Proof. vm_compute. auto. Qed.

(* ---- round 4: a generator whose first batch is a VIEW of rows [a, a + bsize) of the caller's history array
   (`return existing_points[a:a + batch_size]`); Model/Dedup.v Section SampleView models what base.py:113 then does
   (the redraws are written through the view into the history).  Finding `generator-returns-view-of-history`:
   the statement of C12 is false of that situation. *)

(* For ANY generator and any budget: every pass finds the whole batch repeated and asks for bsize new points, so the
   budget is always used up; the caller's history ends up holding the returned batch (all returned points "repeat"). *)
Theorem C12_view_of_history_exhausts_budget : forall St gen bsize budget a h st, 0 < bsize -> a + bsize <= length h ->
  view_requests St (sample_view St gen bsize budget a h st) = repeat bsize budget /\
  window a bsize (view_history St (sample_view St gen bsize budget a h st)) = view_output St (sample_view St gen bsize budget a h st) /\
  length (view_history St (sample_view St gen bsize budget a h st)) = length h.
Proof. exact sample_view_exhausts. Qed.
Print Assumptions C12_view_of_history_exhausts_budget.

(* Witness: judged against the caller's history one pass is enough (requests [2], clean batch); the code asks three
   times, discards two fresh pairs, returns another batch than the specification and overwrites the history. *)
Theorem C12_view_of_history_refuted :
  exists (h : list point) (script : list (list point)),
    requests _ (sample_script 2 3 h script) = [2] /\
    dup_positions h (output _ (sample_script 2 3 h script)) = [] /\
    view_requests _ (sample_view_script 2 3 0 h script) = [2; 2; 2] /\
    view_history _ (sample_view_script 2 3 0 h script) <> h /\
    output _ (sample_script 2 3 h script) <> view_output _ (sample_view_script 2 3 0 h script).
Proof. exact view_of_history_refuted. Qed.
Print Assumptions C12_view_of_history_refuted.
