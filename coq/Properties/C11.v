(* C11.  Property theorems only. *)
From Coq Require Import List ZArith Bool.
From BlackIt Require Import Model.Calibrator Proofs.CalibratorP.
Import ListNotations.

Theorem C11_placeholder_one_batch_designated :
  forall Param Series LossV model lossf loss_leb rounds0 propose draws agent_actions plan,
  (forall s ps ls, length (propose s ps ls) = s_bsize s) ->
  forall s s' o,
  one_batch Param Series LossV model lossf loss_leb rounds0 propose draws agent_actions plan s = (s', o) ->
    (exists e, o = Raised e /\ records _ _ _ (live _ _ _ s') = records _ _ _ (live _ _ _ s) /\ disk _ _ _ s' = disk _ _ _ s /\
               cfg _ _ _ (live _ _ _ s') = cfg _ _ _ (live _ _ _ s) /\ tbl _ _ _ (live _ _ _ s') = tbl _ _ _ (live _ _ _ s) /\
               e <> ExValue) \/
    (exists i sc1 m, next_sampler LossV agent_actions (sch _ _ _ (live _ _ _ s)) = Some (i, sc1) /\
        nth_error (sched_samplers _ sc1) i = Some m /\
        appended_batch _ _ _ model lossf draws (live _ _ _ s) (live _ _ _ s') m /\
        (o = Done \/ o = Converged \/ o = Raised ExValue \/ o = Raised ExOther) /\
        (disk _ _ _ s' = disk _ _ _ s \/ disk _ _ _ s' = Some (live _ _ _ s'))).
Proof. exact one_batch_cases. Qed.
Print Assumptions C11_placeholder_one_batch_designated.
