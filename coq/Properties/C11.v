(* C11 — a failing batch leaves the calibrator consistent and reusable.  Property theorems only. *)
From Coq Require Import List ZArith Bool Arith.
From BlackIt Require Import Model.Calibrator Proofs.CalibratorP Proofs.CalibStopP Proofs.CalibFaultP.
Import ListNotations.

(* An exception injected at ANY invocation index of the model, the loss or a sampler: the records are those of the k
   batches completed before it, which the fault-free run reaches too and only extends. *)
Theorem C11_fault_history_is_prefix :
  forall Param Series LossV model lossf loss_leb rounds0 propose draws agent_actions plan,
  (forall s ps ls, length (propose s ps ls) = s_bsize s) ->
  forall E0 n s s' e, InvS Param Series LossV model lossf draws E0 s ->
    batches Param Series LossV model lossf loss_leb rounds0 propose draws agent_actions plan n s = (s', Raised e) -> injected e ->
    exists k s1, k < n /\ steps Param Series LossV model lossf loss_leb rounds0 propose draws agent_actions NoFault k s s1 /\
      records _ _ _ (live _ _ _ s') = records _ _ _ (live _ _ _ s1) /\
      batch_idx _ _ _ (live _ _ _ s1) = batch_idx _ _ _ (live _ _ _ s) + k /\
      extends _ _ _ (live _ _ _ s1)
        (live _ _ _ (fst (batches Param Series LossV model lossf loss_leb rounds0 propose draws agent_actions NoFault n s))).
Proof. exact fault_history_is_prefix. Qed.
Print Assumptions C11_fault_history_is_prefix.

(* The state after the exception is still aligned (C02's invariant holds in every reachable state, faults included). *)
Theorem C11_fault_state_aligned :
  forall Param Series LossV model lossf loss_leb rounds0 propose draws agent_actions plan,
  (forall s ps ls, length (propose s ps ls) = s_bsize s) ->
  forall E0 n s s' e r, InvS Param Series LossV model lossf draws E0 s ->
    calibrate Param Series LossV model lossf loss_leb rounds0 propose draws agent_actions plan n s = (s', e, r) ->
    InvS Param Series LossV model lossf draws E0 s' /\ extends _ _ _ (live _ _ _ s) (live _ _ _ s').
Proof. exact calibrate_inv. Qed.
Print Assumptions C11_fault_state_aligned.

(* Whatever happens inside calibrate() the session is ended: scheduler stopped, no agent thread left ... *)
Theorem C11_fault_no_thread :
  forall Param Series LossV model lossf loss_leb rounds0 propose draws agent_actions plan n s s' e r,
  idle _ (sch _ _ _ (live _ _ _ s)) ->
  calibrate Param Series LossV model lossf loss_leb rounds0 propose draws agent_actions plan n s = (s', e, r) ->
  idle _ (sch _ _ _ (live _ _ _ s')).
Proof. exact calibrate_leaves_idle. Qed.
Print Assumptions C11_fault_no_thread.

(* ... so the next calibrate() can start its session. *)
Theorem C11_fault_then_calibrate_ok : forall LossV (sc : sched LossV), idle _ sc -> exists sc', start_session _ sc = inl sc'.
Proof. exact idle_can_start. Qed.
Print Assumptions C11_fault_then_calibrate_ok.

(* A plan that does not fire is irrelevant. *)
Theorem C11_unfired_plan_irrelevant :
  forall Param Series LossV model lossf loss_leb rounds0 propose draws agent_actions plan s s' o,
  one_batch Param Series LossV model lossf loss_leb rounds0 propose draws agent_actions plan s = (s', o) -> (o = Done \/ o = Converged) ->
  one_batch Param Series LossV model lossf loss_leb rounds0 propose draws agent_actions NoFault s = (s', o).
Proof. exact one_batch_plan_irrelevant. Qed.
Print Assumptions C11_unfired_plan_irrelevant.

(* Round 4 - several failing sessions in a row.  ANY sequence of calibrate(n_i) calls, the i-th under its own fault plan (a fault
   at any invocation index of model / loss / sampler, or none): after every call the state is aligned (C02's invariant), the
   history has only grown, and the scheduler is idle (stopped, no thread) - hence the next call can start its session. *)
From BlackIt Require Import Proofs.CalibSessionsP.
Theorem C11_any_sequence_of_failing_sessions :
  forall Param Series LossV model lossf loss_leb rounds0 propose draws agent_actions,
  (forall s ps ls, length (propose s ps ls) = s_bsize s) ->
  forall E0 l s,
    InvS Param Series LossV model lossf draws E0 s -> idle LossV (sch _ _ _ (live _ _ _ s)) ->
    let s' := sessions Param Series LossV model lossf loss_leb rounds0 propose draws agent_actions l s in
    InvS Param Series LossV model lossf draws E0 s' /\ idle LossV (sch _ _ _ (live _ _ _ s')) /\
    extends _ _ _ (live _ _ _ s) (live _ _ _ s') /\
    exists sc', start_session _ (sch _ _ _ (live _ _ _ s')) = inl sc'.
Proof. exact sessions_full. Qed.
Print Assumptions C11_any_sequence_of_failing_sessions.
