(* C04 — a checkpoint restores the calibrator state exactly.  Property theorems only; each is closed by `exact` of a
   lemma of Proofs/CheckpointP.v.  The codecs (json, pickle, pandas CSV text) are universally quantified functions
   constrained only by the contracts named in the hypotheses (json_rt, pickle_s_rt, pickle_l_rt, csv_exact). *)
From Coq Require Import List ZArith Bool Arith.
From BlackIt Require Import Model.Calibrator Model.Checkpoint Model.CkptTokens Proofs.CalibratorP Proofs.CheckpointP.
Import ListNotations.

(* Repaired tree (fixes.d/C04-stale-series.patch): WHATEVER the folder held before - nothing, an earlier checkpoint of
   the same run, a checkpoint of a different run with more / fewer rows or another ensemble size, truncated files -
   saving a well-formed state with picklable scheduler and loss succeeds and restoring gives back the same state, all
   25 components (configuration, counters, records, generator state, scheduler, loss, id table, dtypes). *)
Theorem C04_restore_save_any_folder :
  forall F F_eqb Str Gen Sched Loss str_eqb JsonT PSched PLoss CsvT Dg Dg_eqb dg_s dg_l dg_c dg_h jenc jdec pick_s unpick_s
         pick_l unpick_l csv_print csv_parse fresh_gen table_of,
  json_rt F Str Gen JsonT Dg jenc jdec -> pickle_s_rt Sched PSched pick_s unpick_s -> pickle_l_rt Loss PLoss pick_l unpick_l ->
  str_eqb_refl Str str_eqb -> F_eqb_spec F F_eqb -> Dg_eqb_refl Dg Dg_eqb -> csv_exact F CsvT csv_print csv_parse ->
  forall (f : folder F JsonT PSched PLoss CsvT) (s : state F Str Gen Sched Loss),
    wf F Str Gen Sched Loss s -> picklable F Str Gen Sched Loss PSched PLoss pick_s pick_l s ->
    exists f', save F F_eqb Str Gen Sched Loss JsonT PSched PLoss CsvT Dg dg_s dg_l dg_c dg_h jenc pick_s pick_l csv_print f s = SOk F JsonT PSched PLoss CsvT f' /\
      restore F Str Gen Sched Loss str_eqb JsonT PSched PLoss CsvT Dg Dg_eqb dg_s dg_l dg_c dg_h jdec unpick_s unpick_l csv_parse fresh_gen table_of f'
              (s_model F Str Gen Sched Loss s) = Ok s.
Proof. exact restore_save_any_folder. Qed.
Print Assumptions C04_restore_save_any_folder.

Theorem C04_restore_save_exact_fresh :
  forall F F_eqb Str Gen Sched Loss str_eqb JsonT PSched PLoss CsvT Dg Dg_eqb dg_s dg_l dg_c dg_h jenc jdec pick_s unpick_s
         pick_l unpick_l csv_print csv_parse fresh_gen table_of,
  json_rt F Str Gen JsonT Dg jenc jdec -> pickle_s_rt Sched PSched pick_s unpick_s -> pickle_l_rt Loss PLoss pick_l unpick_l ->
  str_eqb_refl Str str_eqb -> F_eqb_spec F F_eqb -> Dg_eqb_refl Dg Dg_eqb -> csv_exact F CsvT csv_print csv_parse ->
  forall s : state F Str Gen Sched Loss,
    wf F Str Gen Sched Loss s -> picklable F Str Gen Sched Loss PSched PLoss pick_s pick_l s ->
    exists f', save F F_eqb Str Gen Sched Loss JsonT PSched PLoss CsvT Dg dg_s dg_l dg_c dg_h jenc pick_s pick_l csv_print
                    (empty_folder F JsonT PSched PLoss CsvT) s = SOk F JsonT PSched PLoss CsvT f' /\
      restore F Str Gen Sched Loss str_eqb JsonT PSched PLoss CsvT Dg Dg_eqb dg_s dg_l dg_c dg_h jdec unpick_s unpick_l csv_parse fresh_gen table_of f'
              (s_model F Str Gen Sched Loss s) = Ok s.
Proof. exact restore_save_exact_fresh. Qed.
Print Assumptions C04_restore_save_exact_fresh.

(* Same run: when the rows on disk are a prefix of the series being saved the repaired writer still appends in place
   (mode 2: the file is not re-created, only series[k:] is written) and the round trip is exact. *)
Theorem C04_restore_save_same_run :
  forall F F_eqb Str Gen Sched Loss str_eqb JsonT PSched PLoss CsvT Dg Dg_eqb dg_s dg_l dg_c dg_h jenc jdec pick_s unpick_s
         pick_l unpick_l csv_print csv_parse fresh_gen table_of,
  json_rt F Str Gen JsonT Dg jenc jdec -> pickle_s_rt Sched PSched pick_s unpick_s -> pickle_l_rt Loss PLoss pick_l unpick_l ->
  str_eqb_refl Str str_eqb -> F_eqb_spec F F_eqb -> Dg_eqb_refl Dg Dg_eqb -> csv_exact F CsvT csv_print csv_parse ->
  forall (f : folder F JsonT PSched PLoss CsvT) (s : state F Str Gen Sched Loss),
    wf F Str Gen Sched Loss s -> picklable F Str Gen Sched Loss PSched PLoss pick_s pick_l s ->
    same_run_folder F Str Gen Sched Loss JsonT PSched PLoss CsvT f s ->
    h5_mode F F_eqb (f_h5 F JsonT PSched PLoss CsvT f) (s_sshape F Str Gen Sched Loss s) (s_series F Str Gen Sched Loss s) = 2 /\
    exists f', save F F_eqb Str Gen Sched Loss JsonT PSched PLoss CsvT Dg dg_s dg_l dg_c dg_h jenc pick_s pick_l csv_print f s = SOk F JsonT PSched PLoss CsvT f' /\
      restore F Str Gen Sched Loss str_eqb JsonT PSched PLoss CsvT Dg Dg_eqb dg_s dg_l dg_c dg_h jdec unpick_s unpick_l csv_parse fresh_gen table_of f'
              (s_model F Str Gen Sched Loss s) = Ok s.
Proof. exact restore_save_same_run. Qed.
Print Assumptions C04_restore_save_same_run.

(* Without csv_exact: everything except the four CSV columns comes back exactly, and the columns are whatever the
   text path returns (t') for the table that was printed (t) - the CSV text path is the ONLY place where a value can
   change.  (This is how the one-ulp defect of the default pandas parser, repaired in 524225b, shows in the model.) *)
Theorem C04_restore_save_up_to_csv :
  forall F Str Gen Sched Loss str_eqb JsonT PSched PLoss CsvT Dg Dg_eqb dg_s dg_l dg_c dg_h jenc jdec pick_s unpick_s
         pick_l unpick_l csv_print csv_parse fresh_gen table_of,
  json_rt F Str Gen JsonT Dg jenc jdec -> pickle_s_rt Sched PSched pick_s unpick_s -> pickle_l_rt Loss PLoss pick_l unpick_l ->
  str_eqb_refl Str str_eqb -> Dg_eqb_refl Dg Dg_eqb ->
  forall w (f : folder F JsonT PSched PLoss CsvT) (s : state F Str Gen Sched Loss) bs bl t t',
    wf F Str Gen Sched Loss s ->
    pick_s (s_sched F Str Gen Sched Loss s) = Some bs -> pick_l (s_loss F Str Gen Sched Loss s) = Some bl ->
    w (f_h5 F JsonT PSched PLoss CsvT f) (s_sshape F Str Gen Sched Loss s) (s_series F Str Gen Sched Loss s) =
      Ok (mkH5 F (s_sshape F Str Gen Sched Loss s) (s_series F Str Gen Sched Loss s)) ->
    frame F Str Gen Sched Loss s = Some t -> csv_parse (csv_print t) = Some t' -> t_ncols F t' = t_ncols F t ->
    exists f', save_with F Str Gen Sched Loss JsonT PSched PLoss CsvT Dg dg_s dg_l dg_c dg_h jenc pick_s pick_l csv_print w f s = SOk F JsonT PSched PLoss CsvT f' /\
      restore F Str Gen Sched Loss str_eqb JsonT PSched PLoss CsvT Dg Dg_eqb dg_s dg_l dg_c dg_h jdec unpick_s unpick_l csv_parse fresh_gen table_of f'
              (s_model F Str Gen Sched Loss s) = Ok (with_table F Str Gen Sched Loss s t').
Proof. exact restore_after_save_general. Qed.
Print Assumptions C04_restore_save_up_to_csv.

(* The writer of the pinned tree (in-place append from the on-disk row count) is exact for an empty folder and for a
   folder holding an earlier checkpoint of the same run ... *)
Theorem C04_legacy_fresh_or_same_run_exact :
  forall F Str Gen Sched Loss str_eqb JsonT PSched PLoss CsvT Dg Dg_eqb dg_s dg_l dg_c dg_h jenc jdec pick_s unpick_s
         pick_l unpick_l csv_print csv_parse fresh_gen table_of,
  json_rt F Str Gen JsonT Dg jenc jdec -> pickle_s_rt Sched PSched pick_s unpick_s -> pickle_l_rt Loss PLoss pick_l unpick_l ->
  str_eqb_refl Str str_eqb -> Dg_eqb_refl Dg Dg_eqb -> csv_exact F CsvT csv_print csv_parse ->
  forall (f : folder F JsonT PSched PLoss CsvT) (s : state F Str Gen Sched Loss),
    wf F Str Gen Sched Loss s -> picklable F Str Gen Sched Loss PSched PLoss pick_s pick_l s ->
    f_h5 F JsonT PSched PLoss CsvT f = None \/ same_run_folder F Str Gen Sched Loss JsonT PSched PLoss CsvT f s ->
    exists f', save_legacy F Str Gen Sched Loss JsonT PSched PLoss CsvT Dg dg_s dg_l dg_c dg_h jenc pick_s pick_l csv_print f s = SOk F JsonT PSched PLoss CsvT f' /\
      restore F Str Gen Sched Loss str_eqb JsonT PSched PLoss CsvT Dg Dg_eqb dg_s dg_l dg_c dg_h jdec unpick_s unpick_l csv_parse fresh_gen table_of f'
              (s_model F Str Gen Sched Loss s) = Ok s.
Proof. exact legacy_restore_save_fresh_or_same_run. Qed.
Print Assumptions C04_legacy_fresh_or_same_run_exact.

(* ... hence for any number of checkpoints of one run written over each other ... *)
Theorem C04_legacy_chain_exact :
  forall F Str Gen Sched Loss str_eqb JsonT PSched PLoss CsvT Dg Dg_eqb dg_s dg_l dg_c dg_h jenc jdec pick_s unpick_s
         pick_l unpick_l csv_print csv_parse fresh_gen table_of,
  json_rt F Str Gen JsonT Dg jenc jdec -> pickle_s_rt Sched PSched pick_s unpick_s -> pickle_l_rt Loss PLoss pick_l unpick_l ->
  str_eqb_refl Str str_eqb -> Dg_eqb_refl Dg Dg_eqb -> csv_exact F CsvT csv_print csv_parse ->
  forall (l : list (state F Str Gen Sched Loss)) (s : state F Str Gen Sched Loss),
    chain F Str Gen Sched Loss PSched PLoss pick_s pick_l (s :: l) ->
    forall f : folder F JsonT PSched PLoss CsvT,
    f_h5 F JsonT PSched PLoss CsvT f = None \/ same_run_folder F Str Gen Sched Loss JsonT PSched PLoss CsvT f s ->
    let z := last l s in
    restore F Str Gen Sched Loss str_eqb JsonT PSched PLoss CsvT Dg Dg_eqb dg_s dg_l dg_c dg_h jdec unpick_s unpick_l csv_parse fresh_gen table_of
            (saves_legacy F Str Gen Sched Loss JsonT PSched PLoss CsvT Dg dg_s dg_l dg_c dg_h jenc pick_s pick_l csv_print (s :: l) f)
            (s_model F Str Gen Sched Loss z) = Ok z.
Proof. exact legacy_chain_exact. Qed.
Print Assumptions C04_legacy_chain_exact.

(* ... but NOT for a folder that holds a different run: the restored series are the stale rows (the losses are the new
   ones: a silent hybrid).  This is the defect repaired by C04-stale-series.patch. *)
Theorem C04_legacy_other_run_refuted :
  exists (f : tfolder) (s s' : tstate) (f' : tfolder),
    wf _ _ _ _ _ s /\ T_save_legacy f s = SOk _ _ _ _ _ f' /\ T_restore f' (s_model _ _ _ _ _ s) = Ok s' /\
    s_series _ _ _ _ _ s' <> s_series _ _ _ _ _ s /\ s_losses _ _ _ _ _ s' = s_losses _ _ _ _ _ s.
Proof. exact legacy_other_run_refuted. Qed.
Print Assumptions C04_legacy_other_run_refuted.

(* same_run_prefix: along ANY run of the shared calibrator model (any operations, restore included, any scheduler,
   samplers returning batch_size rows, any fault plan) the records last written to the folder are a prefix of the live
   records - so the folder a run wrote earlier always satisfies the same-run hypothesis (uses C02's append-only). *)
Theorem C04_same_run_prefix :
  forall Param Series LossV model lossf loss_leb rounds0 propose draws agent_actions plan,
  (forall s ps ls, length (propose s ps ls) = s_bsize s) ->
  forall cfg0 samplers scheduler s0 ops,
    Calibrator.construct Param Series LossV cfg0 samplers scheduler = inl s0 ->
    forall d, disk Param Series LossV (run Param Series LossV model lossf loss_leb rounds0 propose draws agent_actions plan ops s0) = Some d ->
      extends Param Series LossV d
              (live Param Series LossV (run Param Series LossV model lossf loss_leb rounds0 propose draws agent_actions plan ops s0)).
Proof. exact same_run_prefix. Qed.
Print Assumptions C04_same_run_prefix.

(* the two models together: a run of the calibrator model writing its checkpoints into one folder with the pinned
   writer - the next checkpoint restores exactly *)
Theorem C04_model_run_same_folder_exact :
  forall F Str Gen str_eqb JsonT PLoss CsvT Dg Dg_eqb dg_s dg_l dg_c dg_h jenc jdec pick_l unpick_l csv_print csv_parse fresh_gen
         table_of gen_at cls_name model lossf loss_leb rounds0 propose draws agent_actions plan,
  (forall s ps ls, length (propose s ps ls) = s_bsize s) ->
  json_rt F Str Gen JsonT Dg jenc jdec -> Dg_eqb_refl Dg Dg_eqb -> pickle_l_rt unit PLoss pick_l unpick_l ->
  str_eqb_refl Str str_eqb -> csv_exact F CsvT csv_print csv_parse ->
  forall tpl cfg0 samplers scheduler s0 ops d f,
    Calibrator.construct (list F) (list F) F cfg0 samplers scheduler = inl s0 ->
    disk _ _ _ (run (list F) (list F) F model lossf loss_leb rounds0 propose draws agent_actions plan ops s0) = Some d ->
    f_h5 F JsonT (sched F) PLoss CsvT f =
      Some (mkH5 F (s_sshape _ _ _ _ _ tpl) (s_series _ _ _ _ _ (of_core F Str Gen gen_at cls_name tpl d))) ->
    let s := of_core F Str Gen gen_at cls_name tpl
               (live _ _ _ (run (list F) (list F) F model lossf loss_leb rounds0 propose draws agent_actions plan ops s0)) in
    wf F Str Gen (sched F) unit s -> pick_sched F (s_sched _ _ _ _ _ s) <> None -> pick_l tt <> None ->
    exists f', save_legacy F Str Gen (sched F) unit JsonT (sched F) PLoss CsvT Dg dg_s dg_l dg_c dg_h jenc (pick_sched F) pick_l csv_print f s
                 = SOk _ _ _ _ _ f' /\
               restore F Str Gen (sched F) unit str_eqb JsonT (sched F) PLoss CsvT Dg Dg_eqb dg_s dg_l dg_c dg_h jdec (fun b => Some b)
                       unpick_l csv_parse fresh_gen table_of f' (s_model _ _ _ _ _ s) = Ok s.
Proof. exact model_run_same_folder_exact. Qed.
Print Assumptions C04_model_run_same_folder_exact.

(* "whenever calibrate() returns with a saving folder set, the folder holds the state calibrate() returned with":
   every n >= 1, early stop included, any scheduler for which the call returns at all (with an RL scheduler the checkpoint
   raises, so calibrate() does not return) ... *)
Theorem C04_calibrate_leaves_current_checkpoint :
  forall Param Series LossV model lossf loss_leb rounds0 propose draws agent_actions plan n s s' ret,
    c_saving (cfg Param Series LossV (live Param Series LossV s)) = true ->
    calibrate Param Series LossV model lossf loss_leb rounds0 propose draws agent_actions plan (S n) s = (s', None, ret) ->
    disk Param Series LossV s' = Some (live Param Series LossV s').
Proof. exact calibrate_leaves_current_checkpoint. Qed.
Print Assumptions C04_calibrate_leaves_current_checkpoint.

(* ... and for n = 0 as well (repair 32f0e7b): the state calibrate(0) returns with is checkpointed. *)
Theorem C04_calibrate_zero_leaves_current_checkpoint :
  forall Param Series LossV model lossf loss_leb rounds0 propose draws agent_actions plan (s s' : cstate Param Series LossV) ret,
    calibrate Param Series LossV model lossf loss_leb rounds0 propose draws agent_actions plan 0 s = (s', None, ret) ->
    c_saving (cfg _ _ _ (live _ _ _ s')) = true -> disk _ _ _ s' = Some (live _ _ _ s').
Proof. exact calibrate_zero_leaves_current_checkpoint. Qed.
Print Assumptions C04_calibrate_zero_leaves_current_checkpoint.

(* Finding (b): a scheduler that cannot be pickled (the RL scheduler: thread, queues, locks).  create_checkpoint raises
   with the scheduler pickle truncated; the json (written last since 8564019) is still the previous one, and whatever
   the folder held it can no longer be restored (digest mismatch, or EOF on the truncated pickle) - with either writer. *)
Theorem C04_save_unpicklable :
  forall F Str Gen Sched Loss str_eqb JsonT PSched PLoss CsvT Dg Dg_eqb dg_s dg_l dg_c dg_h jenc jdec pick_s unpick_s
         pick_l unpick_l csv_print csv_parse fresh_gen table_of,
  forall w (f : folder F JsonT PSched PLoss CsvT) (s : state F Str Gen Sched Loss),
    pick_s (s_sched F Str Gen Sched Loss s) = None ->
    exists f', save_with F Str Gen Sched Loss JsonT PSched PLoss CsvT Dg dg_s dg_l dg_c dg_h jenc pick_s pick_l csv_print w f s
                 = SRaise F JsonT PSched PLoss CsvT ExPickle f' /\
      f_json F JsonT PSched PLoss CsvT f' = f_json F JsonT PSched PLoss CsvT f /\
      forall name, exists e, restore F Str Gen Sched Loss str_eqb JsonT PSched PLoss CsvT Dg Dg_eqb dg_s dg_l dg_c dg_h jdec unpick_s
                                     unpick_l csv_parse fresh_gen table_of f' name = Raise e.
Proof. exact save_unpicklable. Qed.
Print Assumptions C04_save_unpicklable.

(* SQLite back-end: whatever the database held (DELETE precedes the INSERT), the 20 fields it is given come back,
   with their types (after C04-sqlite-scalar-types.patch).  n_sampled_params, n_jobs and the id table are not stored. *)
Theorem C04_sqlite_rt :
  forall F Str Gen Sched Loss PSched PLoss pick_s unpick_s pick_l unpick_l,
  pickle_s_rt Sched PSched pick_s unpick_s -> pickle_l_rt Loss PLoss pick_l unpick_l ->
  forall (d : db F Str Gen PSched PLoss) (s : state F Str Gen Sched Loss),
    picklable F Str Gen Sched Loss PSched PLoss pick_s pick_l s ->
    exists d', save_sql F Str Gen Sched Loss PSched PLoss pick_s pick_l d s = Ok d' /\
      load_sql F Str Gen Sched Loss PSched PLoss unpick_s unpick_l d' = Ok (project20 F Str Gen Sched Loss s).
Proof. exact sqlite_rt. Qed.
Print Assumptions C04_sqlite_rt.

Theorem C04_sqlite_unpicklable_writes_nothing :
  forall F Str Gen Sched Loss PSched PLoss pick_s pick_l (d : db F Str Gen PSched PLoss) (s : state F Str Gen Sched Loss),
    pick_s (s_sched F Str Gen Sched Loss s) = None -> save_sql F Str Gen Sched Loss PSched PLoss pick_s pick_l d s = Raise ExPickle.
Proof. exact sqlite_unpicklable_writes_nothing. Qed.
Print Assumptions C04_sqlite_unpicklable_writes_nothing.

(* ------------------------------------------------------------------ non-vacuity *)
(* the hypotheses are satisfiable: the token instantiation meets every contract, ex_A/ex_A1/ex_B are well-formed *)
Example C04_contracts_satisfiable :
  json_rt TF TStr TGen tjparams tdig (fun p => p) (fun p => Some p) /\ pickle_s_rt TObj Z t_pick t_unpick /\
  csv_exact TF tcsv (fun t => t) (fun t => Some t) /\ F_eqb_spec Z Z.eqb /\ str_eqb_refl nat Nat.eqb /\
  wf _ _ _ _ _ ex_A /\ wf _ _ _ _ _ ex_A1 /\ wf _ _ _ _ _ ex_B /\
  picklable _ _ _ _ _ _ _ t_pick t_pick ex_A.
Proof.
  repeat split; try (apply ex_wf); try (intros; reflexivity); try (cbn; discriminate).
  - intros [x []] b H; cbn in H; [injection H as <-; reflexivity | discriminate].
  - apply Z.eqb_eq.
  - intros ->. apply Z.eqb_refl.
  - intros a. apply Nat.eqb_refl.
Qed.

(* fresh folder; same run (ex_A1 then ex_A: appended in place, mode 2); other run with more rows (ex_A then ex_B) and
   with fewer rows (ex_B then ex_A): re-created (mode 1) - all restore exactly with the repaired writer *)
Example C04_ex_fresh : check_case (mkCC [ex_A] 3 [1] 0 (Some ex_A)) = true.
Proof. vm_compute. reflexivity. Qed.
Example C04_ex_same_run : check_case (mkCC [ex_A1; ex_A] 3 [1; 2] 0 (Some ex_A)) = true.
Proof. vm_compute. reflexivity. Qed.
Example C04_ex_other_run_more_rows : check_case (mkCC [ex_A; ex_B] 3 [1; 1] 0 (Some ex_B)) = true.
Proof. vm_compute. reflexivity. Qed.
Example C04_ex_other_run_fewer_rows : check_case (mkCC [ex_B; ex_A] 3 [1; 1] 0 (Some ex_A)) = true.
Proof. vm_compute. reflexivity. Qed.
(* the pinned writer on the same two histories: the restored state differs in component 20 (series) only *)
Example C04_ex_legacy_stale :
  let '(f, ms) := run_saves (h5_write_legacy TF) true T_empty [ex_A; ex_B] in
  ms = [1; 2] /\ match T_restore f 3 with Ok s => state_diff s ex_B = [20] | Raise _ => False end.
Proof. vm_compute. auto. Qed.
(* an RL scheduler: the save raises; a folder that held ex_A fails the digest check (class 12), an empty one has no json (2) *)
Example C04_ex_unpicklable : check_case (mkCC [ex_A; ex_RL] 3 [1; 0] 12 None) = true /\ check_case (mkCC [ex_RL] 3 [0] 2 None) = true.
Proof. vm_compute. auto. Qed.
(* a wrong model name is refused *)
Example C04_ex_model_name : check_case (mkCC [ex_A] 4 [1] 8 None) = true.
Proof. vm_compute. reflexivity. Qed.
(* SQLite: second save replaces the first row; an unpicklable scheduler leaves the database as it was *)
Example C04_ex_sqlite : check_sql (mkSQ [ex_A; ex_B] [1; 1] 0 (Some ex_B) true true) = true /\
                        check_sql (mkSQ [ex_A; ex_RL] [1; 0] 0 (Some ex_A) true true) = true /\
                        check_sql (mkSQ [] [] 9 None true true) = true.
Proof. vm_compute. auto. Qed.
