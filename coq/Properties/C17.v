(* C17 — grid snapping maps every value to a nearest grid element.
   Property theorems only; each is closed by `exact` of a lemma proved in Proofs/SnapP.v.
   Model: Model/Snap.v (get_closest / digitize_data, black_it/utils/base.py:64-107). *)
From Coq Require Import List QArith Qabs Sorted Lia Floats.
From BlackIt Require Import Model.Snap Proofs.SnapP.
Import ListNotations.
Open Scope Q_scope.

(* --- membership: any numeric type, any comparison, any non-empty grid (sorted or not) --- *)
Theorem C17_closest_in_grid : forall (num : Type) (zero : num) (ltb : num -> num -> bool) (absdiff : num -> num -> num)
  (g : list num) (v : num), g <> [] -> In (get_closest num zero ltb absdiff g v) g.
Proof. exact closest_in_grid. Qed.
Print Assumptions C17_closest_in_grid.

(* ... and for whatever insertion index in [0, len] a search returns (binary search on an unsorted grid, NaN value) *)
Theorem C17_closest_at_any_index_in_grid : forall (num : Type) (zero : num) (ltb : num -> num -> bool)
  (absdiff : num -> num -> num) (g : list num) (v : num) (idx : nat),
  g <> [] -> (idx <= length g)%nat -> In (closest_at num zero ltb absdiff g v idx) g.
Proof. exact closest_at_in_grid. Qed.
Print Assumptions C17_closest_at_any_index_in_grid.

(* the numpy wrap-around of index -1 (idxs -= 1 at index 0) is unreachable when `<` is irreflexive *)
Theorem C17_no_negative_index : forall (num : Type) (zero : num) (ltb : num -> num -> bool) (absdiff : num -> num -> num)
  (g : list num) (v : num), (forall d, ltb d d = false) -> g <> [] ->
  closest_at num zero ltb absdiff g v 0 = nth 0 g zero.
Proof. exact closest_at_0_no_wrap. Qed.
Print Assumptions C17_no_negative_index.

(* --- the model's search is searchsorted(side="left") on every sorted grid --- *)
Theorem C17_searchsorted_left_spec : forall g v, StronglySorted Qle g ->
  (ssQ g v <= length g)%nat /\ (forall j, (j < ssQ g v)%nat -> nth j g 0 < v) /\
  (forall j, (ssQ g v <= j < length g)%nat -> v <= nth j g 0).
Proof. exact ssQ_spec. Qed.
Print Assumptions C17_searchsorted_left_spec.

(* --- nearest: sorted (duplicates allowed) grid, every rational value: inside, outside, exact mid-points --- *)
Theorem C17_closest_is_nearest : forall g v, StronglySorted Qle g -> g <> [] ->
  forall x, In x g -> Qabs (v - get_closestQ g v) <= Qabs (v - x).
Proof. exact closest_is_nearest. Qed.
Print Assumptions C17_closest_is_nearest.

Theorem C17_closest_below_first : forall g v, StronglySorted Qle g -> g <> [] -> v <= nth 0 g 0 ->
  get_closestQ g v == nth 0 g 0.
Proof. exact closest_below_first. Qed.
Print Assumptions C17_closest_below_first.

Theorem C17_closest_above_last : forall g v, StronglySorted Qle g -> g <> [] -> nth (length g - 1) g 0 <= v ->
  get_closestQ g v == nth (length g - 1) g 0.
Proof. exact closest_above_last. Qed.
Print Assumptions C17_closest_above_last.

(* at the exact mid-point of two neighbouring distinct elements the code returns the upper one *)
Theorem C17_midpoint_goes_up : forall l a b r, StronglySorted Qle (l ++ a :: b :: r) -> a < b ->
  get_closestQ (l ++ a :: b :: r) ((a + b) / 2) == b.
Proof. exact closest_at_midpoint_upper. Qed.
Print Assumptions C17_midpoint_goes_up.

(* --- idempotence --- *)
Theorem C17_closest_idempotent : forall g x, StronglySorted Qle g -> In x g -> get_closestQ g x == x.
Proof. exact closest_idempotent. Qed.
Print Assumptions C17_closest_idempotent.

Theorem C17_closest_idempotent_strict : forall g x, StronglySorted Qlt g -> In x g -> get_closestQ g x = x.
Proof. exact closest_idempotent_strict. Qed.
Print Assumptions C17_closest_idempotent_strict.

Theorem C17_closest_twice : forall g v, StronglySorted Qle g -> g <> [] ->
  get_closestQ g (get_closestQ g v) == get_closestQ g v.
Proof. exact closest_idempotent2. Qed.
Print Assumptions C17_closest_twice.

(* --- arrays: column by column, each column with its own grid --- *)
Theorem C17_digitize_pointwise : forall (num : Type) (zero : num) (ltb : num -> num -> bool) (absdiff : num -> num -> num)
  (raw grids : list (list num)) (r c : nat), (r < length raw)%nat -> (c < width num raw)%nat ->
  cell num zero r c (digitize num zero ltb absdiff raw grids)
  = get_closest num zero ltb absdiff (nth c grids []) (cell num zero r c raw).
Proof. exact digitize_cell. Qed.
Print Assumptions C17_digitize_pointwise.

Theorem C17_digitize_shape : forall (num : Type) (zero : num) (ltb : num -> num -> bool) (absdiff : num -> num -> num)
  (raw grids : list (list num)),
  length (digitize num zero ltb absdiff raw grids) = length raw /\
  Forall (fun row => length row = width num raw) (digitize num zero ltb absdiff raw grids).
Proof. exact digitize_shape. Qed.
Print Assumptions C17_digitize_shape.

(* every output cell lies on its column's grid, for ARBITRARY raw data and comparison (reused by C03) *)
Theorem C17_digitize_on_grid : forall (num : Type) (zero : num) (ltb : num -> num -> bool) (absdiff : num -> num -> num)
  (raw grids : list (list num)), Forall (fun g => g <> []) grids -> (width num raw <= length grids)%nat ->
  forall r c, (r < length raw)%nat -> (c < width num raw)%nat ->
  In (cell num zero r c (digitize num zero ltb absdiff raw grids)) (nth c grids []).
Proof. exact digitize_on_grid. Qed.
Print Assumptions C17_digitize_on_grid.

Theorem C17_digitize_rows_in_product : forall (num : Type) (zero : num) (ltb : num -> num -> bool)
  (absdiff : num -> num -> num) (raw grids : list (list num)),
  Forall (fun g => g <> []) grids -> length grids = width num raw ->
  Forall (fun row => Forall2 (fun x g => In x g) row grids) (digitize num zero ltb absdiff raw grids).
Proof. exact digitize_rows_in_product. Qed.
Print Assumptions C17_digitize_rows_in_product.

Theorem C17_digitize_nearest : forall raw grids r c, (r < length raw)%nat -> (c < width Q raw)%nat ->
  StronglySorted Qle (nth c grids []) -> nth c grids [] <> [] ->
  In (cellQ r c (digitizeQ raw grids)) (nth c grids []) /\
  forall x, In x (nth c grids []) ->
    Qabs (cellQ r c raw - cellQ r c (digitizeQ raw grids)) <= Qabs (cellQ r c raw - x).
Proof. exact digitizeQ_nearest. Qed.
Print Assumptions C17_digitize_nearest.

Theorem C17_digitize_idempotent : forall raw grids r c, (r < length raw)%nat -> (c < width Q raw)%nat ->
  StronglySorted Qle (nth c grids []) -> nth c grids [] <> [] ->
  cellQ r c (digitizeQ (digitizeQ raw grids) grids) == cellQ r c (digitizeQ raw grids).
Proof. exact digitizeQ_idempotent. Qed.
Print Assumptions C17_digitize_idempotent.

(* ------------------------------------------------------------------ non-vacuity witnesses *)
Definition ex_grid : list Q := [0; 1#2; 1; 1; 3].          (* sorted, non-uniform, with a duplicate *)
Example C17_ex_grid_sorted : StronglySorted Qle ex_grid /\ ex_grid <> [].
Proof.
  split; [|discriminate]. unfold ex_grid.
  repeat (constructor; [| repeat (constructor; try (unfold Qle; cbn; lia)) ]). constructor.
Qed.
Example C17_ex_strict_sorted : StronglySorted Qlt [0; 1#2; 1; 3].
Proof. repeat (constructor; [| repeat (constructor; try (unfold Qlt; cbn; lia)) ]). constructor. Qed.
(* inside (both directions), exact mid-points (upper neighbour), far outside both ends, at elements *)
Example C17_ex_values :
  get_closest_vecQ ex_grid [1#5; 2#5; 1#4; 3#4; 2; -5; 7; 0; 1#2; 1; 3; 21#10; 19#10]
  = [0; 1#2; 1#2; 1; 3; 0; 3; 0; 1#2; 1; 3; 3; 1].
Proof. vm_compute. reflexivity. Qed.
Example C17_ex_single : get_closest_vecQ [5#2] [-1; 5#2; 9] = [5#2; 5#2; 5#2].
Proof. vm_compute. reflexivity. Qed.
Example C17_ex_midpoint : get_closestQ ([0] ++ (1#2) :: 1 :: [1; 3]) (((1#2) + 1) / 2) == 1.
Proof. vm_compute. reflexivity. Qed.
(* 2-D array, a different grid per column *)
Example C17_ex_digitize :
  digitizeQ [[1#5; 12; -1]; [3#4; 14; 4]] [ex_grid; [10; 20]; [5#2]] = [[0; 10; 5#2]; [1; 10; 5#2]]
  /\ width Q [[1#5; 12; -1]; [3#4; 14; 4]] = 3%nat
  /\ Forall (fun g : list Q => g <> []) [ex_grid; [10; 20]; [5#2]].
Proof. split; [vm_compute; reflexivity|]. split; [reflexivity|]. repeat constructor; discriminate. Qed.
(* an unsorted grid: the result is still an element (C17_closest_in_grid), but need not be nearest *)
Example C17_ex_unsorted : get_closestQ [3; 0; 1] 1 = 3 /\ In (get_closestQ [3; 0; 1] 1) [3; 0; 1].
Proof. split; [vm_compute; reflexivity | vm_compute; auto]. Qed.
(* check_case accepts a true observation and rejects a wrong neighbour / a wrong shape / an excused exact tie *)
Example C17_ex_check_caseQ :
  check_caseQ (GCq false ex_grid [3#4; 7] [1; 3]) = true /\ check_caseQ (GCq false ex_grid [3#4; 7] [1#2; 3]) = false
  /\ check_caseQ (GCq true ex_grid [3#4; 7] [1#2; 3]) = false /\ check_caseQ (GCq true ex_grid [3#4; 7] [1; 3]) = true
  /\ check_caseQ (DGq false [ex_grid; [10; 20]] [[1#5; 12]] [[0; 10]]) = true
  /\ check_caseQ (DGq false [ex_grid; [10; 20]] [[1#5; 12]] [[0; 20]]) = false
  /\ check_caseQ (DGq true [ex_grid; [10; 20]] [[1#5; 12]] [[0]]) = false.
Proof. vm_compute. repeat split; reflexivity. Qed.
(* the one-sided slack: lower neighbour closer by a relative 2^-60 -> the upper one is accepted in tolerant mode only;
   the lower neighbour closer by 2^-40 -> never *)
Example C17_ex_slack :
  let h := 1 # 1152921504606846976 in let k := 1 # 1099511627776 in
  check_caseQ (GCq true [0; 2] [1 - h] [2]) = true /\ check_caseQ (GCq false [0; 2] [1 - h] [2]) = false
  /\ check_caseQ (GCq true [0; 2] [1 - k] [2]) = false /\ check_caseQ (GCq true [0; 2] [1 + h] [0]) = false.
Proof. vm_compute. repeat split; reflexivity. Qed.
(* float64 transport: exact injection into Q, and the float-literal form of the cases *)
Example C17_ex_codec :
  q_of_float 0x1.8p+1 == 3 /\ q_of_float (-0x1.999999999999ap-4) == -3602879701896397 # 36028797018963968
  /\ q_of_float 0x1p-1074 == 1 # (2 ^ 1074) /\ q_of_float 0x1.fffffffffffffp+60 == 2305843009213693696 # 1
  /\ q_of_float (-0) == 0
  /\ check_case (CODEC 0x1.8p-1 3 4) = true /\ check_case (CODEC 0x1.8p-1 3 8) = false
  /\ check_case (GC false [0; 0x1p-1; 1]%float [0x1.8p-1; 0x1p-2; -5; 7]%float [1; 0x1p-1; 0; 1]%float) = true
  /\ check_case (GC false [0; 0x1p-1; 1]%float [0x1.8p-1]%float [0x1p-1]%float) = false
  /\ check_case (GC true [0; 1]%float [0x1p-1]%float [nan]%float) = false
  /\ check_case (DG false [[0; 1]; [10; 20]]%float [[0x1p-2; 17]]%float [[0; 20]]%float) = true
  /\ check_case_float (DG false [[0; 1]; [10; 20]]%float [[0x1p-2; 17]]%float [[0; 20]]%float) = true.
Proof. vm_compute. repeat split; reflexivity. Qed.
