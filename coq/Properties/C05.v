(* C05 — resuming from a checkpoint equals never having stopped.  Property theorems only. *)
From Coq Require Import List ZArith Bool Arith.
From BlackIt Require Import Model.Calibrator Proofs.CalibratorP Proofs.CalibStopP Proofs.CalibFaultP Proofs.CalibResumeP.
Import ListNotations.

(* Splitting over several calibrate() calls on a live object. *)
Theorem C05_calibrate_split :
  forall Param Series LossV model lossf loss_leb rounds0 propose draws agent_actions plan a b s s1 r1 l0 b0,
    sch _ _ _ (live _ _ _ s) = RR LossV l0 b0 -> c_prec (cfg _ _ _ (live _ _ _ s)) = None -> 0 < a -> 0 < b ->
    calibrate Param Series LossV model lossf loss_leb rounds0 propose draws agent_actions plan a s = (s1, None, r1) ->
    calibrate Param Series LossV model lossf loss_leb rounds0 propose draws agent_actions plan (a + b) s =
    calibrate Param Series LossV model lossf loss_leb rounds0 propose draws agent_actions plan b s1.
Proof. exact calibrate_split. Qed.
Print Assumptions C05_calibrate_split.

Theorem C05_batches_split :
  forall Param Series LossV model lossf loss_leb rounds0 propose draws agent_actions plan a b s,
    batches Param Series LossV model lossf loss_leb rounds0 propose draws agent_actions plan (a + b) s =
    match batches Param Series LossV model lossf loss_leb rounds0 propose draws agent_actions plan a s with
    | (s1, Done) => batches Param Series LossV model lossf loss_leb rounds0 propose draws agent_actions plan b s1
    | r => r end.
Proof. exact batches_split. Qed.
Print Assumptions C05_batches_split.

(* create_checkpoint followed by restore is the identity on the live calibrator (given exact codecs: C04). *)
Theorem C05_restore_checkpoint_identity :
  forall Param Series LossV (s s1 : cstate Param Series LossV) e1 (s2 : cstate Param Series LossV) e2 l b,
    sch _ _ _ (live _ _ _ s) = RR LossV l b ->
    create_checkpoint Param Series LossV s = (s1, e1) -> restore Param Series LossV s1 = (s2, e2) ->
    e1 = None /\ e2 = None /\ live _ _ _ s2 = live _ _ _ s.
Proof. exact restore_checkpoint_identity. Qed.
Print Assumptions C05_restore_checkpoint_identity.

(* Stopping, checkpointing, restoring and continuing = continuing on the live object. *)
Theorem C05_resume_equiv :
  forall Param Series LossV model lossf loss_leb rounds0 propose draws agent_actions plan b (s s1 : cstate Param Series LossV)
         e1 (s2 : cstate Param Series LossV) e2 l b0 s3 e r,
    sch _ _ _ (live _ _ _ s) = RR LossV l b0 ->
    create_checkpoint Param Series LossV s = (s1, e1) -> restore Param Series LossV s1 = (s2, e2) ->
    calibrate Param Series LossV model lossf loss_leb rounds0 propose draws agent_actions plan b s = (s3, e, r) ->
    exists d', calibrate Param Series LossV model lossf loss_leb rounds0 propose draws agent_actions plan b s2 =
               (mkSt _ _ _ (live _ _ _ s3) d', e, r).
Proof. exact resume_equiv. Qed.
Print Assumptions C05_resume_equiv.

(* What the folder held before does not influence the live result of calibrate(). *)
Theorem C05_calibrate_disk_irrelevant :
  forall Param Series LossV model lossf loss_leb rounds0 propose draws agent_actions plan n c d d' s1 e r,
    calibrate Param Series LossV model lossf loss_leb rounds0 propose draws agent_actions plan n (mkSt _ _ _ c d) = (s1, e, r) ->
    exists d1', calibrate Param Series LossV model lossf loss_leb rounds0 propose draws agent_actions plan n (mkSt _ _ _ c d') =
                (mkSt _ _ _ (live _ _ _ s1) d1', e, r).
Proof. exact calibrate_disk_irrelevant. Qed.
Print Assumptions C05_calibrate_disk_irrelevant.

(* Round 4.  After a checkpoint + restore, ANY further sequence of operations that does not read the folder again
   (calibrate with or without a convergence precision, calibrate(0), set_samplers, set_scheduler, create_checkpoint)
   leaves the live calibrator in the state it reaches on the object that was never stopped, and every one of these calls
   raises / returns the same: restore followed by reconfiguration, early stop followed by a further calibrate(). *)
Theorem C05_resume_any_ops :
  forall Param Series LossV model lossf loss_leb rounds0 propose draws agent_actions plan
         (s s1 s2 : cstate Param Series LossV) e1 e2 l b ops,
    sch _ _ _ (live _ _ _ s) = RR LossV l b ->
    create_checkpoint Param Series LossV s = (s1, e1) -> restore Param Series LossV s1 = (s2, e2) ->
    forallb restore_free ops = true ->
    live _ _ _ (run Param Series LossV model lossf loss_leb rounds0 propose draws agent_actions plan ops s2) =
    live _ _ _ (run Param Series LossV model lossf loss_leb rounds0 propose draws agent_actions plan ops s).
Proof. exact resume_any_ops. Qed.
Print Assumptions C05_resume_any_ops.

Theorem C05_resume_any_ops_outcomes :
  forall Param Series LossV model lossf loss_leb rounds0 propose draws agent_actions plan
         ops o (s s1 s2 : cstate Param Series LossV) e1 e2 l b,
    sch _ _ _ (live _ _ _ s) = RR LossV l b ->
    create_checkpoint Param Series LossV s = (s1, e1) -> restore Param Series LossV s1 = (s2, e2) ->
    forallb restore_free (ops ++ [o]) = true ->
    snd (fst (step Param Series LossV model lossf loss_leb rounds0 propose draws agent_actions plan
                (run Param Series LossV model lossf loss_leb rounds0 propose draws agent_actions plan ops s2) o)) =
    snd (fst (step Param Series LossV model lossf loss_leb rounds0 propose draws agent_actions plan
                (run Param Series LossV model lossf loss_leb rounds0 propose draws agent_actions plan ops s) o)) /\
    snd (step Param Series LossV model lossf loss_leb rounds0 propose draws agent_actions plan
           (run Param Series LossV model lossf loss_leb rounds0 propose draws agent_actions plan ops s2) o) =
    snd (step Param Series LossV model lossf loss_leb rounds0 propose draws agent_actions plan
           (run Param Series LossV model lossf loss_leb rounds0 propose draws agent_actions plan ops s) o).
Proof. exact resume_any_ops_outcomes. Qed.
Print Assumptions C05_resume_any_ops_outcomes.
