(* C02 — the recorded history is aligned, truthful and append-only.  Property theorems only. *)
From Coq Require Import List ZArith Sorted.
From BlackIt Require Import Model.Calibrator Proofs.CalibratorP.
Import ListNotations.

(* Every state reachable from a constructed calibrator by ANY sequence of operations
   {calibrate(n), create_checkpoint, restore, set_samplers, set_scheduler} — with any model, loss, samplers
   returning batch_size rows, any fault plan, both scheduler kinds — satisfies Inv, live and on disk:
   the five record lists have length n_sampled; row i holds a parameter, the series model(param, seed) for E
   consecutive seeds of the calibrator stream, and lossf of exactly those series; batch labels are sorted and
   below the batch counter. *)
Theorem C02_reachable_aligned :
  forall Param Series LossV model lossf loss_leb rounds0 propose draws agent_actions plan,
  (forall s ps ls, length (propose s ps ls) = s_bsize s) ->
  forall cfg0 samplers scheduler s0 ops,
    construct Param Series LossV cfg0 samplers scheduler = inl s0 ->
    InvS Param Series LossV model lossf draws (c_E cfg0)
         (run Param Series LossV model lossf loss_leb rounds0 propose draws agent_actions plan ops s0).
Proof. exact reachable_aligned. Qed.
Print Assumptions C02_reachable_aligned.

(* One batch either raises leaving all records untouched, or appends exactly batch_size rows labelled with the
   current batch index and the table id of the designated sampler's class, and increments the counters. *)
Theorem C02_one_batch_appends :
  forall Param Series LossV model lossf loss_leb rounds0 propose draws agent_actions plan,
  (forall s ps ls, length (propose s ps ls) = s_bsize s) ->
  forall s s' o,
  one_batch Param Series LossV model lossf loss_leb rounds0 propose draws agent_actions plan s = (s', o) ->
    (exists e, o = Raised e /\ records _ _ _ (live _ _ _ s') = records _ _ _ (live _ _ _ s) /\ disk _ _ _ s' = disk _ _ _ s /\
               cfg _ _ _ (live _ _ _ s') = cfg _ _ _ (live _ _ _ s) /\ tbl _ _ _ (live _ _ _ s') = tbl _ _ _ (live _ _ _ s) /\
               e <> ExValue) \/
    (exists i sc1 m, next_sampler LossV agent_actions (sch _ _ _ (live _ _ _ s)) = Some (i, sc1) /\
        nth_error (sched_samplers _ sc1) i = Some m /\
        appended_batch _ _ _ model lossf draws (live _ _ _ s) (live _ _ _ s') m /\
        (o = Done \/ o = Converged \/ o = Raised ExValue \/ o = Raised ExOther) /\
        (disk _ _ _ s' = disk _ _ _ s \/ disk _ _ _ s' = Some (live _ _ _ s'))).
Proof. exact one_batch_cases. Qed.
Print Assumptions C02_one_batch_appends.

(* Rows once recorded never change: every operation except restore extends each record list. *)
Theorem C02_append_only :
  forall Param Series LossV model lossf loss_leb rounds0 propose draws agent_actions plan,
  (forall s ps ls, length (propose s ps ls) = s_bsize s) ->
  forall E0 s o s' e r,
    InvS Param Series LossV model lossf draws E0 s ->
    step Param Series LossV model lossf loss_leb rounds0 propose draws agent_actions plan s o = (s', e, r) ->
    o <> ORestore -> extends _ _ _ (live _ _ _ s) (live _ _ _ s').
Proof. exact step_append_only. Qed.
Print Assumptions C02_append_only.

(* calibrate() returns precisely the recorded (parameter, loss) pairs, ordered by increasing loss. *)
From BlackIt Require Import Proofs.CalibSortP.
From Coq Require Import Permutation.
Theorem C02_returned_is_sorted_history :
  forall Param Series LossV model lossf loss_leb rounds0 propose draws agent_actions plan n s s' r,
    calibrate Param Series LossV model lossf loss_leb rounds0 propose draws agent_actions plan n s = (s', None, r) ->
    r = sort_pairs Param LossV loss_leb (combine (params _ _ _ (live _ _ _ s')) (losses _ _ _ (live _ _ _ s'))).
Proof. exact calibrate_returns_sorted_history. Qed.
Print Assumptions C02_returned_is_sorted_history.

Theorem C02_sort_pairs_spec :
  forall Param LossV (loss_leb : LossV -> LossV -> bool),
    (forall a b, loss_leb a b = true \/ loss_leb b a = true) ->
    forall l, Permutation (sort_pairs Param LossV loss_leb l) l /\ Sorted (le_pair Param LossV loss_leb) (sort_pairs Param LossV loss_leb l).
Proof. exact sort_pairs_spec. Qed.
Print Assumptions C02_sort_pairs_spec.
