(* C02 — the recorded history is aligned, truthful and append-only.  Property theorems only. *)
From Coq Require Import List ZArith Sorted.
From BlackIt Require Import Model.Calibrator Proofs.CalibratorP.
Import ListNotations.

(* Every state reachable from a constructed calibrator by ANY sequence of operations
   {calibrate(n), create_checkpoint, restore, set_samplers, set_scheduler} — with any model, loss, samplers
   returning batch_size rows, any fault plan, both scheduler kinds — satisfies Inv, live and on disk:
   the five record lists have length n_sampled; row i holds a parameter, the series model(param, seed) for E
   consecutive seeds of the calibrator stream, and lossf of exactly those series; batch labels are sorted and
   below the batch counter. *)
Theorem C02_reachable_aligned :
  forall Param Series LossV model lossf loss_leb rounds0 propose draws agent_actions plan,
  (forall s ps ls, length (propose s ps ls) = s_bsize s) ->
  forall cfg0 samplers scheduler s0 ops,
    construct Param Series LossV cfg0 samplers scheduler = inl s0 ->
    InvS Param Series LossV model lossf draws (c_E cfg0)
         (run Param Series LossV model lossf loss_leb rounds0 propose draws agent_actions plan ops s0).
Proof. exact reachable_aligned. Qed.
Print Assumptions C02_reachable_aligned.

(* One batch either raises leaving all records untouched, or appends exactly batch_size rows labelled with the
   current batch index and the table id of the designated sampler's class, and increments the counters. *)
Theorem C02_one_batch_appends :
  forall Param Series LossV model lossf loss_leb rounds0 propose draws agent_actions plan,
  (forall s ps ls, length (propose s ps ls) = s_bsize s) ->
  forall s s' o,
  one_batch Param Series LossV model lossf loss_leb rounds0 propose draws agent_actions plan s = (s', o) ->
    (exists e, o = Raised e /\ records _ _ _ (live _ _ _ s') = records _ _ _ (live _ _ _ s) /\ disk _ _ _ s' = disk _ _ _ s /\
               cfg _ _ _ (live _ _ _ s') = cfg _ _ _ (live _ _ _ s) /\ tbl _ _ _ (live _ _ _ s') = tbl _ _ _ (live _ _ _ s) /\
               e <> ExValue) \/
    (exists i sc1 m, next_sampler LossV agent_actions (sch _ _ _ (live _ _ _ s)) = Some (i, sc1) /\
        nth_error (sched_samplers _ sc1) i = Some m /\
        appended_batch _ _ _ model lossf propose draws (live _ _ _ s) (live _ _ _ s') m /\
        (o = Done \/ o = Converged \/ o = Raised ExValue \/ o = Raised ExOther) /\
        (disk _ _ _ s' = disk _ _ _ s \/ disk _ _ _ s' = Some (live _ _ _ s'))).
Proof. exact one_batch_cases. Qed.
Print Assumptions C02_one_batch_appends.

(* Rows once recorded never change: every operation except restore extends each record list. *)
Theorem C02_append_only :
  forall Param Series LossV model lossf loss_leb rounds0 propose draws agent_actions plan,
  (forall s ps ls, length (propose s ps ls) = s_bsize s) ->
  forall E0 s o s' e r,
    InvS Param Series LossV model lossf draws E0 s ->
    step Param Series LossV model lossf loss_leb rounds0 propose draws agent_actions plan s o = (s', e, r) ->
    o <> ORestore -> extends _ _ _ (live _ _ _ s) (live _ _ _ s').
Proof. exact step_append_only. Qed.
Print Assumptions C02_append_only.

(* calibrate() returns precisely the recorded (parameter, loss) pairs, ordered by increasing loss. *)
From BlackIt Require Import Proofs.CalibSortP.
From Coq Require Import Permutation.
Theorem C02_returned_is_sorted_history :
  forall Param Series LossV model lossf loss_leb rounds0 propose draws agent_actions plan n s s' r,
    calibrate Param Series LossV model lossf loss_leb rounds0 propose draws agent_actions plan n s = (s', None, r) ->
    r = sort_pairs Param LossV loss_leb (combine (params _ _ _ (live _ _ _ s')) (losses _ _ _ (live _ _ _ s'))).
Proof. exact calibrate_returns_sorted_history. Qed.
Print Assumptions C02_returned_is_sorted_history.

Theorem C02_sort_pairs_spec :
  forall Param LossV (loss_leb : LossV -> LossV -> bool),
    (forall a b, loss_leb a b = true \/ loss_leb b a = true) ->
    forall l, Permutation (sort_pairs Param LossV loss_leb l) l /\ Sorted (le_pair Param LossV loss_leb) (sort_pairs Param LossV loss_leb l).
Proof. exact sort_pairs_spec. Qed.
Print Assumptions C02_sort_pairs_spec.

(* Batch labels are zero-based and consecutive: in every reachable state every index below the batch counter labels at
   least one row (together with "sorted" and "below the counter" of the invariant: 0,..,0,1,..,1,2,...), provided every
   scheduled sampler has batch_size >= 1. *)
From BlackIt Require Import Proofs.CalibConsecP.
Theorem C02_labels_consecutive :
  forall Param Series LossV model lossf loss_leb rounds0 propose draws agent_actions plan cfg0 samplers scheduler s0 ops,
    construct Param Series LossV cfg0 samplers scheduler = inl s0 ->
    pos_sizes (sched_samplers _ (sch _ _ _ (live _ _ _ s0))) -> Forall op_pos ops ->
    ConsecS Param Series LossV (run Param Series LossV model lossf loss_leb rounds0 propose draws agent_actions plan ops s0).
Proof. exact reachable_labels_consecutive. Qed.
Print Assumptions C02_labels_consecutive.

(* Layering with C03/C12/C17: when `propose` is the built-in sampler model (last step snap or grid index, then the
   de-duplication loop), for ANY pre-snap computation, internal sampler state, class and pass budget, the alignment invariant
   holds in every reachable state with no hypothesis on the samplers left. *)
From BlackIt Require Import Model.Dedup Model.Samplers Proofs.SamplersP Proofs.CalibLinkP.
Theorem C02_builtin_samplers_aligned :
  forall Series LossV ltb absdiff grids St raw_of idx_of cls_of state_of budget_of,
  Forall (fun g : list Z => g <> []) grids ->
  raw_width_ok grids St (list point * list LossV) raw_of -> idx_ok grids St (list point * list LossV) idx_of ->
  raw_rows_ok St (list point * list LossV) raw_of -> idx_rows_ok St (list point * list LossV) idx_of ->
  forall (model : point -> Z -> Series) lossf loss_leb rounds0 draws agent_actions plan cfg0 samplers scheduler s0 ops,
    construct point Series LossV cfg0 samplers scheduler = inl s0 ->
    InvS point Series LossV model lossf draws (c_E cfg0)
         (run point Series LossV model lossf loss_leb rounds0
              (builtin_propose LossV ltb absdiff grids St raw_of idx_of cls_of state_of budget_of)
              draws agent_actions plan ops s0).
Proof. intros. eapply reachable_aligned; [|eassumption]. intros. now apply builtin_propose_len. Qed.
Print Assumptions C02_builtin_samplers_aligned.

(* Round 4 - "with the configured simulation length": when the model is given its length explicitly and the calibrator fixes it
   at construction as  N = sim_length if given, else the number of rows of the real data  (calibrator.py:106-116, 344-354), then
   in every reachable state every recorded row holds exactly E series, each of N periods - for any model answering with as many
   periods as it is asked for. *)
From BlackIt Require Import Model.SimLen Proofs.CalibSimLenP.
Theorem C02_series_have_configured_length :
  forall Param Series LossV (modelN : Param -> nat -> Z -> Series) (periods : Series -> nat),
  (forall p n seed, periods (modelN p n seed) = n) ->
  forall lossf draws sim_length real_rows loss_leb rounds0 propose agent_actions plan,
  (forall s ps ls, length (propose s ps ls) = s_bsize s) ->
  forall cfg0 samplers scheduler s0 ops,
    construct Param Series LossV cfg0 samplers scheduler = inl s0 ->
    Forall (fun row => length row = c_E cfg0 /\ Forall (fun x => periods x = sim_len sim_length real_rows) row)
      (series _ _ _ (live _ _ _
         (run Param Series LossV (model_at modelN sim_length real_rows) lossf loss_leb rounds0 propose draws agent_actions plan ops s0))).
Proof. exact series_have_configured_length. Qed.
Print Assumptions C02_series_have_configured_length.

Example C02_sim_len_default : sim_len None 24 = 24.  Proof. reflexivity. Qed.
Example C02_sim_len_given : sim_len (Some 7) 24 = 7. Proof. reflexivity. Qed.
