(* C20 - time-series filters and the moment summary equal their definitions.
   Property theorems only; each is closed by `exact` of a lemma of Proofs/HPP.v or Proofs/LogDataP.v.
   Vectors are lists of rationals of ANY length, compared pointwise with == (veq = Forall2 Qeq).
   K = second difference (rows 1,-2,1), Kt = its transpose, A lam t = t + lam * Kt (K t) is the matrix that
   hp_filter hands to the sparse solver; nrm2 = squared Euclidean norm. *)
From Coq Require Import List ZArith QArith Qabs Qminmax Qreals Reals.
From BlackIt Require Import Lib.IvLn Model.HP Model.LogData Proofs.HPP Proofs.LogDataP.
Import ListNotations.
Open Scope Q_scope.

(* ---- the HP operator ---- *)
Theorem C20_K_adjoint : forall t u, length u = length (K t) -> dot t (Kt u) == dot u (K t).
Proof. exact K_adjoint. Qed.
Print Assumptions C20_K_adjoint.

Theorem C20_KtK_adjoint : forall t, dot t (Kt (K t)) == nrm2 (K t).
Proof. exact KtK_adjoint_lemma. Qed.
Print Assumptions C20_KtK_adjoint.

Theorem C20_A_length : forall lam t, length (A lam t) = length t.
Proof. exact A_length. Qed.
Print Assumptions C20_A_length.

(* x . A x = |x|^2 + lam |K x|^2 >= |x|^2 : symmetric positive definite for every length, every lam >= 0 *)
Theorem C20_hp_pos_def : forall lam x, 0 <= lam -> nrm2 x <= dot x (A lam x).
Proof. exact hp_pos_def_lemma. Qed.
Print Assumptions C20_hp_pos_def.

(* the HP optimality system has at most one solution *)
Theorem C20_hp_unique : forall lam t t', 0 <= lam -> veq (A lam t) (A lam t') -> veq t t'.
Proof. exact hp_unique_lemma. Qed.
Print Assumptions C20_hp_unique.

(* the exactly computed residual of ANY candidate th bounds its distance to the solution ts (squared norms) *)
Theorem C20_hp_residual_bounds_error : forall lam y ts th, 0 <= lam -> length th = length ts ->
  veq (A lam ts) y -> nrm2 (vsub th ts) <= nrm2 (resid lam th y).
Proof. exact hp_residual_bounds_error_lemma. Qed.
Print Assumptions C20_hp_residual_bounds_error.

Theorem C20_cauchy_schwarz : forall a b, length a = length b -> dot a b * dot a b <= nrm2 a * nrm2 b.
Proof. exact cauchy_schwarz_lemma. Qed.
Print Assumptions C20_cauchy_schwarz.

(* ---- what a passing correspondence case certifies ---- *)
(* hp_filter(y, lam) = (c, t): if check_hp_case accepts, t is within sqrt(N) * tol of the solution of the system *)
Theorem C20_hp_case_certifies_trend : forall lam y t c ts,
  check_hp_case (CaseHP lam y t c) = true -> veq (A (dyQ lam) ts) (dyl y) ->
  nrm2 (vsub (dyl t) ts)
  <= inject_Z (Z.of_nat (length y)) * (hp_tol (dyQ lam) (dyl t) 0 * hp_tol (dyQ lam) (dyl t) 0).
Proof. exact check_hp_case_HP_sound. Qed.
Print Assumptions C20_hp_case_certifies_trend.

(* ... and cycle + trend = series up to one rounding, elementwise *)
Theorem C20_hp_case_cycle_plus_trend : forall lam y t c, check_hp_case (CaseHP lam y t c) = true ->
  forall i, (i < length (dyl y))%nat ->
  Qabs (nth i (dyl c) 0 + nth i (dyl t) 0 - nth i (dyl y) 0)
  <= eps52 * Qmax (Qabs (nth i (dyl y) 0)) (Qabs (nth i (dyl t) 0)).
Proof. exact check_hp_case_HP_cycle. Qed.
Print Assumptions C20_hp_case_cycle_plus_trend.

Theorem C20_cycle_plus_trend_exact : forall y t, length y = length t -> veq (vadd (vsub y t) t) y.
Proof. exact cycle_plus_trend_lemma. Qed.
Print Assumptions C20_cycle_plus_trend_exact.

(* hp_cycle_lamb1600_filter(y) = c : the reconstructed trend y - c is certified at lam = 1600 *)
Theorem C20_cycle1600_case_certifies_trend : forall y c ts,
  check_hp_case (CaseCycle1600 y c) = true -> veq (A lam1600 ts) (dyl y) ->
  let th := vsub (dyl y) (dyl c) in
  let tol := hp_tol lam1600 th (log_tol * linf (dyl y)) in
  nrm2 (vsub th ts) <= inject_Z (Z.of_nat (length y)) * (tol * tol).
Proof. exact check_hp_case_cycle_sound. Qed.
Print Assumptions C20_cycle1600_case_certifies_trend.

(* log_and_hp_filter(y) = out with l = log y : l - out is certified as the HP trend of l at lam = 1600 *)
Theorem C20_loghp_case_certifies_trend : forall l out ts,
  check_hp_case (CaseLogHP l out) = true -> veq (A lam1600 ts) (dyl l) ->
  let th := minus_trend (dyl l) (dyl out) in
  let tol := hp_tol lam1600 th (log_tol * linf (dyl l)) in
  nrm2 (vsub th ts) <= inject_Z (Z.of_nat (length l)) * (tol * tol).
Proof. exact check_hp_case_loghp_sound. Qed.
Print Assumptions C20_loghp_case_certifies_trend.

(* ---- de-meaned first difference ---- *)
Theorem C20_demean_sums_to_zero : forall x, x <> [] -> qsum (demean x) == 0.
Proof. exact demean_sums_to_zero_lemma. Qed.
Print Assumptions C20_demean_sums_to_zero.

(* np.diff(x, prepend=x[0]) over any carrier X with any subtraction: same length ... *)
Theorem C20_difflog_length : forall (X : Type) (sub : X -> X -> X) x, length (gdiff_prepend sub x) = length x.
Proof. exact @gdiff_prepend_length. Qed.
Print Assumptions C20_difflog_length.

(* ... first element x0 - x0 (zero in any ring; in floating point too for finite x0) ... *)
Theorem C20_diff_prepend_first_is_zero : forall (X : Type) (sub : X -> X -> X) a x,
  hd_error (gdiff_prepend sub (a :: x)) = Some (sub a a).
Proof. exact @gdiff_prepend_first. Qed.
Print Assumptions C20_diff_prepend_first_is_zero.

(* ... and the later elements are the consecutive differences *)
Theorem C20_diff_prepend_nth : forall (X : Type) (sub : X -> X -> X) (d : X) x i, (S i < length x)%nat ->
  nth (S i) (gdiff_prepend sub x) d = sub (nth (S i) x d) (nth i x d).
Proof. exact @gdiff_prepend_nth. Qed.
Print Assumptions C20_diff_prepend_nth.

Theorem C20_diff_demean_length : forall l, length (diff_demean l) = length l.
Proof. exact diff_demean_length. Qed.
Print Assumptions C20_diff_demean_length.

Theorem C20_diff_demean_sums_to_zero : forall l, l <> [] -> qsum (diff_demean l) == 0.
Proof. exact diff_demean_sums_to_zero. Qed.
Print Assumptions C20_diff_demean_sums_to_zero.

(* the mean that is removed is (last - first) / n : the differences telescope *)
Theorem C20_diff_prepend_telescopes : forall a x, qsum (diff_prepend (a :: x)) == last (a :: x) a - a.
Proof. exact diff_prepend_telescopes. Qed.
Print Assumptions C20_diff_prepend_telescopes.

(* ---- the logarithms passed to the algebraic checks are logarithms (verified interval arithmetic, in R) ---- *)
Theorem C20_ln_data_certified : forall y l, check_ln_case (y, l) = true ->
  Forall2 (fun y l => (0 < Q2R y)%R /\ (Rabs (ln (Q2R y) - Q2R l) <= Q2R (ln_tol l))%R) (dyl y) (dyl l).
Proof. exact check_ln_case_sound. Qed.
Print Assumptions C20_ln_data_certified.

(* round 4: a series held in float32 / float16 has its logarithm taken in that format; the values are certified as
   logarithms at the accuracy 2^-k of that format (k is part of the case) *)
Theorem C20_ln_data_certified_at_format_accuracy : forall k y l, check_ln_case_w (k, (y, l)) = true ->
  Forall2 (fun y l => (0 < Q2R y)%R /\ (Rabs (ln (Q2R y) - Q2R l) <= Q2R ((1 # (2 ^ k)) * Qabs l))%R) (dyl y) (dyl l).
Proof. exact check_ln_case_w_sound. Qed.
Print Assumptions C20_ln_data_certified_at_format_accuracy.

(* ---- non-vacuity ---- *)
(* a solution exists for the hypotheses `veq (A lam ts) y`: take any ts and y := A lam ts *)
Example C20_nonvacuous_system :
  A 1600 [1; 2; 4; 7; 11] = [1601 # 1; -1598 # 1; 4 # 1; -1593 # 1; 1611 # 1]
  /\ K [1; 2; 4; 7; 11] = [1 # 1; 1 # 1; 1 # 1] /\ Kt [1; 1; 1] = [1 # 1; -1 # 1; 0 # 1; -1 # 1; 1 # 1].
Proof. vm_compute. auto. Qed.

(* the certificate accepts an exact solution with its exact cycle, rejects the same trend under half the lam,
   a swapped (cycle, trend) pair and a perturbed boundary stencil (trend of a different operator) *)
Example C20_nonvacuous_check :
  let y := [(1601, 0); (-1598, 0); (4, 0); (-1593, 0); (1611, 0)]%Z in
  let t := [(1, 0); (2, 0); (4, 0); (7, 0); (11, 0)]%Z in
  let c := [(1600, 0); (-1600, 0); (0, 0); (-1600, 0); (1600, 0)]%Z in
  check_hp_case (CaseHP (1600, 0)%Z y t c) = true
  /\ check_hp_case (CaseHP (800, 0)%Z y t c) = false
  /\ check_hp_case (CaseHP (1600, 0)%Z y c t) = false
  /\ check_hp_case (CaseCycle1600 y c) = true
  /\ check_hp_case (CaseCycle1600 y t) = false
  /\ check_hp_case (CaseLogHP y c) = true.
Proof. vm_compute. repeat split. Qed.

Example C20_nonvacuous_diff_demean :
  map Qred (diff_demean [1; 3; 2; 6]) = [-5 # 4; 3 # 4; -9 # 4; 11 # 4]
  /\ check_hp_case (CaseDiffDemean [(1, 0); (3, 0); (2, 0); (6, 0)]%Z [(-5, -2); (3, -2); (-9, -2); (11, -2)]%Z) = true
  /\ check_hp_case (CaseDiffDemean [(1, 0); (3, 0); (2, 0); (6, 0)]%Z [(0, 0); (2, 0); (-1, 0); (4, 0)]%Z) = false
  /\ check_hp_case (CaseDiffDemean [(1, 0); (3, 0); (2, 0); (6, 0)]%Z [(3, -2); (-9, -2); (11, -2)]%Z) = false.
Proof. vm_compute. repeat split. Qed.

Example C20_nonvacuous_ln :
  check_ln_case ([(3, 0)]%Z, [(4947709893870347, -52)]%Z) = true        (* math.log(3.0) *)
  /\ check_ln_case ([(3, 0)]%Z, [(4947709893870347 + 1024, -52)]%Z) = false (* 1024 ulp away *)
  /\ check_ln_case ([(0, 0)]%Z, [(0, 0)]%Z) = false                       (* ln 0 undefined *)
  /\ check_ln_case ([(1, 0)]%Z, [(0, 0)]%Z) = true.
Proof. vm_compute. repeat split. Qed.

(* round 4: np.log(np.float32(3)) = 9215828 * 2^-23 is a logarithm at float32 accuracy (k = 19), not at double accuracy
   (k = 44, and the double-precision check rejects it); a value 32 float32-ulps away is rejected at k = 19 *)
Example C20_nonvacuous_ln_at_format_accuracy :
  check_ln_case_w (19%positive, ([(3, 0)]%Z, [(9215828, -23)]%Z)) = true
  /\ check_ln_case_w (44%positive, ([(3, 0)]%Z, [(9215828, -23)]%Z)) = false
  /\ check_ln_case ([(3, 0)]%Z, [(9215828, -23)]%Z) = false
  /\ check_ln_case_w (19%positive, ([(3, 0)]%Z, [(9215828 + 32, -23)]%Z)) = false
  /\ check_ln_case_w (19%positive, ([(0, 0)]%Z, [(0, 0)]%Z)) = false
  /\ check_ln_case_w (8%positive, ([(3, 0)]%Z, [(1125, -10)]%Z)) = true.   (* float16: log(3) = 1.0986328125 *)
Proof. vm_compute. repeat split. Qed.
