(* C19 — the bandit agent and reward follow their published update rules.
   Property theorems only; each is closed by `exact` of a lemma proved in Proofs/BanditP.v.
   Everything is over exact rationals Q; `==` is equality of rationals (Qred in the model only changes the
   representation).  Draws of the random generator are inputs (u, alt): the theorems hold for ALL draws. *)
From Coq Require Import List ZArith QArith Qabs Bool Arith.
From BlackIt Require Import Model.Bandit Proofs.BanditP Proofs.BanditBoundsP.
Import ListNotations.
Open Scope Q_scope.

(* ---------------------------------------------------------------- one learn() *)
(* all other estimates and counts are unchanged (also when a is out of range: nothing changes at all) *)
Theorem C19_learn_touches_only_action : forall alpha s a r b, b <> a ->
  nth_error (qs (learn alpha s a r)) b = nth_error (qs s) b /\
  nth_error (cnts (learn alpha s a r)) b = nth_error (cnts s) b.
Proof. exact learn_touches_only_action. Qed.
Print Assumptions C19_learn_touches_only_action.

(* count += 1 ; Q[a] moves by step * (reward - Q[a]) with the step computed from the incremented count *)
Theorem C19_learn_rule : forall alpha s a r, (a < length (qs s))%nat -> (a < length (cnts s))%nat ->
  nth a (cnts (learn alpha s a r)) 0%nat = S (nth a (cnts s) 0%nat) /\
  nth a (qs (learn alpha s a r)) 0 == nth a (qs s) 0 + step_of alpha (nth a (cnts s) 0%nat) * (r - nth a (qs s) 0).
Proof. exact learn_rule. Qed.
Print Assumptions C19_learn_rule.

Theorem C19_step_sample_average : forall alpha c, alpha == -1 # 1 -> step_of alpha c == 1 / qn (S c).
Proof. exact step_of_sample_average. Qed.
Print Assumptions C19_step_sample_average.

Theorem C19_step_constant : forall alpha c, ~ alpha == -1 # 1 -> step_of alpha c = alpha.
Proof. exact step_of_constant. Qed.
Print Assumptions C19_step_constant.

(* Python's subscripting: a valid action learns, an action >= n_actions raises IndexError and changes nothing *)
Theorem C19_learn_in_range : forall alpha s a r, wf s -> (a < n_act s)%nat ->
  learn_res alpha s a r = (Ok tt, learn alpha s a r).
Proof. exact learn_res_in_range. Qed.
Print Assumptions C19_learn_in_range.

Theorem C19_learn_out_of_range : forall alpha s a r, wf s -> (n_act s <= a)%nat ->
  learn_res alpha s a r = (Raise IndexError, s).
Proof. exact learn_res_out_of_range. Qed.
Print Assumptions C19_learn_out_of_range.

Theorem C19_wf_reachable : forall alpha n v tr, wf (run_learn alpha (init_agent n v) tr) /\ wf (reset (run_learn alpha (init_agent n v) tr)).
Proof. exact wf_reachable. Qed.
Print Assumptions C19_wf_reachable.

(* ---------------------------------------------------------------- any interleaved sequence of learns *)
Theorem C19_count_is_visits : forall alpha a tr s, (a < length (cnts s))%nat ->
  nth a (cnts (run_learn alpha s tr)) 0%nat = (nth a (cnts s) 0%nat + length (rewards_of a tr))%nat.
Proof. exact count_is_visits. Qed.
Print Assumptions C19_count_is_visits.

Theorem C19_unvisited_unchanged : forall alpha a tr s, rewards_of a tr = [] ->
  nth a (qs (run_learn alpha s tr)) 0 = nth a (qs s) 0.
Proof. exact unvisited_unchanged. Qed.
Print Assumptions C19_unvisited_unchanged.

(* alpha = -1, from ANY state (count c0, estimate Q0 of action a), after the rewards rs of a interleaved anyhow
   with learns on other actions:  (c0 + k) * Q_a == c0 * Q0 + sum rs *)
Theorem C19_sample_average_general : forall alpha a tr, alpha == -1 # 1 -> forall s,
  (a < length (qs s))%nat -> (a < length (cnts s))%nat ->
  qn (nth a (cnts s) 0%nat + length (rewards_of a tr)) * nth a (qs (run_learn alpha s tr)) 0
  == qn (nth a (cnts s) 0%nat) * nth a (qs s) 0 + qsum (rewards_of a tr).
Proof. exact sample_average_general. Qed.
Print Assumptions C19_sample_average_general.

(* ... hence from count 0 and k >= 1 rewards the estimate is their mean, whatever the initial estimate was *)
Theorem C19_sample_average_is_mean : forall alpha a tr s, alpha == -1 # 1 ->
  (a < length (qs s))%nat -> (a < length (cnts s))%nat -> nth a (cnts s) 0%nat = 0%nat ->
  rewards_of a tr <> [] ->
  nth a (qs (run_learn alpha s tr)) 0 == qsum (rewards_of a tr) / qn (length (rewards_of a tr)).
Proof. exact sample_average_is_mean. Qed.
Print Assumptions C19_sample_average_is_mean.

Theorem C19_sample_average_from_init : forall alpha n v a tr, alpha == -1 # 1 -> (a < n)%nat -> rewards_of a tr <> [] ->
  nth a (qs (run_learn alpha (init_agent n v) tr)) 0 == qsum (rewards_of a tr) / qn (length (rewards_of a tr)).
Proof. exact sample_average_from_init. Qed.
Print Assumptions C19_sample_average_from_init.

(* alpha <> -1:  Q_k == (1-alpha)^k Q_0 + sum_{i=1..k} alpha (1-alpha)^(k-i) r_i   (wsum is that sum) *)
Theorem C19_constant_alpha_closed_form : forall alpha a tr, ~ alpha == -1 # 1 -> forall s,
  (a < length (qs s))%nat -> (a < length (cnts s))%nat ->
  nth a (qs (run_learn alpha s tr)) 0
  == qpow (1 - alpha) (length (rewards_of a tr)) * nth a (qs s) 0 + wsum alpha (rewards_of a tr).
Proof. exact constant_alpha_closed_form. Qed.
Print Assumptions C19_constant_alpha_closed_form.

(* ---------------------------------------------------------------- policy() *)
(* whenever the draw does not fall below eps the action is in range, of maximal estimate, and the first such *)
Theorem C19_greedy_picks_max : forall eps s u alt a, eps <= u -> policy eps s u alt = Ok a ->
  (a < length (qs s))%nat /\
  (forall j, (j < length (qs s))%nat -> nth j (qs s) 0 <= nth a (qs s) 0) /\
  (forall j, (j < a)%nat -> nth j (qs s) 0 < nth a (qs s) 0).
Proof. exact greedy_picks_max. Qed.
Print Assumptions C19_greedy_picks_max.

(* eps = 0 and a draw in [0,1): always an action of maximal estimate *)
Theorem C19_greedy_picks_max_eps0 : forall eps s u alt a, eps == 0 -> 0 <= u -> policy eps s u alt = Ok a ->
  forall j, (j < length (qs s))%nat -> nth j (qs s) 0 <= nth a (qs s) 0.
Proof. exact greedy_picks_max_eps0. Qed.
Print Assumptions C19_greedy_picks_max_eps0.

Theorem C19_explores_iff_draw_below_eps : forall eps s u alt, qs s <> [] ->
  (u < eps -> policy eps s u alt = Ok alt) /\ (eps <= u -> policy eps s u alt = Ok (argmax (qs s))) /\
  (policy_draws_alt eps u = true <-> u < eps).
Proof. exact explores_iff_draw_below_eps. Qed.
Print Assumptions C19_explores_iff_draw_below_eps.

(* for ANY draw u, given that the generator's choice is one of the offered options: a valid index is returned *)
Theorem C19_policy_in_range : forall eps s u alt, wf s -> (0 < n_act s)%nat -> (alt < n_act s)%nat ->
  exists a, policy eps s u alt = Ok a /\ (a < n_act s)%nat.
Proof. exact policy_in_range. Qed.
Print Assumptions C19_policy_in_range.

Theorem C19_policy_empty_raises : forall eps s u alt, qs s = [] -> policy eps s u alt = Raise ValueError.
Proof. exact policy_empty. Qed.
Print Assumptions C19_policy_empty_raises.

(* every action of the agent loop (policy, learn, policy, ...) is a valid index *)
Theorem C19_loop_actions_in_range : forall alpha eps draws s rewards, wf s -> (0 < n_act s)%nat ->
  Forall (fun d => (snd d < n_act s)%nat) draws ->
  Forall (fun a => (a < n_act s)%nat) (replay alpha eps s draws rewards).
Proof. exact replay_in_range. Qed.
Print Assumptions C19_loop_actions_in_range.

(* determinism: against ANY two environments, equal draws and equal received rewards give equal actions;
   the actions are the open-loop replay of (draws, received rewards) *)
Theorem C19_actions_are_replay : forall alpha eps E draws s hist,
  map fst (closed_loop alpha eps E s hist draws)
  = replay alpha eps s draws (map snd (closed_loop alpha eps E s hist draws)).
Proof. exact closed_loop_replay. Qed.
Print Assumptions C19_actions_are_replay.

Theorem C19_policy_function_of_draws_and_rewards : forall alpha eps E1 E2 s h1 h2 draws,
  map snd (closed_loop alpha eps E1 s h1 draws) = map snd (closed_loop alpha eps E2 s h2 draws) ->
  map fst (closed_loop alpha eps E1 s h1 draws) = map fst (closed_loop alpha eps E2 s h2 draws).
Proof. exact policy_function_of_draws_and_rewards. Qed.
Print Assumptions C19_policy_function_of_draws_and_rewards.

(* ---------------------------------------------------------------- get_reward() *)
Theorem C19_reward_rule : forall cur loss,
  (loss < cur -> ~ cur == 0 -> get_reward (Some cur) loss = (Ok ((cur - loss) / cur), Some loss)) /\
  (~ loss < cur -> get_reward (Some cur) loss = (Ok 0, Some cur)) /\
  (loss < cur -> cur == 0 -> get_reward (Some cur) loss = (Raise ZeroDivisionError, Some cur)) /\
  get_reward None loss = (Raise ValueError, None).
Proof. exact reward_rule. Qed.
Print Assumptions C19_reward_rule.

Theorem C19_reward_in_unit_interval : forall cur loss, 0 <= loss -> loss < cur ->
  0 < (cur - loss) / cur /\ (cur - loss) / cur <= 1.
Proof. exact reward_in_unit_interval. Qed.
Print Assumptions C19_reward_in_unit_interval.

Theorem C19_reference_moves_only_on_improvement : forall ref loss o ref', get_reward ref loss = (o, ref') ->
  ref' = ref \/ (exists cur, ref = Some cur /\ loss < cur /\ ref' = Some loss /\ o = Ok ((cur - loss) / cur)).
Proof. exact reference_moves_only_on_improvement. Qed.
Print Assumptions C19_reference_moves_only_on_improvement.

Theorem C19_reference_kept_without_improvement : forall cur loss o ref', ~ loss < cur ->
  get_reward (Some cur) loss = (o, ref') -> ref' = Some cur /\ o = Ok 0.
Proof. exact reference_kept_without_improvement. Qed.
Print Assumptions C19_reference_kept_without_improvement.

(* after any sequence of calls none of which raised, the reference is the running minimum (the very value, =) *)
Theorem C19_reference_is_running_min : forall ls c0, Forall is_ok (fst (env_run (Some c0) ls)) ->
  snd (env_run (Some c0) ls) = Some (running_min c0 ls).
Proof. exact reference_is_running_min. Qed.
Print Assumptions C19_reference_is_running_min.

Theorem C19_running_min_is_min : forall ls c0,
  In (running_min c0 ls) (c0 :: ls) /\ running_min c0 ls <= c0 /\ Forall (fun x => running_min c0 ls <= x) ls.
Proof. exact running_min_spec. Qed.
Print Assumptions C19_running_min_is_min.

Theorem C19_reference_is_a_seen_loss : forall ls c0, exists m, snd (env_run (Some c0) ls) = Some m /\ In m (c0 :: ls).
Proof. exact reference_is_a_seen_loss. Qed.
Print Assumptions C19_reference_is_a_seen_loss.

Theorem C19_no_raise_when_nonnegative : forall ls c0, Forall (fun x => 0 <= x) ls ->
  Forall is_ok (fst (env_run (Some c0) ls)).
Proof. exact no_raise_when_nonnegative. Qed.
Print Assumptions C19_no_raise_when_nonnegative.

(* ---------------------------------------------------------------- non-vacuity *)
Definition ex_trace : list (nat * Q) := [(1%nat, 2 # 1); (0%nat, 7 # 1); (1%nat, 4 # 1); (2%nat, -1 # 2); (1%nat, 9 # 1)].

(* sample average: three rewards 2,4,9 on action 1 interleaved with others, initial value 5 forgotten: mean 5 *)
Example C19_nonvacuous_sample_average :
  let s := run_learn (-1 # 1) (init_agent 3 (5 # 1)) ex_trace in
  rewards_of 1 ex_trace = [2 # 1; 4 # 1; 9 # 1] /\ cnts s = [1; 3; 1]%nat /\
  Qeq_bool (nth 1 (qs s) 0) (15 # 3) = true /\ Qeq_bool (nth 0 (qs s) 0) (7 # 1) = true.
Proof. vm_compute. auto. Qed.

(* from a state that already has count 2 and estimate 10 the general law applies: (2*10 + 15)/5 = 7 *)
Example C19_nonvacuous_sample_average_general :
  let s0 := mkAgent 3 [0; 10 # 1; 0] [0; 2; 0]%nat in
  Qeq_bool (nth 1 (qs (run_learn (-1 # 1) s0 ex_trace)) 0) (7 # 1) = true.
Proof. vm_compute. reflexivity. Qed.

(* constant alpha = 1/2 from 8: 8 -> 5 -> 9/2 -> 27/4 = (1/2)^3*8 + (1/8*2 + 1/4*4 + 1/2*9) *)
Example C19_nonvacuous_constant_alpha :
  let s := run_learn (1 # 2) (init_agent 3 (8 # 1)) ex_trace in
  Qeq_bool (nth 1 (qs s) 0) (27 # 4) = true /\
  Qeq_bool (qpow (1 - (1 # 2)) 3 * (8 # 1) + wsum (1 # 2) [2 # 1; 4 # 1; 9 # 1]) (27 # 4) = true /\
  Qeq_bool (1 # 2) (-1 # 1) = false.
Proof. vm_compute. auto. Qed.

(* greedy with a tie: first maximal index; exploring: the alternative; the boundary u = eps is greedy *)
Example C19_nonvacuous_policy :
  let s := mkAgent 4 [1 # 1; 3 # 1; 3 # 1; -2 # 1] [0; 0; 0; 0]%nat in
  policy 0 s 0 3 = Ok 1%nat /\ policy (1 # 2) s (1 # 4) 3 = Ok 3%nat /\ policy (1 # 2) s (1 # 2) 3 = Ok 1%nat /\
  policy (1 # 1) s (999 # 1000) 0 = Ok 0%nat /\ policy 0 (init_agent 0 0) 0 0 = Raise ValueError.
Proof. vm_compute. auto. Qed.

(* two DIFFERENT environments (they disagree on action 2, which is never taken) give the same received rewards,
   hence the hypothesis of the determinism theorem is met non-trivially *)
Example C19_nonvacuous_determinism :
  let E1 := fun (_ : list (nat * Q)) (a : nat) => if Nat.eqb a 0 then 1 # 1 else 1 # 2 in
  let E2 := fun (_ : list (nat * Q)) (a : nat) => if Nat.eqb a 0 then 1 # 1 else if Nat.eqb a 2 then 9 # 1 else 1 # 2 in
  let draws := [(9 # 10, 0%nat); (1 # 100, 1%nat); (1 # 2, 2%nat); (0, 1%nat)] in
  let s := init_agent 3 0 in
  map snd (closed_loop (1 # 2) (1 # 10) E1 s [] draws) = map snd (closed_loop (1 # 2) (1 # 10) E2 s [] draws) /\
  map fst (closed_loop (1 # 2) (1 # 10) E1 s [] draws) = [0; 1; 0; 1]%nat /\ E1 [] 2%nat <> E2 [] 2%nat.
Proof. vm_compute. repeat split; auto. discriminate. Qed.

(* rewards: improvement 4 -> 1 gives 3/4 and moves the reference; no improvement gives 0 and keeps it;
   unset reference and a zero reference with a negative loss raise and keep the state *)
Example C19_nonvacuous_reward :
  (let '(o, r) := get_reward (Some (4 # 1)) (1 # 1) in
   match o with Ok x => Qeq_bool x (3 # 4) | _ => false end && oq_eqb r (Some (1 # 1))) = true /\
  get_reward (Some (4 # 1)) (4 # 1) = (Ok 0, Some (4 # 1)) /\
  get_reward (Some (4 # 1)) (6 # 1) = (Ok 0, Some (4 # 1)) /\
  get_reward None (1 # 1) = (Raise ValueError, None) /\
  get_reward (Some 0) (-1 # 1) = (Raise ZeroDivisionError, Some 0).
Proof. vm_compute. auto. Qed.

Example C19_nonvacuous_running_min :
  let ls := [7 # 1; 3 # 1; 4 # 1; 1 # 1; 1 # 1] in
  snd (env_run (Some (5 # 1)) ls) = Some (1 # 1) /\ running_min (5 # 1) ls = 1 # 1 /\
  length (fst (env_run (Some (5 # 1)) ls)) = 5%nat /\
  forallb (fun o => match o with Ok _ => true | Raise _ => false end) (fst (env_run (Some (5 # 1)) ls)) = true.
Proof. vm_compute. auto. Qed.

(* the correspondence checker accepts a faithful observation and rejects a wrong one *)
Example C19_nonvacuous_check_case :
  check_case (2%nat, -1 # 1, 0, 1 # 2,
              [OPolicy (1 # 3) None false 0; OLearn 0 (1 # 1) false (1 # 1) 1; OLearn 0 0 false (1 # 2) 2;
               OFull [1 # 2; 1 # 2] [2; 0]%nat; OPolicy (1 # 3) None false 0;
               OSetRef (Some (2 # 1)); OReward (1 # 1) None (1 # 2) (Some (1 # 1))]) = true /\
  check_case (2%nat, -1 # 1, 0, 1 # 2, [OLearn 0 (1 # 1) false (3 # 4) 1]) = false /\
  check_case (2%nat, -1 # 1, 0, 1 # 2, [OLearn 0 (1 # 1) false (1 # 1) 1; OPolicy (1 # 3) None false 1]) = false.
Proof. vm_compute. auto. Qed.

(* ================================================================== round 4 (generator sweep) *)
(* ---------------------------------------------------------------- alpha / eps reassigned between calls *)
(* The call made while `al` is in force follows the rule for `al`, whatever values were in force before it. *)
Theorem C19_rule_uses_alpha_in_force : forall tr al a r s,
  (a < length (qs s))%nat -> (a < length (cnts s))%nat ->
  let s' := run_learn_v s tr in
  nth a (cnts (run_learn_v s (tr ++ [(al, (a, r))]))) 0%nat = S (nth a (cnts s') 0%nat) /\
  nth a (qs (run_learn_v s (tr ++ [(al, (a, r))]))) 0
  == nth a (qs s') 0 + step_of al (nth a (cnts s') 0%nat) * (r - nth a (qs s') 0).
Proof. exact learn_v_last_rule. Qed.
Print Assumptions C19_rule_uses_alpha_in_force.

(* stretches of calls compose, and a stretch under one alpha is run_learn: the closed forms above apply to each
   stretch from the state the earlier ones left (they are stated from ANY state) *)
Theorem C19_stretches_compose : forall t1 s t2, run_learn_v s (t1 ++ t2) = run_learn_v (run_learn_v s t1) t2.
Proof. exact run_learn_v_app. Qed.
Print Assumptions C19_stretches_compose.

Theorem C19_constant_stretch : forall alpha tr s, run_learn_v s (map (fun ar => (alpha, ar)) tr) = run_learn alpha s tr.
Proof. exact run_learn_v_const. Qed.
Print Assumptions C19_constant_stretch.

Theorem C19_count_is_visits_any_alphas : forall a tr s, (a < length (cnts s))%nat ->
  nth a (cnts (run_learn_v s tr)) 0%nat = (nth a (cnts s) 0%nat + length (rewards_of_v a tr))%nat.
Proof. exact count_is_visits_v. Qed.
Print Assumptions C19_count_is_visits_any_alphas.

Theorem C19_unvisited_unchanged_any_alphas : forall a tr s, rewards_of_v a tr = [] ->
  nth a (qs (run_learn_v s tr)) 0 = nth a (qs s) 0.
Proof. exact unvisited_unchanged_v. Qed.
Print Assumptions C19_unvisited_unchanged_any_alphas.

Theorem C19_loop_with_constant_attributes : forall alpha eps draws s rewards,
  replay_v s (map (fun d => ((alpha, eps), d)) draws) rewards = replay alpha eps s draws rewards.
Proof. exact replay_v_const. Qed.
Print Assumptions C19_loop_with_constant_attributes.

Theorem C19_loop_actions_in_range_any_attributes : forall rounds s rewards, wf s -> (0 < n_act s)%nat ->
  Forall (fun x => (snd (snd x) < n_act s)%nat) rounds ->
  Forall (fun a => (a < n_act s)%nat) (replay_v s rounds rewards).
Proof. exact replay_v_in_range. Qed.
Print Assumptions C19_loop_actions_in_range_any_attributes.

(* a round played while the eps in force is not above the draw (eps = 0: always) picks a maximal estimate *)
Theorem C19_round_greedy_under_eps_in_force : forall s al ep d ds r rs, ep <= fst d -> qs s <> [] ->
  exists a, replay_v s (((al, ep), d) :: ds) (r :: rs) = a :: replay_v (learn al s a r) ds rs /\
            (a < length (qs s))%nat /\ (forall j, (j < length (qs s))%nat -> nth j (qs s) 0 <= nth a (qs s) 0).
Proof. exact replay_v_greedy_round. Qed.
Print Assumptions C19_round_greedy_under_eps_in_force.

(* ---------------------------------------------------------------- env.step / env.reset *)
Theorem C19_step_end_marker_keeps_reference : forall ref, env_step true ref None = (Ok (0, true), ref).
Proof. exact step_end_keeps_reference. Qed.
Print Assumptions C19_step_end_marker_keeps_reference.

Theorem C19_step_is_get_reward : forall ref loss,
  env_step true ref (Some loss) =
  (match fst (get_reward ref loss) with Ok r => Ok (r, false) | Raise e => Raise e end, snd (get_reward ref loss)).
Proof. exact step_is_get_reward. Qed.
Print Assumptions C19_step_is_get_reward.

Theorem C19_step_invalid_action_changes_nothing : forall ref msg, env_step false ref msg = (Raise OtherError, ref).
Proof. exact step_invalid_action. Qed.
Print Assumptions C19_step_invalid_action_changes_nothing.

Theorem C19_env_reset_keeps_reference : forall ref, env_reset ref = ref.
Proof. exact env_reset_keeps_reference. Qed.
Print Assumptions C19_env_reset_keeps_reference.

(* over any number of sessions the reference is the running minimum of the losses: end markers do not touch it *)
Theorem C19_reference_across_sessions : forall msgs ref, snd (env_steps ref msgs) = snd (env_run ref (losses_of msgs)).
Proof. exact env_steps_reference. Qed.
Print Assumptions C19_reference_across_sessions.

Theorem C19_reference_is_running_min_across_sessions : forall msgs c0,
  Forall is_ok (fst (env_run (Some c0) (losses_of msgs))) ->
  snd (env_steps (Some c0) msgs) = Some (running_min c0 (losses_of msgs)).
Proof. exact env_steps_running_min. Qed.
Print Assumptions C19_reference_is_running_min_across_sessions.

(* the extended correspondence checker agrees with the first one on sequences without the new operations *)
Theorem C19_extended_checker_conservative : forall n alpha eps init ops,
  check_xcase (n, alpha, eps, init, map XOp ops) = check_case (n, alpha, eps, init, ops).
Proof. exact check_xcase_conservative. Qed.
Print Assumptions C19_extended_checker_conservative.

(* ---------------------------------------------------------------- non-vacuity (round 4) *)
(* alpha 1/2 for one call on action 1, then the sample-average sentinel: from (count 1, estimate 5) the reward 9
   gives 5 + 1/2 (9 - 5) = 7 *)
Example C19_nonvacuous_alpha_in_force :
  let s := run_learn_v (init_agent 2 (8 # 1)) [(1 # 2, (1%nat, 2 # 1)); (-1 # 1, (1%nat, 9 # 1)); (1 # 2, (0%nat, 0))] in
  Qeq_bool (nth 1 (qs s) 0) (7 # 1) = true /\ Qeq_bool (nth 0 (qs s) 0) (4 # 1) = true /\ cnts s = [1; 2]%nat.
Proof. vm_compute. auto. Qed.

(* two sessions: 5 -> 3 (reward 2/5), end marker, 4 (no improvement), 1 (reward 2/3): reference 1 *)
Example C19_nonvacuous_sessions :
  let msgs := [Some (3 # 1); None; Some (4 # 1); Some (1 # 1)] in
  snd (env_steps (Some (5 # 1)) msgs) = Some (1 # 1) /\ losses_of msgs = [3 # 1; 4 # 1; 1 # 1] /\
  nth 1 (fst (env_steps (Some (5 # 1)) msgs)) (Raise OtherError) = Ok (0, true) /\
  env_step false (Some (5 # 1)) (Some (3 # 1)) = (Raise OtherError, Some (5 # 1)).
Proof. vm_compute. auto. Qed.

(* the extended checker accepts a faithful observation with reassigned attributes and rejects one that kept the
   constructor's alpha, one that kept the old estimates, and a step that lost the reference at the end marker *)
Example C19_nonvacuous_check_xcase :
  check_xcase (2%nat, -1 # 1, 0, 1 # 2,
               [XOp (OLearn 0 (1 # 1) false (1 # 1) 1); XSetAlpha (1 # 2); XOp (OLearn 0 0 false (1 # 2) 2);
                XSetQ [0; 3 # 1]; XSetC [5; 1]%nat; XOp (OPolicy (1 # 3) None false 1);
                XSetAlpha (-1 # 1); XOp (OLearn 1 (1 # 1) false (2 # 1) 2);
                XSetEps (1 # 2); XOp (OPolicy (1 # 3) (Some 0%nat) false 0);
                XOp (OSetRef (Some (2 # 1))); XStep true (Some (1 # 1)) None (1 # 2) false (Some (1 # 1));
                XStep true None None 0 true (Some (1 # 1)); XEnvReset;
                XStep true (Some (1 # 2)) None (1 # 2) false (Some (1 # 2));
                XStep false (Some (1 # 4)) (Some OtherError) 0 false (Some (1 # 2))]) = true /\
  check_xcase (2%nat, -1 # 1, 0, 1 # 2,
               [XOp (OLearn 0 (1 # 1) false (1 # 1) 1); XSetAlpha (1 # 2); XOp (OLearn 0 0 false (1 # 2) 2)]) = true /\
  check_xcase (2%nat, -1 # 1, 0, 1 # 2,
               [XOp (OLearn 0 (1 # 1) false (1 # 1) 1); XSetAlpha (1 # 4); XOp (OLearn 0 0 false (1 # 2) 2)]) = false /\
  check_xcase (2%nat, -1 # 1, 0, 1 # 2, [XSetQ [0; 3 # 1]; XOp (OPolicy (1 # 3) None false 0)]) = false /\
  check_xcase (2%nat, -1 # 1, 0, 1 # 2,
               [XOp (OSetRef (Some (2 # 1))); XStep true None None 0 true None]) = false.
Proof. vm_compute. auto. Qed.

(* ================================================================== round 5 *)
(* ---------------------------------------------------------------- estimates are convex combinations *)
(* alpha_ok: the sample-average sentinel or a constant rate in [0,1].  The step of every learn() is then in [0,1] *)
Theorem C19_step_in_unit_interval : forall alpha c, alpha_ok alpha -> 0 <= step_of alpha c /\ step_of alpha c <= 1.
Proof. exact step_of_unit. Qed.
Print Assumptions C19_step_in_unit_interval.

(* ... so after ANY sequence of learn calls (each with the rate then in force, actions interleaved anyhow, valid or
   not) every estimate lies in any interval [lo,hi] that contained the estimates before and the rewards received *)
Theorem C19_estimates_stay_in_hull : forall lo hi tr s,
  Forall (fun x => alpha_ok (fst x) /\ within lo hi (snd (snd x))) tr ->
  Forall (within lo hi) (qs s) -> Forall (within lo hi) (qs (run_learn_v s tr)).
Proof. exact run_learn_v_within. Qed.
Print Assumptions C19_estimates_stay_in_hull.

Theorem C19_estimates_stay_in_hull_from_init : forall lo hi alpha n v tr, alpha_ok alpha -> within lo hi v ->
  Forall (fun ar => within lo hi (snd ar)) tr ->
  Forall (within lo hi) (qs (run_learn alpha (init_agent n v) tr)).
Proof. exact estimates_within_from_init. Qed.
Print Assumptions C19_estimates_stay_in_hull_from_init.

(* the environment's rewards for non-negative losses are in [0,1] (those that do not raise): with lo = 0, hi = 1 the
   hypothesis of the hull theorem is met by the real reward stream *)
Theorem C19_env_rewards_in_unit_interval : forall ls c0, 0 <= c0 -> Forall (fun x => 0 <= x) ls ->
  Forall (fun o => match o with Ok r => within 0 1 r | Raise _ => True end) (fst (env_run (Some c0) ls)).
Proof. exact env_rewards_in_unit. Qed.
Print Assumptions C19_env_rewards_in_unit_interval.

(* the hypothesis alpha_ok is needed: alpha = 3/2 overshoots the reward *)
Theorem C19_overshoot_outside_unit_alpha : 1 < nth 0 (qs (run_learn (3 # 2) (init_agent 1 0) [(0%nat, 1 # 1)])) 0.
Proof. exact overshoot_witness. Qed.
Print Assumptions C19_overshoot_outside_unit_alpha.

(* every update multiplies the error to the reward just received by (1 - step) ... *)
Theorem C19_update_scales_error : forall alpha s a r, (a < length (qs s))%nat -> (a < length (cnts s))%nat ->
  nth a (qs (learn alpha s a r)) 0 - r == (1 - step_of alpha (nth a (cnts s) 0%nat)) * (nth a (qs s) 0 - r).
Proof. exact learn_error. Qed.
Print Assumptions C19_update_scales_error.

(* ... so for an admissible rate the estimate moves toward the reward: the error never grows nor changes sign *)
Theorem C19_update_never_overshoots : forall alpha s a r, alpha_ok alpha ->
  (a < length (qs s))%nat -> (a < length (cnts s))%nat ->
  Qabs (nth a (qs (learn alpha s a r)) 0 - r) <= Qabs (nth a (qs s) 0 - r) /\
  0 <= (nth a (qs (learn alpha s a r)) 0 - r) * (nth a (qs s) 0 - r).
Proof. exact learn_no_overshoot. Qed.
Print Assumptions C19_update_never_overshoots.

(* a full step (alpha = 1, or the first visit in the sample-average setting) sets the estimate to the reward *)
Theorem C19_full_step_takes_reward : forall alpha s a r, (a < length (qs s))%nat -> (a < length (cnts s))%nat ->
  step_of alpha (nth a (cnts s) 0%nat) == 1 -> nth a (qs (learn alpha s a r)) 0 == r.
Proof. exact learn_full_step. Qed.
Print Assumptions C19_full_step_takes_reward.

Example C19_nonvacuous_full_step :
  Qeq_bool (step_of (-1 # 1) 0) 1 = true /\ Qeq_bool (step_of (1 # 1) 7) 1 = true /\
  Qeq_bool (nth 1 (qs (learn (-1 # 1) (init_agent 3 (5 # 1)) 1 (2 # 1))) 0) (2 # 1) = true.
Proof. vm_compute. auto. Qed.

(* non-vacuity: the example trace has rewards in [-1/2, 9]; the initial value 5 is inside; so are all estimates *)
Example C19_nonvacuous_hull :
  let s := run_learn (-1 # 1) (init_agent 3 (5 # 1)) ex_trace in
  forallb (fun q => Qle_bool (-1 # 2) q && Qle_bool q (9 # 1)) (qs s) = true /\
  forallb (fun ar => Qle_bool (-1 # 2) (snd ar) && Qle_bool (snd ar) (9 # 1)) ex_trace = true.
Proof. vm_compute. auto. Qed.
