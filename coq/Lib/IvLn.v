(* Verified enclosure test for natural logarithms of rationals, on top of CoqInterval's floating-point
   interval arithmetic (FloatIntervalFull over SpecificFloat BigIntRadix2, 64-bit precision).
   `ln_close y l w = true` PROVES  0 < y  and  |ln y - l| <= w  (ln_close_sound); `false` proves nothing.
   Division by zero and ln of a non-positive number give Xnan / Inan, for which the sign test answers Xund,
   so a `true` also certifies that the expression is defined. *)
From Coq Require Import Reals ZArith QArith Qreals List Lra.
From Interval Require Import Interval.Interval Interval.Float Interval.Float_full Float.Specific_ops
  Float.Specific_bigint Real.Xreal Float.Basic.

Module F := SpecificFloat BigIntRadix2.
Module I := FloatIntervalFull F.

Definition iv_prec : I.precision := F.PtoP 64.

(* enclosure of a rational (a point interval whenever the denominator is a power of two and the numerator
   has at most 64 bits, which is the case for every injected binary64 value) *)
Definition iq (q : Q) : I.type :=
  I.div iv_prec (I.fromZ iv_prec (Qnum q)) (I.fromZ iv_prec (Zpos (Qden q))).

Definition ln_gap (y l w : Q) : I.type :=
  I.sub iv_prec (I.abs (I.sub iv_prec (I.ln iv_prec (iq y)) (iq l))) (iq w).

Definition ln_close (y l w : Q) : bool :=
  match I.sign_large (ln_gap y l w) with
  | Xlt | Xeq => true
  | _ => false
  end.

Lemma iq_correct q : contains (I.convert (iq q)) (Xreal (Q2R q)).
Proof.
  unfold iq.
  replace (Xreal (Q2R q)) with (Xdiv (Xreal (IZR (Qnum q))) (Xreal (IZR (Zpos (Qden q))))).
  - apply I.div_correct; apply I.fromZ_correct.
  - cbn [Xdiv Xbind2]. unfold Xdiv'.
    assert (H : is_zero (IZR (Z.pos (Qden q))) = false).
    { unfold is_zero. apply Raux.Req_bool_false. apply not_0_IZR. discriminate. }
    rewrite H. unfold Q2R, Rdiv. reflexivity.
Qed.

Definition ln_gap_x (y l w : Q) : ExtendedR :=
  Xsub (Xabs (Xsub (Xln (Xreal (Q2R y))) (Xreal (Q2R l)))) (Xreal (Q2R w)).

Lemma ln_gap_correct y l w : contains (I.convert (ln_gap y l w)) (ln_gap_x y l w).
Proof.
  unfold ln_gap, ln_gap_x.
  apply I.sub_correct; [|apply iq_correct].
  apply I.abs_correct.
  apply I.sub_correct; [|apply iq_correct].
  apply I.ln_correct. apply iq_correct.
Qed.

Theorem ln_close_sound y l w : ln_close y l w = true ->
  (0 < Q2R y)%R /\ (Rabs (ln (Q2R y) - Q2R l) <= Q2R w)%R.
Proof.
  unfold ln_close. intros H.
  pose proof (I.sign_large_correct (ln_gap y l w)) as S.
  pose proof (ln_gap_correct y l w) as C.
  assert (G : exists v, ln_gap_x y l w = Xreal v /\ (v <= 0)%R).
  { destruct (I.sign_large (ln_gap y l w)); try discriminate.
    - specialize (S _ C). exists 0%R. split; [exact S | lra].
    - specialize (S _ C). destruct S as [E Le]. eexists; split; [exact E | exact Le]. }
  destruct G as (v & E & Le). clear H S C.
  unfold ln_gap_x in E. cbn [Xln Xbind] in E. unfold Xln' in E.
  destruct (is_positive (Q2R y)) eqn:P.
  - cbn in E. injection E as E. split.
    + unfold is_positive in P. destruct (Raux.Rlt_bool_spec 0 (Q2R y)); [assumption | discriminate].
    + lra.
  - cbn in E. discriminate.
Qed.
