(* Helpers shared by all generated correspondence files (cases_*.v). *)
From Coq Require Import List.
Import ListNotations.

Fixpoint mismatches_from {A} (f : A -> bool) (k : nat) (l : list A) : list nat :=
  match l with [] => [] | c :: r => if f c then mismatches_from f (S k) r else k :: mismatches_from f (S k) r end.
(* indices of the cases on which model and implementation disagree *)
Definition mismatches {A} (f : A -> bool) (l : list A) : list nat := mismatches_from f 0 l.
