(* Verified interval evaluation of CoqInterval's [Tree.expr] and of straight-line programs over it.

   [eval_i prec e bounds]  : interval enclosure of the expression (FloatIntervalFull over BigIntRadix2 floats)
   [eval_x e xs]           : its value in the extended reals (division by zero, ln of a non-positive number,
                             negative powers of zero are [Xnan])
   [Tree.eval e vs]        : CoqInterval's plain real-valued semantics (the *definition* the specs denote)

   Soundness chain:  eval_i_sound (interval contains the extended value)  ->  eval_x_real (a real extended value is
   Tree.eval)  ->  eval_tree_sound / enclosure_sound.  A *bounded* enclosure therefore proves that the expression is
   defined (no x/0, no ln of a non-positive number); the one total operation is sqrt (0 on negatives, as in Coq's Reals).

   Programs ([list expr], "let"-sharing): definition k may refer to the inputs and to definitions < k through
   [Evar (length inputs + j)]; [run_*] return the environment extended with all results. *)
From Coq Require Import Reals ZArith List Lra Lia Bool.
From Interval Require Import Eval.Tree Interval.Interval Interval.Float Interval.Float_full Float.Specific_ops
  Float.Specific_bigint Real.Xreal Float.Basic.
Import ListNotations.

Module F := SpecificFloat BigIntRadix2.
Module I := FloatIntervalFull F.

Definition prec80 : I.precision := F.PtoP 80.

(* ------------------------------------------------------------------ evaluators *)
Fixpoint eval_x (e : expr) (env : list ExtendedR) : ExtendedR :=
  match e with
  | Evar n => nth n env Xnan
  | Econst (Int z) => Xreal (IZR z)
  | Econst Pi => Xreal PI
  | Econst (Bpow _ _) => Xnan
  | Eunary o a => let x := eval_x a env in
     match o with
     | Neg => Xneg x | Abs => Xabs x | Inv => Xinv x | Sqr => Xsqr x | Sqrt => Xsqrt x
     | Cos => Xcos x | Sin => Xsin x | Exp => Xexp x | Ln => Xln x | PowerInt n => Xpower_int x n
     | _ => Xnan end
  | Ebinary o a b => let x := eval_x a env in let y := eval_x b env in
     match o with Add => Xadd x y | Sub => Xsub x y | Mul => Xmul x y | Div => Xdiv x y end
  end.

Fixpoint eval_i (prec : I.precision) (e : expr) (env : list I.type) : I.type :=
  match e with
  | Evar n => nth n env I.nai
  | Econst (Int z) => I.fromZ prec z
  | Econst Pi => I.pi prec
  | Econst (Bpow _ _) => I.nai
  | Eunary o a => let x := eval_i prec a env in
     match o with
     | Neg => I.neg x | Abs => I.abs x | Inv => I.inv prec x | Sqr => I.sqr prec x | Sqrt => I.sqrt prec x
     | Cos => I.cos prec x | Sin => I.sin prec x | Exp => I.exp prec x | Ln => I.ln prec x
     | PowerInt n => I.power_int prec x n
     | _ => I.nai end
  | Ebinary o a b => let x := eval_i prec a env in let y := eval_i prec b env in
     match o with Add => I.add prec x y | Sub => I.sub prec x y | Mul => I.mul prec x y | Div => I.div prec x y end
  end.

Definition env_ok (bs : list I.type) (xs : list ExtendedR) : Prop :=
  forall n, contains (I.convert (nth n bs I.nai)) (nth n xs Xnan).

Lemma nai_contains x : contains (I.convert I.nai) x.
Proof. rewrite I.nai_correct; exact I. Qed.

Theorem eval_i_sound prec e bs xs : env_ok bs xs -> contains (I.convert (eval_i prec e bs)) (eval_x e xs).
Proof.
  intros Henv; induction e as [n | c | o a IHa | o a IHa b IHb]; cbn [eval_i eval_x].
  - apply Henv.
  - destruct c as [z | r n | ]; [apply I.fromZ_correct | apply nai_contains | apply I.pi_correct].
  - destruct o; try apply nai_contains.
    + now apply I.neg_correct. + now apply I.abs_correct. + now apply I.inv_correct.
    + now apply I.sqr_correct. + now apply I.sqrt_correct. + now apply I.cos_correct.
    + now apply I.sin_correct. + now apply I.exp_correct. + now apply I.ln_correct.
    + now apply I.power_int_correct.
  - destruct o.
    + now apply I.add_correct. + now apply I.sub_correct. + now apply I.mul_correct. + now apply I.div_correct.
Qed.

Lemma nth_map_Xreal vs n r : nth n (map Xreal vs) Xnan = Xreal r -> nth n vs 0%R = r.
Proof.
  revert n; induction vs as [|v vs IH]; intros [|n]; cbn; try discriminate.
  - now intros [= ->].
  - apply IH.
Qed.

(* bridge to the plain real semantics Tree.eval *)
Lemma eval_x_real e vs r : eval_x e (map Xreal vs) = Xreal r -> Tree.eval e vs = r.
Proof.
  revert r; induction e as [n | c | o a IHa | o a IHa b IHb]; intros r; cbn [eval_x Tree.eval].
  - apply nth_map_Xreal.
  - destruct c; cbn; try discriminate; now intros [= <-].
  - destruct (eval_x a (map Xreal vs)) as [|x] eqn:Ea; [destruct o; discriminate|].
    specialize (IHa x eq_refl); rewrite IHa.
    destruct o as [ | | | | | | | | | | | z | m | m emin p]; cbn; try discriminate; try (now intros [= <-]).
    + unfold Xinv'. destruct (is_zero x); [discriminate | now intros [= <-]].
    + unfold Xln'. destruct (is_positive x); [now intros [= <-] | discriminate].
    + unfold Xpower_int'. destruct z as [|p|p]; cbn; try (now intros [= <-]).
      destruct (is_zero x); [discriminate | now intros [= <-]].
  - destruct (eval_x a (map Xreal vs)) as [|x] eqn:Ea; [destruct o; discriminate|].
    destruct (eval_x b (map Xreal vs)) as [|y] eqn:Eb; [destruct o; discriminate|].
    rewrite (IHa x eq_refl), (IHb y eq_refl).
    destruct o; cbn; try (now intros [= <-]).
    unfold Xdiv'. destruct (is_zero y); [discriminate | now intros [= <-]].
Qed.

(* the enclosure always contains the real value of the definition (an undefined sub-term makes it Inan) *)
Theorem eval_tree_sound prec e (bs : list I.type) (vs : list R) :
  env_ok bs (map Xreal vs) ->
  contains (I.convert (eval_i prec e bs)) (Xreal (Tree.eval e vs)).
Proof.
  intros Henv. pose proof (eval_i_sound prec e bs _ Henv) as H.
  destruct (eval_x e (map Xreal vs)) as [|r] eqn:E.
  - destruct (I.convert (eval_i prec e bs)); [exact I | contradiction].
  - now rewrite (eval_x_real _ _ _ E).
Qed.

(* a bounded enclosure certifies that the definition is defined, and brackets its value *)
Theorem enclosure_sound prec e (bs : list I.type) (vs : list R) lo hi :
  env_ok bs (map Xreal vs) ->
  I.convert (eval_i prec e bs) = Interval.Ibnd (Xreal lo) (Xreal hi) ->
  eval_x e (map Xreal vs) = Xreal (Tree.eval e vs) /\ (lo <= Tree.eval e vs <= hi)%R.
Proof.
  intros Henv Hc. pose proof (eval_i_sound prec e bs _ Henv) as H. rewrite Hc in H.
  destruct (eval_x e (map Xreal vs)) as [|r] eqn:E; [contradiction|].
  now rewrite (eval_x_real _ _ _ E).
Qed.

(* ------------------------------------------------------------------ straight-line programs *)
Fixpoint run_i (prec : I.precision) (p : list expr) (env : list I.type) : list I.type :=
  match p with [] => env | e :: p' => run_i prec p' (env ++ [eval_i prec e env]) end.
Fixpoint run_x (p : list expr) (env : list ExtendedR) : list ExtendedR :=
  match p with [] => env | e :: p' => run_x p' (env ++ [eval_x e env]) end.
Fixpoint run_r (p : list expr) (env : list R) : list R :=
  match p with [] => env | e :: p' => run_r p' (env ++ [Tree.eval e env]) end.

Lemma env_ok_snoc bs xs b x : length bs = length xs -> env_ok bs xs -> contains (I.convert b) x ->
  env_ok (bs ++ [b]) (xs ++ [x]).
Proof.
  intros Hl H Hb n. destruct (Nat.lt_ge_cases n (length bs)) as [Hn|Hn].
  - rewrite app_nth1 by exact Hn. rewrite app_nth1 by (rewrite <- Hl; exact Hn). apply H.
  - rewrite (app_nth2 bs) by exact Hn. rewrite (app_nth2 xs) by (rewrite <- Hl; exact Hn). rewrite <- Hl.
    destruct (n - length bs) as [|[|k]]; cbn [nth]; try assumption; apply nai_contains.
Qed.

Theorem run_i_sound prec p : forall bs xs, length bs = length xs -> env_ok bs xs ->
  length (run_i prec p bs) = length (run_x p xs) /\ env_ok (run_i prec p bs) (run_x p xs).
Proof.
  induction p as [|e p IH]; intros bs xs Hl H; cbn; [now split|].
  apply IH; [now rewrite !app_length, Hl|].
  apply env_ok_snoc; auto. now apply eval_i_sound.
Qed.

(* every entry of the extended-real run that is a real number is the corresponding entry of the real run *)
Definition xr_agree (xs : list ExtendedR) (vs : list R) : Prop :=
  length xs = length vs /\ forall n r, nth n xs Xnan = Xreal r -> nth n vs 0%R = r.

Lemma eval_x_agree e xs vs r : xr_agree xs vs -> eval_x e xs = Xreal r -> Tree.eval e vs = r.
Proof.
  intros [_ H]; revert r; induction e as [n | c | o a IHa | o a IHa b IHb]; intros r; cbn [eval_x Tree.eval].
  - apply H.
  - destruct c; cbn; try discriminate; now intros [= <-].
  - destruct (eval_x a xs) as [|x] eqn:Ea; [destruct o; discriminate|].
    specialize (IHa x eq_refl); rewrite IHa.
    destruct o as [ | | | | | | | | | | | z | m | m emin p]; cbn; try discriminate; try (now intros [= <-]).
    + unfold Xinv'. destruct (is_zero x); [discriminate | now intros [= <-]].
    + unfold Xln'. destruct (is_positive x); [now intros [= <-] | discriminate].
    + unfold Xpower_int'. destruct z as [|p|p]; cbn; try (now intros [= <-]).
      destruct (is_zero x); [discriminate | now intros [= <-]].
  - destruct (eval_x a xs) as [|x] eqn:Ea; [destruct o; discriminate|].
    destruct (eval_x b xs) as [|y] eqn:Eb; [destruct o; discriminate|].
    rewrite (IHa x eq_refl), (IHb y eq_refl).
    destruct o; cbn; try (now intros [= <-]).
    unfold Xdiv'. destruct (is_zero y); [discriminate | now intros [= <-]].
Qed.

Lemma xr_agree_snoc xs vs x v : xr_agree xs vs -> (forall r, x = Xreal r -> v = r) -> xr_agree (xs ++ [x]) (vs ++ [v]).
Proof.
  intros [Hl H] Hx; split; [now rewrite !app_length, Hl|].
  intros n r. destruct (Nat.lt_ge_cases n (length xs)) as [Hn|Hn].
  - rewrite app_nth1 by exact Hn. rewrite app_nth1 by (rewrite <- Hl; exact Hn). apply H.
  - rewrite (app_nth2 xs) by exact Hn. rewrite (app_nth2 vs) by (rewrite <- Hl; exact Hn). rewrite <- Hl.
    destruct (n - length xs) as [|[|k]]; cbn [nth]; try discriminate. apply Hx.
Qed.

Theorem run_x_agree p : forall xs vs, xr_agree xs vs -> xr_agree (run_x p xs) (run_r p vs).
Proof.
  induction p as [|e p IH]; intros xs vs H; cbn; [exact H|].
  apply IH, xr_agree_snoc; [exact H|]. intros r Hr. now apply (eval_x_agree e xs vs r).
Qed.

(* programs: the k-th interval of the run contains the k-th real of the run *)
Theorem run_tree_sound prec p n :
  contains (I.convert (nth n (run_i prec p []) I.nai)) (Xreal (nth n (run_r p []) 0%R)).
Proof.
  assert (H0 : env_ok [] []) by (intros [|k]; apply nai_contains).
  destruct (run_i_sound prec p [] [] eq_refl H0) as [_ H].
  assert (Ha : xr_agree [] []) by (split; [reflexivity | intros [|k] r; discriminate]).
  pose proof (run_x_agree p [] [] Ha) as [_ Hx].
  specialize (H n). destruct (nth n (run_x p []) Xnan) as [|r] eqn:E.
  - destruct (I.convert (nth n (run_i prec p []) I.nai)); [exact I | contradiction].
  - now rewrite (Hx n r E).
Qed.

(* ------------------------------------------------------------------ certified comparison *)
(* upper bound of a <= lower bound of b, both bounded *)
Definition le_cert (a b : I.type) : bool :=
  match a, b with
  | Ibnd _ ua, Ibnd lb _ => I.F'.le' ua lb
  | _, _ => false
  end.

Lemma le_cert_sound a b x y :
  contains (I.convert a) (Xreal x) -> contains (I.convert b) (Xreal y) -> le_cert a b = true -> (x <= y)%R.
Proof.
  destruct a as [|la ua]; destruct b as [|lb ub]; cbn [le_cert]; try discriminate.
  intros Ha Hb Hle. apply I.F'.le'_correct in Hle.
  unfold I.convert in Ha, Hb.
  destruct (I.F.valid_lb la && I.F.valid_ub ua); [|cbn in Ha; lra].
  destruct (I.F.valid_lb lb && I.F.valid_ub ub); [|cbn in Hb; lra].
  cbn in Ha, Hb.
  destruct (I.F.toX ua) as [|u]; [contradiction|]. destruct (I.F.toX lb) as [|l]; [contradiction|].
  destruct Ha as [_ Ha]. destruct Hb as [Hb _]. lra.
Qed.

Definition bounded (a : I.type) : bool :=
  match a with Ibnd l u => I.F.real l && I.F.real u | _ => false end.

(* entries i and j of a closed program satisfy  value_i <= value_j *)
Definition prog_le (prec : I.precision) (p : list expr) (i j : nat) : bool :=
  let r := run_i prec p [] in le_cert (nth i r I.nai) (nth j r I.nai).

Theorem prog_le_sound prec p i j : prog_le prec p i j = true ->
  (nth i (run_r p []) 0 <= nth j (run_r p []) 0)%R.
Proof.
  unfold prog_le; intros H.
  exact (le_cert_sound _ _ _ _ (run_tree_sound prec p i) (run_tree_sound prec p j) H).
Qed.
