(* Exact injection of binary64 literals into dyadic pairs (m, e) = m * 2^e, used only by the generated
   correspondence files (cases_*.v): a hexadecimal float literal is read by Coq's native float parser (about 40x
   faster than a decimal Z numeral built from constructors) and decomposed with Prim2SF.  Zero gives (0, 0);
   infinities and NaN never reach Coq (the harness reports them as oracle failures first) and are mapped to the
   poison value (1, 2000000), far outside every tolerance.  No theorem depends on this file. *)
From Coq Require Import ZArith List Floats.

Definition fd (f : float) : Z * Z :=
  match Prim2SF f with
  | S754_zero _ => (0, 0)%Z
  | S754_finite s m e => ((if s then Z.neg m else Z.pos m), e)
  | _ => (1, 2000000)%Z
  end.
Definition fdl (l : list float) : list (Z * Z) := map fd l.
