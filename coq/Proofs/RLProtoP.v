(* Proofs about the scheduler-agent protocol of Model/RLProto.v.

   Part 1: facts that hold for EVERY schedule under both protocols (FIFO consumption, valid indices).
   Part 2: the repaired protocol `step`: an inductive invariant linking the two program counters with the queue
           contents, preserved by every enabled step, from which follow - for every schedule and any number of
           sessions and batches - refinement of the sequential specification seq_sessions, absence of deadlock,
           empty queues between sessions, and that nothing is learnt that was not executed.
   Part 3: properties of the sequential specification (learn once per chosen batch, reward of that very batch).
   Part 4: termination measure; existence of complete schedules.
   Part 5: the protocol before the repair: refutations by explicit schedules. *)
From Coq Require Import List ZArith QArith Bool Arith Lia.
From BlackIt Require Import Model.RLProto.
Import ListNotations.
Local Open Scope nat_scope.

Arguments reward : simpl never.
Arguments reward_raises : simpl never.
Arguments better : simpl never.
Arguments RLProto.choose : simpl never.
Arguments RLProto.m_head : simpl never.
Arguments RLProto.next_session : simpl never.
Arguments RLProto.seq_session : simpl never.
Arguments RLProto.seq_sessions : simpl never.

(* ------------------------------------------------------------------------------------------------ generic *)
Section Generic.
  Variable St : Type.
  Variable stp : St -> tid -> option St.
  Let pick' (s : St) (t : tid) : St := match stp s t with Some s' => s' | None => s end.

  Lemma fold_pick_inv (P : St -> Prop) :
    (forall s t s', P s -> stp s t = Some s' -> P s') ->
    forall sigma s, P s -> P (fold_left pick' sigma s).
  Proof.
    intros Hstep sigma. induction sigma as [|t sg IH]; intros s Hs; simpl; auto.
    apply IH. unfold pick'. destruct (stp s t) eqn:E; eauto.
  Qed.
End Generic.

Section Proofs.
  Variable AS : Type.
  Variable policy : AS -> nat * AS.
  Variable learn : AS -> nat -> Q -> AS.
  Variable nsam halton : nat.
  Variable loss : nat -> Q.

  Notation state := (state AS).
  Notation stepN := (step AS policy learn nsam halton loss).
  Notation stepO := (step_old AS policy learn nsam halton loss).
  Notation m_step := (m_step AS policy nsam halton loss).
  Notation a_stepN := (a_step AS policy learn nsam).
  Notation a_stepO := (a_step_old AS policy learn nsam).
  Notation runN := (run AS stepN).
  Notation runO := (run AS stepO).
  Notation init := (init AS).
  Notation choose := (choose AS policy nsam).
  Notation m_head := (m_head AS halton loss).
  Notation next_session := (next_session AS).
  Notation seq_batch := (seq_batch AS policy learn loss).
  Notation seq_batches := (seq_batches AS policy learn loss).
  Notation seq_session := (seq_session AS policy learn halton loss).
  Notation seq_sessions := (seq_sessions AS policy learn halton loss).
  Notation sq := (sq AS).

  Lemma run_inv (stp : state -> tid -> option state) (P : state -> Prop) :
    (forall s t s', P s -> stp s t = Some s' -> P s') ->
    forall sigma s, P s -> P (run AS stp sigma s).
  Proof. intros H sigma s Hs. unfold run, pick. apply (fold_pick_inv state stp P H sigma s Hs). Qed.

  (* ============================================================== Part 1: both protocols, every schedule *)
  (* FIFO: what was taken from the action queue is, in order, a prefix of what was put; the rest is still queued *)
  Definition fifo (s : state) : Prop := rev (sent s) = rev (got s) ++ aq s.

  (* all indices in flight or used are inside the line-up *)
  Definition valid_pc (p : apc_t) : Prop := match p with APut a | AGet a => a < nsam | _ => True end.
  Definition valid (s : state) : Prop :=
    Forall (fun a => a < nsam) (aq s) /\ valid_pc (apc s) /\ Forall (fun e => snd (fst e) < nsam) (executed s).

  Lemma choose_fields : forall s, let s' := choose s in
    mpc s' = mpc s /\ sess s' = sess s /\ bleft s' = bleft s /\ bidx s' = bidx s /\ best s' = best s /\ flag s' = flag s /\
    aq s' = aq s /\ oq s' = oq s /\ cbl s' = cbl s /\ executed s' = executed s /\ learned s' = learned s /\
    sent s' = sent s /\ got s' = got s /\ valid_pc (apc s').
  Proof.
    intros s. unfold choose. destruct (policy (ast s)) as [a st']. simpl. repeat split; auto.
    destruct (a <? nsam) eqn:E; simpl; auto. apply Nat.ltb_lt; auto.
  Qed.

  Lemma m_head_fields : forall s, let s' := m_head s in
    aq s' = aq s /\ oq s' = oq s /\ apc s' = apc s /\ sent s' = sent s /\ got s' = got s /\ learned s' = learned s /\
    (executed s' = executed s \/ executed s' = (bidx s, halton, false) :: executed s).
  Proof.
    intros s. unfold m_head. destruct (bleft s) as [|k]; simpl; auto 10.
    destruct (best s); simpl; auto 10. destruct k; simpl; auto 10.
  Qed.

  Lemma next_session_fields : forall s, let s' := next_session s in
    aq s' = aq s /\ oq s' = oq s /\ apc s' = AIdle /\ sent s' = sent s /\ got s' = got s /\ learned s' = learned s /\
    executed s' = executed s.
  Proof. intros s. unfold next_session. destruct (sess s); simpl; auto 10. Qed.

  Lemma fifo_m : forall r s s', fifo s -> m_step r s = Some s' -> fifo s'.
  Proof.
    unfold fifo, RLProto.m_step. intros r s s' H E.
    destruct (mpc s); try discriminate.
    - (* MReadS *) inversion E; subst; clear E. destruct (flag s); simpl; auto.
    - (* MWriteS *) inversion E; subst; clear E. simpl; auto.
    - (* MStart *) inversion E; subst; clear E. destruct (m_head_fields (a_begin AS policy nsam r s)) as (Ha & _ & _ & Hs & Hg & _).
      rewrite Ha, Hs, Hg. unfold a_begin. destruct r; simpl; auto.
      destruct (choose_fields s) as (_ & _ & _ & _ & _ & _ & Ha' & _ & _ & _ & _ & Hs' & Hg' & _). rewrite Ha', Hs', Hg'. auto.
    - (* MGet *) destruct (aq s) as [|a q] eqn:Eq; try discriminate. inversion E; subst; clear E. simpl.
      rewrite H. rewrite <- app_assoc. reflexivity.
    - (* MPut *) inversion E; subst; clear E.
      match goal with |- context [m_head ?x] => destruct (m_head_fields x) as (Ha & _ & _ & Hs & Hg & _) end.
      rewrite Ha, Hs, Hg. simpl. auto.
    - (* MReadE *) inversion E; subst; clear E. destruct (flag s); simpl; auto.
    - (* MWriteE *) inversion E; subst; clear E. simpl; auto.
    - (* MPutNone *) inversion E; subst; clear E. simpl; auto.
    - (* MJoin *) destruct (terminated (apc s)); try discriminate. inversion E; subst; clear E. destruct r; simpl; auto.
      destruct (next_session_fields s) as (Ha & _ & _ & Hs & Hg & _). rewrite Ha, Hs, Hg. auto.
    - (* MDrain *) inversion E; subst; clear E.
      match goal with |- context [next_session ?x] => destruct (next_session_fields x) as (Ha & _ & _ & Hs & Hg & _) end.
      rewrite Ha, Hs, Hg. simpl. rewrite H. destruct (aq s); simpl; auto.
      rewrite <- app_assoc. reflexivity.
  Qed.

  Lemma fifo_put : forall a s, fifo s -> fifo (a_put AS a s).
  Proof. unfold fifo. intros. simpl. rewrite H. rewrite app_assoc. reflexivity. Qed.

  Lemma fifo_aN : forall s s', fifo s -> a_stepN s = Some s' -> fifo s'.
  Proof.
    unfold RLProto.a_step. intros s s' H E. destruct (apc s); try discriminate.
    - inversion E; subst. apply fifo_put; auto.
    - destruct (oq s) as [|[[b src]|] q]; try discriminate.
      + destruct (cbl s); [|inversion E; subst; exact H].
        destruct (reward_raises q0 b); [inversion E; subst; exact H|].
        destruct (reward q0 b) as [rw c']. inversion E; subst; clear E. unfold fifo.
        match goal with |- context [choose ?x] => destruct (choose_fields x) as (_ & _ & _ & _ & _ & _ & Ha' & _ & _ & _ & _ & Hs' & Hg' & _) end.
        rewrite Ha', Hs', Hg'. simpl. exact H.
      + inversion E; subst. exact H.
  Qed.

  Lemma fifo_aO : forall s s', fifo s -> a_stepO s = Some s' -> fifo s'.
  Proof.
    unfold RLProto.a_step_old. intros s s' H E. destruct (apc s); try discriminate.
    - inversion E; subst; clear E. destruct (flag s); [exact H|]. unfold fifo.
      destruct (choose_fields s) as (_ & _ & _ & _ & _ & _ & Ha' & _ & _ & _ & _ & Hs' & Hg' & _). rewrite Ha', Hs', Hg'. exact H.
    - inversion E; subst. apply fifo_put; auto.
    - destruct (oq s) as [|[[b src]|] q]; try discriminate.
      + destruct (cbl s); [|inversion E; subst; exact H].
        destruct (reward_raises q0 b); [inversion E; subst; exact H|].
        destruct (reward q0 b) as [rw c']. inversion E; subst; clear E. exact H.
      + inversion E; subst. exact H.
  Qed.

  Lemma fifo_init : forall l a0, fifo (init l a0).
  Proof. intros. unfold init, fifo, RLProto.next_session. destruct l; reflexivity. Qed.

  Theorem fifo_every_schedule_new : forall l a0 sigma, fifo (runN sigma (init l a0)).
  Proof.
    intros. apply run_inv; [|apply fifo_init]. intros s t s' H E. destruct t; simpl in E.
    - eapply fifo_m; eauto. - eapply fifo_aN; eauto.
  Qed.
  Theorem fifo_every_schedule_old : forall l a0 sigma, fifo (runO sigma (init l a0)).
  Proof.
    intros. apply run_inv; [|apply fifo_init]. intros s t s' H E. destruct t; simpl in E.
    - eapply fifo_m; eauto. - eapply fifo_aO; eauto.
  Qed.

  (* the k-th action taken from the queue is the k-th action that was put *)
  Corollary fifo_kth : forall s k a, fifo s -> nth_error (rev (got s)) k = Some a -> nth_error (rev (sent s)) k = Some a.
  Proof. intros s k a H E. rewrite H. rewrite nth_error_app1; auto. apply nth_error_Some. congruence. Qed.

  Section Valid.
  Hypothesis halton_valid : halton < nsam.

  Lemma valid_m : forall r s s', valid s -> m_step r s = Some s' -> valid s'.
  Proof.
    unfold valid, RLProto.m_step. intros r s s' (Hq & Hp & He) E.
    assert (Hhead : forall x, Forall (fun a => a < nsam) (aq x) -> valid_pc (apc x) ->
                     Forall (fun e => snd (fst e) < nsam) (executed x) ->
                     Forall (fun a => a < nsam) (aq (m_head x)) /\ valid_pc (apc (m_head x)) /\
                     Forall (fun e => snd (fst e) < nsam) (executed (m_head x))).
    { intros x H1 H2 H3. destruct (m_head_fields x) as (Ha & _ & Hap & _ & _ & _ & Hex). rewrite Ha, Hap.
      repeat split; auto. destruct Hex as [Hex|Hex]; rewrite Hex; auto. }
    destruct (mpc s); try discriminate.
    - (* MReadS *) inversion E; subst; clear E. destruct (flag s); simpl; auto.
    - (* MWriteS *) inversion E; subst; clear E. simpl; auto.
    - (* MStart *) inversion E; subst; clear E. apply Hhead; unfold a_begin; destruct r; simpl; auto;
        destruct (choose_fields s) as (_ & _ & _ & _ & _ & _ & Ha' & _ & _ & Hx & _ & _ & _ & Hv); try rewrite Ha'; try rewrite Hx; auto.
    - (* MGet *) destruct (aq s) as [|a q] eqn:Eq; try discriminate. inversion E; subst; clear E. simpl.
      inversion Hq; subst. repeat split; auto.
    - (* MPut *) inversion E; subst; clear E. apply Hhead; simpl; auto.
    - (* MReadE *) inversion E; subst; clear E. destruct (flag s); simpl; auto.
    - (* MWriteE *) inversion E; subst; clear E. simpl; auto.
    - (* MPutNone *) inversion E; subst; clear E. simpl; auto.
    - (* MJoin *) destruct (terminated (apc s)); try discriminate. inversion E; subst; clear E. destruct r; simpl; auto.
      destruct (next_session_fields s) as (Ha & _ & Hap & _ & _ & _ & Hex). rewrite Ha, Hap, Hex. simpl. auto.
    - (* MDrain *) inversion E; subst; clear E.
      match goal with |- context [next_session ?x] => destruct (next_session_fields x) as (Ha & _ & Hap & _ & _ & _ & Hex) end.
      rewrite Ha, Hap, Hex. simpl. repeat split; auto. destruct (aq s); simpl; auto. inversion Hq; auto.
  Qed.

  Lemma valid_aN : forall s s', valid s -> a_stepN s = Some s' -> valid s'.
  Proof.
    unfold valid, RLProto.a_step. intros s s' (Hq & Hp & He) E. destruct (apc s) eqn:Ep; try discriminate.
    - inversion E; subst; clear E. simpl. repeat split; auto. apply Forall_app; split; auto.
    - destruct (oq s) as [|[[b src]|] q]; try discriminate.
      + destruct (cbl s); [|inversion E; subst; simpl; auto].
        destruct (reward_raises q0 b); [inversion E; subst; simpl; auto|].
        destruct (reward q0 b) as [rw c']. inversion E; subst; clear E.
        match goal with |- context [choose ?x] => destruct (choose_fields x) as (_ & _ & _ & _ & _ & _ & Ha' & _ & _ & Hx & _ & _ & _ & Hv) end.
        rewrite Ha', Hx. simpl. auto.
      + inversion E; subst. simpl. auto.
  Qed.

  Lemma valid_aO : forall s s', valid s -> a_stepO s = Some s' -> valid s'.
  Proof.
    unfold valid, RLProto.a_step_old. intros s s' (Hq & Hp & He) E. destruct (apc s) eqn:Ep; try discriminate.
    - inversion E; subst; clear E. destruct (flag s); simpl; auto.
      destruct (choose_fields s) as (_ & _ & _ & _ & _ & _ & Ha' & _ & _ & Hx & _ & _ & _ & Hv). rewrite Ha', Hx. auto.
    - inversion E; subst; clear E. simpl. repeat split; auto. apply Forall_app; split; auto.
    - destruct (oq s) as [|[[b src]|] q]; try discriminate.
      + destruct (cbl s); [|inversion E; subst; simpl; auto].
        destruct (reward_raises q0 b); [inversion E; subst; simpl; auto|].
        destruct (reward q0 b) as [rw c']. inversion E; subst; clear E. simpl. auto.
      + inversion E; subst. simpl. auto.
  Qed.

  Lemma valid_init : forall l a0, valid (init l a0).
  Proof. intros. unfold init, valid, RLProto.next_session. destruct l; simpl; auto. Qed.

  Theorem valid_every_schedule_new : forall l a0 sigma, valid (runN sigma (init l a0)).
  Proof.
    intros. apply run_inv; [|apply valid_init]. intros s t s' H E. destruct t; simpl in E.
    - eapply valid_m; eauto. - eapply valid_aN; eauto.
  Qed.
  Theorem valid_every_schedule_old : forall l a0 sigma, valid (runO sigma (init l a0)).
  Proof.
    intros. apply run_inv; [|apply valid_init]. intros s t s' H E. destruct t; simpl in E.
    - eapply valid_m; eauto. - eapply valid_aO; eauto.
  Qed.
  End Valid.

  (* ============================================================== Part 2: the repaired protocol *)
  Hypothesis policy_valid : forall st, fst (policy st) < nsam.

  Lemma choose_valid : forall s,
    choose s = mk AS (mpc s) (sess s) (bleft s) (bidx s) (best s) (flag s) (aq s) (oq s) (cbl s)
                  (APut (fst (policy (ast s)))) (snd (policy (ast s))) (executed s) (learned s) (sent s) (got s).
  Proof.
    intros s. unfold RLProto.choose. specialize (policy_valid (ast s)). destruct (policy (ast s)) as [a st']. simpl in *.
    apply Nat.ltb_lt in policy_valid. rewrite policy_valid. reflexivity.
  Qed.

  (* who-learnt-what against who-ran-what: (source batch, action) of the learn calls / of the batches chosen by the agent *)
  Definition lsrc (e : nat * Q * option nat) : option nat * nat := (snd e, fst (fst e)).
  Definition exch (ex : list (nat * nat * bool)) : list (option nat * nat) :=
    map (fun e => (Some (fst (fst e)), snd (fst e))) (filter (fun e => snd e) ex).
  Definition okc (be cb : option Q) : Prop := be <> None -> cb <> None.
  Lemma exch_true : forall b a ex, exch ((b, a, true) :: ex) = (Some b, a) :: exch ex.
  Proof. reflexivity. Qed.
  Lemma exch_false : forall b a ex, exch ((b, a, false) :: ex) = exch ex.
  Proof. reflexivity. Qed.

  (* running best loss: bm k = min (loss 0 .. loss k), the first minimum being kept (strict < in update) *)
  Fixpoint bm (k : nat) : Q := match k with 0 => loss 0 | S j => better (bm j) (loss (S j)) end.
  Lemma reward_snd_better : forall c l, snd (reward c (better c l)) = better c l.
  Proof.
    intros c l. unfold reward, better. destruct (Qle_bool c l) eqn:E.
    - assert (Qle_bool c c = true) by (apply Qle_bool_iff; apply Qle_refl). rewrite H. reflexivity.
    - rewrite E. reflexivity.
  Qed.

  (* sufficient: losses that are never negative (all built-in loss functions) *)
  Lemma bm_nonneg : (forall k, 0 <= loss k)%Q -> forall k, (0 <= bm k)%Q.
  Proof.
    intros Hl k. induction k as [|k IH]; simpl; [apply Hl|]. unfold better. destruct (Qle_bool (bm k) (loss (S k))); [exact IH | apply Hl].
  Qed.
  Lemma nonneg_losses_reward_defined : (forall k, 0 <= loss k)%Q -> forall k, reward_raises (bm k) (bm (S k)) = false.
  Proof.
    intros Hl k. unfold reward_raises. destruct (Qle_bool (bm k) (bm (S k))) eqn:E1; [reflexivity|]. simpl.
    destruct (Qeq_bool (bm k) 0) eqn:E2; [|reflexivity]. exfalso.
    apply Qeq_bool_iff in E2. assert (H1 : (bm k <= bm (S k))%Q) by (rewrite E2; apply bm_nonneg; exact Hl).
    apply Qle_bool_iff in H1. congruence.
  Qed.
  (* ... or a running best that never is exactly 0 *)
  Lemma nonzero_best_reward_defined : (forall k, ~ bm k == 0)%Q -> forall k, reward_raises (bm k) (bm (S k)) = false.
  Proof.
    intros Hz k. unfold reward_raises. destruct (Qeq_bool (bm k) 0) eqn:E2; [|apply andb_false_r].
    apply Qeq_bool_iff in E2. destruct (Hz k E2).
  Qed.

  (* The reward is defined at every batch: no loss improves on a running best that is exactly 0 (mab.py:46 divides by it). *)
  Hypothesis reward_defined : forall k, reward_raises (bm k) (bm (S k)) = false.

  (* The numbers in flight: M's best loss is the running minimum of the batches done; the environment's reference loss is
     the same number, except while an outcome is queued - then it is the running minimum one batch earlier. *)
  Definition sync (be cb : option Q) (bi : nat) : Prop :=
    match be with
    | None => bi = 0
    | Some b0 => exists k0, bi = S k0 /\ b0 = bm k0 /\ cb = Some (bm k0)
    end.
  Definition Num (s : state) : Prop :=
    match oq s with
    | Some (b, _) :: _ => exists k0, bidx s = S (S k0) /\ cbl s = Some (bm k0) /\ b = bm (S k0) /\ best s = Some (bm (S k0))
    | _ => sync (best s) (cbl s) (bidx s)
    end.

  (* where M is inside a session, with the batches left, the flag, its best loss and what it has appended to the
     outcome queue behind the outcome in flight *)
  Inductive mph : mpc_t -> nat -> bool -> option Q -> list msg -> Prop :=
  | ph_get : forall k b, mph MGet (S k) false (Some b) []
  | ph_rde : forall be, mph MReadE 0 false be []
  | ph_wre : forall be, mph MWriteE 0 false be []
  | ph_ptn : forall be, mph MPutNone 0 true be []
  | ph_join : forall be, mph MJoin 0 true be [None].
  Inductive idle_ph : mpc_t -> bool -> Prop :=
  | id_r : idle_ph MReadS true | id_w : idle_ph MWriteS true | id_s : idle_ph MStart false.

  (* The invariant.  F is the outcome of the sequential specification; every constructor says where the two threads are,
     what exactly the queues hold, and that finishing the exchange sequentially from here yields F. *)
  Inductive shape (F : sq) : state -> Prop :=
  | S_idle : forall pc se bl bi be fl cb st ex le sn gt,
      idle_ph pc fl -> F = seq_sessions (bl :: se) (mksq AS st cb be bi ex le) -> exch ex = map lsrc le ->
      shape F (mk AS pc se bl bi be fl [] [] cb AIdle st ex le sn gt)
  | S_p1 : forall pc se bl bi be fl tl cb a st ex le sn gt,     (* agent has chosen a, not yet put it *)
      mph pc bl fl be tl -> a < nsam ->
      F = seq_sessions se (seq_batches bl a (mksq AS st cb be bi ex le)) -> exch ex = map lsrc le ->
      shape F (mk AS pc se bl bi be fl [] tl cb (APut a) st ex le sn gt)
  | S_p2 : forall pc se bl bi be fl tl cb a st ex le sn gt,     (* a is queued, agent waits for the outcome *)
      mph pc bl fl be tl -> a < nsam ->
      F = seq_sessions se (seq_batches bl a (mksq AS st cb be bi ex le)) -> exch ex = map lsrc le ->
      shape F (mk AS pc se bl bi be fl [a] tl cb (AGet a) st ex le sn gt)
  | S_k3 : forall se k bi b0 c a st ex le sn gt,                (* M took a and runs the batch *)
      a < nsam ->
      F = seq_sessions se (seq_batches (S k) a (mksq AS st (Some c) (Some b0) bi ex le)) -> exch ex = map lsrc le ->
      shape F (mk AS MPut se (S k) bi (Some b0) false [] [] (Some c) (AGet a) st ((bi, a, true) :: ex) le sn gt)
  | S_p4 : forall pc se bl bi be fl tl c a b src st ex le sn gt, (* the outcome of the batch run with a is queued *)
      mph pc bl fl be tl ->
      F = seq_sessions se (let (r, c') := reward c b in let (a', st') := policy (learn st a r) in
                           seq_batches bl a' (mksq AS st' (Some c') be bi ex ((a, r, Some src) :: le))) ->
      exch ex = (Some src, a) :: map lsrc le ->
      shape F (mk AS pc se bl bi be fl [] (Some (b, src) :: tl) (Some c) (AGet a) st ex le sn gt)
  | S_p5 : forall se bi be cb a st ex le sn gt,                 (* agent left on the marker; its last choice is queued *)
      F = seq_sessions se (mksq AS st cb be bi ex le) -> exch ex = map lsrc le ->
      shape F (mk AS MJoin se 0 bi be true [a] [] cb ADone st ex le sn gt)
  | S_drain : forall se bi be cb a st ex le sn gt,
      F = seq_sessions se (mksq AS st cb be bi ex le) -> exch ex = map lsrc le ->
      shape F (mk AS MDrain se 0 bi be true [a] [] cb ADone st ex le sn gt)
  | S_final : forall bi be fl cb st ex le sn gt,
      F = mksq AS st cb be bi ex le -> exch ex = map lsrc le ->
      shape F (mk AS MDone [] 0 bi be fl [] [] cb AIdle st ex le sn gt).

  Definition Inv (F : sq) (s : state) : Prop := okc (best s) (cbl s) /\ shape F s.

  Lemma inv_init : forall l a0, Inv (seq_sessions l (sq0 AS a0)) (init l a0).
  Proof.
    intros l a0. unfold init, RLProto.next_session, sq0. split.
    - destruct l; simpl; unfold okc; auto.
    - destruct l; simpl; [apply S_final | apply S_idle; [constructor|..]]; auto.
  Qed.

  Lemma seq_sessions_cons : forall n l q, seq_sessions (n :: l) q = seq_sessions l (seq_session q n).
  Proof. reflexivity. Qed.
  Lemma seq_sessions_nil : forall q, seq_sessions [] q = q.
  Proof. reflexivity. Qed.
  Lemma seq_session_0 : forall st cb be bi ex le a st', policy st = (a, st') ->
    seq_session (mksq AS st cb be bi ex le) 0 = mksq AS st' cb be bi ex le.
  Proof. intros. unfold RLProto.seq_session. simpl. rewrite H. reflexivity. Qed.
  Lemma seq_session_S_some : forall st cb b bi ex le a st' k, policy st = (a, st') ->
    seq_session (mksq AS st cb (Some b) bi ex le) (S k) = seq_batches (S k) a (mksq AS st' cb (Some b) bi ex le).
  Proof. intros. unfold RLProto.seq_session. simpl q_ast. rewrite H. reflexivity. Qed.
  Lemma seq_session_S_none : forall st cb bi ex le a st' k, policy st = (a, st') ->
    seq_session (mksq AS st cb None bi ex le) (S k) =
    seq_batches k a (mksq AS st' (Some (loss bi)) (Some (loss bi)) (S bi) ((bi, halton, false) :: ex) le).
  Proof. intros. unfold RLProto.seq_session. simpl q_ast. rewrite H. reflexivity. Qed.

  Lemma inv_step : forall F s t s', Inv F s -> Num s -> stepN s t = Some s' -> Inv F s'.
  Proof.
    intros F s t s' [Hok Hsh] Hn E. inversion Hsh; subst; clear Hsh; destruct t; simpl in E.
    - (* idle, M *)
      simpl in Hok. inversion H; subst; unfold RLProto.m_step in E; simpl in E.
      + inversion E; subst; clear E. split; [exact Hok | apply S_idle; auto; constructor].
      + inversion E; subst; clear E. split; [exact Hok | apply S_idle; auto; constructor].
      + unfold a_begin in E. rewrite choose_valid in E. simpl in E.
        pose proof (policy_valid st) as Hv. destruct (policy st) as [a st'] eqn:Ep. simpl in *.
        unfold RLProto.m_head in E. simpl in E. destruct bl as [|k].
        * inversion E; subst; clear E. split; [exact Hok|]. apply S_p1; auto; [constructor|].
          rewrite seq_sessions_cons, (seq_session_0 _ _ _ _ _ _ _ _ Ep). reflexivity.
        * destruct be as [b0|].
          -- inversion E; subst; clear E. split; [exact Hok|]. apply S_p1; auto; [constructor|].
             rewrite seq_sessions_cons, (seq_session_S_some _ _ _ _ _ _ _ _ _ Ep). reflexivity.
          -- destruct k; unfold RLProto.boot in E; simpl in E; inversion E; subst; clear E; (split; [simpl; unfold okc; congruence|]);
               (apply S_p1; [simpl; constructor | auto |
                  rewrite seq_sessions_cons, (seq_session_S_none _ _ _ _ _ _ _ _ Ep); reflexivity | simpl; auto]).
    - (* idle, A *) unfold RLProto.a_step in E. simpl in E. discriminate.
    - (* p1, M *)
      simpl in Hok. inversion H; subst; unfold RLProto.m_step in E; simpl in E; try discriminate;
        inversion E; subst; clear E; (split; [exact Hok|]); apply S_p1; auto; constructor.
    - (* p1, A *)
      unfold RLProto.a_step in E. simpl in E. inversion E; subst; clear E. split; [exact Hok|]. apply S_p2; auto.
    - (* p2, M *)
      simpl in Hok. inversion H; subst; unfold RLProto.m_step in E; simpl in E; try discriminate.
      + destruct cb as [c|]; [|exfalso; apply Hok; congruence].
        inversion E; subst; clear E. split; [exact Hok|]. apply S_k3; auto.
      + inversion E; subst; clear E. split; [exact Hok|]. apply S_p2; auto; constructor.
      + inversion E; subst; clear E. split; [exact Hok|]. apply S_p2; auto; constructor.
      + inversion E; subst; clear E. split; [exact Hok|]. apply S_p2; auto; constructor.
    - (* p2, A *)
      simpl in Hok. unfold RLProto.a_step in E. inversion H; subst; simpl in E; try discriminate.
      inversion E; subst; clear E. split; [exact Hok|]. apply S_p5; auto.
    - (* k3, M *)
      simpl in Hok. unfold RLProto.m_step in E. simpl in E. unfold RLProto.m_head in E. simpl in E.
      assert (HF : forall k', seq_batches (S k') a (mksq AS st (Some c) (Some b0) bi ex le) =
                   let (r, c') := reward c (better b0 (loss bi)) in let (a', st') := policy (learn st a r) in
                   seq_batches k' a' (mksq AS st' (Some c') (Some (better b0 (loss bi))) (S bi) ((bi, a, true) :: ex)
                                           ((a, r, Some bi) :: le))).
      { intros k'. simpl. unfold RLProto.seq_batch. simpl. destruct (reward c (better b0 (loss bi))) as [r c'].
        destruct (policy (learn st a r)) as [a' st']. reflexivity. }
      destruct k as [|k']; simpl in E; inversion E; subst; clear E; (split; [simpl; unfold okc; congruence|]);
        (apply S_p4; [simpl; constructor | rewrite HF; reflexivity | simpl; rewrite exch_true, H1; reflexivity]).
    - (* k3, A *) unfold RLProto.a_step in E. simpl in E. discriminate.
    - (* p4, M *)
      simpl in Hok. inversion H; subst; unfold RLProto.m_step in E; simpl in E; try discriminate;
        inversion E; subst; clear E; (split; [exact Hok|]); apply S_p4; auto; constructor.
    - (* p4, A *)
      simpl in Hok. unfold RLProto.a_step in E. simpl in E.
      assert (Hrr : reward_raises c b = false).
      { unfold Num in Hn; simpl in Hn. destruct Hn as (k0 & _ & Hc & Hb & _). inversion Hc; subst. apply reward_defined. }
      rewrite Hrr in E. destruct (reward c b) as [r c'].
      rewrite choose_valid in E. simpl in E. pose proof (policy_valid (learn st a r)) as Hv.
      destruct (policy (learn st a r)) as [a' st']. simpl in *. inversion E; subst; clear E.
      split; [simpl; unfold okc; congruence|]. apply S_p1; auto.
    - (* p5, M *)
      simpl in Hok. unfold RLProto.m_step in E. simpl in E. inversion E; subst; clear E. split; [exact Hok|]. apply S_drain; auto.
    - (* p5, A *) unfold RLProto.a_step in E. simpl in E. discriminate.
    - (* drain, M *)
      simpl in Hok. unfold RLProto.m_step in E. simpl in E. unfold RLProto.next_session in E. simpl in E.
      destruct se as [|n r]; inversion E; subst; clear E; (split; [exact Hok|]).
      + apply S_final; auto.
      + apply S_idle; auto. constructor.
    - (* drain, A *) unfold RLProto.a_step in E. simpl in E. discriminate.
    - (* final, M *) unfold RLProto.m_step in E. simpl in E. discriminate.
    - (* final, A *) unfold RLProto.a_step in E. simpl in E. discriminate.
  Qed.

  Ltac nm := unfold Num in *; simpl in *.
  Lemma num_step : forall F s t s', Inv F s -> Num s -> stepN s t = Some s' -> Num s'.
  Proof.
    intros F s t s' [Hok Hsh] Hn E. inversion Hsh; subst; clear Hsh; destruct t; simpl in E.
    - (* idle, M *)
      inversion H; subst; unfold RLProto.m_step in E; simpl in E.
      + inversion E; subst; clear E. nm. exact Hn.
      + inversion E; subst; clear E. nm. exact Hn.
      + unfold a_begin in E. rewrite choose_valid in E. simpl in E.
        destruct (policy st) as [a st'] eqn:Ep. simpl in *.
        unfold RLProto.m_head in E. simpl in E. destruct bl as [|k].
        * inversion E; subst; clear E. nm. exact Hn.
        * destruct be as [b0|].
          -- inversion E; subst; clear E. nm. exact Hn.
          -- destruct k; unfold RLProto.boot in E; simpl in E; inversion E; subst; clear E; nm; subst; exists 0; auto.
    - unfold RLProto.a_step in E. simpl in E. discriminate.
    - (* p1, M *)
      inversion H; subst; unfold RLProto.m_step in E; simpl in E; try discriminate;
        inversion E; subst; clear E; nm; exact Hn.
    - (* p1, A *) unfold RLProto.a_step in E. simpl in E. inversion E; subst; clear E. nm. exact Hn.
    - (* p2, M *)
      inversion H; subst; unfold RLProto.m_step in E; simpl in E; try discriminate;
        inversion E; subst; clear E; nm; exact Hn.
    - (* p2, A *)
      unfold RLProto.a_step in E. inversion H; subst; simpl in E; try discriminate.
      inversion E; subst; clear E. nm. exact Hn.
    - (* k3, M *)
      unfold RLProto.m_step in E. simpl in E. unfold RLProto.m_head in E. simpl in E.
      destruct k as [|k']; simpl in E; inversion E; subst; clear E; nm;
        destruct Hn as (k0 & Hb & Hb0 & Hc); subst; exists k0; repeat split; auto.
    - unfold RLProto.a_step in E. simpl in E. discriminate.
    - (* p4, M *)
      inversion H; subst; unfold RLProto.m_step in E; simpl in E; try discriminate;
        inversion E; subst; clear E; nm; exact Hn.
    - (* p4, A *)
      unfold RLProto.a_step in E. simpl in E. unfold Num in Hn; simpl in Hn.
      destruct Hn as (k0 & Hbi & Hc & Hb & Hbe). inversion Hc; subst. rewrite reward_defined in E.
      change (better (bm k0) (loss (S k0))) with (bm (S k0)) in *.
      destruct (reward (bm k0) (bm (S k0))) as [r c'] eqn:Er.
      rewrite choose_valid in E. simpl in E. destruct (policy (learn st a r)) as [a' st']. simpl in *.
      assert (Hc' : c' = bm (S k0)).
      { change c' with (snd (r, c')). rewrite <- Er. simpl bm. apply reward_snd_better. }
      inversion E; subst; clear E. inversion H; subst; nm; exists (S k0); auto.
    - (* p5, M *) unfold RLProto.m_step in E. simpl in E. inversion E; subst; clear E. nm. exact Hn.
    - unfold RLProto.a_step in E. simpl in E. discriminate.
    - (* drain, M *)
      unfold RLProto.m_step in E. simpl in E. unfold RLProto.next_session in E. simpl in E.
      destruct se as [|n r]; inversion E; subst; clear E; nm; exact Hn.
    - unfold RLProto.a_step in E. simpl in E. discriminate.
    - unfold RLProto.m_step in E. simpl in E. discriminate.
    - unfold RLProto.a_step in E. simpl in E. discriminate.
  Qed.

  Definition InvN (F : sq) (s : state) : Prop := Inv F s /\ Num s.
  Lemma invN_step : forall F s t s', InvN F s -> stepN s t = Some s' -> InvN F s'.
  Proof. intros F s t s' [HI Hn] E. split; [eapply inv_step | eapply num_step]; eauto. Qed.
  Lemma invN_init : forall l a0, InvN (seq_sessions l (sq0 AS a0)) (init l a0).
  Proof.
    intros l a0. split; [apply inv_init|]. unfold init, RLProto.next_session. destruct l; unfold Num; simpl; reflexivity.
  Qed.
  Theorem invN_every_schedule : forall l a0 sigma, InvN (seq_sessions l (sq0 AS a0)) (runN sigma (init l a0)).
  Proof. intros. apply run_inv; [|apply invN_init]. intros s t s' H E. eapply invN_step; eauto. Qed.
  Theorem inv_every_schedule : forall l a0 sigma, Inv (seq_sessions l (sq0 AS a0)) (runN sigma (init l a0)).
  Proof. intros. apply invN_every_schedule. Qed.

  (* ---- consequences of the invariant, for one state *)
  Lemma inv_final_is_spec : forall F s, Inv F s -> is_final AS s = true -> sq_of AS s = F.
  Proof. intros F s [_ H] Hf. inversion H; subst; try discriminate; try (inversion H0; subst; discriminate). reflexivity. Qed.

  Lemma inv_enabled : forall F s, Inv F s -> is_final AS s = false ->
    enabled AS stepN s M = true \/ enabled AS stepN s A = true.
  Proof.
    intros F s [Hok H] Hf. unfold enabled. inversion H; subst; simpl in *; try discriminate.
    - left. inversion H0; subst; reflexivity.
    - right. reflexivity.
    - inversion H0; subst; try (left; reflexivity). right. reflexivity.
    - left. reflexivity.
    - right. unfold RLProto.a_step. simpl. destruct (reward_raises c b); [reflexivity|]. destruct (reward c b). reflexivity.
    - left. reflexivity.
    - left. reflexivity.
  Qed.

  Definition between_sessions (p : mpc_t) : bool := match p with MReadS | MWriteS | MStart | MDone => true | _ => false end.

  Lemma inv_quiescent : forall F s, Inv F s -> between_sessions (mpc s) = true -> aq s = [] /\ oq s = [] /\ apc s = AIdle.
  Proof.
    intros F s [_ H] Hb. inversion H; subst; simpl in *; auto; try discriminate;
      match goal with Hm : mph _ _ _ _ _ |- _ => inversion Hm; subst; discriminate end.
  Qed.

  Lemma inv_drain_one : forall F s, Inv F s -> mpc s = MDrain -> exists a, aq s = [a].
  Proof.
    intros F s [_ H] Hb. inversion H; subst; simpl in *; try discriminate; eauto;
      match goal with Hm : mph _ _ _ _ _ |- _ => inversion Hm; subst; discriminate | Hm : idle_ph _ _ |- _ => inversion Hm; subst; discriminate end.
  Qed.

  Lemma inv_no_error : forall F s, Inv F s -> mpc s <> MErr /\ apc s <> AErr.
  Proof.
    intros F s [_ H]. inversion H; subst; simpl; split; try discriminate;
      match goal with Hm : mph _ _ _ _ _ |- _ => inversion Hm; subst; discriminate | Hm : idle_ph _ _ |- _ => inversion Hm; subst; discriminate end.
  Qed.

  Lemma inv_queue_bounds : forall F s, Inv F s -> length (aq s) <= 1 /\ length (oq s) <= 2.
  Proof.
    intros F s [_ H]. inversion H; subst; simpl; auto;
      match goal with Hm : mph _ _ _ _ _ |- _ => inversion Hm; subst; simpl; auto end.
  Qed.

  (* the learn calls are, in order, about the batches the agent chose, except possibly the newest one in flight *)
  Lemma inv_learned_suffix : forall F s, Inv F s -> exists pend, exch (executed s) = pend ++ map lsrc (learned s).
  Proof.
    intros F s [_ H]. inversion H; subst; simpl; try (exists []; simpl; assumption).
    - exists [(Some bi, a)]. rewrite exch_true. simpl. congruence.
    - exists [(Some src, a)]. simpl. assumption.
  Qed.

  Lemma inv_learned_executed : forall F s, Inv F s -> forall a r src, In (a, r, src) (learned s) ->
    exists b, src = Some b /\ In (b, a, true) (executed s).
  Proof.
    intros F s HI a r src Hin. destruct (inv_learned_suffix F s HI) as [pend Hp].
    assert (Hin' : In (src, a) (exch (executed s))).
    { rewrite Hp. apply in_or_app. right. change (src, a) with (lsrc (a, r, src)). apply in_map. assumption. }
    unfold exch in Hin'. apply in_map_iff in Hin'. destruct Hin' as [[[b a'] f] [He Hf]]. simpl in He.
    apply filter_In in Hf. destruct Hf as [Hf1 Hf2]. simpl in Hf2. subst f. inversion He; subst. eauto.
  Qed.

  Lemma inv_final_learned : forall F s, Inv F s -> is_final AS s = true -> exch (executed s) = map lsrc (learned s).
  Proof. intros F s [_ H] Hf. inversion H; subst; try discriminate; try (inversion H0; subst; discriminate). simpl. assumption. Qed.

  (* ============================================================== Part 3: the sequential specification *)


  (* n-1, ..., 1, 0 *)
  Fixpoint down (n : nat) : list nat := match n with 0 => [] | S k => k :: down k end.
  Definition batches_ok (q : sq) : Prop := map (fun e => fst (fst e)) (q_exec AS q) = down (q_bidx AS q).
  Definition rw_ok (q : sq) : Prop :=
    (q_bidx AS q = 0 -> q_best AS q = None) /\
    (forall k, q_bidx AS q = S k -> q_best AS q = Some (bm k) /\ q_cbl AS q = Some (bm k)) /\
    (forall a r src, In (a, r, src) (q_learned AS q) -> exists k, src = Some (S k) /\ S k < q_bidx AS q /\ r = fst (reward (bm k) (bm (S k)))).
  Definition sq_ok (q : sq) : Prop := batches_ok q /\ rw_ok q.

  Lemma seq_batch_ok : forall a q k, sq_ok q -> q_bidx AS q = S k -> sq_ok (fst (seq_batch a q)) /\ q_bidx AS (fst (seq_batch a q)) = S (S k).
  Proof.
    intros a q k [Hb (H0 & HS & HL)] Hk. destruct (HS k Hk) as [Hbest Hcbl]. unfold RLProto.seq_batch. rewrite Hbest, Hcbl, Hk.
    change (better (bm k) (loss (S k))) with (bm (S k)).
    destruct (reward (bm k) (bm (S k))) as [r c'] eqn:Er.
    destruct (policy (learn (q_ast AS q) a r)) as [a' st']. simpl. split; [|reflexivity]. split.
    - unfold batches_ok in *. simpl. rewrite Hb, Hk. reflexivity.
    - split; [|split]; simpl.
      + discriminate.
      + intros k0 Hk0. inversion Hk0; subst. split; auto.
        assert (c' = snd (reward (bm k) (bm (S k)))) by (rewrite Er; reflexivity). subst c'. simpl bm. rewrite reward_snd_better. reflexivity.
      + intros a1 r1 src1 [Heq|Hin].
        * inversion Heq; subst. exists k. repeat split; auto. change (better (bm k) (loss (S k))) with (bm (S k)). rewrite Er. reflexivity.
        * destruct (HL _ _ _ Hin) as (k1 & H1 & H2 & H3). exists k1. repeat split; auto. lia.
  Qed.

  Lemma seq_batches_ok : forall n a q k, sq_ok q -> q_bidx AS q = S k -> sq_ok (seq_batches n a q).
  Proof.
    induction n as [|n IH]; intros a q k Hq Hk; simpl; auto.
    destruct (seq_batch_ok a q k Hq Hk) as [Hq' Hk']. destruct (seq_batch a q) as [q' a']. simpl in *. eapply IH; eauto.
  Qed.

  Lemma seq_batches_bidx : forall n a q, q_bidx AS (seq_batches n a q) = n + q_bidx AS q.
  Proof.
    induction n as [|n IH]; intros a q; simpl; auto.
    assert (q_bidx AS (fst (seq_batch a q)) = S (q_bidx AS q)).
    { unfold RLProto.seq_batch. destruct (reward _ _). destruct (policy _). reflexivity. }
    destruct (seq_batch a q) as [q' a']. simpl in *. rewrite IH, H. lia.
  Qed.

  Lemma seq_batches_best : forall n a q, q_best AS q <> None -> q_best AS (seq_batches n a q) <> None.
  Proof.
    induction n as [|n IH]; intros a q Hq; simpl; auto.
    assert (q_best AS (fst (seq_batch a q)) <> None).
    { unfold RLProto.seq_batch. destruct (reward _ _). destruct (policy _). simpl. discriminate. }
    destruct (seq_batch a q) as [q' a']. simpl in *. apply IH; auto.
  Qed.

  Lemma seq_boot_ok : forall q, sq_ok q -> q_bidx AS q = 0 -> sq_ok (seq_boot AS halton loss q).
  Proof.
    intros q [Hb (H0 & HS & HL)] Hz. unfold RLProto.seq_boot. split.
    - unfold batches_ok in *. simpl. rewrite Hb, Hz. reflexivity.
    - split; [|split]; simpl.
      + discriminate.
      + intros k0 Hk0. rewrite Hz in *. inversion Hk0; subst. auto.
      + intros a1 r1 s1 Hin. destruct (HL _ _ _ Hin) as (k1 & H1 & H2 & H3). lia.
  Qed.

  Lemma seq_session_ok : forall q n, sq_ok q -> sq_ok (seq_session q n).
  Proof.
    intros q n Hq. unfold RLProto.seq_session. destruct (policy (q_ast AS q)) as [a st'].
    set (q1 := mksq AS st' (q_cbl AS q) (q_best AS q) (q_bidx AS q) (q_exec AS q) (q_learned AS q)).
    assert (Hq1 : sq_ok q1) by exact Hq.
    destruct n as [|k]; auto.
    destruct (q_bidx AS q1) as [|j] eqn:Ej.
    - destruct Hq1 as [Hb (H0 & HS & HL)]. rewrite (H0 Ej).
      assert (Hboot : sq_ok (seq_boot AS halton loss q1)) by (apply seq_boot_ok; [split; [|split]|]; auto).
      destruct k as [|k]; [exact Hboot|]. eapply seq_batches_ok with (k := 0); auto. unfold RLProto.seq_boot. simpl. simpl in Ej. rewrite Ej. reflexivity.
    - destruct Hq1 as [Hb (H0 & HS & HL)]. destruct (HS j Ej) as [Hbest Hcbl]. rewrite Hbest.
      eapply seq_batches_ok with (k := j); auto.
  Qed.

  Lemma seq_sessions_ok : forall l q, sq_ok q -> sq_ok (seq_sessions l q).
  Proof.
    induction l as [|n l IH]; intros q Hq; [exact Hq|]. rewrite seq_sessions_cons. apply IH. apply seq_session_ok. exact Hq.
  Qed.

  Lemma sq0_ok : forall a0, sq_ok (sq0 AS a0).
  Proof.
    intros. split; [reflexivity|]. split; [|split]; simpl; auto; try discriminate. intros ? ? ? [].
  Qed.

  (* ============================================================== Part 4: termination *)
  Definition fut (se : list nat) : nat := fold_right (fun n acc => 4 * n + 16 + acc) 0 se.
  Definition mcur (p : mpc_t) (bl : nat) : nat :=
    match p with MGet => 2 * bl + 5 | MPut => 2 * bl + 4 | MReadE => 5 | MWriteE => 4 | MPutNone => 3 | MJoin => 2 | MDrain => 1
               | _ => 0 end.
  Definition acur (s : state) : nat :=
    match apc s with
    | APut _ => 2 * bleft s + 2
    | AGet _ => match aq s with
                | _ :: _ => 2 * bleft s + 1
                | [] => match mpc s with
                        | MPut => 2 * bleft s + 1
                        | _ => match oq s with Some _ :: _ => 2 * bleft s + 3 | _ => 0 end
                        end
                end
    | _ => 0
    end.
  (* number of steps still to come (an upper bound that strictly decreases with every step) *)
  Definition mu (s : state) : nat :=
    fut (sess s) +
    match mpc s with
    | MReadS => 4 * bleft s + 15 | MWriteS => 4 * bleft s + 14 | MStart => 4 * bleft s + 13
    | MDone | MErr => 0
    | p => mcur p (bleft s) + acur s
    end.

  Lemma mu_step : forall F s t s', Inv F s -> Num s -> stepN s t = Some s' -> mu s' < mu s.
  Proof.
    intros F s t s' [Hok Hsh] Hn E. inversion Hsh; subst; clear Hsh; destruct t; simpl in E.
    - (* idle, M *)
      inversion H; subst; unfold RLProto.m_step in E; simpl in E.
      + inversion E; subst; clear E. unfold mu; simpl. lia.
      + inversion E; subst; clear E. unfold mu; simpl. lia.
      + unfold a_begin in E. rewrite choose_valid in E. simpl in E. unfold RLProto.m_head in E. simpl in E.
        destruct bl as [|k]; [|destruct be as [b0|]; [|destruct k; unfold RLProto.boot in E]];
          simpl in E; inversion E; subst; clear E; unfold mu, acur; simpl; lia.
    - unfold RLProto.a_step in E. simpl in E. discriminate.
    - (* p1, M *)
      inversion H; subst; unfold RLProto.m_step in E; simpl in E; try discriminate;
        inversion E; subst; clear E; unfold mu, acur; simpl; lia.
    - unfold RLProto.a_step in E. simpl in E. inversion E; subst; clear E.
      inversion H; subst; unfold mu, acur; simpl; lia.
    - (* p2, M *)
      inversion H; subst; unfold RLProto.m_step in E; simpl in E; try discriminate;
        inversion E; subst; clear E; unfold mu, acur; simpl; lia.
    - unfold RLProto.a_step in E. inversion H; subst; simpl in E; try discriminate.
      inversion E; subst; clear E. unfold mu, acur; simpl; lia.
    - (* k3, M *)
      unfold RLProto.m_step in E. simpl in E. unfold RLProto.m_head in E. simpl in E.
      destruct k as [|k']; simpl in E; inversion E; subst; clear E; unfold mu, acur; simpl; lia.
    - unfold RLProto.a_step in E. simpl in E. discriminate.
    - (* p4, M *)
      inversion H; subst; unfold RLProto.m_step in E; simpl in E; try discriminate;
        inversion E; subst; clear E; unfold mu, acur; simpl; lia.
    - unfold RLProto.a_step in E. simpl in E.
      assert (Hrr : reward_raises c b = false).
      { unfold Num in Hn; simpl in Hn. destruct Hn as (k0 & _ & Hc & Hb & _). inversion Hc; subst. apply reward_defined. }
      rewrite Hrr in E. destruct (reward c b) as [r c'].
      rewrite choose_valid in E. simpl in E. inversion E; subst; clear E.
      inversion H; subst; unfold mu, acur; simpl; lia.
    - unfold RLProto.m_step in E. simpl in E. inversion E; subst; clear E. unfold mu, acur; simpl; lia.
    - unfold RLProto.a_step in E. simpl in E. discriminate.
    - unfold RLProto.m_step in E. simpl in E. unfold RLProto.next_session in E. simpl in E.
      destruct se as [|n r]; inversion E; subst; clear E; unfold mu, acur; simpl; lia.
    - unfold RLProto.a_step in E. simpl in E. discriminate.
    - unfold RLProto.m_step in E. simpl in E. discriminate.
    - unfold RLProto.a_step in E. simpl in E. discriminate.
  Qed.

  (* from every reachable state some schedule completes all sessions *)
  Lemma can_complete : forall n F s, mu s < n -> InvN F s -> exists sigma, is_final AS (runN sigma s) = true.
  Proof.
    induction n as [|n IH]; intros F s Hn [HI HN]; [lia|].
    destruct (is_final AS s) eqn:Ef; [exists []; exact Ef|].
    destruct (inv_enabled F s HI Ef) as [He|He]; unfold enabled in He.
    - destruct (stepN s M) as [s'|] eqn:Es; [|discriminate].
      destruct (IH F s') as [sg Hsg]; [pose proof (mu_step F s M s' HI HN Es); lia | eapply invN_step; [split|]; eauto |].
      exists (M :: sg). unfold run in *. simpl. unfold pick at 2. rewrite Es. exact Hsg.
    - destruct (stepN s A) as [s'|] eqn:Es; [|discriminate].
      destruct (IH F s') as [sg Hsg]; [pose proof (mu_step F s A s' HI HN Es); lia | eapply invN_step; [split|]; eauto |].
      exists (A :: sg). unfold run in *. simpl. unfold pick at 2. rewrite Es. exact Hsg.
  Qed.

  (* no run is longer than mu: a schedule made of enabled picks only has at most mu(init) entries *)
  Fixpoint all_enabled (sigma : list tid) (s : state) : Prop :=
    match sigma with [] => True | t :: sg => match stepN s t with Some s' => all_enabled sg s' | None => False end end.
  Lemma run_length_bounded : forall sigma F s, InvN F s -> all_enabled sigma s -> length sigma + mu (runN sigma s) <= mu s.
  Proof.
    induction sigma as [|t sg IH]; intros F s HI Hall; simpl; [lia|].
    simpl in Hall. unfold run. simpl. unfold pick at 2. destruct (stepN s t) as [s'|] eqn:Es; [|contradiction].
    pose proof (mu_step F s t s' (proj1 HI) (proj2 HI) Es). assert (HI' : InvN F s') by (eapply invN_step; eauto).
    specialize (IH F s' HI' Hall). unfold run in IH. lia.
  Qed.

  (* ============================================================== Part 6: the statements of the property, assembled *)
  Section Top.
    Variable sessions : list nat.
    Variable a0 : AS.
    Notation reach sigma := (runN sigma (init sessions a0)).

    Theorem T_sequential_refinement : forall sigma, is_final AS (reach sigma) = true ->
      sq_of AS (reach sigma) = seq_sessions sessions (sq0 AS a0).
    Proof. intros. eapply inv_final_is_spec; eauto. apply inv_every_schedule. Qed.

    Theorem T_choice_schedule_independent : forall sigma sigma',
      is_final AS (reach sigma) = true -> is_final AS (reach sigma') = true ->
      executed (reach sigma) = executed (reach sigma') /\ learned (reach sigma) = learned (reach sigma') /\
      ast (reach sigma) = ast (reach sigma') /\ cbl (reach sigma) = cbl (reach sigma') /\ best (reach sigma) = best (reach sigma').
    Proof.
      intros sg sg' H H'. pose proof (T_sequential_refinement sg H) as E. pose proof (T_sequential_refinement sg' H') as E'.
      rewrite <- E' in E. unfold sq_of in E. inversion E. auto.
    Qed.

    Theorem T_learn_once_per_executed : forall sigma, is_final AS (reach sigma) = true ->
      exch (executed (reach sigma)) = map lsrc (learned (reach sigma)) /\
      map (fun e => fst (fst e)) (executed (reach sigma)) = down (bidx (reach sigma)).
    Proof.
      intros sg H. split.
      - eapply inv_final_learned; eauto. apply inv_every_schedule.
      - pose proof (T_sequential_refinement sg H) as E.
        destruct (seq_sessions_ok sessions (sq0 AS a0) (sq0_ok a0)) as [Hb _]. rewrite <- E in Hb. exact Hb.
    Qed.

    Theorem T_reward_from_own_batch : forall sigma, is_final AS (reach sigma) = true ->
      forall a r src, In (a, r, src) (learned (reach sigma)) ->
      exists k, src = Some (S k) /\ S k < bidx (reach sigma) /\ r = fst (reward (bm k) (bm (S k))).
    Proof.
      intros sg H a r src Hin. pose proof (T_sequential_refinement sg H) as E.
      destruct (seq_sessions_ok sessions (sq0 AS a0) (sq0_ok a0)) as [_ (_ & _ & HL)]. rewrite <- E in HL. simpl in HL. eauto.
    Qed.

    Theorem T_never_learns_unexecuted : forall sigma a r src, In (a, r, src) (learned (reach sigma)) ->
      exists b, src = Some b /\ In (b, a, true) (executed (reach sigma)).
    Proof. intros sg. eapply inv_learned_executed. apply inv_every_schedule. Qed.

    Theorem T_learned_in_order_always : forall sigma,
      exists pend, length pend <= 1 /\ exch (executed (reach sigma)) = pend ++ map lsrc (learned (reach sigma)).
    Proof.
      intros sg. pose proof (inv_every_schedule sessions a0 sg) as [_ H].
      inversion H; subst; simpl; try (exists []; simpl; split; [lia|assumption]).
      - exists [(Some bi, a)]. rewrite exch_true. simpl. split; [lia|congruence].
      - exists [(Some src, a)]. simpl. split; [lia|assumption].
    Qed.

    Theorem T_queues_empty_at_session_end : forall sigma, between_sessions (mpc (reach sigma)) = true ->
      aq (reach sigma) = [] /\ oq (reach sigma) = [] /\ apc (reach sigma) = AIdle.
    Proof. intros sg. eapply inv_quiescent. apply inv_every_schedule. Qed.

    Theorem T_deadlock_free : forall sigma, is_final AS (reach sigma) = false ->
      enabled AS stepN (reach sigma) M = true \/ enabled AS stepN (reach sigma) A = true.
    Proof. intros sg. eapply inv_enabled. apply inv_every_schedule. Qed.

    Theorem T_no_error_state : forall sigma, mpc (reach sigma) <> MErr /\ apc (reach sigma) <> AErr.
    Proof. intros sg. eapply inv_no_error. apply inv_every_schedule. Qed.

    Theorem T_drain_finds_one : forall sigma, mpc (reach sigma) = MDrain -> exists a, aq (reach sigma) = [a].
    Proof. intros sg. eapply inv_drain_one. apply inv_every_schedule. Qed.

    Theorem T_queue_bounds : forall sigma, length (aq (reach sigma)) <= 1 /\ length (oq (reach sigma)) <= 2.
    Proof. intros sg. eapply inv_queue_bounds. apply inv_every_schedule. Qed.

    Theorem T_sessions_terminate : forall sigma, all_enabled sigma (init sessions a0) -> length sigma <= mu (init sessions a0).
    Proof.
      intros sg H. pose proof (run_length_bounded sg _ _ (invN_init sessions a0) H). lia.
    Qed.

    Theorem T_can_always_complete : forall sigma, exists sigma', is_final AS (reach (sigma ++ sigma')) = true.
    Proof.
      intros sg. destruct (can_complete (S (mu (reach sg))) _ (reach sg) (Nat.lt_succ_diag_r _) (invN_every_schedule sessions a0 sg)) as [sg' H].
      exists sg'. unfold run in *. rewrite fold_left_app. exact H.
    Qed.
  End Top.
End Proofs.

(* ====================================================================== Part 5: the protocol before the repair *)
(* Concrete instance: two samplers, bootstrap sampler at index 1, a scripted agent (k-th policy call returns
   script[k mod 5]), losses halving from batch to batch. *)
Definition lossl (l : list Q) : nat -> Q := fun k => nth k l 0%Q.
Definition w_agent : cagent := mkag [0; 1; 1; 0; 0] 0 false 0%Q [] [] 2 [].
Definition w_losses : list Q := [256#1; 128#1; 64#1; 32#1; 16#1; 8#1]%Q.
Definition w_old := step_old cagent c_policy c_learn 2 1 (lossl w_losses).
Definition w_new := step cagent c_policy c_learn 2 1 (lossl w_losses).
Definition w_run_old (sessions : list nat) (sigma : list tid) := run cagent w_old sigma (init cagent sessions w_agent).

(* one session of one batch; the agent reads the flag before the calibration thread sets it *)
Definition sigma_stale_action : list tid := [M; M; M; A; M; M; M; A; A; A; M].
(* same session; the agent reads the flag after it was set *)
Definition sigma_stale_marker : list tid := [M; M; M; M; M; M; A; M].
(* two sessions of one batch each *)
Definition sigma_misattributed : list tid := [M; M; M; A; A; M; M; M; A; A; M; M; M; M; A; M; M; M; M; M; A; A; A; M].
Definition sigma_short : list tid := [M; M; M; M; M; M; A; M; M; M; M; A; A; M; M; M; M; M; A; A; M].

(* the agent learns (reward 0) about action 0, which no batch ever ran; that action is left in the queue *)
Lemma old_learns_unexecuted : let s := w_run_old [1] sigma_stale_action in
  is_final cagent s = true /\ learned s = [(0, 0%Q, None)] /\ executed s = [(0, 1, false)] /\ aq s = [0] /\ oq s = [].
Proof. vm_compute. repeat split. Qed.

(* the end marker is left in the outcome queue *)
Lemma old_leftover_marker : let s := w_run_old [1] sigma_stale_marker in
  is_final cagent s = true /\ oq s = [None] /\ aq s = [] /\ learned s = [].
Proof. vm_compute. repeat split. Qed.

(* the stale action 0 of session one is what session two runs as batch 1, while the reward of batch 1 is credited
   to action 1, the agent's fresh choice; one more stale action and the marker are left over *)
Lemma old_misattributed : let s := w_run_old [1; 1] sigma_misattributed in
  is_final cagent s = true /\ In (1, 0, true) (executed s) /\
  existsb (fun e => Nat.eqb (fst (fst e)) 1 && qeqb (snd (fst e)) (1#2)%Q && onateqb (snd e) (Some 1)) (learned s) = true /\
  aq s = [1] /\ oq s = [None].
Proof. vm_compute. repeat split; auto. Qed.

(* two complete schedules of the same two sessions, different learn logs and different leftovers *)
Lemma old_outcome_depends_on_schedule :
  let s := w_run_old [1; 1] sigma_misattributed in let s' := w_run_old [1; 1] sigma_short in
  is_final cagent s = true /\ is_final cagent s' = true /\ length (learned s) = 2 /\ length (learned s') = 1 /\
  oq s = [None] /\ oq s' = [Some ((128#1)%Q, 1); None].
Proof. vm_compute. repeat split. Qed.

(* What does hold before the repair, on a bounded domain (every schedule enumerated by all_runs):
   - within the FIRST session every learn call with a real source is about the batch that ran that action;
   - the executed log is the same under all 39130 schedules of two sessions of two batches (greedy learner, optimistic
     initial values): the exchange is a Kahn network up to where the agent stops, so timing changes what is learnt
     and what is left over, not which samplers run. *)
(* ---- the repaired protocol outside the hypothesis reward_defined: best loss exactly 0, then a negative loss.  The division
   of mab.py:46 raises in the agent's thread; with a further batch in the session the calibration thread waits for ever
   (no thread enabled, not final), without one the session ends with the marker left on the outcome queue and the last
   chosen batch never learnt. *)
Definition z_losses : list Q := [1; 0; -1; -2]%Q.
Definition z_new := step cagent c_policy c_learn 2 1 (lossl z_losses).
Definition z_run (sessions : list nat) (sigma : list tid) := run cagent z_new sigma (init cagent sessions w_agent).
Fixpoint alt_sched (n : nat) : list tid := match n with O => [] | S k => M :: A :: alt_sched k end.
Lemma zero_reference_deadlock : let s := z_run [4] (alt_sched 40) in
  is_final cagent s = false /\ mask cagent z_new s = 0 /\ mpc s = MGet /\ apc s = AErr /\ cbl s = Some 0%Q /\ best s = Some (-1)%Q.
Proof. vm_compute. repeat split; reflexivity. Qed.
Lemma zero_reference_leftover : let s := z_run [3] (alt_sched 40) in
  is_final cagent s = true /\ oq s = [None] /\ length (exch (executed s)) = 2 /\ length (learned s) = 1.
Proof. vm_compute. repeat split; reflexivity. Qed.
Lemma zero_reference_not_defined : reward_raises (bm (lossl z_losses) 1) (bm (lossl z_losses) 2) = true.
Proof. vm_compute. reflexivity. Qed.

Definition pairs_ok (s : state cagent) : bool :=
  forallb (fun e => match e with
                    | (a, _, Some b) => existsb (fun x => Nat.eqb (fst (fst x)) b && Nat.eqb (snd (fst x)) a && snd x) (executed s)
                    | (_, _, None) => true end) (learned s).
Lemma old_first_session_pairing_bounded :
  forallb (fun n => forallb (fun s => is_final cagent s && pairs_ok s) (all_runs cagent w_old 60 (init cagent [n] w_agent)))
          [0; 1; 2; 3; 4] = true.
Proof. vm_compute. reflexivity. Qed.

Definition w_greedy : cagent := mkag [] 0 true (1#2)%Q [1%Q; 1%Q] [(false, 0)] 2 [0; 0].
Definition exlog (s : state cagent) : list nat := map (fun e => snd (fst e)) (rev (executed s)).
Lemma old_executed_independent_bounded_2x2 :
  let runs := all_runs cagent w_old 80 (init cagent [2; 2] w_greedy) in
  N.of_nat (length runs) = 39130%N /\ forallb (fun s => is_final cagent s && list_eqb Nat.eqb (exlog s) [1; 0; 1; 0]) runs = true.
Proof. vm_compute. split; reflexivity. Qed.

(* the repaired protocol on the same bounded domain: every schedule ends with the same logs and empty queues
   (instance of T_sequential_refinement, kept as an executable cross-check of the statement) *)
Lemma new_all_schedules_bounded_2x2x2 :
  let runs := all_runs cagent w_new 80 (init cagent [2; 2; 2] w_agent) in
  N.of_nat (length runs) = 1000%N /\
  forallb (fun s => is_final cagent s && list_eqb Nat.eqb (exlog s) [1; 0; 1; 0; 0; 1] &&
                    Nat.eqb (length (learned s)) 5 && Nat.eqb (length (aq s)) 0 && Nat.eqb (length (oq s)) 0) runs = true.
Proof. vm_compute. split; reflexivity. Qed.

(* ====================================================================== Part 6: rejected requests *)
(* start_session on a running session / end_session outside a session (rl_scheduler.py:130-132, 167-169): the request performs one
   synchronisation operation, the read of the flag, and raises ValueError; nothing but the calibration thread's program counter
   changes - queues, flag, reference losses, the agent's thread and state, the logs are as before (both protocols).  The harness
   drives such requests on the real scheduler and checks that the rest of the run is a run of `step` without them. *)
Lemma rejected_request_moves_nothing : forall (AS : Type) policy nsam halton loss rep (s s' : state AS),
  (mpc s = MReadS /\ flag s = false) \/ (mpc s = MReadE /\ flag s = true) ->
  m_step AS policy nsam halton loss rep s = Some s' -> s' = set_mpc AS MErr s.
Proof.
  intros AS policy nsam halton loss rep s s' [[Hp Hf]|[Hp Hf]] H; unfold m_step in H; rewrite Hp, Hf in H; inversion H; reflexivity.
Qed.
Lemma rejected_request_state : forall (AS : Type) (s : state AS),
  let s' := set_mpc AS MErr s in
  aq s' = aq s /\ oq s' = oq s /\ flag s' = flag s /\ apc s' = apc s /\ cbl s' = cbl s /\ best s' = best s /\ ast s' = ast s /\
  executed s' = executed s /\ learned s' = learned s /\ bidx s' = bidx s.
Proof. intros. unfold s', set_mpc. simpl. repeat split. Qed.
Lemma rejected_request_full : forall (AS : Type) policy nsam halton loss rep (s s' : state AS),
  (mpc s = MReadS /\ flag s = false) \/ (mpc s = MReadE /\ flag s = true) ->
  m_step AS policy nsam halton loss rep s = Some s' ->
  s' = set_mpc AS MErr s /\
  aq s' = aq s /\ oq s' = oq s /\ flag s' = flag s /\ apc s' = apc s /\ cbl s' = cbl s /\ best s' = best s /\ ast s' = ast s /\
  executed s' = executed s /\ learned s' = learned s /\ bidx s' = bidx s.
Proof.
  intros AS policy nsam halton loss rep s s' H E. rewrite (rejected_request_moves_nothing AS policy nsam halton loss rep s s' H E).
  split; [reflexivity | exact (rejected_request_state AS s)].
Qed.
