(* Faults (C11) and splitting / resuming (C05) on the shared calibrator model. *)
From Coq Require Import List ZArith Bool Arith Lia.
From BlackIt Require Import Model.Calibrator Proofs.CalibratorP Proofs.CalibStopP.
Import ListNotations.

Section Sess.
  Variables (Param Series LossV : Type).
  Variable model : Param -> Z -> Series.
  Variable lossf : list Series -> LossV.
  Variable loss_leb : LossV -> LossV -> bool.
  Variable rounds0 : LossV -> nat -> bool.
  Variable propose : sampler -> list Param -> list LossV -> list Param.
  Variable draws : nat -> Z.
  Variable agent_actions : nat -> nat.
  Variable plan : fault.

  Notation core := (core Param Series LossV).
  Notation cstate := (cstate Param Series LossV).
  Notation one_batch := (one_batch Param Series LossV model lossf loss_leb rounds0 propose draws agent_actions plan).
  Notation batches := (batches Param Series LossV model lossf loss_leb rounds0 propose draws agent_actions plan).
  Notation calibrate_pos := (calibrate_pos Param Series LossV model lossf loss_leb rounds0 propose draws agent_actions plan).
  Notation step := (step Param Series LossV model lossf loss_leb rounds0 propose draws agent_actions plan).
  Notation run := (run Param Series LossV model lossf loss_leb rounds0 propose draws agent_actions plan).

  (* session flag and agent thread of the RL scheduler *)
  Definition sess (sc : sched LossV) : option (bool * bool) :=
    match sc with RR _ _ _ => None | RL _ _ _ _ st al _ => Some (st, al) end.
  Definition idle (sc : sched LossV) : Prop := sess sc = None \/ sess sc = Some (true, false).   (* stopped, no thread *)
  Definition active (sc : sched LossV) : Prop := sess sc = None \/ sess sc = Some (false, true).

  Lemma sess_with_samplers sc l : sess (with_samplers _ sc l) = sess sc.
  Proof. destruct sc; reflexivity. Qed.
  Lemma sess_update sc nl : sess (sched_update _ loss_leb sc nl) = sess sc.
  Proof. destruct sc as [|l h best st al cs]; cbn; [reflexivity|]. destruct (min_loss _ _ _); [destruct best|]; reflexivity. Qed.
  Lemma sess_next sc i sc1 : next_sampler _ agent_actions sc = Some (i, sc1) -> sess sc1 = sess sc.
  Proof. destruct sc as [l b|l h best st al cs]; cbn.
    - destruct l; [discriminate|]. intros H; injection H as _ <-; reflexivity.
    - destruct best; intros H; injection H as _ <-; reflexivity. Qed.

  Lemma one_batch_sess s s' o : one_batch s = (s', o) -> sess (sch _ _ _ (live _ _ _ s')) = sess (sch _ _ _ (live _ _ _ s)).
  Proof. unfold Calibrator.one_batch. intros H.
    destruct (next_sampler LossV agent_actions _) as [[i sc1]|] eqn:Hn; [|injection H as <- <-; reflexivity].
    pose proof (sess_next _ _ _ Hn) as H1.
    repeat bm H; injection H as <- <-; cbn; rewrite ?sess_update, ?sess_with_samplers; auto. Qed.

  Lemma batches_sess : forall n s s' o, batches n s = (s', o) -> sess (sch _ _ _ (live _ _ _ s')) = sess (sch _ _ _ (live _ _ _ s)).
  Proof. induction n as [|n IH]; intros s s' o H; cbn in H; [injection H as <- <-; reflexivity|].
    destruct (one_batch s) as [s1 o1] eqn:E. pose proof (one_batch_sess _ _ _ E) as H1.
    destruct o1; try (injection H as <- <-; exact H1). rewrite (IH _ _ _ H). exact H1. Qed.

  (* whatever happens inside calibrate() - normal return, early stop, or an exception in the model, the loss or a
     sampler - the session is ended: the scheduler is stopped and no agent thread is left *)
  Theorem calibrate_pos_leaves_idle n s s' e r : idle (sch _ _ _ (live _ _ _ s)) -> calibrate_pos n s = (s', e, r) ->
    idle (sch _ _ _ (live _ _ _ s')).
  Proof.
    intros Hi H. unfold Calibrator.calibrate_pos in H.
    set (c1 := if Nat.eqb _ 0 then _ else _) in H.
    assert (Hc1 : sess (sch _ _ _ c1) = sess (sch _ _ _ (live _ _ _ s))).
    { unfold c1. destruct (Nat.eqb _ 0); [|reflexivity]. unfold set_samplers_seeds. cbn. destruct (sch _ _ _ (live _ _ _ s)); reflexivity. }
    destruct (sch _ _ _ c1) as [l b|l h best st al cs] eqn:Hs1; cbn [start_session] in H.
    - (* round-robin *)
      destruct (batches n _) as [s1 o1] eqn:Hb. pose proof (batches_sess _ _ _ _ Hb) as Hss. cbn in Hss.
      destruct (sch _ _ _ (live _ _ _ s1)) as [l2 b2|] eqn:Hs2; [|discriminate]. cbn [end_session] in H.
      destruct o1; injection H as <- <- <-; left; cbn; try rewrite Hs2; reflexivity.
    - cbn in Hc1. destruct Hi as [Hi|Hi]; rewrite Hi in Hc1; [discriminate|]. injection Hc1 as -> ->.
      destruct (batches n _) as [s1 o1] eqn:Hb. pose proof (batches_sess _ _ _ _ Hb) as Hss. cbn in Hss.
      destruct (sch _ _ _ (live _ _ _ s1)) as [|l2 h2 best2 st2 al2 cs2] eqn:Hs2; [discriminate|]. cbn in Hss. injection Hss as -> ->.
      cbn [end_session] in H.
      destruct o1; injection H as <- <- <-; right; reflexivity.
  Qed.

  Notation calibrate := (calibrate Param Series LossV model lossf loss_leb rounds0 propose draws agent_actions plan).
  Theorem calibrate_leaves_idle n s s' e r : idle (sch _ _ _ (live _ _ _ s)) -> calibrate n s = (s', e, r) ->
    idle (sch _ _ _ (live _ _ _ s')).
  Proof. intros Hi H. rewrite (calibrate_unfold Param Series LossV) in H. destruct n; [|eapply calibrate_pos_leaves_idle; eauto].
    destruct (calibrate_pos 0 s) as [[s1 e1] r1] eqn:E. pose proof (calibrate_pos_leaves_idle _ _ _ _ _ Hi E) as Hl.
    apply (zero_ckpt_cases Param Series LossV) in H. destruct H as [(-> & _ & _) | [(_ & Hlive & _) | (_ & -> & _)]]; auto.
    now rewrite Hlive. Qed.

  (* ... so a subsequent calibrate() can start its session *)
  Theorem idle_can_start sc : idle sc -> exists sc', start_session _ sc = inl sc'.
  Proof. destruct sc as [|l h best st al cs]; [eexists; reflexivity|]. intros [H|H]; [discriminate|]. cbn in H. injection H as -> ->.
    eexists; reflexivity. Qed.

End Sess.

(* ---------- a fault plan that does not fire is irrelevant; a faulted run is a prefix of the fault-free one ---------- *)
Section Plans.
  Variables (Param Series LossV : Type).
  Variable model : Param -> Z -> Series.
  Variable lossf : list Series -> LossV.
  Variable loss_leb : LossV -> LossV -> bool.
  Variable rounds0 : LossV -> nat -> bool.
  Variable propose : sampler -> list Param -> list LossV -> list Param.
  Variable draws : nat -> Z.
  Variable agent_actions : nat -> nat.
  Variable plan : fault.
  Hypothesis propose_len : forall s ps ls, length (propose s ps ls) = s_bsize s.

  Notation cstate := (cstate Param Series LossV).
  Notation one_batchP := (one_batch Param Series LossV model lossf loss_leb rounds0 propose draws agent_actions plan).
  Notation one_batch0 := (one_batch Param Series LossV model lossf loss_leb rounds0 propose draws agent_actions NoFault).
  Notation batchesP := (batches Param Series LossV model lossf loss_leb rounds0 propose draws agent_actions plan).
  Notation batches0 := (batches Param Series LossV model lossf loss_leb rounds0 propose draws agent_actions NoFault).
  Notation stepsP := (steps Param Series LossV model lossf loss_leb rounds0 propose draws agent_actions plan).
  Notation steps0 := (steps Param Series LossV model lossf loss_leb rounds0 propose draws agent_actions NoFault).

  Lemma sim_member0 p : forall e pos mc, sim_member Param Series model draws NoFault p e pos mc =
     inl (member_series Param Series model draws p pos e).
  Proof. induction e as [|e IH]; intros pos mc; cbn; [reflexivity|]. rewrite IH. unfold member_series. cbn [seq map].
    rewrite Nat.add_0_r. f_equal. f_equal. rewrite <- seq_shift, map_map. apply map_ext. intros a. f_equal. f_equal. lia. Qed.

  Lemma simulate0 E : forall ps pos mc rows, simulate Param Series model draws plan E ps pos mc = inl rows ->
     simulate Param Series model draws NoFault E ps pos mc = inl rows.
  Proof. induction ps as [|p ps IH]; intros pos mc rows H; cbn in *; [exact H|].
    destruct (sim_member Param Series model draws plan p E pos mc) eqn:E1; [|discriminate].
    pose proof (sim_member_ok _ _ _ _ _ _ _ _ _ _ E1) as Hl. subst l. rewrite sim_member0.
    destruct (simulate Param Series model draws plan E ps (pos + E) (mc + E)) eqn:E2; [|discriminate].
    rewrite (IH _ _ _ E2). exact H. Qed.

  Lemma eval_losses0 : forall rows lc l, eval_losses Series LossV lossf plan rows lc = inl l ->
     eval_losses Series LossV lossf NoFault rows lc = inl l.
  Proof. induction rows as [|r rows IH]; intros lc l H; [exact H|].
    pose proof (eval_losses_ok _ _ _ _ _ _ _ H) as ->. clear H.
    cbn. assert (X : forall lc', eval_losses Series LossV lossf NoFault rows lc' = inl (map lossf rows)).
    { clear. induction rows as [|r rows IH]; intros lc'; cbn; [reflexivity|]. now rewrite IH. }
    now rewrite X. Qed.

  Lemma one_batch_plan_irrelevant s s' o : one_batchP s = (s', o) -> (o = Done \/ o = Converged) -> one_batch0 s = (s', o).
  Proof.
    unfold Calibrator.one_batch. intros H Ho.
    destruct (next_sampler LossV agent_actions _) as [[i sc1]|]; [|injection H as <- <-; destruct Ho; discriminate].
    destruct (nth_error _ i) as [m|]; [|injection H as <- <-; destruct Ho; discriminate].
    destruct (sampler_faults plan m); [injection H as <- <-; destruct Ho; discriminate|]. cbn [sampler_faults].
    destruct (simulate Param Series model draws plan _ _ _ _) as [rows|n] eqn:E1; [|injection H as <- <-; destruct Ho; discriminate].
    rewrite (simulate0 _ _ _ _ _ E1).
    destruct (eval_losses Series LossV lossf plan rows _) as [nl|n] eqn:E2; [|injection H as <- <-; destruct Ho; discriminate].
    rewrite (eval_losses0 _ _ _ E2). exact H. Qed.

  Lemma steps_plan_irrelevant k s s1 : stepsP k s s1 -> steps0 k s s1.
  Proof. induction 1 as [|k s s1 s2 H1 H2 IH]; [constructor|]. econstructor; [|exact IH].
    apply one_batch_plan_irrelevant; auto. Qed.

  Lemma steps_batches0 k s s1 : steps0 k s s1 -> forall j, batches0 (k + j) s = batches0 j s1.
  Proof. induction 1 as [|k s s1 s2 H1 H2 IH]; intros j; [reflexivity|]. cbn. rewrite H1. apply IH. Qed.

  Definition injected (e : exn) : Prop := e = ExModel \/ e = ExLoss \/ e = ExSampler.

  (* C11: an exception injected into the model, the loss or a sampler at ANY invocation index leaves exactly the
     batches completed before it, and these are a prefix of what the fault-free run records *)
  Theorem fault_history_is_prefix E0 n s s' e : InvS Param Series LossV model lossf draws E0 s ->
    batchesP n s = (s', Raised e) -> injected e ->
    exists k s1, k < n /\ steps0 k s s1 /\
      records _ _ _ (live _ _ _ s') = records _ _ _ (live _ _ _ s1) /\
      batch_idx _ _ _ (live _ _ _ s1) = batch_idx _ _ _ (live _ _ _ s) + k /\
      extends _ _ _ (live _ _ _ s1) (live _ _ _ (fst (batches0 n s))).
  Proof.
    intros Hinv H Hinj. pose proof (batches_spec _ _ _ _ _ _ _ _ _ _ _ _ _ _ _ H) as (k & s1 & Hk & Hs & Ho). cbn in Ho.
    pose proof (steps_plan_irrelevant _ _ _ Hs) as Hs0.
    exists k, s1. split; [exact Hk|]. split; [exact Hs0|].
    destruct (one_batch_cases _ _ _ _ _ _ _ _ _ _ _ propose_len _ _ _ Ho) as [(e0 & He & Hrec & _) | (i & sc1 & m & _ & _ & _ & Hout & _)].
    2:{ exfalso. destruct Hinj as [->|[->| ->]]; destruct Hout as [X|[X|[X|X]]]; discriminate. }
    split; [exact Hrec|]. split; [apply (steps_facts _ _ _ _ _ _ _ _ _ _ _ _ _ _ Hs0)|].
    replace n with (k + (n - k)) by lia. rewrite (steps_batches0 _ _ _ Hs0).
    (* invariant at s1, then the remaining fault-free batches only append *)
    assert (Hinv1 : InvS Param Series LossV model lossf draws E0 s1).
    { clear -Hs0 Hinv propose_len. induction Hs0 as [|k s s1 s2 H1 H2 IH]; [exact Hinv|]. apply IH.
      eapply one_batch_inv; eauto. }
    destruct (batches0 (n - k) s1) as [s2 o2] eqn:Hb. cbn.
    eapply batches_inv; eauto.
  Qed.
End Plans.

(* ---------- splitting a run over several calibrate() calls, checkpoint/restore (C05) ---------- *)
Section Split.
  Variables (Param Series LossV : Type).
  Variable model : Param -> Z -> Series.
  Variable lossf : list Series -> LossV.
  Variable loss_leb : LossV -> LossV -> bool.
  Variable rounds0 : LossV -> nat -> bool.
  Variable propose : sampler -> list Param -> list LossV -> list Param.
  Variable draws : nat -> Z.
  Variable agent_actions : nat -> nat.
  Variable plan : fault.

  Notation core := (core Param Series LossV).
  Notation cstate := (cstate Param Series LossV).
  Notation one_batch := (one_batch Param Series LossV model lossf loss_leb rounds0 propose draws agent_actions plan).
  Notation batches := (batches Param Series LossV model lossf loss_leb rounds0 propose draws agent_actions plan).
  Notation calibrate_pos := (calibrate_pos Param Series LossV model lossf loss_leb rounds0 propose draws agent_actions plan).
  Notation steps := (steps Param Series LossV model lossf loss_leb rounds0 propose draws agent_actions plan).

  Lemma batches_split : forall a b s, batches (a + b) s =
     match batches a s with (s1, Done) => batches b s1 | r => r end.
  Proof. induction a as [|a IH]; intros b s; cbn; [reflexivity|].
    destruct (one_batch s) as [s1 o1]. destruct o1; auto. Qed.

  Lemma set_sch_id (c : core) : set_sch _ _ _ c (sch _ _ _ c) = c.
  Proof. destruct c; reflexivity. Qed.
  Lemma set_counts_id (c : core) : set_counts _ _ _ c (model_calls _ _ _ c) (loss_calls _ _ _ c) = c.
  Proof. destruct c; reflexivity. Qed.

  Lemma steps_sched_rr k s s1 : steps k s s1 -> (exists l b, sch _ _ _ (live _ _ _ s) = RR LossV l b) ->
     exists l b, sch _ _ _ (live _ _ _ s1) = RR LossV l b.
  Proof. induction 1 as [|k s s1 s2 H1 H2 IH]; intros Hrr; [exact Hrr|]. apply IH. clear IH H2.
    destruct Hrr as (l & b & Hs). unfold Calibrator.one_batch in H1. rewrite Hs in H1. cbn [next_sampler] in H1.
    destruct l; [discriminate|]. cbn [sched_samplers with_samplers] in H1.
    repeat bm H1; try discriminate; injection H1 as <-; cbn; eexists; eexists; reflexivity. Qed.

  (* two consecutive calibrate() calls on a live object equal one call with the total number of batches
     (round-robin line-up, no convergence precision, first segment positive and completed without exception) *)
  Theorem calibrate_pos_split a b s s1 r1 l0 b0 :
    sch _ _ _ (live _ _ _ s) = RR LossV l0 b0 -> c_prec (cfg _ _ _ (live _ _ _ s)) = None -> 0 < a ->
    calibrate_pos a s = (s1, None, r1) ->
    calibrate_pos (a + b) s = calibrate_pos b s1.
  Proof.
    intros Hs Hp Ha H. unfold Calibrator.calibrate_pos in *.
    set (c1 := if Nat.eqb _ 0 then _ else _) in *.
    assert (Hs1 : exists l1, sch _ _ _ c1 = RR LossV l1 b0).
    { unfold c1. destruct (Nat.eqb _ 0); [|eexists; exact Hs]. unfold set_samplers_seeds. rewrite Hs. cbn. eexists; reflexivity. }
    assert (Hp1 : c_prec (cfg _ _ _ c1) = None) by (unfold c1; destruct (Nat.eqb _ 0); exact Hp).
    destruct Hs1 as [l1 Hs1]. rewrite Hs1 in *. cbn [start_session] in *.
    rewrite batches_split.
    destruct (batches a _) as [s2 o2] eqn:Hb.
    destruct o2.
    - (* first segment ran all its batches *)
      pose proof (batches_spec _ _ _ _ _ _ _ _ _ _ _ _ _ _ _ Hb) as Hsp. cbn in Hsp.
      assert (Hrr2 : exists l b, sch _ _ _ (live _ _ _ s2) = RR LossV l b)
        by (eapply steps_sched_rr; [exact Hsp|]; cbn; eexists; eexists; reflexivity).
      destruct Hrr2 as (l2 & b2 & Hs2). rewrite Hs2 in H. cbn [end_session] in H.
      injection H as <- <-. cbn [live disk].
      destruct (steps_facts _ _ _ _ _ _ _ _ _ _ _ _ _ _ Hsp) as [Hbi _]. cbn in Hbi.
      assert (Hne : Nat.eqb (batch_idx _ _ _ (set_sch _ _ _ (live _ _ _ s2) (RR LossV l2 b2))) 0 = false)
        by (apply Nat.eqb_neq; cbn; lia).
      rewrite Hne. cbn [sch set_sch start_session].
      assert (Hid : set_sch _ _ _ (live _ _ _ s2) (RR LossV l2 b2) = live _ _ _ s2) by (rewrite <- Hs2; apply set_sch_id).
      rewrite !Hid. destruct s2 as [c2 d2]. reflexivity.
    - exfalso. eapply no_prec_runs_all; [|exact Hb]. exact Hp1.
    - destruct (end_session _ _); discriminate.
  Qed.

  Notation calibrate := (calibrate Param Series LossV model lossf loss_leb rounds0 propose draws agent_actions plan).
  (* the same for calibrate() itself, both segments positive (the segments of the property are) *)
  Theorem calibrate_split a b s s1 r1 l0 b0 :
    sch _ _ _ (live _ _ _ s) = RR LossV l0 b0 -> c_prec (cfg _ _ _ (live _ _ _ s)) = None -> 0 < a -> 0 < b ->
    calibrate a s = (s1, None, r1) ->
    calibrate (a + b) s = calibrate b s1.
  Proof. intros Hs Hp Ha Hb H. rewrite (calibrate_unfold Param Series LossV) in *.
    destruct a as [|a]; [lia|]. destruct b as [|b]; [lia|]. cbn [Nat.add].
    exact (calibrate_pos_split (S a) (S b) s s1 r1 l0 b0 Hs Hp Ha H). Qed.

  (* a checkpoint followed by a restore gives back the live state (round-robin; exact codecs: C04) *)
  Theorem restore_checkpoint_identity (s s1 : cstate) e1 (s2 : cstate) e2 l b :
    sch _ _ _ (live _ _ _ s) = RR LossV l b ->
    create_checkpoint Param Series LossV s = (s1, e1) -> restore Param Series LossV s1 = (s2, e2) ->
    e1 = None /\ e2 = None /\ live _ _ _ s2 = live _ _ _ s.
  Proof. unfold create_checkpoint, restore, save. intros Hs H1 H2. rewrite Hs in H1. injection H1 as <- <-.
    cbn in H2. injection H2 as <- <-. cbn. repeat split; auto. apply set_counts_id. Qed.

  (* calibrate() depends on the state only through the live calibrator, never through what the folder held before,
     as far as the live result is concerned *)
  Lemma one_batch_disk_irrelevant c d d' s1 o1 : one_batch (mkSt _ _ _ c d) = (s1, o1) ->
    exists d1', one_batch (mkSt _ _ _ c d') = (mkSt _ _ _ (live _ _ _ s1) d1', o1).
  Proof. unfold Calibrator.one_batch. cbn [live disk]. intros H.
    repeat bm H; injection H as <- <-; eexists; reflexivity. Qed.
  Lemma batches_disk_irrelevant : forall n c d d' s1 o1, batches n (mkSt _ _ _ c d) = (s1, o1) ->
    exists d1', batches n (mkSt _ _ _ c d') = (mkSt _ _ _ (live _ _ _ s1) d1', o1).
  Proof. induction n as [|n IH]; intros c d d' s1 o1 H; cbn in *; [injection H as <- <-; eexists; reflexivity|].
    destruct (one_batch (mkSt _ _ _ c d)) as [s2 o2] eqn:E. destruct (one_batch_disk_irrelevant _ _ d' _ _ E) as [d2' E'].
    rewrite E'. destruct o2; try (injection H as <- <-; eexists; reflexivity).
    destruct s2 as [c2 d2]. cbn in *. eapply IH; eauto. Qed.
  Theorem calibrate_pos_disk_irrelevant n c d d' s1 e r : calibrate_pos n (mkSt _ _ _ c d) = (s1, e, r) ->
    exists d1', calibrate_pos n (mkSt _ _ _ c d') = (mkSt _ _ _ (live _ _ _ s1) d1', e, r).
  Proof. unfold Calibrator.calibrate_pos. cbn [live disk]. intros H.
    set (c1 := if Nat.eqb _ 0 then _ else _) in *.
    destruct (start_session _ _) as [sc|e0]; [|injection H as <- <- <-; eexists; reflexivity].
    destruct (batches n (mkSt _ _ _ (set_sch _ _ _ c1 sc) d)) as [s2 o2] eqn:Hb.
    destruct (batches_disk_irrelevant _ _ _ d' _ _ Hb) as [d2' Hb']. rewrite Hb'. cbn [live disk].
    destruct o2; destruct (end_session _ _); injection H as <- <- <-; eexists; reflexivity. Qed.

  Theorem calibrate_disk_irrelevant n c d d' s1 e r : calibrate n (mkSt _ _ _ c d) = (s1, e, r) ->
    exists d1', calibrate n (mkSt _ _ _ c d') = (mkSt _ _ _ (live _ _ _ s1) d1', e, r).
  Proof. intros H. rewrite (calibrate_unfold Param Series LossV) in *. destruct n as [|n]; [|eapply calibrate_pos_disk_irrelevant; eauto].
    destruct (calibrate_pos 0 (mkSt _ _ _ c d)) as [[s0 e0] r0] eqn:E.
    destruct (calibrate_pos_disk_irrelevant 0 c d d' _ _ _ E) as [d0' E']. rewrite E'.
    unfold zero_ckpt in *. cbn [live]. destruct e0; [injection H as <- <- <-; eexists; reflexivity|].
    destruct (c_saving _); [|injection H as <- <- <-; eexists; reflexivity].
    destruct (save _ _ _ (live _ _ _ s0)); injection H as <- <- <-; eexists; reflexivity. Qed.

  (* C05: stopping after a completed segment, checkpointing, restoring and continuing equals continuing on the live
     object, hence (calibrate_split) equals the uninterrupted run *)
  Theorem resume_equiv b (s s1 : cstate) e1 (s2 : cstate) e2 l b0 s3 e r :
    sch _ _ _ (live _ _ _ s) = RR LossV l b0 ->
    create_checkpoint Param Series LossV s = (s1, e1) -> restore Param Series LossV s1 = (s2, e2) ->
    calibrate b s = (s3, e, r) ->
    exists d', calibrate b s2 = (mkSt _ _ _ (live _ _ _ s3) d', e, r).
  Proof. intros Hs H1 H2 H3. destruct (restore_checkpoint_identity _ _ _ _ _ _ _ Hs H1 H2) as (_ & _ & Hl).
    destruct s as [c d], s2 as [c2 d2]. cbn in Hl. subst c2. eapply calibrate_disk_irrelevant; eauto. Qed.
End Split.
