(* Lemmas about Model/Surrogate.v. *)
From Coq Require Import List QArith Qabs Bool Arith Lia Sorted Permutation.
From BlackIt Require Import Model.Surrogate Proofs.SnapP.
Import ListNotations.

(* ------------------------------------------------------------------ list helpers *)
Lemma StronglySorted_app_cross {A} (R : A -> A -> Prop) : forall l1 l2,
  StronglySorted R (l1 ++ l2) -> forall a b, In a l1 -> In b l2 -> R a b.
Proof.
  induction l1 as [|x l1 IH]; intros l2 H a b Ha Hb; [contradiction|].
  cbn in H. apply StronglySorted_inv in H. destruct H as [Hs Hall]. destruct Ha as [<-|Ha].
  - rewrite Forall_forall in Hall. apply Hall. apply in_or_app. now right.
  - now apply (IH l2).
Qed.

Lemma take_rows_seq {A} (rows : list (list A)) : take_rows rows (seq 0 (length rows)) = rows.
Proof.
  unfold take_rows. apply (nth_ext _ _ [] []).
  - now rewrite map_length, seq_length.
  - intros n Hn. rewrite map_length, seq_length in Hn. now rewrite nth_map_seq.
Qed.

Lemma take_rows_app {A} (rows : list (list A)) a b : take_rows rows (a ++ b) = take_rows rows a ++ take_rows rows b.
Proof. unfold take_rows. apply map_app. Qed.

Lemma take_rows_firstn {A} (rows : list (list A)) k o : firstn k (take_rows rows o) = take_rows rows (firstn k o).
Proof. unfold take_rows. apply firstn_map. Qed.

Lemma take_rows_perm {A} (rows : list (list A)) o :
  Permutation o (seq 0 (length rows)) -> Permutation (take_rows rows o) rows.
Proof.
  intros H. rewrite <- (take_rows_seq rows) at 2. unfold take_rows. now apply Permutation_map.
Qed.

Lemma take_rows_length {A} (rows : list (list A)) o : length (take_rows rows o) = length o.
Proof. unfold take_rows. apply map_length. Qed.

(* ------------------------------------------------------------------ argsort as any sorting permutation *)
Section OrderP.
  Variable V : Type.
  Variable d : V.
  Variable leb : V -> V -> bool.

  Definition along (l : list V) (i j : nat) : Prop := leb (nth i l d) (nth j l d) = true.

  (* the contract of np.argsort: some permutation of the positions along which the values do not decrease *)
  Definition ArgsortSpec (l : list V) (o : list nat) : Prop :=
    Permutation o (seq 0 (length l)) /\ StronglySorted (along l) o.

  Hypothesis leb_trans : forall a b c, leb a b = true -> leb b c = true -> leb a c = true.

  Lemma nondecr_along_sorted l : forall o, nondecr_along V d leb l o = true -> StronglySorted (along l) o.
  Proof.
    induction o as [|i o IH]; intros H; [constructor|].
    destruct o as [|j o'].
    - constructor; constructor.
    - cbn in H. apply andb_true_iff in H. destruct H as [Hij Hrest].
      specialize (IH Hrest). constructor; [exact IH|].
      constructor; [exact Hij|].
      apply StronglySorted_inv in IH. destruct IH as [_ Hall].
      rewrite Forall_forall in *. intros x Hx. unfold along in *. eapply leb_trans; [exact Hij|]. now apply Hall.
  Qed.

  Lemma is_perm_of_range_perm n o : is_perm_of_range n o = true -> Permutation o (seq 0 n).
  Proof.
    unfold is_perm_of_range. intros H. apply andb_true_iff in H. destruct H as [Hlen Hall].
    apply Nat.eqb_eq in Hlen. apply Permutation_sym.
    apply NoDup_Permutation_bis.
    - apply seq_NoDup.
    - rewrite seq_length. lia.
    - intros i Hi. rewrite forallb_forall in Hall. specialize (Hall i Hi).
      apply existsb_exists in Hall. destruct Hall as [x [Hx He]]. apply Nat.eqb_eq in He. now subst.
  Qed.

  Lemma is_argsort_spec l o : is_argsort V d leb l o = true -> ArgsortSpec l o.
  Proof.
    unfold is_argsort. intros H. apply andb_true_iff in H. destruct H as [Hp Hs]. split.
    - now apply is_perm_of_range_perm.
    - now apply nondecr_along_sorted.
  Qed.

  (* the reference insertion argsort meets the contract when <= is total *)
  Hypothesis leb_total : forall a b, leb a b = true \/ leb b a = true.

  Lemma ins_idx_perm l i o : Permutation (ins_idx V d leb l i o) (i :: o).
  Proof.
    induction o as [|j o IH]; cbn; [reflexivity|].
    destruct (leb (nth i l d) (nth j l d)); [reflexivity|].
    rewrite IH. apply perm_swap.
  Qed.

  Lemma ins_idx_sorted l i o : StronglySorted (along l) o -> StronglySorted (along l) (ins_idx V d leb l i o).
  Proof.
    induction o as [|j o IH]; intros Hs; cbn.
    - constructor; constructor.
    - destruct (leb (nth i l d) (nth j l d)) eqn:E.
      + constructor; [exact Hs|]. constructor; [exact E|].
        apply StronglySorted_inv in Hs. destruct Hs as [_ Hall]. rewrite Forall_forall in *.
        intros x Hx. unfold along in *. eapply leb_trans; [exact E|]. now apply Hall.
      + apply StronglySorted_inv in Hs. destruct Hs as [Hs Hall]. constructor; [now apply IH|].
        rewrite Forall_forall in *. intros x Hx.
        apply (Permutation_in _ (ins_idx_perm l i o)) in Hx. destruct Hx as [<-|Hx]; [|now apply Hall].
        unfold along. destruct (leb_total (nth j l d) (nth i l d)) as [H|H]; [exact H|congruence].
  Qed.

  Lemma fold_ins_spec l : forall idx,
    Permutation (fold_right (ins_idx V d leb l) [] idx) idx /\
    StronglySorted (along l) (fold_right (ins_idx V d leb l) [] idx).
  Proof.
    induction idx as [|i idx [IHp IHs]]; cbn; [split; constructor|]. split.
    - rewrite ins_idx_perm. now constructor.
    - now apply ins_idx_sorted.
  Qed.

  Lemma argsort_ref_spec l : ArgsortSpec l (argsort_ref V d leb l).
  Proof. unfold argsort_ref. destruct (fold_ins_spec l (seq 0 (length l))) as [Hp Hs]. now split. Qed.
End OrderP.

(* what the contract gives, with no assumption at all on <= (not even transitivity): every selected position has a
   value <= the value of every position left out; ties may fall on either side *)
Lemma argsort_split_minimal {V} (d : V) (leb : V -> V -> bool) l o k : ArgsortSpec V d leb l o ->
  Permutation (firstn k o ++ skipn k o) (seq 0 (length l)) /\
  length (firstn k o) = Nat.min k (length l) /\
  (forall i j, In i (firstn k o) -> In j (skipn k o) -> leb (nth i l d) (nth j l d) = true).
Proof.
  intros [Hp Hs]. split; [|split].
  - now rewrite firstn_skipn.
  - rewrite firstn_length. apply Permutation_length in Hp. rewrite seq_length in Hp. now rewrite Hp.
  - intros i j Hi Hj. rewrite <- (firstn_skipn k o) in Hs.
    exact (StronglySorted_app_cross _ _ _ Hs i j Hi Hj).
Qed.

(* ------------------------------------------------------------------ MLSurrogateSampler.sample_batch *)
Section SurrogateP.
  Variable num : Type.
  Variable zero : num.
  Variable ltb : num -> num -> bool.
  Variable absdiff : num -> num -> num.
  Variables L P : Type.
  Variables Surr St : Type.
  Variable draw_pool : St -> nat -> list (list num) -> history num L -> list (point num) * St * history num L.
  Variable fit : St -> history num L -> Surr * St * history num L.
  Variable predict : Surr -> list (point num) -> list P.
  Variable argsort : list P -> list nat.

  Notation sb := (sample_batch num zero ltb absdiff L P Surr St draw_pool fit predict argsort).
  Notation calls := (run_calls num zero ltb absdiff L P Surr St draw_pool fit predict argsort).
  Notation hafter := (history_after num L P St).
  Notation tr := (trace_of num L P St).
  Notation props := (proposals num L P St).

  (* the two contracts under which the generic sampler leaves the arrays alone *)
  Definition pool_pure : Prop := forall st n g h, snd (draw_pool st n g h) = h.
  Definition fit_pure : Prop := forall st h, snd (fit st h) = h.

  Lemma sb_fit_arg k n g h st : pool_pure -> t_fit_arg num L P (tr (sb k n g h st)) = h.
  Proof.
    intros Hp. unfold sample_batch, trace_of. specialize (Hp st n g h).
    destruct (draw_pool st n g h) as [[c s1] h1]. cbn in Hp. subst h1.
    destruct (fit s1 h) as [[m s2] h2]. reflexivity.
  Qed.

  (* fit is handed exactly what sample_candidates left of the arrays: unconditionally *)
  Lemma sb_fit_arg_is_pool_output k n g h st :
    t_fit_arg num L P (tr (sb k n g h st)) = snd (draw_pool st n g h).
  Proof.
    unfold sample_batch, trace_of. destruct (draw_pool st n g h) as [[c s1] h1].
    destruct (fit s1 h1) as [[m s2] h2]. reflexivity.
  Qed.

  Lemma sb_history k n g h st : pool_pure -> fit_pure -> hafter (sb k n g h st) = h.
  Proof.
    intros Hp Hf. unfold sample_batch, history_after. specialize (Hp st n g h).
    destruct (draw_pool st n g h) as [[c s1] h1]. cbn in Hp. subst h1.
    specialize (Hf s1 h). destruct (fit s1 h) as [[m s2] h2]. cbn in Hf. subst h2. reflexivity.
  Qed.

  Lemma sb_history_gen k n g h st : pool_pure ->
    hafter (sb k n g h st) = snd (fit (snd (fst (draw_pool st n g h))) h).
  Proof.
    intros Hp. unfold sample_batch, history_after. specialize (Hp st n g h).
    destruct (draw_pool st n g h) as [[c s1] h1]. cbn in Hp. subst h1. cbn [fst snd].
    destruct (fit s1 h) as [[m s2] h2]. reflexivity.
  Qed.

  Lemma calls_history ks : forall n g h st, pool_pure -> fit_pure -> snd (fst (calls ks n g h st)) = h.
  Proof.
    induction ks as [|k ks IH]; intros n g h st Hp Hf; [reflexivity|].
    cbn [run_calls]. rewrite (sb_history k n g h st Hp Hf).
    specialize (IH n g h (state_after num L P St (sb k n g h st)) Hp Hf).
    destruct (calls ks n g h (state_after num L P St (sb k n g h st))) as [[outs h'] st']. exact IH.
  Qed.

  (* round 4: a session of calls on one sampler object, each with its own batch size, search space and history *)
  Notation session := (run_session num zero ltb absdiff L P Surr St draw_pool fit predict argsort).

  Lemma session_length reqs : forall n st, length (session reqs n st) = length reqs.
  Proof. induction reqs as [|q reqs IH]; intros n st; cbn [run_session length]; [reflexivity|]. now rewrite IH. Qed.

  Lemma session_histories reqs : forall n st, pool_pure -> fit_pure ->
    map hafter (session reqs n st) = map (req_history num L) reqs.
  Proof.
    induction reqs as [|q reqs IH]; intros n st Hp Hf; [reflexivity|].
    cbn [run_session map]. rewrite (sb_history _ n _ _ st Hp Hf). f_equal. apply IH; assumption.
  Qed.

  Lemma session_fit_args reqs : forall n st, pool_pure ->
    map (fun r => t_fit_arg num L P (tr r)) (session reqs n st) = map (req_history num L) reqs.
  Proof.
    induction reqs as [|q reqs IH]; intros n st Hp; [reflexivity|].
    cbn [run_session map]. rewrite (sb_fit_arg _ n _ _ st Hp). f_equal. apply IH; assumption.
  Qed.

  (* the i-th call of a session is sample_batch on the i-th request from SOME generator state: nothing else of the
     earlier calls (their histories, batch sizes, search spaces) can influence it *)
  Lemma session_nth reqs : forall n st i q, nth_error reqs i = Some q ->
    exists st', nth_error (session reqs n st) i = Some (sb (req_k num L q) n (req_grids num L q) (req_history num L q) st').
  Proof.
    induction reqs as [|q0 reqs IH]; intros n st i q Hi; [destruct i; discriminate|].
    destruct i as [|i]; cbn [nth_error run_session] in *.
    - injection Hi as ->. now exists st.
    - apply IH; assumption.
  Qed.

  (* unfolding of the trace *)
  Lemma sb_trace_eqs k n g h st :
    let r := sb k n g h st in
    t_pool num L P (tr r) = fst (fst (draw_pool st n g h)) /\
    t_order num L P (tr r) = argsort (t_preds num L P (tr r)) /\
    t_selected num L P (tr r) = firstn k (take_rows (t_pool num L P (tr r)) (t_order num L P (tr r))) /\
    props r = digitize num zero ltb absdiff (t_selected num L P (tr r)) g /\
    (exists m, t_preds num L P (tr r) = predict m (t_pool num L P (tr r))).
  Proof.
    unfold sample_batch, trace_of, proposals. destruct (draw_pool st n g h) as [[c s1] h1].
    destruct (fit s1 h1) as [[m s2] h2]. cbn. repeat split; try reflexivity. now exists m.
  Qed.

  Variable dP : P.
  Variable pleb : P -> P -> bool.

  Lemma sb_selects_minimisers k n g h st :
    let t := tr (sb k n g h st) in
    ArgsortSpec P dP pleb (t_preds num L P t) (argsort (t_preds num L P t)) ->
    length (t_preds num L P t) = length (t_pool num L P t) ->
    let sel := firstn k (t_order num L P t) in
    let rest := skipn k (t_order num L P t) in
    t_selected num L P t = take_rows (t_pool num L P t) sel /\
    length (t_selected num L P t) = Nat.min k (length (t_pool num L P t)) /\
    Permutation (sel ++ rest) (seq 0 (length (t_pool num L P t))) /\
    Permutation (t_selected num L P t ++ take_rows (t_pool num L P t) rest) (t_pool num L P t) /\
    (forall i j, In i sel -> In j rest ->
       pleb (nth i (t_preds num L P t) dP) (nth j (t_preds num L P t) dP) = true) /\
    props (sb k n g h st) = digitize num zero ltb absdiff (t_selected num L P t) g.
  Proof.
    intros t Hspec Hlen sel rest.
    destruct (sb_trace_eqs k n g h st) as [_ [Ho [Hsel [Hout _]]]]. fold t in Ho, Hsel, Hout.
    rewrite <- Ho in Hspec.
    destruct (argsort_split_minimal dP pleb _ _ k Hspec) as [Hperm [Hl Hmin]].
    rewrite Hlen in Hperm, Hl.
    assert (Hs : t_selected num L P t = take_rows (t_pool num L P t) sel)
      by (rewrite Hsel; apply take_rows_firstn).
    repeat split.
    - exact Hs.
    - rewrite Hs, take_rows_length. exact Hl.
    - exact Hperm.
    - rewrite Hs, <- take_rows_app. apply take_rows_perm. exact Hperm.
    - exact Hmin.
    - exact Hout.
  Qed.

  (* element form, for a surrogate whose prediction of a row depends on the row only *)
  Lemma sb_selects_minimisers_pointwise (f : point num -> P) k n g h st :
    (forall m rows, predict m rows = map f rows) ->
    let t := tr (sb k n g h st) in
    ArgsortSpec P dP pleb (t_preds num L P t) (argsort (t_preds num L P t)) ->
    forall c c', In c (t_selected num L P t) ->
                 In c' (take_rows (t_pool num L P t) (skipn k (t_order num L P t))) ->
                 pleb (f c) (f c') = true.
  Proof.
    intros Hf t Hspec c c' Hc Hc'.
    destruct (sb_trace_eqs k n g h st) as [_ [_ [_ [_ [m Hm]]]]]. fold t in Hm.
    assert (Hlen : length (t_preds num L P t) = length (t_pool num L P t))
      by (rewrite Hm, Hf; apply map_length).
    destruct (sb_selects_minimisers k n g h st Hspec Hlen) as [Hs [_ [Hperm [_ [Hmin _]]]]]. fold t in Hs, Hperm, Hmin.
    rewrite Hs in Hc. unfold take_rows in Hc, Hc'.
    apply in_map_iff in Hc. destruct Hc as [i [<- Hi]].
    apply in_map_iff in Hc'. destruct Hc' as [j [<- Hj]].
    specialize (Hmin i j Hi Hj).
    assert (Hin : forall x, In x (firstn k (t_order num L P t) ++ skipn k (t_order num L P t)) ->
                            (x < length (t_pool num L P t))%nat).
    { intros x Hx. apply (Permutation_in _ Hperm) in Hx. apply in_seq in Hx. lia. }
    assert (Hi' : (i < length (t_pool num L P t))%nat) by (apply Hin, in_or_app; now left).
    assert (Hj' : (j < length (t_pool num L P t))%nat) by (apply Hin, in_or_app; now right).
    rewrite Hm, Hf in Hmin.
    rewrite (nth_map_in f _ [] dP) in Hmin by exact Hi'.
    rewrite (nth_map_in f _ [] dP) in Hmin by exact Hj'.
    exact Hmin.
  Qed.
End SurrogateP.

(* ------------------------------------------------------------------ the built-in pool and fits *)
Lemma uniform_batch_history num zero L St choice st n g h :
  snd (uniform_batch num zero L St choice st n g h) = h.
Proof. unfold uniform_batch. destruct (uniform_columns num zero St choice st n g). reflexivity. Qed.

Section ClipP.
  Variable L : Type.
  Variable leb : L -> L -> bool.
  Variables maxf minf hi_to lo_to : L.
  Notation clip := (clip_losses L leb maxf minf hi_to lo_to).
  Notation clip1 := (clip1 L leb maxf minf hi_to lo_to).
  Notation in_range := (in_range L leb maxf minf).

  Lemma clip_keeps_caller y : snd (clip y) = y.
  Proof. unfold clip_losses. destruct (in_range y); reflexivity. Qed.

  Lemma in_range_clip1 y : in_range y = true -> map clip1 y = y.
  Proof.
    induction y as [|v y IH]; intros H; [reflexivity|]. cbn in H.
    apply andb_true_iff in H. destruct H as [Hv Hy]. apply andb_true_iff in Hv. destruct Hv as [Hl Hs].
    cbn. rewrite (IH Hy). unfold Surrogate.clip1.
    apply negb_true_iff in Hl. apply negb_true_iff in Hs. now rewrite Hs, Hl.
  Qed.

  Lemma clip_result y : fst (clip y) = map clip1 y.
  Proof. unfold clip_losses. destruct (in_range y) eqn:E; [symmetry; now apply in_range_clip1 | reflexivity]. Qed.

  Lemma clip_result_in_range y : in_range y = true -> fst (clip y) = y.
  Proof. intros H. rewrite clip_result. now apply in_range_clip1. Qed.

  Lemma clip_repaired_spec y :
    snd (clip y) = y /\ fst (clip y) = map clip1 y /\ (in_range y = true -> fst (clip y) = y).
  Proof. split; [apply clip_keeps_caller | split; [apply clip_result | apply clip_result_in_range]]. Qed.
End ClipP.

Section FitsP.
  Variable num : Type.
  Variable L : Type.
  Variables Surr St : Type.

  Lemma fit_rf_history categories lib st h : snd (fit_rf num L Surr St categories lib st h) = h.
  Proof. unfold fit_rf. destruct (lib st (fst h) (categories (snd h))). reflexivity. Qed.

  Lemma fit_gp_history lib st h : snd (fit_gp num L Surr St lib st h) = h.
  Proof. unfold fit_gp. destruct (lib st (fst h) (snd h)). reflexivity. Qed.

  Lemma fit_xgb_history leb maxf minf hi_to lo_to lib st h :
    snd (fit_xgb num L Surr St leb maxf minf hi_to lo_to lib st h) = h.
  Proof.
    unfold fit_xgb, fit_xgb_with.
    pose proof (clip_keeps_caller L leb maxf minf hi_to lo_to (snd h)) as Hc.
    destruct (clip_losses L leb maxf minf hi_to lo_to (snd h)) as [y l']. cbn in Hc. subst l'.
    destruct (lib st (fst h) y). destruct h. reflexivity.
  Qed.

  Lemma fit_xgb_before_repair_history leb maxf minf hi_to lo_to lib st h :
    snd (fit_xgb_before_repair num L Surr St leb maxf minf hi_to lo_to lib st h)
    = (fst h, snd (clip_losses_inplace L leb maxf minf hi_to lo_to (snd h))).
  Proof.
    unfold fit_xgb_before_repair, fit_xgb_with.
    destruct (clip_losses_inplace L leb maxf minf hi_to lo_to (snd h)) as [y l'].
    destruct (lib st (fst h) y). reflexivity.
  Qed.

  (* what the xgboost library is handed: the given points, and the given losses with out-of-range entries replaced *)
  Lemma fit_xgb_lib_args leb maxf minf hi_to lo_to lib st h :
    fst (fst (fit_xgb num L Surr St leb maxf minf hi_to lo_to lib st h))
    = fst (lib st (fst (xgb_lib_args num L leb maxf minf hi_to lo_to h)) (snd (xgb_lib_args num L leb maxf minf hi_to lo_to h))).
  Proof.
    unfold fit_xgb, fit_xgb_with, xgb_lib_args. cbn [fst snd].
    destruct (clip_losses L leb maxf minf hi_to lo_to (snd h)) as [y l']. cbn [fst].
    destruct (lib st (fst h) y). reflexivity.
  Qed.
End FitsP.

Section ReadersP.
  Variable num : Type.
  Variable L : Type.
  Variable St : Type.

  Lemma blind_batch_history gen st k h : snd (blind_batch num L St gen st k h) = h.
  Proof. unfold blind_batch. destruct (gen st k). reflexivity. Qed.

  Lemma pso_batch_history argmin step st start bs h : snd (pso_batch num L St argmin step st start bs h) = h.
  Proof. unfold pso_batch. destruct (step _ _ _ _ _). reflexivity. Qed.

  Lemma cors_batch_history to_cube scale opt st k h : snd (cors_batch num L St to_cube scale opt st k h) = h.
  Proof. unfold cors_batch. destruct (opt _ _ _ _). reflexivity. Qed.
End ReadersP.

(* ------------------------------------------------------------------ exact rationals *)
Open Scope Q_scope.

Lemma Qleb_trans a b c : Qleb a b = true -> Qleb b c = true -> Qleb a c = true.
Proof. unfold Qleb. rewrite !Qle_bool_iff. apply Qle_trans. Qed.

Lemma Qleb_total a b : Qleb a b = true \/ Qleb b a = true.
Proof.
  unfold Qleb. rewrite !Qle_bool_iff. destruct (Qlt_le_dec a b) as [H|H]; [left; now apply Qlt_le_weak | now right].
Qed.

Lemma is_argsortQ_spec l o : is_argsortQ l o = true -> ArgsortSpec Q 0 Qleb l o.
Proof. apply is_argsort_spec. exact Qleb_trans. Qed.

Lemma argsort_refQ_spec l : ArgsortSpec Q 0 Qleb l (argsort_refQ l).
Proof. apply argsort_ref_spec; [exact Qleb_trans | exact Qleb_total]. Qed.

(* the code before 893b4f5 changed the caller's array: a loss above the float32 maximum is overwritten *)
Lemma clip_inplace_touches :
  exists y i, ~ nth i (snd (clip_losses_inplaceQ y)) 0 == nth i y 0.
Proof. exists [1; 2 * MAX32; 3], 1%nat. vm_compute. intros H. discriminate H. Qed.

Lemma clip_repaired_same_input :
  let y := [1; 2 * MAX32; 3] in snd (clip_lossesQ y) = y /\ ~ nth 1 (fst (clip_lossesQ y)) 0 == nth 1 y 0.
Proof. split; [reflexivity|]. vm_compute. intros H. discriminate H. Qed.

(* ------------------------------------------------------------------ the three built-in surrogates: the generic
   sample_batch with the grid-indexing pool and their own fit *)
Section BuiltIn.
  Variable num : Type.
  Variable zero : num.
  Variable ltb : num -> num -> bool.
  Variable absdiff : num -> num -> num.
  Variables L P Surr St : Type.
  Variable choice : St -> nat -> nat -> list nat * St.
  Variable predict : Surr -> list (point num) -> list P.
  Variable argsort : list P -> list nat.

  Notation pool := (uniform_batch num zero L St choice).
  Notation sbw := (fun fit => sample_batch num zero ltb absdiff L P Surr St pool fit predict argsort).

  Lemma pool_is_pure : pool_pure num L St pool.
  Proof. intros st n g h. apply uniform_batch_history. Qed.

  Lemma builtin_fit_arg fit k n g h st : t_fit_arg num L P (trace_of num L P St (sbw fit k n g h st)) = h.
  Proof. apply sb_fit_arg. exact pool_is_pure. Qed.

  Lemma rf_history categories lib k n g h st :
    history_after num L P St (sbw (fit_rf num L Surr St categories lib) k n g h st) = h.
  Proof. apply sb_history; [exact pool_is_pure|]. intros s x. apply fit_rf_history. Qed.

  Lemma gp_history lib k n g h st :
    history_after num L P St (sbw (fit_gp num L Surr St lib) k n g h st) = h.
  Proof. apply sb_history; [exact pool_is_pure|]. intros s x. apply fit_gp_history. Qed.

  Lemma xgb_history leb maxf minf hi_to lo_to lib k n g h st :
    history_after num L P St (sbw (fit_xgb num L Surr St leb maxf minf hi_to lo_to lib) k n g h st) = h.
  Proof. apply sb_history; [exact pool_is_pure|]. intros s x. apply fit_xgb_history. Qed.

  (* with the code before 893b4f5 the losses the caller holds after the call are the clipped ones *)
  Lemma xgb_before_repair_history leb maxf minf hi_to lo_to lib k n g h st :
    history_after num L P St (sbw (fit_xgb_before_repair num L Surr St leb maxf minf hi_to lo_to lib) k n g h st)
    = (fst h, snd (clip_losses_inplace L leb maxf minf hi_to lo_to (snd h))).
  Proof.
    cbv beta. rewrite sb_history_gen by exact pool_is_pure. apply fit_xgb_before_repair_history.
  Qed.
End BuiltIn.

Lemma xgb_before_repair_touches :
  exists h : list (list Q) * list Q,
  forall (P Surr St : Type) choice predict argsort lib k n g st,
    ~ Forall2 Qeq
        (snd (history_after Q Q P St
           (sample_batch Q 0 Qltb Qabsdiff Q P Surr St (uniform_batch Q 0 Q St choice)
              (fit_xgb_before_repair Q Q Surr St Qleb MAX32 MIN32 HI_TO LO_TO lib) predict argsort k n g h st)))
        (snd h).
Proof.
  exists ([[0]], [2 * MAX32]). intros.
  rewrite xgb_before_repair_history. cbn [snd].
  assert (E : snd (clip_losses_inplace Q Qleb MAX32 MIN32 HI_TO LO_TO [2 * MAX32]) = [MAX32])
    by (vm_compute; reflexivity).
  rewrite E. intros H. inversion H as [|a b la lb Hab Hrest]. subst. vm_compute in Hab. discriminate Hab.
Qed.

(* an in-place normalisation in CORS would change the arrays *)
Lemma cors_inplace_touches :
  exists h : list (list Q) * list Q,
  forall St opt st k,
    snd (cors_batch_inplace Q Q St (map (fun x => x / 2)) (map (fun l => l / 4)) opt st k h) <> h.
Proof.
  exists ([[2]], [4]). intros St opt st k. unfold cors_batch_inplace. cbn [fst snd map].
  destruct (opt st k _ _). cbn [snd]. intros H. injection H as H1 H2. vm_compute in H2. discriminate H2.
Qed.
