(* Lemmas about the crash model (Model/Crash.v). *)
From Coq Require Import List Arith Bool Lia.
From BlackIt Require Import Model.Crash.
Import ListNotations.

Lemma firstn_ge {A} (l : list A) k : length l <= k -> firstn k l = l.
Proof. apply firstn_all2. Qed.

Lemma crash_from_ge v d k : length (save_ops v (h5_present d)) <= k ->
  crash_from v d k = crash_from v d (length (save_ops v (h5_present d))).
Proof. intros H. unfold crash_from. rewrite (firstn_ge _ k H), firstn_all. reflexivity. Qed.

Lemma crash_ge v k : nops v <= k -> crash v k = crash v (nops v).
Proof. intros H. unfold crash, nops. apply (crash_from_ge v folder_old k). exact H. Qed.

Lemma crash_fresh_ge v k : nops_fresh v <= k -> crash_fresh v k = crash_fresh v (nops_fresh v).
Proof. intros H. unfold crash_fresh, nops_fresh. apply (crash_from_ge v folder_absent k). exact H. Qed.

Section P.
  Variables J Sc Lo Hdr Row HRow : Type.
  Variable J_eqb : J -> J -> bool.
  Variable S_eqb : Sc -> Sc -> bool.
  Variable L_eqb : Lo -> Lo -> bool.
  Variable Hdr_eqb : Hdr -> Hdr -> bool.
  Variable Row_eqb : Row -> Row -> bool.
  Variable HRow_eqb : HRow -> HRow -> bool.
  Hypothesis J_eqb_spec : forall a b, J_eqb a b = true <-> a = b.
  Hypothesis S_eqb_spec : forall a b, S_eqb a b = true <-> a = b.
  Hypothesis L_eqb_spec : forall a b, L_eqb a b = true <-> a = b.
  Hypothesis Hdr_eqb_spec : forall a b, Hdr_eqb a b = true <-> a = b.
  Hypothesis Row_eqb_spec : forall a b, Row_eqb a b = true <-> a = b.
  Hypothesis HRow_eqb_spec : forall a b, HRow_eqb a b = true <-> a = b.
  Variable zrow : HRow.
  Variable D : Type.
  Variable digest : content Sc Lo Hdr Row HRow -> D.
  Variable D_eqb : D -> D -> bool.
  Hypothesis D_eqb_spec : forall a b, D_eqb a b = true <-> a = b.

  Notation state := (state J Sc Lo Hdr Row HRow).
  Notation rstate := (rstate J Sc Lo Hdr Row HRow).
  Notation content := (content Sc Lo Hdr Row HRow).
  Notation same := (same J Sc Lo Hdr Row HRow J_eqb S_eqb L_eqb Hdr_eqb Row_eqb HRow_eqb).
  Notation load := (load J Sc Lo Hdr Row HRow zrow D digest D_eqb).
  Notation lcg := (load_class_gen J Sc Lo Hdr Row HRow J_eqb S_eqb L_eqb Hdr_eqb Row_eqb HRow_eqb zrow D digest D_eqb).
  Notation lc := (load_class J Sc Lo Hdr Row HRow J_eqb S_eqb L_eqb Hdr_eqb Row_eqb HRow_eqb zrow D digest D_eqb).
  Notation lcs := (load_class_set J Sc Lo Hdr Row HRow J_eqb S_eqb L_eqb Hdr_eqb Row_eqb HRow_eqb zrow D digest D_eqb).
  Notation hpoints := (hybrid_points J Sc Lo Hdr Row HRow J_eqb S_eqb L_eqb Hdr_eqb Row_eqb HRow_eqb zrow D digest D_eqb).
  Notation appended := (h5_appended J Sc Lo Hdr Row HRow).
  Notation resized := (h5_resized J Sc Lo Hdr Row HRow zrow).
  Notation content_of := (content_of J Sc Lo Hdr Row HRow zrow).

  Lemma list_eqb_spec {A} (e : A -> A -> bool) : (forall a b, e a b = true <-> a = b) ->
    forall a b, list_eqb e a b = true <-> a = b.
  Proof.
    intros He. induction a as [|x a IH]; destruct b as [|y b]; simpl; try (split; [discriminate|discriminate]).
    - split; reflexivity.
    - rewrite andb_true_iff, He, IH. split; [intros [-> ->]; reflexivity | intros E; inversion E; auto].
  Qed.

  Definition agrees (r : rstate) (s : state) : Prop :=
    rj r = sj s /\ rs r = ss s /\ rl r = sl s /\ rhd r = shd s /\ rr r = sr s /\ rbad r = false /\ rh r = sh s.

  Lemma same_spec r s : same r s = true <-> agrees r s.
  Proof.
    unfold Crash.same, agrees. rewrite !andb_true_iff, negb_true_iff.
    rewrite J_eqb_spec, S_eqb_spec, L_eqb_spec, Hdr_eqb_spec, (list_eqb_spec Row_eqb Row_eqb_spec),
      (list_eqb_spec HRow_eqb HRow_eqb_spec). tauto.
  Qed.

  Lemma same_false r s : ~ agrees r s -> same r s = false.
  Proof. intros H. destruct (same r s) eqn:E; [apply same_spec in E; contradiction | reflexivity]. Qed.

  Lemma state_ext (a b : state) :
    sj a = sj b -> ss a = ss b -> sl a = sl b -> shd a = shd b -> sr a = sr b -> sh a = sh b -> a = b.
  Proof. destruct a, b; simpl; intros; subst; reflexivity. Qed.

  (* classification of a readable folder *)
  Lemma class_of_ok v t hp s0 s1 d r : load v t hp s0 s1 d = ROk r ->
    lcg v t hp s0 s1 d = if hp && same r s0 then Exactly_old else if same r s1 then Exactly_new else Hybrid.
  Proof. intros H. unfold load_class_gen. rewrite H. reflexivity. Qed.

  Lemma class_hybrid v t s0 s1 d r : load v t true s0 s1 d = ROk r -> ~ agrees r s0 -> ~ agrees r s1 ->
    lcg v t true s0 s1 d = Hybrid.
  Proof. intros H H0 H1. rewrite (class_of_ok _ _ _ _ _ _ _ H), (same_false _ _ H0), (same_false _ _ H1). reflexivity. Qed.

  Lemma class_old v t s0 s1 d r : load v t true s0 s1 d = ROk r -> agrees r s0 -> lcg v t true s0 s1 d = Exactly_old.
  Proof. intros H H0. rewrite (class_of_ok _ _ _ _ _ _ _ H). apply same_spec in H0. rewrite H0. reflexivity. Qed.

  Lemma class_new v t hp s0 s1 d r : load v t hp s0 s1 d = ROk r -> (hp = true -> ~ agrees r s0) -> agrees r s1 ->
    lcg v t hp s0 s1 d = Exactly_new.
  Proof.
    intros H H0 H1. rewrite (class_of_ok _ _ _ _ _ _ _ H). apply same_spec in H1. rewrite H1.
    destruct hp; [rewrite (same_false _ _ (H0 eq_refl))|]; reflexivity.
  Qed.

  Lemma class_err v t hp s0 s1 d : load v t hp s0 s1 d = RErr -> lcg v t hp s0 s1 d = Error.
  Proof. intros H. unfold load_class_gen. rewrite H. reflexivity. Qed.

  (* ---------------------------------------------------------------- Legacy order: the hybrid crash points *)
  (* successive checkpoints in the generic position: counters/generator state differ, the series grew by rows that
     are not all zero, and the rows on disk are a prefix of the new series (same run) *)
  Definition generic (s0 s1 : state) : Prop :=
    sj s0 <> sj s1 /\ sh s0 <> sh s1 /\ resized s0 s1 <> sh s1 /\ appended s0 s1 = sh s1.

  Arguments h5_appended : simpl never.
  Arguments h5_resized : simpl never.
  Ltac agree_tac := unfold agrees; simpl; intuition congruence.

  Ltac point_tac :=
    match goal with
    | |- (load_class_gen _ _ _ _ _ _ _ _ _ _ _ _ _ _ _ _ ?v ?t ?hp ?s0 ?s1 ?d = Hybrid <-> _) =>
        let l := eval cbn in (load v t hp s0 s1 d) in
        match l with
        | RErr => rewrite (class_err v t hp s0 s1 d eq_refl); split; [discriminate | simpl; intuition discriminate]
        | ROk ?r =>
            first
              [ rewrite (class_old v t s0 s1 d r eq_refl) by agree_tac;
                split; [discriminate | simpl; intuition discriminate]
              | rewrite (class_hybrid v t s0 s1 d r eq_refl) by agree_tac;
                split; [intros _; simpl; tauto | reflexivity]
              | rewrite (class_new v t hp s0 s1 d r eq_refl) by agree_tac;
                split; [discriminate | simpl; intuition discriminate] ]
        end
    end.

  (* rewrites the class of a concrete folder into its value *)
  Ltac class_tac :=
    match goal with
    | |- context [load_class_gen _ _ _ _ _ _ _ _ _ _ _ _ _ _ _ _ ?v ?t ?hp ?s0 ?s1 ?d] =>
        let l := eval cbn in (load v t hp s0 s1 d) in
        match l with
        | RErr => rewrite (class_err v t hp s0 s1 d eq_refl)
        | ROk ?r =>
            first
              [ rewrite (class_old v t s0 s1 d r eq_refl) by agree_tac
              | rewrite (class_hybrid v t s0 s1 d r eq_refl) by agree_tac
              | rewrite (class_new v t hp s0 s1 d r eq_refl) by (try discriminate; agree_tac) ]
        end
    end.

  Lemma legacy_small t s0 s1 : generic s0 s1 ->
    forall k, k < 16 -> (lcg Legacy t true s0 s1 (crash Legacy k) = Hybrid <-> In k hybrid_list_legacy).
  Proof.
    intros (Hj & Hh & Hr & Ha) k Hk.
    do 16 (destruct k as [|k]; [point_tac|]).
    exfalso; lia.
  Qed.

  Lemma legacy_complete t s0 s1 : generic s0 s1 -> lcg Legacy t true s0 s1 (crash Legacy 16) = Exactly_new.
  Proof.
    intros (Hj & Hh & Hr & Ha). class_tac. reflexivity.
  Qed.

  Lemma legacy_hybrid_points_exact t s0 s1 k : generic s0 s1 ->
    (lcg Legacy t true s0 s1 (crash Legacy k) = Hybrid <-> In k hybrid_list_legacy).
  Proof.
    intros G. destruct (le_lt_dec 16 k) as [H|H].
    - rewrite (crash_ge Legacy k H). change (nops Legacy) with 16. rewrite (legacy_complete t s0 s1 G).
      split; [discriminate|]. unfold hybrid_list_legacy. simpl. intuition lia.
    - apply legacy_small; assumption.
  Qed.

  Lemma legacy_no_hybrid_outside t s0 s1 k : generic s0 s1 -> ~ In k hybrid_list_legacy ->
    In (lcg Legacy t true s0 s1 (crash Legacy k)) [Error; Exactly_old; Exactly_new].
  Proof.
    intros G H. pose proof (legacy_hybrid_points_exact t s0 s1 k G) as E.
    destruct (lcg Legacy t true s0 s1 (crash Legacy k)); simpl; auto. exfalso. apply H, E. reflexivity.
  Qed.

  Lemma legacy_refuted_generic s0 s1 : generic s0 s1 -> exists k, k < nops Legacy /\ lc Legacy s0 s1 (crash Legacy k) = Hybrid.
  Proof.
    intros G. exists 2. split; [unfold nops; simpl; lia|].
    apply (legacy_hybrid_points_exact TGarbled s0 s1 2 G). unfold hybrid_list_legacy. simpl. auto.
  Qed.

  (* for ANY pair the set of hybrid points is the one the model computes *)
  Lemma hybrid_points_decide v s0 s1 k : lc v s0 s1 (crash v k) = Hybrid <-> exists k', In k' (hpoints v s0 s1) /\
    crash v k = crash v k'.
  Proof.
    unfold hybrid_points. split.
    - intros H. destruct (le_lt_dec (nops v) k) as [L|L].
      + exists (nops v). split; [|apply crash_ge; exact L].
        apply filter_In. split; [apply in_seq; lia|]. rewrite <- (crash_ge v k L), H. reflexivity.
      + exists k. split; [|reflexivity]. apply filter_In. split; [apply in_seq; lia|]. rewrite H. reflexivity.
    - intros (k' & Hin & E). apply filter_In in Hin. destruct Hin as [_ Hc]. rewrite E.
      destruct (lc v s0 s1 (crash v k')); simpl in Hc; congruence.
  Qed.

  (* a first save into an empty folder is unreadable until the operation that completes it
     (Legacy: create_dataset, the 14th operation; Repaired: os.replace, the 20th and last) *)
  Definition fresh_commit (v : variant) : nat := match v with Legacy => 14 | Repaired => 20 end.

  Lemma fresh_error_until_complete v t s0 s1 k : k < fresh_commit v -> lcg v t false s0 s1 (crash_fresh v k) = Error.
  Proof.
    destruct v; intros H.
    - do 14 (destruct k as [|k]; [reflexivity|]). exfalso. simpl in H. lia.
    - do 20 (destruct k as [|k]; [reflexivity|]). exfalso. simpl in H. lia.
  Qed.

  Lemma fresh_complete v t s0 s1 k : fresh_commit v <= k -> lcg v t false s0 s1 (crash_fresh v k) = Exactly_new.
  Proof.
    intros H. destruct v.
    - assert (E : crash_fresh Legacy k = crash_fresh Legacy 14).
      { destruct (le_lt_dec (nops_fresh Legacy) k) as [L|L]; [rewrite (crash_fresh_ge Legacy k L); reflexivity|].
        change (nops_fresh Legacy) with 15 in L. simpl in H. assert (k = 14) by lia. subst; reflexivity. }
      rewrite E. class_tac. reflexivity.
    - rewrite (crash_fresh_ge Repaired k H).
      unfold load_class_gen, Crash.load. cbn.
      rewrite !(proj2 (D_eqb_spec _ _) eq_refl). cbn.
      assert (E : same (mkR J Sc Lo Hdr Row HRow (sj s1) (ss s1) (sl s1) (shd s1) (sr s1) false (sh s1)) s1 = true)
        by (apply same_spec; agree_tac).
      rewrite E. reflexivity.
  Qed.

  (* a file of a first save cut anywhere: unreadable, in both orders *)
  Lemma fresh_cut_error v t s0 s1 f c : (v = Legacy -> f <> FTmp) ->
    lcg v t false s0 s1 (crash_cut_from v folder_absent f c) = Error.
  Proof. intros H. destruct v, f, c; try destruct mid; destruct t; try reflexivity; exfalso; apply H; reflexivity. Qed.

  (* ---------------------------------------------------------------- cut files, Legacy order *)
  Lemma legacy_cut_unreadable t hp s0 s1 f c : f <> FCsv -> f <> FTmp ->
    lcg Legacy t hp s0 s1 (crash_cut Legacy f c) = Error.
  Proof. intros H1 H2. destruct f; try congruence; destruct c; try destruct mid; reflexivity. Qed.

  Lemma legacy_cut_csv_header t hp s0 s1 : lcg Legacy t hp s0 s1 (crash_cut Legacy FCsv CutHeader) = Error.
  Proof. reflexivity. Qed.

  Lemma legacy_cut_csv_rows t s0 s1 j mid : generic s0 s1 ->
    In (lcg Legacy t true s0 s1 (crash_cut Legacy FCsv (CutRows j mid))) [Hybrid; Error]
    /\ (mid = false -> lcg Legacy t true s0 s1 (crash_cut Legacy FCsv (CutRows j mid)) = Hybrid).
  Proof.
    intros (Hj & Hh & Hr & Ha). destruct mid.
    - split; [|discriminate]. destruct t.
      + class_tac. simpl; auto.
      + class_tac. simpl; auto.
      + class_tac. simpl; auto.
    - class_tac. simpl; auto.
  Qed.

  (* ---------------------------------------------------------------- Repaired order *)
  Hypothesis digest_inj : forall a b : content, digest a = digest b -> a = b.

  (* as long as calibration_params.json is the old one, a folder either fails the digest check or is exactly s0 *)
  Lemma repaired_json_old t s0 s1 d : f_json d = Old ->
    lcg Repaired t true s0 s1 d = Error \/ lcg Repaired t true s0 s1 d = Exactly_old.
  Proof.
    intros Hjs. unfold load_class_gen, Crash.load. rewrite Hjs. cbn.
    destruct (D_eqb (digest (content_of s0 s1 FSched (f_sched d))) (digest (KS Sc Lo Hdr Row HRow (ss s0)))) eqn:E1;
      cbn; [|left; reflexivity].
    destruct (D_eqb (digest (content_of s0 s1 FLoss (f_loss d))) (digest (KL Sc Lo Hdr Row HRow (sl s0)))) eqn:E2;
      cbn; [|left; reflexivity].
    destruct (D_eqb (digest (content_of s0 s1 FCsv (f_csv d))) (digest (KCsv Sc Lo Hdr Row HRow (shd s0) (sr s0) false)))
      eqn:E3; cbn; [|left; reflexivity].
    destruct (D_eqb (digest (content_of s0 s1 FH5 (f_h5 d))) (digest (KH Sc Lo Hdr Row HRow (sh s0)))) eqn:E4;
      cbn; [|left; reflexivity].
    apply D_eqb_spec, digest_inj in E1. apply D_eqb_spec, digest_inj in E2.
    apply D_eqb_spec, digest_inj in E3. apply D_eqb_spec, digest_inj in E4.
    rewrite E1, E2, E3, E4. cbn. right.
    assert (E : same (mkR J Sc Lo Hdr Row HRow (sj s0) (ss s0) (sl s0) (shd s0) (sr s0) false (sh s0)) s0 = true)
      by (apply same_spec; agree_tac).
    rewrite E. reflexivity.
  Qed.

  Lemma repaired_json_old_before_commit k : k < nops Repaired -> f_json (crash Repaired k) = Old.
  Proof.
    intros H. do 21 (destruct k as [|k]; [reflexivity|]). exfalso. unfold nops in H. simpl in H. lia.
  Qed.

  Lemma repaired_json_old_cut f c : f <> FJson -> f_json (crash_cut Repaired f c) = Old.
  Proof. intros H. destruct f; try congruence; reflexivity. Qed.

  Lemma repaired_no_hybrid_before_commit t s0 s1 k : k < nops Repaired ->
    lcg Repaired t true s0 s1 (crash Repaired k) = Error \/ lcg Repaired t true s0 s1 (crash Repaired k) = Exactly_old.
  Proof. intros H. apply repaired_json_old, repaired_json_old_before_commit, H. Qed.

  Lemma repaired_no_hybrid_cut t s0 s1 f c : f <> FJson ->
    lcg Repaired t true s0 s1 (crash_cut Repaired f c) = Error
    \/ lcg Repaired t true s0 s1 (crash_cut Repaired f c) = Exactly_old.
  Proof. intros H. apply repaired_json_old, repaired_json_old_cut, H. Qed.

  Lemma repaired_untouched t s0 s1 : lcg Repaired t true s0 s1 (crash Repaired 0) = Exactly_old.
  Proof.
    unfold load_class_gen, Crash.load. cbn. rewrite !(proj2 (D_eqb_spec _ _) eq_refl). cbn.
    assert (E : same (mkR J Sc Lo Hdr Row HRow (sj s0) (ss s0) (sl s0) (shd s0) (sr s0) false (sh s0)) s0 = true)
      by (apply same_spec; agree_tac).
    rewrite E. reflexivity.
  Qed.

  (* after the commit the folder is the new checkpoint (given that the series file on disk was a prefix: C04) *)
  Lemma repaired_complete t s0 s1 k : s0 <> s1 -> appended s0 s1 = sh s1 -> nops Repaired <= k ->
    lcg Repaired t true s0 s1 (crash Repaired k) = Exactly_new.
  Proof.
    intros Hne Ha H. rewrite (crash_ge Repaired k H).
    unfold load_class_gen, Crash.load. cbn. rewrite !(proj2 (D_eqb_spec _ _) eq_refl). cbn. rewrite Ha.
    assert (E : same (mkR J Sc Lo Hdr Row HRow (sj s1) (ss s1) (sl s1) (shd s1) (sr s1) false (sh s1)) s1 = true)
      by (apply same_spec; agree_tac).
    rewrite E.
    rewrite same_false; [reflexivity|]. unfold agrees. simpl. intros (A & B & C & D0 & E0 & _ & F). apply Hne.
    apply state_ext; congruence.
  Qed.

  (* the property for the repaired order: whatever the two checkpoints, no crash point is a hybrid *)
  Lemma repaired_never_hybrid t s0 s1 k : s0 <> s1 -> appended s0 s1 = sh s1 ->
    In (lcg Repaired t true s0 s1 (crash Repaired k)) [Error; Exactly_old; Exactly_new].
  Proof.
    intros Hne Ha. destruct (le_lt_dec (nops Repaired) k) as [H|H].
    - rewrite (repaired_complete t s0 s1 k Hne Ha H). simpl; auto.
    - destruct (repaired_no_hybrid_before_commit t s0 s1 k H) as [E|E]; rewrite E; simpl; auto.
  Qed.
End P.

(* ------------------------------------------------------------------ the same lemmas on bundled parameters *)
Section Bundled.
  Variable c : components.
  Hypothesis dec : decides_eq c.

  Ltac use L := destruct dec; eapply L; eassumption.

  Lemma b_legacy_hybrid_points_exact t (s0 s1 : checkpoint c) k : generic_pair c s0 s1 ->
    (class_of c Legacy t true s0 s1 (crash Legacy k) = Hybrid <-> In k hybrid_list_legacy).
  Proof. intros G. use legacy_hybrid_points_exact. Qed.

  Lemma b_legacy_no_hybrid_outside t (s0 s1 : checkpoint c) k : generic_pair c s0 s1 -> ~ In k hybrid_list_legacy ->
    In (class_of c Legacy t true s0 s1 (crash Legacy k)) [Error; Exactly_old; Exactly_new].
  Proof. intros G H. use legacy_no_hybrid_outside. Qed.

  Lemma b_legacy_refuted (s0 s1 : checkpoint c) : generic_pair c s0 s1 ->
    exists k, k < nops Legacy /\ class_of c Legacy TGarbled true s0 s1 (crash Legacy k) = Hybrid.
  Proof. intros G. use legacy_refuted_generic. Qed.

  Lemma b_fresh_error_until_complete v t (s0 s1 : checkpoint c) k : k < fresh_commit v ->
    class_of c v t false s0 s1 (crash_fresh v k) = Error.
  Proof. intros H. apply fresh_error_until_complete. exact H. Qed.

  Lemma b_fresh_complete v t (s0 s1 : checkpoint c) k : fresh_commit v <= k ->
    class_of c v t false s0 s1 (crash_fresh v k) = Exactly_new.
  Proof. intros H. use fresh_complete. Qed.

  Lemma b_legacy_cut_unreadable t hp (s0 s1 : checkpoint c) f ct : f <> FCsv -> f <> FTmp ->
    class_of c Legacy t hp s0 s1 (crash_cut Legacy f ct) = Error.
  Proof. intros. apply legacy_cut_unreadable; assumption. Qed.

  Lemma b_legacy_cut_csv_header t hp (s0 s1 : checkpoint c) :
    class_of c Legacy t hp s0 s1 (crash_cut Legacy FCsv CutHeader) = Error.
  Proof. reflexivity. Qed.

  Lemma b_legacy_cut_csv_rows t (s0 s1 : checkpoint c) j mid : generic_pair c s0 s1 ->
    In (class_of c Legacy t true s0 s1 (crash_cut Legacy FCsv (CutRows j mid))) [Hybrid; Error]
    /\ (mid = false -> class_of c Legacy t true s0 s1 (crash_cut Legacy FCsv (CutRows j mid)) = Hybrid).
  Proof. intros G. use legacy_cut_csv_rows. Qed.

  Lemma b_fresh_cut_error v t (s0 s1 : checkpoint c) f ct : (v = Legacy -> f <> FTmp) ->
    class_of c v t false s0 s1 (crash_cut_from v folder_absent f ct) = Error.
  Proof. apply fresh_cut_error. Qed.

  Hypothesis inj : digest_injective c.

  Lemma b_repaired_no_hybrid_before_commit t (s0 s1 : checkpoint c) k : k < nops Repaired ->
    class_of c Repaired t true s0 s1 (crash Repaired k) = Error
    \/ class_of c Repaired t true s0 s1 (crash Repaired k) = Exactly_old.
  Proof. intros H. use repaired_no_hybrid_before_commit. Qed.

  Lemma b_repaired_no_hybrid_cut t (s0 s1 : checkpoint c) f ct : f <> FJson ->
    class_of c Repaired t true s0 s1 (crash_cut Repaired f ct) = Error
    \/ class_of c Repaired t true s0 s1 (crash_cut Repaired f ct) = Exactly_old.
  Proof. intros H. use repaired_no_hybrid_cut. Qed.

  Lemma b_repaired_untouched t (s0 s1 : checkpoint c) : class_of c Repaired t true s0 s1 (crash Repaired 0) = Exactly_old.
  Proof. use repaired_untouched. Qed.

  Lemma b_repaired_complete t (s0 s1 : checkpoint c) k : s0 <> s1 -> appended c s0 s1 = sh s1 -> nops Repaired <= k ->
    class_of c Repaired t true s0 s1 (crash Repaired k) = Exactly_new.
  Proof. intros H1 H2 H3. use repaired_complete. Qed.

  Lemma b_repaired_never_hybrid t (s0 s1 : checkpoint c) k : s0 <> s1 -> appended c s0 s1 = sh s1 ->
    In (class_of c Repaired t true s0 s1 (crash Repaired k)) [Error; Exactly_old; Exactly_new].
  Proof. intros H1 H2. use repaired_never_hybrid. Qed.
End Bundled.

(* hybrid_points is, for any pair and either order, exactly the set of hybrid operation prefixes *)
Lemma b_hybrid_points_decide c v (s0 s1 : checkpoint c) k :
  class_of c v TGarbled true s0 s1 (crash v k) = Hybrid <->
  exists k', In k' (hybrid_points _ _ _ _ _ _ (cJ_eqb c) (cS_eqb c) (cL_eqb c) (cHdr_eqb c) (cRow_eqb c) (cHRow_eqb c)
                      (czrow c) _ (cdigest c) (cD_eqb c) v s0 s1) /\ crash v k = crash v k'.
Proof. apply hybrid_points_decide. Qed.

(* ------------------------------------------------------------------ SQLite *)
Section SqlP.
  Variable St : Type.
  Notation failed := (failed_save St).
  Notation sload := (sql_load St).

  (* number of statements that ran before the exception *)
  Definition ran (i : nat) (after : bool) : nat := if after then S i else i.

  Lemma sql_legacy_outcome s0 s1 i after :
    sload (failed Legacy s1 i after (db_of St (Some s0))) =
      if ran i after <=? 1 then ROk s0 else if ran i after <=? 3 then RErr else ROk s1.
  Proof.
    unfold failed_save. fold (ran i after). generalize (ran i after). intros n.
    do 5 (destruct n as [|n]; [reflexivity|]). simpl. destruct n; reflexivity.
  Qed.

  Lemma sql_legacy_insert_loses_previous s0 s1 :
    nth_error (sql_stmts Legacy) 2 = Some SInsert /\ sload (failed Legacy s1 2 false (db_of St (Some s0))) = RErr.
  Proof. split; reflexivity. Qed.

  Lemma sql_legacy_lost_iff s0 s1 i : i < length (sql_stmts Legacy) ->
    (sload (failed Legacy s1 i false (db_of St (Some s0))) = ROk s0 <-> i < 2).
  Proof.
    intros H. rewrite sql_legacy_outcome. unfold ran.
    do 4 (destruct i as [|i]; [simpl; split; intros; try lia; try reflexivity; discriminate|]).
    simpl in H. lia.
  Qed.

  Lemma sql_repaired_keeps_previous s0 s1 i : i < length (sql_stmts Repaired) ->
    sload (failed Repaired s1 i false (db_of St (Some s0))) = ROk s0.
  Proof. intros H. do 5 (destruct i as [|i]; [reflexivity|]). simpl in H. lia. Qed.

  Lemma sql_repaired_outcome s0 s1 i after :
    sload (failed Repaired s1 i after (db_of St (Some s0))) = if ran i after <=? 4 then ROk s0 else ROk s1.
  Proof.
    unfold failed_save. fold (ran i after). generalize (ran i after). intros n.
    do 6 (destruct n as [|n]; [reflexivity|]). simpl. destruct n; reflexivity.
  Qed.

  Lemma sql_complete v prev s1 : sload (complete_save St v s1 (db_of St prev)) = ROk s1.
  Proof. destruct v, prev; reflexivity. Qed.

  Lemma sql_repaired_fresh_fault s1 i after : ran i after <= 4 ->
    sload (failed Repaired s1 i after (db_of St None)) = RErr.
  Proof.
    unfold failed_save. fold (ran i after). generalize (ran i after). intros n H.
    do 5 (destruct n as [|n]; [reflexivity|]). lia.
  Qed.
End SqlP.

(* ------------------------------------------------------------------ closed witnesses on tokens *)
Lemma nat_eqb_spec : forall a b, Nat.eqb a b = true <-> a = b.
Proof. intros; apply Nat.eqb_eq. Qed.

Lemma cut_eqb_spec a b : cut_eqb a b = true <-> a = b.
Proof.
  destruct a as [| |j m], b as [| |j' m']; simpl; try (split; [discriminate|discriminate]); try (split; reflexivity).
  rewrite andb_true_iff, Nat.eqb_eq, Bool.eqb_true_iff. split; [intros [-> ->]; reflexivity | intros E; inversion E; auto].
Qed.

Lemma nat_list_eqb_spec (a b : list nat) : list_eqb Nat.eqb a b = true <-> a = b.
Proof.
  revert b. induction a as [|x a IH]; destruct b as [|y b]; simpl; try (split; [discriminate|discriminate]).
  - split; reflexivity.
  - rewrite andb_true_iff, Nat.eqb_eq, IH. split; [intros [-> ->]; reflexivity | intros E; inversion E; auto].
Qed.

Lemma tcontent_eqb_spec a b : tcontent_eqb a b = true <-> a = b.
Proof.
  destruct a, b; simpl; try (split; [discriminate|discriminate]); try (split; reflexivity).
  - rewrite cut_eqb_spec. split; [intros ->; reflexivity | intros E; inversion E; auto].
  - rewrite Nat.eqb_eq. split; [intros ->; reflexivity | intros E; inversion E; auto].
  - rewrite Nat.eqb_eq. split; [intros ->; reflexivity | intros E; inversion E; auto].
  - rewrite !andb_true_iff, Nat.eqb_eq, nat_list_eqb_spec, Bool.eqb_true_iff.
    split; [intros [[-> ->] ->]; reflexivity | intros E; inversion E; auto].
  - rewrite nat_list_eqb_spec. split; [intros ->; reflexivity | intros E; inversion E; auto].
Qed.

Lemma tcomponents_ok zr : decides_eq (tcomponents zr) /\ digest_injective (tcomponents zr).
Proof.
  split.
  - constructor; simpl; try exact Nat.eqb_eq. exact tcontent_eqb_spec.
  - intros a b H. exact H.
Qed.

Lemma tok_generic : generic_pair (tcomponents 0) tok0 tok1.
Proof. unfold generic_pair, resized, appended; cbn. repeat split; try discriminate. Qed.

Lemma tok_refuted : tok0 <> tok1 /\ class_of (tcomponents 0) Legacy TGarbled true tok0 tok1 (crash Legacy 2) = Hybrid.
Proof. split; [discriminate | reflexivity]. Qed.
