(* Lemmas about Model/Checkpoint.v: restore o save is the identity (under the recorded codec contracts), for every
   previous folder content with the repaired series writer, for same-run folders with the writer of the pinned tree;
   SQLite round trip; and, on the shared calibrator model, the same-run prefix invariant and the calibrate() clause. *)
From Coq Require Import List ZArith Bool Arith Lia.
From BlackIt Require Import Model.Calibrator Model.Checkpoint Proofs.CalibratorP.
Import ListNotations.

Lemma list_eqb_spec {A} (f : A -> A -> bool) : (forall a b, f a b = true <-> a = b) ->
  forall x y, list_eqb f x y = true <-> x = y.
Proof.
  intros Hf. induction x as [|a x IH]; destruct y as [|b y]; cbn; split; try congruence; try discriminate; auto.
  - intros H. apply andb_prop in H as [H1 H2]. apply Hf in H1. apply IH in H2. congruence.
  - intros H. injection H as -> ->. apply andb_true_intro. split; [now apply Hf | now apply IH].
Qed.

Lemma shape_eqb_spec a b : shape_eqb a b = true <-> a = b.
Proof.
  destruct a as [[a1 a2] a3], b as [[b1 b2] b3]. cbn. split.
  - intros H. apply andb_prop in H as [H H3]. apply andb_prop in H as [H1 H2].
    apply Nat.eqb_eq in H1, H2, H3. congruence.
  - intros H. injection H as -> -> ->. now rewrite !Nat.eqb_refl.
Qed.

Lemma skipn_app_exact {A} (a r : list A) : skipn (length a) (a ++ r) = r.
Proof. induction a; cbn; auto. Qed.
Lemma firstn_app_exact {A} (a r : list A) : firstn (length a) (a ++ r) = a.
Proof. induction a; cbn; [reflexivity | now f_equal]. Qed.

Lemma last_cons {A} : forall (l : list A) a d, last (a :: l) d = last l a.
Proof. induction l as [|b l IH]; intros a d; [reflexivity|]. change (last (a :: b :: l) d) with (last (b :: l) d).
  rewrite (IH b d). symmetry. apply IH. Qed.

Section CkptP.
  Variable F : Type.
  Variable F_eqb : F -> F -> bool.
  Variables Str Gen Sched Loss : Type.
  Variable str_eqb : Str -> Str -> bool.
  Variables JsonT PSched PLoss CsvT : Type.
  Variable Dg : Type.
  Variable Dg_eqb : Dg -> Dg -> bool.
  Variable dg_s : option PSched -> Dg.
  Variable dg_l : option PLoss -> Dg.
  Variable dg_c : CsvT -> Dg.
  Variable dg_h : h5file F -> Dg.
  Variable jenc : jparams F Str Gen Dg -> JsonT.
  Variable jdec : JsonT -> option (jparams F Str Gen Dg).
  Variable pick_s : Sched -> option PSched.
  Variable unpick_s : PSched -> option Sched.
  Variable pick_l : Loss -> option PLoss.
  Variable unpick_l : PLoss -> option Loss.
  Variable csv_print : csvtable F -> CsvT.
  Variable csv_parse : CsvT -> option (csvtable F).
  Variable fresh_gen : option Z -> Gen.
  Variable table_of : Sched -> list (Str * nat).

  Notation state := (state F Str Gen Sched Loss).
  Notation folder := (folder F JsonT PSched PLoss CsvT).
  Notation h5file := (h5file F).
  Notation save_with := (save_with F Str Gen Sched Loss JsonT PSched PLoss CsvT Dg dg_s dg_l dg_c dg_h jenc pick_s pick_l csv_print).
  Notation save := (save F F_eqb Str Gen Sched Loss JsonT PSched PLoss CsvT Dg dg_s dg_l dg_c dg_h jenc pick_s pick_l csv_print).
  Notation save_legacy := (save_legacy F Str Gen Sched Loss JsonT PSched PLoss CsvT Dg dg_s dg_l dg_c dg_h jenc pick_s pick_l csv_print).
  Notation load := (load F Str Gen Sched Loss JsonT PSched PLoss CsvT Dg Dg_eqb dg_s dg_l dg_c dg_h jdec unpick_s unpick_l csv_parse).
  Notation restore := (restore F Str Gen Sched Loss str_eqb JsonT PSched PLoss CsvT Dg Dg_eqb dg_s dg_l dg_c dg_h jdec unpick_s unpick_l csv_parse fresh_gen table_of).
  Notation wf := (wf F Str Gen Sched Loss).
  Notation frame := (frame F Str Gen Sched Loss).
  Notation h5_write := (h5_write F F_eqb).
  Notation h5_write_legacy := (h5_write_legacy F).
  Notation h5_mode := (h5_mode F F_eqb).
  Notation SOk := (SOk F JsonT PSched PLoss CsvT).
  Notation SRaise := (SRaise F JsonT PSched PLoss CsvT).

  (* the recorded contracts of the external codecs *)
  Hypothesis Hjson : json_rt F Str Gen JsonT Dg jenc jdec.
  Hypothesis Hps : pickle_s_rt Sched PSched pick_s unpick_s.
  Hypothesis Hpl : pickle_l_rt Loss PLoss pick_l unpick_l.
  Hypothesis Hstr : str_eqb_refl Str str_eqb.
  Hypothesis HF : F_eqb_spec F F_eqb.
  Hypothesis HDg : Dg_eqb_refl Dg Dg_eqb.

  (* ---------------------------------------------------------------- table <-> columns *)
  Lemma zip4_cols : forall (a : list F) (b c : list Z) (d : list (list F)),
    length b = length a -> length c = length a -> length d = length a ->
    map (c_loss F) (zip4 F a b c d) = a /\ map (c_bnum F) (zip4 F a b c d) = b /\
    map (c_method F) (zip4 F a b c d) = c /\ map (c_params F) (zip4 F a b c d) = d /\ length (zip4 F a b c d) = length a.
  Proof.
    induction a as [|x a IH]; intros [|y b] [|z c] [|w d]; cbn; intros Hb Hc Hd; try discriminate; auto.
    destruct (IH b c d) as (H1 & H2 & H3 & H4 & H5); try lia.
    repeat split; cbn; congruence.
  Qed.

  Lemma firstn_rows n (d : list (list F)) : Forall (fun r => length r = n) d -> map (fun r => firstn n r) d = d.
  Proof. induction 1 as [|r d Hr _ IH]; cbn; [reflexivity|]. f_equal; [subst n; apply firstn_all | exact IH]. Qed.

  Lemma frame_ok s : wf s -> frame s = Some (mkTab F (s_pdims _ _ _ _ _ s)
      (zip4 F (s_losses _ _ _ _ _ s) (s_bnums _ _ _ _ _ s) (s_methods _ _ _ _ _ s) (s_params _ _ _ _ _ s))).
  Proof. intros (_ & H1 & H2 & H3 & _). unfold Checkpoint.frame. now rewrite H1, H2, H3, !Nat.eqb_refl. Qed.

  (* ---------------------------------------------------------------- the series file *)
  Lemma rows_eqb_spec a b : rows_eqb F F_eqb a b = true <-> a = b.
  Proof. unfold rows_eqb. apply list_eqb_spec. apply list_eqb_spec. exact HF. Qed.

  (* the repaired writer leaves exactly the series being saved, whatever the file held *)
  Lemma h5_write_exact old sh ser : h5_write old sh ser = Ok (mkH5 F sh ser).
  Proof.
    destruct old as [o|]; cbn; [|reflexivity]. destruct (h5_is_prefix F F_eqb o sh ser) eqn:Hp; [|reflexivity].
    unfold h5_is_prefix in Hp. apply andb_prop in Hp as [Hp H3]. apply andb_prop in Hp as [H1 H2].
    apply shape_eqb_spec in H1. apply rows_eqb_spec in H3. f_equal. rewrite H1. f_equal.
    transitivity (firstn (length (h_rows F o)) ser ++ skipn (length (h_rows F o)) ser); [f_equal; exact H3 | apply firstn_skipn].
  Qed.

  (* ... and it does so by appending in place whenever the file is an earlier checkpoint of the same run *)
  Lemma h5_same_run_appends o sh ser rest : h_shape F o = sh -> ser = h_rows F o ++ rest ->
    h5_mode (Some o) sh ser = 2 /\ h5_write (Some o) sh ser = Ok (mkH5 F (h_shape F o) (h_rows F o ++ rest)).
  Proof.
    intros Hs ->. unfold Checkpoint.h5_mode, Checkpoint.h5_write.
    assert (Hp : h5_is_prefix F F_eqb o sh (h_rows F o ++ rest) = true).
    { unfold h5_is_prefix. rewrite Hs. apply andb_true_intro. split; [apply andb_true_intro; split|].
      - now apply shape_eqb_spec.
      - apply Nat.leb_le. rewrite app_length. lia.
      - apply rows_eqb_spec. now rewrite firstn_app_exact. }
    rewrite Hp. now rewrite skipn_app_exact.
  Qed.

  Lemma h5_legacy_same_run o sh ser rest : h_shape F o = sh -> ser = h_rows F o ++ rest ->
    h5_write_legacy (Some o) sh ser = Ok (mkH5 F sh ser).
  Proof.
    intros Hs ->. unfold Checkpoint.h5_write_legacy. rewrite Hs.
    replace (shape_eqb sh sh) with true by (symmetry; now apply shape_eqb_spec). now rewrite skipn_app_exact.
  Qed.

  (* ---------------------------------------------------------------- restore after save, any series writer *)
  (* what comes back when the CSV text path returns table t' for the table t that was printed *)
  Definition with_table (s : state) (t' : csvtable F) : state :=
    let dims := length (s_precision _ _ _ _ _ s) in
    let n := length (t_rows F t') in
    mkState F Str Gen Sched Loss
      (s_bounds _ _ _ _ _ s) (s_precision _ _ _ _ _ s) (s_real _ _ _ _ _ s) (s_E _ _ _ _ _ s) (s_N _ _ _ _ _ s) (s_D _ _ _ _ _ s)
      (s_prec _ _ _ _ _ s) (s_verbose _ _ _ _ _ s) (s_saving _ _ _ _ _ s) (s_seed _ _ _ _ _ s) (s_gen _ _ _ _ _ s) (s_model _ _ _ _ _ s)
      (s_sched _ _ _ _ _ s) (s_loss _ _ _ _ _ s) (s_batch _ _ _ _ _ s) (s_nsampled _ _ _ _ _ s) (s_njobs _ _ _ _ _ s)
      dims (map (fun r => firstn dims (c_params F r)) (t_rows F t')) (map (c_loss F) (t_rows F t'))
      (s_sshape _ _ _ _ _ s) (s_series _ _ _ _ _ s) (map (c_bnum F) (t_rows F t')) (map (c_method F) (t_rows F t'))
      (s_table _ _ _ _ _ s) live_dts.

  Lemma restore_after_save_general w f s bs bl t t' :
    wf s -> pick_s (s_sched _ _ _ _ _ s) = Some bs -> pick_l (s_loss _ _ _ _ _ s) = Some bl ->
    w (f_h5 _ _ _ _ _ f) (s_sshape _ _ _ _ _ s) (s_series _ _ _ _ _ s) = Ok (mkH5 F (s_sshape _ _ _ _ _ s) (s_series _ _ _ _ _ s)) ->
    frame s = Some t -> csv_parse (csv_print t) = Some t' -> t_ncols F t' = t_ncols F t ->
    exists f', save_with w f s = SOk f' /\ restore f' (s_model _ _ _ _ _ s) = Ok (with_table s t').
  Proof.
    intros Hwf Hbs Hbl Hw Hfr Hcsv Hnc.
    pose proof Hwf as (HD & H1 & H2 & H3 & Hrows & Hdims & Hnz & Hdts).
    eexists. split.
    - unfold Checkpoint.save_with. rewrite Hbs, Hbl, Hfr, Hw. reflexivity.
    - unfold Checkpoint.restore, Checkpoint.load, Checkpoint.commit, Checkpoint.check_digests.
      cbn [f_json f_sched f_loss f_csv f_h5 set_json set_sched set_loss set_csv set_h5].
      rewrite Hjson. cbn [j_files jparams_of].
      rewrite !HDg. cbn [negb]. rewrite Hcsv. cbn [j_precision jparams_of].
      rewrite (frame_ok s Hwf) in Hfr. injection Hfr as <-. cbn [t_ncols] in Hnc.
      rewrite Hnc, <- Hdims, Nat.leb_refl. cbn [negb].
      destruct (Nat.eqb (s_pdims _ _ _ _ _ s) 0) eqn:Hz; [apply Nat.eqb_eq in Hz; contradiction|].
      rewrite (Hps _ _ Hbs), (Hpl _ _ Hbl). cbn [l_j j_model jparams_of]. rewrite Hstr. cbn [negb].
      unfold with_table, Checkpoint.construct. cbn. rewrite <- Hdims, <- HD.
      destruct s; cbn in *. reflexivity.
  Qed.

  Lemma with_table_exact s : wf s ->
    with_table s (mkTab F (s_pdims _ _ _ _ _ s)
       (zip4 F (s_losses _ _ _ _ _ s) (s_bnums _ _ _ _ _ s) (s_methods _ _ _ _ _ s) (s_params _ _ _ _ _ s))) = s.
  Proof.
    intros (HD & H1 & H2 & H3 & Hrows & Hdims & Hnz & Hdts). unfold with_table. cbn [t_rows].
    destruct (zip4_cols (s_losses _ _ _ _ _ s) (s_bnums _ _ _ _ _ s) (s_methods _ _ _ _ _ s) (s_params _ _ _ _ _ s) H1 H2 H3)
      as (C1 & C2 & C3 & C4 & _).
    rewrite <- map_map with (f := c_params F) (g := fun r => firstn _ r).
    rewrite C1, C2, C3, C4, <- Hdims, (firstn_rows _ _ Hrows), <- Hdts. destruct s; reflexivity.
  Qed.

  Lemma restore_after_save w f s bs bl :
    csv_exact F CsvT csv_print csv_parse ->
    wf s -> pick_s (s_sched _ _ _ _ _ s) = Some bs -> pick_l (s_loss _ _ _ _ _ s) = Some bl ->
    w (f_h5 _ _ _ _ _ f) (s_sshape _ _ _ _ _ s) (s_series _ _ _ _ _ s) = Ok (mkH5 F (s_sshape _ _ _ _ _ s) (s_series _ _ _ _ _ s)) ->
    exists f', save_with w f s = SOk f' /\ restore f' (s_model _ _ _ _ _ s) = Ok s.
  Proof.
    intros Hcsv Hwf Hbs Hbl Hw.
    destruct (restore_after_save_general w f s bs bl _ _ Hwf Hbs Hbl Hw (frame_ok s Hwf) (Hcsv _) eq_refl) as (f' & Hs & Hr).
    exists f'. split; [exact Hs|]. now rewrite with_table_exact in Hr.
  Qed.

  Definition picklable (s : state) : Prop :=
    pick_s (s_sched _ _ _ _ _ s) <> None /\ pick_l (s_loss _ _ _ _ _ s) <> None.

  (* the repaired tree: whatever the folder held before *)
  Theorem restore_save_any_folder :
    csv_exact F CsvT csv_print csv_parse ->
    forall f s, wf s -> picklable s -> exists f', save f s = SOk f' /\ restore f' (s_model _ _ _ _ _ s) = Ok s.
  Proof.
    intros Hcsv f s Hwf [Hp1 Hp2].
    destruct (pick_s (s_sched _ _ _ _ _ s)) as [bs|] eqn:Hbs; [|contradiction].
    destruct (pick_l (s_loss _ _ _ _ _ s)) as [bl|] eqn:Hbl; [|contradiction].
    eapply restore_after_save; eauto. apply h5_write_exact.
  Qed.

  Theorem restore_save_exact_fresh :
    csv_exact F CsvT csv_print csv_parse ->
    forall s, wf s -> picklable s ->
      exists f', save (empty_folder F JsonT PSched PLoss CsvT) s = SOk f' /\ restore f' (s_model _ _ _ _ _ s) = Ok s.
  Proof. intros Hcsv s. apply restore_save_any_folder. exact Hcsv. Qed.

  (* same run: the rows on disk are a prefix of the series.  The repaired writer appends in place (mode 2) and the
     round trip is exact; so is the round trip of the pinned writer. *)
  Definition same_run_folder (f : folder) (s : state) : Prop :=
    exists o rest, f_h5 _ _ _ _ _ f = Some o /\ h_shape F o = s_sshape _ _ _ _ _ s /\ s_series _ _ _ _ _ s = h_rows F o ++ rest.

  Theorem restore_save_same_run :
    csv_exact F CsvT csv_print csv_parse ->
    forall f s, wf s -> picklable s -> same_run_folder f s ->
      h5_mode (f_h5 _ _ _ _ _ f) (s_sshape _ _ _ _ _ s) (s_series _ _ _ _ _ s) = 2 /\
      exists f', save f s = SOk f' /\ restore f' (s_model _ _ _ _ _ s) = Ok s.
  Proof.
    intros Hcsv f s Hwf Hp (o & rest & Hf & Hs & Hser). split.
    - rewrite Hf. eapply h5_same_run_appends; eauto.
    - now apply restore_save_any_folder.
  Qed.

  Theorem legacy_restore_save_fresh_or_same_run :
    csv_exact F CsvT csv_print csv_parse ->
    forall f s, wf s -> picklable s -> (f_h5 _ _ _ _ _ f = None \/ same_run_folder f s) ->
      exists f', save_legacy f s = SOk f' /\ restore f' (s_model _ _ _ _ _ s) = Ok s.
  Proof.
    intros Hcsv f s Hwf [Hp1 Hp2] Hf.
    destruct (pick_s (s_sched _ _ _ _ _ s)) as [bs|] eqn:Hbs; [|contradiction].
    destruct (pick_l (s_loss _ _ _ _ _ s)) as [bl|] eqn:Hbl; [|contradiction].
    eapply restore_after_save; eauto.
    destruct Hf as [Hn|(o & rest & Hf & Hs & Hser)]; rewrite ?Hn, ?Hf; [reflexivity|].
    eapply h5_legacy_same_run; eauto.
  Qed.

  (* a whole sequence of checkpoints of one run written over each other by the pinned writer *)
  Inductive chain : list state -> Prop :=
  | chain_one s : wf s -> picklable s -> chain [s]
  | chain_cons s s' l : wf s -> picklable s -> s_sshape _ _ _ _ _ s' = s_sshape _ _ _ _ _ s ->
      (exists rest, s_series _ _ _ _ _ s' = s_series _ _ _ _ _ s ++ rest) -> chain (s' :: l) -> chain (s :: s' :: l).

  Definition saves_legacy (l : list state) (f : folder) : folder :=
    fold_left (fun f s => folder_of _ _ _ _ _ (save_legacy f s)) l f.

  Lemma save_legacy_h5 f s f' : save_legacy f s = SOk f' ->
    h5_write_legacy (f_h5 _ _ _ _ _ f) (s_sshape _ _ _ _ _ s) (s_series _ _ _ _ _ s) = Ok (mkH5 F (s_sshape _ _ _ _ _ s) (s_series _ _ _ _ _ s)) ->
    f_h5 _ _ _ _ _ f' = Some (mkH5 F (s_sshape _ _ _ _ _ s) (s_series _ _ _ _ _ s)).
  Proof.
    unfold Checkpoint.save_legacy, Checkpoint.save_with. intros H Hw.
    destruct (pick_s _); [|discriminate]. destruct (pick_l _); [|discriminate]. destruct (Checkpoint.frame _ _ _ _ _ _); [|discriminate].
    rewrite Hw in H. injection H as <-. reflexivity.
  Qed.

  Theorem legacy_chain_exact :
    csv_exact F CsvT csv_print csv_parse ->
    forall l s, chain (s :: l) -> forall f, (f_h5 _ _ _ _ _ f = None \/ same_run_folder f s) ->
      let z := last l s in restore (saves_legacy (s :: l) f) (s_model _ _ _ _ _ z) = Ok z.
  Proof.
    intros Hcsv l. induction l as [|s' l IH]; intros s Hc f Hf.
    - cbn. inversion Hc; subst. destruct (legacy_restore_save_fresh_or_same_run Hcsv f s H0 H1 Hf) as (f' & Hs & Hr).
      unfold saves_legacy. cbn. now rewrite Hs.
    - cbv zeta. rewrite (last_cons l s' s).
      inversion Hc as [|? ? ? Hwf Hp Hsh (rest & Hser) Hc']; subst.
      destruct (legacy_restore_save_fresh_or_same_run Hcsv f s Hwf Hp Hf) as (f' & Hs & Hr).
      assert (Hh5 : f_h5 _ _ _ _ _ f' = Some (mkH5 F (s_sshape _ _ _ _ _ s) (s_series _ _ _ _ _ s))).
      { apply (save_legacy_h5 f s f' Hs). destruct Hf as [Hn|(o & r0 & Hf & Hs0 & Hser0)]; rewrite ?Hn, ?Hf; [reflexivity|].
        eapply h5_legacy_same_run; eauto. }
      change (saves_legacy (s :: s' :: l) f) with (saves_legacy (s' :: l) (folder_of _ _ _ _ _ (save_legacy f s))).
      rewrite Hs. cbn [folder_of].
      apply (IH s' Hc' f'). right. exists (mkH5 F (s_sshape _ _ _ _ _ s) (s_series _ _ _ _ _ s)), rest. cbn. auto.
  Qed.

  (* ---------------------------------------------------------------- unpicklable scheduler (RL) *)
  (* the json is written last: a save that raises leaves the previous json (and csv, h5) in place and a truncated
     scheduler pickle - such a folder can never be restored, whatever it held *)
  Theorem save_unpicklable w f s :
    pick_s (s_sched _ _ _ _ _ s) = None ->
    exists f', save_with w f s = SRaise ExPickle f' /\ f_json _ _ _ _ _ f' = f_json _ _ _ _ _ f /\
               forall name, exists e, restore f' name = Raise e.
  Proof.
    intros Hp. eexists. split; [unfold Checkpoint.save_with; rewrite Hp; reflexivity|]. split; [reflexivity|]. intros name.
    unfold Checkpoint.restore, Checkpoint.load, Checkpoint.check_digests. cbn [f_json f_sched f_loss f_csv f_h5 set_sched].
    repeat match goal with
           | |- exists e, Raise _ = Raise e => eexists; reflexivity
           | |- exists e, match match ?x with _ => _ end with _ => _ end = _ => destruct x
           | |- exists e, match (if ?x then _ else _) with _ => _ end = _ => destruct x
           | |- exists e, match (let '(_, _) := ?x in _) with _ => _ end = _ => destruct x
           end.
  Qed.

  (* ---------------------------------------------------------------- SQLite *)
  Notation save_sql := (save_sql F Str Gen Sched Loss PSched PLoss pick_s pick_l).
  Notation load_sql := (load_sql F Str Gen Sched Loss PSched PLoss unpick_s unpick_l).

  Theorem sqlite_rt : forall d s, picklable s ->
    exists d', save_sql d s = Ok d' /\ load_sql d' = Ok (project20 F Str Gen Sched Loss s).
  Proof.
    intros d s [Hp1 Hp2].
    destruct (pick_s (s_sched _ _ _ _ _ s)) as [bs|] eqn:Hbs; [|contradiction].
    destruct (pick_l (s_loss _ _ _ _ _ s)) as [bl|] eqn:Hbl; [|contradiction].
    eexists. split; [unfold Checkpoint.save_sql; rewrite Hbs, Hbl; reflexivity|].
    unfold Checkpoint.load_sql. cbn. rewrite (Hps _ _ Hbs), (Hpl _ _ Hbl). unfold project20.
    destruct (s_prec _ _ _ _ _ s); destruct (s_verbose _ _ _ _ _ s); reflexivity.
  Qed.

  Theorem sqlite_unpicklable_writes_nothing : forall d s, pick_s (s_sched _ _ _ _ _ s) = None -> save_sql d s = Raise ExPickle.
  Proof. intros d s H. unfold Checkpoint.save_sql. now rewrite H. Qed.
End CkptP.

(* ====================================================================== on the shared calibrator model *)
Section RunP.
  Variables (Param Series LossV : Type).
  Variable model : Param -> Z -> Series.
  Variable lossf : list Series -> LossV.
  Variable loss_leb : LossV -> LossV -> bool.
  Variable rounds0 : LossV -> nat -> bool.
  Variable propose : sampler -> list Param -> list LossV -> list Param.
  Variable draws : nat -> Z.
  Variable agent_actions : nat -> nat.
  Variable plan : fault.
  Hypothesis propose_len : forall s ps ls, length (propose s ps ls) = s_bsize s.

  Notation core := (core Param Series LossV).
  Notation cstate := (cstate Param Series LossV).
  Notation one_batch := (one_batch Param Series LossV model lossf loss_leb rounds0 propose draws agent_actions plan).
  Notation batches := (batches Param Series LossV model lossf loss_leb rounds0 propose draws agent_actions plan).
  Notation calibrate := (calibrate Param Series LossV model lossf loss_leb rounds0 propose draws agent_actions plan).
  Notation calibrate_pos := (calibrate_pos Param Series LossV model lossf loss_leb rounds0 propose draws agent_actions plan).
  Notation step := (step Param Series LossV model lossf loss_leb rounds0 propose draws agent_actions plan).
  Notation run := (Calibrator.run Param Series LossV model lossf loss_leb rounds0 propose draws agent_actions plan).
  Notation InvS := (InvS Param Series LossV model lossf draws).
  Notation Inv := (Inv Param Series LossV model lossf draws).
  Notation extends := (extends Param Series LossV).
  Notation records := (records Param Series LossV).

  (* the core last written to the folder is extended by the live records: the rows on disk are a prefix *)
  Definition DiskExt (s : cstate) : Prop := forall d, disk _ _ _ s = Some d -> extends d (live _ _ _ s).

  Lemma diskext_same s s2 : DiskExt s -> disk _ _ _ s2 = disk _ _ _ s -> records (live _ _ _ s) = records (live _ _ _ s2) -> DiskExt s2.
  Proof. intros H Hd Hr d Hd2. rewrite Hd in Hd2. eapply extends_trans; [apply H; exact Hd2 | now apply records_extends]. Qed.
  Lemma diskext_fresh (c : core) : DiskExt (mkSt _ _ _ c (Some c)).
  Proof. intros d Hd. injection Hd as <-. apply extends_refl. Qed.

  Lemma one_batch_diskext E0 s s' o : InvS E0 s -> DiskExt s -> one_batch s = (s', o) -> DiskExt s'.
  Proof.
    intros Hi Hx H. pose proof (one_batch_inv _ _ _ model lossf loss_leb rounds0 propose draws agent_actions plan propose_len _ _ _ _ Hi H) as [_ Hext].
    apply (one_batch_cases _ _ _ model lossf loss_leb rounds0 propose draws agent_actions plan propose_len) in H.
    destruct H as [(e & -> & Hrec & Hdisk & _) | (i & sc1 & m & _ & _ & _ & _ & Hdisk)].
    - eapply diskext_same; eauto.
    - intros d Hd. destruct Hdisk as [Hk|Hk]; rewrite Hk in Hd.
      + eapply extends_trans; [apply Hx; exact Hd | exact Hext].
      + injection Hd as <-. apply extends_refl.
  Qed.

  Lemma batches_diskext E0 : forall n s s' o, InvS E0 s -> DiskExt s -> batches n s = (s', o) -> DiskExt s'.
  Proof.
    induction n as [|n IH]; intros s s' o Hi Hx H; cbn in H.
    - now injection H as <- <-.
    - destruct (one_batch s) as [s1 o1] eqn:E1.
      pose proof (one_batch_diskext _ _ _ _ Hi Hx E1) as Hx1.
      destruct (one_batch_inv _ _ _ model lossf loss_leb rounds0 propose draws agent_actions plan propose_len _ _ _ _ Hi E1) as [Hi1 _].
      destruct o1; try (injection H as <- <-; exact Hx1). eapply IH; eauto.
  Qed.

  Lemma calibrate_pos_diskext E0 n s s' e r : InvS E0 s -> DiskExt s -> calibrate_pos n s = (s', e, r) -> DiskExt s'.
  Proof.
    intros Hi Hx H. destruct Hi as [Hl Hd]. unfold Calibrator.calibrate_pos in H.
    set (c1 := if Nat.eqb _ 0 then _ else _) in H.
    assert (Hc1 : Inv E0 c1) by (unfold c1; destruct (Nat.eqb _ 0); [now apply Inv_seeds | exact Hl]).
    assert (Hr1 : records (live _ _ _ s) = records c1) by (unfold c1; destruct (Nat.eqb _ 0); reflexivity).
    destruct (start_session _ _) as [sc|e0] eqn:Hss.
    { destruct (batches n _) as [s1 o1] eqn:Hb.
      assert (Hi0 : InvS E0 (mkSt _ _ _ (set_sch _ _ _ c1 sc) (disk _ _ _ s))) by (split; [now apply Inv_set_sch | exact Hd]).
      assert (Hx0 : DiskExt (mkSt _ _ _ (set_sch _ _ _ c1 sc) (disk _ _ _ s))) by (eapply diskext_same; eauto).
      pose proof (batches_diskext _ _ _ _ _ Hi0 Hx0 Hb) as Hx1.
      assert (Hraise : forall e0,
                match end_session _ (sch _ _ _ (live _ _ _ s1)) with
                | inr e' => (s1, Some e', [])
                | inl sc' => (mkSt _ _ _ (set_sch _ _ _ (live _ _ _ s1) sc') (disk _ _ _ s1), Some e0, [])
                end = (s', e, r) -> DiskExt s').
      { intros e1 H0. destruct (end_session _ _) as [sc'|e2]; injection H0 as <- <- <-; [|exact Hx1].
        eapply diskext_same; eauto. }
      destruct o1; [| |eapply Hraise; eauto].
      all: cbv zeta in H; destruct (end_session _ _) as [sc'|e2]; injection H as <- <- <-; [eapply diskext_same; eauto | exact Hx1]. }
    injection H as <- <- <-. eapply diskext_same; eauto.
  Qed.

  Lemma calibrate_diskext E0 n s s' e r : InvS E0 s -> DiskExt s -> calibrate n s = (s', e, r) -> DiskExt s'.
  Proof. intros Hi Hx H. rewrite (calibrate_unfold Param Series LossV) in H. destruct n; [|eapply calibrate_pos_diskext; eauto].
    destruct (calibrate_pos 0 s) as [[s1 e1] r1] eqn:E. pose proof (calibrate_pos_diskext _ _ _ _ _ _ Hi Hx E) as Hx1.
    apply (zero_ckpt_cases Param Series LossV) in H. destruct H as [(-> & _ & _) | [(_ & Hlive & Hdisk & _) | (_ & -> & _)]]; auto.
    intros d Hd'. rewrite Hdisk in Hd'. injection Hd' as <-. rewrite Hlive. apply records_extends. reflexivity. Qed.

  Lemma step_diskext E0 s o s' e r : InvS E0 s -> DiskExt s -> step s o = (s', e, r) -> DiskExt s'.
  Proof.
    intros Hi Hx H. destruct o; cbn in H.
    - eapply calibrate_diskext; eauto.
    - unfold create_checkpoint in H. destruct (Calibrator.save _ _ _ _) eqn:Hs; injection H as <- <- <-; [|exact Hx].
      unfold Calibrator.save in Hs. destruct (sch _ _ _ _); [|discriminate]. injection Hs as <-. apply diskext_fresh.
    - unfold Calibrator.restore in H. destruct (disk _ _ _ s) as [d|] eqn:Hdk; injection H as <- <- <-; [|exact Hx].
      intros d' Hd'. cbn in Hd'. injection Hd' as <-. apply records_extends. reflexivity.
    - unfold set_samplers in H. destruct (tupdate _ _); injection H as <- <- <-; eapply diskext_same; eauto.
    - unfold set_scheduler in H. destruct (tupdate _ _); injection H as <- <- <-; eapply diskext_same; eauto.
  Qed.

  (* same_run_prefix: along ANY run of the model (restore operations included) the five record lists last written to
     the folder are prefixes of the live ones *)
  Theorem same_run_prefix cfg0 samplers scheduler s0 ops :
    Calibrator.construct Param Series LossV cfg0 samplers scheduler = inl s0 ->
    forall d, disk _ _ _ (run ops s0) = Some d -> extends d (live _ _ _ (run ops s0)).
  Proof.
    intros Hc.
    assert (H : InvS (c_E cfg0) (run ops s0) /\ DiskExt (run ops s0)).
    { assert (H0 : InvS (c_E cfg0) s0 /\ DiskExt s0).
      { split; [eapply construct_inv; eauto|]. unfold Calibrator.construct in Hc.
        destruct (ctor_validation_raises _ _); [discriminate|].
        destruct (match samplers with Some l => _ | None => scheduler end); [|discriminate].
        injection Hc as <-. intros d Hd. discriminate. }
      clear Hc. revert s0 H0. induction ops as [|o ops IH]; intros s0 [Hi Hx]; cbn; [auto|].
      apply IH. destruct (step s0 o) as [[s1 e1] r1] eqn:E. cbn. split.
      - eapply step_inv; eauto.
      - eapply step_diskext; eauto. }
    exact (proj2 H).
  Qed.

  (* ---------------------------------------------------------------- the calibrate() clause *)
  Lemma save_some c d : Calibrator.save Param Series LossV c = Some d -> d = c /\ exists l b, sch _ _ _ c = RR _ l b.
  Proof. unfold Calibrator.save. destruct (sch _ _ _ c) eqn:E; [|discriminate]. intros H. injection H as <-. eauto. Qed.

  Lemma one_batch_saved s s' o : one_batch s = (s', o) -> (o = Done \/ o = Converged) ->
    c_saving (cfg _ _ _ (live _ _ _ s)) = true ->
    disk _ _ _ s' = Some (live _ _ _ s') /\ cfg _ _ _ (live _ _ _ s') = cfg _ _ _ (live _ _ _ s) /\
    exists l b, sch _ _ _ (live _ _ _ s') = RR _ l b.
  Proof.
    unfold Calibrator.one_batch. intros H Ho Hsav.
    destruct (next_sampler LossV agent_actions (sch _ _ _ (live _ _ _ s))) as [[i sc1]|].
    2:{ injection H as <- <-. destruct Ho; discriminate. }
    destruct (nth_error (sched_samplers LossV sc1) i) as [m|].
    2:{ injection H as <- <-. destruct Ho; discriminate. }
    destruct (sampler_faults plan m).
    { injection H as <- <-. destruct Ho; discriminate. }
    destruct (simulate _ _ _ _ _ _ _ _ _) as [rows|k].
    2:{ injection H as <- <-. destruct Ho; discriminate. }
    destruct (eval_losses _ _ _ _ rows _) as [nl|k].
    2:{ injection H as <- <-. destruct Ho; discriminate. }
    destruct (tlookup _ _) as [mid|].
    2:{ injection H as <- <-. destruct Ho; discriminate. }
    set (c' := mkCore _ _ _ _ _ _ _ _ _ _ _ _ _ _ _ _) in H.
    destruct (match c_prec (cfg _ _ _ (live _ _ _ s)) with None => Some false | Some p => _ end) as [cv|].
    2:{ injection H as <- <-. destruct Ho; discriminate. }
    rewrite Hsav in H. destruct (Calibrator.save _ _ _ c') as [d|] eqn:Hs.
    2:{ injection H as <- <-. destruct Ho; discriminate. }
    apply save_some in Hs as [-> Hrr]. injection H as <- <-. cbn [live disk]. repeat split; auto.
  Qed.

  Lemma batches_saved : forall n s s' o, batches (S n) s = (s', o) -> (o = Done \/ o = Converged) ->
    c_saving (cfg _ _ _ (live _ _ _ s)) = true ->
    disk _ _ _ s' = Some (live _ _ _ s') /\ cfg _ _ _ (live _ _ _ s') = cfg _ _ _ (live _ _ _ s) /\
    exists l b, sch _ _ _ (live _ _ _ s') = RR _ l b.
  Proof.
    induction n as [|n IH]; intros s s' o H Ho Hsav; cbn in H; destruct (one_batch s) as [s1 o1] eqn:E1.
    - destruct o1; injection H as <- <-; eapply one_batch_saved; eauto.
    - destruct o1.
      + destruct (one_batch_saved _ _ _ E1 (or_introl eq_refl) Hsav) as (_ & Hc & _).
        change (batches (S n) s1 = (s', o)) in H. rewrite <- Hc in Hsav. destruct (IH _ _ _ H Ho Hsav) as (A & B & C).
        repeat split; auto. congruence.
      + injection H as <- <-. eapply one_batch_saved; eauto.
      + injection H as <- <-. destruct Ho; discriminate.
  Qed.

  Lemma set_sch_id (c : core) : set_sch _ _ _ c (sch _ _ _ c) = c.
  Proof. destruct c; reflexivity. Qed.

  (* whenever calibrate(n), n >= 1, returns (no exception) with a saving folder set, the folder holds the state it
     returned with - early stop included (repair 55d2acb) *)
  Theorem calibrate_leaves_current_checkpoint n s s' ret :
    c_saving (cfg _ _ _ (live _ _ _ s)) = true -> calibrate (S n) s = (s', None, ret) -> disk _ _ _ s' = Some (live _ _ _ s').
  Proof.
    intros Hsav H. change (calibrate (S n) s) with (calibrate_pos (S n) s) in H. unfold Calibrator.calibrate_pos in H.
    set (c1 := if Nat.eqb _ 0 then _ else _) in H.
    assert (Hcfg1 : cfg _ _ _ c1 = cfg _ _ _ (live _ _ _ s)) by (unfold c1; destruct (Nat.eqb _ 0); reflexivity).
    destruct (start_session _ _) as [sc|e0]; [|discriminate].
    destruct (batches (S n) _) as [s1 o1] eqn:Hb.
    assert (Hsav0 : c_saving (cfg _ _ _ (live _ _ _ (mkSt _ _ _ (set_sch _ _ _ c1 sc) (disk _ _ _ s)))) = true)
      by (cbn; now rewrite Hcfg1).
    assert (Hfin : disk _ _ _ s1 = Some (live _ _ _ s1) -> (exists l b, sch _ _ _ (live _ _ _ s1) = RR _ l b) ->
              match end_session _ (sch _ _ _ (live _ _ _ s1)) with
              | inr e => (s1, Some e, [])
              | inl sc' => (mkSt _ _ _ (set_sch _ _ _ (live _ _ _ s1) sc') (disk _ _ _ s1), None,
                            sort_pairs _ _ loss_leb (combine (params _ _ _ (set_sch _ _ _ (live _ _ _ s1) sc'))
                                                             (losses _ _ _ (set_sch _ _ _ (live _ _ _ s1) sc'))))
              end = (s', None, ret) -> disk _ _ _ s' = Some (live _ _ _ s')).
    { intros Hd (l & b & Hrr) H0. rewrite Hrr in H0. cbn [end_session] in H0. injection H0 as <- _. cbn [live disk].
      rewrite <- Hrr, set_sch_id. exact Hd. }
    destruct o1.
    - cbv zeta in H. destruct (batches_saved _ _ _ _ Hb (or_introl eq_refl) Hsav0) as (A & _ & C). eapply Hfin; eauto.
    - cbv zeta in H. destruct (batches_saved _ _ _ _ Hb (or_intror eq_refl) Hsav0) as (A & _ & C). eapply Hfin; eauto.
    - destruct (end_session _ _); discriminate.
  Qed.
End RunP.

(* ====================================================================== the two models together *)
(* A run of the shared calibrator model whose checkpoints are written, by the writer of the PINNED tree, into one
   folder: the folder content of the previous checkpoint (series of the core recorded in `disk`) is a same-run
   folder for the live state, hence the next checkpoint restores exactly.  C02's append-only theorem at work. *)
Section LinkP.
  Variable F : Type.
  Variables Str Gen : Type.
  Variable str_eqb : Str -> Str -> bool.
  Variables JsonT PLoss CsvT : Type.
  Variable Dg : Type.
  Variable Dg_eqb : Dg -> Dg -> bool.
  Variable dg_s : option (sched F) -> Dg.
  Variable dg_l : option PLoss -> Dg.
  Variable dg_c : CsvT -> Dg.
  Variable dg_h : h5file F -> Dg.
  Variable jenc : jparams F Str Gen Dg -> JsonT.
  Variable jdec : JsonT -> option (jparams F Str Gen Dg).
  Variable pick_l : unit -> option PLoss.
  Variable unpick_l : PLoss -> option unit.
  Variable csv_print : csvtable F -> CsvT.
  Variable csv_parse : CsvT -> option (csvtable F).
  Variable fresh_gen : option Z -> Gen.
  Variable table_of : sched F -> list (Str * nat).
  Variable gen_at : nat -> Gen.
  Variable cls_name : nat -> Str.
  Variable model : list F -> Z -> list F.
  Variable lossf : list (list F) -> F.
  Variable loss_leb : F -> F -> bool.
  Variable rounds0 : F -> nat -> bool.
  Variable propose : sampler -> list (list F) -> list F -> list (list F).
  Variable draws : nat -> Z.
  Variable agent_actions : nat -> nat.
  Variable plan : fault.
  Hypothesis propose_len : forall s ps ls, length (propose s ps ls) = s_bsize s.
  Hypothesis Hjson : json_rt F Str Gen JsonT Dg jenc jdec.
  Hypothesis HDg : Dg_eqb_refl Dg Dg_eqb.
  Hypothesis Hpl : pickle_l_rt unit PLoss pick_l unpick_l.
  Hypothesis Hstr : str_eqb_refl Str str_eqb.
  Hypothesis Hcsv : csv_exact F CsvT csv_print csv_parse.

  Notation of_core := (of_core F Str Gen gen_at cls_name).
  Notation run := (Calibrator.run (list F) (list F) F model lossf loss_leb rounds0 propose draws agent_actions plan).

  Lemma of_core_series_prefix tpl d c : extends (list F) (list F) F d c ->
    exists rest, s_series _ _ _ _ _ (of_core tpl c) = s_series _ _ _ _ _ (of_core tpl d) ++ rest.
  Proof. intros (a & b & dd & e & f & _ & _ & H3 & _). cbn. rewrite H3, map_app. eauto. Qed.

  Theorem model_run_same_folder_exact tpl cfg0 samplers scheduler s0 ops d f :
    Calibrator.construct (list F) (list F) F cfg0 samplers scheduler = inl s0 ->
    disk _ _ _ (run ops s0) = Some d ->
    f_h5 F JsonT (sched F) PLoss CsvT f = Some (mkH5 F (s_sshape _ _ _ _ _ tpl) (s_series _ _ _ _ _ (of_core tpl d))) ->
    let s := of_core tpl (live _ _ _ (run ops s0)) in
    wf F Str Gen (sched F) unit s -> pick_sched F (s_sched _ _ _ _ _ s) <> None -> pick_l tt <> None ->
    exists f', save_legacy F Str Gen (sched F) unit JsonT (sched F) PLoss CsvT Dg dg_s dg_l dg_c dg_h jenc (pick_sched F) pick_l csv_print f s = SOk _ _ _ _ _ f' /\
               restore F Str Gen (sched F) unit str_eqb JsonT (sched F) PLoss CsvT Dg Dg_eqb dg_s dg_l dg_c dg_h jdec (fun b => Some b) unpick_l csv_parse
                       fresh_gen table_of f' (s_model _ _ _ _ _ s) = Ok s.
  Proof.
    intros Hc Hd Hf s Hwf Hp1 Hp2.
    pose proof (same_run_prefix _ _ _ model lossf loss_leb rounds0 propose draws agent_actions plan propose_len
                  cfg0 samplers scheduler s0 ops Hc d Hd) as Hext.
    destruct (of_core_series_prefix tpl _ _ Hext) as (rest & Hrest).
    eapply legacy_restore_save_fresh_or_same_run; eauto.
    - intros x b Hx. unfold pick_sched in Hx. destruct x; [|discriminate]. now injection Hx as <-.
    - split; [exact Hp1 | destruct (s_loss _ _ _ _ _ s); exact Hp2].
    - right. eexists _, rest. split; [exact Hf|]. cbn. split; [reflexivity | exact Hrest].
  Qed.
End LinkP.

(* ====================================================================== concrete witnesses (token instantiation) *)
From BlackIt Require Import Model.CkptTokens.

(* a calibrator with one parameter (precision 5), ensemble 1, N = 2, D = 1; floats are written as small integers *)
Definition ex_state (seed : Z) (gen : list Z) (sched : TObj) (batch : nat)
           (params : list (list Z)) (losses : list Z) (series : list (list Z)) (bnums methods : list Z) : tstate :=
  tS [[0%Z]; [10%Z]] [5%Z] [[0%Z]; [0%Z]] 1 2 1 None true (Some 1) (Some seed) gen 3 sched (22%Z, true)
     batch (length params) 1 1 params losses (1, 2, 1) series bnums methods [(4, 0)] live_dts.
Definition ex_A : tstate :=       (* run A: two batches, three rows *)
  ex_state 7 [11; 12]%Z (21%Z, true) 2 [[100]; [101]; [102]]%Z [200; 201; 202]%Z [[1; 2]; [3; 4]; [5; 6]]%Z [0; 0; 1]%Z [0; 0; 0]%Z.
Definition ex_A1 : tstate :=      (* run A after its first batch: an earlier checkpoint of the same run *)
  ex_state 7 [11; 10]%Z (20%Z, true) 1 [[100]; [101]]%Z [200; 201]%Z [[1; 2]; [3; 4]]%Z [0; 0]%Z [0; 0]%Z.
Definition ex_B : tstate :=       (* a different run: one row *)
  ex_state 8 [13; 14]%Z (23%Z, true) 1 [[110]]%Z [210]%Z [[7; 8]]%Z [0]%Z [0]%Z.
Definition ex_RL : tstate :=      (* an RL scheduler: pickle.dump raises *)
  ex_state 8 [13; 14]%Z (24%Z, false) 1 [[110]]%Z [210]%Z [[7; 8]]%Z [0]%Z [0]%Z.

Lemma ex_wf : wf _ _ _ _ _ ex_A /\ wf _ _ _ _ _ ex_A1 /\ wf _ _ _ _ _ ex_B.
Proof. repeat split; cbn; try reflexivity; try discriminate; repeat constructor. Qed.

(* the writer of the pinned tree: starting a new run (B) in the folder of run A restores A's series (nothing is removed);
   starting run A in the folder of run B keeps B's first row *)
Lemma legacy_other_run_refuted :
  exists (f : tfolder) (s s' : tstate) (f' : tfolder),
    wf _ _ _ _ _ s /\ T_save_legacy f s = SOk _ _ _ _ _ f' /\ T_restore f' (s_model _ _ _ _ _ s) = Ok s' /\
    s_series _ _ _ _ _ s' <> s_series _ _ _ _ _ s /\ s_losses _ _ _ _ _ s' = s_losses _ _ _ _ _ s.
Proof.
  exists (folder_of _ _ _ _ _ (T_save_legacy T_empty ex_A)), ex_B. eexists. eexists.
  split; [apply ex_wf|]. split; [vm_compute; reflexivity|]. split; [vm_compute; reflexivity|]. split; [vm_compute; discriminate | reflexivity].
Qed.

(* calibrate(0) too leaves the folder holding the state it returns with (repair 32f0e7b; before it, calibrate(0) on a
   fresh calibrator reseeded the samplers and left the folder untouched) *)
Lemma calibrate_zero_leaves_current_checkpoint :
  forall Param Series LossV model lossf loss_leb rounds0 propose draws agent_actions plan (s s' : cstate Param Series LossV) ret,
    calibrate Param Series LossV model lossf loss_leb rounds0 propose draws agent_actions plan 0 s = (s', None, ret) ->
    c_saving (cfg _ _ _ (live _ _ _ s')) = true -> disk _ _ _ s' = Some (live _ _ _ s').
Proof.
  intros until ret. unfold calibrate. destruct (calibrate_pos _ _ _ _ _ _ _ _ _ _ _ 0 s) as [[s0 e0] r0].
  unfold zero_ckpt. destruct e0 as [x|]; [intros H; inversion H|].
  destruct (c_saving (cfg _ _ _ (live _ _ _ s0))) eqn:Hs.
  - destruct (Calibrator.save _ _ _ (live _ _ _ s0)) as [d|] eqn:Hsave; intros H Hsv; inversion H; subst; clear H.
    cbn. f_equal. unfold Calibrator.save in Hsave. destruct (sch _ _ _ (live _ _ _ s0)); congruence.
  - intros H Hsv. inversion H; subst. congruence.
Qed.

Example calibrate_zero_example :
  exists s' ret, calibrate nat nat nat (fun p _ => p) (fun _ => 0) Nat.leb (fun _ _ => false) (fun _ _ _ => [0]) (fun _ => 7%Z) (fun _ => 0) NoFault 0
      (mkSt nat nat nat (mkCore nat nat nat (mkCfg 1 None false true) [] [] [] [] [] 0 0 (RR nat [mkS 0 0 1 0 None] 0) 0 [(0, 0)] 0 0) None)
      = (s', None, ret) /\ disk _ _ _ s' = Some (live _ _ _ s') /\ rng_pos _ _ _ (live _ _ _ s') = 1.
Proof. eexists. eexists. vm_compute. auto. Qed.

