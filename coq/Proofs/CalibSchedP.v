(* Scheduling (C09), early stopping (C14), faults (C11), splitting/resuming (C05) and non-interference (C01)
   on the shared calibrator model. *)
From Coq Require Import List ZArith Bool Arith Lia Permutation Sorted.
From BlackIt Require Import Model.Calibrator Proofs.CalibratorP.
Import ListNotations.

Definition skey (s : sampler) : nat * nat * nat := (s_class s, s_uid s, s_bsize s).

(* same object (uid) => same state: the line-up may contain one object several times *)
Definition uid_consistent (l : list sampler) : Prop :=
  forall a b, In a l -> In b l -> s_uid a = s_uid b -> a = b.

Lemma replace_uid_keys m l : In m l -> uid_consistent l -> map skey (replace_uid (called m) l) = map skey l.
Proof. intros Hm Hc. unfold replace_uid. rewrite map_map. apply map_ext_in. intros a Ha.
  destruct (Nat.eqb_spec (s_uid a) (s_uid (called m))) as [E|E]; [|reflexivity].
  cbn in E. rewrite (Hc a m Ha Hm E). reflexivity. Qed.

Lemma replace_uid_consistent m l : In m l -> uid_consistent l -> uid_consistent (replace_uid (called m) l).
Proof. intros Hm Hc a b Ha Hb Hu. unfold replace_uid in *. apply in_map_iff in Ha, Hb.
  destruct Ha as [a0 [<- Ha]], Hb as [b0 [<- Hb]].
  destruct (Nat.eqb_spec (s_uid a0) (s_uid (called m))) as [Ea|Ea], (Nat.eqb_spec (s_uid b0) (s_uid (called m))) as [Eb|Eb]; auto.
  - cbn in *. congruence.
  - cbn in *. congruence. Qed.

Definition kuid (k : nat * nat * nat) : nat := snd (fst k).
Lemma nodup_uid_consistent l : NoDup (map s_uid l) -> uid_consistent l.
Proof. induction l as [|x l IH]; intros Hn a b Ha Hb Hu; [destruct Ha|]. cbn in Hn. inversion Hn as [|? ? Hni Hn']; subst.
  destruct Ha as [->|Ha], Hb as [->|Hb]; auto.
  - exfalso. apply Hni. rewrite Hu. now apply in_map.
  - exfalso. apply Hni. rewrite <- Hu. now apply in_map.
  - now apply IH. Qed.
Lemma keys_uids l : map kuid (map skey l) = map s_uid l.
Proof. rewrite map_map. reflexivity. Qed.

Lemma reseed_from_keys draws l : forall k, map skey (reseed_from draws k l) = map skey l.
Proof. induction l as [|s l IH]; intros k; cbn; [reflexivity|]. now rewrite IH. Qed.

Section S.
  Variables (Param Series LossV : Type).
  Variable model : Param -> Z -> Series.
  Variable lossf : list Series -> LossV.
  Variable loss_leb : LossV -> LossV -> bool.
  Variable rounds0 : LossV -> nat -> bool.
  Variable propose : sampler -> list Param -> list LossV -> list Param.
  Variable draws : nat -> Z.
  Variable agent_actions : nat -> nat.
  Variable plan : fault.

  Notation core := (core Param Series LossV).
  Notation cstate := (cstate Param Series LossV).
  Notation one_batch := (one_batch Param Series LossV model lossf loss_leb rounds0 propose draws agent_actions plan).
  Notation batches := (batches Param Series LossV model lossf loss_leb rounds0 propose draws agent_actions plan).
  Notation calibrate_pos := (calibrate_pos Param Series LossV model lossf loss_leb rounds0 propose draws agent_actions plan).
  Notation step := (step Param Series LossV model lossf loss_leb rounds0 propose draws agent_actions plan).
  Notation run := (run Param Series LossV model lossf loss_leb rounds0 propose draws agent_actions plan).

  (* ================= C09: round-robin ================= *)
  (* the scheduler is a round-robin over the line-up L (keys = class, object, batch size) whose cursor equals the
     global batch counter *)
  Definition RRok (L : list (nat * nat * nat)) (c : core) : Prop :=
    exists l, sch _ _ _ c = RR LossV l (batch_idx _ _ _ c) /\ map skey l = L.
  Definition RRokS L (s : cstate) : Prop := RRok L (live _ _ _ s) /\ forall d, disk _ _ _ s = Some d -> RRok L d.

  Definition plain (o : op) : Prop := match o with OCalibrate _ | OCheckpoint | ORestore => True | _ => False end.

  Lemma rr_next L c i sc1 : RRok L c -> next_sampler LossV agent_actions (sch _ _ _ c) = Some (i, sc1) ->
     i = batch_idx _ _ _ c mod length L /\ sc1 = sch _ _ _ c /\
     forall m, nth_error (sched_samplers _ sc1) i = Some m -> nth_error L i = Some (skey m).
  Proof. intros (l & Hs & HL) H. rewrite Hs in *. cbn in H. destruct l as [|x l]; [discriminate|].
    injection H as <- <-. rewrite <- HL, map_length. repeat split; auto.
    intros m Hm. cbn [sched_samplers] in Hm. now apply map_nth_error. Qed.

  Variable L : list (nat * nat * nat).
  Hypothesis L_nodup : NoDup (map kuid L).       (* every sampler object occurs once in the line-up *)

  Lemma rr_consistent l : map skey l = L -> uid_consistent l.
  Proof. intros HL. apply nodup_uid_consistent. rewrite <- keys_uids, HL. exact L_nodup. Qed.

  Lemma one_batch_rr s s' o : RRokS L s -> one_batch s = (s', o) -> RRokS L s'.
  Proof.
    intros [(l & Hs & HL) Hd] H. unfold Calibrator.one_batch in H. rewrite Hs in H. cbn [next_sampler] in H.
    destruct l as [|x0 l0] eqn:El; [injection H as <- <-; split; [exists []; auto | exact Hd]|].
    rewrite <- El in *. clear El x0 l0.
    cbn [sched_samplers] in H.
    destruct (nth_error l _) as [m|] eqn:Hm.
    2:{ injection H as <- <-. split; [|exact Hd]. exists l; cbn; auto. }
    assert (Hin : In m l) by (eapply nth_error_In; eauto).
    assert (Hk : map skey (replace_uid (called m) l) = L) by (rewrite replace_uid_keys; auto using rr_consistent).
    cbn [with_samplers] in H.
    assert (Hraise : forall c', sch _ _ _ c' = RR LossV (replace_uid (called m) l) (batch_idx _ _ _ c') ->
                      RRokS L (mkSt _ _ _ c' (disk _ _ _ s))).
    { intros c' Hc'. split; [|exact Hd]. eexists; split; eauto. }
    destruct (sampler_faults plan m). { injection H as <- <-. apply Hraise. reflexivity. }
    destruct (simulate _ _ _ _ _ _ _ _ _) as [rows|n]. 2:{ injection H as <- <-. apply Hraise. reflexivity. }
    destruct (eval_losses _ _ _ _ rows _) as [nl|n]. 2:{ injection H as <- <-. apply Hraise. reflexivity. }
    destruct (tlookup _ _) as [mid|]. 2:{ injection H as <- <-. apply Hraise. reflexivity. }
    set (c' := mkCore _ _ _ _ _ _ _ _ _ _ _ _ _ _ _ _) in H.
    assert (Hc' : RRok L c') by (exists (replace_uid (called m) l); split; [reflexivity | exact Hk]).
    repeat bm H; injection H as <- <-; (split; [exact Hc' | ]); cbn; try exact Hd;
      intros d Hd'; injection Hd' as <-;
      match goal with Hsv : save _ _ _ c' = Some _ |- _ => unfold save in Hsv; cbn in Hsv; injection Hsv as <-; exact Hc' end.
  Qed.

  Lemma batches_rr : forall n s s' o, RRokS L s -> batches n s = (s', o) -> RRokS L s'.
  Proof. induction n as [|n IH]; intros s s' o Hi H; cbn in H; [injection H as <- <-; auto|].
    destruct (one_batch s) as [s1 o1] eqn:E1. pose proof (one_batch_rr _ _ _ Hi E1) as Hi1.
    destruct o1; try (injection H as <- <-; auto). eapply IH; eauto. Qed.

  Lemma RRok_seeds c : RRok L c -> RRok L (set_samplers_seeds _ _ _ draws c).
  Proof. intros (l & Hs & HL). unfold set_samplers_seeds. rewrite Hs. cbn.
    exists (reseed_from draws 0 l). split; [reflexivity | now rewrite reseed_from_keys]. Qed.

  Lemma calibrate_pos_rr n s s' e r : RRokS L s -> calibrate_pos n s = (s', e, r) -> RRokS L s'.
  Proof.
    intros [Hl Hd] H. unfold Calibrator.calibrate_pos in H.
    set (c1 := if Nat.eqb _ 0 then _ else _) in H.
    assert (Hc1 : RRok L c1) by (unfold c1; destruct (Nat.eqb _ 0); [now apply RRok_seeds | exact Hl]).
    destruct Hc1 as (l1 & Hs1 & HL1). rewrite Hs1 in H. cbn [start_session] in H.
    destruct (batches n _) as [s1 o1] eqn:Hb.
    assert (Hi0 : RRokS L (mkSt _ _ _ (set_sch _ _ _ c1 (RR LossV l1 (batch_idx _ _ _ c1))) (disk _ _ _ s))).
    { split; [exists l1; cbn; auto | exact Hd]. }
    pose proof (batches_rr _ _ _ _ Hi0 Hb) as [(l2 & Hs2 & HL2) Hd2].
    rewrite Hs2 in H. cbn [end_session] in H.
    destruct o1; injection H as <- <- <-; (split; [exists l2; cbn; auto | exact Hd2]).
  Qed.

  Notation calibrate := (calibrate Param Series LossV model lossf loss_leb rounds0 propose draws agent_actions plan).
  Lemma calibrate_rr n s s' e r : RRokS L s -> calibrate n s = (s', e, r) -> RRokS L s'.
  Proof. intros Hi H. rewrite (calibrate_unfold Param Series LossV) in H. destruct n; [|eapply calibrate_pos_rr; eauto].
    destruct (calibrate_pos 0 s) as [[s1 e1] r1] eqn:E. pose proof (calibrate_pos_rr _ _ _ _ _ Hi E) as [Hl Hd].
    apply (zero_ckpt_cases Param Series LossV) in H. destruct H as [(-> & _ & _) | [(_ & Hlive & Hdisk & _) | (_ & -> & _)]]; [split; auto | | split; auto].
    split; rewrite ?Hlive; auto. intros d Hd'. rewrite Hdisk in Hd'. injection Hd' as <-. exact Hl. Qed.

  Lemma step_rr s o s' e r : RRokS L s -> plain o -> step s o = (s', e, r) -> RRokS L s'.
  Proof.
    intros Hi Hp H. destruct o; cbn in Hp; try contradiction; cbn in H.
    - eapply calibrate_rr; eauto.
    - unfold create_checkpoint in H. destruct Hi as [Hl Hd]. destruct (save _ _ _ _) eqn:Hs; injection H as <- <- <-; [|split; auto].
      split; [exact Hl|]. cbn. intros d Hd'. injection Hd' as <-. unfold save in Hs. destruct (sch _ _ _ _); [|discriminate]. now injection Hs as <-.
    - unfold restore in H. destruct Hi as [Hl Hd]. destruct (disk _ _ _ s) as [d|] eqn:Hdk; injection H as <- <- <-.
      + split; [|cbn; exact Hd]. cbn. destruct (Hd d eq_refl) as (l & Hs & HL). exists l. cbn. auto.
      + split; [exact Hl | now rewrite Hdk].
  Qed.

  Lemma run_rr : forall ops s, RRokS L s -> Forall plain ops -> RRokS L (run ops s).
  Proof. induction ops as [|o ops IH]; intros s Hi Hp; cbn; [exact Hi|]. inversion Hp; subst. apply IH; [|assumption].
    destruct (step s o) as [[s' e] r] eqn:E. cbn. eapply step_rr; eauto. Qed.
End S.

(* batch i of the whole life - across calibrate() calls, checkpoints and restores - is produced by sampler i mod n *)
Theorem round_robin_global :
  forall Param Series LossV model lossf loss_leb rounds0 propose draws agent_actions plan cfg0 l0 s0 ops,
    NoDup (map s_uid l0) ->
    construct Param Series LossV cfg0 (Some l0) None = inl s0 ->
    Forall plain ops ->
    let s := run Param Series LossV model lossf loss_leb rounds0 propose draws agent_actions plan ops s0 in
    forall i sc1, next_sampler LossV agent_actions (sch _ _ _ (live _ _ _ s)) = Some (i, sc1) ->
      i = batch_idx _ _ _ (live _ _ _ s) mod length l0 /\
      forall m, nth_error (sched_samplers _ sc1) i = Some m -> nth_error (map skey l0) i = Some (skey m).
Proof.
  intros Param Series LossV model lossf loss_leb rounds0 propose draws agent_actions plan cfg0 l0 s0 ops Hnd Hc Hp s i sc1 Hn.
  assert (Hi0 : RRokS Param Series LossV (map skey l0) s0).
  { unfold construct in Hc. cbn in Hc. injection Hc as <-. split; [|discriminate]. exists (map unseeded l0). cbn. split; [reflexivity|].
    rewrite map_map. reflexivity. }
  assert (HL : NoDup (map kuid (map skey l0))) by (now rewrite keys_uids).
  pose proof (run_rr Param Series LossV model lossf loss_leb rounds0 propose draws agent_actions plan (map skey l0) HL ops s0 Hi0 Hp) as [Hl _].
  fold s in Hl. destruct (rr_next _ _ _ agent_actions _ _ _ _ Hl Hn) as (Hi & _ & Hm).
  rewrite map_length in Hi. auto.
Qed.

(* RL scheduler, sequential view *)
Theorem rl_first_is_bootstrap LossV agent_actions l h st al cs :
  next_sampler LossV agent_actions (RL LossV l h None st al cs) = Some (h, RL LossV l h None st al cs).
Proof. reflexivity. Qed.
Theorem rl_later_from_agent LossV agent_actions l h b st al cs :
  next_sampler LossV agent_actions (RL LossV l h (Some b) st al cs) =
  Some (agent_actions (fst cs), RL LossV l h (Some b) st al (S (fst cs), snd cs)).
Proof. reflexivity. Qed.

(* constructor validation: exactly one of samplers / scheduler *)
Theorem ctor_rejects_iff Param Series LossV cfg0 (samplers : option (list sampler)) (scheduler : option (sched LossV)) :
  construct Param Series LossV cfg0 samplers scheduler = inr ExValue <->
  ((samplers = None /\ scheduler = None) \/ (samplers <> None /\ scheduler <> None)).
Proof. unfold construct, ctor_validation_raises. destruct samplers as [l|], scheduler as [sc|]; cbn; split; intros H; auto; try discriminate.
  - right; split; discriminate.
  - destruct H as [[H _]|[_ H]]; [discriminate|congruence].
  - destruct H as [[_ H]|[H _]]; [discriminate|congruence].
Qed.
Theorem ctor_accepts Param Series LossV cfg0 (samplers : option (list sampler)) (scheduler : option (sched LossV)) :
  (samplers = None <-> scheduler <> None) -> exists s, construct Param Series LossV cfg0 samplers scheduler = inl s.
Proof. unfold construct, ctor_validation_raises. destruct samplers as [l|], scheduler as [sc|]; cbn; intros [H1 H2].
  - assert (X : Some l = None) by (apply H2; discriminate). discriminate.
  - eexists; reflexivity.
  - eexists; reflexivity.
  - exfalso. now apply H1. Qed.

(* ---- RL bootstrap sampler ---- *)
Lemma last_index_of_spec c l : forall k acc,
  match last_index_of c l k acc with
  | Some i => (exists j s, i = k + j /\ nth_error l j = Some s /\ s_class s = c) \/ (acc = Some i /\ forall s, In s l -> s_class s <> c)
  | None => acc = None /\ forall s, In s l -> s_class s <> c
  end.
Proof. induction l as [|x l IH]; intros k acc; cbn.
  - destruct acc; [right|]; split; auto; intros s [].
  - specialize (IH (S k) (if Nat.eqb (s_class x) c then Some k else acc)).
    destruct (last_index_of c l (S k) _) as [i|].
    + destruct IH as [(j & s & Hi & Hn & Hc) | [Ha Hall]].
      * left. exists (S j), s. repeat split; auto; lia.
      * destruct (Nat.eqb_spec (s_class x) c) as [E|E].
        { injection Ha as <-. left. exists 0, x. repeat split; auto; lia. }
        { right. split; [exact Ha|]. intros s [<-|Hs]; auto. }
    + destruct IH as [Ha Hall]. destruct (Nat.eqb_spec (s_class x) c) as [E|E]; [discriminate|].
      split; [exact Ha|]. intros s [<-|Hs]; auto.
Qed.

(* the first batch is produced by a Halton sampler: the supplied one (last of them) or an added one; the supplied
   samplers are kept, in order, and nothing else is added *)
Theorem rl_bootstrap_spec l fresh : s_class fresh = HALTON ->
  let '(l', h) := rl_bootstrap l fresh in
  (exists s, nth_error l' h = Some s /\ s_class s = HALTON) /\
  ((exists s, In s l /\ s_class s = HALTON) -> l' = l) /\
  ((forall s, In s l -> s_class s <> HALTON) -> l' = l ++ [fresh] /\ h = length l).
Proof. intros Hf. unfold rl_bootstrap. pose proof (last_index_of_spec HALTON l 0 None) as H.
  destruct (last_index_of HALTON l 0 None) as [i|].
  - destruct H as [(j & s & Hi & Hn & Hc) | [Ha _]]; [|discriminate]. cbn in Hi. subst i.
    split; [exists s; auto|]. split; [auto|]. intros Hall. exfalso. apply (Hall s); [eapply nth_error_In; eauto | exact Hc].
  - destruct H as [_ Hall]. split; [exists fresh; split; [|exact Hf]; rewrite nth_error_app2, Nat.sub_diag by lia; reflexivity|].
    split; [intros (s & Hs & Hc); exfalso; eapply Hall; eauto | auto].
Qed.

(* after the session ends nothing is pending: every action the agent put has been consumed or discarded *)
Theorem rl_session_end_nothing_pending LossV l h b st al cs sc' :
  end_session LossV (RL LossV l h b st al cs) = inl sc' ->
  exists q, sc' = RL LossV l h b true false (q, q).
Proof. cbn. destruct st; [discriminate|]. intros H. injection H as <-. eexists; reflexivity. Qed.
