From Coq Require Import List ZArith QArith Qabs Qfield Bool Arith Lia.
From BlackIt Require Import Model.Bandit.
Import ListNotations.
Open Scope Q_scope.

(* ------------------------------------------------------------------ list update *)
Lemma upd_length {A} (f : A -> A) l : forall i, length (upd i f l) = length l.
Proof. induction l as [|x r IH]; intros [|i]; cbn; auto. Qed.

Lemma upd_nth_same {A} (f : A -> A) d l : forall i, (i < length l)%nat -> nth i (upd i f l) d = f (nth i l d).
Proof. induction l as [|x r IH]; intros [|i] H; cbn in *; try lia; auto. apply IH. lia. Qed.

Lemma upd_nth_error_other {A} (f : A -> A) l : forall i j, i <> j -> nth_error (upd i f l) j = nth_error l j.
Proof. induction l as [|x r IH]; intros [|i] [|j] H; cbn; auto; try congruence. Qed.

Lemma upd_nth_other {A} (f : A -> A) d l : forall i j, i <> j -> nth j (upd i f l) d = nth j l d.
Proof. induction l as [|x r IH]; intros [|i] [|j] H; cbn; auto; try congruence. Qed.

Lemma upd_out_of_range {A} (f : A -> A) l : forall i, (length l <= i)%nat -> upd i f l = l.
Proof. induction l as [|x r IH]; intros [|i] H; cbn in *; auto; try lia. f_equal. apply IH. lia. Qed.

(* ------------------------------------------------------------------ numbers *)
Lemma Qltb_lt x y : Qltb x y = true <-> x < y.
Proof. unfold Qltb. rewrite negb_true_iff. split; intros H.
  - apply Qnot_le_lt. intros L. apply Qle_bool_iff in L. congruence.
  - destruct (Qle_bool y x) eqn:E; auto. apply Qle_bool_iff in E. exfalso. eapply Qlt_not_le; eauto. Qed.
Lemma Qltb_ge x y : Qltb x y = false <-> y <= x.
Proof. unfold Qltb. rewrite negb_false_iff. apply Qle_bool_iff. Qed.

Lemma qn_S n : qn (S n) == qn n + 1.
Proof. unfold qn. rewrite Nat2Z.inj_succ. unfold Z.succ. rewrite inject_Z_plus. reflexivity. Qed.
Lemma qn_add n m : qn (n + m) == qn n + qn m.
Proof. unfold qn. rewrite Nat2Z.inj_add. rewrite inject_Z_plus. reflexivity. Qed.
Lemma qn_nonneg n : 0 <= qn n.
Proof. unfold qn. change 0 with (inject_Z 0). rewrite <- Zle_Qle. lia. Qed.
Lemma qn_pos n : (0 < n)%nat -> 0 < qn n.
Proof. intros H. unfold qn. change 0 with (inject_Z 0). rewrite <- Zlt_Qlt. lia. Qed.
Lemma qn_S_nz n : ~ qn (S n) == 0.
Proof. intros H. pose proof (qn_pos (S n) ltac:(lia)) as P. rewrite H in P. discriminate. Qed.

Fixpoint qsum (l : list Q) : Q := match l with [] => 0 | x :: t => x + qsum t end.
Fixpoint qpow (x : Q) (n : nat) : Q := match n with O => 1 | S k => x * qpow x k end.
(* sum_{i=1..k} alpha (1-alpha)^(k-i) r_i   for rs = [r_1; ...; r_k] *)
Fixpoint wsum (alpha : Q) (rs : list Q) : Q :=
  match rs with [] => 0 | r :: t => alpha * qpow (1 - alpha) (length t) * r + wsum alpha t end.

Global Instance qpow_comp : Proper (Qeq ==> eq ==> Qeq) qpow.
Proof. intros x y E n m <-. induction n; cbn; [reflexivity|]. rewrite IHn, E. reflexivity. Qed.

(* ------------------------------------------------------------------ well-formed agents *)
Definition wf (s : agent) : Prop := length (qs s) = n_act s /\ length (cnts s) = n_act s.

Lemma wf_init n v : wf (init_agent n v).
Proof. split; cbn; apply repeat_length. Qed.
Lemma wf_reset s : wf (reset s).
Proof. split; cbn; apply repeat_length. Qed.
Lemma wf_learn alpha s a r : wf s -> wf (learn alpha s a r).
Proof. intros [H1 H2]. split; cbn; rewrite upd_length; assumption. Qed.
Lemma learn_lengths alpha s a r :
  length (qs (learn alpha s a r)) = length (qs s) /\ length (cnts (learn alpha s a r)) = length (cnts s) /\
  n_act (learn alpha s a r) = n_act s.
Proof. cbn. rewrite !upd_length. auto. Qed.

Lemma run_learn_cons alpha s a r tr : run_learn alpha s ((a, r) :: tr) = run_learn alpha (learn alpha s a r) tr.
Proof. reflexivity. Qed.
Lemma wf_run_learn alpha tr : forall s, wf s -> wf (run_learn alpha s tr).
Proof. induction tr as [|[a r] t IH]; intros s H; [exact H|]. rewrite run_learn_cons. apply IH, wf_learn, H. Qed.
Lemma run_learn_lengths alpha tr : forall s,
  length (qs (run_learn alpha s tr)) = length (qs s) /\ length (cnts (run_learn alpha s tr)) = length (cnts s).
Proof. induction tr as [|[a r] t IH]; intros s; [auto|]. rewrite run_learn_cons.
  destruct (IH (learn alpha s a r)) as [H1 H2]. destruct (learn_lengths alpha s a r) as [L1 [L2 _]]. split; congruence. Qed.

(* in-range learn_res is learn; out of range it raises and leaves everything as it was *)
Lemma learn_res_in_range alpha s a r : wf s -> (a < n_act s)%nat -> learn_res alpha s a r = (Ok tt, learn alpha s a r).
Proof. intros [H1 H2] H. unfold learn_res. rewrite H1, H2.
  assert (E : (a <? n_act s)%nat = true) by now apply Nat.ltb_lt. rewrite E. reflexivity. Qed.
Lemma learn_res_out_of_range alpha s a r : wf s -> (n_act s <= a)%nat -> learn_res alpha s a r = (Raise IndexError, s).
Proof. intros [H1 H2] H. unfold learn_res. rewrite H2.
  assert (E : (a <? n_act s)%nat = false) by now apply Nat.ltb_ge. rewrite E. reflexivity. Qed.

(* ------------------------------------------------------------------ one learn *)
Lemma learn_touches_only_action alpha s a r b : b <> a ->
  nth_error (qs (learn alpha s a r)) b = nth_error (qs s) b /\
  nth_error (cnts (learn alpha s a r)) b = nth_error (cnts s) b.
Proof. intros H. cbn. split; apply upd_nth_error_other; congruence. Qed.

Lemma learn_other_nth alpha s a r b : b <> a ->
  nth b (qs (learn alpha s a r)) 0 = nth b (qs s) 0 /\ nth b (cnts (learn alpha s a r)) 0%nat = nth b (cnts s) 0%nat.
Proof. intros H. cbn. split; apply upd_nth_other; congruence. Qed.

(* the step used by a learn that finds count c: 1/(c+1) in the sample-average setting, alpha otherwise *)
Definition step_of (alpha : Q) (c : nat) : Q := if Qeq_bool alpha (-1 # 1) then 1 / qn (S c) else alpha.

Lemma learn_rule alpha s a r : (a < length (qs s))%nat -> (a < length (cnts s))%nat ->
  nth a (cnts (learn alpha s a r)) 0%nat = S (nth a (cnts s) 0%nat) /\
  nth a (qs (learn alpha s a r)) 0 == nth a (qs s) 0 + step_of alpha (nth a (cnts s) 0%nat) * (r - nth a (qs s) 0).
Proof. intros H1 H2. cbn [learn qs cnts]. split.
  - now apply upd_nth_same.
  - rewrite upd_nth_same by assumption. cbv beta. rewrite Qred_correct. unfold step_size, step_of.
    rewrite upd_nth_same by assumption. reflexivity. Qed.

Lemma step_of_sample_average alpha c : alpha == -1 # 1 -> step_of alpha c == 1 / qn (S c).
Proof. intros H. unfold step_of. apply Qeq_bool_iff in H. rewrite H. reflexivity. Qed.
Lemma step_of_constant alpha c : ~ alpha == -1 # 1 -> step_of alpha c = alpha.
Proof. intros H. unfold step_of. destruct (Qeq_bool alpha (-1 # 1)) eqn:E; [|reflexivity].
  apply Qeq_bool_iff in E. contradiction. Qed.

(* ------------------------------------------------------------------ sequences of learns *)
Lemma rewards_of_cons_same a r tr : rewards_of a ((a, r) :: tr) = r :: rewards_of a tr.
Proof. unfold rewards_of. cbn. rewrite Nat.eqb_refl. reflexivity. Qed.
Lemma rewards_of_cons_other a b r tr : b <> a -> rewards_of a ((b, r) :: tr) = rewards_of a tr.
Proof. intros H. unfold rewards_of. cbn. destruct (Nat.eqb_spec b a); [contradiction|reflexivity]. Qed.

Lemma count_is_visits alpha a tr : forall s, (a < length (cnts s))%nat ->
  nth a (cnts (run_learn alpha s tr)) 0%nat = (nth a (cnts s) 0%nat + length (rewards_of a tr))%nat.
Proof. induction tr as [|[b r] t IH]; intros s H; [cbn; lia|]. rewrite run_learn_cons.
  destruct (learn_lengths alpha s b r) as [_ [L2 _]].
  rewrite IH by (rewrite L2; exact H). destruct (Nat.eq_dec b a) as [->|N].
  - rewrite rewards_of_cons_same. cbn [length]. cbn [learn cnts]. rewrite upd_nth_same by assumption. lia.
  - rewrite rewards_of_cons_other by assumption. destruct (learn_other_nth alpha s b r a) as [_ E]; [congruence|].
    rewrite E. reflexivity. Qed.

(* untouched actions keep their estimate through any sequence *)
Lemma unvisited_unchanged alpha a tr : forall s, rewards_of a tr = [] ->
  nth a (qs (run_learn alpha s tr)) 0 = nth a (qs s) 0.
Proof. induction tr as [|[b r] t IH]; intros s H; [reflexivity|]. rewrite run_learn_cons.
  destruct (Nat.eq_dec b a) as [->|N].
  - rewrite rewards_of_cons_same in H. discriminate.
  - rewrite rewards_of_cons_other in H by assumption. rewrite IH by assumption.
    destruct (learn_other_nth alpha s b r a) as [E _]; [congruence|]. exact E. Qed.

(* sample average, multiplied out (no division): (c0 + k) * Q_final == c0 * Q_0 + sum of the k rewards *)
Lemma sample_average_general alpha a tr : alpha == -1 # 1 -> forall s,
  (a < length (qs s))%nat -> (a < length (cnts s))%nat ->
  qn (nth a (cnts s) 0%nat + length (rewards_of a tr)) * nth a (qs (run_learn alpha s tr)) 0
  == qn (nth a (cnts s) 0%nat) * nth a (qs s) 0 + qsum (rewards_of a tr).
Proof. intros HA. induction tr as [|[b r] t IH]; intros s H1 H2.
  - cbn [rewards_of filter map length qsum run_learn fold_left]. rewrite Nat.add_0_r. ring.
  - rewrite run_learn_cons. destruct (learn_lengths alpha s b r) as [L1 [L2 _]].
    specialize (IH (learn alpha s b r)). rewrite L1, L2 in IH. specialize (IH H1 H2).
    destruct (Nat.eq_dec b a) as [->|N].
    + rewrite rewards_of_cons_same. cbn [length qsum].
      destruct (learn_rule alpha s a r H1 H2) as [EC EQ]. rewrite EC in IH. rewrite EQ in IH.
      rewrite step_of_sample_average in IH by assumption.
      replace (nth a (cnts s) 0 + S (length (rewards_of a t)))%nat
        with (S (nth a (cnts s) 0) + length (rewards_of a t))%nat by lia.
      rewrite IH. rewrite qn_S. pose proof (qn_S_nz (nth a (cnts s) 0%nat)) as NZ. rewrite qn_S in NZ.
      field. exact NZ.
    + rewrite rewards_of_cons_other by assumption.
      destruct (learn_other_nth alpha s b r a) as [E1 E2]; [congruence|]. rewrite E1, E2 in IH. exact IH. Qed.

Lemma sample_average_is_mean alpha a tr s : alpha == -1 # 1 ->
  (a < length (qs s))%nat -> (a < length (cnts s))%nat -> nth a (cnts s) 0%nat = 0%nat ->
  rewards_of a tr <> [] ->
  nth a (qs (run_learn alpha s tr)) 0 == qsum (rewards_of a tr) / qn (length (rewards_of a tr)).
Proof. intros HA H1 H2 HC HR. pose proof (sample_average_general alpha a tr HA s H1 H2) as G.
  rewrite HC in G. cbn [Nat.add] in G.
  assert (NZ : ~ qn (length (rewards_of a tr)) == 0).
  { destruct (rewards_of a tr); [congruence|]. apply qn_S_nz. }
  apply (Qmult_inj_l _ _ (qn (length (rewards_of a tr)))); [exact NZ|]. rewrite G.
  unfold qn at 1. cbn [Z.of_nat inject_Z]. field. exact NZ. Qed.

(* constant learning rate: Q_k == (1-alpha)^k Q_0 + sum_i alpha (1-alpha)^(k-i) r_i *)
Lemma constant_alpha_closed_form alpha a tr : ~ alpha == -1 # 1 -> forall s,
  (a < length (qs s))%nat -> (a < length (cnts s))%nat ->
  nth a (qs (run_learn alpha s tr)) 0
  == qpow (1 - alpha) (length (rewards_of a tr)) * nth a (qs s) 0 + wsum alpha (rewards_of a tr).
Proof. intros HA. induction tr as [|[b r] t IH]; intros s H1 H2.
  - cbn. ring.
  - rewrite run_learn_cons. destruct (learn_lengths alpha s b r) as [L1 [L2 _]].
    specialize (IH (learn alpha s b r)). rewrite L1, L2 in IH. specialize (IH H1 H2).
    destruct (Nat.eq_dec b a) as [->|N].
    + rewrite rewards_of_cons_same. cbn [length wsum qpow]. rewrite IH.
      destruct (learn_rule alpha s a r H1 H2) as [_ EQ]. rewrite EQ. rewrite step_of_constant by assumption. ring.
    + rewrite rewards_of_cons_other by assumption.
      destruct (learn_other_nth alpha s b r a) as [E1 _]; [congruence|]. rewrite E1 in IH. exact IH. Qed.

(* ------------------------------------------------------------------ argmax and policy *)
Lemma argmax_from_spec l : forall i bi bv,
  (argmax_from l i bi bv = bi /\ Forall (fun x => x <= bv) l) \/
  (exists k, argmax_from l i bi bv = (i + k)%nat /\ (k < length l)%nat /\ bv < nth k l 0 /\
             (forall m, (m < k)%nat -> nth m l 0 < nth k l 0) /\ Forall (fun x => x <= nth k l 0) l).
Proof. induction l as [|x r IH]; intros i bi bv; cbn [argmax_from].
  - left. split; [reflexivity|constructor].
  - destruct (Qltb bv x) eqn:E.
    + apply Qltb_lt in E. right. destruct (IH (S i) i x) as [[J F]|[k [J [K [B [Fi Al]]]]]].
      * exists 0%nat. cbn [nth length]. split; [rewrite J; lia|]. split; [lia|]. split; [exact E|]. split; [intros m Hm; lia|].
        constructor; [apply Qle_refl|exact F].
      * exists (S k). cbn [nth length]. split; [rewrite J; lia|]. split; [lia|]. split; [|split].
        -- eapply Qlt_trans; eauto.
        -- intros [|m] Hm; [exact B|]. apply Fi. lia.
        -- constructor; [apply Qlt_le_weak, B|exact Al].
    + apply Qltb_ge in E. destruct (IH (S i) bi bv) as [[J F]|[k [J [K [B [Fi Al]]]]]].
      * left. split; [exact J|]. constructor; assumption.
      * right. exists (S k). cbn [nth length]. split; [rewrite J; lia|]. split; [lia|]. split; [|split].
        -- exact B.
        -- intros [|m] Hm; [eapply Qle_lt_trans; eauto|]. apply Fi. lia.
        -- constructor; [|exact Al]. apply Qlt_le_weak. eapply Qle_lt_trans; eauto. Qed.

(* np.argmax: in range, maximal, and the first such index *)
Lemma argmax_spec l : l <> [] ->
  (argmax l < length l)%nat /\
  (forall j, (j < length l)%nat -> nth j l 0 <= nth (argmax l) l 0) /\
  (forall j, (j < argmax l)%nat -> nth j l 0 < nth (argmax l) l 0).
Proof. destruct l as [|x r]; [congruence|]. intros _. unfold argmax.
  destruct (argmax_from_spec r 1 0 x) as [[J F]|[k [J [K [B [Fi Al]]]]]]; rewrite J.
  - cbn [length nth]. split; [lia|]. split; [|intros j Hj; lia].
    intros [|j] Hj; [apply Qle_refl|]. rewrite Forall_forall in F. apply F. apply nth_In. lia.
  - cbn [length]. change (1 + k)%nat with (S k). cbn [nth]. split; [lia|]. split.
    + intros [|j] Hj; [apply Qlt_le_weak, B|]. rewrite Forall_forall in Al. apply Al. apply nth_In. lia.
    + intros [|j] Hj; [exact B|]. apply Fi. lia. Qed.

Lemma policy_greedy eps s u alt : eps <= u -> qs s <> [] -> policy eps s u alt = Ok (argmax (qs s)).
Proof. intros H N. unfold policy. destruct (qs s) eqn:E; [congruence|].
  apply Qltb_ge in H. rewrite H. reflexivity. Qed.
Lemma policy_explore eps s u alt : u < eps -> qs s <> [] -> policy eps s u alt = Ok alt.
Proof. intros H N. unfold policy. destruct (qs s) eqn:E; [congruence|].
  apply Qltb_lt in H. rewrite H. reflexivity. Qed.
Lemma policy_empty eps s u alt : qs s = [] -> policy eps s u alt = Raise ValueError.
Proof. intros E. unfold policy. rewrite E. reflexivity. Qed.

Lemma greedy_picks_max eps s u alt a : eps <= u -> policy eps s u alt = Ok a ->
  (a < length (qs s))%nat /\
  (forall j, (j < length (qs s))%nat -> nth j (qs s) 0 <= nth a (qs s) 0) /\
  (forall j, (j < a)%nat -> nth j (qs s) 0 < nth a (qs s) 0).
Proof. intros H P. destruct (qs s) eqn:E.
  - rewrite policy_empty in P by assumption. discriminate.
  - rewrite policy_greedy in P by (auto; congruence). injection P as <-. rewrite E. apply argmax_spec. congruence. Qed.

Lemma greedy_picks_max_eps0 eps s u alt a : eps == 0 -> 0 <= u -> policy eps s u alt = Ok a ->
  forall j, (j < length (qs s))%nat -> nth j (qs s) 0 <= nth a (qs s) 0.
Proof. intros H0 HU P. apply (greedy_picks_max eps s u alt a); [rewrite H0; exact HU|exact P]. Qed.

Lemma policy_in_range eps s u alt : wf s -> (0 < n_act s)%nat -> (alt < n_act s)%nat ->
  exists a, policy eps s u alt = Ok a /\ (a < n_act s)%nat.
Proof. intros [W1 W2] HN HA. assert (NE : qs s <> []) by (intros E; rewrite E in W1; cbn in W1; lia).
  destruct (Qlt_le_dec u eps) as [L|L].
  - exists alt. split; [apply policy_explore; assumption|exact HA].
  - exists (argmax (qs s)). split; [apply policy_greedy; assumption|]. rewrite <- W1. apply argmax_spec, NE. Qed.

Lemma policy_ok_in_range eps s u alt a : wf s -> (alt < n_act s)%nat -> policy eps s u alt = Ok a -> (a < n_act s)%nat.
Proof. intros W HA P. destruct (Nat.eq_dec (n_act s) 0) as [Z|NZ]; [lia|].
  destruct (policy_in_range eps s u alt W ltac:(lia) HA) as [a' [P' R]]. congruence. Qed.

Lemma policy_draws_alt_iff eps u : policy_draws_alt eps u = true <-> u < eps.
Proof. apply Qltb_lt. Qed.

(* ------------------------------------------------------------------ determinism *)
Lemma closed_loop_length alpha eps E draws : forall s hist, length (closed_loop alpha eps E s hist draws) = length draws.
Proof. induction draws as [|d ds IH]; intros s hist; cbn; [reflexivity|]. now rewrite IH. Qed.

(* the actions of a run are the open-loop replay of its draws and of the rewards it received *)
Lemma closed_loop_replay alpha eps E draws : forall s hist,
  map fst (closed_loop alpha eps E s hist draws)
  = replay alpha eps s draws (map snd (closed_loop alpha eps E s hist draws)).
Proof. induction draws as [|d ds IH]; intros s hist; cbn; [reflexivity|]. f_equal. apply IH. Qed.

Lemma policy_function_of_draws_and_rewards alpha eps E1 E2 s h1 h2 draws :
  map snd (closed_loop alpha eps E1 s h1 draws) = map snd (closed_loop alpha eps E2 s h2 draws) ->
  map fst (closed_loop alpha eps E1 s h1 draws) = map fst (closed_loop alpha eps E2 s h2 draws).
Proof. intros H. rewrite !closed_loop_replay. rewrite H. reflexivity. Qed.

(* every action of the loop is a valid index when the alternatives offered are *)
Lemma replay_in_range alpha eps draws : forall s rewards, wf s -> (0 < n_act s)%nat ->
  Forall (fun d => (snd d < n_act s)%nat) draws ->
  Forall (fun a => (a < n_act s)%nat) (replay alpha eps s draws rewards).
Proof. induction draws as [|d ds IH]; intros s rewards W N F; [constructor|].
  destruct rewards as [|r rs]; [constructor|]. cbn [replay]. inversion F as [|? ? Fd Fds]; subst.
  assert (A : (act_of eps s d < n_act s)%nat).
  { unfold act_of. destruct (policy_in_range eps s (fst d) (snd d) W N Fd) as [a [P R]]. rewrite P. exact R. }
  constructor; [exact A|].
  pose proof (IH (learn alpha s (act_of eps s d) r) rs (wf_learn _ _ _ _ W)) as G. cbn [learn n_act] in G.
  apply G; assumption. Qed.

(* ------------------------------------------------------------------ reward *)
Lemma reward_rule cur loss :
  (loss < cur -> ~ cur == 0 -> get_reward (Some cur) loss = (Ok ((cur - loss) / cur), Some loss)) /\
  (~ loss < cur -> get_reward (Some cur) loss = (Ok 0, Some cur)) /\
  (loss < cur -> cur == 0 -> get_reward (Some cur) loss = (Raise ZeroDivisionError, Some cur)) /\
  get_reward None loss = (Raise ValueError, None).
Proof. unfold get_reward. repeat split.
  - intros L NZ. apply Qltb_lt in L. rewrite L. destruct (Qeq_bool cur 0) eqn:E; [|reflexivity].
    apply Qeq_bool_iff in E. contradiction.
  - intros NL. destruct (Qltb loss cur) eqn:E; [|reflexivity]. apply Qltb_lt in E. contradiction.
  - intros L Z. apply Qltb_lt in L. rewrite L. apply Qeq_bool_iff in Z. rewrite Z. reflexivity. Qed.

Lemma reward_in_unit_interval cur loss : 0 <= loss -> loss < cur -> 0 < (cur - loss) / cur /\ (cur - loss) / cur <= 1.
Proof. intros H0 HL. assert (P : 0 < cur) by (eapply Qle_lt_trans; eauto). split.
  - apply Qlt_shift_div_l; [exact P|]. rewrite Qmult_0_l. unfold Qminus. rewrite <- (Qplus_opp_r loss).
    apply Qplus_lt_l. exact HL.
  - apply Qle_shift_div_r; [exact P|]. rewrite Qmult_1_l. unfold Qminus.
    rewrite <- (Qplus_0_r cur) at 2. apply Qplus_le_r. rewrite <- (Qopp_involutive 0) . apply Qopp_le_compat. exact H0. Qed.

Lemma reference_moves_only_on_improvement ref loss o ref' : get_reward ref loss = (o, ref') ->
  ref' = ref \/ (exists cur, ref = Some cur /\ loss < cur /\ ref' = Some loss /\ o = Ok ((cur - loss) / cur)).
Proof. unfold get_reward. destruct ref as [cur|]; [|intros H; injection H as _ <-; auto].
  destruct (Qltb loss cur) eqn:L; [|intros H; injection H as _ <-; auto].
  destruct (Qeq_bool cur 0); intros H; injection H as <- <-; [auto|]. right. exists cur. apply Qltb_lt in L. auto. Qed.

Lemma reference_kept_without_improvement cur loss o ref' : ~ loss < cur -> get_reward (Some cur) loss = (o, ref') ->
  ref' = Some cur /\ o = Ok 0.
Proof. intros NL H. destruct (reward_rule cur loss) as [_ [R _]]. rewrite R in H by assumption. injection H as <- <-. auto. Qed.

Definition is_ok {A} (r : result A) : Prop := match r with Ok _ => True | Raise _ => False end.
Definition running_min (c0 : Q) (ls : list Q) : Q := fold_left (fun m x => if Qltb x m then x else m) ls c0.

Lemma running_min_spec ls : forall c0,
  In (running_min c0 ls) (c0 :: ls) /\ running_min c0 ls <= c0 /\ Forall (fun x => running_min c0 ls <= x) ls.
Proof. induction ls as [|x t IH]; intros c0; cbn [running_min fold_left].
  - split; [left; reflexivity|]. split; [apply Qle_refl|constructor].
  - fold (running_min (if Qltb x c0 then x else c0) t). destruct (Qltb x c0) eqn:E.
    + apply Qltb_lt in E. destruct (IH x) as [I [L F]]. split; [|split].
      * destruct I as [I|I]; [right; left; exact I|right; right; exact I].
      * apply Qlt_le_weak. eapply Qle_lt_trans; eauto.
      * constructor; assumption.
    + apply Qltb_ge in E. destruct (IH c0) as [I [L F]]. split; [|split].
      * destruct I as [I|I]; [left; exact I|right; right; exact I].
      * exact L.
      * constructor; [eapply Qle_trans; eauto|exact F]. Qed.

Lemma env_run_cons ref x t : env_run ref (x :: t) =
  (fst (get_reward ref x) :: fst (env_run (snd (get_reward ref x)) t), snd (env_run (snd (get_reward ref x)) t)).
Proof. cbn [env_run]. destruct (get_reward ref x) as [o r']. cbn [fst snd]. destruct (env_run r' t). reflexivity. Qed.

Lemma reference_is_running_min ls : forall c0, Forall is_ok (fst (env_run (Some c0) ls)) ->
  snd (env_run (Some c0) ls) = Some (running_min c0 ls).
Proof. induction ls as [|x t IH]; intros c0 H; [reflexivity|]. rewrite env_run_cons in *. cbn [fst snd] in *.
  inversion H as [|? ? H1 H2]; subst. cbn [running_min fold_left]. fold (running_min (if Qltb x c0 then x else c0) t).
  unfold get_reward in *. destruct (Qltb x c0) eqn:L.
  - destruct (Qeq_bool c0 0); cbn [fst snd] in *; [contradiction|]. apply IH, H2.
  - cbn [fst snd] in *. apply IH, H2. Qed.

(* the reference never disappears and is always one of the values seen *)
Lemma reference_is_a_seen_loss ls : forall c0, exists m, snd (env_run (Some c0) ls) = Some m /\ In m (c0 :: ls).
Proof. induction ls as [|x t IH]; intros c0; [exists c0; cbn; auto|]. rewrite env_run_cons. cbn [snd].
  unfold get_reward. destruct (Qltb x c0).
  - destruct (Qeq_bool c0 0); cbn [snd].
    + destruct (IH c0) as [m [E I]]. exists m. split; [exact E|]. destruct I; [left|right; right]; assumption.
    + destruct (IH x) as [m [E I]]. exists m. split; [exact E|]. right. exact I.
  - cbn [snd]. destruct (IH c0) as [m [E I]]. exists m. split; [exact E|]. destruct I; [left|right; right]; assumption. Qed.

(* no exception for non-negative losses once the reference is set *)
Lemma no_raise_when_nonnegative ls : forall c0, Forall (fun x => 0 <= x) ls -> Forall is_ok (fst (env_run (Some c0) ls)).
Proof. induction ls as [|x t IH]; intros c0 H; [constructor|]. rewrite env_run_cons. cbn [fst].
  inversion H as [|? ? H1 H2]; subst. unfold get_reward. destruct (Qltb x c0) eqn:L.
  - destruct (Qeq_bool c0 0) eqn:Z; cbn [fst snd].
    + exfalso. apply Qltb_lt in L. apply Qeq_bool_iff in Z. rewrite Z in L. eapply Qlt_not_le; eauto.
    + constructor; [exact I|]. apply IH, H2.
  - cbn [fst snd]. constructor; [exact I|]. apply IH, H2. Qed.

(* the published constructor state: every count is 0, so the sample average forgets initial_values *)
Lemma sample_average_from_init alpha n v a tr : alpha == -1 # 1 -> (a < n)%nat -> rewards_of a tr <> [] ->
  nth a (qs (run_learn alpha (init_agent n v) tr)) 0 == qsum (rewards_of a tr) / qn (length (rewards_of a tr)).
Proof. intros HA H HR. apply sample_average_is_mean; auto; cbn [init_agent qs cnts].
  - now rewrite repeat_length.
  - now rewrite repeat_length.
  - apply nth_repeat. Qed.

Lemma wf_reachable alpha n v tr :
  wf (run_learn alpha (init_agent n v) tr) /\ wf (reset (run_learn alpha (init_agent n v) tr)).
Proof. split; [apply wf_run_learn, wf_init | apply wf_reset]. Qed.

Lemma explores_iff_draw_below_eps eps s u alt : qs s <> [] ->
  (u < eps -> policy eps s u alt = Ok alt) /\ (eps <= u -> policy eps s u alt = Ok (argmax (qs s))) /\
  (policy_draws_alt eps u = true <-> u < eps).
Proof. intros. split; [|split]; [intros; now apply policy_explore | intros; now apply policy_greedy | apply policy_draws_alt_iff]. Qed.

(* ================================================================== round 4 (generator sweep) *)
(* ------------------------------------------------------------------ learning rate reassigned between calls *)
Lemma run_learn_v_cons s al a r tr : run_learn_v s ((al, (a, r)) :: tr) = run_learn_v (learn al s a r) tr.
Proof. reflexivity. Qed.

Lemma run_learn_v_app t1 : forall s t2, run_learn_v s (t1 ++ t2) = run_learn_v (run_learn_v s t1) t2.
Proof. intros s t2. unfold run_learn_v. apply fold_left_app. Qed.

(* a stretch of calls under one value of alpha is run_learn with that value (so every closed form applies to it,
   from whatever state the earlier stretches left) *)
Lemma run_learn_v_const alpha tr : forall s, run_learn_v s (map (fun ar => (alpha, ar)) tr) = run_learn alpha s tr.
Proof. induction tr as [|[a r] t IH]; intros s; [reflexivity|]. cbn [map]. rewrite run_learn_v_cons, run_learn_cons. apply IH. Qed.

Lemma run_learn_v_lengths tr : forall s,
  length (qs (run_learn_v s tr)) = length (qs s) /\ length (cnts (run_learn_v s tr)) = length (cnts s).
Proof. induction tr as [|[al [a r]] t IH]; intros s; [auto|]. rewrite run_learn_v_cons.
  destruct (IH (learn al s a r)) as [H1 H2]. destruct (learn_lengths al s a r) as [L1 [L2 _]]. split; congruence. Qed.

(* the call made with alpha in force follows the rule for THAT alpha, whatever values were in force before *)
Lemma learn_v_last_rule tr al a r s :
  (a < length (qs s))%nat -> (a < length (cnts s))%nat ->
  let s' := run_learn_v s tr in
  nth a (cnts (run_learn_v s (tr ++ [(al, (a, r))]))) 0%nat = S (nth a (cnts s') 0%nat) /\
  nth a (qs (run_learn_v s (tr ++ [(al, (a, r))]))) 0
  == nth a (qs s') 0 + step_of al (nth a (cnts s') 0%nat) * (r - nth a (qs s') 0).
Proof. intros H1 H2 s'. rewrite run_learn_v_app. fold s'. change (run_learn_v s' [(al, (a, r))]) with (learn al s' a r).
  destruct (run_learn_v_lengths tr s) as [L1 L2]. fold s' in L1, L2. apply learn_rule; congruence. Qed.

Lemma rewards_of_v_cons_same a al r tr : rewards_of_v a ((al, (a, r)) :: tr) = r :: rewards_of_v a tr.
Proof. unfold rewards_of_v. cbn [map snd]. apply rewards_of_cons_same. Qed.
Lemma rewards_of_v_cons_other a b al r tr : b <> a -> rewards_of_v a ((al, (b, r)) :: tr) = rewards_of_v a tr.
Proof. intros H. unfold rewards_of_v. cbn [map snd]. now apply rewards_of_cons_other. Qed.

(* the count is the number of visits, whatever learning rates were in force *)
Lemma count_is_visits_v a tr : forall s, (a < length (cnts s))%nat ->
  nth a (cnts (run_learn_v s tr)) 0%nat = (nth a (cnts s) 0%nat + length (rewards_of_v a tr))%nat.
Proof. induction tr as [|[al [b r]] t IH]; intros s H; [cbn; lia|]. rewrite run_learn_v_cons.
  destruct (learn_lengths al s b r) as [_ [L2 _]].
  rewrite IH by (rewrite L2; exact H). destruct (Nat.eq_dec b a) as [->|N].
  - rewrite rewards_of_v_cons_same. cbn [length]. cbn [learn cnts]. rewrite upd_nth_same by assumption. lia.
  - rewrite rewards_of_v_cons_other by assumption. destruct (learn_other_nth al s b r a) as [_ E]; [congruence|].
    rewrite E. reflexivity. Qed.

Lemma unvisited_unchanged_v a tr : forall s, rewards_of_v a tr = [] ->
  nth a (qs (run_learn_v s tr)) 0 = nth a (qs s) 0.
Proof. induction tr as [|[al [b r]] t IH]; intros s H; [reflexivity|]. rewrite run_learn_v_cons.
  destruct (Nat.eq_dec b a) as [->|N].
  - rewrite rewards_of_v_cons_same in H. discriminate.
  - rewrite rewards_of_v_cons_other in H by assumption. rewrite IH by assumption.
    destruct (learn_other_nth al s b r a) as [E _]; [congruence|]. exact E. Qed.

(* the loop with (alpha, eps) reassigned between rounds: with constant values it is the loop of before, and every
   action is a valid index whatever the values in force *)
Lemma replay_v_const alpha eps draws : forall s rewards,
  replay_v s (map (fun d => ((alpha, eps), d)) draws) rewards = replay alpha eps s draws rewards.
Proof. induction draws as [|d ds IH]; intros s rewards; [reflexivity|]. destruct rewards as [|r rs]; [reflexivity|].
  cbn [map replay_v replay fst snd]. f_equal. apply IH. Qed.

Lemma replay_v_in_range rounds : forall s rewards, wf s -> (0 < n_act s)%nat ->
  Forall (fun x => (snd (snd x) < n_act s)%nat) rounds ->
  Forall (fun a => (a < n_act s)%nat) (replay_v s rounds rewards).
Proof. induction rounds as [|[[al ep] d] ds IH]; intros s rewards W N F; [constructor|].
  destruct rewards as [|r rs]; [constructor|]. cbn [replay_v fst snd]. inversion F as [|? ? Fd Fds]; subst. cbn [snd] in Fd.
  assert (A : (act_of ep s d < n_act s)%nat).
  { unfold act_of. destruct (policy_in_range ep s (fst d) (snd d) W N Fd) as [a [P R]]. rewrite P. exact R. }
  constructor; [exact A|].
  pose proof (IH (learn al s (act_of ep s d) r) rs (wf_learn _ _ _ _ W)) as G. cbn [learn n_act] in G.
  apply G; assumption. Qed.

(* greedy whenever the eps in force at the call is 0 (or not above the draw), whatever it was before: policy has
   no memory of eps -- this is greedy_picks_max; stated for the loop: *)
Lemma replay_v_greedy_round s al ep d ds r rs : ep <= fst d -> qs s <> [] ->
  exists a, replay_v s (((al, ep), d) :: ds) (r :: rs) = a :: replay_v (learn al s a r) ds rs /\
            (a < length (qs s))%nat /\ (forall j, (j < length (qs s))%nat -> nth j (qs s) 0 <= nth a (qs s) 0).
Proof. intros H N. exists (act_of ep s d). split; [reflexivity|]. unfold act_of.
  rewrite policy_greedy by assumption. destruct (argmax_spec (qs s) N) as [A [B _]]. auto. Qed.

(* ------------------------------------------------------------------ env.step / env.reset *)
Lemma step_end_keeps_reference ref : env_step true ref None = (Ok (0, true), ref).
Proof. reflexivity. Qed.

Lemma step_is_get_reward ref loss :
  env_step true ref (Some loss) =
  (match fst (get_reward ref loss) with Ok r => Ok (r, false) | Raise e => Raise e end, snd (get_reward ref loss)).
Proof. unfold env_step. destruct (get_reward ref loss). reflexivity. Qed.

Lemma step_invalid_action ref msg : env_step false ref msg = (Raise OtherError, ref).
Proof. reflexivity. Qed.

Lemma env_reset_keeps_reference ref : env_reset ref = ref.
Proof. reflexivity. Qed.

Lemma env_steps_cons ref m t : env_steps ref (m :: t) =
  (fst (env_step true ref m) :: fst (env_steps (snd (env_step true ref m)) t), snd (env_steps (snd (env_step true ref m)) t)).
Proof. cbn [env_steps]. destruct (env_step true ref m) as [o r']. cbn [fst snd]. destruct (env_steps r' t). reflexivity. Qed.

(* over any number of sessions (end markers anywhere) the reference is what get_reward alone makes of the losses *)
Lemma env_steps_reference msgs : forall ref, snd (env_steps ref msgs) = snd (env_run ref (losses_of msgs)).
Proof. induction msgs as [|[x|] t IH]; intros ref; [reflexivity| |].
  - rewrite env_steps_cons. cbn [losses_of]. rewrite env_run_cons. cbn [snd]. rewrite step_is_get_reward. cbn [snd]. apply IH.
  - rewrite env_steps_cons. cbn [losses_of]. rewrite step_end_keeps_reference. cbn [snd]. apply IH. Qed.

Lemma env_steps_running_min msgs c0 : Forall is_ok (fst (env_run (Some c0) (losses_of msgs))) ->
  snd (env_steps (Some c0) msgs) = Some (running_min c0 (losses_of msgs)).
Proof. intros H. rewrite env_steps_reference. now apply reference_is_running_min. Qed.

(* ------------------------------------------------------------------ the extended checker is conservative *)
Lemma check_xops_XOp ops : forall alpha eps c, check_xops (mkX alpha eps c) (map XOp ops) = check_ops alpha eps c ops.
Proof. induction ops as [|o t IH]; intros alpha eps c; [reflexivity|]. cbn [map check_xops check_ops check_xop x_alpha x_eps x_c].
  destruct (check_op alpha eps c o) as [ok c']. destruct ok; [apply IH|reflexivity]. Qed.

Lemma check_xcase_conservative n alpha eps init ops :
  check_xcase (n, alpha, eps, init, map XOp ops) = check_case (n, alpha, eps, init, ops).
Proof. unfold check_xcase, check_case. apply check_xops_XOp. Qed.
