From Coq Require Import List ZArith Bool Arith Lia Permutation.
From BlackIt Require Import Model.Dedup.
Import ListNotations.

Lemma point_eqb_true a b : point_eqb a b = true <-> a = b.
Proof. unfold point_eqb. destruct (point_eq_dec a b); split; congruence. Qed.

Lemma insert_perm p l : Permutation (insert p l) (p :: l).
Proof. induction l as [|x r IH]; cbn; [reflexivity|]. destruct (point_leb p x); [reflexivity|].
  rewrite IH. apply perm_swap. Qed.
Lemma isort_perm l : Permutation (isort l) l.
Proof. induction l as [|x r IH]; cbn; [reflexivity|]. rewrite insert_perm. now constructor. Qed.

Lemma sort_uniq_in g l : In g (sort_uniq l) <-> In g l.
Proof. unfold sort_uniq. split; intros H.
  - apply (Permutation_in _ (isort_perm _)) in H. now apply nodup_In in H.
  - apply (Permutation_in _ (Permutation_sym (isort_perm _))). now apply nodup_In. Qed.
Lemma sort_uniq_nodup l : NoDup (sort_uniq l).
Proof. unfold sort_uniq. eapply Permutation_NoDup; [apply Permutation_sym, isort_perm | apply NoDup_nodup]. Qed.

Lemma count_pos_in g l : 1 <= count g l <-> In g l.
Proof. unfold count. induction l as [|x r IH]; cbn; [split; [lia|tauto]|].
  destruct (point_eqb g x) eqn:E; cbn.
  - apply point_eqb_true in E. subst. split; [auto | lia].
  - split; intros H; [right; now apply IH|]. destruct H as [H|H]; [|now apply IH].
    subst. assert (point_eqb g g = true) by now apply point_eqb_true. congruence. Qed.

Lemma positions_from_spec g s : forall k i,
  In i (positions_from k g s) <-> exists j, i = k + j /\ nth_error s j = Some g.
Proof. induction s as [|x r IH]; intros k i; cbn.
  - split; [tauto|]. intros [j [_ H]]. destruct j; discriminate.
  - destruct (point_eqb g x) eqn:E.
    + apply point_eqb_true in E. subst x. cbn. rewrite IH. split.
      * intros [H|[j [H1 H2]]]; [exists 0; split; [lia|reflexivity] | exists (S j); split; [lia|exact H2]].
      * intros [[|j] [H1 H2]]; [left; lia | right; exists j; split; [lia|exact H2]].
    + rewrite IH. split.
      * intros [j [H1 H2]]. exists (S j); split; [lia|exact H2].
      * intros [[|j] [H1 H2]]; cbn in H2.
        -- injection H2 as ->. assert (point_eqb g g = true) by now apply point_eqb_true. congruence.
        -- exists j; split; [lia|exact H2]. Qed.

Lemma positions_from_nodup g s : forall k, NoDup (positions_from k g s).
Proof. induction s as [|x r IH]; intros k; cbn; [constructor|].
  destruct (point_eqb g x); [|apply IH]. constructor; [|apply IH].
  rewrite positions_from_spec. intros [j [H _]]. lia. Qed.

Lemma positions_of_spec g s i : In i (positions_of g s) <-> nth_error s i = Some g.
Proof. unfold positions_of. rewrite positions_from_spec. split; [intros [j [-> H]]; exact H | intros H; now exists i]. Qed.

Lemma NoDup_app {A} (l1 l2 : list A) : NoDup l1 -> NoDup l2 -> (forall x, In x l1 -> ~ In x l2) -> NoDup (l1 ++ l2).
Proof. intros H1 H2 Hd. induction H1 as [|a l Hn Hl IH]; cbn; [exact H2|].
  constructor.
  - rewrite in_app_iff. intros [H|H]; [now apply Hn | apply (Hd a); [now left | exact H]].
  - apply IH. intros x Hx. apply Hd. now right. Qed.

Lemma flat_map_nodup {A B} (f : A -> list B) l :
  NoDup l -> (forall a, NoDup (f a)) -> (forall a a' b, In b (f a) -> In b (f a') -> a = a') ->
  NoDup (flat_map f l).
Proof. intros Hl Hf Hd. induction Hl as [|a l Hn Hl IH]; cbn; [constructor|].
  apply NoDup_app; [apply Hf | exact IH |].
  intros b Hb Hin. apply in_flat_map in Hin. destruct Hin as [a' [Ha' Hb']].
  assert (a = a') by (eapply Hd; eassumption). subst. contradiction. Qed.

(* ---- characterisation of find_and_get_duplicates, independent of the sort order ---- *)
Definition is_repeat (h s : list point) (i : nat) : Prop :=
  exists g, nth_error s i = Some g /\ 2 <= count g (h ++ s).

Theorem dup_positions_spec h s i : In i (dup_positions h s) <-> is_repeat h s i.
Proof. unfold dup_positions, repeated_groups, is_repeat. rewrite in_flat_map. split.
  - intros [g [Hg Hi]]. apply filter_In in Hg. destruct Hg as [_ Hc]. apply Nat.leb_le in Hc.
    apply positions_of_spec in Hi. now exists g.
  - intros [g [Hi Hc]]. exists g. split; [|now apply positions_of_spec].
    apply filter_In. split; [|now apply Nat.leb_le]. apply sort_uniq_in. apply count_pos_in. lia. Qed.

Theorem dup_positions_nodup h s : NoDup (dup_positions h s).
Proof. unfold dup_positions. apply flat_map_nodup.
  - unfold repeated_groups. apply NoDup_filter, sort_uniq_nodup.
  - intros g. apply positions_from_nodup.
  - intros g g' i H1 H2. apply positions_of_spec in H1, H2. congruence. Qed.

Lemma dup_positions_lt h s i : In i (dup_positions h s) -> i < length s.
Proof. rewrite dup_positions_spec. intros [g [H _]]. apply nth_error_Some. congruence. Qed.

(* ---- substitution ---- *)
Lemma set_nth_length i v s : length (set_nth i v s) = length s.
Proof. revert i; induction s as [|x r IH]; intros [|i]; cbn; auto. Qed.

Lemma set_nth_other i v s j : j <> i -> nth_error (set_nth i v s) j = nth_error s j.
Proof. revert i j; induction s as [|x r IH]; intros [|i] [|j] H; cbn; auto; try congruence. Qed.

Lemma set_nth_same i v s : i < length s -> nth_error (set_nth i v s) i = Some v.
Proof. revert i; induction s as [|x r IH]; intros [|i] H; cbn in *; try lia; auto. apply IH. lia. Qed.

Lemma substitute_length s pos news : length (substitute s pos news) = length s.
Proof. revert s news; induction pos as [|i pos IH]; intros s [|v news]; cbn; auto.
  rewrite IH. apply set_nth_length. Qed.

Lemma substitute_untouched s pos news j : ~ In j pos -> nth_error (substitute s pos news) j = nth_error s j.
Proof. revert s news; induction pos as [|i pos IH]; intros s [|v news] H; cbn; auto.
  rewrite IH; [|intros C; apply H; now right]. apply set_nth_other. intros ->. apply H. now left. Qed.

Lemma substitute_hit s pos news k i v :
  NoDup pos -> nth_error pos k = Some i -> i < length s -> nth_error news k = Some v ->
  nth_error (substitute s pos news) i = Some v.
Proof. revert s news k; induction pos as [|i0 pos IH]; intros s news k Hnd Hk Hi Hv; [destruct k; discriminate|].
  inversion Hnd as [|? ? Hn Hnd']; subst. destruct news as [|v0 news]; [destruct k; discriminate|].
  destruct k as [|k]; cbn in *.
  - injection Hk as ->. injection Hv as ->. rewrite substitute_untouched by exact Hn. now apply set_nth_same.
  - eapply IH; eauto. now rewrite set_nth_length. Qed.

(* ---- the loop, for an arbitrary stateful generator ---- *)
Section Loop.
  Variable St : Type.
  Variable gen : St -> nat -> list point * St.
  Notation passes := (passes St gen).
  Notation sample := (sample St gen).

  (* declarative specification of one run of the loop *)
  Inductive run_ok (h : list point) : nat -> list point -> St -> list point * St * list (list nat) -> Prop :=
  | run_budget0 s st : run_ok h 0 s st (s, st, [])
  | run_clean b s st : (forall i, ~ is_repeat h s i) -> run_ok h (S b) s st (s, st, [])
  | run_redraw b s st d news st' out st'' fl :
      d <> [] -> NoDup d -> (forall i, In i d <-> is_repeat h s i) ->
      gen st (length d) = (news, st') ->        (* asked for exactly as many points as there are repeats *)
      run_ok h b (substitute s d news) st' (out, st'', fl) ->
      run_ok h (S b) s st (out, st'', d :: fl).

  Theorem passes_run_ok h : forall budget s st, run_ok h budget s st (passes budget h s st).
  Proof. induction budget as [|b IH]; intros s st; cbn [Dedup.passes]; [constructor|].
    destruct (dup_positions h s) as [|i0 d0] eqn:E.
    - apply run_clean. intros i Hi. apply dup_positions_spec in Hi. rewrite E in Hi. exact Hi.
    - rewrite <- E. destruct (gen st (length (dup_positions h s))) as [news st'] eqn:G.
      specialize (IH (substitute s (dup_positions h s) news) st').
      destruct (passes b h (substitute s (dup_positions h s) news) st') as [[out st''] fl] eqn:P.
      eapply run_redraw; eauto.
      + rewrite E. discriminate.
      + apply dup_positions_nodup.
      + intros i. apply dup_positions_spec. Qed.

  Lemma run_ok_requests h budget s st r : run_ok h budget s st r ->
     Forall (fun d => d <> []) (snd r) /\ length (snd r) <= budget.
  Proof. induction 1 as [| | b s st d news st' out st'' fl Hd Hnd Hs Hg Hr IH]; cbn [snd length] in *.
    - split; [constructor|lia].
    - split; [constructor|lia].
    - destruct IH as [H4 H5]. split; [constructor; assumption | lia]. Qed.

  (* a repeat survives only when every pass of the budget redrew something *)
  Theorem run_ok_repeat_only_after_budget h budget s st r : run_ok h budget s st r ->
     (exists i, is_repeat h (fst (fst r)) i) -> length (snd r) = budget.
  Proof. induction 1 as [| b s st Hc | b s st d news st' out st'' fl Hd Hnd Hs Hg Hr IH]; cbn in *; intros Hrep.
    - reflexivity.
    - destruct Hrep as [i Hi]. now apply Hc in Hi.
    - f_equal. now apply IH. Qed.

  Lemma run_ok_length h budget s st r : run_ok h budget s st r -> length (fst (fst r)) = length s.
  Proof. induction 1; cbn in *; auto. rewrite IHrun_ok. apply substitute_length. Qed.

  Lemma run_ok_untouched h budget s st r i : run_ok h budget s st r ->
     (forall d, In d (snd r) -> ~ In i d) -> nth_error (fst (fst r)) i = nth_error s i.
  Proof. induction 1 as [| | b s st d news st' out st'' fl Hd Hnd Hs Hg Hr IH]; cbn in *; intros Hfl; auto.
    rewrite IH by (intros d' Hd'; apply Hfl; now right). apply substitute_untouched. apply Hfl. now left. Qed.

  (* positions flagged in a pass are always real repeats at that moment, hence fresh points are never flagged
     in the first pass; and every flagged position lies inside the batch *)
  Lemma run_ok_first_flags h budget s st out st' d fl : run_ok h budget s st (out, st', d :: fl) ->
     forall i, In i d <-> is_repeat h s i.
  Proof. inversion 1; subst; assumption. Qed.

  (* widths: every row keeps the dimension when the generator returns rows of that dimension *)
  Lemma set_nth_Forall (P : point -> Prop) i v s : Forall P s -> P v -> Forall P (set_nth i v s).
  Proof. revert i; induction s as [|x r IH]; intros [|i] Hs Hv; cbn; auto; inversion Hs; subst; constructor; auto. Qed.
  Lemma substitute_Forall (P : point -> Prop) s pos news : Forall P s -> Forall P news -> Forall P (substitute s pos news).
  Proof. revert s news; induction pos as [|i pos IH]; intros s [|v news] Hs Hn; cbn; auto.
    inversion Hn; subst. apply IH; auto. now apply set_nth_Forall. Qed.

  Lemma run_ok_Forall (P : point -> Prop) h budget s st r :
     (forall st n, Forall P (fst (gen st n))) -> run_ok h budget s st r -> Forall P s -> Forall P (fst (fst r)).
  Proof. intros Hg. induction 1 as [| | b s st d news st' out st'' fl Hd Hnd Hs Hgen Hr IH]; cbn in *; auto.
    intros HP. apply IH. apply substitute_Forall; [exact HP|]. specialize (Hg st (length d)). now rewrite Hgen in Hg. Qed.

  (* value at a flagged position after one substitution *)
  Lemma substituted_value s d news k i v : NoDup d -> nth_error d k = Some i -> i < length s ->
     nth_error news k = Some v -> nth_error (substitute s d news) i = Some v.
  Proof. apply substitute_hit. Qed.
End Loop.

(* ---- statements about sample() itself ---- *)
Section SampleThms.
  Variable St : Type.
  Variable gen : St -> nat -> list point * St.
  Notation sample := (sample St gen).
  Notation output := (output St).
  Notation requests := (requests St).

  Definition first_draw (bsize : nat) (st : St) : list point := fst (gen st bsize).

  Lemma sample_run_ok bsize budget h st :
    run_ok St gen h budget (first_draw bsize st) (snd (gen st bsize)) (sample bsize budget h st).
  Proof. unfold Dedup.sample, first_draw. destruct (gen st bsize) as [s st1]. apply passes_run_ok. Qed.

  Lemma sample_repeat_only_after_budget bsize budget h st :
    (exists i, is_repeat h (output (sample bsize budget h st)) i) ->
    length (requests (sample bsize budget h st)) = budget /\ Forall (fun n => 0 < n) (requests (sample bsize budget h st)).
  Proof. intros Hrep. pose proof (sample_run_ok bsize budget h st) as Hr.
    unfold Dedup.requests. rewrite map_length. split.
    - eapply run_ok_repeat_only_after_budget; eauto.
    - apply run_ok_requests in Hr. destruct Hr as [Hne _]. apply Forall_map.
      eapply Forall_impl; [|exact Hne]. intros [|x d] Hd; cbn; [congruence|lia]. Qed.

  Lemma sample_clean_when_budget_left bsize budget h st :
    length (requests (sample bsize budget h st)) < budget ->
    forall i, ~ is_repeat h (output (sample bsize budget h st)) i.
  Proof. intros Hlt i Hi. destruct (sample_repeat_only_after_budget bsize budget h st) as [H _]; [now exists i|]. lia. Qed.

  Lemma sample_fresh_untouched bsize budget h st i :
    (forall d, In d (snd (sample bsize budget h st)) -> ~ In i d) ->
    nth_error (output (sample bsize budget h st)) i = nth_error (first_draw bsize st) i.
  Proof. intros H. eapply run_ok_untouched; [apply sample_run_ok | exact H]. Qed.

  Lemma sample_length bsize budget h st :
    length (output (sample bsize budget h st)) = length (first_draw bsize st).
  Proof. eapply run_ok_length. apply sample_run_ok. Qed.

  Lemma sample_shape bsize budget h st dims :
    (forall st n, length (fst (gen st n)) = n) ->
    (forall st n, Forall (fun p => length p = dims) (fst (gen st n))) ->
    length (output (sample bsize budget h st)) = bsize /\
    Forall (fun p => length p = dims) (output (sample bsize budget h st)).
  Proof. intros Hn Hw. split.
    - rewrite sample_length. apply Hn.
    - eapply run_ok_Forall; [exact Hw | apply sample_run_ok | apply Hw]. Qed.

  Lemma sample_budget0 bsize h st :
    output (sample bsize 0 h st) = first_draw bsize st /\ requests (sample bsize 0 h st) = [].
  Proof. unfold Dedup.sample, first_draw, Dedup.output, Dedup.requests. destruct (gen st bsize); cbn. auto. Qed.
End SampleThms.

(* ---- round 4: the first batch is a view of the caller's history (Model/Dedup.v, Section SampleView) ---- *)
Lemma count_app g l1 l2 : count g (l1 ++ l2) = count g l1 + count g l2.
Proof. unfold count. now rewrite filter_app, app_length. Qed.

Lemma in_firstn_l {A} n (l : list A) x : In x (firstn n l) -> In x l.
Proof. intros H. rewrite <- (firstn_skipn n l). apply in_or_app. now left. Qed.
Lemma in_skipn_l {A} n (l : list A) x : In x (skipn n l) -> In x l.
Proof. intros H. rewrite <- (firstn_skipn n l). apply in_or_app. now right. Qed.

Lemma window_in a n h g : In g (window a n h) -> In g h.
Proof. unfold window. intros H. apply in_firstn_l in H. now apply in_skipn_l in H. Qed.

Lemma window_length a n h : a + n <= length h -> length (window a n h) = n.
Proof. intros H. unfold window. rewrite firstn_length, skipn_length. lia. Qed.

(* every row of a batch that is a window of the history is a repeat: it occurs in the history and in the batch *)
Lemma view_all_repeats a h s i : window a (length s) h = s -> i < length s -> is_repeat h s i.
Proof. intros Hw Hi. destruct (nth_error s i) as [g|] eqn:E; [|apply nth_error_None in E; lia].
  exists g. split; [exact E|]. rewrite count_app.
  assert (H1 : In g s) by (eapply nth_error_In; eauto).
  assert (H2 : In g h) by (apply (window_in a (length s)); now rewrite Hw).
  apply count_pos_in in H1, H2. lia. Qed.

Lemma write_through_length a h s : a + length s <= length h -> length (write_through a h s) = length h.
Proof. intros H. unfold write_through. rewrite !app_length, firstn_length, skipn_length. lia. Qed.

Lemma write_through_window a h s : a <= length h -> window a (length s) (write_through a h s) = s.
Proof. intros H. unfold window, write_through.
  rewrite skipn_app, firstn_length, Nat.min_l by lia.
  rewrite (skipn_all2 (firstn a h)) by (rewrite firstn_length; lia).
  rewrite Nat.sub_diag. cbn [skipn app].
  rewrite firstn_app, Nat.sub_diag, firstn_all, firstn_O. apply app_nil_r. Qed.

Lemma nodup_full_length (l : list nat) n : NoDup l -> (forall i, In i l <-> i < n) -> length l = n.
Proof. intros Hnd H. rewrite <- (seq_length n 0). apply Permutation_length.
  apply NoDup_Permutation; [exact Hnd | apply seq_NoDup |]. intros i. rewrite H, in_seq. lia. Qed.

Lemma view_flags_all a h s : window a (length s) h = s -> length (dup_positions h s) = length s.
Proof. intros Hw. apply nodup_full_length; [apply dup_positions_nodup|]. intros i. split.
  - apply dup_positions_lt.
  - intros Hi. apply dup_positions_spec. now apply (view_all_repeats a). Qed.

Section View.
  Variable St : Type.
  Variable gen : St -> nat -> list point * St.

  (* whatever the generator answers, every pass finds the WHOLE batch repeated (each redraw has just been written into the
     history), the budget is used up, and the caller's history ends up holding the returned batch *)
  Theorem passes_view_exhausts : forall budget a h s st,
    s <> [] -> a + length s <= length h -> window a (length s) h = s ->
    view_requests St (passes_view St gen budget a h s st) = repeat (length s) budget /\
    window a (length s) (view_history St (passes_view St gen budget a h s st)) = view_output St (passes_view St gen budget a h s st) /\
    length (view_output St (passes_view St gen budget a h s st)) = length s /\
    length (view_history St (passes_view St gen budget a h s st)) = length h.
  Proof. induction budget as [|b IH]; intros a h s st Hne Hlen Hw; cbn [passes_view].
    - unfold view_requests, view_history, view_output. cbn. auto.
    - pose proof (view_flags_all a h s Hw) as Hfull.
      destruct (dup_positions h s) as [|i0 d0] eqn:E.
      + cbn in Hfull. destruct s; [congruence|discriminate].
      + rewrite <- E in *. destruct (gen st (length (dup_positions h s))) as [news st'] eqn:G.
        pose proof (substitute_length s (dup_positions h s) news) as Hl'.
        specialize (IH a (write_through a h (substitute s (dup_positions h s) news)) (substitute s (dup_positions h s) news) st').
        destruct (passes_view St gen b a (write_through a h (substitute s (dup_positions h s) news))
                    (substitute s (dup_positions h s) news) st') as [[[out h'] st''] fl] eqn:P.
        unfold view_requests, view_history, view_output in *. cbn [fst snd map] in *.
        destruct IH as (I1 & I2 & I3 & I4).
        * intros C. rewrite C in Hl'. destruct s; cbn in Hl'; [congruence|discriminate].
        * rewrite write_through_length; lia.
        * apply write_through_window. lia.
        * rewrite Hl' in *. rewrite write_through_length in I4 by lia.
          rewrite Hfull, I1. cbn [repeat]. auto. Qed.

  Theorem sample_view_exhausts bsize budget a h st : 0 < bsize -> a + bsize <= length h ->
    view_requests St (sample_view St gen bsize budget a h st) = repeat bsize budget /\
    window a bsize (view_history St (sample_view St gen bsize budget a h st)) = view_output St (sample_view St gen bsize budget a h st) /\
    length (view_history St (sample_view St gen bsize budget a h st)) = length h.
  Proof. intros Hb Hlen. unfold sample_view. destruct (gen st bsize) as [x st1].
    pose proof (window_length a bsize h Hlen) as Hwl.
    destruct (passes_view_exhausts budget a h (window a bsize h) st1) as (I1 & I2 & _ & I4).
    - intros C. rewrite C in Hwl. cbn in Hwl. lia.
    - lia.
    - now rewrite Hwl.
    - rewrite Hwl in *. auto. Qed.
End View.

(* A concrete run: history [1;2;3], first batch = the view of its rows 0-1, every redraw fresh.  Judged against the
   caller's history one pass would do (requests [2], clean result); the code under the view asks three times for two
   points, throws the first two fresh pairs away and leaves the history overwritten. *)
Lemma view_of_history_refuted :
  exists (h : list point) (script : list (list point)),
    requests _ (sample_script 2 3 h script) = [2] /\
    dup_positions h (output _ (sample_script 2 3 h script)) = [] /\
    view_requests _ (sample_view_script 2 3 0 h script) = [2; 2; 2] /\
    view_history _ (sample_view_script 2 3 0 h script) <> h /\
    output _ (sample_script 2 3 h script) <> view_output _ (sample_view_script 2 3 0 h script).
Proof.
  exists [[1%Z]; [2%Z]; [3%Z]], [[[1%Z]; [2%Z]]; [[4%Z]; [5%Z]]; [[6%Z]; [7%Z]]; [[8%Z]; [9%Z]]].
  vm_compute. repeat split; try reflexivity; intros C; discriminate C. Qed.
