(* Soundness of Model/LogData.v : a passing check_ln_case certifies positivity and closeness to ln, in R. *)
From Coq Require Import List ZArith QArith Qabs Qreals Reals Bool Lia.
From BlackIt Require Import Lib.IvLn Model.HP Model.LogData.
Import ListNotations.

Definition ln_ok (y l : Q) : Prop :=
  (0 < Q2R y)%R /\ (Rabs (ln (Q2R y) - Q2R l) <= Q2R (ln_tol l))%R.

Lemma all2_spec p : forall a b, all2 p a b = true -> Forall2 (fun x y => p x y = true) a b.
Proof.
  unfold all2. induction a as [|x a IH]; intros [|y b] H; apply andb_true_iff in H; destruct H as [L H];
    apply Nat.eqb_eq in L; try discriminate; constructor.
  - cbn [map2 forallb] in H. apply andb_true_iff in H. tauto.
  - apply IH. cbn [map2 forallb length] in *. apply andb_true_iff in H. destruct H as [_ H].
    rewrite H, andb_true_r. apply Nat.eqb_eq. lia.
Qed.

Lemma ln_data_ok_sound y l : ln_data_ok y l = true -> Forall2 ln_ok y l.
Proof.
  intros H. apply all2_spec in H. induction H as [|a b y l Hab _ IH]; constructor; [|exact IH].
  apply ln_close_sound. exact Hab.
Qed.

Lemma check_ln_case_sound y l : check_ln_case (y, l) = true -> Forall2 ln_ok (dyl y) (dyl l).
Proof. apply ln_data_ok_sound. Qed.

(* ---- round 4: the same certificate at the accuracy of a narrower float format ---- *)
Definition ln_ok_w (k : positive) (y l : Q) : Prop :=
  (0 < Q2R y)%R /\ (Rabs (ln (Q2R y) - Q2R l) <= Q2R (ln_tol_w k l))%R.

Lemma ln_data_ok_w_sound k y l : ln_data_ok_w k y l = true -> Forall2 (ln_ok_w k) y l.
Proof.
  intros H. apply all2_spec in H. induction H as [|a b y l Hab _ IH]; constructor; [|exact IH].
  apply ln_close_sound. exact Hab.
Qed.

Lemma check_ln_case_w_sound k y l : check_ln_case_w (k, (y, l)) = true -> Forall2 (ln_ok_w k) (dyl y) (dyl l).
Proof. apply ln_data_ok_w_sound. Qed.

(* the parametrised tolerance at k = 44 is the double-precision one *)
Lemma ln_tol_w_44 l : ln_tol_w 44 l = ln_tol l.
Proof. reflexivity. Qed.
