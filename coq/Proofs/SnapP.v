(* Lemmas about Model/Snap.v (get_closest / digitize_data). *)
From Coq Require Import List QArith Qabs Bool Arith Lia Lqa Sorted.
From BlackIt Require Import Model.Snap.
Import ListNotations.

(* ------------------------------------------------------------------ list helpers *)
Lemma nth_map_seq {A} (f : nat -> A) n d : forall r, (r < n)%nat -> nth r (map f (seq 0 n)) d = f r.
Proof.
  intros r Hr. rewrite (nth_indep _ d (f 0%nat)) by (rewrite map_length, seq_length; exact Hr).
  rewrite map_nth. rewrite seq_nth by exact Hr. reflexivity.
Qed.

Lemma nth_map_in {A B} (f : A -> B) l dA dB : forall r, (r < length l)%nat -> nth r (map f l) dB = f (nth r l dA).
Proof.
  intros r Hr. rewrite (nth_indep _ dB (f dA)) by (rewrite map_length; exact Hr). apply map_nth.
Qed.

Lemma hd_nth0 {A} (l : list (list A)) : hd [] l = nth 0 l [].
Proof. destruct l; reflexivity. Qed.

Lemma Forall2_of_nth {A B} (R : A -> B -> Prop) dA dB : forall l1 l2,
  length l1 = length l2 -> (forall i, (i < length l1)%nat -> R (nth i l1 dA) (nth i l2 dB)) -> Forall2 R l1 l2.
Proof.
  induction l1 as [|a l1 IH]; intros [|b l2] Hlen H; cbn in Hlen; try discriminate; constructor.
  - apply (H 0%nat). cbn. lia.
  - apply IH; [lia|]. intros i Hi. apply (H (S i)). cbn. lia.
Qed.

(* ------------------------------------------------------------------ any numeric type *)
Section Generic.
  Variable num : Type.
  Variable zero : num.
  Variable ltb : num -> num -> bool.
  Variable absdiff : num -> num -> num.

  Notation ssl := (searchsorted_left num ltb).
  Notation closest_at := (closest_at num zero ltb absdiff).
  Notation get_closest := (get_closest num zero ltb absdiff).
  Notation digitize := (digitize num zero ltb absdiff).
  Notation cell := (cell num zero).
  Notation width := (width num).

  Lemma ssl_le g v : (ssl g v <= length g)%nat.
  Proof. induction g as [|x g IH]; cbn; [lia|]. destruct (ltb x v); lia. Qed.

  Lemma final_index_lt n idx b :
    (0 < n)%nat -> (idx <= n)%nat -> (b = false -> idx <> n) -> (final_index n idx b < n)%nat.
  Proof. intros Hn Hi Hb. unfold final_index. destruct b; [destruct idx; lia|]. specialize (Hb eq_refl). lia. Qed.

  (* whatever insertion index in [0, len] searchsorted returns (unsorted grid, NaN value, ...) the result is an
     element of the grid *)
  Lemma closest_at_in_grid g v idx : g <> [] -> (idx <= length g)%nat -> In (closest_at g v idx) g.
  Proof.
    intros Hne Hle. unfold Snap.closest_at.
    assert (0 < length g)%nat by (destruct g; [congruence|cbn; lia]).
    apply nth_In. apply final_index_lt; try assumption.
    intros Hb. apply orb_false_iff in Hb. destruct Hb as [Hb _]. now apply Nat.eqb_neq in Hb.
  Qed.

  Lemma closest_in_grid g v : g <> [] -> In (get_closest g v) g.
  Proof. intros Hne. unfold Snap.get_closest. apply closest_at_in_grid; [assumption | apply ssl_le]. Qed.

  (* the wrap-around of `idxs -= 1` at index 0 is unreachable as soon as `<` is irreflexive *)
  Lemma closest_at_0_no_wrap g v : (forall d, ltb d d = false) -> g <> [] -> closest_at g v 0 = nth 0 g zero.
  Proof.
    intros Hirr Hne. unfold Snap.closest_at. destruct g as [|x g]; [congruence|].
    cbn. rewrite Hirr. reflexivity.
  Qed.

  (* ---------------- digitize *)
  Lemma digitize_length raw grids : length (digitize raw grids) = length raw.
  Proof. unfold Snap.digitize. now rewrite map_length, seq_length. Qed.

  Lemma digitize_row_length raw grids r :
    (r < length raw)%nat -> length (nth r (digitize raw grids) []) = width raw.
  Proof.
    intros Hr. unfold Snap.digitize. rewrite nth_map_seq by exact Hr.
    now rewrite !map_length, seq_length.
  Qed.

  Lemma digitize_rows_width raw grids : Forall (fun row => length row = width raw) (digitize raw grids).
  Proof.
    apply Forall_forall. intros row Hin. apply (In_nth _ _ []) in Hin. destruct Hin as [r [Hr <-]].
    rewrite digitize_length in Hr. now apply digitize_row_length.
  Qed.

  Lemma digitize_shape raw grids :
    length (digitize raw grids) = length raw /\ Forall (fun row => length row = width raw) (digitize raw grids).
  Proof. split; [apply digitize_length | apply digitize_rows_width]. Qed.

  Lemma digitize_width raw grids : raw <> [] -> width (digitize raw grids) = width raw.
  Proof.
    intros Hne. unfold Snap.width at 1. rewrite hd_nth0. apply digitize_row_length.
    destruct raw; [congruence|cbn; lia].
  Qed.

  Lemma digitize_cell raw grids r c : (r < length raw)%nat -> (c < width raw)%nat ->
    cell r c (digitize raw grids) = get_closest (nth c grids []) (cell r c raw).
  Proof.
    intros Hr Hc. unfold Snap.cell, Snap.digitize.
    rewrite nth_map_seq by exact Hr. rewrite map_map. rewrite nth_map_seq by exact Hc.
    unfold get_closest_vec, column. rewrite map_map.
    rewrite (nth_map_in _ raw [] zero) by exact Hr. reflexivity.
  Qed.

  Lemma digitize_cell_in_grid raw grids r c :
    (r < length raw)%nat -> (c < width raw)%nat -> nth c grids [] <> [] ->
    In (cell r c (digitize raw grids)) (nth c grids []).
  Proof. intros Hr Hc Hne. rewrite digitize_cell by assumption. now apply closest_in_grid. Qed.

  Lemma digitize_on_grid raw grids :
    Forall (fun g => g <> []) grids -> (width raw <= length grids)%nat ->
    forall r c, (r < length raw)%nat -> (c < width raw)%nat ->
    In (cell r c (digitize raw grids)) (nth c grids []).
  Proof.
    intros Hall Hw r c Hr Hc. apply digitize_cell_in_grid; try assumption.
    rewrite Forall_forall in Hall. apply Hall, nth_In. lia.
  Qed.

  (* every returned row is a point of the product of the column grids *)
  Lemma digitize_rows_in_product raw grids :
    Forall (fun g => g <> []) grids -> length grids = width raw ->
    Forall (fun row => Forall2 (fun x g => In x g) row grids) (digitize raw grids).
  Proof.
    intros Hall Hw. apply Forall_forall. intros row Hin.
    apply (In_nth _ _ []) in Hin. destruct Hin as [r [Hr Hrow]]. rewrite digitize_length in Hr.
    assert (Hlen : length row = width raw) by (rewrite <- Hrow; now apply digitize_row_length).
    apply (Forall2_of_nth _ zero []); [lia|]. intros c Hc. rewrite <- Hrow.
    change (In (cell r c (digitize raw grids)) (nth c grids [])).
    apply digitize_on_grid; try assumption; lia.
  Qed.
End Generic.

(* ------------------------------------------------------------------ exact rationals *)
Open Scope Q_scope.

Lemma Qltb_spec a b : Qltb a b = true <-> a < b.
Proof.
  unfold Qltb. rewrite negb_true_iff. split.
  - intros H. apply Qnot_le_lt. intros Hle. apply Qle_bool_iff in Hle. congruence.
  - intros H. destruct (Qle_bool b a) eqn:E; [|reflexivity]. apply Qle_bool_iff in E. lra.
Qed.

Lemma Qltb_irrefl d : Qltb d d = false.
Proof. destruct (Qltb d d) eqn:E; [|reflexivity]. apply Qltb_spec in E. lra. Qed.

Lemma ssQ_le g v : (ssQ g v <= length g)%nat.
Proof. apply ssl_le. Qed.

Lemma ssQ_prefix_lt g v : forall j, (j < ssQ g v)%nat -> nth j g 0 < v.
Proof.
  unfold ssQ. induction g as [|x g IH]; cbn; [lia|]. destruct (Qltb x v) eqn:E; [|lia].
  intros [|j] Hj; cbn; [now apply Qltb_spec | apply IH; lia].
Qed.

Lemma ssQ_at_ge g v : StronglySorted Qle g -> forall j, (ssQ g v <= j < length g)%nat -> v <= nth j g 0.
Proof.
  unfold ssQ. induction 1 as [|x g Hs IH Hall]; cbn; [lia|].
  destruct (Qltb x v) eqn:E.
  - intros [|j] Hj; [lia|]. cbn. apply IH. lia.
  - assert (v <= x).
    { destruct (Qlt_le_dec x v) as [Hl|Hl]; [|exact Hl]. apply Qltb_spec in Hl. congruence. }
    intros [|j] Hj; cbn; [exact H|]. rewrite Forall_forall in Hall.
    assert (x <= nth j g 0) by (apply Hall, nth_In; lia). lra.
Qed.

Lemma sorted_nth_le g : StronglySorted Qle g -> forall i j, (i <= j < length g)%nat -> nth i g 0 <= nth j g 0.
Proof.
  induction 1 as [|x g Hs IH Hall]; cbn; [lia|]. intros [|i] [|j] Hij; cbn; try lia; try lra.
  - rewrite Forall_forall in Hall. apply Hall, nth_In; lia.
  - apply IH; lia.
Qed.

Lemma final_index_true n i : i <> 0%nat -> final_index n i true = (i - 1)%nat.
Proof. intros H. destruct i; [congruence|]. cbn. lia. Qed.

(* searchsorted_left really is np.searchsorted(side="left") on a sorted grid: the unique i with
   g[j] < v for j < i and v <= g[j] for j >= i *)
Lemma ssQ_spec g v : StronglySorted Qle g ->
  (ssQ g v <= length g)%nat /\ (forall j, (j < ssQ g v)%nat -> nth j g 0 < v) /\
  (forall j, (ssQ g v <= j < length g)%nat -> v <= nth j g 0).
Proof. intros Hs. split; [apply ssQ_le|]. split; [apply ssQ_prefix_lt | now apply ssQ_at_ge]. Qed.

Lemma closest_is_nearest g v : StronglySorted Qle g -> g <> [] ->
  forall x, In x g -> Qabsdiff v (get_closestQ g v) <= Qabsdiff v x.
Proof.
  intros Hs Hne x Hx. apply (In_nth _ _ 0) in Hx. destruct Hx as [j [Hj <-]].
  unfold get_closestQ, get_closest, closest_at. fold (ssQ g v).
  set (i := ssQ g v). set (n := length g).
  pose proof (ssQ_le g v) as Hle. fold i n in Hle.
  assert (Hlt : forall k, (k < i)%nat -> nth k g 0 < v) by (apply ssQ_prefix_lt).
  assert (Hge : forall k, (i <= k < n)%nat -> v <= nth k g 0) by (apply ssQ_at_ge; assumption).
  assert (Hmono := sorted_nth_le g Hs). fold n in Hj.
  unfold Qabsdiff.
  destruct (Nat.eqb_spec i n) as [He|Hn]; cbn [orb].
  - (* beyond the end: all elements < v, the last one is returned *)
    rewrite final_index_true by lia.
    assert (nth j g 0 <= nth (i - 1) g 0) by (apply Hmono; lia).
    assert (nth (i-1) g 0 < v) by (apply Hlt; lia).
    assert (nth j g 0 < v) by (apply Hlt; lia).
    rewrite !Qabs_pos by lra. lra.
  - destruct (Nat.eq_dec i 0) as [H0|H0].
    + (* before the start: prev = next = g[0]; strict < is false *)
      rewrite H0. cbn [Nat.sub Nat.max Nat.min]. replace (Nat.min 0 (n-1)) with 0%nat by lia.
      rewrite Qltb_irrefl. cbn [final_index].
      assert (v <= nth 0 g 0) by (apply Hge; lia).
      assert (nth 0 g 0 <= nth j g 0) by (apply Hmono; lia).
      rewrite !Qabs_neg by lra. lra.
    + replace (Nat.max (i-1) 0) with (i-1)%nat by lia. replace (Nat.min i (n-1)) with i by lia.
      assert (Hp : nth (i-1) g 0 < v) by (apply Hlt; lia).
      assert (Hn' : v <= nth i g 0) by (apply Hge; lia).
      destruct (Qltb _ _) eqn:E.
      * rewrite final_index_true by lia.
        apply Qltb_spec in E. rewrite (Qabs_pos (v - nth (i-1) g 0)) in * by lra.
        rewrite (Qabs_neg (v - nth i g 0)) in E by lra.
        destruct (Nat.lt_ge_cases j i) as [Hji|Hji].
        -- assert (nth j g 0 <= nth (i-1) g 0) by (apply Hmono; lia).
           assert (nth j g 0 < v) by (apply Hlt; lia). rewrite Qabs_pos by lra. lra.
        -- assert (nth i g 0 <= nth j g 0) by (apply Hmono; lia). rewrite Qabs_neg by lra. lra.
      * cbn [final_index].
        assert (E' : ~ Qabs (v - nth (i-1) g 0) < Qabs (v - nth i g 0))
          by (intros C; apply Qltb_spec in C; congruence).
        rewrite (Qabs_pos (v - nth (i-1) g 0)) in E' by lra.
        rewrite (Qabs_neg (v - nth i g 0)) in * by lra.
        destruct (Nat.lt_ge_cases j i) as [Hji|Hji].
        -- assert (nth j g 0 <= nth (i-1) g 0) by (apply Hmono; lia).
           assert (nth j g 0 < v) by (apply Hlt; lia). rewrite Qabs_pos by lra. lra.
        -- assert (nth i g 0 <= nth j g 0) by (apply Hmono; lia). rewrite Qabs_neg by lra. lra.
Qed.

Lemma closestQ_in_grid g v : g <> [] -> In (get_closestQ g v) g.
Proof. apply closest_in_grid. Qed.

(* values outside the range go to the end points *)
Lemma closest_below_first g v : StronglySorted Qle g -> g <> [] -> v <= nth 0 g 0 -> get_closestQ g v == nth 0 g 0.
Proof.
  intros Hs Hne Hv.
  assert (Hin : In (nth 0 g 0) g) by (apply nth_In; destruct g; [congruence|cbn; lia]).
  pose proof (closest_is_nearest g v Hs Hne _ Hin) as Hn.
  pose proof (closestQ_in_grid g v Hne) as Hc. apply (In_nth _ _ 0) in Hc. destruct Hc as [j [Hj Hc]].
  assert (nth 0 g 0 <= get_closestQ g v) by (rewrite <- Hc; apply sorted_nth_le; [assumption|lia]).
  unfold Qabsdiff in Hn. rewrite !Qabs_neg in Hn by lra. lra.
Qed.

Lemma closest_above_last g v : StronglySorted Qle g -> g <> [] -> nth (length g - 1) g 0 <= v ->
  get_closestQ g v == nth (length g - 1) g 0.
Proof.
  intros Hs Hne Hv.
  assert (0 < length g)%nat by (destruct g; [congruence|cbn; lia]).
  assert (Hin : In (nth (length g - 1) g 0) g) by (apply nth_In; lia).
  pose proof (closest_is_nearest g v Hs Hne _ Hin) as Hn.
  pose proof (closestQ_in_grid g v Hne) as Hc. apply (In_nth _ _ 0) in Hc. destruct Hc as [j [Hj Hc]].
  assert (get_closestQ g v <= nth (length g - 1) g 0) by (rewrite <- Hc; apply sorted_nth_le; [assumption|lia]).
  unfold Qabsdiff in Hn. rewrite !Qabs_pos in Hn by lra. lra.
Qed.

(* idempotence *)
Lemma closest_idempotent g x : StronglySorted Qle g -> In x g -> get_closestQ g x == x.
Proof.
  intros Hs Hx. assert (Hne : g <> []) by (destruct g; [destruct Hx|congruence]).
  pose proof (closest_is_nearest g x Hs Hne x Hx) as H. unfold Qabsdiff in H.
  assert (E : Qabs (x - x) == 0) by (rewrite Qabs_pos; lra). rewrite E in H.
  apply Qabs_Qle_condition in H. destruct H. lra.
Qed.

Lemma closest_idempotent2 g v : StronglySorted Qle g -> g <> [] ->
  get_closestQ g (get_closestQ g v) == get_closestQ g v.
Proof. intros Hs Hne. apply closest_idempotent; [assumption | now apply closestQ_in_grid]. Qed.

Lemma sorted_lt_le g : StronglySorted Qlt g -> StronglySorted Qle g.
Proof.
  induction 1 as [|x g Hs IH Hall]; constructor; [assumption|].
  eapply Forall_impl; [|exact Hall]. intros a Ha. cbn in Ha. lra.
Qed.

Lemma sorted_lt_Qeq_eq g : StronglySorted Qlt g -> forall a b, In a g -> In b g -> a == b -> a = b.
Proof.
  induction 1 as [|x g Hs IH Hall]; intros a b Ha Hb Hab; [destruct Ha|].
  rewrite Forall_forall in Hall. destruct Ha as [<-|Ha], Hb as [<-|Hb]; try reflexivity.
  - specialize (Hall _ Hb). lra.
  - specialize (Hall _ Ha). lra.
  - now apply IH.
Qed.

(* on a strictly increasing grid the fixed point is literal (same representative) *)
Lemma closest_idempotent_strict g x : StronglySorted Qlt g -> In x g -> get_closestQ g x = x.
Proof.
  intros Hs Hx. assert (Hne : g <> []) by (destruct g; [destruct Hx|congruence]).
  apply (sorted_lt_Qeq_eq g Hs); [now apply closestQ_in_grid | assumption |].
  apply closest_idempotent; [now apply sorted_lt_le | assumption].
Qed.

(* exact mid-point of two neighbouring, distinct elements: the upper one (strict `<`) *)
Lemma closest_at_midpoint_upper l a b r :
  StronglySorted Qle (l ++ a :: b :: r) -> a < b -> get_closestQ (l ++ a :: b :: r) ((a + b) / 2) == b.
Proof.
  intros Hs Hab. set (g := l ++ a :: b :: r) in *. set (v := (a + b) / 2).
  assert (Ev : v == (a + b) * (1 # 2)) by (unfold v, Qdiv; reflexivity).
  assert (Hav : a < v) by lra. assert (Hvb : v < b) by lra.
  assert (Hlen : length g = (length l + 2 + length r)%nat)
    by (unfold g; rewrite app_length; cbn; lia).
  assert (Ha : nth (length l) g 0 = a) by (unfold g; rewrite app_nth2 by lia; now rewrite Nat.sub_diag).
  assert (Hb : nth (S (length l)) g 0 = b).
  { unfold g. rewrite app_nth2 by lia. replace (S (length l) - length l)%nat with 1%nat by lia. reflexivity. }
  destruct (ssQ_spec g v Hs) as [Hle [Hlt Hge]].
  assert (Hi : ssQ g v = S (length l)).
  { destruct (Nat.lt_trichotomy (ssQ g v) (S (length l))) as [C|[C|C]]; [|exact C|].
    - assert (v <= nth (length l) g 0) by (apply Hge; lia). rewrite Ha in *. lra.
    - assert (nth (S (length l)) g 0 < v) by (apply Hlt; lia). rewrite Hb in *. lra. }
  unfold get_closestQ, get_closest. fold (ssQ g v). rewrite Hi. unfold closest_at.
  replace (Nat.max (S (length l) - 1) 0) with (length l) by lia.
  replace (Nat.min (S (length l)) (length g - 1)) with (S (length l)) by lia.
  rewrite Ha, Hb.
  destruct (Nat.eqb_spec (S (length l)) (length g)) as [C|_]; [lia|]. cbn [orb].
  assert (E : Qltb (Qabsdiff v a) (Qabsdiff v b) = false).
  { destruct (Qltb _ _) eqn:E; [|reflexivity]. apply Qltb_spec in E. unfold Qabsdiff in E.
    rewrite Qabs_pos in E by lra. rewrite Qabs_neg in E by lra. lra. }
  rewrite E. cbn [final_index]. rewrite Hb. reflexivity.
Qed.

(* ---------------- digitize over Q *)
Lemma digitizeQ_cell raw grids r c : (r < length raw)%nat -> (c < width Q raw)%nat ->
  cellQ r c (digitizeQ raw grids) = get_closestQ (nth c grids []) (cellQ r c raw).
Proof. apply digitize_cell. Qed.

Lemma digitizeQ_nearest raw grids r c :
  (r < length raw)%nat -> (c < width Q raw)%nat ->
  StronglySorted Qle (nth c grids []) -> nth c grids [] <> [] ->
  In (cellQ r c (digitizeQ raw grids)) (nth c grids []) /\
  forall x, In x (nth c grids []) -> Qabsdiff (cellQ r c raw) (cellQ r c (digitizeQ raw grids)) <= Qabsdiff (cellQ r c raw) x.
Proof.
  intros Hr Hc Hs Hne. rewrite digitizeQ_cell by assumption. split.
  - now apply closestQ_in_grid.
  - now apply closest_is_nearest.
Qed.

Lemma digitizeQ_idempotent raw grids r c :
  (r < length raw)%nat -> (c < width Q raw)%nat ->
  StronglySorted Qle (nth c grids []) -> nth c grids [] <> [] ->
  cellQ r c (digitizeQ (digitizeQ raw grids) grids) == cellQ r c (digitizeQ raw grids).
Proof.
  intros Hr Hc Hs Hne.
  assert (Hraw : raw <> []) by (destruct raw; [cbn in Hr; lia|congruence]).
  unfold digitizeQ, cellQ.
  rewrite (digitize_cell Q 0 Qltb Qabsdiff (digitize Q 0 Qltb Qabsdiff raw grids)).
  - rewrite (digitize_cell Q 0 Qltb Qabsdiff raw) by assumption. now apply closest_idempotent2.
  - now rewrite digitize_length.
  - now rewrite digitize_width.
Qed.
