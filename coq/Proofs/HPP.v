(* Lemmas about Model/HP.v : the HP operator A = I + lam K^T K on lists of rationals of ANY length is
   symmetric positive definite (coercive with constant 1), hence injective, and an exactly computed residual
   bounds the distance to the solution.  Vectors are compared pointwise with Qeq (veq). *)
From Coq Require Import List ZArith QArith Qabs Qminmax Qreduction Bool Lia Lqa Setoid Morphisms Qfield.
From BlackIt Require Import Model.HP.
Import ListNotations.
Open Scope Q_scope.

Definition veq : list Q -> list Q -> Prop := Forall2 Qeq.

Lemma veq_refl a : veq a a.
Proof. induction a; constructor; auto with qarith. Qed.
Lemma veq_sym a b : veq a b -> veq b a.
Proof. induction 1; constructor; auto with qarith. Qed.
Lemma veq_trans a b c : veq a b -> veq b c -> veq a c.
Proof.
  intros H; revert c; induction H; intros c' H'; inversion H'; subst; constructor;
    [eapply Qeq_trans; eassumption | apply IHForall2; assumption].
Qed.
Lemma veq_length a b : veq a b -> length a = length b.
Proof. induction 1; simpl; auto. Qed.

(* two-step induction matching the recursion of K *)
Lemma list_ind3 (P : list Q -> Prop) :
  P [] -> (forall a, P [a]) -> (forall a b, P [a; b]) ->
  (forall a b c r, P (b :: c :: r) -> P (a :: b :: c :: r)) -> forall l, P l.
Proof.
  intros H0 H1 H2 H3; induction l as [|a l IH]; auto.
  destruct l as [|b [|c r]]; auto.
Qed.

Lemma K_cons3 a b c r : K (a :: b :: c :: r) = (a - 2 * b + c) :: K (b :: c :: r).
Proof. reflexivity. Qed.

(* ---------------------------------------------------------------- lengths *)
Lemma map2_length {X Y Z} (f : X -> Y -> Z) a b : length (map2 f a b) = Nat.min (length a) (length b).
Proof. revert b; induction a; destruct b; simpl; auto. Qed.

Lemma K_length t : length (K t) = (length t - 2)%nat.
Proof.
  induction t using list_ind3; try reflexivity.
  rewrite K_cons3. simpl length in *. lia.
Qed.

Lemma Kt_shape u : exists k0 k1 ks, Kt u = k0 :: k1 :: ks /\ length ks = length u.
Proof.
  induction u as [|a r IH].
  - exists 0, 0, []; auto.
  - destruct IH as (k0 & k1 & ks & E & L). simpl. rewrite E. simpl.
    eexists _, _, _; split; [reflexivity|]. simpl; lia.
Qed.

Lemma Kt_length u : length (Kt u) = (length u + 2)%nat.
Proof. destruct (Kt_shape u) as (k0 & k1 & ks & E & L). rewrite E. simpl. lia. Qed.

Lemma A_length lam t : length (A lam t) = length t.
Proof.
  unfold A, vadd, vscale. rewrite map2_length, map_length, Kt_length, K_length. lia.
Qed.

Lemma resid_length lam t y : length t = length y -> length (resid lam t y) = length y.
Proof. intros H. unfold resid, vsub. rewrite map2_length, A_length. lia. Qed.

(* ---------------------------------------------------------------- dot product *)
Local Ltac csimpl := cbn [dot map2 map vadd vsub vscale length add2 Kt qsum fold_right linf].

Lemma dot_nil_r a : dot a [] = 0.
Proof. destruct a; reflexivity. Qed.

Lemma dot_comm a b : dot a b == dot b a.
Proof.
  revert b; induction a as [|x a IH]; intros [|y b]; csimpl; try reflexivity.
  rewrite IH. ring.
Qed.

Lemma dot_veq a a' b b' : veq a a' -> veq b b' -> dot a b == dot a' b'.
Proof.
  intros H; revert b b'; induction H as [|x x' a a' Hx Ha IH]; intros b b' Hb.
  - reflexivity.
  - inversion Hb as [|y y' b0 b0' Hy Hb0]; subst; csimpl; [reflexivity|].
    rewrite Hx, Hy, (IH _ _ Hb0). reflexivity.
Qed.

Lemma nrm2_nonneg a : 0 <= nrm2 a.
Proof.
  unfold nrm2; induction a as [|x a IH]; csimpl; [lra|].
  assert (0 <= x * x) by nra. lra.
Qed.

Lemma dot_vscale_r c x w : dot x (vscale c w) == c * dot x w.
Proof.
  revert w; induction x as [|a x IH]; intros [|b w]; csimpl; try ring.
  rewrite IH. ring.
Qed.

(* x and a of the same length, b at least as long *)
Lemma dot_vadd_r x a b : length x = length a -> (length a <= length b)%nat ->
  dot x (vadd a b) == dot x a + dot x b.
Proof.
  revert a b; induction x as [|x0 x IH]; intros [|a0 a] [|b0 b]; csimpl; intros H1 H2; try discriminate; try lia; try ring.
  rewrite IH by lia. ring.
Qed.

Lemma dot_vsub_r x a b : length x = length a -> length a = length b ->
  dot x (vsub a b) == dot x a - dot x b.
Proof.
  revert a b; induction x as [|x0 x IH]; intros [|a0 a] [|b0 b]; csimpl; intros H1 H2; try discriminate; try ring.
  rewrite IH by lia. ring.
Qed.

Lemma dot_vsub_l x a b : length x = length a -> length a = length b ->
  dot (vsub a b) x == dot a x - dot b x.
Proof.
  intros. rewrite dot_comm, dot_vsub_r by assumption. rewrite (dot_comm x a), (dot_comm x b). reflexivity.
Qed.

Lemma dot_zero2 t : dot t [0; 0] == 0.
Proof. destruct t as [|a [|b t]]; csimpl; rewrite ?dot_nil_r; ring. Qed.

(* ---------------------------------------------------------------- K^T is the adjoint of K *)
Lemma K_adjoint t : forall u, length u = length (K t) -> dot t (Kt u) == dot u (K t).
Proof.
  induction t as [| a | a b | a b c r IH] using list_ind3; intros u Hu.
  - destruct u; [|discriminate]. reflexivity.
  - destruct u; [|discriminate]. csimpl. rewrite ?dot_nil_r. ring.
  - destruct u; [|discriminate]. csimpl. ring.
  - rewrite K_cons3 in *. destruct u as [|u0 u']; [discriminate|].
    simpl in Hu. injection Hu as Hu.
    specialize (IH u' Hu).
    destruct (Kt_shape u') as (k0 & k1 & ks & E & _).
    cbn [Kt]. rewrite E in *. cbn [add2 dot] in *.
    rewrite <- IH. ring.
Qed.

Lemma KtK_adjoint_lemma t : dot t (Kt (K t)) == nrm2 (K t).
Proof. unfold nrm2. apply K_adjoint. reflexivity. Qed.

(* ---------------------------------------------------------------- K is linear and respects == *)
Lemma K_vsub a : forall b, veq (K (vsub a b)) (vsub (K a) (K b)).
Proof.
  induction a as [| a0 | a0 a1 | a0 a1 a2 ra IH] using list_ind3; intros b.
  - constructor.
  - destruct b as [|b0 b]; constructor.
  - destruct b as [|b0 [|b1 b]]; constructor.
  - destruct b as [|b0 [|b1 [|b2 rb]]]; [constructor | constructor | constructor | ].
    + change (vsub (a0 :: a1 :: a2 :: ra) (b0 :: b1 :: b2 :: rb))
        with ((a0 - b0) :: vsub (a1 :: a2 :: ra) (b1 :: b2 :: rb)).
      change (vsub (a1 :: a2 :: ra) (b1 :: b2 :: rb))
        with ((a1 - b1) :: (a2 - b2) :: vsub ra rb).
      rewrite !K_cons3. cbn [vsub map2]. constructor.
      * ring.
      * apply (IH (b1 :: b2 :: rb)).
Qed.

Lemma K_veq t : forall t', veq t t' -> veq (K t) (K t').
Proof.
  induction t as [| a | a b | a b c r IH] using list_ind3; intros t' H.
  - inversion H; constructor.
  - inversion H as [|? ? ? ? ? H1]; subst. inversion H1; subst. constructor.
  - inversion H as [|? ? ? ? ? H1]; subst. inversion H1 as [|? ? ? ? ? H2]; subst. inversion H2; subst. constructor.
  - inversion H as [|? a' ? ? Ha H1]; subst. inversion H1 as [|? b' ? ? Hb H2]; subst.
    inversion H2 as [|? c' ? r' Hc H3]; subst.
    rewrite !K_cons3. constructor.
    + rewrite Ha, Hb, Hc. reflexivity.
    + apply IH. assumption.
Qed.

Lemma vsub_veq a a' b b' : veq a a' -> veq b b' -> veq (vsub a b) (vsub a' b').
Proof.
  intros H; revert b b'; induction H as [|x x' a a' Hx Ha IH]; intros b b' Hb.
  - constructor.
  - inversion Hb as [|y y' b0 b0' Hy Hb0]; subst; csimpl; constructor.
    + rewrite Hx, Hy. reflexivity.
    + apply IH; assumption.
Qed.

(* ---------------------------------------------------------------- the bilinear form of A *)
Lemma A_form lam e t : length e = length t ->
  dot e (A lam t) == dot e t + lam * dot (K t) (K e).
Proof.
  intros H. unfold A.
  rewrite dot_vadd_r; [| assumption | unfold vscale; rewrite map_length, Kt_length, K_length; lia].
  rewrite dot_vscale_r.
  rewrite (K_adjoint e (K t)) by (rewrite !K_length; lia).
  reflexivity.
Qed.

Lemma hp_pos_def_lemma lam x : 0 <= lam -> nrm2 x <= dot x (A lam x).
Proof.
  intros Hl. rewrite A_form by reflexivity.
  pose proof (nrm2_nonneg (K x)) as H. unfold nrm2 in *.
  assert (0 <= lam * dot (K x) (K x)) by nra. lra.
Qed.

(* coercivity on differences: the common core of uniqueness and of the error bound *)
Lemma A_coercive_diff lam a b : 0 <= lam -> length a = length b ->
  nrm2 (vsub a b) <= dot (vsub a b) (vsub (A lam a) (A lam b)).
Proof.
  intros Hl Hab.
  set (e := vsub a b).
  assert (He : length e = length a) by (unfold e, vsub; rewrite map2_length; lia).
  rewrite dot_vsub_r by (rewrite ?A_length; lia).
  rewrite !A_form by lia.
  assert (E1 : dot e a - dot e b == nrm2 e).
  { change (nrm2 e) with (dot e (vsub a b)). rewrite dot_vsub_r by lia. reflexivity. }
  assert (E2 : dot (K a) (K e) - dot (K b) (K e) == nrm2 (K e)).
  { rewrite <- dot_vsub_l by (rewrite !K_length; lia).
    unfold nrm2. apply dot_veq; [|apply veq_refl].
    apply veq_sym. apply K_vsub. }
  pose proof (nrm2_nonneg (K e)) as Hk.
  assert (0 <= lam * nrm2 (K e)) by nra.
  assert (dot e a + lam * dot (K a) (K e) - (dot e b + lam * dot (K b) (K e))
          == nrm2 e + lam * nrm2 (K e)) as ->.
  { rewrite <- E1, <- E2. ring. }
  lra.
Qed.

(* ---------------------------------------------------------------- definiteness of the norm *)
Lemma nrm2_zero d : nrm2 d <= 0 -> Forall (fun x => x == 0) d.
Proof.
  unfold nrm2; induction d as [|x d IH]; csimpl; intros H; constructor.
  - pose proof (nrm2_nonneg d) as Hd. unfold nrm2 in Hd. nra.
  - apply IH. assert (0 <= x * x) by nra. lra.
Qed.

Lemma vsub_zero_veq a : forall b, length a = length b -> Forall (fun x => x == 0) (vsub a b) -> veq a b.
Proof.
  induction a as [|x a IH]; intros [|y b] Hl H; try discriminate; constructor.
  - inversion H; subst. lra.
  - inversion H; subst. apply IH; auto.
Qed.

Lemma dot_zero_r x z : Forall (fun v => v == 0) z -> dot x z == 0.
Proof.
  intros H; revert x; induction H as [|v z Hv Hz IH]; intros [|a x]; csimpl; try reflexivity.
  rewrite IH, Hv. ring.
Qed.

Lemma vsub_self_zero a b : veq a b -> Forall (fun v => v == 0) (vsub a b).
Proof. induction 1; csimpl; constructor; auto. lra. Qed.

Lemma hp_unique_lemma lam t t' : 0 <= lam -> veq (A lam t) (A lam t') -> veq t t'.
Proof.
  intros Hl H.
  assert (L : length t = length t') by (apply veq_length in H; rewrite !A_length in H; exact H).
  apply vsub_zero_veq; [exact L|]. apply nrm2_zero.
  eapply Qle_trans; [apply A_coercive_diff; eassumption|].
  rewrite dot_zero_r; [lra|]. apply vsub_self_zero. exact H.
Qed.

(* ---------------------------------------------------------------- residual bounds error *)
Lemma nrm2_vsub_expand r e : length r = length e ->
  nrm2 (vsub r e) == nrm2 r - 2 * dot e r + nrm2 e.
Proof.
  intros H. unfold nrm2.
  rewrite dot_vsub_r by (unfold vsub; rewrite ?map2_length; lia).
  rewrite !dot_vsub_l by lia.
  rewrite (dot_comm r e). ring.
Qed.

Lemma hp_residual_bounds_error_lemma lam y ts th : 0 <= lam -> length th = length ts ->
  veq (A lam ts) y -> nrm2 (vsub th ts) <= nrm2 (resid lam th y).
Proof.
  intros Hl L Hy.
  set (e := vsub th ts). set (r := resid lam th y).
  assert (Le : length e = length th) by (unfold e, vsub; rewrite map2_length; lia).
  assert (Ly : length y = length ts) by (apply veq_length in Hy; rewrite A_length in Hy; lia).
  assert (Lr : length r = length th) by (unfold r; rewrite resid_length; lia).
  assert (C : nrm2 e <= dot e r).
  { eapply Qle_trans; [apply A_coercive_diff; eassumption|].
    apply Qle_lteq; right. apply dot_veq; [apply veq_refl|].
    unfold r, resid. apply vsub_veq; [apply veq_refl | exact Hy]. }
  pose proof (nrm2_nonneg (vsub r e)) as P.
  rewrite nrm2_vsub_expand in P by lia.
  lra.
Qed.

(* Cauchy-Schwarz on lists (not needed for the bound above, which uses 0 <= |r - e|^2 directly) *)
Lemma nrm2_lin x y a b : length a = length b ->
  nrm2 (vsub (vscale x a) (vscale y b)) == x * x * nrm2 a - 2 * x * y * dot a b + y * y * nrm2 b.
Proof.
  unfold nrm2. revert b; induction a as [|a0 a IH]; intros [|b0 b] H; try discriminate; csimpl; [ring|].
  rewrite IH by (simpl in H; lia). ring.
Qed.

Lemma cauchy_schwarz_lemma a b : length a = length b -> dot a b * dot a b <= nrm2 a * nrm2 b.
Proof.
  intros H.
  pose proof (nrm2_nonneg (vsub (vscale (nrm2 b) a) (vscale (dot a b) b))) as P.
  rewrite nrm2_lin in P by assumption.
  pose proof (nrm2_nonneg a) as Pa. pose proof (nrm2_nonneg b) as Pb.
  destruct (Qlt_le_dec 0 (nrm2 b)) as [Hb|Hb].
  - (* nb * (na*nb - ab^2) >= 0 and nb > 0 *)
    set (na := nrm2 a) in *. set (nb := nrm2 b) in *. set (ab := dot a b) in *.
    assert (E : nb * nb * na - 2 * nb * ab * ab + ab * ab * nb == nb * (na * nb - ab * ab)) by ring.
    rewrite E in P.
    destruct (Qlt_le_dec (na * nb) (ab * ab)) as [Hlt|]; [|assumption].
    exfalso. assert (nb * (na * nb - ab * ab) < 0) by nra. lra.
  - (* b == 0 pointwise, so a.b == 0 *)
    assert (Z : Forall (fun v => v == 0) b) by (apply nrm2_zero; exact Hb).
    rewrite (dot_zero_r a b Z). nra.
Qed.

(* ---------------------------------------------------------------- sup norm and the certificate *)
Lemma linf_nonneg l : 0 <= linf l.
Proof. induction l; csimpl; [lra|]. apply Q.max_le_iff. right; assumption. Qed.

Lemma linf_bounds l : Forall (fun x => Qabs x <= linf l) l.
Proof.
  induction l as [|x l IH]; constructor; csimpl.
  - apply Q.le_max_l.
  - eapply Forall_impl; [|exact IH]. intros v Hv. simpl in Hv.
    eapply Qle_trans; [exact Hv|]. apply Q.le_max_r.
Qed.

Lemma nrm2_le_bound B r : 0 <= B -> Forall (fun x => Qabs x <= B) r ->
  nrm2 r <= inject_Z (Z.of_nat (length r)) * (B * B).
Proof.
  intros HB H. unfold nrm2. induction H as [|x r Hx Hr IH].
  - change (0 <= 0 * (B * B)). lra.
  - cbn [dot length]. rewrite Nat2Z.inj_succ, <- Z.add_1_r, inject_Z_plus.
    assert (x * x <= B * B).
    { apply Qabs_Qle_condition in Hx. destruct Hx. nra. }
    change (inject_Z 1) with 1. lra.
Qed.

(* ---- the reduced residual evaluated by the check is pointwise == to the residual of the theorems ---- *)
Lemma qred_l_veq l : veq (qred_l l) l.
Proof. induction l; constructor; [apply Qred_correct | assumption]. Qed.

Lemma add2_veq x x' y y' l l' : x == x' -> y == y' -> veq l l' -> veq (add2 x y l) (add2 x' y' l').
Proof.
  intros Hx Hy H. destruct H as [|k0 k0' l l' H0 H]; [repeat constructor; assumption|].
  destruct H as [|k1 k1' l l' H1 H]; cbn [add2].
  - repeat constructor; [rewrite Hx, H0; reflexivity | assumption].
  - constructor; [rewrite Hx, H0; reflexivity|]. constructor; [rewrite Hy, H1; reflexivity | assumption].
Qed.

Lemma Kt_veq u u' : veq u u' -> veq (Kt u) (Kt u').
Proof.
  induction 1 as [|a a' u u' Ha Hu IH]; cbn [Kt].
  - apply veq_refl.
  - constructor; [assumption|]. apply add2_veq; [rewrite Ha; reflexivity | assumption | assumption].
Qed.

Lemma vadd_veq a a' b b' : veq a a' -> veq b b' -> veq (vadd a b) (vadd a' b').
Proof.
  intros H; revert b b'; induction H as [|x x' a a' Hx Ha IH]; intros b b' Hb.
  - constructor.
  - inversion Hb as [|y y' b0 b0' Hy Hb0]; subst; csimpl; constructor.
    + rewrite Hx, Hy. reflexivity.
    + apply IH; assumption.
Qed.

Lemma vscale_veq c a a' : veq a a' -> veq (vscale c a) (vscale c a').
Proof. induction 1 as [|x x' a a' Hx Ha IH]; csimpl; constructor; [rewrite Hx; reflexivity | assumption]. Qed.

Lemma A_red_veq lam t t' : veq t t' -> veq (A_red lam t') (A lam t).
Proof.
  intros H. unfold A_red, A. apply vadd_veq; [apply veq_sym; exact H|]. apply vscale_veq.
  eapply veq_trans; [apply qred_l_veq|]. apply Kt_veq.
  eapply veq_trans; [apply qred_l_veq|]. apply K_veq. apply veq_sym. exact H.
Qed.

Lemma resid_red_veq lam t t' y : veq t t' -> veq (resid_red lam t' y) (resid lam t y).
Proof.
  intros H. unfold resid_red, resid. eapply veq_trans; [apply qred_l_veq|].
  apply vsub_veq; [apply A_red_veq; exact H | apply veq_refl].
Qed.

Lemma linf_veq a b : veq a b -> linf a == linf b.
Proof.
  induction 1 as [|x y a b Hx Hab IH]; cbn [linf fold_right]; [reflexivity|].
  fold (linf a). fold (linf b). rewrite IH, Hx. reflexivity.
Qed.

Lemma hp_tol_veq lam t t' slack : veq t t' -> hp_tol lam t slack == hp_tol lam t' slack.
Proof. intros H. unfold hp_tol. rewrite (linf_veq _ _ H). reflexivity. Qed.

(* a certificate evaluated on any representation t' of the trend t (t' == t pointwise) *)
Lemma resid_ok_spec_veq lam y t t' slack : veq t t' -> resid_ok lam y t' slack = true ->
  length t = length y /\ linf (resid lam t y) <= hp_tol lam t slack.
Proof.
  intros H. unfold resid_ok. rewrite andb_true_iff, Nat.eqb_eq, Qle_bool_iff. intros [L B].
  split; [rewrite (veq_length _ _ H); exact L|].
  rewrite <- (linf_veq _ _ (resid_red_veq lam t t' y H)), (hp_tol_veq lam t t' slack H). exact B.
Qed.

Lemma resid_ok_spec lam y t slack : resid_ok lam y t slack = true ->
  length t = length y /\ linf (resid lam t y) <= hp_tol lam t slack.
Proof. apply resid_ok_spec_veq. apply veq_refl. Qed.

(* end-to-end: a passing residual certificate bounds the distance of the implementation's trend to ANY exact
   solution of the HP system (unique by hp_unique_lemma) *)
Lemma hp_certificate_sound_lemma lam y ts th th' slack : 0 <= lam -> veq th th' ->
  resid_ok lam y th' slack = true -> veq (A lam ts) y ->
  nrm2 (vsub th ts) <= inject_Z (Z.of_nat (length y)) * (hp_tol lam th slack * hp_tol lam th slack).
Proof.
  intros Hl Hv Hc Hy. apply (resid_ok_spec_veq lam y th th' slack Hv) in Hc. destruct Hc as [L Hc].
  assert (Ly : length y = length ts) by (apply veq_length in Hy; rewrite A_length in Hy; lia).
  eapply Qle_trans; [apply hp_residual_bounds_error_lemma; try eassumption; lia|].
  rewrite <- (resid_length lam th y L).
  apply nrm2_le_bound.
  - eapply Qle_trans; [apply linf_nonneg | exact Hc].
  - eapply Forall_impl; [|apply linf_bounds]. intros v Hb. simpl in Hb. lra.
Qed.

(* ---------------------------------------------------------------- cycle + trend = series *)
Lemma cycle_plus_trend_lemma y : forall t, length y = length t -> veq (vadd (vsub y t) t) y.
Proof.
  induction y as [|a y IH]; intros [|b t] H; try discriminate; csimpl; constructor.
  - ring.
  - apply IH. simpl in H. lia.
Qed.

Lemma all3_spec p a : forall b c, all3 p a b c = true ->
  length a = length b /\ length b = length c.
Proof.
  induction a as [|x a IH]; intros [|y b] [|z c]; cbn [all3 length]; try discriminate; auto.
  rewrite andb_true_iff. intros [_ H]. apply IH in H. lia.
Qed.

Lemma cycle_ok_lengths y t c : cycle_ok y t c = true -> length y = length t /\ length t = length c.
Proof. apply all3_spec. Qed.

(* ---------------------------------------------------------------- de-meaning and differencing *)
Lemma qsum_cons a x : qsum (a :: x) == a + qsum x.
Proof. unfold qsum. cbn [fold_right]. apply Qred_correct. Qed.

Lemma qsum_shift m x : qsum (map (fun v => v - m) x) == qsum x - inject_Z (Z.of_nat (length x)) * m.
Proof.
  induction x as [|a x IH].
  - change (0 == 0 - 0 * m). ring.
  - cbn [map length]. rewrite !qsum_cons.
    rewrite IH, Nat2Z.inj_succ, <- Z.add_1_r, inject_Z_plus. change (inject_Z 1) with 1. ring.
Qed.

Lemma demean_sums_to_zero_lemma x : x <> [] -> qsum (demean x) == 0.
Proof.
  intros Hx. unfold demean, mean. rewrite qsum_shift.
  assert (N : ~ inject_Z (Z.of_nat (length x)) == 0).
  { destruct x as [|a x]; [contradiction|]. simpl length. rewrite Nat2Z.inj_succ.
    unfold Qeq, inject_Z; cbn [Qnum Qden]. lia. }
  field. exact N.
Qed.

Lemma demean_length x : length (demean x) = length x.
Proof. unfold demean. apply map_length. Qed.

Lemma gdiff_prepend_length {X} (sub : X -> X -> X) x : length (gdiff_prepend sub x) = length x.
Proof. destruct x as [|a x]; [reflexivity|]. unfold gdiff_prepend. rewrite map2_length. csimpl. lia. Qed.

Lemma gdiff_prepend_first {X} (sub : X -> X -> X) a x : hd_error (gdiff_prepend sub (a :: x)) = Some (sub a a).
Proof. reflexivity. Qed.

(* every later element is the difference of consecutive inputs *)
Lemma gdiff_prepend_nth {X} (sub : X -> X -> X) (d : X) x i : (S i < length x)%nat ->
  nth (S i) (gdiff_prepend sub x) d = sub (nth (S i) x d) (nth i x d).
Proof.
  destruct x as [|a x]; [csimpl; lia|]. unfold gdiff_prepend. cbn [map2 nth].
  revert a i; induction x as [|b x IH]; intros a i H; [simpl in H; lia|].
  destruct i as [|i]; [reflexivity|]. cbn [map2 nth]. apply IH. simpl in *. lia.
Qed.

Lemma diff_demean_length l : length (diff_demean l) = length l.
Proof. unfold diff_demean. rewrite demean_length. apply gdiff_prepend_length. Qed.

Lemma diff_demean_sums_to_zero l : l <> [] -> qsum (diff_demean l) == 0.
Proof.
  intros H. apply demean_sums_to_zero_lemma. intros E.
  apply (f_equal (@length Q)) in E. unfold diff_prepend in E. rewrite gdiff_prepend_length in E.
  destruct l; [contradiction | discriminate].
Qed.

(* the sum of the prepended differences telescopes: the mean removed is (last - first) / n *)
Lemma last_cons_default (x : list Q) : forall b a, last (b :: x) a = last x b.
Proof.
  induction x as [|c x IH]; intros b a; [reflexivity|].
  change (last (b :: c :: x) a) with (last (c :: x) a). rewrite (IH c a), (IH c b). reflexivity.
Qed.

Lemma qsum_diff_prepend_from a x : qsum (map2 Qminus x (a :: x)) == last x a - a.
Proof.
  revert a; induction x as [|b x IH]; intros a.
  - change (0 == a - a). ring.
  - cbn [map2]. rewrite qsum_cons, IH.
    rewrite last_cons_default. ring.
Qed.

Lemma diff_prepend_telescopes a x : qsum (diff_prepend (a :: x)) == last (a :: x) a - a.
Proof.
  unfold diff_prepend, gdiff_prepend. cbn [map2].
  rewrite qsum_cons, qsum_diff_prepend_from.
  rewrite last_cons_default. ring.
Qed.

(* ---------------------------------------------------------------- what a passing check_hp_case means *)
Lemma cycle_ok_spec y : forall t c, cycle_ok y t c = true -> forall i, (i < length y)%nat ->
  Qabs (nth i c 0 + nth i t 0 - nth i y 0) <= eps52 * Qmax (Qabs (nth i y 0)) (Qabs (nth i t 0)).
Proof.
  unfold cycle_ok.
  induction y as [|y0 y IH]; intros [|t0 t] [|c0 c]; cbn [all3 length]; try discriminate; intros H i Hi; [lia|].
  apply andb_true_iff in H. destruct H as [H0 H].
  destruct i as [|i]; cbn [nth].
  - apply Qle_bool_iff in H0.
    assert (E : c0 + t0 - y0 == c0 - (y0 - t0)) by ring. rewrite E. exact H0.
  - apply IH; [exact H | lia].
Qed.

Lemma check_hp_case_HP_spec lam y t c : check_hp_case (CaseHP lam y t c) = true ->
  0 <= dyQ lam /\ cycle_ok (dyl y) (dyl t) (dyl c) = true /\ resid_ok (dyQ lam) (dyl y) (dyl t) 0 = true.
Proof.
  cbn [check_hp_case]. rewrite !andb_true_iff, Qle_bool_iff. tauto.
Qed.

Lemma check_hp_case_HP_sound lam y t c ts : check_hp_case (CaseHP lam y t c) = true ->
  veq (A (dyQ lam) ts) (dyl y) ->
  nrm2 (vsub (dyl t) ts)
  <= inject_Z (Z.of_nat (length y)) * (hp_tol (dyQ lam) (dyl t) 0 * hp_tol (dyQ lam) (dyl t) 0).
Proof.
  intros H Hy. apply check_hp_case_HP_spec in H. destruct H as (Hl & _ & Hr).
  replace (length y) with (length (dyl y)) by (unfold dyl; apply map_length).
  eapply hp_certificate_sound_lemma; try eassumption. apply veq_refl.
Qed.

(* cycle-only filters: the reconstructed trend y - c passes the same certificate *)
Lemma check_hp_case_cycle_sound y c ts : check_hp_case (CaseCycle1600 y c) = true ->
  veq (A lam1600 ts) (dyl y) ->
  let th := vsub (dyl y) (dyl c) in
  let tol := hp_tol lam1600 th (log_tol * linf (dyl y)) in
  nrm2 (vsub th ts) <= inject_Z (Z.of_nat (length y)) * (tol * tol).
Proof.
  intros H Hy th tol. cbn [check_hp_case] in H. rewrite !andb_true_iff in H. destruct H as [_ Hr].
  replace (length y) with (length (dyl y)) by (unfold dyl; apply map_length).
  eapply hp_certificate_sound_lemma; try eassumption; [unfold lam1600; lra | apply veq_sym, qred_l_veq].
Qed.

Lemma check_hp_case_loghp_sound l out ts : check_hp_case (CaseLogHP l out) = true ->
  veq (A lam1600 ts) (dyl l) ->
  let th := minus_trend (dyl l) (dyl out) in
  let tol := hp_tol lam1600 th (log_tol * linf (dyl l)) in
  nrm2 (vsub th ts) <= inject_Z (Z.of_nat (length l)) * (tol * tol).
Proof.
  intros H Hy th tol. cbn [check_hp_case] in H. rewrite !andb_true_iff in H. destruct H as [_ Hr].
  replace (length l) with (length (dyl l)) by (unfold dyl; apply map_length).
  eapply hp_certificate_sound_lemma; try eassumption; [unfold lam1600; lra | apply veq_sym, qred_l_veq].
Qed.

Lemma check_hp_case_HP_cycle lam y t c : check_hp_case (CaseHP lam y t c) = true ->
  forall i, (i < length (dyl y))%nat ->
  Qabs (nth i (dyl c) 0 + nth i (dyl t) 0 - nth i (dyl y) 0)
  <= eps52 * Qmax (Qabs (nth i (dyl y) 0)) (Qabs (nth i (dyl t) 0)).
Proof.
  intros H. apply check_hp_case_HP_spec in H. destruct H as (_ & Hc & _).
  apply cycle_ok_spec. exact Hc.
Qed.
