(* Lemmas about the extension of the crash model (Model/CrashSeq.v): rewritten series file, saves on any folder,
   sequences of interrupted saves, a previous checkpoint without digests, sequences of failed SQLite saves. *)
From Coq Require Import List Arith Bool Lia.
From BlackIt Require Import Model.CrashSeq Proofs.CrashP.
Import ListNotations.

(* ------------------------------------------------------------------ the extension coincides with the first model *)
Lemma save_ops_m_append v : save_ops_m v (Some MAppend) = save_ops v true.
Proof. destruct v; reflexivity. Qed.
Lemma save_ops_m_fresh v : save_ops_m v (Some MFresh) = save_ops v false.
Proof. destruct v; reflexivity. Qed.

Lemma run_ops2_crash v k : run_ops2 (firstn k (save_ops_m v (Some MAppend))) folder_old = crash v k.
Proof.
  destruct (le_lt_dec (length (save_ops v true)) k) as [H|H].
  - rewrite save_ops_m_append. unfold crash, crash_from. change (h5_present folder_old) with true.
    rewrite !(firstn_all2 _ H). destruct v; reflexivity.
  - destruct v; simpl in H.
    + do 16 (destruct k as [|k]; [reflexivity|]). exfalso; lia.
    + do 21 (destruct k as [|k]; [reflexivity|]). exfalso; lia.
Qed.

Lemma run_ops2_crash_fresh v k : run_ops2 (firstn k (save_ops_m v (Some MFresh))) folder_absent = crash_fresh v k.
Proof.
  destruct (le_lt_dec (length (save_ops v false)) k) as [H|H].
  - rewrite save_ops_m_fresh. unfold crash_fresh, crash_from. change (h5_present folder_absent) with false.
    rewrite !(firstn_all2 _ H). destruct v; reflexivity.
  - destruct v; simpl in H.
    + do 15 (destruct k as [|k]; [reflexivity|]). exfalso; lia.
    + do 20 (destruct k as [|k]; [reflexivity|]). exfalso; lia.
Qed.

(* operations that change calibration_params.json *)
Definition touches_json (o : op) : bool :=
  match o with Replace | OpenTrunc FJson | Write FJson => true | _ => false end.

Lemma apply_op2_json o d : touches_json o = false -> f_json (apply_op2 o d) = f_json d.
Proof.
  destruct o as [f|f|f| | | | | | |f|]; try destruct f; simpl; intros H; try discriminate; try reflexivity.
  - destruct (f_h5 d) as [|[|]| | | |]; reflexivity.
  - destruct (f_h5 d) as [|[|]| | | |]; reflexivity.
Qed.

Lemma run_ops2_json l : forall d, forallb (fun o => negb (touches_json o)) l = true -> f_json (run_ops2 l d) = f_json d.
Proof.
  induction l as [|o l IH]; intros d H; [reflexivity|].
  simpl in H. apply andb_true_iff in H. destruct H as [Ho Hl]. apply negb_true_iff in Ho.
  unfold run_ops2. simpl. fold (run_ops2 l (apply_op2 o d)). rewrite (IH _ Hl). apply apply_op2_json, Ho.
Qed.

Lemma set_json f x d : f <> FJson -> f_json (set f x d) = f_json d.
Proof. destruct f; intros H; try reflexivity. congruence. Qed.

Definition quiet (l : list op) : bool := forallb (fun o => negb (touches_json o)) l.

(* every strict prefix of a repaired save leaves calibration_params.json alone (os.replace is its last operation) *)
Lemma prefix_quiet m k : k < length (save_ops_m Repaired m) \/ m = None -> quiet (firstn k (save_ops_m Repaired m)) = true.
Proof.
  intros H. destruct m as [[| |]|].
  - destruct H as [H|H]; [|discriminate]. simpl in H. do 21 (destruct k as [|k]; [reflexivity|]). exfalso; lia.
  - destruct H as [H|H]; [|discriminate]. simpl in H. do 20 (destruct k as [|k]; [reflexivity|]). exfalso; lia.
  - destruct H as [H|H]; [|discriminate]. simpl in H. do 22 (destruct k as [|k]; [reflexivity|]). exfalso; lia.
  - clear H. do 10 (destruct k as [|k]; [reflexivity|]). destruct k; reflexivity.
Qed.

Lemma index_of_writes_lt m f : f <> FJson -> m <> None ->
  index_of (writes f) (save_ops_m Repaired m) < length (save_ops_m Repaired m).
Proof.
  intros Hf Hm. destruct m as [[| |]|]; try congruence; destruct f; try congruence; simpl; lia.
Qed.

Lemma step_json m d st : before_commit m st = true -> f_json (step_folder Repaired m d st) = f_json d.
Proof.
  destruct st as [|i|f e c]; intros H; unfold step_folder.
  - destruct m; [discriminate|]. apply run_ops2_json. reflexivity.
  - apply run_ops2_json. apply prefix_quiet. unfold before_commit in H. apply orb_true_iff in H. destruct H as [H|H].
    + left. apply Nat.ltb_lt, H.
    + right. destruct m; [discriminate|reflexivity].
  - assert (Hf : f <> FJson) by (destruct f; try discriminate; simpl in H; congruence).
    assert (Q : f_json (run_ops2 (firstn (index_of (writes f) (save_ops_m Repaired m)) (save_ops_m Repaired m)) d) = f_json d).
    { apply run_ops2_json, prefix_quiet. destruct m as [m'|]; [left|right; reflexivity].
      apply index_of_writes_lt; [exact Hf | discriminate]. }
    destruct e; rewrite (set_json _ _ _ Hf); exact Q.
Qed.

Section P.
  Variables J Sc Lo Hdr Row HRow : Type.
  Variable J_eqb : J -> J -> bool.
  Variable S_eqb : Sc -> Sc -> bool.
  Variable L_eqb : Lo -> Lo -> bool.
  Variable Hdr_eqb : Hdr -> Hdr -> bool.
  Variable Row_eqb : Row -> Row -> bool.
  Variable HRow_eqb : HRow -> HRow -> bool.
  Hypothesis J_eqb_spec : forall a b, J_eqb a b = true <-> a = b.
  Hypothesis S_eqb_spec : forall a b, S_eqb a b = true <-> a = b.
  Hypothesis L_eqb_spec : forall a b, L_eqb a b = true <-> a = b.
  Hypothesis Hdr_eqb_spec : forall a b, Hdr_eqb a b = true <-> a = b.
  Hypothesis Row_eqb_spec : forall a b, Row_eqb a b = true <-> a = b.
  Hypothesis HRow_eqb_spec : forall a b, HRow_eqb a b = true <-> a = b.
  Variable zrow : HRow.
  Variable D : Type.
  Variable digest : content Sc Lo Hdr Row HRow -> D.
  Variable D_eqb : D -> D -> bool.
  Hypothesis D_eqb_spec : forall a b, D_eqb a b = true <-> a = b.

  Notation state := (state J Sc Lo Hdr Row HRow).
  Notation rstate := (rstate J Sc Lo Hdr Row HRow).
  Notation content := (content Sc Lo Hdr Row HRow).
  Notation same := (same J Sc Lo Hdr Row HRow J_eqb S_eqb L_eqb Hdr_eqb Row_eqb HRow_eqb).
  Notation agrees := (agrees J Sc Lo Hdr Row HRow).
  Notation load := (load J Sc Lo Hdr Row HRow zrow D digest D_eqb).
  Notation lcg := (load_class_gen J Sc Lo Hdr Row HRow J_eqb S_eqb L_eqb Hdr_eqb Row_eqb HRow_eqb zrow D digest D_eqb).
  Notation load2 := (load2 J Sc Lo Hdr Row HRow zrow D digest D_eqb).
  Notation class2 := (class2 J Sc Lo Hdr Row HRow J_eqb S_eqb L_eqb Hdr_eqb Row_eqb HRow_eqb zrow D digest D_eqb).
  Notation appended := (h5_appended J Sc Lo Hdr Row HRow).
  Notation resized := (h5_resized J Sc Lo Hdr Row HRow zrow).
  Notation content_of := (content_of J Sc Lo Hdr Row HRow zrow).
  Notation prefix_b := (prefix_b HRow HRow_eqb).
  Notation mode_of := (mode_of J Sc Lo Hdr Row HRow HRow_eqb zrow).
  Notation canon := (canon J Sc Lo Hdr Row HRow).
  Notation seq_folder := (seq_folder J Sc Lo Hdr Row HRow HRow_eqb zrow).

  Lemma same_spec' r s : same r s = true <-> agrees r s.
  Proof. apply same_spec; assumption. Qed.
  Lemma same_false' r s : ~ agrees r s -> same r s = false.
  Proof. apply same_false; assumption. Qed.
  Lemma same_refl s : same (mkR J Sc Lo Hdr Row HRow (sj s) (ss s) (sl s) (shd s) (sr s) false (sh s)) s = true.
  Proof. apply same_spec'. unfold CrashP.agrees. simpl. intuition. Qed.

  Arguments h5_appended : simpl never.
  Arguments h5_resized : simpl never.

  (* ---------------------------------------------------------------- load2 and load *)
  Lemma load2_load_prev v t s0 s1 d : appended s0 s1 = sh s1 -> load2 v t false s0 s1 d = load v t true s0 s1 d.
  Proof.
    intros Ha. unfold CrashSeq.load2, Crash.load, read_json2, read_json.
    destruct (f_json d) as [|[|]| | | |]; try reflexivity; destruct v; try reflexivity.
    unfold data_files, left_by, CrashSeq.canon, Crash.content_of, pick. simpl map. rewrite Ha. reflexivity.
  Qed.

  Lemma load2_load_fresh v t s0 s1 d : load2 v t false s0 s1 d = load v t false s0 s1 d.
  Proof.
    unfold CrashSeq.load2, Crash.load. destruct (f_json d) as [|[|]| | | |]; try reflexivity; destruct v; reflexivity.
  Qed.

  Lemma class2_lcg_prev v t s0 s1 d : appended s0 s1 = sh s1 -> class2 v t false true s0 s1 d = lcg v t true s0 s1 d.
  Proof. intros Ha. unfold CrashSeq.class2, load_class_gen. rewrite (load2_load_prev v t s0 s1 d Ha). reflexivity. Qed.

  Lemma class2_lcg_fresh v t s0 s1 d : class2 v t false false s0 s1 d = lcg v t false s0 s1 d.
  Proof. unfold CrashSeq.class2, load_class_gen. rewrite load2_load_fresh. reflexivity. Qed.

  (* ---------------------------------------------------------------- lists *)
  Lemma prefix_b_app a : forall b, prefix_b a b = true -> a ++ skipn (length a) b = b.
  Proof.
    induction a as [|x a IH]; intros b H; [reflexivity|].
    destruct b as [|y b]; [discriminate|]. simpl in H. apply andb_true_iff in H. destruct H as [E H].
    apply HRow_eqb_spec in E. subst y. simpl. f_equal. apply IH, H.
  Qed.

  Lemma prefix_b_refl a : prefix_b a a = true.
  Proof. induction a as [|x a IH]; [reflexivity|]. simpl. rewrite IH, (proj2 (HRow_eqb_spec x x) eq_refl). reflexivity. Qed.

  Lemma prefix_b_long a b : prefix_b a b = true -> length b <= length a -> a = b.
  Proof.
    intros H L. pose proof (prefix_b_app a b H) as E. rewrite (skipn_all2 b L), app_nil_r in E. exact E.
  Qed.

  Lemma appended_length s0 s1 : length (sh s1) <= length (appended s0 s1).
  Proof. unfold h5_appended. rewrite app_length, skipn_length. lia. Qed.

  Lemma resized_length s0 s1 : length (sh s1) <= length (resized s0 s1).
  Proof. unfold h5_resized. rewrite app_length, repeat_length, skipn_length. lia. Qed.

  Lemma appended_of_prefix s0 s1 : prefix_b (sh s0) (sh s1) = true -> appended s0 s1 = sh s1.
  Proof. intros H. apply prefix_b_app, H. Qed.

  Lemma appended_of_appended s0 s1 : prefix_b (appended s0 s1) (sh s1) = true -> appended s0 s1 = sh s1.
  Proof. intros H. apply prefix_b_long; [exact H | apply appended_length]. Qed.

  Lemma appended_of_resized s0 s1 : prefix_b (resized s0 s1) (sh s1) = true -> appended s0 s1 = sh s1.
  Proof.
    intros H. pose proof (prefix_b_long _ _ H (resized_length s0 s1)) as E. unfold h5_resized in E. unfold h5_appended.
    remember (repeat zrow (length (skipn (length (sh s0)) (sh s1)))) as X eqn:EX. clear EX H.
    rewrite <- E. rewrite skipn_app, skipn_all, Nat.sub_diag. reflexivity.
  Qed.

  (* ---------------------------------------------------------------- the repaired order on ANY folder *)
  Hypothesis digest_inj : forall a b : content, digest a = digest b -> a = b.

  Ltac digest_step E :=
    match goal with
    | |- context [D_eqb (digest ?a) (digest ?b)] =>
        destruct (D_eqb (digest a) (digest b)) eqn:E; cbn; [apply D_eqb_spec, digest_inj in E|]
    end.

  (* calibration_params.json is the one of the checkpoint `w` (with digests): the folder fails the digest check or is
     exactly that checkpoint, whatever the other five slots hold *)
  Lemma json_whole t s0 s1 d w : f_json d = Whole w ->
    load2 Repaired t false s0 s1 d = RErr
    \/ load2 Repaired t false s0 s1 d =
       ROk (let s := pick J Sc Lo Hdr Row HRow s0 s1 w in mkR J Sc Lo Hdr Row HRow (sj s) (ss s) (sl s) (shd s) (sr s) false (sh s)).
  Proof.
    intros Hjs. unfold CrashSeq.load2. rewrite Hjs. destruct w; cbn.
    - digest_step E1; [|left; reflexivity]. digest_step E2; [|left; reflexivity].
      digest_step E3; [|left; reflexivity]. digest_step E4; [|left; reflexivity].
      rewrite E1, E2, E3, E4. cbn. right. reflexivity.
    - digest_step E1; [|left; reflexivity]. digest_step E2; [|left; reflexivity].
      digest_step E3; [|left; reflexivity]. digest_step E4; [|left; reflexivity].
      rewrite E1, E2, E3, E4. cbn. right. reflexivity.
  Qed.

  Lemma json_old2 t s0 s1 d : f_json d = Old ->
    class2 Repaired t false true s0 s1 d = Error \/ class2 Repaired t false true s0 s1 d = Exactly_old.
  Proof.
    intros H. unfold CrashSeq.class2. destruct (json_whole t s0 s1 d W0 H) as [E|E]; rewrite E; [left; reflexivity|].
    right. cbn. rewrite same_refl. reflexivity.
  Qed.

  Lemma json_new2 t hp s0 s1 d : f_json d = New ->
    In (class2 Repaired t false hp s0 s1 d) [Error; Exactly_old; Exactly_new].
  Proof.
    intros H. unfold CrashSeq.class2. destruct (json_whole t s0 s1 d W1 H) as [E|E]; rewrite E; [simpl; auto|].
    cbn. rewrite same_refl.
    destruct (hp && same (mkR J Sc Lo Hdr Row HRow (sj s1) (ss s1) (sl s1) (shd s1) (sr s1) false (sh s1)) s0); simpl; auto.
  Qed.

  Lemma json_unreadable v t of hp s0 s1 d : (forall w, f_json d <> Whole w) -> class2 v t of hp s0 s1 d = Error.
  Proof.
    intros H. unfold CrashSeq.class2, CrashSeq.load2. destruct (f_json d) as [|w| | | |]; try reflexivity.
    exfalso. apply (H w). reflexivity.
  Qed.

  (* the property, for the repaired order: no folder whatsoever is restored as a hybrid *)
  Lemma any_folder_never_hybrid t s0 s1 d : In (class2 Repaired t false true s0 s1 d) [Error; Exactly_old; Exactly_new].
  Proof.
    destruct (f_json d) as [|[|]| | | |] eqn:Hj.
    - rewrite json_unreadable; [simpl; auto|]. intros w. rewrite Hj. discriminate.
    - destruct (json_old2 t s0 s1 d Hj) as [E|E]; rewrite E; simpl; auto.
    - apply json_new2, Hj.
    - rewrite json_unreadable; [simpl; auto|]. intros w. rewrite Hj. discriminate.
    - rewrite json_unreadable; [simpl; auto|]. intros w. rewrite Hj. discriminate.
    - rewrite json_unreadable; [simpl; auto|]. intros w. rewrite Hj. discriminate.
    - rewrite json_unreadable; [simpl; auto|]. intros w. rewrite Hj. discriminate.
  Qed.

  (* first save into an empty folder (no json of a previous checkpoint can be there) *)
  Lemma any_folder_never_hybrid_fresh t s0 s1 d : f_json d <> Old ->
    In (class2 Repaired t false false s0 s1 d) [Error; Exactly_new].
  Proof.
    intros Hno. destruct (f_json d) as [|[|]| | | |] eqn:Hj; try congruence;
      try (rewrite json_unreadable; [simpl; auto|]; intros w; rewrite Hj; discriminate).
    unfold CrashSeq.class2. destruct (json_whole t s0 s1 d W1 Hj) as [E|E]; rewrite E; [simpl; auto|].
    cbn. rewrite same_refl. simpl; auto.
  Qed.

  (* ---------------------------------------------------------------- sequences of interrupted saves *)
  Lemma seq_json s0 s1 : forall l d,
    (fix all (d : folder) (l : list stop) : bool :=
       match l with
       | [] => true
       | st :: r => before_commit (mode_of s0 s1 d) st && all (step_folder Repaired (mode_of s0 s1 d) d st) r
       end) d l = true ->
    f_json (seq_folder Repaired s0 s1 d l) = f_json d.
  Proof.
    induction l as [|st l IH]; intros d H; [reflexivity|].
    apply andb_true_iff in H. destruct H as [Hb Hr].
    unfold CrashSeq.seq_folder. simpl. fold (seq_folder Repaired s0 s1 (seq_step J Sc Lo Hdr Row HRow HRow_eqb zrow Repaired s0 s1 d st) l).
    unfold seq_step. rewrite (IH _ Hr). apply step_json, Hb.
  Qed.

  (* ---------------------------------------------------------------- a save that completes, on any folder *)
  Definition data_canon (s0 s1 : state) (d : folder) : Prop :=
    content_of s0 s1 FSched (f_sched d) = canon s1 FSched /\ content_of s0 s1 FLoss (f_loss d) = canon s1 FLoss
    /\ content_of s0 s1 FCsv (f_csv d) = canon s1 FCsv /\ content_of s0 s1 FH5 (f_h5 d) = canon s1 FH5.

  (* whatever the folder held, the data files of a save that reaches its digest step are those of s1 and its json is
     committed *)
  Lemma complete_leaves_canon s0 s1 d m : mode_of s0 s1 d = Some m ->
    let d' := run_ops2 (save_ops_m Repaired (Some m)) d in f_json d' = New /\ data_canon s0 s1 d'.
  Proof.
    destruct d as [j sc lo cs h tm]. unfold CrashSeq.mode_of. simpl f_h5.
    destruct h as [|[|]| |c| |]; cbn [Crash.content_of]; intros Hm; try discriminate.
    - (* absent *) inversion Hm; subst m. cbn. unfold data_canon. cbn. repeat split.
    - (* file of s0 *)
      destruct (prefix_b (sh s0) (sh s1)) eqn:P; inversion Hm; subst m; cbn; unfold data_canon; cbn.
      + rewrite (appended_of_prefix s0 s1 P). repeat split.
      + repeat split.
    - (* already appended *)
      destruct (prefix_b (appended s0 s1) (sh s1)) eqn:P; inversion Hm; subst m; cbn; unfold data_canon; cbn.
      + rewrite (appended_of_appended s0 s1 P). repeat split.
      + repeat split.
    - (* resized *)
      destruct (prefix_b (resized s0 s1) (sh s1)) eqn:P; inversion Hm; subst m; cbn; unfold data_canon; cbn.
      + rewrite (appended_of_resized s0 s1 P). repeat split.
      + repeat split.
    - (* created by an earlier save of s1 *)
      rewrite prefix_b_refl in Hm. inversion Hm; subst m. cbn. unfold data_canon. cbn. repeat split.
  Qed.

  Lemma canon_new t hp s0 s1 d : f_json d = New -> data_canon s0 s1 d -> (hp = true -> s0 <> s1) ->
    class2 Repaired t false hp s0 s1 d = Exactly_new.
  Proof.
    intros Hj (E1 & E2 & E3 & E4) Hne. unfold CrashSeq.class2, CrashSeq.load2. rewrite Hj. cbn.
    rewrite E1, E2, E3, E4. cbn. rewrite !(proj2 (D_eqb_spec _ _) eq_refl). cbn. rewrite same_refl.
    destruct hp; [|reflexivity]. cbn.
    rewrite same_false'; [reflexivity|]. unfold CrashP.agrees. simpl. intros (A & B & C & D0 & E0 & _ & F).
    apply (Hne eq_refl). symmetry. destruct s0, s1; simpl in *; subst; reflexivity.
  Qed.

  Lemma complete_from_any t hp s0 s1 d m : mode_of s0 s1 d = Some m -> (hp = true -> s0 <> s1) ->
    class2 Repaired t false hp s0 s1 (run_ops2 (save_ops_m Repaired (Some m)) d) = Exactly_new.
  Proof.
    intros Hm Hne. destruct (complete_leaves_canon s0 s1 d m Hm) as [Hj Hc]. apply canon_new; assumption.
  Qed.

  (* a series file that cannot be read: the save raises by itself before its commit *)
  Lemma unreadable_series_json s0 s1 d st : mode_of s0 s1 d = None ->
    f_json (step_folder Repaired None d st) = f_json d \/ exists e c, st = SCut FJson e c.
  Proof.
    intros _. destruct st as [|i|f e c].
    - left. apply step_json. reflexivity.
    - left. apply step_json. simpl. apply orb_true_r.
    - destruct f; try (left; apply step_json; reflexivity). right. eauto.
  Qed.

  (* ---------------------------------------------------------------- the series file is rewritten (rows not a prefix) *)
  Lemma mode_old s0 s1 : mode_of s0 s1 folder_old = Some (if prefix_b (sh s0) (sh s1) then MAppend else MRewrite).
  Proof. reflexivity. Qed.

  Lemma rewrite_before_commit t s0 s1 k : k < length (save_ops_m Repaired (Some MRewrite)) ->
    let d := run_ops2 (firstn k (save_ops_m Repaired (Some MRewrite))) folder_old in
    class2 Repaired t false true s0 s1 d = Error \/ class2 Repaired t false true s0 s1 d = Exactly_old.
  Proof.
    intros H d. apply json_old2. unfold d. rewrite run_ops2_json; [reflexivity|]. apply prefix_quiet. left. exact H.
  Qed.

  Lemma rewrite_cut t s0 s1 f e c : f <> FJson ->
    let d := step_folder Repaired (Some MRewrite) folder_old (SCut f e c) in
    class2 Repaired t false true s0 s1 d = Error \/ class2 Repaired t false true s0 s1 d = Exactly_old.
  Proof.
    intros Hf d. apply json_old2. unfold d. rewrite step_json; [reflexivity|]. destruct f; try reflexivity. congruence.
  Qed.

  Lemma rewrite_complete t s0 s1 k : prefix_b (sh s0) (sh s1) = false -> s0 <> s1 ->
    length (save_ops_m Repaired (Some MRewrite)) <= k ->
    class2 Repaired t false true s0 s1 (run_ops2 (firstn k (save_ops_m Repaired (Some MRewrite))) folder_old) = Exactly_new.
  Proof.
    intros P Hne Hk. rewrite (firstn_all2 _ Hk). apply complete_from_any; [|intros _; exact Hne].
    rewrite mode_old, P. reflexivity.
  Qed.

  (* ---------------------------------------------------------------- previous checkpoint written without digests *)
  Definition generic (s0 s1 : state) : Prop :=
    sj s0 <> sj s1 /\ sh s0 <> sh s1 /\ resized s0 s1 <> sh s1 /\ appended s0 s1 = sh s1.

  (* from the moment the new rows are in the series file until the commit, the folder is restored silently with the old
     counters and the new records *)
  Lemma digestless_hybrid t s0 s1 k : generic s0 s1 -> 12 <= k -> k < 21 ->
    class2 Repaired t true true s0 s1 (crash Repaired k) = Hybrid.
  Proof.
    intros (Hj & Hh & Hr & Ha) H1 H2.
    do 12 (destruct k as [|k]; [exfalso; lia|]).
    do 9 (destruct k as [|k]; [
      unfold CrashSeq.class2; cbn; rewrite Ha;
      rewrite (same_false' _ s0) by (unfold CrashP.agrees; simpl; intuition congruence);
      rewrite (same_false' _ s1) by (unfold CrashP.agrees; simpl; intuition congruence); reflexivity|]).
    exfalso; lia.
  Qed.
End P.

(* ------------------------------------------------------------------ bundled *)
Section Bundled.
  Variable c : components.
  Hypothesis dec : decides_eq c.

  Ltac use L := destruct dec; eapply L; eassumption.

  Lemma b_class2_agrees_prev v t (s0 s1 : checkpoint c) d : appended c s0 s1 = sh s1 ->
    class2_of c v t false true s0 s1 d = class_of c v t true s0 s1 d.
  Proof. intros H. apply class2_lcg_prev. exact H. Qed.

  Lemma b_class2_agrees_fresh v t (s0 s1 : checkpoint c) d : class2_of c v t false false s0 s1 d = class_of c v t false s0 s1 d.
  Proof. apply class2_lcg_fresh. Qed.

  Lemma b_digestless_hybrid t (s0 s1 : checkpoint c) k : generic_pair c s0 s1 -> 12 <= k -> k < 21 ->
    class2_of c Repaired t true true s0 s1 (crash Repaired k) = Hybrid.
  Proof. intros G H1 H2. use digestless_hybrid. Qed.

  Lemma b_digestless_refuted (s0 s1 : checkpoint c) : generic_pair c s0 s1 ->
    exists k, k < nops Repaired /\ class2_of c Repaired TGarbled true true s0 s1 (crash Repaired k) = Hybrid.
  Proof. intros G. exists 12. split; [unfold nops; simpl; lia|]. apply b_digestless_hybrid; [exact G|lia|lia]. Qed.

  Hypothesis inj : digest_injective c.

  Lemma b_any_folder_never_hybrid t (s0 s1 : checkpoint c) d :
    In (class2_of c Repaired t false true s0 s1 d) [Error; Exactly_old; Exactly_new].
  Proof. use any_folder_never_hybrid. Qed.

  Lemma b_any_folder_never_hybrid_fresh t (s0 s1 : checkpoint c) d : f_json d <> Old ->
    In (class2_of c Repaired t false false s0 s1 d) [Error; Exactly_new].
  Proof. intros H. use any_folder_never_hybrid_fresh. Qed.

  Lemma all_before_commit_fix (s0 s1 : checkpoint c) l : forall d,
    all_before_commit c s0 s1 d l =
    (fix all (d : folder) (l : list stop) : bool :=
       match l with
       | [] => true
       | st :: r => before_commit (mode_of_c c s0 s1 d) st && all (step_folder Repaired (mode_of_c c s0 s1 d) d st) r
       end) d l.
  Proof. induction l as [|st l IH]; intros d; [reflexivity|]. simpl. rewrite IH. reflexivity. Qed.

  Lemma b_seq_error_or_previous t (s0 s1 : checkpoint c) l : all_before_commit c s0 s1 folder_old l = true ->
    class2_of c Repaired t false true s0 s1 (seq_folder_c c Repaired s0 s1 folder_old l) = Error
    \/ class2_of c Repaired t false true s0 s1 (seq_folder_c c Repaired s0 s1 folder_old l) = Exactly_old.
  Proof.
    intros H. rewrite all_before_commit_fix in H. destruct dec.
    eapply json_old2; try eassumption. unfold seq_folder_c. erewrite seq_json; [reflexivity | exact H].
  Qed.

  Lemma b_complete_from_any t (s0 s1 : checkpoint c) d m : mode_of_c c s0 s1 d = Some m -> s0 <> s1 ->
    class2_of c Repaired t false true s0 s1 (run_ops2 (save_ops_m Repaired (Some m)) d) = Exactly_new.
  Proof. intros Hm Hne. destruct dec. eapply complete_from_any; try eassumption. intros _. exact Hne. Qed.

  Lemma b_complete_from_any_fresh t (s0 s1 : checkpoint c) d m : mode_of_c c s0 s1 d = Some m ->
    class2_of c Repaired t false false s0 s1 (run_ops2 (save_ops_m Repaired (Some m)) d) = Exactly_new.
  Proof. intros Hm. destruct dec. eapply complete_from_any; try eassumption. discriminate. Qed.

  Lemma b_rewrite_mode (s0 s1 : checkpoint c) : not_prefix c s0 s1 -> mode_of_c c s0 s1 folder_old = Some MRewrite.
  Proof. intros P. unfold mode_of_c. rewrite mode_old. unfold not_prefix in P. rewrite P. reflexivity. Qed.

  Lemma b_rewrite_before_commit t (s0 s1 : checkpoint c) k : k < length (save_ops_m Repaired (Some MRewrite)) ->
    let d := run_ops2 (firstn k (save_ops_m Repaired (Some MRewrite))) folder_old in
    class2_of c Repaired t false true s0 s1 d = Error \/ class2_of c Repaired t false true s0 s1 d = Exactly_old.
  Proof. intros H. use rewrite_before_commit. Qed.

  Lemma b_rewrite_cut t (s0 s1 : checkpoint c) f e ct : f <> FJson ->
    let d := step_folder Repaired (Some MRewrite) folder_old (SCut f e ct) in
    class2_of c Repaired t false true s0 s1 d = Error \/ class2_of c Repaired t false true s0 s1 d = Exactly_old.
  Proof. intros H. use rewrite_cut. Qed.

  Lemma b_rewrite_complete t (s0 s1 : checkpoint c) k : not_prefix c s0 s1 -> s0 <> s1 ->
    length (save_ops_m Repaired (Some MRewrite)) <= k ->
    class2_of c Repaired t false true s0 s1 (run_ops2 (firstn k (save_ops_m Repaired (Some MRewrite))) folder_old) = Exactly_new.
  Proof. intros P Hne Hk. use rewrite_complete. Qed.
End Bundled.

(* ------------------------------------------------------------------ SQLite: sequences of failed saves *)
Section SqlSeqP.
  Variable St : Type.

  Lemma failed_repaired_fix (s0 s1 : St) i after : ran i after <= 4 ->
    failed_save St Repaired s1 i after (mkDb St [s0] None) = mkDb St [s0] None.
  Proof.
    unfold failed_save. fold (ran i after). generalize (ran i after). intros n H.
    do 5 (destruct n as [|n]; [reflexivity|]). lia.
  Qed.

  Lemma failed_repaired_fix_empty (s1 : St) i after : ran i after <= 4 ->
    failed_save St Repaired s1 i after (mkDb St [] None) = mkDb St [] None.
  Proof.
    unfold failed_save. fold (ran i after). generalize (ran i after). intros n H.
    do 5 (destruct n as [|n]; [reflexivity|]). lia.
  Qed.

  (* any number of saves that fail before the end of their COMMIT leave the database as it was *)
  Lemma failed_saves_keep (s0 s1 : St) l : Forall (fun f => ran (fst f) (snd f) <= 4) l ->
    failed_saves St Repaired s1 l (db_of St (Some s0)) = db_of St (Some s0).
  Proof.
    unfold failed_saves, db_of. induction l as [|f l IH]; intros H; [reflexivity|].
    inversion H; subst. simpl. rewrite failed_repaired_fix by assumption. apply IH. assumption.
  Qed.

  Lemma failed_saves_keep_empty (s1 : St) l : Forall (fun f => ran (fst f) (snd f) <= 4) l ->
    failed_saves St Repaired s1 l (db_of St None) = db_of St None.
  Proof.
    unfold failed_saves, db_of. induction l as [|f l IH]; intros H; [reflexivity|].
    inversion H; subst. simpl. rewrite failed_repaired_fix_empty by assumption. apply IH. assumption.
  Qed.

  Lemma sql_failures_keep_previous (s0 s1 : St) l : Forall (fun f => ran (fst f) (snd f) <= 4) l ->
    sql_load St (failed_saves St Repaired s1 l (db_of St (Some s0))) = ROk s0.
  Proof. intros H. rewrite failed_saves_keep by exact H. reflexivity. Qed.

  Lemma sql_retry_after_failures (prev : option St) (s1 : St) l : Forall (fun f => ran (fst f) (snd f) <= 4) l ->
    sql_load St (complete_save St Repaired s1 (failed_saves St Repaired s1 l (db_of St prev))) = ROk s1.
  Proof.
    intros H. destruct prev as [s0|].
    - rewrite failed_saves_keep by exact H. reflexivity.
    - rewrite failed_saves_keep_empty by exact H. reflexivity.
  Qed.
End SqlSeqP.
