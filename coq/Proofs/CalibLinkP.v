(* Layering: the sampler models of C03/C12/C17 plugged into the calibrator model of C02.
   (1) whatever property P every proposal has, every recorded parameter has (in every reachable state);
   (2) with the built-in sampler model as `propose`, the alignment invariant holds with no hypothesis on samplers, and every
       recorded parameter - hence every point the model was simulated at - is on the grid of the declared search space. *)
From Coq Require Import List ZArith Bool Arith Lia.
From BlackIt Require Import Model.Calibrator Proofs.CalibratorP Model.Dedup Proofs.DedupP Model.Samplers Proofs.SamplersP.
Import ListNotations.

Section ParamsInv.
  Variables (Param Series LossV : Type).
  Variable model : Param -> Z -> Series.
  Variable lossf : list Series -> LossV.
  Variable loss_leb : LossV -> LossV -> bool.
  Variable rounds0 : LossV -> nat -> bool.
  Variable propose : sampler -> list Param -> list LossV -> list Param.
  Variable draws : nat -> Z.
  Variable agent_actions : nat -> nat.
  Variable plan : fault.
  Hypothesis propose_len : forall s ps ls, length (propose s ps ls) = s_bsize s.
  Variable P : Param -> Prop.
  Hypothesis propose_P : forall s ps ls, Forall P (propose s ps ls).

  Notation core := (core Param Series LossV).
  Notation cstate := (cstate Param Series LossV).
  Notation one_batch := (one_batch Param Series LossV model lossf loss_leb rounds0 propose draws agent_actions plan).
  Notation batches := (batches Param Series LossV model lossf loss_leb rounds0 propose draws agent_actions plan).
  Notation calibrate := (calibrate Param Series LossV model lossf loss_leb rounds0 propose draws agent_actions plan).
  Notation calibrate_pos := (calibrate_pos Param Series LossV model lossf loss_leb rounds0 propose draws agent_actions plan).
  Notation step := (step Param Series LossV model lossf loss_leb rounds0 propose draws agent_actions plan).
  Notation run := (run Param Series LossV model lossf loss_leb rounds0 propose draws agent_actions plan).

  Definition PInv (c : core) : Prop := Forall P (params _ _ _ c).
  Definition PInvS (s : cstate) : Prop := PInv (live _ _ _ s) /\ forall d, disk _ _ _ s = Some d -> PInv d.

  Lemma one_batch_P s s' o : PInvS s -> one_batch s = (s', o) -> PInvS s'.
  Proof. intros [Hl Hd] H.
    destruct (one_batch_cases _ _ _ _ _ _ _ _ _ _ _ propose_len _ _ _ H) as
      [(e & _ & Hrec & Hdisk & _) | (i & sc1 & m & _ & _ & Happ & _ & Hdisk)].
    - split.
      + unfold PInv, records in *. injection Hrec as Hp _ _ _ _ _ _. now rewrite Hp.
      + intros d Hd'. apply Hd. congruence.
    - assert (Hl' : PInv (live _ _ _ s')).
      { destruct Happ as (np & rows & mid & _ & _ & Hp & _ & _ & _ & _ & _ & _ & _ & _ & _ & Hnp).
        unfold PInv. rewrite Hp. apply Forall_app. split; [exact Hl|]. rewrite Hnp. apply propose_P. }
      split; [exact Hl'|]. intros d Hd'. destruct Hdisk as [E|E]; [apply Hd; congruence | congruence]. Qed.

  Lemma batches_P : forall n s s' o, PInvS s -> batches n s = (s', o) -> PInvS s'.
  Proof. induction n as [|n IH]; intros s s' o Hi H; cbn in H; [injection H as <- <-; auto|].
    destruct (one_batch s) as [s1 o1] eqn:E1. pose proof (one_batch_P _ _ _ Hi E1) as Hi1.
    destruct o1; try (injection H as <- <-; auto). eapply IH; eauto. Qed.

  Lemma calibrate_pos_P n s s' e r : PInvS s -> calibrate_pos n s = (s', e, r) -> PInvS s'.
  Proof. intros [Hl Hd] H. unfold Calibrator.calibrate_pos in H.
    set (c1 := if Nat.eqb _ 0 then _ else _) in H.
    assert (Hc1 : PInv c1) by (unfold c1; destruct (Nat.eqb _ 0); exact Hl).
    destruct (start_session _ _) as [sc|e0]; [|injection H as <- <- <-; split; auto].
    destruct (batches n _) as [s1 o1] eqn:Hb.
    assert (Hi0 : PInvS (mkSt _ _ _ (set_sch _ _ _ c1 sc) (disk _ _ _ s))) by (split; [exact Hc1 | exact Hd]).
    destruct (batches_P _ _ _ _ Hi0 Hb) as [Hl1 Hd1].
    destruct o1; destruct (end_session _ _); injection H as <- <- <-; split; auto. Qed.

  Lemma calibrate_P n s s' e r : PInvS s -> calibrate n s = (s', e, r) -> PInvS s'.
  Proof. intros Hi H. rewrite (calibrate_unfold Param Series LossV) in H. destruct n; [|eapply calibrate_pos_P; eauto].
    destruct (calibrate_pos 0 s) as [[s1 e1] r1] eqn:E. pose proof (calibrate_pos_P _ _ _ _ _ Hi E) as [Hl Hd].
    apply (zero_ckpt_cases Param Series LossV) in H. destruct H as [(-> & _ & _) | [(_ & Hlive & Hdisk & _) | (_ & -> & _)]]; [split; auto | | split; auto].
    split; unfold PInv in *; rewrite ?Hlive; auto. intros d Hd'. rewrite Hdisk in Hd'. injection Hd' as <-. exact Hl. Qed.

  Lemma step_P s o s' e r : PInvS s -> step s o = (s', e, r) -> PInvS s'.
  Proof. intros Hi H. destruct o; cbn in H.
    - eapply calibrate_P; eauto.
    - unfold create_checkpoint in H. destruct Hi as [Hl Hd]. destruct (save _ _ _ _) eqn:Hs; injection H as <- <- <-; [|split; auto].
      split; [exact Hl|]. cbn. intros d Hd'. injection Hd' as <-. unfold save in Hs. destruct (sch _ _ _ _); [|discriminate]. now injection Hs as <-.
    - unfold restore in H. destruct Hi as [Hl Hd]. destruct (disk _ _ _ s) as [d|] eqn:Hdk; injection H as <- <- <-.
      + split; [exact (Hd d eq_refl) | cbn; exact Hd].
      + split; [exact Hl | now rewrite Hdk].
    - unfold set_samplers in H. destruct Hi as [Hl Hd]. destruct (tupdate _ _); injection H as <- <- <-; split; auto.
    - unfold set_scheduler in H. destruct Hi as [Hl Hd]. destruct (tupdate _ _); injection H as <- <- <-; split; auto.
  Qed.

  Theorem reachable_params_P cfg0 samplers scheduler s0 ops :
    construct Param Series LossV cfg0 samplers scheduler = inl s0 -> PInvS (run ops s0).
  Proof. intros Hc.
    assert (H0 : PInvS s0).
    { unfold construct in Hc. destruct (ctor_validation_raises _ _); [discriminate|].
      destruct (match samplers with Some l => _ | None => scheduler end); [|discriminate]. injection Hc as <-. split; [constructor | discriminate]. }
    clear Hc. revert s0 H0. induction ops as [|o ops IH]; intros s0 H0; cbn; [exact H0|]. apply IH.
    destruct (step s0 o) as [[s' e] r] eqn:E. cbn. eapply step_P; eauto. Qed.
End ParamsInv.

(* ---------- the built-in samplers as `propose` ---------- *)
Section Builtin.
  Variables (Series LossV : Type).
  Variable ltb : Z -> Z -> bool.
  Variable absdiff : Z -> Z -> Z.
  Variable grids : list (list Z).
  Variable St : Type.
  Notation Hist := (list point * list LossV)%type.
  Variable raw_of : cls -> St -> Hist -> nat -> list (list Z) * St.
  Variable idx_of : St -> Hist -> nat -> list (list nat) * St.
  Variable cls_of : sampler -> cls.           (* which built-in class the sampler object is *)
  Variable state_of : sampler -> St.          (* its internal state (generator, cursor, swarm, ...) at this call *)
  Variable budget_of : sampler -> nat.        (* max_deduplication_passes *)

  Hypothesis grids_ne : Forall (fun g : list Z => g <> []) grids.
  Hypothesis Hrw : raw_width_ok grids St Hist raw_of.
  Hypothesis Hix : idx_ok grids St Hist idx_of.
  Hypothesis Hrr : raw_rows_ok St Hist raw_of.
  Hypothesis Hir : idx_rows_ok St Hist idx_of.

  (* BaseSampler.sample of a built-in sampler: last step snap / grid index, then the de-duplication loop *)
  Definition builtin_propose (s : sampler) (ps : list point) (ls : list LossV) : list point :=
    output St (sampler_sample ltb absdiff grids St Hist fst raw_of idx_of (cls_of s) (s_bsize s) (budget_of s) (ps, ls) (state_of s)).

  Lemma builtin_propose_len s ps ls : length (builtin_propose s ps ls) = s_bsize s.
  Proof. unfold builtin_propose. now apply sampler_sample_shape. Qed.

  Lemma builtin_propose_on_grid s ps ls : Forall (on_grid Z grids) (builtin_propose s ps ls).
  Proof. unfold builtin_propose. now apply sampler_sample_on_grid. Qed.
End Builtin.
