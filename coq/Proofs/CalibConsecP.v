(* Batch labels are zero-based and consecutive: every index below the batch counter labels at least one row (C02),
   provided every sampler that is ever scheduled has batch_size >= 1. *)
From Coq Require Import List ZArith Bool Arith Lia.
From BlackIt Require Import Model.Calibrator Proofs.CalibratorP Proofs.CalibTableP.
Import ListNotations.

Section C.
  Variables (Param Series LossV : Type).
  Variable model : Param -> Z -> Series.
  Variable lossf : list Series -> LossV.
  Variable loss_leb : LossV -> LossV -> bool.
  Variable rounds0 : LossV -> nat -> bool.
  Variable propose : sampler -> list Param -> list LossV -> list Param.
  Variable draws : nat -> Z.
  Variable agent_actions : nat -> nat.
  Variable plan : fault.
  Hypothesis propose_len : forall s ps ls, length (propose s ps ls) = s_bsize s.

  Notation core := (core Param Series LossV).
  Notation cstate := (cstate Param Series LossV).
  Notation one_batch := (one_batch Param Series LossV model lossf loss_leb rounds0 propose draws agent_actions plan).
  Notation batches := (batches Param Series LossV model lossf loss_leb rounds0 propose draws agent_actions plan).
  Notation calibrate_pos := (calibrate_pos Param Series LossV model lossf loss_leb rounds0 propose draws agent_actions plan).
  Notation step := (step Param Series LossV model lossf loss_leb rounds0 propose draws agent_actions plan).
  Notation run := (run Param Series LossV model lossf loss_leb rounds0 propose draws agent_actions plan).

  Definition pos_sizes (l : list sampler) : Prop := Forall (fun s => 1 <= s_bsize s) l.
  Record Consec (c : core) : Prop := {
    cs_lab : forall b, b < batch_idx _ _ _ c -> In b (batch_nums _ _ _ c);
    cs_pos : pos_sizes (sched_samplers _ (sch _ _ _ c))
  }.
  Definition ConsecS (s : cstate) : Prop := Consec (live _ _ _ s) /\ forall d, disk _ _ _ s = Some d -> Consec d.

  Lemma replace_uid_pos m l : pos_sizes l -> In m l -> pos_sizes (replace_uid (called m) l).
  Proof. intros Hl Hm. unfold replace_uid, pos_sizes in *. rewrite Forall_forall in *. intros x Hx.
    apply in_map_iff in Hx. destruct Hx as [a [<- Ha]]. destruct (Nat.eqb _ _); [cbn; now apply Hl | now apply Hl]. Qed.
  Lemma reseed_from_pos l : forall k, pos_sizes l -> pos_sizes (reseed_from draws k l).
  Proof. induction l as [|s l IH]; intros k H; cbn; [constructor|]. inversion H; subst. constructor; [assumption | now apply IH]. Qed.

  Lemma Consec_same c c' : Consec c -> batch_nums _ _ _ c' = batch_nums _ _ _ c -> batch_idx _ _ _ c' = batch_idx _ _ _ c ->
     pos_sizes (sched_samplers _ (sch _ _ _ c')) -> Consec c'.
  Proof. intros [Hl Hp] Hb Hi Hp'. constructor; [rewrite Hb, Hi; exact Hl | exact Hp']. Qed.

  Lemma one_batch_consec s s' o : ConsecS s -> one_batch s = (s', o) -> ConsecS s'.
  Proof.
    intros [[Hlab Hpos] Hd] H. unfold Calibrator.one_batch in H.
    destruct (next_sampler LossV agent_actions (sch _ _ _ (live _ _ _ s))) as [[i sc1]|] eqn:Hn.
    2:{ injection H as <- <-. split; [constructor; assumption | exact Hd]. }
    pose proof (next_sampler_samplers _ _ _ _ _ Hn) as Hsame.
    assert (Hpos1 : pos_sizes (sched_samplers _ sc1)) by (rewrite Hsame; exact Hpos).
    destruct (nth_error (sched_samplers LossV sc1) i) as [m|] eqn:Hm.
    2:{ injection H as <- <-. split; [|exact Hd]. constructor; cbn; [exact Hlab | exact Hpos1]. }
    assert (Hin : In m (sched_samplers _ sc1)) by (eapply nth_error_In; eauto).
    assert (Hm1 : 1 <= s_bsize m) by (unfold pos_sizes in Hpos1; rewrite Forall_forall in Hpos1; now apply Hpos1).
    assert (Hpos2 : pos_sizes (sched_samplers _ (with_samplers _ sc1 (replace_uid (called m) (sched_samplers _ sc1)))))
      by (rewrite with_samplers_samplers; now apply replace_uid_pos).
    assert (Hraise : forall c', batch_nums _ _ _ c' = batch_nums _ _ _ (live _ _ _ s) -> batch_idx _ _ _ c' = batch_idx _ _ _ (live _ _ _ s) ->
               sch _ _ _ c' = with_samplers _ sc1 (replace_uid (called m) (sched_samplers _ sc1)) -> ConsecS (mkSt _ _ _ c' (disk _ _ _ s))).
    { intros c' Hb Hi Hs. split; [|exact Hd]. cbn [live]. eapply Consec_same; [constructor; eassumption | exact Hb | exact Hi |]. rewrite Hs. exact Hpos2. }
    destruct (sampler_faults plan m). { injection H as <- <-. apply Hraise; reflexivity. }
    destruct (simulate _ _ _ _ _ _ _ _ _) as [rows|n]. 2:{ injection H as <- <-. apply Hraise; reflexivity. }
    destruct (eval_losses _ _ _ _ rows _) as [nl|n]. 2:{ injection H as <- <-. apply Hraise; reflexivity. }
    destruct (tlookup _ _) as [mid|]. 2:{ injection H as <- <-. apply Hraise; reflexivity. }
    set (c' := mkCore _ _ _ _ _ _ _ _ _ _ _ _ _ _ _ _) in H.
    assert (Hc' : Consec c').
    { constructor; unfold c'; cbn.
      - intros b Hb. apply in_or_app. destruct (Nat.eq_dec b (batch_idx _ _ _ (live _ _ _ s))) as [->|Hne].
        + right. destruct (s_bsize m); [lia|]. now left.
        + left. apply Hlab. lia.
      - rewrite (sched_update_samplers LossV loss_leb). exact Hpos2. }
    repeat bm H; injection H as <- <-; (split; [exact Hc'|]); cbn; try exact Hd;
      intros d Hd'; injection Hd' as <-;
      match goal with Hsv : save _ _ _ c' = Some _ |- _ => unfold save in Hsv; destruct (sch _ _ _ c'); [injection Hsv as <-; exact Hc' | discriminate] end.
  Qed.

  Lemma batches_consec : forall n s s' o, ConsecS s -> batches n s = (s', o) -> ConsecS s'.
  Proof. induction n as [|n IH]; intros s s' o Hi H; cbn in H; [injection H as <- <-; auto|].
    destruct (one_batch s) as [s1 o1] eqn:E1. pose proof (one_batch_consec _ _ _ Hi E1) as Hi1.
    destruct o1; try (injection H as <- <-; auto). eapply IH; eauto. Qed.

  Lemma calibrate_pos_consec n s s' e r : ConsecS s -> calibrate_pos n s = (s', e, r) -> ConsecS s'.
  Proof.
    intros [Hl Hd] H. unfold Calibrator.calibrate_pos in H.
    set (c1 := if Nat.eqb _ 0 then _ else _) in H.
    assert (Hc1 : Consec c1).
    { unfold c1. destruct (Nat.eqb _ 0); [|exact Hl]. destruct Hl as [Hlab Hpos]. constructor; [exact Hlab|].
      unfold set_samplers_seeds. cbn. destruct (sch _ _ _ (live _ _ _ s)); cbn in *; now apply reseed_from_pos. }
    destruct (start_session _ _) as [sc|e0] eqn:Hss. 2:{ injection H as <- <- <-. split; auto. }
    destruct (batches n _) as [s1 o1] eqn:Hb.
    assert (Hi0 : ConsecS (mkSt _ _ _ (set_sch _ _ _ c1 sc) (disk _ _ _ s))).
    { split; [|exact Hd]. destruct Hc1 as [Hlab Hpos]. constructor; [exact Hlab|]. cbn. now rewrite (start_session_samplers _ _ _ Hss). }
    pose proof (batches_consec _ _ _ _ Hi0 Hb) as [Hl1 Hd1].
    destruct o1; destruct (end_session _ _) as [sc'|e1] eqn:Hes; injection H as <- <- <-; (split; [|exact Hd1]); try exact Hl1;
      destruct Hl1 as [Hlab Hpos]; (constructor; [exact Hlab|]); cbn; now rewrite (end_session_samplers _ _ _ Hes).
  Qed.

  Notation calibrate := (calibrate Param Series LossV model lossf loss_leb rounds0 propose draws agent_actions plan).
  Lemma calibrate_consec n s s' e r : ConsecS s -> calibrate n s = (s', e, r) -> ConsecS s'.
  Proof. intros Hi H. rewrite (calibrate_unfold Param Series LossV) in H. destruct n; [|eapply calibrate_pos_consec; eauto].
    destruct (calibrate_pos 0 s) as [[s1 e1] r1] eqn:E. pose proof (calibrate_pos_consec _ _ _ _ _ Hi E) as [Hl Hd].
    apply (zero_ckpt_cases Param Series LossV) in H. destruct H as [(-> & _ & _) | [(_ & Hlive & Hdisk & _) | (_ & -> & _)]]; [split; auto | | split; auto].
    split; rewrite ?Hlive; auto. intros d Hd'. rewrite Hdisk in Hd'. injection Hd' as <-. exact Hl. Qed.

  Definition op_pos (o : op) : Prop :=
    match o with OSetSamplers l | OSetScheduler l => pos_sizes l | _ => True end.

  Lemma step_consec s o s' e r : ConsecS s -> op_pos o -> step s o = (s', e, r) -> ConsecS s'.
  Proof.
    intros Hi Hop H. destruct o; cbn in H, Hop.
    - eapply calibrate_consec; eauto.
    - unfold create_checkpoint in H. destruct Hi as [Hl Hd]. destruct (save _ _ _ _) eqn:Hs; injection H as <- <- <-; [|split; auto].
      split; [exact Hl|]. cbn. intros d Hd'. injection Hd' as <-. unfold save in Hs. destruct (sch _ _ _ _); [|discriminate]. now injection Hs as <-.
    - unfold restore in H. destruct Hi as [Hl Hd]. destruct (disk _ _ _ s) as [d|] eqn:Hdk; injection H as <- <- <-.
      + split; [|cbn; exact Hd]. cbn. destruct (Hd d eq_refl) as [Hlab Hpos]. constructor; assumption.
      + split; [exact Hl | now rewrite Hdk].
    - unfold set_samplers in H. destruct Hi as [[Hlab Hpos] Hd]. destruct (tupdate _ _); injection H as <- <- <-;
        (split; [|exact Hd]); (constructor; [exact Hlab|]); cbn; now rewrite with_samplers_samplers.
    - unfold set_scheduler in H. destruct Hi as [[Hlab Hpos] Hd]. 
      assert (Hu : pos_sizes (map unseeded l)).
      { unfold pos_sizes in *. rewrite Forall_forall in *. intros x Hx. apply in_map_iff in Hx. destruct Hx as [y [<- Hy]]. cbn. now apply Hop. }
      destruct (tupdate _ _); injection H as <- <- <-; (split; [|exact Hd]); (constructor; [exact Hlab|]); cbn; exact Hu.
  Qed.

  Theorem reachable_labels_consecutive cfg0 samplers scheduler s0 : forall ops,
    construct Param Series LossV cfg0 samplers scheduler = inl s0 ->
    pos_sizes (sched_samplers _ (sch _ _ _ (live _ _ _ s0))) -> Forall op_pos ops ->
    ConsecS (run ops s0).
  Proof.
    intros ops Hc Hp Hops.
    assert (H0 : ConsecS s0).
    { unfold construct in Hc. destruct (ctor_validation_raises _ _); [discriminate|].
      destruct (match samplers with Some l => _ | None => scheduler end) as [sc|]; [|discriminate].
      injection Hc as <-. split; [|discriminate]. constructor; cbn in *; [intros b Hb; lia | exact Hp]. }
    clear Hc Hp. revert s0 H0. induction Hops as [|o ops Ho Hops IH]; intros s0 H0; cbn; [exact H0|].
    apply IH. destruct (step s0 o) as [[s' e] r] eqn:E. cbn. eapply step_consec; eauto.
  Qed.
End C.
