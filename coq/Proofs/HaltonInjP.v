(* The radical inverse is injective (C13, round 5): distinct indices give distinct Halton coordinates in every base,
   so the points of a run - whose indices are the consecutive integers s+1, s+2, ... (C13_kth_point_index) - never
   repeat a coordinate, within a batch or across batches. *)
From Coq Require Import List ZArith QArith Qabs Bool Lia Lqa.
From BlackIt Require Import Model.Halton Proofs.HaltonP.
Import ListNotations.
Open Scope Z_scope.

(* the recursion satisfied by the digit list *)
Lemma digits_step b n : 2 <= b -> 0 < n -> digits b n = (n mod b) :: digits b (n / b).
Proof.
  intros Hb Hn. unfold digits at 1. unfold dfuel. cbn [digits_fuel].
  destruct (n <=? 0) eqn:E; [lia|]. f_equal.
  apply digits_fuel_digits; [lia | apply Z.div_pos; lia |].
  rewrite Z.div_div by (try lia; apply Z.pow_pos_nonneg; lia).
  rewrite <- Z.pow_succ_r by lia. rewrite <- Nat2Z.inj_succ.
  apply div_pow_dfuel; [lia | lia | unfold dfuel; lia].
Qed.

Lemma digits_0 b : digits b 0 = [].
Proof. reflexivity. Qed.

Lemma radinv_0 b : (radinv b 0 == 0)%Q.
Proof. reflexivity. Qed.

Lemma radinv_step b n : 2 <= b -> 0 < n ->
  (radinv b n == (inject_Z (n mod b) + radinv b (n / b)) / inject_Z b)%Q.
Proof. intros Hb Hn. unfold radinv. rewrite digits_step by assumption. apply rsum_cons0. lia. Qed.

(* a positive index has a positive radical inverse *)
Lemma radinv_pos_fuel f : forall b n, 2 <= b -> 0 < n -> n < 2 ^ Z.of_nat f -> (0 < radinv b n)%Q.
Proof.
  induction f as [|f IH]; intros b n Hb Hn Hlt.
  - cbn in Hlt. lia.
  - rewrite radinv_step by assumption.
    assert (Pb : (0 < inject_Z b)%Q) by (apply inject_Z_pos; lia).
    apply Qlt_shift_div_l; [exact Pb|]. rewrite Qmult_0_l.
    pose proof (Z.mod_pos_bound n b ltac:(lia)) as Hm.
    assert (Hq0 : 0 <= n / b) by (apply Z.div_pos; lia).
    destruct (radinv_range b (n / b) Hb Hq0) as [R0 _].
    destruct (Z.eq_dec (n mod b) 0) as [Z0 | NZ].
    + assert (Hq : 0 < n / b).
      { pose proof (Z.div_mod n b ltac:(lia)). destruct (Z.eq_dec (n / b) 0) as [E|E]; [rewrite E in *; lia | lia]. }
      assert (Hlt' : n / b < 2 ^ Z.of_nat f).
      { apply Z.div_lt_upper_bound; [lia|]. rewrite Nat2Z.inj_succ, Z.pow_succ_r in Hlt by lia.
        assert (0 < 2 ^ Z.of_nat f) by (apply Z.pow_pos_nonneg; lia). nia. }
      pose proof (IH b (n / b) Hb Hq Hlt') as P. rewrite Z0. change (inject_Z 0) with 0%Q. lra.
    + assert (D : (1 <= inject_Z (n mod b))%Q) by (change 1%Q with (inject_Z 1); rewrite <- Zle_Qle; lia).
      lra.
Qed.

Lemma radinv_pos b n : 2 <= b -> 0 < n -> (0 < radinv b n)%Q.
Proof. intros Hb Hn. apply (radinv_pos_fuel (dfuel n)); auto. apply dfuel_bound. lia. Qed.

(* an integer plus a fraction in [0,1) determines both *)
Lemma int_frac_unique d1 d2 r1 r2 : (0 <= r1)%Q -> (r1 < 1)%Q -> (0 <= r2)%Q -> (r2 < 1)%Q ->
  (inject_Z d1 + r1 == inject_Z d2 + r2)%Q -> d1 = d2 /\ (r1 == r2)%Q.
Proof.
  intros A1 B1 A2 B2 E.
  assert (L1 : (inject_Z d1 < inject_Z (d2 + 1))%Q) by (rewrite inject_Z_plus; change (inject_Z 1) with 1%Q; lra).
  assert (L2 : (inject_Z d2 < inject_Z (d1 + 1))%Q) by (rewrite inject_Z_plus; change (inject_Z 1) with 1%Q; lra).
  rewrite <- Zlt_Qlt in L1, L2. assert (d1 = d2) by lia. subst. split; [reflexivity | lra].
Qed.

Lemma radinv_inj_fuel f : forall b n m, 2 <= b -> 0 <= n -> 0 <= m -> n < 2 ^ Z.of_nat f ->
  (radinv b n == radinv b m)%Q -> n = m.
Proof.
  induction f as [|f IH]; intros b n m Hb Hn Hm Hlt E.
  - cbn in Hlt. assert (n = 0) by lia. subst n.
    destruct (Z.eq_dec m 0) as [->|NZ]; [reflexivity|].
    pose proof (radinv_pos b m Hb ltac:(lia)) as P. rewrite <- E in P. rewrite radinv_0 in P. now apply Qlt_irrefl in P.
  - destruct (Z.eq_dec n 0) as [->|NZn].
    + destruct (Z.eq_dec m 0) as [->|NZ]; [reflexivity|].
      pose proof (radinv_pos b m Hb ltac:(lia)) as P. rewrite <- E in P. rewrite radinv_0 in P. now apply Qlt_irrefl in P.
    + destruct (Z.eq_dec m 0) as [->|NZm].
      * pose proof (radinv_pos b n Hb ltac:(lia)) as P. rewrite E in P. rewrite radinv_0 in P. now apply Qlt_irrefl in P.
      * rewrite (radinv_step b n), (radinv_step b m) in E by lia.
        assert (Pb : (0 < inject_Z b)%Q) by (apply inject_Z_pos; lia).
        assert (NZb : ~ (inject_Z b == 0)%Q) by (apply inject_Z_nz; lia).
        assert (E' : (inject_Z (n mod b) + radinv b (n / b) == inject_Z (m mod b) + radinv b (m / b))%Q).
        { apply (Qmult_inj_r _ _ (/ inject_Z b)); [|exact E].
          intros Z0. apply NZb. rewrite <- (Qinv_involutive (inject_Z b)). rewrite Z0. reflexivity. }
        assert (Hqn : 0 <= n / b) by (apply Z.div_pos; lia).
        assert (Hqm : 0 <= m / b) by (apply Z.div_pos; lia).
        destruct (radinv_range b (n / b) Hb Hqn) as [A1 B1].
        destruct (radinv_range b (m / b) Hb Hqm) as [A2 B2].
        destruct (int_frac_unique _ _ _ _ A1 B1 A2 B2 E') as [Ed Er].
        assert (Hlt' : n / b < 2 ^ Z.of_nat f).
        { apply Z.div_lt_upper_bound; [lia|]. rewrite Nat2Z.inj_succ, Z.pow_succ_r in Hlt by lia.
          assert (0 < 2 ^ Z.of_nat f) by (apply Z.pow_pos_nonneg; lia). nia. }
        pose proof (IH b (n / b) (m / b) Hb Hqn Hqm Hlt' Er) as Eq.
        pose proof (Z.div_mod n b ltac:(lia)). pose proof (Z.div_mod m b ltac:(lia)). nia.
Qed.

Theorem radinv_inj b n m : 2 <= b -> 0 <= n -> 0 <= m -> (radinv b n == radinv b m)%Q -> n = m.
Proof. intros Hb Hn Hm. apply (radinv_inj_fuel (dfuel n)); auto. now apply dfuel_bound. Qed.
