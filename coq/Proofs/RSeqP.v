(* Lemmas about Model/RSeq.v.  The root phi_d of x^(d+1) = x + 1 is irrational, so the statements about it are over
   R (Coq's axiomatised reals); the certificate evaluates the same polynomial at rational points (bridge: fpoly_Q2R). *)
From Coq Require Import List ZArith QArith Qabs Qround Bool Lia Lqa Reals Lra Qreals.
From BlackIt Require Import Model.Halton Model.RSeq Proofs.HaltonP.
Import ListNotations.

(* ------------------------------------------------------------------ the polynomial over R *)
Open Scope R_scope.

Definition Rf (d : nat) (x : R) : R := x ^ S d - x - 1.

Lemma pow_diff_ge n a b : (1 <= n)%nat -> 1 <= a -> a < b -> b - a <= b ^ n - a ^ n /\ 1 <= a ^ n /\ 1 <= b ^ n.
Proof.
  intros Hn Ha Hab. induction n as [|n IH]; [lia|].
  destruct n as [|n].
  - cbn. lra.
  - destruct IH as (I1 & I2 & I3); [lia|]. set (p := a ^ S n) in *. set (q := b ^ S n) in *.
    change (a ^ S (S n)) with (a * p). change (b ^ S (S n)) with (b * q).
    repeat split; nra.
Qed.

Lemma Rf_strict_mono d a b : (1 <= d)%nat -> 1 <= a -> a < b -> Rf d a < Rf d b.
Proof.
  intros Hd Ha Hab. unfold Rf. destruct (pow_diff_ge d a b Hd Ha Hab) as (I1 & I2 & I3).
  set (p := a ^ d) in *. set (q := b ^ d) in *.
  change (a ^ S d) with (a * p). change (b ^ S d) with (b * q). nra.
Qed.

Lemma Rf_mono d a b : (1 <= d)%nat -> 1 <= a -> a <= b -> Rf d a <= Rf d b.
Proof.
  intros Hd Ha [Hab | <- ]; [|lra]. left. now apply Rf_strict_mono.
Qed.

Theorem phi_unique d r1 r2 : (1 <= d)%nat -> 1 <= r1 -> 1 <= r2 -> Rf d r1 = 0 -> Rf d r2 = 0 -> r1 = r2.
Proof.
  intros Hd H1 H2 E1 E2. destruct (Rtotal_order r1 r2) as [H|[H|H]]; [|exact H|].
  - pose proof (Rf_strict_mono d r1 r2 Hd H1 H). lra.
  - pose proof (Rf_strict_mono d r2 r1 Hd H2 H). lra.
Qed.

Lemma Rf_continuous d : continuity (Rf d).
Proof.
  change (Rf d) with (((fun x => x ^ S d) - id) - fct_cte 1)%F.
  apply continuity_minus; [apply continuity_minus|].
  - apply derivable_continuous, derivable_pow.
  - apply derivable_continuous, derivable_id.
  - apply continuity_const. intros x y. reflexivity.
Qed.

Lemma pow2_ge4 d : (1 <= d)%nat -> 4 <= 2 ^ S d.
Proof.
  intros Hd. induction d as [|d IH]; [lia|]. destruct d as [|d].
  - cbn. lra.
  - specialize (IH ltac:(lia)). change (2 ^ S (S (S d))) with (2 * 2 ^ S (S d)). lra.
Qed.

(* the root exists (intermediate value theorem on [1,2]) and lies strictly inside (1,2) *)
Theorem phi_exists d : (1 <= d)%nat -> exists r, 1 < r < 2 /\ Rf d r = 0.
Proof.
  intros Hd.
  assert (F1 : Rf d 1 < 0) by (unfold Rf; rewrite pow1; lra).
  assert (F2 : 0 < Rf d 2) by (unfold Rf; pose proof (pow2_ge4 d Hd); lra).
  destruct (IVT (Rf d) 1 2 (Rf_continuous d) ltac:(lra) F1 F2) as (z & [Z1 Z2] & Z3).
  exists z. split; [|exact Z3]. split.
  - destruct Z1 as [Z1 | <- ]; [exact Z1|]. lra.
  - destruct Z2 as [Z2 | -> ]; [exact Z2|]. lra.
Qed.

(* ------------------------------------------------------------------ bridge Q -> R *)

Lemma Q2R_1 : Q2R 1 = 1.
Proof. unfold Q2R. cbn. lra. Qed.
Lemma Q2R_0 : Q2R 0 = 0.
Proof. unfold Q2R. cbn. lra. Qed.

Lemma qpow_Q2R x n : Q2R (qpow x n) = Q2R x ^ n.
Proof. induction n as [|n IH]; cbn [qpow pow]; [apply Q2R_1|]. now rewrite Q2R_mult, IH. Qed.

Lemma fpoly_Q2R d x : Q2R (fpoly d x) = Rf d (Q2R x).
Proof. unfold fpoly, Rf. now rewrite !Q2R_minus, qpow_Q2R, Q2R_1. Qed.

Lemma Qlt_bool_true x y : Qlt_bool x y = true -> (x < y)%Q.
Proof.
  unfold Qlt_bool. intros H. apply negb_true_iff in H. apply Qnot_le_lt. intros C.
  apply Qle_bool_iff in C. congruence.
Qed.

(* the certificate: a sign change of the polynomial between x - eps and x + eps (both >= 1) pins EVERY root >= 1
   (there is exactly one, phi_exists/phi_unique) into the open interval *)
Theorem phi_bracket d x eps : (1 <= d)%nat -> phi_cert d x eps = true ->
  forall r, 1 <= r -> Rf d r = 0 -> Q2R x - Q2R eps < r < Q2R x + Q2R eps.
Proof.
  intros Hd Hc r Hr Hz. unfold phi_cert in Hc. rewrite !andb_true_iff in Hc.
  destruct Hc as [[[C1 C2] C3] C4].
  apply Qle_bool_iff, Qle_Rle in C1. apply Qle_bool_iff, Qle_Rle in C2.
  apply Qlt_bool_true, Qlt_Rlt in C3. apply Qlt_bool_true, Qlt_Rlt in C4.
  rewrite fpoly_Q2R in C3, C4. rewrite Q2R_0 in C3, C4. rewrite Q2R_1 in C1, C2.
  rewrite Q2R_minus in C1, C3. rewrite Q2R_plus in C2, C4. split.
  - destruct (Rlt_le_dec (Q2R x - Q2R eps) r) as [H|H]; [exact H|].
    pose proof (Rf_mono d r (Q2R x - Q2R eps) Hd Hr H). lra.
  - destruct (Rlt_le_dec r (Q2R x + Q2R eps)) as [H|H]; [exact H|].
    pose proof (Rf_mono d (Q2R x + Q2R eps) r Hd C2 H). lra.
Qed.

Corollary phi_bracket_the_root d x eps : (1 <= d)%nat -> phi_cert d x eps = true ->
  exists r, 1 < r < 2 /\ Rf d r = 0 /\ Rabs (Q2R x - r) < Q2R eps /\
            (forall r', 1 <= r' -> Rf d r' = 0 -> r' = r).
Proof.
  intros Hd Hc. destruct (phi_exists d Hd) as (r & Hr & Hz). exists r.
  repeat split; try lra; auto.
  - pose proof (phi_bracket d x eps Hd Hc r ltac:(lra) Hz). apply Rabs_def1; lra.
  - intros r' H1 H2. apply (phi_unique d); auto; lra.
Qed.

Close Scope R_scope.
Open Scope Q_scope.

(* ------------------------------------------------------------------ alpha_k = phi^-k *)

Lemma alpha_from_spec r n : forall a j, a == qpow r j ->
  Forall2 Qeq (alpha_from r a n) (map (fun k => qpow r k) (seq j n)).
Proof.
  induction n as [|n IH]; intros a j Ha; cbn [alpha_from seq map]; constructor; auto.
  apply IH. cbn [qpow]. rewrite Ha. ring.
Qed.

Theorem alpha_of_spec phi dims : Forall2 Qeq (alpha_of phi dims) (map (fun k => qpow (/ phi) k) (seq 1 dims)).
Proof. apply alpha_from_spec. cbn. ring. Qed.

(* the check rounds alpha_k down to a multiple of 2^-100 before use: error < 2^-100 *)
Lemma qtrunc_bound p x : qtrunc p x <= x /\ x < qtrunc p x + (1 # (2 ^ p)%positive).
Proof.
  unfold qtrunc. set (P := (2 ^ p)%positive). set (y := x * inject_Z (Zpos P)).
  pose proof (Qfloor_le y) as H1. pose proof (Qlt_floor y) as H2.
  rewrite inject_Z_plus in H2. change (inject_Z 1) with 1 in H2.
  assert (HP : 0 < inject_Z (Zpos P)) by reflexivity.
  assert (E : Qfloor y # P == inject_Z (Qfloor y) / inject_Z (Zpos P)) by apply Qmake_Qdiv.
  assert (E1 : 1 # P == 1 / inject_Z (Zpos P)) by (apply (Qmake_Qdiv 1 P)).
  rewrite E, E1. split.
  - apply Qle_shift_div_r; auto.
  - setoid_replace (inject_Z (Qfloor y) / inject_Z (Z.pos P) + 1 / inject_Z (Z.pos P))
      with ((inject_Z (Qfloor y) + 1) / inject_Z (Z.pos P)) by (field; intros C; rewrite C in HP; discriminate).
    apply Qlt_shift_div_l; auto.
Qed.

(* ------------------------------------------------------------------ frac *)

Lemma Qfloor_unique y m : inject_Z m <= y -> y < inject_Z (m + 1) -> Qfloor y = m.
Proof.
  intros H1 H2. pose proof (Qfloor_le y) as F1. pose proof (Qlt_floor y) as F2.
  assert (A : (Qfloor y < m + 1)%Z) by (rewrite Zlt_Qlt; eapply Qle_lt_trans; eauto).
  assert (B : (m < Qfloor y + 1)%Z) by (rewrite Zlt_Qlt; eapply Qle_lt_trans; eauto).
  lia.
Qed.

Lemma Qfloor_add_Z x k : Qfloor (x + inject_Z k) = (Qfloor x + k)%Z.
Proof.
  apply Qfloor_unique.
  - rewrite inject_Z_plus. apply Qplus_le_l, Qfloor_le.
  - replace (Qfloor x + k + 1)%Z with ((Qfloor x + 1) + k)%Z by lia. rewrite inject_Z_plus.
    apply Qplus_lt_l, Qlt_floor.
Qed.

Global Instance frac_comp : Proper (Qeq ==> Qeq) frac.
Proof. intros x y E. change (x == y) in E. unfold frac. rewrite (Qfloor_comp x y E). rewrite E. reflexivity. Qed.

Lemma frac_add_Z x k : frac (x + inject_Z k) == frac x.
Proof. unfold frac. rewrite Qfloor_add_Z, inject_Z_plus. ring. Qed.

Lemma frac_range x : 0 <= frac x /\ frac x < 1.
Proof.
  unfold frac. pose proof (Qfloor_le x). pose proof (Qlt_floor x) as H2.
  rewrite inject_Z_plus in H2. change (inject_Z 1) with 1 in H2. split; Lqa.lra.
Qed.

(* a value already in [0,1) is left unchanged *)
Lemma frac_small x : 0 <= x -> x < 1 -> frac x == x.
Proof.
  intros H0 H1. unfold frac. rewrite (Qfloor_unique x 0); [cbn; ring | exact H0 | exact H1].
Qed.

(* ------------------------------------------------------------------ increments *)

Lemma rseq_increment_coord off a n :
  frac (off + inject_Z (n + 1) * a) == frac (frac (off + inject_Z n * a) + a).
Proof.
  unfold frac at 3. set (m := Qfloor (off + inject_Z n * a)).
  setoid_replace (off + inject_Z n * a - inject_Z m + a) with (off + inject_Z (n + 1) * a + inject_Z (- m)).
  - now rewrite frac_add_Z.
  - rewrite inject_Z_plus, inject_Z_opp. change (inject_Z 1) with 1. ring.
Qed.

Theorem rseq_increment off alpha n :
  Forall2 Qeq (rpoint off alpha (n + 1)) (zip2 (fun p a => frac (p + a)) (rpoint off alpha n) alpha).
Proof.
  unfold rpoint. induction alpha as [|a r IH]; cbn [map zip2]; constructor; auto.
  apply rseq_increment_coord.
Qed.

Theorem rpoint_range off alpha n : Forall (fun x => 0 <= x /\ x < 1) (rpoint off alpha n).
Proof. unfold rpoint. apply Forall_forall. intros x Hx. apply in_map_iff in Hx. destruct Hx as (a & <- & _). apply frac_range. Qed.

(* a point is the offset plus n steps of alpha, reduced mod 1: explicit multiple of 1 removed *)
Lemma rpoint_coord off a n : exists m : Z, frac (off + inject_Z n * a) == off + inject_Z n * a - inject_Z m.
Proof. eexists. unfold frac. reflexivity. Qed.

(* ------------------------------------------------------------------ batches *)

Lemma rbatch_concat off alpha s k1 k2 :
  rbatch off alpha s k1 ++ rbatch off alpha (s + Z.of_nat k1) k2 = rbatch off alpha s (k1 + k2).
Proof. unfold rbatch. now rewrite zrange_app, map_app. Qed.

Lemma rbatch_nth off alpha s k j : (j < k)%nat ->
  nth j (rbatch off alpha s k) [] = rpoint off alpha (s + Z.of_nat j).
Proof.
  intros H. unfold rbatch.
  rewrite (nth_indep _ [] (rpoint off alpha 0)) by now rewrite map_length, zrange_length.
  rewrite map_nth. now rewrite zrange_nth.
Qed.

Definition nsum (ks : list nat) : nat := fold_right Nat.add 0%nat ks.

Theorem rbatches_fold off alpha ks : forall s,
  rrun off alpha s ks = (rbatch off alpha s (nsum ks), (s + Z.of_nat (nsum ks))%Z).
Proof.
  induction ks as [|k r IH]; intros s.
  - cbn. f_equal. lia.
  - cbn [rrun]. unfold rsample. rewrite IH. cbn [nsum fold_right]. fold (nsum r).
    rewrite rbatch_concat. f_equal. lia.
Qed.
