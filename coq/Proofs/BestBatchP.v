(* Lemmas about Model/BestBatch.v. *)
From Coq Require Import List QArith Qabs Bool Arith ZArith Lia Sorted Permutation.
From BlackIt Require Import Model.BestBatch Proofs.SnapP Proofs.SurrogateP.
Import ListNotations.

(* ------------------------------------------------------------------ list helpers *)
Lemma skipn_nth_cons {A} (d : A) : forall (l : list A) p, (p < length l)%nat -> skipn p l = nth p l d :: skipn (S p) l.
Proof.
  induction l as [|x l IH]; intros p Hp; cbn in Hp; [lia|].
  destruct p; [reflexivity|]. cbn [skipn nth]. apply IH. lia.
Qed.

Lemma nth_firstn_lt {A} (d : A) : forall (l : list A) n i, (i < n)%nat -> nth i (firstn n l) d = nth i l d.
Proof.
  induction l as [|x l IH]; intros n i Hi; [now rewrite firstn_nil|].
  destruct n; [lia|]. destruct i; [reflexivity|]. cbn. apply IH. lia.
Qed.

Lemma StronglySorted_app_r {A} (R : A -> A -> Prop) : forall l1 l2, StronglySorted R (l1 ++ l2) -> StronglySorted R l2.
Proof.
  induction l1 as [|x l1 IH]; intros l2 H; [exact H|]. cbn in H. apply StronglySorted_inv in H. now apply IH.
Qed.

Lemma filter_all_false {A} (p : A -> bool) l : (forall x, In x l -> p x = false) -> filter p l = [].
Proof.
  induction l as [|x l IH]; intros H; [reflexivity|]. cbn. rewrite (H x (or_introl eq_refl)).
  apply IH. intros y Hy. apply H. now right.
Qed.

Lemma filter_length_le {A} (p : A -> bool) l : (length (filter p l) <= length l)%nat.
Proof. induction l as [|x l IH]; cbn; [lia|]. destruct (p x); cbn; lia. Qed.

Lemma filter_perm_length {A} (p : A -> bool) l l' : Permutation l l' -> length (filter p l) = length (filter p l').
Proof.
  induction 1; cbn; try lia.
  - destruct (p x); cbn; lia.
  - destruct (p x), (p y); cbn; lia.
Qed.

(* ------------------------------------------------------------------ update / shocks *)
Lemma update_length j f : forall row, length (update j f row) = length row.
Proof.
  revert j. intros j row. revert j. induction row as [|x r IH]; intros j; [reflexivity|].
  destruct j; cbn; [reflexivity|]. now rewrite IH.
Qed.

Lemma nth_update_same f : forall row j, (j < length row)%nat -> nth j (update j f row) 0 = f (nth j row 0).
Proof.
  induction row as [|x r IH]; intros j Hj; cbn in Hj; [lia|].
  destruct j; [reflexivity|]. cbn. apply IH. lia.
Qed.

Lemma nth_update_other f : forall row i j, i <> j -> nth i (update j f row) 0 = nth i row 0.
Proof.
  induction row as [|x r IH]; intros i j Hij; [reflexivity|].
  destruct j; destruct i; cbn; try reflexivity; try congruence. apply IH. congruence.
Qed.

Section Shocks.
  Variable sp : space.
  Variable clipping : bool.

  Lemma shocked_length ss : forall c, length (shocked sp clipping c ss) = length c.
  Proof.
    induction ss as [|s ss IH]; intros c; [reflexivity|]. unfold shocked in *. cbn [fold_left].
    rewrite IH. unfold shock_step. apply update_length.
  Qed.

  Lemma shocked_untouched ss : forall c j, ~ In j (map s_coord ss) -> nth j (shocked sp clipping c ss) 0 = nth j c 0.
  Proof.
    induction ss as [|s ss IH]; intros c j Hj; [reflexivity|]. unfold shocked in *. cbn [fold_left].
    cbn in Hj. rewrite IH by tauto. unfold shock_step. apply nth_update_other. intros ->. tauto.
  Qed.

  Lemma shocked_touched ss : forall c s, NoDup (map s_coord ss) -> In s ss -> (s_coord s < length c)%nat ->
    nth (s_coord s) (shocked sp clipping c ss) 0 = shock_fun sp clipping s (nth (s_coord s) c 0).
  Proof.
    induction ss as [|a ss IH]; intros c s Hnd Hin Hlt; [contradiction|].
    cbn in Hnd. apply NoDup_cons_iff in Hnd. destruct Hnd as [Hna Hnd].
    change (shocked sp clipping c (a :: ss)) with (shocked sp clipping (shock_step sp clipping c a) ss).
    destruct Hin as [->|Hin].
    - rewrite shocked_untouched by exact Hna. unfold shock_step. now apply nth_update_same.
    - assert (Hne : s_coord s <> s_coord a).
      { intros E. apply Hna. rewrite <- E. now apply in_map. }
      rewrite IH; try assumption.
      + f_equal. unfold shock_step. now apply nth_update_other.
      + unfold shock_step. now rewrite update_length.
  Qed.
End Shocks.

Open Scope Q_scope.

Lemma shock_fun_noclip sp s x :
  shock_fun sp false s x == x + inject_Z (steps_of s) * nth (s_coord s) (prec sp) 0.
Proof.
  unfold shock_fun, steps_of, sign_q. destruct (s_sign s).
  - ring.
  - rewrite inject_Z_opp. ring.
Qed.

Lemma shock_fun_clip sp s x :
  shock_fun sp true s x
  = clipQ (shock_fun sp false s x) (nth (s_coord s) (lower sp) 0) (nth (s_coord s) (upper sp) 0).
Proof. reflexivity. Qed.

Lemma steps_of_range sp range s : shock_okb sp range s = true ->
  (s_coord s < dims sp)%nat /\ (1 <= Z.abs (steps_of s) <= Z.of_nat range - 1)%Z.
Proof.
  unfold shock_okb. intros H. apply andb_true_iff in H. destruct H as [H H3].
  apply andb_true_iff in H. destruct H as [H1 H2].
  apply Nat.ltb_lt in H1. apply Nat.leb_le in H2. apply Nat.ltb_lt in H3. split; [exact H1|].
  unfold steps_of. destruct (s_sign s); lia.
Qed.

Lemma nodupb_NoDup l : nodupb l = true -> NoDup l.
Proof.
  induction l as [|x l IH]; intros H; [constructor|]. cbn in H. apply andb_true_iff in H. destruct H as [Hx Hl].
  constructor; [|now apply IH]. intros Hin. apply negb_true_iff in Hx.
  assert (existsb (Nat.eqb x) l = true) by (apply existsb_exists; exists x; split; [exact Hin | apply Nat.eqb_refl]).
  congruence.
Qed.

Lemma choice_okb_inv k sp range c : choice_okb k sp range c = true ->
  (fst c < k)%nat /\ (1 <= length (snd c) <= dims sp)%nat /\ NoDup (map s_coord (snd c)) /\
  Forall (fun s => shock_okb sp range s = true) (snd c).
Proof.
  unfold choice_okb. intros H.
  apply andb_true_iff in H. destruct H as [H H5]. apply andb_true_iff in H. destruct H as [H H4].
  apply andb_true_iff in H. destruct H as [H H3]. apply andb_true_iff in H. destruct H as [H1 H2].
  apply Nat.ltb_lt in H1. apply Nat.leb_le in H2. apply Nat.leb_le in H3.
  repeat split; try assumption.
  - now apply nodupb_NoDup.
  - apply Forall_forall. rewrite forallb_forall in H5. exact H5.
Qed.

(* the displacement before clipping *)
Lemma displacement k sp range (c : list Q) (ch : row_choice) :
  choice_okb k sp range ch = true -> length c = dims sp ->
  let y := shocked sp false c (snd ch) in
  let J := map s_coord (snd ch) in
  length y = length c /\ (1 <= length J <= dims sp)%nat /\ NoDup J /\
  (forall j, In j J -> (j < dims sp)%nat /\
     exists s : Z, (1 <= Z.abs s <= Z.of_nat range - 1)%Z /\ nth j y 0 == nth j c 0 + inject_Z s * nth j (prec sp) 0) /\
  (forall j, ~ In j J -> nth j y 0 = nth j c 0).
Proof.
  intros Hok Hlen y J. destruct (choice_okb_inv _ _ _ _ Hok) as [_ [Hn [Hnd Hall]]].
  split; [apply shocked_length|]. split; [unfold J; now rewrite map_length|]. split; [exact Hnd|]. split.
  - intros j Hj. unfold J in Hj. apply in_map_iff in Hj. destruct Hj as [s [<- Hs]].
    rewrite Forall_forall in Hall. destruct (steps_of_range _ _ _ (Hall s Hs)) as [Hc Hr].
    split; [exact Hc|]. exists (steps_of s). split; [exact Hr|].
    unfold y. rewrite shocked_touched; try assumption; [|lia]. apply shock_fun_noclip.
  - intros j Hj. now apply shocked_untouched.
Qed.

(* what the code hands to the snap: the displaced coordinates confined to their bounds, the others as in the parent *)
Lemma confined k sp range (c : list Q) (ch : row_choice) :
  choice_okb k sp range ch = true -> length c = dims sp ->
  let y := shocked sp false c (snd ch) in
  let z := shocked sp true c (snd ch) in
  let J := map s_coord (snd ch) in
  length z = length c /\
  (forall j, In j J -> nth j z 0 = clipQ (nth j y 0) (nth j (lower sp) 0) (nth j (upper sp) 0)) /\
  (forall j, ~ In j J -> nth j z 0 = nth j c 0).
Proof.
  intros Hok Hlen y z J. destruct (choice_okb_inv _ _ _ _ Hok) as [_ [Hn [Hnd Hall]]].
  split; [apply shocked_length|]. split.
  - intros j Hj. unfold J in Hj. apply in_map_iff in Hj. destruct Hj as [s [<- Hs]].
    rewrite Forall_forall in Hall. destruct (steps_of_range _ _ _ (Hall s Hs)) as [Hc _].
    unfold z, y. rewrite !shocked_touched; try assumption; try lia. apply shock_fun_clip.
  - intros j Hj. now apply shocked_untouched.
Qed.

Lemma clipQ_between x lo hi : lo <= hi -> lo <= clipQ x lo hi /\ clipQ x lo hi <= hi.
Proof.
  intros H. unfold clipQ, Qminb, Qmaxb.
  destruct (Qle_bool x lo) eqn:E1.
  - destruct (Qle_bool lo hi) eqn:E2; [split; [apply Qle_refl | exact H]|].
    apply Qle_bool_iff in H. congruence.
  - assert (lo < x) by (apply Qnot_le_lt; intros C; apply Qle_bool_iff in C; congruence).
    destruct (Qle_bool x hi) eqn:E2.
    + apply Qle_bool_iff in E2. split; [now apply Qlt_le_weak | exact E2].
    + split; [exact H | apply Qle_refl].
Qed.

(* ------------------------------------------------------------------ sample_batch *)
Section BestBatchP0.
  Variable L : Type.
  Variable argsort : list L -> list nat.

  Notation sb := (sample_batch L argsort).

  Lemma needs_k_points k sp h choices : sb k sp h choices = RaiseValueError <-> (length (fst h) < k)%nat.
  Proof.
    unfold sample_batch. destruct (length (fst h) <? k)%nat eqn:E.
    - apply Nat.ltb_lt in E. tauto.
    - apply Nat.ltb_ge in E. split; [discriminate | lia].
  Qed.

  Lemma sb_ok_inv k sp h choices out h' tr : sb k sp h choices = Ok (out, h', tr) ->
    h' = h /\ (k <= length (fst h))%nat /\
    b_order tr = argsort (snd h) /\
    b_candidates tr = firstn k (take_rows (fst h) (argsort (snd h))) /\
    b_parents tr = map (parent_of L argsort k h) choices /\
    b_raw tr = map (fun c => shocked sp true (parent_of L argsort k h c) (snd c)) choices /\
    out = digitizeQ (b_raw tr) (grids sp).
  Proof.
    unfold sample_batch. destruct (length (fst h) <? k)%nat eqn:E; [discriminate|].
    apply Nat.ltb_ge in E. intros H. injection H as <- <- <-. cbn. repeat split; try reflexivity. exact E.
  Qed.

  Lemma history_untouched k sp h choices out h' tr : sb k sp h choices = Ok (out, h', tr) -> h' = h.
  Proof. intros H. now destruct (sb_ok_inv _ _ _ _ _ _ _ H). Qed.

End BestBatchP0.

Section BestBatchP.
  Variable L : Type.
  Variable dL : L.
  Variable leb : L -> L -> bool.
  Variable argsort : list L -> list nat.
  Hypothesis leb_refl : forall a, leb a a = true.

  (* the parent of every row is one of the k lowest-loss points: fewer than k points of the history have a strictly
     lower loss, and every point that is not a candidate has a loss >= the parent's *)
  Lemma parent_is_top_k k (h : bhistory L) (c : row_choice) :
    ArgsortSpec L dL leb (snd h) (argsort (snd h)) ->
    length (snd h) = length (fst h) -> (k <= length (fst h))%nat -> (fst c < k)%nat ->
    let o := argsort (snd h) in
    let i := nth (fst c) o 0%nat in
    parent_of L argsort k h c = nth i (fst h) [] /\ (i < length (fst h))%nat /\
    In i (firstn k o) /\ length (firstn k o) = k /\
    (forall j, In j (skipn k o) -> leb (nth i (snd h) dL) (nth j (snd h) dL) = true) /\
    (length (filter (fun j => negb (leb (nth i (snd h) dL) (nth j (snd h) dL))) (seq 0 (length (snd h)))) < k)%nat.
  Proof.
    intros Hspec Hlen Hk Hc o i. pose proof Hspec as [Hperm Hsorted]. fold o in Hperm, Hsorted.
    assert (Hlo : length o = length (fst h)).
    { apply Permutation_length in Hperm. rewrite seq_length in Hperm. lia. }
    assert (Hpo : (fst c < length o)%nat) by lia.
    assert (Hio : In i o) by (apply nth_In; exact Hpo).
    assert (Hi : (i < length (fst h))%nat).
    { apply (Permutation_in _ Hperm) in Hio. apply in_seq in Hio. lia. }
    destruct (argsort_split_minimal dL leb _ _ k Hspec) as [_ [Hl Hmin]]. fold o in Hl, Hmin.
    assert (Hif : In i (firstn k o)).
    { unfold i. rewrite <- (nth_firstn_lt 0%nat o k (fst c) Hc). apply nth_In. rewrite firstn_length. lia. }
    split; [|split; [exact Hi|split; [exact Hif|split; [|split]]]].
    - unfold parent_of, candidates. fold o. rewrite nth_firstn_lt by exact Hc.
      unfold take_rows. rewrite (nth_map_in _ o 0%nat []) by exact Hpo. reflexivity.
    - rewrite Hl. lia.
    - intros j Hj. now apply Hmin.
    - (* strictly smaller losses sit at positions < fst c of the order *)
      rewrite (filter_perm_length _ _ _ (Permutation_sym Hperm)).
      rewrite <- (firstn_skipn (fst c) o) at 1. rewrite filter_app, app_length.
      rewrite (filter_all_false _ (skipn (fst c) o)).
      + cbn. pose proof (filter_length_le (fun j => negb (leb (nth i (snd h) dL) (nth j (snd h) dL))) (firstn (fst c) o)).
        rewrite firstn_length in H. lia.
      + intros j Hj. apply negb_false_iff.
        rewrite (skipn_nth_cons 0%nat o (fst c) Hpo) in Hj. fold i in Hj.
        destruct Hj as [<-|Hj]; [apply leb_refl|].
        rewrite <- (firstn_skipn (fst c) o) in Hsorted. apply StronglySorted_app_r in Hsorted.
        rewrite (skipn_nth_cons 0%nat o (fst c) Hpo) in Hsorted. fold i in Hsorted.
        apply StronglySorted_inv in Hsorted. destruct Hsorted as [_ Hall].
        rewrite Forall_forall in Hall. now apply Hall.
  Qed.
End BestBatchP.

(* the pieces put together for one returned row *)
Lemma proposal_structure L argsort k sp range (h : bhistory L) choices out h' tr r :
  sample_batch L argsort k sp h choices = Ok (out, h', tr) ->
  (r < length choices)%nat -> choice_okb k sp range (nth r choices (0%nat, [])) = true ->
  length (nth r (b_parents tr) []) = dims sp ->
  let c := nth r (b_parents tr) [] in
  let ch := nth r choices (0%nat, []) in
  let y := shocked sp false c (snd ch) in
  let z := nth r (b_raw tr) [] in
  let J := map s_coord (snd ch) in
  c = nth (fst ch) (b_candidates tr) [] /\ (fst ch < k)%nat /\
  (1 <= length J <= dims sp)%nat /\ NoDup J /\
  (forall j, In j J -> (j < dims sp)%nat /\
     (exists s : Z, (1 <= Z.abs s <= Z.of_nat range - 1)%Z /\ nth j y 0 == nth j c 0 + inject_Z s * nth j (prec sp) 0) /\
     nth j z 0 = clipQ (nth j y 0) (nth j (lower sp) 0) (nth j (upper sp) 0)) /\
  (forall j, ~ In j J -> nth j y 0 = nth j c 0 /\ nth j z 0 = nth j c 0) /\
  out = digitizeQ (b_raw tr) (grids sp).
Proof.
  intros Hsb Hr Hok Hlen c ch y z J.
  destruct (sb_ok_inv L argsort _ _ _ _ _ _ _ Hsb) as [_ [_ [_ [Hcand [Hpar [Hraw Hout]]]]]].
  assert (Hc : c = parent_of L argsort k h ch).
  { unfold c, ch. rewrite Hpar. now rewrite (nth_map_in _ choices (0%nat, []) []). }
  assert (Hz : z = shocked sp true c (snd ch)).
  { unfold z. rewrite Hraw. rewrite (nth_map_in _ choices (0%nat, []) []) by exact Hr. fold ch. now rewrite <- Hc. }
  fold c in Hlen. fold ch in Hok.
  destruct (displacement k sp range c ch Hok Hlen) as [_ [Hn [Hnd [Hd Hu]]]].
  destruct (confined k sp range c ch Hok Hlen) as [_ [Hcl Hcu]].
  destruct (choice_okb_inv _ _ _ _ Hok) as [Hp _].
  split; [|split; [exact Hp|split; [exact Hn|split; [exact Hnd|split; [|split]]]]].
  - rewrite Hc. unfold parent_of, candidates. now rewrite Hcand.
  - intros j Hj. destruct (Hd j Hj) as [Hjd Hex]. split; [exact Hjd|]. split; [exact Hex|].
    rewrite Hz. now apply Hcl.
  - intros j Hj. split; [now apply Hu|]. rewrite Hz. now apply Hcu.
  - exact Hout.
Qed.
