(* Proofs about Model/SeqRej.v: rejected requests are transparent (C13, round 4). *)
From Coq Require Import List ZArith QArith Bool Lia.
From BlackIt Require Import Model.Halton Model.RSeq Proofs.HaltonP Proofs.RSeqP.
From BlackIt Require Import Model.SeqRej.
Import ListNotations.
Open Scope Z_scope.

(* the total step is the partial one of Model/Halton.v *)
Lemma hsample_t_agrees st k dims :
  hsample st k dims = match hsample_t st k dims with (Some pts, st') => Some (pts, st') | (None, _) => None end.
Proof.
  unfold hsample, hsample_t. destruct (get_n_primes dims (h_pc st)) as [[bases pc']|]; [|reflexivity].
  destruct (halton k bases (h_cursor st)); reflexivity.
Qed.

(* a rejected request never moves the cursor - whatever the cache, the cursor, the arguments *)
Lemma hsample_t_rejected_cursor st k dims :
  fst (hsample_t st k dims) = None -> h_cursor (snd (hsample_t st k dims)) = h_cursor st.
Proof.
  unfold hsample_t. destruct (get_n_primes dims (h_pc st)) as [[bases pc']|]; [|reflexivity].
  destruct (halton k bases (h_cursor st)); [discriminate | reflexivity].
Qed.

Lemma served_true k dims : served (k, dims) = true <-> 0 < k /\ 1 <= dims.
Proof. unfold served. cbn [fst snd]. rewrite andb_true_iff, Z.ltb_lt, Z.leb_le. tauto. Qed.

Lemma served_false k dims : served (k, dims) = false <-> k <= 0 \/ dims < 1.
Proof.
  unfold served. cbn [fst snd]. rewrite andb_false_iff, Z.ltb_ge, Z.leb_gt. tauto.
Qed.

(* one step from a reachable cache state *)
Lemma hsample_t_step m s k dims : (m <= 40)%nat -> 0 <= s -> dims <= 40 ->
  exists m', (m' <= 40)%nat /\
    hsample_t {| h_cursor := s; h_pc := pc_after m |} k dims =
    if served (k, dims)
    then (Some (hpoints (firstn (Z.to_nat dims) primes40) s (Z.to_nat k)), {| h_cursor := s + k; h_pc := pc_after m' |})
    else (None, {| h_cursor := s; h_pc := pc_after m' |}).
Proof.
  intros Hm Hs Hd. unfold hsample_t. cbn [h_pc h_cursor].
  destruct (served (k, dims)) eqn:E.
  - apply served_true in E. destruct E as [K D].
    exists (Nat.max m (Z.to_nat dims)). split; [lia|].
    rewrite get_n_primes_after by (auto; lia).
    rewrite halton_some by (auto using firstn_primes40_ok). reflexivity.
  - apply served_false in E. destruct (Z_lt_ge_dec dims 1) as [D|D].
    + exists m. split; auto. now rewrite get_n_primes_raises.
    + assert (K : k <= 0) by lia.
      exists (Nat.max m (Z.to_nat dims)). split; [lia|].
      rewrite get_n_primes_after by (auto; lia).
      assert (H : halton k (firstn (Z.to_nat dims) primes40) s = None) by (apply halton_none; now left).
      now rewrite H.
Qed.

Theorem hsample_t_rejected_iff m s k dims : (m <= 40)%nat -> 0 <= s -> dims <= 40 ->
  (fst (hsample_t {| h_cursor := s; h_pc := pc_after m |} k dims) = None <-> k <= 0 \/ dims < 1).
Proof.
  intros Hm Hs Hd. destruct (hsample_t_step m s k dims Hm Hs Hd) as (m' & _ & E). rewrite E.
  rewrite <- served_false. destruct (served (k, dims)); cbn [fst]; split; congruence.
Qed.

(* the whole run: outputs and final state, rejected requests anywhere in the sequence *)
Theorem hrun_t_spec ops : forall m s, (m <= 40)%nat -> 0 <= s -> Forall (fun op => snd op <= 40) ops ->
  exists m', (m' <= 40)%nat /\
    hrun_t {| h_cursor := s; h_pc := pc_after m |} ops =
    (spec_outs_t s ops, {| h_cursor := s + zsum (map fst (filter served ops)); h_pc := pc_after m' |}).
Proof.
  induction ops as [|[k dims] r IH]; intros m s Hm Hs H.
  - exists m. split; auto. cbn [hrun_t spec_outs_t filter map zsum fold_right]. now rewrite Z.add_0_r.
  - inversion H as [|? ? D Hr]; subst. cbn [snd] in D.
    destruct (hsample_t_step m s k dims Hm Hs D) as (m1 & Hm1 & E).
    cbn [hrun_t spec_outs_t filter]. rewrite E. destruct (served (k, dims)) eqn:S.
    + apply served_true in S. destruct (IH m1 (s + k) Hm1 ltac:(lia) Hr) as (m' & Hm' & E').
      exists m'. split; auto. rewrite E'. cbn [map fst zsum fold_right]. fold (zsum (map fst (filter served r))).
      f_equal. f_equal. lia.
    + destruct (IH m1 s Hm1 Hs Hr) as (m' & Hm' & E'). exists m'. split; auto. now rewrite E'.
Qed.

(* the rows delivered are those of the run from which the rejected requests have been removed *)
Theorem somes_spec_outs_t ops : forall s, somes (spec_outs_t s ops) = spec_outs s (filter served ops).
Proof.
  induction ops as [|[k dims] r IH]; intros s; [reflexivity|].
  cbn [spec_outs_t filter]. destruct (served (k, dims)); cbn [somes spec_outs]; now rewrite IH.
Qed.

(* ------------------------------------------------------------------ R-sequence *)
Lemma rsample_t_rejected_cursor off alphas s k dims :
  fst (rsample_t off alphas s k dims) = None -> snd (rsample_t off alphas s k dims) = s.
Proof. unfold rsample_t. destruct (dims <? 1); [reflexivity | unfold rsample; cbn [fst]; discriminate]. Qed.

Lemma rsample_t_rejected_iff off alphas s k dims :
  fst (rsample_t off alphas s k dims) = None <-> dims < 1.
Proof.
  unfold rsample_t. destruct (dims <? 1) eqn:E; cbn [fst].
  - apply Z.ltb_lt in E. tauto.
  - apply Z.ltb_ge in E. unfold rsample. cbn [fst]. split; [discriminate | lia].
Qed.

Theorem rrun_t_spec off alphas ops : forall s,
  rrun_t off alphas s ops =
  (rspec_outs_t off alphas s ops, s + Z.of_nat (nsum (map fst (filter rserved ops)))).
Proof.
  induction ops as [|[k dims] r IH]; intros s.
  - cbn. f_equal. lia.
  - cbn [rrun_t rspec_outs_t filter]. unfold rsample_t, rserved. cbn [snd].
    destruct (dims <? 1) eqn:E.
    + apply Z.ltb_lt in E. replace (1 <=? dims) with false by (symmetry; apply Z.leb_gt; lia).
      rewrite IH. reflexivity.
    + apply Z.ltb_ge in E. replace (1 <=? dims) with true by (symmetry; apply Z.leb_le; lia).
      unfold rsample. rewrite IH. cbn [map fst nsum fold_right].
      fold (nsum (map fst (filter (fun op => 1 <=? snd op) r))). f_equal.
      unfold rserved. rewrite Nat2Z.inj_add. lia.
Qed.

(* one dimension d, rejected requests in between: the delivered rows are ONE batch from the first cursor *)
Theorem rrun_t_one_batch off alphas d ops : 1 <= d -> Forall (fun op => snd op = d \/ snd op < 1) ops ->
  forall s, concat (somes (rspec_outs_t off alphas s ops)) =
            rbatch off (alphas d) s (nsum (map fst (filter rserved ops))).
Proof.
  intros Hd. induction 1 as [|[k dims] r Hop Hr IH]; intros s; [reflexivity|].
  cbn [rspec_outs_t filter]. unfold rserved in *. cbn [snd] in *.
  destruct (1 <=? dims) eqn:E.
  - apply Z.leb_le in E. assert (dims = d) by lia. subst dims.
    cbn [somes concat map fst nsum fold_right]. rewrite IH.
    fold (nsum (map fst (filter (fun op => 1 <=? snd op) r))). apply rbatch_concat.
  - cbn [somes]. apply IH.
Qed.
