(* Any sequence of calibrate(n_i) calls, each under its OWN fault plan (several failing sessions in a row, clean ones in
   between): the state stays aligned, only grows, and the scheduler is idle after every call - so the next one can start. *)
From Coq Require Import List ZArith Lia.
From BlackIt Require Import Model.Calibrator Proofs.CalibratorP Proofs.CalibStopP Proofs.CalibFaultP.
Import ListNotations.

Section Sessions.
  Variables (Param Series LossV : Type).
  Variable model : Param -> Z -> Series.
  Variable lossf : list Series -> LossV.
  Variable loss_leb : LossV -> LossV -> bool.
  Variable rounds0 : LossV -> nat -> bool.
  Variable propose : sampler -> list Param -> list LossV -> list Param.
  Variable draws : nat -> Z.
  Variable agent_actions : nat -> nat.
  Hypothesis propose_len : forall s ps ls, length (propose s ps ls) = s_bsize s.

  Definition call (pl : fault) (n : nat) (s : cstate Param Series LossV) :=
    calibrate Param Series LossV model lossf loss_leb rounds0 propose draws agent_actions pl n s.

  Fixpoint sessions (l : list (fault * nat)) (s : cstate Param Series LossV) : cstate Param Series LossV :=
    match l with
    | [] => s
    | (pl, n) :: r => sessions r (fst (fst (call pl n s)))
    end.

  Theorem sessions_inv E0 : forall l s,
    InvS Param Series LossV model lossf draws E0 s -> idle LossV (sch _ _ _ (live _ _ _ s)) ->
    InvS Param Series LossV model lossf draws E0 (sessions l s) /\
    idle LossV (sch _ _ _ (live _ _ _ (sessions l s))) /\
    extends _ _ _ (live _ _ _ s) (live _ _ _ (sessions l s)).
  Proof.
    induction l as [|[pl n] r IH]; intros s Hi Hd; cbn [sessions].
    - split; [|split]; auto. apply extends_refl.
    - destruct (call pl n s) as [[s1 e1] r1] eqn:E. cbn [fst]. unfold call in E.
      destruct (calibrate_inv _ _ _ _ _ _ _ _ _ _ pl propose_len _ _ _ _ _ _ Hi E) as [Hi1 Hx1].
      pose proof (calibrate_leaves_idle _ _ _ _ _ _ _ _ _ _ pl _ _ _ _ _ Hd E) as Hd1.
      destruct (IH s1 Hi1 Hd1) as (A & B & C). split; [|split]; auto. eapply extends_trans; eauto.
  Qed.

  (* ... and each call of the sequence can start its session (it does not fail with "session already started") *)
  Corollary sessions_can_start l s :
    forall E0, InvS Param Series LossV model lossf draws E0 s -> idle LossV (sch _ _ _ (live _ _ _ s)) ->
    exists sc', start_session _ (sch _ _ _ (live _ _ _ (sessions l s))) = inl sc'.
  Proof. intros E0 Hi Hd. destruct (sessions_inv E0 l s Hi Hd) as (_ & B & _). now apply idle_can_start. Qed.

  Theorem sessions_full E0 l s :
    InvS Param Series LossV model lossf draws E0 s -> idle LossV (sch _ _ _ (live _ _ _ s)) ->
    let s' := sessions l s in
    InvS Param Series LossV model lossf draws E0 s' /\ idle LossV (sch _ _ _ (live _ _ _ s')) /\
    extends _ _ _ (live _ _ _ s) (live _ _ _ s') /\
    exists sc', start_session _ (sch _ _ _ (live _ _ _ s')) = inl sc'.
  Proof.
    intros Hi Hd s'. destruct (sessions_inv E0 l s Hi Hd) as (A & B & C).
    repeat (split; [assumption|]). now apply idle_can_start.
  Qed.
End Sessions.
