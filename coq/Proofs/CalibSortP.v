(* calibrate() returns precisely the recorded (parameter, loss) pairs ordered by increasing loss (C02). *)
From Coq Require Import List ZArith Bool Arith Lia Permutation Sorted.
From BlackIt Require Import Model.Calibrator.
Import ListNotations.

Section Sort.
  Variables (Param LossV : Type).
  Variable loss_leb : LossV -> LossV -> bool.
  Hypothesis leb_total : forall a b, loss_leb a b = true \/ loss_leb b a = true.
  Notation ins_pair := (ins_pair Param LossV loss_leb).
  Notation sort_pairs := (sort_pairs Param LossV loss_leb).
  Definition le_pair (a b : Param * LossV) : Prop := loss_leb (snd a) (snd b) = true.

  Lemma ins_pair_perm x l : Permutation (ins_pair x l) (x :: l).
  Proof. induction l as [|y l IH]; cbn; [reflexivity|]. destruct (loss_leb (snd y) (snd x)); [|reflexivity].
    rewrite IH. apply perm_swap. Qed.

  Lemma ins_pair_hd x l a : HdRel le_pair a l -> le_pair a x -> HdRel le_pair a (ins_pair x l).
  Proof. destruct l as [|y l]; cbn; intros Hh Hx; [constructor; exact Hx|].
    destruct (loss_leb (snd y) (snd x)); constructor; [inversion Hh; assumption | exact Hx]. Qed.

  Lemma ins_pair_sorted x l : Sorted le_pair l -> Sorted le_pair (ins_pair x l).
  Proof. induction 1 as [|y l Hs IH Hh]; cbn; [repeat constructor|].
    destruct (loss_leb (snd y) (snd x)) eqn:E.
    - constructor; [exact IH|]. apply ins_pair_hd; [exact Hh | exact E].
    - constructor; [constructor; assumption|]. constructor. unfold le_pair. destruct (leb_total (snd x) (snd y)); congruence. Qed.

  Lemma fold_ins_perm l : forall acc, Permutation (fold_left (fun a x => ins_pair x a) l acc) (l ++ acc).
  Proof. induction l as [|x l IH]; intros acc; cbn; [reflexivity|]. rewrite IH, ins_pair_perm. symmetry. apply Permutation_middle. Qed.
  Lemma fold_ins_sorted l : forall acc, Sorted le_pair acc -> Sorted le_pair (fold_left (fun a x => ins_pair x a) l acc).
  Proof. induction l as [|x l IH]; intros acc Hs; cbn; [exact Hs|]. apply IH, ins_pair_sorted, Hs. Qed.

  Theorem sort_pairs_spec l : Permutation (sort_pairs l) l /\ Sorted le_pair (sort_pairs l).
  Proof. unfold Calibrator.sort_pairs. split; [rewrite fold_ins_perm, app_nil_r; reflexivity | apply fold_ins_sorted; constructor]. Qed.
End Sort.

(* the value calibrate() returns when it does not raise *)
Theorem calibrate_returns_sorted_history :
  forall Param Series LossV model lossf loss_leb rounds0 propose draws agent_actions plan n s s' r,
    calibrate Param Series LossV model lossf loss_leb rounds0 propose draws agent_actions plan n s = (s', None, r) ->
    r = sort_pairs Param LossV loss_leb (combine (params _ _ _ (live _ _ _ s')) (losses _ _ _ (live _ _ _ s'))).
Proof. intros until r.
  assert (Hpos : forall n s s' r, calibrate_pos Param Series LossV model lossf loss_leb rounds0 propose draws agent_actions plan n s = (s', None, r) ->
            r = sort_pairs Param LossV loss_leb (combine (params _ _ _ (live _ _ _ s')) (losses _ _ _ (live _ _ _ s')))).
  { clear. intros n s s' r. unfold calibrate_pos. intros H.
    repeat match type of H with context [match ?x with _ => _ end] => destruct x eqn:? end; try discriminate;
      injection H as <- <-; reflexivity. }
  unfold calibrate. destruct n; [|apply Hpos].
  destruct (calibrate_pos _ _ _ _ _ _ _ _ _ _ _ 0 s) as [[s0 e0] r0] eqn:E. unfold zero_ckpt.
  destruct e0; [intros H; discriminate|].
  destruct (c_saving _); [destruct (save _ _ _ _)|]; intros H; try discriminate; injection H as <- <-; cbn [live]; eapply Hpos; eauto. Qed.
