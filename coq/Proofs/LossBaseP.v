(* Lemmas about Model/LossBase.v (property C08). *)
From Coq Require Import List QArith Qabs Bool Arith Lia Permutation Setoid Morphisms.
From BlackIt Require Import Model.LossBase.
Import ListNotations.
Open Scope Q_scope.

(* ------------------------------------------------------------------ generic list / Q facts *)

Lemma qsum_app : forall a b, qsum (a ++ b) == qsum a + qsum b.
Proof. induction a; intros; simpl. - ring. - rewrite IHa. ring. Qed.

Lemma qsum_perm : forall l l', Permutation l l' -> qsum l == qsum l'.
Proof.
  induction 1; simpl.
  - reflexivity.
  - rewrite IHPermutation. reflexivity.
  - ring.
  - rewrite IHPermutation1. assumption.
Qed.

Lemma qsum_Forall2 : forall a b, Forall2 Qeq a b -> qsum a == qsum b.
Proof. induction 1; simpl. - reflexivity. - rewrite H, IHForall2. reflexivity. Qed.

Lemma qsum_nonneg : forall l, Forall (fun x => 0 <= x) l -> 0 <= qsum l.
Proof.
  induction 1; simpl. - apply Qle_refl.
  - replace 0 with (0 + 0) by reflexivity. apply Qplus_le_compat; assumption.
Qed.

Lemma qsum_zero : forall l, Forall (fun x => x == 0) l -> qsum l == 0.
Proof. induction 1; simpl. - reflexivity. - rewrite H, IHForall. ring. Qed.

Lemma qsum_map_ext_in : forall (A : Type) (f g : A -> Q) l,
  (forall x, In x l -> f x == g x) -> qsum (map f l) == qsum (map g l).
Proof.
  induction l; intros; simpl. - reflexivity.
  - rewrite (H a) by (left; reflexivity). rewrite IHl. reflexivity. intros; apply H; right; assumption.
Qed.

Lemma qsum_scale : forall (A : Type) (f : A -> Q) k l, qsum (map (fun x => k * f x) l) == k * qsum (map f l).
Proof. induction l; simpl. - ring. - rewrite IHl. ring. Qed.

Lemma fold_left_qsum : forall (A : Type) (f : A -> Q) l a,
  fold_left (fun acc x => acc + f x) l a == a + qsum (map f l).
Proof.
  induction l; intros; simpl. - ring. - rewrite IHl. ring.
Qed.

Lemma fold_left_ext_in : forall (A B : Type) (f g : B -> A -> B) l b,
  (forall acc x, In x l -> f acc x = g acc x) -> fold_left f l b = fold_left g l b.
Proof.
  induction l; intros; simpl. - reflexivity.
  - rewrite (H b a) by (left; reflexivity). apply IHl. intros; apply H; right; assumption.
Qed.

Lemma nth_map_lt : forall (A B : Type) (f : A -> B) (l : list A) i d d', (i < length l)%nat ->
  nth i (map f l) d = f (nth i l d').
Proof.
  intros. rewrite (nth_indep (map f l) d (f d')) by (rewrite map_length; assumption). apply map_nth.
Qed.

Lemma map_nth_seq_from : forall (A : Type) (l : list A) d k (pre : list A), length pre = k ->
  map (fun i => nth i (pre ++ l) d) (seq k (length l)) = l.
Proof.
  induction l; intros; simpl. - reflexivity.
  - f_equal.
    + rewrite app_nth2 by lia. subst k. rewrite Nat.sub_diag. reflexivity.
    + replace (pre ++ a :: l) with ((pre ++ [a]) ++ l) by (rewrite <- app_assoc; reflexivity).
      apply IHl. rewrite app_length; simpl; lia.
Qed.

Lemma map_nth_seq : forall (A : Type) (l : list A) d, map (fun i => nth i l d) (seq 0 (length l)) = l.
Proof. intros. apply (map_nth_seq_from A l d 0 []). reflexivity. Qed.

Lemma map_nth_seq_f : forall (A B : Type) (F : A -> B) (l : list A) d,
  map (fun i => F (nth i l d)) (seq 0 (length l)) = map F l.
Proof. intros. rewrite <- (map_nth_seq A l d) at 2. rewrite map_map. reflexivity. Qed.

Lemma Forall2_map_in : forall (A B : Type) (R : B -> B -> Prop) (f g : A -> B) l,
  (forall x, In x l -> R (f x) (g x)) -> Forall2 R (map f l) (map g l).
Proof.
  induction l; intros; simpl; constructor. - apply H; left; reflexivity. - apply IHl; intros; apply H; right; assumption.
Qed.

Lemma Forall2_nth : forall (A : Type) (R : A -> A -> Prop) a b d d' k,
  Forall2 R a b -> R d d' -> R (nth k a d) (nth k b d').
Proof.
  intros A R a b d d' k H; revert k. induction H; intros; destruct k; simpl; auto.
Qed.

Lemma Forall2_Qeq_sym : forall a b, Forall2 Qeq a b -> Forall2 Qeq b a.
Proof. induction 1; constructor; auto. symmetry; assumption. Qed.

Lemma Forall2_Qeq_refl : forall a, Forall2 Qeq a a.
Proof. induction a; constructor; auto. reflexivity. Qed.

Lemma qlen_cons : forall x l, qlen (x :: l) == 1 + qlen l.
Proof.
  intros. unfold qlen. change (length (x :: l)) with (S (length l)).
  rewrite Nat2Z.inj_succ. unfold Z.succ. rewrite inject_Z_plus. ring.
Qed.

Lemma qlen_nonneg : forall l, 0 <= qlen l.
Proof. intros. unfold qlen. change 0 with (inject_Z 0). rewrite <- Zle_Qle. lia. Qed.

Lemma qlen_pos : forall l, l <> [] -> 0 < qlen l.
Proof.
  intros. destruct l; [congruence|]. rewrite qlen_cons.
  apply Qlt_le_trans with (1 + 0). reflexivity. apply Qplus_le_compat. apply Qle_refl. apply qlen_nonneg.
Qed.

Lemma sqr_nonneg : forall x, 0 <= sqr x.
Proof.
  intros. unfold sqr. destruct (Qlt_le_dec x 0).
  - setoid_replace (x * x) with ((- x) * (- x)) by ring.
    apply Qmult_le_0_compat; apply (Qopp_le_compat x 0); apply Qlt_le_weak; assumption.
  - apply Qmult_le_0_compat; assumption.
Qed.

Lemma sqr_comp : forall x y, x == y -> sqr x == sqr y.
Proof. intros. unfold sqr. rewrite H. reflexivity. Qed.

Lemma Qabs_comp : forall x y, x == y -> Qabs x == Qabs y.
Proof. intros. rewrite H. reflexivity. Qed.

Lemma zipw_Forall2 : forall f, (forall x x' y y', x == x' -> y == y' -> f x y == f x' y') ->
  forall a a', Forall2 Qeq a a' -> forall b b', Forall2 Qeq b b' -> Forall2 Qeq (zipw f a b) (zipw f a' b').
Proof.
  intros f Hf a a' Ha. induction Ha; intros b b' Hb; simpl. - constructor.
  - destruct Hb; constructor. + apply Hf; assumption. + apply IHHa; assumption.
Qed.

Lemma map_Forall2 : forall phi, (forall x y, x == y -> phi x == phi y) ->
  forall a b, Forall2 Qeq a b -> Forall2 Qeq (map phi a) (map phi b).
Proof. intros phi H a b Hab. induction Hab; simpl; constructor; auto. Qed.

Lemma zipw_minus_zero : forall u v, Forall2 Qeq u v -> Forall (fun x => x == 0) (zipw Qminus u v).
Proof. induction 1; simpl; constructor; auto. rewrite H. ring. Qed.

(* ------------------------------------------------------------------ mean over the ensemble *)

Lemma mean_perm : forall l l', Permutation l l' -> mean l == mean l'.
Proof.
  intros. unfold mean, qlen. rewrite (Permutation_length H). rewrite (qsum_perm _ _ H). reflexivity.
Qed.

Lemma mean_const : forall c l, l <> [] -> Forall (fun x => x == c) l -> mean l == c.
Proof.
  intros c l Hne Hall. unfold mean.
  assert (Hs : qsum l == qlen l * c).
  { clear Hne. induction Hall. - unfold qlen; simpl. ring. - simpl qsum. rewrite qlen_cons, H, IHHall. ring. }
  rewrite Hs. field. intro Hz. pose proof (qlen_pos l Hne) as Hp. rewrite Hz in Hp. discriminate.
Qed.

Lemma mean_nonneg : forall l, Forall (fun x => 0 <= x) l -> 0 <= mean l.
Proof.
  intros. unfold mean. destruct l as [|x r].
  - unfold qlen; simpl. apply Qle_refl.
  - unfold Qdiv. apply Qmult_le_0_compat. apply qsum_nonneg; assumption.
    apply Qlt_le_weak, Qinv_lt_0_compat, qlen_pos. discriminate.
Qed.

Lemma vmean_perm : forall K vs vs', Permutation vs vs' -> Forall2 Qeq (vmean K vs) (vmean K vs').
Proof.
  intros. unfold vmean. apply Forall2_map_in. intros k _. apply mean_perm. apply Permutation_map. assumption.
Qed.

(* every member equal (as rationals) to v, at least one member: the ensemble mean is v *)
Lemma vmean_const : forall v vs, vs <> [] -> Forall (fun u => Forall2 Qeq u v) vs ->
  Forall2 Qeq (vmean (length v) vs) v.
Proof.
  intros v vs Hne Hall. unfold vmean.
  rewrite <- (map_nth_seq Q v 0) at 2.
  apply Forall2_map_in. intros k _. apply mean_const.
  - destruct vs; [congruence | discriminate].
  - rewrite Forall_forall. intros x Hx. apply in_map_iff in Hx. destruct Hx as [u [<- Hu]].
    rewrite Forall_forall in Hall. apply Forall2_nth. apply Hall; assumption. reflexivity.
Qed.

(* ------------------------------------------------------------------ the base class *)

Definition d0 : coord := {| cw_ := 0; cf_ := None; csim := []; creal := [] |}.
Definition uniform (E : nat) (cs : list coord) : Prop := Forall (fun c => length (csim c) = E) cs.

Lemma nth_filter_data_from : forall fs sim k i,
  nth i (filter_data_from k fs sim) [] =
  if Nat.ltb i (length fs) then apply_filter (nth i fs None) (column (k + i) sim) else [].
Proof.
  induction fs; intros; simpl.
  - destruct i; reflexivity.
  - destruct i; simpl.
    + rewrite Nat.add_0_r. reflexivity.
    + rewrite IHfs. replace (S k + i)%nat with (k + S i)%nat by lia.
      change (Nat.ltb (S i) (S (length fs))) with (Nat.ltb i (length fs)). reflexivity.
Qed.

Lemma nth_filter_data : forall fs sim i, (i < length fs)%nat ->
  nth i (filter_data fs sim) [] = apply_filter (nth i fs None) (column i sim).
Proof.
  intros. unfold filter_data. rewrite nth_filter_data_from.
  apply Nat.ltb_lt in H. rewrite H. reflexivity.
Qed.

Lemma filter_data_from_length : forall fs sim k, length (filter_data_from k fs sim) = length fs.
Proof. induction fs; intros; simpl; auto. Qed.

Section BaseP.
  Variable l1 : ensemble -> series -> Q.

  Definition term (ws : list Q) (filtered : list ensemble) (real : list series) (i : nat) : Q :=
    l1 (nth i filtered []) (nth i real []) * nth i ws 0.

  Lemma loss_loop_qsum : forall ws filtered real D,
    loss_loop l1 ws filtered real D == qsum (map (term ws filtered real) (seq 0 D)).
  Proof.
    intros. unfold loss_loop.
    rewrite (fold_left_qsum nat (term ws filtered real)). ring.
  Qed.

  (* weighted sum of the single-coordinate values of a list of coordinate records *)
  Definition wsum (cs : list coord) : Q := qsum (map (fun c => cw_ c * single l1 c) cs).

  Lemma run_unfold : forall E cs,
    run l1 E cs = Ok (loss_loop l1 (map cw_ cs) (filter_data (map cf_ cs) (sim_of E cs)) (map creal cs) (length cs)).
  Proof.
    intros. unfold run, compute_loss, check_coordinate_weights, check_coordinate_filters.
    rewrite !map_length, Nat.eqb_refl. reflexivity.
  Qed.

  Lemma column_sim_of : forall E cs i, (i < length cs)%nat -> length (csim (nth i cs d0)) = E ->
    column i (sim_of E cs) = csim (nth i cs d0).
  Proof.
    intros E cs i Hi HE. unfold column, sim_of. rewrite map_map.
    rewrite <- (map_nth_seq series (csim (nth i cs d0)) []) at 1. rewrite HE.
    apply map_ext. intros e.
    exact (nth_map_lt _ _ (fun c => nth e (csim c) []) cs i [] d0 Hi).
  Qed.

  Lemma run_terms : forall E cs, uniform E cs ->
    map (term (map cw_ cs) (filter_data (map cf_ cs) (sim_of E cs)) (map creal cs)) (seq 0 (length cs))
    = map (fun c => single l1 c * cw_ c) cs.
  Proof.
    intros E cs HU.
    rewrite <- (map_nth_seq_f coord Q (fun c => single l1 c * cw_ c) cs d0).
    apply map_ext_in. intros i Hi. apply in_seq in Hi. destruct Hi as [_ Hi]. simpl in Hi.
    unfold term, single.
    rewrite nth_filter_data by (rewrite map_length; assumption).
    change (@None (series -> series)) with (cf_ d0). rewrite map_nth.
    change (@nil Q) with (creal d0). rewrite map_nth.
    change 0 with (cw_ d0) at 1. rewrite map_nth.
    rewrite column_sim_of; auto.
    unfold uniform in HU. rewrite Forall_forall in HU. apply HU. apply nth_In. assumption.
  Qed.

  Lemma run_wsum : forall E cs, uniform E cs -> req (run l1 E cs) (Ok (wsum cs)).
  Proof.
    intros. rewrite run_unfold. simpl. rewrite loss_loop_qsum, run_terms by assumption.
    unfold wsum. apply qsum_map_ext_in. intros; ring.
  Qed.

  Lemma run_is_ok : forall E cs, exists v, run l1 E cs = Ok v.
  Proof. intros. rewrite run_unfold. eexists; reflexivity. Qed.

  Lemma req_refl : forall a, req a a.
  Proof. destruct a; simpl; reflexivity. Qed.
  Lemma req_sym : forall a b, req a b -> req b a.
  Proof. destruct a, b; simpl; auto; intros; symmetry; assumption. Qed.
  Lemma req_trans : forall a b c, req a b -> req b c -> req a c.
  Proof. destruct a, b, c; simpl; intros; try contradiction. - rewrite H; assumption. - congruence. Qed.

  (* ---- headline statements on coordinate records ---- *)

  Lemma single_eval_value : forall E c, length (csim c) = E -> req (single_eval l1 E c) (Ok (single l1 c)).
  Proof.
    intros. unfold single_eval.
    eapply req_trans. apply run_wsum. constructor; [assumption | constructor].
    simpl. unfold wsum, single; simpl. ring.
  Qed.

  Lemma loss_weighted_sum : forall E cs, uniform E cs ->
    exists v, run l1 E cs = Ok v /\ v == qsum (map (fun c => cw_ c * single l1 c) cs).
  Proof.
    intros. destruct (run_is_ok E cs) as [v Hv]. exists v; split; auto.
    pose proof (run_wsum E cs H) as R. rewrite Hv in R. exact R.
  Qed.

  (* the multi-coordinate value is the weighted sum of the values of the single-coordinate EVALUATIONS *)
  Lemma loss_weighted_sum_of_evaluations : forall E cs, uniform E cs ->
    exists v vs, run l1 E cs = Ok v /\ Forall2 (fun c x => single_eval l1 E c = Ok x) cs vs /\
                 v == qsum (zipw Qmult (map cw_ cs) vs).
  Proof.
    intros E cs HU. destruct (loss_weighted_sum E cs HU) as [v [Hv Hs]].
    assert (Hex : exists vs, Forall2 (fun c x => single_eval l1 E c = Ok x) cs vs /\
                              Forall2 Qeq vs (map (single l1) cs)).
    { clear v Hv Hs. induction HU.
      - exists []; split; constructor.
      - destruct IHHU as [vs [A B]]. destruct (run_is_ok E [set_weight 1 x]) as [y Hy].
        exists (y :: vs). split; constructor; auto.
        pose proof (single_eval_value E x H) as R. unfold single_eval in R. unfold set_weight in Hy.
        rewrite Hy in R. exact R. }
    destruct Hex as [vs [A B]]. exists v, vs. repeat split; auto.
    rewrite Hs. clear - B. revert vs B. induction cs; intros; simpl.
    - reflexivity.
    - inversion B; subst. simpl. rewrite H2. rewrite (IHcs _ H3). reflexivity.
  Qed.

  Lemma coord_perm_invariant : forall E cs cs', uniform E cs -> Permutation cs cs' ->
    req (run l1 E cs) (run l1 E cs').
  Proof.
    intros E cs cs' HU HP.
    assert (HU' : uniform E cs') by (unfold uniform in *; eapply Permutation_Forall; eauto).
    eapply req_trans. apply run_wsum; assumption.
    apply req_sym. eapply req_trans. apply run_wsum; assumption.
    simpl. unfold wsum. apply qsum_perm. apply Permutation_map. apply Permutation_sym; assumption.
  Qed.

  Lemma zero_weight_removes_coordinate : forall E cs1 c cs2, uniform E (cs1 ++ c :: cs2) -> cw_ c == 0 ->
    req (run l1 E (cs1 ++ c :: cs2)) (run l1 E (cs1 ++ cs2)).
  Proof.
    intros E cs1 c cs2 HU Hz.
    assert (HU' : uniform E (cs1 ++ cs2)).
    { unfold uniform in *. apply Forall_app in HU. destruct HU as [A B]. inversion B; subst.
      apply Forall_app; split; assumption. }
    eapply req_trans. apply run_wsum; assumption.
    apply req_sym. eapply req_trans. apply run_wsum; assumption.
    simpl. unfold wsum. rewrite !map_app, !qsum_app. simpl. rewrite Hz. ring.
  Qed.

  Lemma set_weights_uniform : forall E ws cs, uniform E cs -> uniform E (set_weights ws cs).
  Proof.
    intros E ws cs HU. revert ws. induction HU; intros; destruct ws; simpl; try constructor; auto.
    apply IHHU.
  Qed.

  Lemma wsum_set_weights_linear : forall a b cs ws ws', length ws = length cs -> length ws' = length cs ->
    wsum (set_weights (zipw (fun x y => a * x + b * y) ws ws') cs)
    == a * wsum (set_weights ws cs) + b * wsum (set_weights ws' cs).
  Proof.
    unfold wsum. induction cs; intros; destruct ws, ws'; simpl in *; try discriminate.
    - ring.
    - rewrite IHcs by lia. unfold single; simpl. ring.
  Qed.

  Lemma loss_linear_in_weights : forall E cs ws ws' a b, uniform E cs ->
    length ws = length cs -> length ws' = length cs ->
    exists v v1 v2,
      run l1 E (set_weights (zipw (fun x y => a * x + b * y) ws ws') cs) = Ok v /\
      run l1 E (set_weights ws cs) = Ok v1 /\ run l1 E (set_weights ws' cs) = Ok v2 /\
      v == a * v1 + b * v2.
  Proof.
    intros E cs ws ws' a b HU L1 L2.
    destruct (run_is_ok E (set_weights (zipw (fun x y => a * x + b * y) ws ws') cs)) as [v Hv].
    destruct (run_is_ok E (set_weights ws cs)) as [v1 Hv1].
    destruct (run_is_ok E (set_weights ws' cs)) as [v2 Hv2].
    exists v, v1, v2. repeat split; auto.
    pose proof (run_wsum E _ (set_weights_uniform E (zipw (fun x y => a * x + b * y) ws ws') cs HU)) as R.
    pose proof (run_wsum E _ (set_weights_uniform E ws cs HU)) as R1.
    pose proof (run_wsum E _ (set_weights_uniform E ws' cs HU)) as R2.
    rewrite Hv in R. rewrite Hv1 in R1. rewrite Hv2 in R2. simpl in R, R1, R2.
    rewrite R, R1, R2. apply wsum_set_weights_linear; assumption.
  Qed.

  (* default weights: coordinate_weights=None is the plain average of the single-coordinate values *)
  Lemma nth_default_weights : forall D i, (i < D)%nat -> nth i (default_weights D) 0 = 1 / inject_Z (Z.of_nat D).
  Proof.
    intros. unfold default_weights.
    rewrite (nth_map_lt _ _ (fun o => o / inject_Z (Z.of_nat D)) (repeat 1 D) i 0 1)
      by (rewrite repeat_length; assumption).
    rewrite nth_repeat. reflexivity.
  Qed.

  Lemma default_weights_mean : forall E cs, uniform E cs ->
    exists v, run_default l1 E cs = Ok v /\
              v == qsum (map (single l1) cs) / inject_Z (Z.of_nat (length cs)).
  Proof.
    intros E cs HU.
    pose proof (run_wsum E (map (set_weight (1 / inject_Z (Z.of_nat (length cs)))) cs)) as R.
    unfold run_default, compute_loss, check_coordinate_weights, check_coordinate_filters.
    rewrite !map_length, Nat.eqb_refl. eexists; split; [reflexivity|].
    rewrite loss_loop_qsum.
    assert (HU' : uniform E (map (set_weight (1 / inject_Z (Z.of_nat (length cs)))) cs)).
    { unfold uniform in *. rewrite Forall_map. simpl. assumption. }
    specialize (R HU'). rewrite run_unfold in R. simpl in R. rewrite loss_loop_qsum in R.
    rewrite map_length in R.
    assert (Hsim : sim_of E (map (set_weight (1 / inject_Z (Z.of_nat (length cs)))) cs) = sim_of E cs).
    { unfold sim_of. apply map_ext. intros. rewrite map_map. reflexivity. }
    rewrite Hsim in R. rewrite !map_map in R. simpl in R.
    transitivity (qsum (map (term (map (fun _ : coord => 1 / inject_Z (Z.of_nat (length cs))) cs)
                                  (filter_data (map cf_ cs) (sim_of E cs)) (map creal cs)) (seq 0 (length cs)))).
    - apply qsum_map_ext_in. intros i Hi. apply in_seq in Hi. destruct Hi as [_ Hi]. simpl in Hi.
      unfold term. rewrite nth_default_weights by assumption.
      rewrite (nth_map_lt _ _ (fun _ : coord => 1 / inject_Z (Z.of_nat (length cs))) cs i 0 d0 Hi). reflexivity.
    - rewrite R. unfold wsum. rewrite map_map. unfold single; simpl.
      rewrite (qsum_scale coord (fun c => l1 (apply_filter (cf_ c) (csim c)) (creal c))).
      unfold Qdiv. ring.
  Qed.

  (* ---- general inputs: which length check fires ---- *)

  Lemma wrong_length_rejected : forall cw cf sim real e,
    compute_loss l1 cw cf sim real = Raise e <->
    (exists w, cw = Some w /\ length w <> length real /\ e = ValueError (WeightsLen (length w) (length real)))
    \/ ((cw = None \/ exists w, cw = Some w /\ length w = length real) /\
        exists fs, cf = Some fs /\ length fs <> length real /\ e = ValueError (FiltersLen (length fs) (length real))).
  Proof.
    intros. unfold compute_loss, check_coordinate_weights, check_coordinate_filters.
    destruct cw as [w|].
    - destruct (Nat.eqb_spec (length w) (length real)) as [Ew|Ew].
      + destruct cf as [fs|].
        * destruct (Nat.eqb_spec (length fs) (length real)) as [Ef|Ef].
          -- split; [discriminate|].
             intros [[w' [A [B C]]] | [_ [fs' [A [B C]]]]]; inversion A; subst; contradiction.
          -- split.
             ++ intro H; inversion H; subst. right. split. right; exists w; auto. exists fs; auto.
             ++ intros [[w' [A [B C]]] | [_ [fs' [A [B C]]]]]; inversion A; subst. contradiction. reflexivity.
        * split; [discriminate|].
          intros [[w' [A [B C]]] | [_ [fs' [A [B C]]]]]. inversion A; subst; contradiction. discriminate.
      + split.
        * intro H; inversion H; subst. left. exists w; auto.
        * intros [[w' [A [B C]]] | [[A | [w' [A A']]] _]].
          inversion A; subst; reflexivity. discriminate. inversion A; subst; contradiction.
    - destruct cf as [fs|].
      + destruct (Nat.eqb_spec (length fs) (length real)) as [Ef|Ef].
        * split; [discriminate|].
          intros [[w' [A _]] | [_ [fs' [A [B C]]]]]. discriminate. inversion A; subst; contradiction.
        * split.
          -- intro H; inversion H; subst. right. split. left; reflexivity. exists fs; auto.
          -- intros [[w' [A _]] | [_ [fs' [A [B C]]]]]. discriminate. inversion A; subst; reflexivity.
      + split; [discriminate|]. intros [[w' [A _]] | [_ [fs' [A _]]]]; discriminate.
  Qed.

  Lemma rejected_iff : forall cw cf sim real,
    (exists e, compute_loss l1 cw cf sim real = Raise e) <->
    (exists w, cw = Some w /\ length w <> length real) \/ (exists fs, cf = Some fs /\ length fs <> length real).
  Proof.
    intros. split.
    - intros [e H]. apply wrong_length_rejected in H.
      destruct H as [[w [A [B _]]] | [_ [fs [A [B _]]]]]; [left | right]; eexists; eauto.
    - intros H. unfold compute_loss, check_coordinate_weights, check_coordinate_filters.
      destruct cw as [w|].
      + destruct (Nat.eqb_spec (length w) (length real)) as [Ew|Ew]; [|eexists; reflexivity].
        destruct cf as [fs|].
        * destruct (Nat.eqb_spec (length fs) (length real)) as [Ef|Ef]; [|eexists; reflexivity].
          destruct H as [[x [A B]] | [x [A B]]]; inversion A; subst; contradiction.
        * destruct H as [[x [A B]] | [x [A B]]]; [inversion A; subst; contradiction | discriminate].
      + destruct cf as [fs|].
        * destruct (Nat.eqb_spec (length fs) (length real)) as [Ef|Ef]; [|eexists; reflexivity].
          destruct H as [[x [A B]] | [x [A B]]]; [discriminate | inversion A; subst; contradiction].
        * destruct H as [[x [A B]] | [x [A B]]]; discriminate.
  Qed.

  (* the weight check is made first: when both lists are wrong, the error is the weights' *)
  Lemma weights_checked_first : forall w fs sim real, length w <> length real ->
    compute_loss l1 (Some w) (Some fs) sim real = Raise (ValueError (WeightsLen (length w) (length real))).
  Proof.
    intros. unfold compute_loss, check_coordinate_weights.
    apply Nat.eqb_neq in H. rewrite H. reflexivity.
  Qed.

  (* ---- general inputs: value = weighted sum over coordinates; which arguments compute_loss_1d sees ---- *)

  Definition weights_of (cw : option (list Q)) (D : nat) := match cw with None => default_weights D | Some w => w end.
  Definition filters_of (cf : option (list filt)) (D : nat) := match cf with None => repeat None D | Some f => f end.

  Lemma compute_loss_ok_inv : forall cw cf sim real v, compute_loss l1 cw cf sim real = Ok v ->
    length (weights_of cw (length real)) = length real /\ length (filters_of cf (length real)) = length real /\
    v = loss_loop l1 (weights_of cw (length real)) (filter_data (filters_of cf (length real)) sim) real (length real).
  Proof.
    intros cw cf sim real v. unfold compute_loss, check_coordinate_weights, check_coordinate_filters, weights_of, filters_of.
    destruct cw as [w|]; destruct cf as [fs|];
      try destruct (Nat.eqb (length w) (length real)) eqn:Ew;
      try destruct (Nat.eqb (length fs) (length real)) eqn:Ef; intro H; try discriminate H;
      inversion H; subst; clear H;
      try apply Nat.eqb_eq in Ew; try apply Nat.eqb_eq in Ef;
      repeat split; auto; unfold default_weights; rewrite ?map_length, ?repeat_length; reflexivity.
  Qed.

  Lemma loss_weighted_sum_general : forall cw cf sim real v, compute_loss l1 cw cf sim real = Ok v ->
    v == qsum (map (fun i => nth i (weights_of cw (length real)) 0 *
                             l1 (apply_filter (nth i (filters_of cf (length real)) None) (column i sim)) (nth i real []))
                   (seq 0 (length real))).
  Proof.
    intros. apply compute_loss_ok_inv in H. destruct H as [Lw [Lf ->]].
    rewrite loss_loop_qsum. apply qsum_map_ext_in. intros i Hi. apply in_seq in Hi. destruct Hi as [_ Hi]. simpl in Hi.
    unfold term. rewrite nth_filter_data by lia. ring.
  Qed.

  Lemma l1_args_spec : forall cw cf sim real v, compute_loss l1 cw cf sim real = Ok v ->
    l1_args cw cf sim real =
    map (fun i => (apply_filter (nth i (filters_of cf (length real)) None) (column i sim), nth i real []))
        (seq 0 (length real)).
  Proof.
    intros cw cf sim real v H. pose proof (compute_loss_ok_inv _ _ _ _ _ H) as [Lw [Lf _]].
    unfold l1_args. unfold compute_loss in H.
    destruct (check_coordinate_weights cw (length real)) eqn:CW; [|discriminate].
    destruct (check_coordinate_filters cf (length real)) eqn:CF; [|discriminate].
    assert (a0 = filters_of cf (length real)).
    { unfold check_coordinate_filters, filters_of in *. destruct cf; [|congruence].
      destruct (Nat.eqb (length l) (length real)); congruence. }
    subst a0. apply map_ext_in. intros i Hi. apply in_seq in Hi. destruct Hi as [_ Hi]. simpl in Hi.
    rewrite nth_filter_data by lia. reflexivity.
  Qed.

  (* the real series reach compute_loss_1d verbatim, whatever the filters are *)
  Lemma real_untouched : forall cw cf sim real v, compute_loss l1 cw cf sim real = Ok v ->
    map snd (l1_args cw cf sim real) = real.
  Proof.
    intros. rewrite (l1_args_spec _ _ _ _ _ H). rewrite map_map. simpl. apply map_nth_seq.
  Qed.

  (* and the simulated argument is the filter mapped over the members of the coordinate slice *)
  Lemma sim_filtered_memberwise : forall cw cf sim real v, compute_loss l1 cw cf sim real = Ok v ->
    map fst (l1_args cw cf sim real) =
    map (fun i => apply_filter (nth i (filters_of cf (length real)) None) (column i sim)) (seq 0 (length real)).
  Proof.
    intros. rewrite (l1_args_spec _ _ _ _ _ H). rewrite map_map. reflexivity.
  Qed.

  Lemma l1_args_raise : forall cw cf sim real e, compute_loss l1 cw cf sim real = Raise e -> l1_args cw cf sim real = [].
  Proof.
    intros cw cf sim real e. unfold compute_loss, l1_args.
    destruct (check_coordinate_weights cw (length real)); [|reflexivity].
    destruct (check_coordinate_filters cf (length real)); [discriminate | reflexivity].
  Qed.
End BaseP.

(* compute_loss looks at compute_loss_1d only at the arguments listed by l1_args *)
Lemma depends_on_l1_only_at_args : forall (l1 l1' : ensemble -> series -> Q) cw cf sim real,
  (forall a, In a (l1_args cw cf sim real) -> l1 (fst a) (snd a) = l1' (fst a) (snd a)) ->
  compute_loss l1 cw cf sim real = compute_loss l1' cw cf sim real.
Proof.
  intros l1 l1' cw cf sim real. unfold compute_loss, l1_args.
  destruct (check_coordinate_weights cw (length real)); [|reflexivity].
  destruct (check_coordinate_filters cf (length real)); [|reflexivity].
  intros H. f_equal. unfold loss_loop. apply fold_left_ext_in. intros acc i Hi.
  assert (Hin : In (nth i (filter_data a0 sim) [], nth i real [])
                   (map (fun i => (nth i (filter_data a0 sim) [], nth i real [])) (seq 0 (length real)))).
  { apply in_map_iff. exists i; split; auto. }
  pose proof (H _ Hin) as Eq. simpl in Eq. rewrite Eq. reflexivity.
Qed.

(* a single-coordinate loss that does not look at the simulated series makes the filters irrelevant:
   filters never reach the real data *)
Lemma filters_touch_sim_only : forall (l1 : ensemble -> series -> Q) cw fs fs' sim real,
  (forall e e' r, l1 e r = l1 e' r) -> length fs = length fs' ->
  compute_loss l1 cw (Some fs) sim real = compute_loss l1 cw (Some fs') sim real.
Proof.
  intros l1 cw fs fs' sim real Hl HL. unfold compute_loss.
  destruct (check_coordinate_weights cw (length real)); [|reflexivity].
  unfold check_coordinate_filters. rewrite <- HL.
  destruct (Nat.eqb (length fs) (length real)); [|reflexivity].
  f_equal. unfold loss_loop. apply fold_left_ext_in. intros acc i _.
  rewrite (Hl (nth i (filter_data fs sim) []) (nth i (filter_data fs' sim) [])). reflexivity.
Qed.

(* ------------------------------------------------------------------ lifting 1-d facts through the base class *)

Section Lift.
  Variable l1 : ensemble -> series -> Q.

  Lemma default_weights_nonneg : forall D, Forall (fun w => 0 <= w) (default_weights D).
  Proof.
    intros. unfold default_weights. rewrite Forall_map. rewrite Forall_forall. intros x Hx.
    apply repeat_spec in Hx. subst x. unfold Qdiv. rewrite Qmult_1_l.
    destruct D. - simpl. apply Qle_refl.
    - apply Qlt_le_weak, Qinv_lt_0_compat. change 0 with (inject_Z 0). rewrite <- Zlt_Qlt. lia.
  Qed.

  Lemma nth_nonneg : forall l i, Forall (fun w => 0 <= w) l -> 0 <= nth i l 0.
  Proof.
    intros l i H. revert i. induction H; intros; destruct i; simpl; auto; apply Qle_refl.
  Qed.

  Lemma nonneg_lift : forall cw cf sim real v,
    (forall e r, 0 <= l1 e r) ->
    (forall w, cw = Some w -> Forall (fun x => 0 <= x) w) ->
    compute_loss l1 cw cf sim real = Ok v -> 0 <= v.
  Proof.
    intros cw cf sim real v Hl Hw H. rewrite (loss_weighted_sum_general l1 _ _ _ _ _ H).
    apply qsum_nonneg. rewrite Forall_map. rewrite Forall_forall. intros i _.
    apply Qmult_le_0_compat; [|apply Hl].
    apply nth_nonneg. destruct cw; simpl. apply Hw; reflexivity. apply default_weights_nonneg.
  Qed.

  (* every single-coordinate value is zero -> the loss is zero, for any weights *)
  Lemma zero_lift : forall cw cf sim real v,
    (forall a, In a (l1_args cw cf sim real) -> l1 (fst a) (snd a) == 0) ->
    compute_loss l1 cw cf sim real = Ok v -> v == 0.
  Proof.
    intros cw cf sim real v Hz H. rewrite (loss_weighted_sum_general l1 _ _ _ _ _ H).
    apply qsum_zero. rewrite Forall_map. rewrite Forall_forall. intros i Hi.
    rewrite (l1_args_spec l1 _ _ _ _ _ H) in Hz.
    specialize (Hz (apply_filter (nth i (filters_of cf (length real)) None) (column i sim), nth i real [])).
    simpl in Hz. rewrite Hz. ring.
    apply in_map_iff. exists i; split; auto.
  Qed.

  (* a 1-d loss unchanged by reordering ensemble members gives a loss unchanged by reordering the ensemble axis *)
  Lemma ensemble_perm_lift : forall cw cf sim sim' real,
    (forall ens ens' r, Permutation ens ens' -> l1 ens r == l1 ens' r) ->
    Permutation sim sim' ->
    req (compute_loss l1 cw cf sim real) (compute_loss l1 cw cf sim' real).
  Proof.
    intros cw cf sim sim' real Hl HP. unfold compute_loss.
    destruct (check_coordinate_weights cw (length real)); [|simpl; reflexivity].
    destruct (check_coordinate_filters cf (length real)); [|simpl; reflexivity].
    simpl. rewrite !loss_loop_qsum. apply qsum_map_ext_in. intros i _. unfold term.
    rewrite (Hl (nth i (filter_data a0 sim) []) (nth i (filter_data a0 sim') []) (nth i real [])). reflexivity.
    unfold filter_data. rewrite !nth_filter_data_from. destruct (Nat.ltb i (length a0)); [|constructor].
    assert (Permutation (column (0 + i) sim) (column (0 + i) sim')) by (apply Permutation_map; assumption).
    destruct (nth i a0 None); simpl; [apply Permutation_map|]; assumption.
  Qed.
End Lift.

(* ------------------------------------------------------------------ built-in single-coordinate specs *)

Lemma ensemble_mean_perm_invariant : forall K h (g : list Q -> series -> Q) ens ens' real,
  (forall u u' r, Forall2 Qeq u u' -> g u r == g u' r) ->
  Permutation ens ens' -> mean_form K h g ens real == mean_form K h g ens' real.
Proof.
  intros. unfold mean_form. apply H. apply vmean_perm. apply Permutation_map. assumption.
Qed.

Lemma ensemble_sum_perm_invariant : forall h ens ens' real,
  Permutation ens ens' -> sum_form h ens real == sum_form h ens' real.
Proof.
  intros. unfold sum_form. apply (mean_perm (map (fun s => h s real) ens) (map (fun s => h s real) ens')).
  apply Permutation_map. assumption.
Qed.

Section Mink.
  Variable phi : Q -> Q.
  Hypothesis phi_comp : forall x y, x == y -> phi x == phi y.
  Hypothesis phi_nonneg : forall x, 0 <= phi x.
  Hypothesis phi_zero : phi 0 == 0.

  Lemma mink_pow_as_mean_form : forall ens real,
    mink_pow phi ens real = mean_form (length real) (fun s => s) (fun u r => qsum (map phi (zipw Qminus u r))) ens real.
  Proof. intros. unfold mink_pow, mean_form. rewrite map_id. reflexivity. Qed.

  Lemma mink_pow_perm : forall ens ens' real, Permutation ens ens' -> mink_pow phi ens real == mink_pow phi ens' real.
  Proof.
    intros. rewrite !mink_pow_as_mean_form. apply ensemble_mean_perm_invariant; auto.
    intros u u' r Hu. apply qsum_Forall2. apply map_Forall2; auto.
    apply zipw_Forall2; auto. intros; rewrite H0, H1; reflexivity. apply Forall2_Qeq_refl.
  Qed.

  Lemma mink_pow_nonneg : forall ens real, 0 <= mink_pow phi ens real.
  Proof. intros. unfold mink_pow. apply qsum_nonneg. rewrite Forall_map. rewrite Forall_forall. auto. Qed.

  Lemma mink_pow_zero_when_equal : forall ens real, ens <> [] -> Forall (fun s => Forall2 Qeq s real) ens ->
    mink_pow phi ens real == 0.
  Proof.
    intros. unfold mink_pow. apply qsum_zero. rewrite Forall_map.
    pose proof (zipw_minus_zero _ _ (vmean_const real ens H H0)) as Z.
    eapply Forall_impl; [|exact Z]. simpl. intros a Ha. rewrite (phi_comp _ _ Ha). exact phi_zero.
  Qed.
End Mink.

Lemma Qabs_zero : Qabs 0 == 0. Proof. reflexivity. Qed.
Lemma sqr_zero : sqr 0 == 0. Proof. reflexivity. Qed.

Lemma sqdist_nonneg : forall a b, 0 <= sqdist a b.
Proof. intros. unfold sqdist. apply qsum_nonneg. rewrite Forall_map. rewrite Forall_forall. intros; apply sqr_nonneg. Qed.

Lemma sqdist_comp : forall a a' b b', Forall2 Qeq a a' -> Forall2 Qeq b b' -> sqdist a b == sqdist a' b'.
Proof.
  intros. unfold sqdist. apply qsum_Forall2. apply map_Forall2. apply sqr_comp.
  apply zipw_Forall2; auto. intros; rewrite H1, H2; reflexivity.
Qed.

Lemma sqdist_zero : forall a b, Forall2 Qeq a b -> sqdist a b == 0.
Proof.
  intros. unfold sqdist. apply qsum_zero. rewrite Forall_map.
  eapply Forall_impl; [|apply zipw_minus_zero; eassumption]. simpl. intros x Hx. rewrite (sqr_comp _ _ Hx). reflexivity.
Qed.

Lemma msm_id_moms_perm : forall K ms ms' r, Permutation ms ms' -> msm_id_moms K ms r == msm_id_moms K ms' r.
Proof. intros. unfold msm_id_moms. apply sqdist_comp. apply Forall2_Qeq_refl. apply vmean_perm; assumption. Qed.

Lemma msm_id_moms_nonneg : forall K ms r, 0 <= msm_id_moms K ms r.
Proof. intros. apply sqdist_nonneg. Qed.

Lemma msm_id_moms_zero : forall ms r, ms <> [] -> Forall (fun m => Forall2 Qeq m r) ms -> msm_id_moms (length r) ms r == 0.
Proof. intros. unfold msm_id_moms. apply sqdist_zero. apply Forall2_Qeq_sym. apply vmean_const; assumption. Qed.

Lemma msm_id_perm : forall m ens ens' real, Permutation ens ens' -> msm_id m ens real == msm_id m ens' real.
Proof. intros. unfold msm_id. apply msm_id_moms_perm. apply Permutation_map. assumption. Qed.

Lemma msm_id_nonneg : forall m ens real, 0 <= msm_id m ens real.
Proof. intros. apply msm_id_moms_nonneg. Qed.

Lemma msm_id_zero_when_equal : forall m ens real, ens <> [] ->
  Forall (fun s => Forall2 Qeq (m s) (m real)) ens -> msm_id m ens real == 0.
Proof.
  intros. unfold msm_id. apply msm_id_moms_zero.
  - destruct ens; [congruence | discriminate].
  - rewrite Forall_map. assumption.
Qed.

Lemma msm_iv_moms_perm : forall K ms ms' r, Permutation ms ms' -> msm_iv_moms K ms r == msm_iv_moms K ms' r.
Proof.
  intros. unfold msm_iv_moms. apply qsum_Forall2. apply zipw_Forall2.
  - intros x x' y y' Hx Hy. rewrite Hx, Hy. reflexivity.
  - apply zipw_Forall2. intros; rewrite H0, H1; reflexivity. apply Forall2_Qeq_refl. apply vmean_perm; assumption.
  - apply vmean_perm. apply Permutation_map. assumption.
Qed.

Lemma msm_iv_perm : forall m ens ens' real, Permutation ens ens' -> msm_iv m ens real == msm_iv m ens' real.
Proof. intros. unfold msm_iv. apply msm_iv_moms_perm. apply Permutation_map. assumption. Qed.

Lemma zipw_Forall_r : forall (f : Q -> Q -> Q) (P P' : Q -> Prop), (forall x y, P y -> P' (f x y)) ->
  forall a b, Forall P b -> Forall P' (zipw f a b).
Proof.
  intros f P P' Hf a. induction a; intros b Hb; simpl. - constructor.
  - destruct Hb; constructor; auto.
Qed.

(* inverse-variance weighting: non-negative whenever every estimated variance is positive (the case in which the
   division of the code is the division of the model) *)
Lemma msm_iv_moms_nonneg : forall K ms r,
  Forall (fun v => 0 < v) (vmean K (map (fun sm => map sqr (zipw Qminus r sm)) ms)) -> 0 <= msm_iv_moms K ms r.
Proof.
  intros. unfold msm_iv_moms. apply qsum_nonneg.
  eapply zipw_Forall_r; [|exact H]. simpl. intros x y Hy.
  setoid_replace (x * (1 / y) * x) with ((1 / y) * sqr x) by (unfold sqr; ring).
  apply Qmult_le_0_compat. unfold Qdiv. rewrite Qmult_1_l. apply Qlt_le_weak, Qinv_lt_0_compat; assumption.
  apply sqr_nonneg.
Qed.

Lemma msm_iv_nonneg : forall m ens real,
  Forall (fun v => 0 < v) (vmean (length (m real)) (map (fun sm => map sqr (zipw Qminus (m real) sm)) (map m ens))) ->
  0 <= msm_iv m ens real.
Proof. intros. apply msm_iv_moms_nonneg. assumption. Qed.

(* ------------------------------------------------------------------ instances and full-loss corollaries *)

Lemma mink_p1_perm : forall ens ens' real, Permutation ens ens' -> mink_p1 ens real == mink_p1 ens' real.
Proof. exact (mink_pow_perm Qabs Qabs_comp). Qed.
Lemma mink_p1_nonneg : forall ens real, 0 <= mink_p1 ens real.
Proof. exact (mink_pow_nonneg Qabs Qabs_nonneg). Qed.
Lemma mink_p1_zero_when_equal : forall ens real, ens <> [] -> Forall (fun s => Forall2 Qeq s real) ens -> mink_p1 ens real == 0.
Proof. exact (mink_pow_zero_when_equal Qabs Qabs_comp Qabs_zero). Qed.
Lemma mink_p2sq_perm : forall ens ens' real, Permutation ens ens' -> mink_p2sq ens real == mink_p2sq ens' real.
Proof. exact (mink_pow_perm sqr sqr_comp). Qed.
Lemma mink_p2sq_nonneg : forall ens real, 0 <= mink_p2sq ens real.
Proof. exact (mink_pow_nonneg sqr sqr_nonneg). Qed.
Lemma mink_p2sq_zero_when_equal : forall ens real, ens <> [] -> Forall (fun s => Forall2 Qeq s real) ens -> mink_p2sq ens real == 0.
Proof. exact (mink_pow_zero_when_equal sqr sqr_comp sqr_zero). Qed.

(* p = 1 exactly / p = 2 squared: zero ONLY when the ensemble mean equals the real series (so the value separates) *)
Lemma qsum_nonneg_zero : forall l, Forall (fun x => 0 <= x) l -> qsum l == 0 -> Forall (fun x => x == 0) l.
Proof.
  induction 1; intros; constructor.
  - simpl in H1. pose proof (qsum_nonneg l H0).
    apply Qle_antisym; [|assumption]. rewrite <- H1.
    rewrite <- (Qplus_0_r x) at 1. apply Qplus_le_compat. apply Qle_refl. assumption.
  - apply IHForall. simpl in H1. pose proof (qsum_nonneg l H0).
    apply Qle_antisym; [|assumption]. rewrite <- H1.
    rewrite <- (Qplus_0_l (qsum l)) at 1. apply Qplus_le_compat. assumption. apply Qle_refl.
Qed.

(* every member of every coordinate slice equals the real series, no filters: all single-coordinate values vanish *)
Lemma zero_when_equal_full : forall (l1 : ensemble -> series -> Q) cw sim real v,
  (forall ens r, ens <> [] -> Forall (fun s => s = r) ens -> l1 ens r == 0) ->
  sim <> [] -> Forall (fun member => member = real) sim ->
  compute_loss l1 cw None sim real = Ok v -> v == 0.
Proof.
  intros l1 cw sim real v Hl Hne Hall H. apply (zero_lift l1 _ _ _ _ _) with (2 := H).
  intros a Ha. rewrite (l1_args_spec l1 _ _ _ _ _ H) in Ha. apply in_map_iff in Ha.
  destruct Ha as [i [<- Hi]]. simpl. apply in_seq in Hi. destruct Hi as [_ Hi]. simpl in Hi.
  rewrite nth_repeat. simpl. apply Hl.
  - unfold column. destruct sim; [congruence | discriminate].
  - unfold column. rewrite Forall_map. eapply Forall_impl; [|exact Hall]. simpl. intros m ->. reflexivity.
Qed.

Lemma all_eq_Forall2 : forall (ens : ensemble) r, Forall (fun s => s = r) ens -> Forall (fun s => Forall2 Qeq s r) ens.
Proof. intros. eapply Forall_impl; [|exact H]. simpl. intros s ->. apply Forall2_Qeq_refl. Qed.

Lemma minkowski_p1_full_zero : forall cw sim real v, sim <> [] -> Forall (fun member => member = real) sim ->
  compute_loss mink_p1 cw None sim real = Ok v -> v == 0.
Proof.
  intros cw sim real v. apply zero_when_equal_full. intros. apply mink_p1_zero_when_equal; auto. apply all_eq_Forall2; assumption.
Qed.
Lemma minkowski_p2sq_full_zero : forall cw sim real v, sim <> [] -> Forall (fun member => member = real) sim ->
  compute_loss mink_p2sq cw None sim real = Ok v -> v == 0.
Proof.
  intros cw sim real v. apply zero_when_equal_full. intros. apply mink_p2sq_zero_when_equal; auto. apply all_eq_Forall2; assumption.
Qed.
Lemma msm_id_full_zero : forall m cw sim real v, sim <> [] -> Forall (fun member => member = real) sim ->
  compute_loss (msm_id m) cw None sim real = Ok v -> v == 0.
Proof.
  intros m cw sim real v. apply zero_when_equal_full. intros. apply msm_id_zero_when_equal; auto.
  eapply Forall_impl; [|exact H0]. simpl. intros s ->. apply Forall2_Qeq_refl.
Qed.

Lemma minkowski_p1_full_nonneg : forall cw cf sim real v, (forall w, cw = Some w -> Forall (fun x => 0 <= x) w) ->
  compute_loss mink_p1 cw cf sim real = Ok v -> 0 <= v.
Proof. intros cw cf sim real v. apply nonneg_lift. apply mink_p1_nonneg. Qed.
Lemma minkowski_p2sq_full_nonneg : forall cw cf sim real v, (forall w, cw = Some w -> Forall (fun x => 0 <= x) w) ->
  compute_loss mink_p2sq cw cf sim real = Ok v -> 0 <= v.
Proof. intros cw cf sim real v. apply nonneg_lift. apply mink_p2sq_nonneg. Qed.
Lemma msm_id_full_nonneg : forall m cw cf sim real v, (forall w, cw = Some w -> Forall (fun x => 0 <= x) w) ->
  compute_loss (msm_id m) cw cf sim real = Ok v -> 0 <= v.
Proof. intros m cw cf sim real v. apply nonneg_lift. apply msm_id_nonneg. Qed.

Lemma minkowski_p1_full_ensemble_perm : forall cw cf sim sim' real, Permutation sim sim' ->
  req (compute_loss mink_p1 cw cf sim real) (compute_loss mink_p1 cw cf sim' real).
Proof. intros. apply ensemble_perm_lift; auto. intros; apply mink_p1_perm; assumption. Qed.
Lemma minkowski_p2sq_full_ensemble_perm : forall cw cf sim sim' real, Permutation sim sim' ->
  req (compute_loss mink_p2sq cw cf sim real) (compute_loss mink_p2sq cw cf sim' real).
Proof. intros. apply ensemble_perm_lift; auto. intros; apply mink_p2sq_perm; assumption. Qed.
Lemma msm_id_full_ensemble_perm : forall m cw cf sim sim' real, Permutation sim sim' ->
  req (compute_loss (msm_id m) cw cf sim real) (compute_loss (msm_id m) cw cf sim' real).
Proof. intros. apply ensemble_perm_lift; auto. intros; apply msm_id_perm; assumption. Qed.
Lemma msm_iv_full_ensemble_perm : forall m cw cf sim sim' real, Permutation sim sim' ->
  req (compute_loss (msm_iv m) cw cf sim real) (compute_loss (msm_iv m) cw cf sim' real).
Proof. intros. apply ensemble_perm_lift; auto. intros; apply msm_iv_perm; assumption. Qed.
Lemma sum_form_full_ensemble_perm : forall h cw cf sim sim' real, Permutation sim sim' ->
  req (compute_loss (sum_form h) cw cf sim real) (compute_loss (sum_form h) cw cf sim' real).
Proof. intros. apply ensemble_perm_lift; auto. intros; apply ensemble_sum_perm_invariant; assumption. Qed.
