(* Invariants of the shared calibrator model (Model/Calibrator.v). *)
From Coq Require Import List ZArith Bool Arith Lia Permutation Sorted.
From BlackIt Require Import Model.Calibrator.
Import ListNotations.

Ltac bm H := match type of H with context [match ?x with _ => _ end] => destruct x eqn:? end.

Section P.
  Variables (Param Series LossV : Type).
  Variable model : Param -> Z -> Series.
  Variable lossf : list Series -> LossV.
  Variable loss_leb : LossV -> LossV -> bool.
  Variable rounds0 : LossV -> nat -> bool.
  Variable propose : sampler -> list Param -> list LossV -> list Param.
  Variable draws : nat -> Z.
  Variable agent_actions : nat -> nat.
  Variable plan : fault.

  Notation core := (core Param Series LossV).
  Notation cstate := (cstate Param Series LossV).
  Notation one_batch := (one_batch Param Series LossV model lossf loss_leb rounds0 propose draws agent_actions plan).
  Notation batches := (batches Param Series LossV model lossf loss_leb rounds0 propose draws agent_actions plan).
  Notation calibrate_pos := (calibrate_pos Param Series LossV model lossf loss_leb rounds0 propose draws agent_actions plan).
  Notation step := (step Param Series LossV model lossf loss_leb rounds0 propose draws agent_actions plan).
  Notation run := (run Param Series LossV model lossf loss_leb rounds0 propose draws agent_actions plan).
  Notation simulate := (simulate Param Series model draws plan).
  Notation sim_member := (sim_member Param Series model draws plan).
  Notation eval_losses := (eval_losses Series LossV lossf plan).

  (* the samplers' contract used by the alignment theorems: sample() returns batch_size rows (C12/C03) *)
  Hypothesis propose_len : forall s ps ls, length (propose s ps ls) = s_bsize s.

  (* ---------- simulate / eval_losses ---------- *)
  Definition member_series (p : Param) (pos E : nat) : list Series :=
    map (fun e => model p (draws (pos + e))) (seq 0 E).

  Lemma sim_member_ok p : forall e pos mc r, sim_member p e pos mc = inl r -> r = member_series p pos e.
  Proof.
    induction e as [|e IH]; intros pos mc r H; cbn in H.
    - injection H as <-. reflexivity.
    - unfold member_series. cbn [seq map]. rewrite <- seq_shift, map_map.
      assert (Hrec : forall r', sim_member p e (S pos) (S mc) = inl r' ->
                r' = map (fun x => model p (draws (pos + S x))) (seq 0 e)).
      { intros r' Hr'. rewrite (IH _ _ _ Hr'). unfold member_series. apply map_ext. intros a. f_equal. f_equal. lia. }
      destruct plan as [|k|k|u k];
        try (bm H; [|discriminate]; injection H as <-; rewrite Nat.add_0_r; f_equal; now apply Hrec).
      destruct (Nat.eqb k mc); [discriminate|].
      bm H; [|discriminate]. injection H as <-. rewrite Nat.add_0_r. f_equal. now apply Hrec.
  Qed.

  Inductive rows_ok (E : nat) : list Param -> list (list Series) -> list LossV -> Prop :=
  | rows_nil : rows_ok E [] [] []
  | rows_cons p ser l ps sers ls :
      l = lossf ser -> (exists pos, ser = member_series p pos E) ->
      rows_ok E ps sers ls -> rows_ok E (p :: ps) (ser :: sers) (l :: ls).

  Lemma rows_ok_app E a b c a' b' c' : rows_ok E a b c -> rows_ok E a' b' c' -> rows_ok E (a ++ a') (b ++ b') (c ++ c').
  Proof. induction 1; cbn; auto. intros. constructor; auto. Qed.
  Lemma rows_ok_len E a b c : rows_ok E a b c -> length b = length a /\ length c = length a.
  Proof. induction 1; cbn; [auto|]. destruct IHrows_ok. split; congruence. Qed.

  Lemma simulate_ok E : forall ps pos mc rows, simulate E ps pos mc = inl rows ->
     Forall2 (fun p ser => exists pos', ser = member_series p pos' E) ps rows.
  Proof. induction ps as [|p ps IH]; intros pos mc rows H; cbn in H.
    - injection H as <-. constructor.
    - destruct (sim_member p E pos mc) eqn:E1; [|discriminate].
      destruct (simulate E ps (pos + E) (mc + E)) eqn:E2; [|discriminate]. injection H as <-.
      constructor; [exists pos; eapply sim_member_ok; eauto | eapply IH; eauto]. Qed.

  Lemma Forall2_len {A B} (R : A -> B -> Prop) l l' : Forall2 R l l' -> length l = length l'.
  Proof. induction 1; cbn; auto. Qed.

  Lemma eval_losses_ok : forall rows lc l, eval_losses rows lc = inl l -> l = map lossf rows.
  Proof. induction rows as [|r rows IH]; intros lc l H; cbn in H.
    - injection H as <-. reflexivity.
    - destruct plan as [|k|k|u k]; try (bm H; [|discriminate]; injection H as <-; cbn; f_equal; eauto).
      destruct (Nat.eqb k lc); [discriminate|].
      bm H; [|discriminate]. injection H as <-. cbn; f_equal; eauto. Qed.

  Lemma new_rows_ok E ps rows : Forall2 (fun p ser => exists pos', ser = member_series p pos' E) ps rows ->
     rows_ok E ps rows (map lossf rows).
  Proof. induction 1; cbn; constructor; auto. Qed.

  (* ---------- the invariant ---------- *)
  Record Inv (E0 : nat) (c : core) : Prop := {
    inv_E : c_E (cfg _ _ _ c) = E0;
    inv_rows : rows_ok E0 (params _ _ _ c) (series _ _ _ c) (losses _ _ _ c);
    inv_n : length (params _ _ _ c) = n_sampled _ _ _ c;
    inv_bn : length (batch_nums _ _ _ c) = n_sampled _ _ _ c;
    inv_ms : length (methods _ _ _ c) = n_sampled _ _ _ c;
    inv_lt : Forall (fun b => b < batch_idx _ _ _ c) (batch_nums _ _ _ c);
    inv_sorted : StronglySorted le (batch_nums _ _ _ c)
  }.
  Definition InvS (E0 : nat) (s : cstate) : Prop :=
    Inv E0 (live _ _ _ s) /\ forall d, disk _ _ _ s = Some d -> Inv E0 d.

  (* the five record lists and the two counters *)
  Definition records (c : core) :=
    (params _ _ _ c, losses _ _ _ c, series _ _ _ c, batch_nums _ _ _ c, methods _ _ _ c, n_sampled _ _ _ c, batch_idx _ _ _ c).
  Definition extends (c c' : core) : Prop :=
    exists a b d e f, params _ _ _ c' = params _ _ _ c ++ a /\ losses _ _ _ c' = losses _ _ _ c ++ b /\
      series _ _ _ c' = series _ _ _ c ++ d /\ batch_nums _ _ _ c' = batch_nums _ _ _ c ++ e /\
      methods _ _ _ c' = methods _ _ _ c ++ f.
  Lemma extends_refl c : extends c c.
  Proof. exists [], [], [], [], []. now rewrite !app_nil_r. Qed.
  Lemma extends_trans a b c : extends a b -> extends b c -> extends a c.
  Proof. intros (a1&a2&a3&a4&a5&H1&H2&H3&H4&H5) (b1&b2&b3&b4&b5&G1&G2&G3&G4&G5).
    exists (a1++b1), (a2++b2), (a3++b3), (a4++b4), (a5++b5).
    rewrite G1, G2, G3, G4, G5, H1, H2, H3, H4, H5, !app_assoc. auto. Qed.
  Lemma records_extends c c' : records c = records c' -> extends c c'.
  Proof. unfold records. intros H. injection H as H1 H2 H3 H4 H5 _ _. exists [], [], [], [], [].
    now rewrite !app_nil_r. Qed.

  Lemma Inv_same_records E0 c c' : Inv E0 c -> records c = records c' -> cfg _ _ _ c = cfg _ _ _ c' -> Inv E0 c'.
  Proof. unfold records. intros [] H Hc. injection H as H1 H2 H3 H4 H5 H6 H7.
    constructor; rewrite <- ?H1, <- ?H2, <- ?H3, <- ?H4, <- ?H5, <- ?H6, <- ?H7, <- ?Hc; assumption. Qed.

  Lemma sorted_app_repeat l b k : StronglySorted le l -> Forall (fun x => x < b) l -> StronglySorted le (l ++ repeat b k).
  Proof. induction 1 as [|x l Hs IH Hall]; intros Hlt; cbn.
    - induction k; cbn; constructor; auto. apply Forall_forall. intros y Hy. apply repeat_spec in Hy. lia.
    - inversion Hlt; subst. constructor; [now apply IH|]. apply Forall_app; split; [exact Hall|].
      apply Forall_forall. intros y Hy. apply repeat_spec in Hy. lia. Qed.

  (* ---------- one batch ---------- *)
  Definition appended_batch (c c' : core) (m : sampler) : Prop :=
    exists new_params rows mid,
      length new_params = s_bsize m /\
      rows_ok (c_E (cfg _ _ _ c)) new_params rows (map lossf rows) /\
      params _ _ _ c' = params _ _ _ c ++ new_params /\
      series _ _ _ c' = series _ _ _ c ++ rows /\
      losses _ _ _ c' = losses _ _ _ c ++ map lossf rows /\
      batch_nums _ _ _ c' = batch_nums _ _ _ c ++ repeat (batch_idx _ _ _ c) (s_bsize m) /\
      methods _ _ _ c' = methods _ _ _ c ++ repeat mid (s_bsize m) /\
      tlookup (s_class m) (tbl _ _ _ c) = Some mid /\
      n_sampled _ _ _ c' = n_sampled _ _ _ c + s_bsize m /\
      batch_idx _ _ _ c' = S (batch_idx _ _ _ c) /\ tbl _ _ _ c' = tbl _ _ _ c /\ cfg _ _ _ c' = cfg _ _ _ c /\
      new_params = propose m (params _ _ _ c) (losses _ _ _ c).     (* the rows are what sample() returned on the live history *)

  Lemma one_batch_cases s s' o : one_batch s = (s', o) ->
    (exists e, o = Raised e /\ records (live _ _ _ s') = records (live _ _ _ s) /\ disk _ _ _ s' = disk _ _ _ s /\
               cfg _ _ _ (live _ _ _ s') = cfg _ _ _ (live _ _ _ s) /\ tbl _ _ _ (live _ _ _ s') = tbl _ _ _ (live _ _ _ s) /\
               e <> ExValue) \/
    (exists i sc1 m, next_sampler LossV agent_actions (sch _ _ _ (live _ _ _ s)) = Some (i, sc1) /\
        nth_error (sched_samplers _ sc1) i = Some m /\
        appended_batch (live _ _ _ s) (live _ _ _ s') m /\
        (o = Done \/ o = Converged \/ o = Raised ExValue \/ o = Raised ExOther) /\
        (disk _ _ _ s' = disk _ _ _ s \/ disk _ _ _ s' = Some (live _ _ _ s'))).
  Proof.
    unfold Calibrator.one_batch. intros H.
    destruct (next_sampler LossV agent_actions (sch _ _ _ (live _ _ _ s))) as [[i sc1]|] eqn:Hn.
    2:{ injection H as <- <-. left. exists ExOther. repeat split; auto; discriminate. }
    destruct (nth_error (sched_samplers LossV sc1) i) as [m|] eqn:Hm.
    2:{ injection H as <- <-. left. exists ExOther. repeat split; auto; discriminate. }
    destruct (sampler_faults plan m).
    { injection H as <- <-. left. exists ExSampler. repeat split; auto; discriminate. }
    destruct (simulate _ _ _ _) as [rows|n] eqn:Hs.
    2:{ injection H as <- <-. left. exists ExModel. repeat split; auto; discriminate. }
    destruct (eval_losses rows _) as [nl|n] eqn:Hl.
    2:{ injection H as <- <-. left. exists ExLoss. repeat split; auto; discriminate. }
    destruct (tlookup _ _) as [mid|] eqn:Ht.
    2:{ injection H as <- <-. left. exists ExOther. repeat split; auto; discriminate. }
    right. exists i, sc1, m. split; [reflexivity|]. split; [exact Hm|].
    apply eval_losses_ok in Hl. subst nl.
    pose proof (simulate_ok _ _ _ _ _ Hs) as Hf2.
    assert (Hlen : length rows = length (propose m (params _ _ _ (live _ _ _ s)) (losses _ _ _ (live _ _ _ s)))).
    { symmetry. eapply Forall2_len; eauto. }
    set (c' := mkCore _ _ _ _ _ _ _ _ _ _ _ _ _ _ _ _) in H.
    assert (Happ : appended_batch (live _ _ _ s) c' m).
    { exists (propose m (params _ _ _ (live _ _ _ s)) (losses _ _ _ (live _ _ _ s))), rows, mid.
      unfold c'; cbn. rewrite propose_len. repeat split; auto. now apply new_rows_ok. }
    destruct (match c_prec (cfg _ _ _ (live _ _ _ s)) with None => Some false | Some p => _ end) as [cv|] eqn:Hcv.
    2:{ injection H as <- <-. cbn. repeat split; auto. }
    destruct (c_saving (cfg _ _ _ (live _ _ _ s))).
    - destruct (save _ _ _ c') eqn:Hsave.
      + injection H as <- <-. cbn. split; [exact Happ|]. split; [destruct cv; auto|].
        right. unfold save in Hsave. destruct (sch _ _ _ c'); [|discriminate]. congruence.
      + injection H as <- <-. cbn. repeat split; auto.
    - injection H as <- <-. cbn. split; [exact Happ|]. split; [destruct cv; auto|]. auto.
  Qed.

  Lemma appended_inv E0 c c' m : Inv E0 c -> appended_batch c c' m -> Inv E0 c'.
  Proof.
    intros [HE Hr Hn Hb Hm Hlt Hs] (np & rows & mid & Hnp & Hrows & Hp & Hse & Hlo & Hbn & Hme & Ht & Hns & Hbi & Htb & Hcf & _).
    rewrite HE in Hrows.
    constructor.
    - congruence.
    - rewrite Hp, Hse, Hlo. now apply rows_ok_app.
    - rewrite Hp, app_length. lia.
    - rewrite Hbn, app_length, repeat_length. lia.
    - rewrite Hme, app_length, repeat_length. lia.
    - rewrite Hbn, Hbi. apply Forall_app. split.
      + eapply Forall_impl; [|exact Hlt]. cbn; intros; lia.
      + apply Forall_forall. intros y Hy. apply repeat_spec in Hy. lia.
    - rewrite Hbn. now apply sorted_app_repeat.
  Qed.

  Lemma one_batch_inv E0 s s' o : InvS E0 s -> one_batch s = (s', o) ->
     InvS E0 s' /\ extends (live _ _ _ s) (live _ _ _ s').
  Proof.
    intros [Hl Hd] H. apply one_batch_cases in H.
    destruct H as [(e & -> & Hrec & Hdisk & Hcfg & _) | (i & sc1 & m & Hn & Hm & Happ & _ & Hdisk)].
    - split; [|now apply records_extends]. split.
      + eapply Inv_same_records; eauto.
      + intros d Hd'. apply Hd. congruence.
    - assert (Hinv : Inv E0 (live _ _ _ s')) by (eapply appended_inv; eauto).
      split.
      + split; [exact Hinv|]. intros d Hd'. destruct Hdisk as [Hk|Hk]; [apply Hd; congruence|]. congruence.
      + destruct Happ as (np & rows & mid & _ & _ & Hp & Hse & Hlo & Hbn & Hme & _).
        exists np, (map lossf rows), rows, (repeat (batch_idx _ _ _ (live _ _ _ s)) (s_bsize m)), (repeat mid (s_bsize m)). auto.
  Qed.

  Lemma batches_inv E0 : forall n s s' o, InvS E0 s -> batches n s = (s', o) ->
     InvS E0 s' /\ extends (live _ _ _ s) (live _ _ _ s').
  Proof. induction n as [|n IH]; intros s s' o Hi H; cbn in H.
    - injection H as <- <-. split; [exact Hi | apply extends_refl].
    - destruct (one_batch s) as [s1 o1] eqn:E1. destruct (one_batch_inv _ _ _ _ Hi E1) as [Hi1 He1].
      destruct o1; try (injection H as <- <-; auto).
      destruct (IH _ _ _ Hi1 H) as [Hi2 He2]. split; [exact Hi2 | eapply extends_trans; eauto]. Qed.

  (* setters that do not touch records *)
  Lemma Inv_set_sch E0 c sc : Inv E0 c -> Inv E0 (set_sch _ _ _ c sc).
  Proof. intros H. eapply Inv_same_records; eauto. Qed.
  Lemma Inv_set_rng E0 c p : Inv E0 c -> Inv E0 (set_rng _ _ _ c p).
  Proof. intros H. eapply Inv_same_records; eauto. Qed.
  Lemma Inv_set_tbl E0 c t : Inv E0 c -> Inv E0 (set_tbl _ _ _ c t).
  Proof. intros H. eapply Inv_same_records; eauto. Qed.
  Lemma Inv_set_counts E0 c a b : Inv E0 c -> Inv E0 (set_counts _ _ _ c a b).
  Proof. intros H. eapply Inv_same_records; eauto. Qed.
  Lemma Inv_seeds E0 c : Inv E0 c -> Inv E0 (set_samplers_seeds _ _ _ draws c).
  Proof. intros H. unfold set_samplers_seeds. apply Inv_set_rng, Inv_set_sch, H. Qed.

  Lemma calibrate_pos_inv E0 n s s' e r : InvS E0 s -> calibrate_pos n s = (s', e, r) ->
     InvS E0 s' /\ extends (live _ _ _ s) (live _ _ _ s').
  Proof.
    intros [Hl Hd] H. unfold Calibrator.calibrate_pos in H.
    set (c1 := if Nat.eqb _ 0 then _ else _) in H.
    assert (Hc1 : Inv E0 c1) by (unfold c1; destruct (Nat.eqb _ 0); [now apply Inv_seeds | exact Hl]).
    assert (Hx1 : extends (live _ _ _ s) c1).
    { unfold c1; destruct (Nat.eqb _ 0); [apply records_extends; reflexivity | apply extends_refl]. }
    destruct (start_session _ _) as [sc|e0] eqn:Hss.
    2:{ injection H as <- <- <-. split; [split; auto | exact Hx1]. }
    destruct (batches n _) as [s1 o1] eqn:Hb.
    assert (Hi0 : InvS E0 (mkSt _ _ _ (set_sch _ _ _ c1 sc) (disk _ _ _ s))) by (split; [now apply Inv_set_sch | exact Hd]).
    destruct (batches_inv _ _ _ _ _ Hi0 Hb) as [[Hl1 Hd1] Hx].
    assert (Hx' : extends (live _ _ _ s) (live _ _ _ s1)).
    { eapply extends_trans; [exact Hx1|]. eapply extends_trans; [|exact Hx]. apply records_extends. reflexivity. }
    destruct o1.
    - destruct (end_session _ _) as [sc'|e1]; injection H as <- <- <-.
      + split; [split; [now apply Inv_set_sch | exact Hd1] |]. eapply extends_trans; [exact Hx'|]. apply records_extends; reflexivity.
      + split; [split; auto | exact Hx'].
    - destruct (end_session _ _) as [sc'|e1]; injection H as <- <- <-.
      + split; [split; [now apply Inv_set_sch | exact Hd1] |]. eapply extends_trans; [exact Hx'|]. apply records_extends; reflexivity.
      + split; [split; auto | exact Hx'].
    - destruct (end_session _ _) as [sc'|e1]; injection H as <- <- <-.
      + split; [split; [now apply Inv_set_sch | exact Hd1] |]. eapply extends_trans; [exact Hx'|]. apply records_extends; reflexivity.
      + split; [split; auto | exact Hx'].
  Qed.

  (* what the extra checkpoint of calibrate(0) can do *)
  Lemma zero_ckpt_cases (s' : cstate) e r s2 e2 r2 : zero_ckpt _ _ _ (s', e, r) = (s2, e2, r2) ->
    (s2 = s' /\ e2 = e /\ r2 = r) \/
    (e = None /\ live _ _ _ s2 = live _ _ _ s' /\ disk _ _ _ s2 = Some (live _ _ _ s') /\ e2 = None /\ r2 = r /\
       exists l b, sch _ _ _ (live _ _ _ s') = RR LossV l b) \/
    (e = None /\ s2 = s' /\ e2 = Some ExOther /\ r2 = []).
  Proof. unfold zero_ckpt. destruct e; [intros H; injection H as <- <- <-; auto|].
    destruct (c_saving _); [|intros H; injection H as <- <- <-; auto].
    unfold save. destruct (sch _ _ _ (live _ _ _ s')) eqn:Hs; intros H; injection H as <- <- <-.
    - right; left. cbn. repeat split; auto. eexists; eexists; reflexivity.
    - right; right. auto. Qed.

  Notation calibrate := (calibrate Param Series LossV model lossf loss_leb rounds0 propose draws agent_actions plan).
  Lemma calibrate_unfold n s : calibrate n s = match n with 0 => zero_ckpt _ _ _ (calibrate_pos 0 s) | S _ => calibrate_pos n s end.
  Proof. reflexivity. Qed.

  Lemma calibrate_inv E0 n s s' e r : InvS E0 s -> calibrate n s = (s', e, r) ->
     InvS E0 s' /\ extends (live _ _ _ s) (live _ _ _ s').
  Proof. intros Hi H. rewrite calibrate_unfold in H. destruct n; [|eapply calibrate_pos_inv; eauto].
    destruct (calibrate_pos 0 s) as [[s1 e1] r1] eqn:E. destruct (calibrate_pos_inv _ _ _ _ _ _ Hi E) as [[Hl Hd] Hx].
    apply zero_ckpt_cases in H. destruct H as [(-> & _ & _) | [(_ & Hlive & Hdisk & _) | (_ & -> & _)]]; [split; [split|]; auto | | split; [split|]; auto].
    split; [split|]; rewrite ?Hlive; auto. intros d Hd'. rewrite Hdisk in Hd'. injection Hd' as <-. exact Hl. Qed.

  Lemma step_inv E0 s o s' e r : InvS E0 s -> step s o = (s', e, r) -> InvS E0 s'.
  Proof.
    intros Hi H. destruct o; cbn in H.
    - eapply calibrate_inv; eauto.
    - unfold create_checkpoint in H. destruct Hi as [Hl Hd]. destruct (save _ _ _ _) eqn:Hs; injection H as <- <- <-.
      + split; [exact Hl|]. cbn. intros d Hd'. injection Hd' as <-. unfold save in Hs.
        destruct (sch _ _ _ _); [|discriminate]. now injection Hs as <-.
      + split; auto.
    - unfold restore in H. destruct Hi as [Hl Hd]. destruct (disk _ _ _ s) as [d|] eqn:Hdk; injection H as <- <- <-.
      + split; [apply Inv_set_counts, Hd; reflexivity | cbn; exact Hd].
      + split; [exact Hl | now rewrite Hdk].
    - unfold set_samplers in H. destruct Hi as [Hl Hd]. destruct (tupdate _ _); injection H as <- <- <-;
        (split; [| exact Hd]); cbn; [apply Inv_set_tbl|]; apply Inv_set_sch, Hl.
    - unfold set_scheduler in H. destruct Hi as [Hl Hd]. destruct (tupdate _ _); injection H as <- <- <-;
        (split; [| exact Hd]); cbn; [apply Inv_set_tbl|]; apply Inv_set_sch, Hl.
  Qed.

  Lemma run_inv E0 : forall ops s, InvS E0 s -> InvS E0 (run ops s).
  Proof. induction ops as [|o ops IH]; intros s Hi; cbn; [exact Hi|]. apply IH.
    destruct (step s o) as [[s' e] r] eqn:E. cbn. eapply step_inv; eauto. Qed.

  Lemma construct_inv cfg0 samplers scheduler s : construct Param Series LossV cfg0 samplers scheduler = inl s -> InvS (c_E cfg0) s.
  Proof. unfold construct. destruct (ctor_validation_raises _ _); [discriminate|].
    destruct (match samplers with Some l => _ | None => scheduler end) as [sc|]; [|discriminate].
    intros H. injection H as <-. split; [|discriminate]. constructor; cbn; auto; constructor. Qed.

  Theorem reachable_aligned cfg0 samplers scheduler s0 ops :
    construct Param Series LossV cfg0 samplers scheduler = inl s0 -> InvS (c_E cfg0) (run ops s0).
  Proof. intros H. apply run_inv. eapply construct_inv; eauto. Qed.

  (* append-only: every operation other than restore extends all five record lists *)
  Theorem step_append_only E0 s o s' e r : InvS E0 s -> step s o = (s', e, r) -> o <> ORestore ->
     extends (live _ _ _ s) (live _ _ _ s').
  Proof.
    intros Hi H Hno. destruct o; cbn in H; try congruence.
    - eapply calibrate_inv; eauto.
    - unfold create_checkpoint in H. destruct (save _ _ _ _); injection H as <- <- <-; apply extends_refl.
    - unfold set_samplers in H. destruct (tupdate _ _); injection H as <- <- <-; apply records_extends; reflexivity.
    - unfold set_scheduler in H. destruct (tupdate _ _); injection H as <- <- <-; apply records_extends; reflexivity.
  Qed.
End P.
