(* Lemmas about Model/SearchSpace.v (validation cascade, grid, space size). *)
From Coq Require Import List ZArith QArith Qabs Qround Bool Arith Lia Lqa Sorted.
From BlackIt Require Import Model.SearchSpace.
Import ListNotations.
Local Open Scope nat_scope.

(* ================================================================================================
   1. The validation cascade, for ANY numeric interface (no property of ==, >, - is used). *)
Section CheckP.
  Variable num : Type.
  Variable eqb gtb : num -> num -> bool.
  Variable sub : num -> num -> num.
  Variable zero : num.

  Notation check_loop := (check_loop num eqb gtb sub zero).
  Notation check_bounds := (check_bounds num eqb gtb sub zero).
  Notation at_index := (at_index num eqb gtb sub zero).
  Notation per_index_from := (per_index_from num eqb gtb sub zero).
  Notation structural := (structural num).
  Notation violations := (violations num eqb gtb sub zero).
  Notation first_violation := (first_violation num eqb gtb sub zero).

  Definition first_of (l : list (ss_error num)) : result num :=
    match l with [] => Ok | e :: _ => Err e end.

  Lemma check_loop_first : forall lo up pr i,
    check_loop i lo up pr = first_of (per_index_from i lo up pr).
  Proof.
    induction lo as [|l lo IH]; intros [|u up] [|p pr] i; simpl; auto.
    unfold at_index.
    destruct (eqb l u); simpl; auto.
    destruct (gtb l u); simpl; auto.
    destruct (eqb p zero); simpl; auto.
    destruct (gtb p (sub u l)); simpl; auto.
  Qed.

  (* precedence as a theorem: the cascade returns the head of the list of all violations *)
  Lemma check_first_violation : forall bounds prec,
    check_bounds bounds prec = first_violation bounds prec.
  Proof.
    intros b p. unfold check_bounds, first_violation, violations, structural.
    destruct (length b =? 2); simpl; auto.
    destruct (length (nth 0 b []) =? length (nth 1 b [])); simpl; auto.
    destruct (length p =? length (nth 0 b [])); simpl; auto.
    apply check_loop_first.
  Qed.

  (* ---- what the list of violations contains *)
  Lemma in_at_index : forall e i l u p,
    In e (at_index i l u p) <->
      (e = SameLowerAndUpperBound i l /\ eqb l u = true) \/
      (e = LowerBoundGreaterThanUpperBound i l u /\ gtb l u = true) \/
      (e = PrecisionZero i /\ eqb p zero = true) \/
      (e = PrecisionGreaterThanBoundsRange i l u p /\ gtb p (sub u l) = true).
  Proof.
    intros. unfold at_index. rewrite !in_app_iff.
    destruct (eqb l u), (gtb l u), (eqb p zero), (gtb p (sub u l)); simpl; intuition congruence.
  Qed.

  Lemma in_per_index_from : forall e lo up pr k,
    In e (per_index_from k lo up pr) <->
    exists i l u p, nth_error lo i = Some l /\ nth_error up i = Some u /\ nth_error pr i = Some p /\
                    In e (at_index (k + i) l u p).
  Proof.
    intros e. induction lo as [|l lo IH]; intros up pr k.
    - simpl. split; [tauto|]. intros (i & l & u & p & H & _). destruct i; discriminate.
    - destruct up as [|u up]; [|destruct pr as [|p pr]].
      + simpl. split; [tauto|]. intros (i & l' & u & p & _ & H & _). destruct i; discriminate.
      + simpl. split; [tauto|]. intros (i & l' & u' & p & _ & _ & H & _). destruct i; discriminate.
      + simpl. rewrite in_app_iff, IH. split.
        * intros [H | (i & l' & u' & p' & H1 & H2 & H3 & H4)].
          -- exists 0, l, u, p. rewrite Nat.add_0_r. auto.
          -- exists (S i), l', u', p'. simpl. rewrite <- plus_n_Sm. auto.
        * intros (i & l' & u' & p' & H1 & H2 & H3 & H4). destruct i as [|i]; simpl in *.
          -- left. rewrite Nat.add_0_r in H4. congruence.
          -- right. exists i, l', u', p'. rewrite <- plus_n_Sm in H4. auto.
  Qed.

  Lemma in_structural : forall e b p,
    In e (structural b p) <->
      (e = BoundsNotOfSizeTwo (length b) /\ length b <> 2) \/
      (e = BoundsOfDifferentLength (length (nth 0 b [])) (length (nth 1 b [])) /\
         length (nth 0 b []) <> length (nth 1 b [])) \/
      (e = BadPrecisionLength (length p) (length (nth 0 b [])) /\ length p <> length (nth 0 b [])).
  Proof.
    intros. unfold structural. rewrite !in_app_iff.
    destruct (Nat.eqb_spec (length b) 2), (Nat.eqb_spec (length (nth 0 b [])) (length (nth 1 b []))),
      (Nat.eqb_spec (length p) (length (nth 0 b []))); simpl; intuition congruence.
  Qed.

  (* completeness and soundness of the declarative list: it is exactly the set of violated conditions *)
  Lemma in_violations : forall e b p,
    In e (violations b p) <->
      In e (structural b p) \/
      exists i l u pr, nth_error (nth 0 b []) i = Some l /\ nth_error (nth 1 b []) i = Some u /\
                       nth_error p i = Some pr /\ In e (at_index i l u pr).
  Proof. intros. unfold violations. rewrite in_app_iff, in_per_index_from. simpl. tauto. Qed.

  Lemma violations_complete : forall e b p,
    In e (violations b p) <->
      ((e = BoundsNotOfSizeTwo (length b) /\ length b <> 2) \/
       (e = BoundsOfDifferentLength (length (nth 0 b [])) (length (nth 1 b [])) /\
          length (nth 0 b []) <> length (nth 1 b [])) \/
       (e = BadPrecisionLength (length p) (length (nth 0 b [])) /\ length p <> length (nth 0 b []))) \/
      exists i l u pr, nth_error (nth 0 b []) i = Some l /\ nth_error (nth 1 b []) i = Some u /\ nth_error p i = Some pr /\
        ((e = SameLowerAndUpperBound i l /\ eqb l u = true) \/
         (e = LowerBoundGreaterThanUpperBound i l u /\ gtb l u = true) \/
         (e = PrecisionZero i /\ eqb pr zero = true) \/
         (e = PrecisionGreaterThanBoundsRange i l u pr /\ gtb pr (sub u l) = true)).
  Proof.
    intros. rewrite in_violations, in_structural. split.
    - intros [H|(i & l & u & pr & H1 & H2 & H3 & H)]; [left; exact H|].
      right. exists i, l, u, pr. repeat split; auto. apply in_at_index. exact H.
    - intros [H|(i & l & u & pr & H1 & H2 & H3 & H)]; [left; exact H|].
      right. exists i, l, u, pr. repeat split; auto. apply in_at_index. exact H.
  Qed.

  (* ---- the list is strictly increasing for the documented order *)
  Definition err_lt (a b : ss_error num) : Prop := key_lt (err_key a) (err_key b).

  Lemma sorted_app : forall (l1 l2 : list (ss_error num)),
    StronglySorted err_lt l1 -> StronglySorted err_lt l2 ->
    (forall x y, In x l1 -> In y l2 -> err_lt x y) -> StronglySorted err_lt (l1 ++ l2).
  Proof.
    induction l1 as [|a l1 IH]; simpl; intros l2 H1 H2 H; auto.
    inversion H1; subst. constructor.
    - apply IH; auto.
    - apply Forall_app. split; auto. apply Forall_forall. intros y Hy. apply H; auto.
  Qed.

  Lemma at_index_keys : forall e i l u p, In e (at_index i l u p) -> fst (err_key e) = S i.
  Proof. intros e i l u p H. apply in_at_index in H. destruct H as [[-> _]|[[-> _]|[[-> _]|[-> _]]]]; reflexivity. Qed.

  Lemma at_index_sorted : forall i l u p, StronglySorted err_lt (at_index i l u p).
  Proof.
    intros. unfold at_index.
    destruct (eqb l u), (gtb l u), (eqb p zero), (gtb p (sub u l)); simpl;
      repeat (constructor; [| repeat constructor; unfold err_lt, key_lt; simpl; lia ]); constructor.
  Qed.

  Lemma per_index_keys : forall e lo up pr k, In e (per_index_from k lo up pr) -> k < fst (err_key e).
  Proof.
    intros e lo up pr k H. apply in_per_index_from in H. destruct H as (i & l & u & p & _ & _ & _ & H).
    apply at_index_keys in H. lia.
  Qed.

  Lemma per_index_sorted : forall lo up pr k, StronglySorted err_lt (per_index_from k lo up pr).
  Proof.
    induction lo as [|l lo IH]; intros [|u up] [|p pr] k; simpl; try constructor.
    apply sorted_app; auto using at_index_sorted.
    intros x y Hx Hy. apply at_index_keys in Hx. apply per_index_keys in Hy.
    unfold err_lt, key_lt. lia.
  Qed.

  Lemma structural_sorted : forall b p, StronglySorted err_lt (structural b p).
  Proof.
    intros. unfold structural.
    destruct (length b =? 2), (length (nth 0 b []) =? length (nth 1 b [])), (length p =? length (nth 0 b []));
      simpl; repeat (constructor; [| repeat constructor; unfold err_lt, key_lt; simpl; lia ]); constructor.
  Qed.

  Lemma violations_sorted : forall b p, StronglySorted err_lt (violations b p).
  Proof.
    intros. unfold violations. apply sorted_app; auto using structural_sorted, per_index_sorted.
    intros x y Hx Hy. apply per_index_keys in Hy. apply in_structural in Hx.
    unfold err_lt, key_lt. destruct Hx as [[-> _]|[[-> _]|[-> _]]]; simpl; lia.
  Qed.

  (* the reported error is a violated condition and precedes every other violated condition *)
  Lemma check_err_minimal : forall b p e,
    check_bounds b p = Err e ->
    In e (violations b p) /\ forall e', In e' (violations b p) -> e' = e \/ err_lt e e'.
  Proof.
    intros b p e H. rewrite check_first_violation in H. unfold first_violation in H.
    pose proof (violations_sorted b p) as S.
    destruct (violations b p) as [|a r]; [discriminate|]. injection H as ->.
    split; [left; reflexivity|]. intros e' [->|Hin]; [auto|]. right.
    inversion S; subst. rewrite Forall_forall in H2. auto.
  Qed.

  Lemma check_err_in : forall b p e, check_bounds b p = Err e -> In e (violations b p).
  Proof. intros. apply check_err_minimal; auto. Qed.

  (* ---- acceptance *)
  Definition shape_ok (b : list (list num)) (p : list num) : Prop :=
    length b = 2 /\ length (nth 0 b []) = length (nth 1 b []) /\ length p = length (nth 0 b []).

  Definition wellformed (b : list (list num)) (p : list num) : Prop :=
    shape_ok b p /\
    forall i l u pr, nth_error (nth 0 b []) i = Some l -> nth_error (nth 1 b []) i = Some u -> nth_error p i = Some pr ->
      eqb l u = false /\ gtb l u = false /\ eqb pr zero = false /\ gtb pr (sub u l) = false.

  Lemma check_ok_iff_no_violation : forall b p, check_bounds b p = Ok <-> violations b p = [].
  Proof.
    intros. rewrite check_first_violation. unfold first_violation.
    destruct (violations b p); split; intros; auto; discriminate.
  Qed.

  Lemma nil_iff_no_in : forall A (l : list A), l = [] <-> forall x, ~ In x l.
  Proof. intros A [|a l]; split; intros; auto; try discriminate. exfalso. apply (H a). left; auto. Qed.

  Lemma check_ok_iff_wellformed : forall b p, check_bounds b p = Ok <-> wellformed b p.
  Proof.
    intros b p. rewrite check_ok_iff_no_violation, nil_iff_no_in. unfold wellformed, shape_ok. split.
    - intros H. split.
      + destruct (Nat.eq_dec (length b) 2) as [E1|N1];
          [destruct (Nat.eq_dec (length (nth 0 b [])) (length (nth 1 b []))) as [E2|N2];
           [destruct (Nat.eq_dec (length p) (length (nth 0 b []))) as [E3|N3]; [auto|]|]|]; exfalso.
        * eapply H. apply in_violations. left. apply in_structural. right. right. eauto.
        * eapply H. apply in_violations. left. apply in_structural. right. left. eauto.
        * eapply H. apply in_violations. left. apply in_structural. left. eauto.
      + intros i l u pr H1 H2 H3.
        assert (N : forall e, ~ In e (at_index i l u pr)).
        { intros e He. apply (H e). apply in_violations. right. exists i, l, u, pr. auto. }
        repeat split.
        * destruct (eqb l u) eqn:E; auto. exfalso. eapply N. apply in_at_index. left. eauto.
        * destruct (gtb l u) eqn:E; auto. exfalso. eapply N. apply in_at_index. right. left. eauto.
        * destruct (eqb pr zero) eqn:E; auto. exfalso. eapply N. apply in_at_index. right. right. left. eauto.
        * destruct (gtb pr (sub u l)) eqn:E; auto. exfalso. eapply N. apply in_at_index. right. right. right. eauto.
    - intros [(S1 & S2 & S3) W] e He. apply in_violations in He. destruct He as [He|(i & l & u & pr & H1 & H2 & H3 & He)].
      + apply in_structural in He. tauto.
      + destruct (W i l u pr H1 H2 H3) as (A & B & C & D). apply in_at_index in He.
        destruct He as [[_ E]|[[_ E]|[[_ E]|[_ E]]]]; congruence.
  Qed.

  (* ---- payloads: what each reported exception says about the input *)
  Lemma check_err_shape : forall b p e, check_bounds b p = Err e -> 0 < fst (err_key e) -> shape_ok b p.
  Proof.
    intros b p e H K. unfold check_bounds in H. unfold shape_ok.
    destruct (Nat.eqb_spec (length b) 2); simpl in H; [|injection H as <-; simpl in K; lia].
    destruct (Nat.eqb_spec (length (nth 0 b [])) (length (nth 1 b []))); simpl in H; [|injection H as <-; simpl in K; lia].
    destruct (Nat.eqb_spec (length p) (length (nth 0 b []))); simpl in H; [|injection H as <-; simpl in K; lia].
    auto.
  Qed.

  Lemma payload_not_size_two : forall b p n,
    check_bounds b p = Err (BoundsNotOfSizeTwo n) -> n = length b /\ n <> 2.
  Proof.
    intros b p n H. apply check_err_in, in_violations in H. destruct H as [H|(i & l & u & pr & _ & _ & _ & H)].
    - apply in_structural in H. destruct H as [[E N]|[[E _]|[E _]]]; try discriminate. injection E as ->. auto.
    - apply in_at_index in H. destruct H as [[E _]|[[E _]|[[E _]|[E _]]]]; discriminate.
  Qed.

  Lemma payload_different_length : forall b p n m,
    check_bounds b p = Err (BoundsOfDifferentLength n m) ->
    length b = 2 /\ n = length (nth 0 b []) /\ m = length (nth 1 b []) /\ n <> m.
  Proof.
    intros b p n m H. unfold check_bounds in H.
    destruct (Nat.eqb_spec (length b) 2); simpl in H; [|discriminate].
    destruct (Nat.eqb_spec (length (nth 0 b [])) (length (nth 1 b []))); simpl in H.
    - destruct (length p =? length (nth 0 b [])); simpl in H; [|discriminate].
      rewrite check_loop_first in H. unfold first_of in H.
      destruct (per_index_from 0 (nth 0 b []) (nth 1 b []) p) eqn:E; [discriminate|]. injection H as ->.
      assert (I : In (BoundsOfDifferentLength n m) (per_index_from 0 (nth 0 b []) (nth 1 b []) p)) by (rewrite E; left; auto).
      apply per_index_keys in I. simpl in I. lia.
    - injection H as <- <-. auto.
  Qed.

  Lemma payload_bad_precision_length : forall b p n m,
    check_bounds b p = Err (BadPrecisionLength n m) ->
    length b = 2 /\ length (nth 0 b []) = length (nth 1 b []) /\ n = length p /\ m = length (nth 0 b []) /\ n <> m.
  Proof.
    intros b p n m H. unfold check_bounds in H.
    destruct (Nat.eqb_spec (length b) 2); simpl in H; [|discriminate].
    destruct (Nat.eqb_spec (length (nth 0 b [])) (length (nth 1 b []))); simpl in H; [|discriminate].
    destruct (Nat.eqb_spec (length p) (length (nth 0 b []))); simpl in H.
    - rewrite check_loop_first in H. unfold first_of in H.
      destruct (per_index_from 0 (nth 0 b []) (nth 1 b []) p) eqn:E; [discriminate|]. injection H as ->.
      assert (I : In (BadPrecisionLength n m) (per_index_from 0 (nth 0 b []) (nth 1 b []) p)) by (rewrite E; left; auto).
      apply per_index_keys in I. simpl in I. lia.
    - injection H as <- <-. auto.
  Qed.

  (* an index-level error: the shape is fine, the payload values are the i-th entries, the reported condition
     holds at i, and no condition that precedes it at i holds *)
  Lemma index_error_entries : forall b p e,
    check_bounds b p = Err e -> 0 < fst (err_key e) ->
    exists i l u pr, nth_error (nth 0 b []) i = Some l /\ nth_error (nth 1 b []) i = Some u /\
                     nth_error p i = Some pr /\ In e (at_index i l u pr).
  Proof.
    intros b p e H K. apply check_err_in, in_violations in H. destruct H as [H|H]; auto.
    apply in_structural in H. destruct H as [[-> _]|[[-> _]|[-> _]]]; simpl in K; lia.
  Qed.

  Lemma earlier_at_same_index_false : forall b p e i l u pr e',
    check_bounds b p = Err e ->
    nth_error (nth 0 b []) i = Some l -> nth_error (nth 1 b []) i = Some u -> nth_error p i = Some pr ->
    In e' (at_index i l u pr) -> e' = e \/ err_lt e e'.
  Proof.
    intros b p e i l u pr e' H H1 H2 H3 H4. apply (proj2 (check_err_minimal b p e H)).
    apply in_violations. right. exists i, l, u, pr. auto.
  Qed.

  Lemma payload_same : forall b p i v,
    check_bounds b p = Err (SameLowerAndUpperBound i v) ->
    shape_ok b p /\ nth_error (nth 0 b []) i = Some v /\
    exists u, nth_error (nth 1 b []) i = Some u /\ eqb v u = true.
  Proof.
    intros b p i v H. split; [eapply check_err_shape; eauto; simpl; lia|].
    destruct (index_error_entries _ _ _ H) as (j & l & u & pr & H1 & H2 & H3 & H4); [simpl; lia|].
    apply in_at_index in H4. destruct H4 as [[E C]|[[E _]|[[E _]|[E _]]]]; try discriminate.
    injection E as -> ->. eauto.
  Qed.

  Lemma payload_inverted : forall b p i l u,
    check_bounds b p = Err (LowerBoundGreaterThanUpperBound i l u) ->
    shape_ok b p /\ nth_error (nth 0 b []) i = Some l /\ nth_error (nth 1 b []) i = Some u /\
    gtb l u = true /\ eqb l u = false.
  Proof.
    intros b p i l u H. split; [eapply check_err_shape; eauto; simpl; lia|].
    destruct (index_error_entries _ _ _ H) as (j & l' & u' & pr & H1 & H2 & H3 & H4); [simpl; lia|].
    pose proof H4 as H5. apply in_at_index in H5. destruct H5 as [[E _]|[[E C]|[[E _]|[E _]]]]; try discriminate.
    injection E as -> -> ->. repeat split; auto.
    destruct (eqb l' u') eqn:Q; auto. exfalso.
    destruct (earlier_at_same_index_false _ _ _ _ _ _ _ (SameLowerAndUpperBound j l') H H1 H2 H3) as [E|E].
    - apply in_at_index. left. auto.
    - discriminate.
    - unfold err_lt, key_lt in E. simpl in E. lia.
  Qed.

  Lemma payload_precision_zero : forall b p i,
    check_bounds b p = Err (PrecisionZero i) ->
    shape_ok b p /\ exists l u pr, nth_error (nth 0 b []) i = Some l /\ nth_error (nth 1 b []) i = Some u /\
      nth_error p i = Some pr /\ eqb pr zero = true /\ eqb l u = false /\ gtb l u = false.
  Proof.
    intros b p i H. split; [eapply check_err_shape; eauto; simpl; lia|].
    destruct (index_error_entries _ _ _ H) as (j & l & u & pr & H1 & H2 & H3 & H4); [simpl; lia|].
    pose proof H4 as H5. apply in_at_index in H5. destruct H5 as [[E _]|[[E _]|[[E C]|[E _]]]]; try discriminate.
    injection E as ->. exists l, u, pr. repeat split; auto.
    - destruct (eqb l u) eqn:Q; auto. exfalso.
      destruct (earlier_at_same_index_false _ _ _ _ _ _ _ (SameLowerAndUpperBound j l) H H1 H2 H3) as [E|E].
      + apply in_at_index. left. auto.
      + discriminate.
      + unfold err_lt, key_lt in E. simpl in E. lia.
    - destruct (gtb l u) eqn:Q; auto. exfalso.
      destruct (earlier_at_same_index_false _ _ _ _ _ _ _ (LowerBoundGreaterThanUpperBound j l u) H H1 H2 H3) as [E|E].
      + apply in_at_index. right. left. auto.
      + discriminate.
      + unfold err_lt, key_lt in E. simpl in E. lia.
  Qed.

  Lemma payload_precision_too_large : forall b p i l u pr,
    check_bounds b p = Err (PrecisionGreaterThanBoundsRange i l u pr) ->
    shape_ok b p /\ nth_error (nth 0 b []) i = Some l /\ nth_error (nth 1 b []) i = Some u /\ nth_error p i = Some pr /\
    gtb pr (sub u l) = true /\ eqb l u = false /\ gtb l u = false /\ eqb pr zero = false.
  Proof.
    intros b p i l u pr H. split; [eapply check_err_shape; eauto; simpl; lia|].
    destruct (index_error_entries _ _ _ H) as (j & l' & u' & pr' & H1 & H2 & H3 & H4); [simpl; lia|].
    pose proof H4 as H5. apply in_at_index in H5. destruct H5 as [[E _]|[[E _]|[[E _]|[E C]]]]; try discriminate.
    injection E as -> -> -> ->. repeat split; auto.
    - destruct (eqb l' u') eqn:Q; auto. exfalso.
      destruct (earlier_at_same_index_false _ _ _ _ _ _ _ (SameLowerAndUpperBound j l') H H1 H2 H3) as [E|E].
      + apply in_at_index. left. auto.
      + discriminate.
      + unfold err_lt, key_lt in E. simpl in E. lia.
    - destruct (gtb l' u') eqn:Q; auto. exfalso.
      destruct (earlier_at_same_index_false _ _ _ _ _ _ _ (LowerBoundGreaterThanUpperBound j l' u') H H1 H2 H3) as [E|E].
      + apply in_at_index. right. left. auto.
      + discriminate.
      + unfold err_lt, key_lt in E. simpl in E. lia.
    - destruct (eqb pr' zero) eqn:Q; auto. exfalso.
      destruct (earlier_at_same_index_false _ _ _ _ _ _ _ (PrecisionZero j) H H1 H2 H3) as [E|E].
      + apply in_at_index. right. right. left. auto.
      + discriminate.
      + unfold err_lt, key_lt in E. simpl in E. lia.
  Qed.

  (* every index before the reported one is clean *)
  Lemma earlier_indices_clean : forall b p e j l u pr,
    check_bounds b p = Err e -> S j < fst (err_key e) ->
    nth_error (nth 0 b []) j = Some l -> nth_error (nth 1 b []) j = Some u -> nth_error p j = Some pr ->
    at_index j l u pr = [].
  Proof.
    intros b p e j l u pr H K H1 H2 H3. apply nil_iff_no_in. intros e' He'.
    pose proof (at_index_keys _ _ _ _ _ He') as Kj.
    destruct (earlier_at_same_index_false _ _ _ _ _ _ _ e' H H1 H2 H3 He') as [->|L].
    - lia.
    - unfold err_lt, key_lt in L. lia.
  Qed.
End CheckP.

(* ---- the exact-rational instance: what acceptance means for the values *)
Local Open Scope Q_scope.

Lemma Qgtb_true : forall a b, Qgtb a b = true <-> b < a.
Proof.
  intros. unfold Qgtb. rewrite negb_true_iff. split.
  - intros H. apply Qnot_le_lt. intros L. apply Qle_bool_iff in L. congruence.
  - intros H. destruct (Qle_bool a b) eqn:E; auto. apply Qle_bool_iff in E. exfalso. eapply Qlt_not_le; eauto.
Qed.
Lemma Qgtb_false : forall a b, Qgtb a b = false <-> a <= b.
Proof. intros. unfold Qgtb. rewrite negb_false_iff. apply Qle_bool_iff. Qed.
Lemma Qeq_bool_false : forall a b, Qeq_bool a b = false <-> ~ a == b.
Proof.
  intros. split.
  - intros H E. apply Qeq_bool_iff in E. congruence.
  - intros H. destruct (Qeq_bool a b) eqn:E; auto. apply Qeq_bool_iff in E. tauto.
Qed.

Lemma check_ok_Q_iff : forall b p,
  check_bounds_Q b p = Ok <->
  shape_ok Q b p /\
  forall i l u pr, nth_error (nth 0 b []) i = Some l -> nth_error (nth 1 b []) i = Some u -> nth_error p i = Some pr ->
    l < u /\ ~ pr == 0 /\ pr <= u - l.
Proof.
  intros b p. unfold check_bounds_Q. rewrite check_ok_iff_wellformed. unfold wellformed. split.
  - intros [S W]. split; auto. intros i l u pr H1 H2 H3. destruct (W i l u pr H1 H2 H3) as (A & B & C & D).
    apply Qeq_bool_false in A. apply Qgtb_false in B. apply Qeq_bool_false in C. apply Qgtb_false in D.
    repeat split; auto. apply Qle_lteq in B. tauto.
  - intros [S W]. split; auto. intros i l u pr H1 H2 H3. destruct (W i l u pr H1 H2 H3) as (A & C & D).
    repeat split.
    + apply Qeq_bool_false. intros E. rewrite E in A. eapply Qlt_irrefl; eauto.
    + apply Qgtb_false. apply Qlt_le_weak; auto.
    + apply Qeq_bool_false; auto.
    + apply Qgtb_false; auto.
Qed.

(* ================================================================================================
   2. The grid  l, l+p, ...  with  ceil((u + eps - l)/p)  points. *)
Local Open Scope nat_scope.

Lemma nth_error_map_seq : forall A (f : nat -> A) n s i,
  nth_error (map f (seq s n)) i = if i <? n then Some (f (s + i)) else None.
Proof.
  induction n as [|n IH]; intros s i; simpl.
  - destruct i; reflexivity.
  - destruct i as [|i]; simpl.
    + rewrite Nat.add_0_r. reflexivity.
    + rewrite IH. rewrite <- plus_n_Sm. simpl.
      change (S i <? S n) with (i <? n). reflexivity.
Qed.

Lemma grid_length : forall eps l u p, length (grid_e eps l u p) = grid_len eps l u p.
Proof. intros. unfold grid_e. rewrite map_length, seq_length. reflexivity. Qed.

Lemma grid_nth : forall eps l u p i,
  nth_error (grid_e eps l u p) i = if i <? grid_len eps l u p then Some (grid_elt l p i) else None.
Proof. intros. unfold grid_e. rewrite nth_error_map_seq. reflexivity. Qed.

Lemma grid_nth_some : forall eps l u p i x,
  nth_error (grid_e eps l u p) i = Some x -> i < grid_len eps l u p /\ x = grid_elt l p i.
Proof.
  intros eps l u p i x H. rewrite grid_nth in H. destruct (Nat.ltb_spec i (grid_len eps l u p)); [|discriminate].
  injection H as <-. auto.
Qed.

(* the last element of a list *)
Definition last_of (g : list Q) (x : Q) : Prop := exists k, length g = S k /\ nth_error g k = Some x.

Local Open Scope Q_scope.

Ltac qnorm :=
  change (inject_Z 1) with 1 in *; change (inject_Z 0) with 0 in *;
  repeat match goal with
  | |- context [inject_Z ?z] =>
      let a := fresh "a" in let Heq := fresh "Heq" in remember (inject_Z z) as a eqn:Heq; clear Heq
  | H : context [inject_Z ?z] |- _ =>
      let a := fresh "a" in let Heq := fresh "Heq" in remember (inject_Z z) as a eqn:Heq; clear Heq
  end.
Ltac qlra := qnorm; lra.

Lemma grid_first : forall eps l u p x, nth_error (grid_e eps l u p) 0 = Some x -> x == l.
Proof.
  intros eps l u p x H. apply grid_nth_some in H. destruct H as [_ ->].
  unfold grid_elt, grid_eltZ. simpl. ring.
Qed.

Lemma grid_step : forall eps l u p i x y,
  nth_error (grid_e eps l u p) i = Some x -> nth_error (grid_e eps l u p) (S i) = Some y -> y - x == p.
Proof.
  intros eps l u p i x y Hx Hy. apply grid_nth_some in Hx, Hy. destruct Hx as [_ ->], Hy as [_ ->].
  unfold grid_elt, grid_eltZ. rewrite Nat2Z.inj_succ. unfold Z.succ. rewrite inject_Z_plus. ring.
Qed.

Lemma grid_elt_affine : forall l p i, grid_elt l p i == l + inject_Z (Z.of_nat i) * p.
Proof. intros. reflexivity. Qed.

(* distinct indices give distinct values *)
Lemma grid_elt_injective : forall l p i j, ~ p == 0 -> grid_elt l p i == grid_elt l p j -> i = j.
Proof.
  intros l p i j Hp H. unfold grid_elt, grid_eltZ in H.
  assert (E : (inject_Z (Z.of_nat i) - inject_Z (Z.of_nat j)) * p == 0).
  { setoid_replace ((inject_Z (Z.of_nat i) - inject_Z (Z.of_nat j)) * p)
      with ((l + inject_Z (Z.of_nat i) * p) - (l + inject_Z (Z.of_nat j) * p)) by ring.
    rewrite H. ring. }
  apply Qmult_integral in E. destruct E as [E|E]; [|tauto].
  assert (E' : inject_Z (Z.of_nat i) == inject_Z (Z.of_nat j)).
  { setoid_replace (inject_Z (Z.of_nat i)) with ((inject_Z (Z.of_nat i) - inject_Z (Z.of_nat j)) + inject_Z (Z.of_nat j)) by ring.
    rewrite E. ring. }
  unfold Qeq in E'. simpl in E'. lia.
Qed.

(* ceil facts, multiplied out *)
Lemma ceil_upper : forall x p, 0 < p -> x <= inject_Z (Qceiling (x / p)) * p.
Proof.
  intros x p Hp. pose proof (Qle_ceiling (x / p)) as H.
  assert (E : x == (x / p) * p) by (field; intro Z; rewrite Z in Hp; eapply Qlt_irrefl; eauto).
  rewrite E at 1. apply Qmult_le_compat_r; auto. apply Qlt_le_weak; auto.
Qed.

Lemma ceil_lower : forall x p, 0 < p -> inject_Z (Qceiling (x / p) - 1) * p < x.
Proof.
  intros x p Hp. pose proof (Qceiling_lt (x / p)) as H.
  assert (E : x == (x / p) * p) by (field; intro Z; rewrite Z in Hp; eapply Qlt_irrefl; eauto).
  rewrite E at 2. apply Qmult_lt_compat_r; auto.
Qed.

Lemma grid_len_of_nat : forall eps l u p k, grid_len eps l u p = S k -> grid_lenZ eps l u p = Z.of_nat (S k).
Proof. intros eps l u p k H. unfold grid_len in H. lia. Qed.

(* the point after the last one is at or beyond  u + eps  (also when the grid is empty) *)
Lemma grid_next_beyond_elt : forall eps l u p, 0 < p -> u + eps <= grid_elt l p (grid_len eps l u p).
Proof.
  intros eps l u p Hp. unfold grid_elt, grid_eltZ, grid_len.
  pose proof (ceil_upper (u + eps - l) p Hp) as H. fold (grid_lenZ eps l u p) in H.
  set (n := grid_lenZ eps l u p) in *.
  destruct (Z_lt_le_dec n 0) as [N|N].
  - replace (Z.to_nat n) with 0%nat by lia. simpl.
    assert (A : inject_Z n * p <= 0 * p).
    { apply Qmult_le_compat_r; [|apply Qlt_le_weak; auto]. change 0 with (inject_Z 0). rewrite <- Zle_Qle. lia. }
    qlra.
  - rewrite Z2Nat.id by lia. qlra.
Qed.

Lemma grid_last_lt_elt : forall eps l u p k, 0 < p -> grid_len eps l u p = S k -> grid_elt l p k < u + eps.
Proof.
  intros eps l u p k Hp Hk. apply grid_len_of_nat in Hk.
  pose proof (ceil_lower (u + eps - l) p Hp) as H. fold (grid_lenZ eps l u p) in H.
  rewrite Hk in H. unfold grid_elt, grid_eltZ.
  replace (Z.of_nat (S k) - 1)%Z with (Z.of_nat k) in H by lia. qlra.
Qed.

Lemma last_of_grid : forall eps l u p x,
  last_of (grid_e eps l u p) x -> exists k, grid_len eps l u p = S k /\ x = grid_elt l p k.
Proof.
  intros eps l u p x (k & Hl & Hn). rewrite grid_length in Hl. apply grid_nth_some in Hn.
  exists k. tauto.
Qed.

Lemma grid_last_lt : forall eps l u p x, 0 < p -> last_of (grid_e eps l u p) x -> x < u + eps.
Proof. intros eps l u p x Hp H. apply last_of_grid in H. destruct H as (k & Hk & ->). eapply grid_last_lt_elt; eauto. Qed.

Lemma grid_next_beyond : forall eps l u p x, 0 < p -> last_of (grid_e eps l u p) x -> u + eps <= x + p.
Proof.
  intros eps l u p x Hp H. apply last_of_grid in H. destruct H as (k & Hk & ->).
  pose proof (grid_next_beyond_elt eps l u p Hp) as B. rewrite Hk in B.
  unfold grid_elt, grid_eltZ in *. rewrite Nat2Z.inj_succ in B. unfold Z.succ in B. rewrite inject_Z_plus in B. qlra.
Qed.

(* every element is below u + eps and at or above l *)
Lemma grid_all_in_range : forall eps l u p i x, 0 < p ->
  nth_error (grid_e eps l u p) i = Some x -> l <= x /\ x < u + eps.
Proof.
  intros eps l u p i x Hp H. apply grid_nth_some in H. destruct H as [Hi ->].
  destruct (grid_len eps l u p) as [|k] eqn:Hk; [inversion Hi|].
  pose proof (grid_last_lt_elt eps l u p k Hp Hk) as L.
  unfold grid_elt, grid_eltZ in *.
  assert (A : inject_Z (Z.of_nat i) * p <= inject_Z (Z.of_nat k) * p).
  { apply Qmult_le_compat_r; [|apply Qlt_le_weak; auto]. rewrite <- Zle_Qle. lia. }
  assert (B : 0 <= inject_Z (Z.of_nat i) * p).
  { apply Qmult_le_0_compat; [|apply Qlt_le_weak; auto]. change 0 with (inject_Z 0). rewrite <- Zle_Qle. lia. }
  split; qlra.
Qed.

Lemma grid_len_ge_2 : forall eps l u p, 0 < eps -> 0 < p -> p <= u - l -> (2 <= grid_len eps l u p)%nat.
Proof.
  intros eps l u p He Hp Hr.
  pose proof (ceil_upper (u + eps - l) p Hp) as H. fold (grid_lenZ eps l u p) in H.
  assert (L : 1 * p < inject_Z (grid_lenZ eps l u p) * p) by qlra.
  apply Qmult_lt_r in L; auto.
  change 1 with (inject_Z 1) in L. rewrite <- Zlt_Qlt in L. unfold grid_len. lia.
Qed.

Lemma grid_length_ge_2 : forall eps l u p, 0 < eps -> 0 < p -> p <= u - l -> (2 <= length (grid_e eps l u p))%nat.
Proof. intros. rewrite grid_length. apply grid_len_ge_2; auto. Qed.

(* when the range is a whole number of steps (and the step exceeds eps) the grid ends exactly at u *)
Lemma grid_hits_upper : forall eps l u p k x,
  0 < eps -> eps < p -> u - l == inject_Z k * p -> last_of (grid_e eps l u p) x -> x == u.
Proof.
  intros eps l u p k x He Hep Hk H.
  assert (Hp : 0 < p) by qlra.
  apply last_of_grid in H. destruct H as (j & Hj & ->). apply grid_len_of_nat in Hj.
  pose proof (ceil_upper (u + eps - l) p Hp) as U. pose proof (ceil_lower (u + eps - l) p Hp) as L.
  fold (grid_lenZ eps l u p) in U, L. rewrite Hj in U, L.
  replace (Z.of_nat (S j) - 1)%Z with (Z.of_nat j) in L by lia.
  (* j*p < k*p + eps < (k+1)*p   and   k*p + eps <= (j+1)*p *)
  assert (A : inject_Z (Z.of_nat j) * p < inject_Z (k + 1) * p) by (rewrite inject_Z_plus; simpl; qlra).
  apply Qmult_lt_r in A; auto. rewrite <- Zlt_Qlt in A.
  assert (B : inject_Z k * p < inject_Z (Z.of_nat (S j)) * p) by qlra.
  apply Qmult_lt_r in B; auto. rewrite <- Zlt_Qlt in B.
  assert (E : Z.of_nat j = k) by lia.
  unfold grid_elt, grid_eltZ. rewrite E. qlra.
Qed.

(* and then it has exactly k+1 points *)
Lemma grid_len_multiple : forall eps l u p k,
  0 < eps -> eps < p -> (0 <= k)%Z -> u - l == inject_Z k * p -> grid_len eps l u p = S (Z.to_nat k).
Proof.
  intros eps l u p k He Hep Hk0 Hk.
  assert (Hp : 0 < p) by qlra.
  pose proof (ceil_upper (u + eps - l) p Hp) as U. pose proof (ceil_lower (u + eps - l) p Hp) as L.
  fold (grid_lenZ eps l u p) in U, L.
  assert (A : inject_Z (grid_lenZ eps l u p - 1) * p < inject_Z (k + 1) * p) by (rewrite (inject_Z_plus k 1); simpl; qlra).
  apply Qmult_lt_r in A; auto. rewrite <- Zlt_Qlt in A.
  assert (B : inject_Z k * p < inject_Z (grid_lenZ eps l u p) * p) by qlra.
  apply Qmult_lt_r in B; auto. rewrite <- Zlt_Qlt in B.
  unfold grid_len. lia.
Qed.

(* a negative step yields an empty grid (np.arange semantics), although the cascade accepts it *)
Lemma grid_negative_step_empty : forall eps l u p, p < 0 -> l <= u + eps -> grid_e eps l u p = [].
Proof.
  intros eps l u p Hp Hl. unfold grid_e.
  replace (grid_len eps l u p) with 0%nat; [reflexivity|].
  unfold grid_len, grid_lenZ. symmetry.
  assert (Q : (u + eps - l) / p <= 0).
  { apply Qnot_lt_le. intros R.
    assert (E : (u + eps - l) / p * p == u + eps - l).
    { field. intros Z. rewrite Z in Hp. eapply Qlt_irrefl; eauto. }
    assert (M : 0 < (u + eps - l) / p * (- p)) by (apply Qmult_lt_0_compat; auto; lra).
    remember ((u + eps - l) / p) as r. clear Heqr. lra. }
  assert (C : (Qceiling ((u + eps - l) / p) <= 0)%Z).
  { pose proof (Qceiling_lt ((u + eps - l) / p)) as H.
    assert (H2 : inject_Z (Qceiling ((u + eps - l) / p) - 1) < inject_Z 0) by (simpl; qlra).
    rewrite <- Zlt_Qlt in H2. lia. }
  destruct (Qceiling ((u + eps - l) / p)); simpl; auto; lia.
Qed.

Lemma negative_step_accepted : forall l u p, l < u -> p < 0 -> check_bounds_Q [[l]; [u]] [p] = Ok.
Proof.
  intros l u p Hl Hp. apply check_ok_Q_iff. split; [repeat split|].
  intros [|[|i]] l' u' p' H1 H2 H3; simpl in *; try discriminate.
  injection H1 as <-. injection H2 as <-. injection H3 as <-.
  repeat split; qlra.
Qed.

(* ================================================================================================
   3. Space size = cardinal of the product of the grids. *)
Local Open Scope nat_scope.

Lemma length_flat_map_const : forall A B (f : A -> list B) (l : list A) c,
  (forall x, In x l -> length (f x) = c) -> length (flat_map f l) = length l * c.
Proof.
  induction l as [|a l IH]; intros c H; simpl; auto.
  rewrite app_length, (IH c), (H a); auto; [left; auto | intros; apply H; right; auto].
Qed.

Lemma length_cartesian : forall A (gs : list (list A)),
  length (cartesian gs) = fold_right Nat.mul 1 (map (@length A) gs).
Proof.
  induction gs as [|g gs IH]; simpl; auto.
  rewrite (length_flat_map_const _ _ _ _ (length (cartesian gs))).
  - rewrite IH. reflexivity.
  - intros. apply map_length.
Qed.

Lemma size_of_lens_acc : forall lens a, fold_left Z.mul lens a = (a * fold_right Z.mul 1 lens)%Z.
Proof.
  induction lens as [|n lens IH]; intros a; simpl; [lia|]. rewrite IH. lia.
Qed.

Lemma prod_lengths_Z : forall A (gs : list (list A)),
  Z.of_nat (fold_right Nat.mul 1 (map (@length A) gs)) = fold_right Z.mul 1%Z (map (fun g => Z.of_nat (length g)) gs).
Proof.
  induction gs as [|g gs IH]; [reflexivity|].
  cbn [map fold_right]. rewrite Nat2Z.inj_mul, IH. reflexivity.
Qed.

Lemma space_size_is_cardinal : forall A (gs : list (list A)),
  space_size gs = Z.of_nat (length (cartesian gs)).
Proof.
  intros. unfold space_size, size_of_lens. rewrite size_of_lens_acc, length_cartesian, prod_lengths_Z.
  apply Z.mul_1_l.
Qed.

Lemma space_size_product : forall A (gs : list (list A)),
  space_size gs = fold_right Z.mul 1%Z (map (fun g => Z.of_nat (length g)) gs).
Proof. intros. unfold space_size, size_of_lens. rewrite size_of_lens_acc. lia. Qed.

(* the product contains exactly the tuples with the j-th coordinate on the j-th grid ... *)
Lemma in_cartesian : forall A (gs : list (list A)) (pt : list A),
  In pt (cartesian gs) <-> Forall2 (fun x g => In x g) pt gs.
Proof.
  induction gs as [|g gs IH]; intros pt; simpl.
  - split.
    + intros [<-|[]]. constructor.
    + intros H. inversion H. left; auto.
  - rewrite in_flat_map. split.
    + intros (x & Hx & Hp). apply in_map_iff in Hp. destruct Hp as (r & <- & Hr).
      constructor; auto. apply IH; auto.
    + intros H. inversion H; subst. exists x. split; auto. apply in_map_iff. exists l. split; auto. apply IH; auto.
Qed.

(* ... each exactly once when no grid repeats a value *)
Lemma NoDup_app_intro : forall A (a b : list A),
  NoDup a -> NoDup b -> (forall x, In x a -> ~ In x b) -> NoDup (a ++ b).
Proof.
  induction a as [|x a IH]; simpl; intros b Ha Hb H; auto.
  inversion Ha; subst. constructor.
  - rewrite in_app_iff. intros [I|I]; [tauto|]. eapply H; eauto.
  - apply IH; auto; intros y Hy; apply H; right; auto.
Qed.

Lemma NoDup_map_cons : forall A (x : A) (l : list (list A)), NoDup l -> NoDup (map (cons x) l).
Proof.
  induction l as [|a l IH]; simpl; intros H; [constructor|].
  inversion H; subst. constructor; auto.
  intros I. apply in_map_iff in I. destruct I as (b & E & Hb). injection E as ->. tauto.
Qed.

Lemma NoDup_cartesian : forall A (gs : list (list A)), Forall (@NoDup A) gs -> NoDup (cartesian gs).
Proof.
  induction gs as [|g gs IH]; intros H; simpl.
  - repeat constructor. intros [].
  - inversion H; subst. specialize (IH H3). clear H H3.
    induction g as [|x g IHg]; simpl; [constructor|].
    inversion H2; subst. apply NoDup_app_intro.
    + apply NoDup_map_cons; auto.
    + apply IHg; auto.
    + intros pt Hp Hq. apply in_map_iff in Hp. destruct Hp as (r & <- & _).
      apply in_flat_map in Hq. destruct Hq as (y & Hy & Hq). apply in_map_iff in Hq.
      destruct Hq as (r' & E & _). injection E as -> _. tauto.
Qed.

(* the constructor model: on acceptance, dims grids, each the grid of its (l,u,p) *)
Lemma zip3_length : forall A (a b c : list A), length a = length b -> length c = length a -> length (zip3 a b c) = length c.
Proof.
  induction a as [|x a IH]; intros [|y b] [|z c] H1 H2; simpl in *; try discriminate; auto.
Qed.

Lemma zip3_nth : forall A (a b c : list A) i x y z,
  nth_error a i = Some x -> nth_error b i = Some y -> nth_error c i = Some z -> nth_error (zip3 a b c) i = Some (x, y, z).
Proof.
  induction a as [|x0 a IH]; intros [|y0 b] [|z0 c] [|i] x y z H1 H2 H3; simpl in *; try discriminate.
  - congruence.
  - eapply IH; eauto.
Qed.

Lemma init_Q_ok : forall b p,
  check_bounds_Q b p = Ok ->
  exists gs, init_Q b p = inr (gs, Z.of_nat (length (cartesian gs)), length p) /\ length gs = length p /\
    forall i l u pr, nth_error (nth 0 b []) i = Some l -> nth_error (nth 1 b []) i = Some u -> nth_error p i = Some pr ->
      nth_error gs i = Some (grid l u pr).
Proof.
  intros b p H. unfold init_Q. rewrite H. exists (grids_Q b p). split; [|split].
  - rewrite space_size_is_cardinal. reflexivity.
  - unfold grids_Q. rewrite map_length. apply check_ok_Q_iff in H. destruct H as [(S1 & S2 & S3) _].
    apply zip3_length; auto.
  - intros i l u pr H1 H2 H3. unfold grids_Q. erewrite map_nth_error; [|eapply zip3_nth; eauto]. reflexivity.
Qed.

Lemma init_Q_err : forall b p e, check_bounds_Q b p = Err e -> init_Q b p = inl e.
Proof. intros b p e H. unfold init_Q. rewrite H. reflexivity. Qed.

Lemma eps_impl_pos : (0 < eps_impl)%Q.
Proof. reflexivity. Qed.

Lemma negative_precision_accepted_empty : forall l u p, (l < u)%Q -> (p < 0)%Q ->
  check_bounds_Q [[l]; [u]] [p] = Ok /\ grid l u p = [].
Proof.
  intros l u p H1 H2. split; [apply negative_step_accepted; auto|].
  apply grid_negative_step_empty; auto. pose proof eps_impl_pos. lra.
Qed.

(* ------------------------------------------------------------------------------------------------
   Round 4: the nudge is a binary64 addition.  When it is absorbed (eff_eps = 0) the grid is arange(l, u, p): the
   upper bound is never a grid point, and a range of exactly k steps yields k points (not k+1). *)
From Coq Require Import Floats.
Local Open Scope Q_scope.
Lemma without_nudge_upper_excluded : forall l u p i x, 0 < p ->
  nth_error (grid_e 0 l u p) i = Some x -> x < u.
Proof.
  intros l u p i x Hp H. destruct (grid_all_in_range 0 l u p i x Hp H) as [_ B]. lra.
Qed.

Lemma without_nudge_len_multiple : forall l u p k, 0 < p -> (0 <= k)%Z -> u - l == inject_Z k * p ->
  grid_len 0 l u p = Z.to_nat k.
Proof.
  intros l u p k Hp Hk H. unfold grid_len, grid_lenZ.
  assert (E : (u + 0 - l) / p == inject_Z k).
  { assert (N : ~ p == 0) by lra.
    setoid_replace (u + 0 - l) with (inject_Z k * p) by (rewrite <- H; ring).
    field. exact N. }
  rewrite E. rewrite Qceiling_Z. reflexivity.
Qed.

(* witness: bounds [0, 2e9], precision 1e9 (all exactly representable; the range is exactly 2 steps) *)
Lemma hits_upper_refuted_far_from_origin : exists l u p : float,
  check_bounds_F [[l]; [u]] [p] = Ok /\ F2Q u - F2Q l == inject_Z 2 * F2Q p /\ (0 < F2Q p) /\
  nudge_absorbed u = true /\ eff_eps u == 0 /\
  grid_len (eff_eps u) (F2Q l) (F2Q u) (F2Q p) = 2%nat /\
  forall x, In x (grid_e (eff_eps u) (F2Q l) (F2Q u) (F2Q p)) -> x < F2Q u.
Proof.
  exists 0%float, 0x1.dcd65p+30%float, 0x1.dcd65p+29%float.
  split; [vm_compute; reflexivity|].
  split; [vm_compute; reflexivity|].
  split; [vm_compute; reflexivity|].
  split; [vm_compute; reflexivity|].
  split; [vm_compute; reflexivity|].
  split; [vm_compute; reflexivity|].
  intros x Hx. vm_compute in Hx. destruct Hx as [<-|[<-|[]]]; vm_compute; reflexivity.
Qed.
