(* Lemmas about Model/Samplers.v (property C03).  Reuses Proofs/SnapP.v (C17) and Proofs/DedupP.v (C12). *)
From Coq Require Import List ZArith QArith Qround Qminmax Qabs Bool Arith Lia Lqa Floats.
From BlackIt Require Import Model.Snap Model.Dedup Model.Samplers Proofs.SnapP Proofs.DedupP.
Import ListNotations.
Local Close Scope Q_scope.

(* ------------------------------------------------------------------ Part 1: one batch, any numeric type *)
Section Rows.
  Variable num : Type.
  Variable zero : num.
  Variable ltb : num -> num -> bool.
  Variable absdiff : num -> num -> num.
  Notation snap_rows := (snap_rows num zero ltb absdiff).
  Notation index_row := (index_row num zero).
  Notation index_rows := (index_rows num zero).
  Notation on_grid := (on_grid num).
  Notation idx_in_range := (idx_in_range num).

  Lemma snap_rows_cell_on_grid raw grids :
    Forall (fun g => g <> []) grids -> width num raw <= length grids ->
    forall r c, r < length raw -> c < width num raw ->
    In (cell num zero r c (snap_rows raw grids)) (nth c grids []).
  Proof. unfold Samplers.snap_rows. apply digitize_on_grid. Qed.

  Lemma snap_rows_shape raw grids :
    length (snap_rows raw grids) = length raw /\
    Forall (fun row => length row = width num raw) (snap_rows raw grids).
  Proof. unfold Samplers.snap_rows. apply digitize_shape. Qed.

  (* rows: arbitrary VALUES in raw; only its numpy shape (k x dims) is used *)
  Lemma snap_rows_on_grid raw grids :
    Forall (fun g => g <> []) grids -> Forall (fun row => length row = length grids) raw ->
    Forall (on_grid grids) (snap_rows raw grids).
  Proof.
    intros Hne Hw. unfold Samplers.snap_rows, Samplers.on_grid. destruct raw as [|row0 raw'].
    - cbn. constructor.
    - apply digitize_rows_in_product; [exact Hne|]. inversion Hw; subst. unfold width. cbn. symmetry. assumption.
  Qed.

  Lemma on_grid_length grids row : on_grid grids row -> length row = length grids.
  Proof. unfold Samplers.on_grid. induction 1; cbn; congruence. Qed.

  Lemma on_grid_cell grids row c : on_grid grids row -> c < length grids -> In (nth c row zero) (nth c grids []).
  Proof.
    unfold Samplers.on_grid. intros H. revert c. induction H as [|x g row' grids' Hx H IH]; intros c Hc; cbn in *; [lia|].
    destruct c as [|c]; [exact Hx | apply IH; lia].
  Qed.

  Lemma index_row_on_grid grids irow : idx_in_range grids irow -> on_grid grids (index_row grids irow).
  Proof.
    unfold Samplers.idx_in_range, Samplers.on_grid, Samplers.index_row.
    induction 1 as [|i g irow' grids' Hi H IH]; cbn; constructor; [|exact IH].
    cbn. apply nth_In. exact Hi.
  Qed.

  Lemma index_rows_on_grid grids idx : Forall (idx_in_range grids) idx -> Forall (on_grid grids) (index_rows grids idx).
  Proof. unfold Samplers.index_rows. intros H. apply Forall_map. eapply Forall_impl; [|exact H]. apply index_row_on_grid. Qed.

  Lemma index_rows_length grids idx : length (index_rows grids idx) = length idx.
  Proof. unfold Samplers.index_rows. apply map_length. Qed.

  Lemma index_rows_spec grids idx : Forall (idx_in_range grids) idx ->
    length (index_rows grids idx) = length idx /\ Forall (on_grid grids) (index_rows grids idx).
  Proof. intros H. split; [apply index_rows_length | now apply index_rows_on_grid]. Qed.

  Lemma on_grid_coordinates grids row : on_grid grids row ->
    length row = length grids /\ forall c, c < length grids -> In (nth c row zero) (nth c grids []).
  Proof. intros H. split; [now apply on_grid_length | intros c; now apply on_grid_cell]. Qed.
End Rows.

(* ------------------------------------------------------------------ de-duplication: rows come from the draws *)
Lemma set_nth_In i v s p : In p (set_nth i v s) -> p = v \/ In p s.
Proof. revert i; induction s as [|x r IH]; intros [|i] H; cbn in *; try tauto.
  - destruct H as [H|H]; [left; congruence | right; now right].
  - destruct H as [H|H]; [right; now left|]. apply IH in H. tauto. Qed.

Lemma substitute_In s pos news p : In p (substitute s pos news) -> In p s \/ In p news.
Proof. revert s news; induction pos as [|i pos IH]; intros s [|v news] H; cbn in *; try tauto.
  apply IH in H. destruct H as [H|H]; [|right; now right].
  apply set_nth_In in H. destruct H as [->|H]; [right; now left | now left]. Qed.

Section Draws.
  Variable St : Type.
  Variable gen : St -> nat -> list point * St.

  Lemma passes_rows_from_draws h : forall budget s st p,
    In p (fst (fst (passes St gen budget h s st))) -> In p (s ++ concat (redraws St gen budget h s st)).
  Proof.
    induction budget as [|b IH]; intros s st p; cbn [passes redraws].
    - cbn. rewrite app_nil_r. auto.
    - destruct (dup_positions h s) as [|i0 d0] eqn:E.
      + cbn. rewrite app_nil_r. auto.
      + destruct (gen st (length (i0 :: d0))) as [news st'] eqn:G.
        specialize (IH (substitute s (i0 :: d0) news) st' p).
        destruct (passes St gen b h (substitute s (i0 :: d0) news) st') as [[out st''] fl] eqn:P.
        cbn [fst]. intros Hin. cbn [fst] in IH. apply IH in Hin. cbn [concat].
        rewrite !in_app_iff in *. destruct Hin as [Hin|Hin]; [|tauto].
        apply substitute_In in Hin. tauto.
  Qed.

  Lemma sample_rows_from_draws bsize budget h st p :
    In p (output St (sample St gen bsize budget h st)) ->
    In p (first_draw St gen bsize st ++ concat (sample_redraws St gen bsize budget h st)).
  Proof.
    unfold Dedup.sample, first_draw, sample_redraws, Dedup.output. destruct (gen st bsize) as [s st1]. cbn [fst].
    apply passes_rows_from_draws.
  Qed.

  Lemma sample_dedup_closed (P : point -> Prop) bsize budget h st :
    Forall P (first_draw St gen bsize st) ->
    Forall (Forall P) (sample_redraws St gen bsize budget h st) ->
    Forall P (output St (sample St gen bsize budget h st)).
  Proof.
    intros H1 H2. apply Forall_forall. intros p Hp. apply sample_rows_from_draws in Hp.
    apply in_app_iff in Hp. destruct Hp as [Hp|Hp].
    - rewrite Forall_forall in H1. now apply H1.
    - apply in_concat in Hp. destruct Hp as [news [Hn Hp]].
      rewrite Forall_forall in H2. specialize (H2 news Hn). rewrite Forall_forall in H2. now apply H2.
  Qed.

  (* every redraw that is performed is a value of gen *)
  Lemma redraws_are_gen h : forall budget s st news,
    In news (redraws St gen budget h s st) -> exists st0 n, news = fst (gen st0 n).
  Proof.
    induction budget as [|b IH]; intros s st news; cbn [redraws]; [cbn; tauto|].
    destruct (dup_positions h s) as [|i0 d0]; [cbn; tauto|].
    destruct (gen st (length (i0 :: d0))) as [nw st'] eqn:G. intros [<-|Hin].
    - exists st, (length (i0 :: d0)). now rewrite G.
    - eapply IH; eauto.
  Qed.

  Lemma sample_closed_under_gen (P : point -> Prop) bsize budget h st :
    (forall st n, Forall P (fst (gen st n))) -> Forall P (output St (sample St gen bsize budget h st)).
  Proof.
    intros Hg. apply sample_dedup_closed; [apply Hg|].
    apply Forall_forall. intros news Hin. unfold sample_redraws in Hin. destruct (gen st bsize) as [s st1].
    apply redraws_are_gen in Hin. destruct Hin as [st0 [n ->]]. apply Hg.
  Qed.
End Draws.

(* ------------------------------------------------------------------ Part 2: the nine samplers *)
Section Samplers.
  Variable ltb : Z -> Z -> bool.
  Variable absdiff : Z -> Z -> Z.
  Variable grids : list (list Z).
  Variables St Hist : Type.
  Variable points_of : Hist -> list point.
  Variable raw_of : cls -> St -> Hist -> nat -> list (list Z) * St.
  Variable idx_of : St -> Hist -> nat -> list (list nat) * St.
  Notation sample_batch := (sample_batch ltb absdiff grids St Hist raw_of idx_of).
  Notation gen_of := (gen_of ltb absdiff grids St Hist raw_of idx_of).
  Notation sampler_sample := (sampler_sample ltb absdiff grids St Hist points_of raw_of idx_of).
  Notation run_calls := (run_calls ltb absdiff grids St Hist points_of raw_of idx_of).
  Notation on_gridZ := (on_grid Z grids).

  (* numpy shape contracts of what precedes the last step (values are arbitrary) *)
  Definition raw_width_ok : Prop := forall c st h n, Forall (fun row => length row = length grids) (fst (raw_of c st h n)).
  Definition raw_rows_ok : Prop := forall c st h n, length (fst (raw_of c st h n)) = n.
  Definition idx_ok : Prop := forall st h n, Forall (idx_in_range Z grids) (fst (idx_of st h n)).
  Definition idx_rows_ok : Prop := forall st h n, length (fst (idx_of st h n)) = n.

  Hypothesis Hne : Forall (fun g : list Z => g <> []) grids.

  Lemma sample_batch_on_grid c st h n : raw_width_ok -> idx_ok -> Forall on_gridZ (fst (sample_batch c st h n)).
  Proof.
    intros Hw Hi. unfold Samplers.sample_batch. destruct (last_step_of c).
    - specialize (Hw c st h n). destruct (raw_of c st h n) as [raw st']. cbn [fst] in *. now apply snap_rows_on_grid.
    - specialize (Hi st h n). destruct (idx_of st h n) as [idx st']. cbn [fst] in *. now apply index_rows_on_grid.
  Qed.

  Lemma sample_batch_length c st h n : raw_rows_ok -> idx_rows_ok -> length (fst (sample_batch c st h n)) = n.
  Proof.
    intros Hr Hi. unfold Samplers.sample_batch. destruct (last_step_of c).
    - specialize (Hr c st h n). destruct (raw_of c st h n) as [raw st']. cbn [fst] in *.
      unfold Samplers.snap_rows. transitivity (length raw); [apply digitize_length | exact Hr].
    - specialize (Hi st h n). destruct (idx_of st h n) as [idx st']. cbn [fst] in *.
      transitivity (length idx); [apply index_rows_length | exact Hi].
  Qed.

  Lemma sampler_sample_on_grid c bsize budget h st : raw_width_ok -> idx_ok ->
    Forall on_gridZ (output St (sampler_sample c bsize budget h st)).
  Proof. intros Hw Hi. unfold Samplers.sampler_sample. apply sample_closed_under_gen. intros st0 n. now apply sample_batch_on_grid. Qed.

  Lemma sampler_sample_shape c bsize budget h st : raw_width_ok -> idx_ok -> raw_rows_ok -> idx_rows_ok ->
    length (output St (sampler_sample c bsize budget h st)) = bsize /\
    Forall (fun p => length p = length grids) (output St (sampler_sample c bsize budget h st)).
  Proof.
    intros Hw Hi Hr Hir. unfold Samplers.sampler_sample. apply sample_shape.
    - intros st0 n. now apply sample_batch_length.
    - intros st0 n. eapply Forall_impl; [|now apply (sample_batch_on_grid c st0 h n)]. intros row. apply on_grid_length.
  Qed.

  Lemma run_calls_on_grid c bsize budget : raw_width_ok -> idx_ok -> forall calls st,
    Forall (Forall on_gridZ) (run_calls c bsize budget calls st).
  Proof.
    intros Hw Hi. induction calls as [|h rest IH]; intros st; cbn [Samplers.run_calls]; constructor.
    - now apply sampler_sample_on_grid.
    - apply IH.
  Qed.

  Lemma run_calls_main c bsize budget : raw_width_ok -> idx_ok -> raw_rows_ok -> idx_rows_ok -> forall calls st,
    Forall (fun batch => length batch = bsize /\ Forall on_gridZ batch) (run_calls c bsize budget calls st).
  Proof.
    intros Hw Hi Hr Hir. induction calls as [|h rest IH]; intros st; cbn [Samplers.run_calls]; constructor.
    - split; [now apply sampler_sample_shape | now apply sampler_sample_on_grid].
    - apply IH.
  Qed.

  Lemma run_calls_length c bsize budget : forall calls st, length (run_calls c bsize budget calls st) = length calls.
  Proof. induction calls as [|h rest IH]; intros st; cbn [Samplers.run_calls length]; [reflexivity | now rewrite IH]. Qed.
End Samplers.

(* ------------------------------------------------------------------ Part 3: one object, reconfigured between calls *)
Section Reconfigured.
  Variable ltb : Z -> Z -> bool.
  Variable absdiff : Z -> Z -> Z.
  Variables St Hist : Type.
  Variable points_of : Hist -> list point.
  Variable raw_of : list (list Z) -> cls -> St -> Hist -> nat -> list (list Z) * St.
  Variable idx_of : list (list Z) -> St -> Hist -> nat -> list (list nat) * St.
  Notation run_ssteps := (run_ssteps ltb absdiff St Hist points_of raw_of idx_of).
  Notation sstep := (sstep St Hist).

  (* the numpy shape contracts, for whatever space is in force at the call *)
  Definition contracts_any_space : Prop := forall g, Forall (fun x : list Z => x <> []) g ->
    raw_width_ok g St Hist (raw_of g) /\ idx_ok g St Hist (idx_of g) /\
    raw_rows_ok St Hist (raw_of g) /\ idx_rows_ok St Hist (idx_of g).
  Definition width_contracts_any_space : Prop := forall g, Forall (fun x : list Z => x <> []) g ->
    raw_width_ok g St Hist (raw_of g) /\ idx_ok g St Hist (idx_of g).

  (* every space the object is ever used on has non-empty grids (SearchSpace validation) *)
  Definition spaces_ok (steps : list sstep) : Prop :=
    Forall (fun s => match s with SCall g _ _ _ => Forall (fun x : list Z => x <> []) g | SFailed _ => True end) steps.

  Lemma run_steps_on_grid c : width_contracts_any_space -> forall steps st, spaces_ok steps ->
    Forall (fun e => Forall (on_grid Z (fst (fst e))) (snd e)) (run_ssteps c steps st).
  Proof.
    intros Hc. induction steps as [|[g bsize budget h|f] rest IH]; intros st Hs; cbn [Samplers.run_ssteps].
    - constructor.
    - inversion Hs as [|? ? Hg Hrest]; subst. destruct (Hc g Hg) as [Hw Hi]. constructor.
      + cbn [fst snd]. now apply sampler_sample_on_grid.
      + now apply IH.
    - inversion Hs; subst. now apply IH.
  Qed.

  Lemma run_steps_main c : contracts_any_space -> forall steps st, spaces_ok steps ->
    Forall (fun e => length (snd e) = snd (fst e) /\ Forall (on_grid Z (fst (fst e))) (snd e) /\
                     Forall (fun p => length p = length (fst (fst e))) (snd e)) (run_ssteps c steps st).
  Proof.
    intros Hc. induction steps as [|[g bsize budget h|f] rest IH]; intros st Hs; cbn [Samplers.run_ssteps].
    - constructor.
    - inversion Hs as [|? ? Hg Hrest]; subst. destruct (Hc g Hg) as [Hw [Hi [Hr Hir]]]. constructor.
      + cbn [fst snd].
        destruct (sampler_sample_shape ltb absdiff g St Hist points_of (raw_of g) (idx_of g) Hg c bsize budget h st Hw Hi Hr Hir)
          as [Hl Hd].
        split; [exact Hl|]. split; [now apply sampler_sample_on_grid | exact Hd].
      + now apply IH.
    - inversion Hs; subst. now apply IH.
  Qed.

  (* one log entry per successful call, none for a failed one, in order *)
  Lemma run_steps_length c : forall steps st, length (run_ssteps c steps st) = scalls_of St Hist steps.
  Proof.
    unfold scalls_of. induction steps as [|[g bsize budget h|f] rest IH]; intros st; cbn [Samplers.run_ssteps filter length].
    - reflexivity.
    - now rewrite IH.
    - apply IH.
  Qed.

  Lemma run_steps_spaces c : forall steps st,
    map (fun e => (fst (fst e), snd (fst e))) (run_ssteps c steps st) =
    concat (map (fun s => match s with SCall g b _ _ => [(g, b)] | SFailed _ => [] end) steps).
  Proof.
    induction steps as [|[g bsize budget h|f] rest IH]; intros st; cbn [Samplers.run_ssteps map concat app].
    - reflexivity.
    - cbn [fst snd]. now rewrite IH.
    - apply IH.
  Qed.
End Reconfigured.

(* ------------------------------------------------------------------ FINDING: the row-count clause really needs raw_rows_ok.
   surrogate.py:128 `candidates[sorting_indices][:batch_size]` yields min(pool, batch_size) rows; with a candidate pool of 2 rows
   and batch_size 4 the widths are fine (so every row is on the grid) but only 2 rows come back. *)
Definition short_pool_raw (c : cls) (st : unit) (h : unit) (n : nat) : list (list Z) * unit :=
  (firstn n [[1; -7]; [4; 100]]%Z, tt).
Definition short_pool_idx (st : unit) (h : unit) (n : nat) : list (list nat) * unit := (repeat [0; 0] n, tt).
Definition short_pool_grids : list (list Z) := [[0; 3; 6; 9]; [-10; -5; 0; 5; 10]]%Z.

Lemma short_pool_counterexample :
  Forall (fun g : list Z => g <> []) short_pool_grids /\
  raw_width_ok short_pool_grids unit unit short_pool_raw /\ idx_ok short_pool_grids unit unit short_pool_idx /\
  idx_rows_ok unit unit short_pool_idx /\
  output unit (sampler_sample Z.ltb (fun a b => Z.abs (a - b)) short_pool_grids unit unit (fun _ => []) short_pool_raw
                              short_pool_idx XGBoost 4 0 tt tt) = [[0; -5]; [3; 10]]%Z.
Proof.
  split; [repeat constructor; discriminate|]. split.
  - intros c st h n. unfold short_pool_raw. cbn [fst]. destruct n as [|[|n]]; cbn; rewrite ?firstn_nil; repeat constructor.
  - split; [|split].
    + intros st h n. unfold short_pool_idx. cbn [fst]. apply Forall_forall. intros x Hx. apply repeat_spec in Hx. subst.
      unfold idx_in_range, short_pool_grids. repeat constructor; cbn; lia.
    + intros st h n. unfold short_pool_idx. cbn [fst]. apply repeat_length.
    + vm_compute. reflexivity.
Qed.

Lemma short_pool_shape_refuted :
  exists (grids : list (list Z)) (raw_of : cls -> unit -> unit -> nat -> list (list Z) * unit)
         (idx_of : unit -> unit -> nat -> list (list nat) * unit) (c : cls) (bsize : nat),
    Forall (fun g : list Z => g <> []) grids /\ raw_width_ok grids unit unit raw_of /\ idx_ok grids unit unit idx_of /\
    idx_rows_ok unit unit idx_of /\
    length (output unit (sampler_sample Z.ltb (fun a b => Z.abs (a - b)) grids unit unit (fun _ => []) raw_of idx_of
                                        c bsize 0 tt tt)) <> bsize /\
    Forall (on_grid Z grids) (output unit (sampler_sample Z.ltb (fun a b => Z.abs (a - b)) grids unit unit (fun _ => []) raw_of
                                                          idx_of c bsize 0 tt tt)).
Proof.
  exists short_pool_grids, short_pool_raw, short_pool_idx, XGBoost, 4.
  destruct short_pool_counterexample as [H1 [H2 [H3 [H4 H5]]]].
  repeat (split; [assumption|]). split.
  - rewrite H5. cbn. discriminate.
  - now apply sampler_sample_on_grid.
Qed.

(* ------------------------------------------------------------------ the grid never leaves [l, u + 1e-7) *)
Local Open Scope Q_scope.

Lemma Qceiling_gt x : (inject_Z (Qceiling x) - 1 < x)%Q.
Proof.
  unfold Qceiling. pose proof (Qfloor_le (- x)) as H. rewrite inject_Z_opp.
  pose proof (Qlt_floor (- x)) as H2. rewrite inject_Z_plus in H2. change (inject_Z 1) with 1 in H2. lra.
Qed.

Lemma grid_elem_in_bounds l u p i : 0 < p -> (i < grid_len l u p)%nat ->
  l <= grid_elem l p i /\ grid_elem l p i < u + end_tol.
Proof.
  intros Hp Hi. unfold grid_len, grid_elem in *.
  set (x := (u + end_tol - l) / p) in *.
  assert (Hz : (Z.of_nat i < Qceiling x)%Z) by lia.
  assert (Hq : inject_Z (Z.of_nat i) <= inject_Z (Qceiling x) - 1).
  { assert ((Z.of_nat i + 1 <= Qceiling x)%Z) as Hle by lia. rewrite Zle_Qle in Hle.
    rewrite inject_Z_plus in Hle. change (inject_Z 1) with 1 in Hle. lra. }
  pose proof (Qceiling_gt x) as Hc.
  assert (Hix : inject_Z (Z.of_nat i) < x) by lra.
  assert (H0 : 0 <= inject_Z (Z.of_nat i)).
  { change 0 with (inject_Z 0). rewrite <- Zle_Qle. lia. }
  split.
  - assert (0 <= inject_Z (Z.of_nat i) * p) by (apply Qmult_le_0_compat; lra). lra.
  - assert (Hm : inject_Z (Z.of_nat i) * p < x * p) by (apply Qmult_lt_compat_r; assumption).
    assert (Hx : x * p == u + end_tol - l). { unfold x. field. lra. }
    lra.
Qed.

Lemma gridQ_in_bounds l u p x : 0 < p -> In x (gridQ l u p) -> l <= x /\ x < u + end_tol.
Proof.
  intros Hp Hin. unfold gridQ in Hin. apply in_map_iff in Hin. destruct Hin as [i [<- Hi]].
  apply in_seq in Hi. apply grid_elem_in_bounds; [exact Hp | lia].
Qed.

Lemma gridQ_length l u p : length (gridQ l u p) = grid_len l u p.
Proof. unfold gridQ. now rewrite map_length, seq_length. Qed.

Lemma gridQ_nth l u p i : (i < grid_len l u p)%nat -> nth i (gridQ l u p) 0 = grid_elem l p i.
Proof.
  intros Hi. unfold gridQ. rewrite nth_indep with (d' := grid_elem l p 0) by (now rewrite map_length, seq_length).
  rewrite map_nth. now rewrite seq_nth.
Qed.

(* ------------------------------------------------------------------ historical: clip-without-snap leaves the grid *)
Lemma best_batch_unsnapped_off_grid :
  exists (l u delta x : Q) (k : Z),
    0 < delta /\ delta <= u - l /\ (exists g, In g (gridQ l u delta) /\ g == x) /\
    l <= best_batch_unsnapped x k delta l u <= u /\
    ~ (exists g, In g (gridQ l u delta) /\ g == best_batch_unsnapped x k delta l u).
Proof.
  exists 0, 1, (3 # 10), (9 # 10), 1%Z.
  split; [reflexivity|]. split; [unfold Qle; cbn; lia|]. split.
  - exists (grid_elem 0 (3 # 10) 3). split; [|reflexivity]. vm_compute. tauto.
  - split; [split; vm_compute; discriminate|].
    intros [g [Hin Heq]]. vm_compute in Hin.
    repeat (destruct Hin as [<-|Hin]; [vm_compute in Heq; discriminate|]). exact Hin.
Qed.
