(* Attributes reassigned after construction (Model/CalibX.v): the reassignment changes nothing but the attribute, and the
   assigned value is the one every later batch reads.  The theorems of C09 / C14 / C18 about one_batch / batches /
   calibrate / step are universally quantified over the state they start from, so they apply verbatim to the state
   after a reassignment; the lemmas below say what that state is. *)
From Coq Require Import List ZArith Bool Arith Lia.
From BlackIt Require Import Model.Calibrator Model.CalibX Proofs.CalibratorP.
Import ListNotations.

Section XP.
  Variables (Param Series LossV : Type).
  Variable model : Param -> Z -> Series.
  Variable lossf : list Series -> LossV.
  Variable loss_leb : LossV -> LossV -> bool.
  Variable rounds0 : LossV -> nat -> bool.
  Variable propose : sampler -> list Param -> list LossV -> list Param.
  Variable draws : nat -> Z.
  Variable agent_actions : nat -> nat.
  Variable plan : fault.

  Notation core := (core Param Series LossV).
  Notation cstate := (cstate Param Series LossV).
  Notation one_batch := (one_batch Param Series LossV model lossf loss_leb rounds0 propose draws agent_actions plan).
  Notation batches := (batches Param Series LossV model lossf loss_leb rounds0 propose draws agent_actions plan).
  Notation calibrate_pos := (calibrate_pos Param Series LossV model lossf loss_leb rounds0 propose draws agent_actions plan).
  Notation calibrate := (calibrate Param Series LossV model lossf loss_leb rounds0 propose draws agent_actions plan).
  Notation xstep := (xstep Param Series LossV model lossf loss_leb rounds0 propose draws agent_actions plan).

  Ltac split_matches H :=
    repeat match type of H with
           | context [match ?x with _ => _ end] => destruct x eqn:?
           end.

  (* ---- the configuration is read, never written, by the batch loop ---- *)
  Lemma one_batch_cfg s s' o : one_batch s = (s', o) -> cfg _ _ _ (live _ _ _ s') = cfg _ _ _ (live _ _ _ s).
  Proof.
    unfold one_batch. intros H. cbv zeta in H.
    split_matches H; inversion H; subst; reflexivity.
  Qed.

  Lemma batches_cfg : forall n s s' o, batches n s = (s', o) -> cfg _ _ _ (live _ _ _ s') = cfg _ _ _ (live _ _ _ s).
  Proof.
    induction n as [|n IH]; intros s s' o H; cbn in H.
    - now inversion H.
    - destruct (one_batch s) as [s1 o1] eqn:E1. pose proof (one_batch_cfg _ _ _ E1) as C1.
      destruct o1; try (inversion H; subst; exact C1).
      rewrite <- C1. eapply IH; eauto.
  Qed.

  Lemma seeds_cfg (c : core) : cfg _ _ _ (set_samplers_seeds _ _ _ draws c) = cfg _ _ _ c.
  Proof. unfold set_samplers_seeds. destruct (sch _ _ _ c); reflexivity. Qed.

  Lemma calibrate_pos_cfg n s s' e r : calibrate_pos n s = (s', e, r) -> cfg _ _ _ (live _ _ _ s') = cfg _ _ _ (live _ _ _ s).
  Proof.
    unfold calibrate_pos. intros H. cbv zeta in H.
    set (c1 := if Nat.eqb (batch_idx _ _ _ (live _ _ _ s)) 0 then set_samplers_seeds _ _ _ draws (live _ _ _ s) else live _ _ _ s) in *.
    assert (C1 : cfg _ _ _ c1 = cfg _ _ _ (live _ _ _ s)).
    { unfold c1. destruct (Nat.eqb _ 0); [apply seeds_cfg | reflexivity]. }
    destruct (start_session LossV (sch _ _ _ c1)) as [sc|e0] eqn:Es.
    - destruct (batches n _) as [s2 o2] eqn:Eb. apply batches_cfg in Eb. cbn in Eb.
      destruct o2; destruct (end_session LossV (sch _ _ _ (live _ _ _ s2))); inversion H; subst; cbn; congruence.
    - inversion H; subst. exact C1.
  Qed.

  Lemma calibrate_cfg n s s' e r : calibrate n s = (s', e, r) -> cfg _ _ _ (live _ _ _ s') = cfg _ _ _ (live _ _ _ s).
  Proof.
    unfold calibrate. destruct n.
    - unfold zero_ckpt. destruct (calibrate_pos 0 s) as [[s1 e1] r1] eqn:E. apply calibrate_pos_cfg in E.
      intros H. destruct e1; [inversion H; subst; exact E|].
      destruct (c_saving _); [destruct (save _ _ _ _) | ]; inversion H; subst; exact E.
    - apply calibrate_pos_cfg.
  Qed.

  (* ---- calibrator.convergence_precision / verbose / saving_folder reassigned ---- *)
  Theorem xsetcfg_frame s p v sv s1 e r : xstep s (XSetCfg p v sv) = (s1, e, r) ->
    e = None /\ r = [] /\ disk _ _ _ s1 = disk _ _ _ s /\
    records _ _ _ (live _ _ _ s1) = records _ _ _ (live _ _ _ s) /\
    sch _ _ _ (live _ _ _ s1) = sch _ _ _ (live _ _ _ s) /\ tbl _ _ _ (live _ _ _ s1) = tbl _ _ _ (live _ _ _ s) /\
    rng_pos _ _ _ (live _ _ _ s1) = rng_pos _ _ _ (live _ _ _ s) /\
    cfg _ _ _ (live _ _ _ s1) = mkCfg (c_E (cfg _ _ _ (live _ _ _ s))) p v sv.
  Proof. cbn. intros H. inversion H; subst. cbn. repeat split. Qed.

  (* the assigned precision (and flags) are the ones in force during every later batch of a calibrate() call *)
  Theorem xsetcfg_in_force s p v sv s1 e r n s' e' r' : xstep s (XSetCfg p v sv) = (s1, e, r) ->
    calibrate n s1 = (s', e', r') ->
    cfg _ _ _ (live _ _ _ s') = mkCfg (c_E (cfg _ _ _ (live _ _ _ s))) p v sv.
  Proof.
    intros H1 H2. apply calibrate_cfg in H2. rewrite H2.
    apply xsetcfg_frame in H1. tauto.
  Qed.

  Theorem xsetcfg_in_force_batches s p v sv s1 e r n s' o : xstep s (XSetCfg p v sv) = (s1, e, r) ->
    batches n s1 = (s', o) ->
    c_prec (cfg _ _ _ (live _ _ _ s')) = p /\ c_verbose (cfg _ _ _ (live _ _ _ s')) = v /\ c_saving (cfg _ _ _ (live _ _ _ s')) = sv.
  Proof.
    intros H1 H2. apply batches_cfg in H2. rewrite H2.
    apply xsetcfg_frame in H1. destruct H1 as (_ & _ & _ & _ & _ & _ & _ & ->). cbn. auto.
  Qed.

  (* ---- sampler.batch_size reassigned ---- *)
  Lemma set_bsize_keeps u b m : s_class (set_bsize u b m) = s_class m /\ s_uid (set_bsize u b m) = s_uid m /\
    s_calls (set_bsize u b m) = s_calls m /\ s_seed (set_bsize u b m) = s_seed m /\
    s_bsize (set_bsize u b m) = if Nat.eqb (s_uid m) u then b else s_bsize m.
  Proof. unfold set_bsize. destruct (Nat.eqb (s_uid m) u); cbn; auto. Qed.

  Theorem xsetbsize_frame s u b s1 e r : xstep s (XSetBsize u b) = (s1, e, r) ->
    e = None /\ r = [] /\ disk _ _ _ s1 = disk _ _ _ s /\
    records _ _ _ (live _ _ _ s1) = records _ _ _ (live _ _ _ s) /\
    cfg _ _ _ (live _ _ _ s1) = cfg _ _ _ (live _ _ _ s) /\ tbl _ _ _ (live _ _ _ s1) = tbl _ _ _ (live _ _ _ s) /\
    rng_pos _ _ _ (live _ _ _ s1) = rng_pos _ _ _ (live _ _ _ s) /\
    sched_samplers _ (sch _ _ _ (live _ _ _ s1)) = map (set_bsize u b) (sched_samplers _ (sch _ _ _ (live _ _ _ s))).
  Proof.
    cbn. intros H. inversion H; subst. cbn. repeat split.
    destruct (sch _ _ _ (live _ _ _ s)); reflexivity.
  Qed.

  Lemma rr_next_inv (l : list sampler) b0 i (sc1 : sched LossV) :
    next_sampler LossV agent_actions (RR LossV l b0) = Some (i, sc1) -> i = b0 mod length l /\ sc1 = RR LossV l b0 /\ l <> [].
  Proof. unfold next_sampler. destruct l; [discriminate|]. intros H. injection H as <- <-. repeat split. discriminate. Qed.

  (* the sampler designated for the next batch keeps its position and identity; its batch size is the assigned one *)
  Theorem xsetbsize_designation s u b s1 e r i sc1 : xstep s (XSetBsize u b) = (s1, e, r) ->
    next_sampler LossV agent_actions (sch _ _ _ (live _ _ _ s)) = Some (i, sc1) ->
    exists sc1', next_sampler LossV agent_actions (sch _ _ _ (live _ _ _ s1)) = Some (i, sc1') /\
      forall m, nth_error (sched_samplers _ sc1) i = Some m ->
                nth_error (sched_samplers _ sc1') i = Some (set_bsize u b m).
  Proof.
    unfold xstep. intros H. inversion H; subst. clear H. cbn [live set_sch sch].
    destruct (sch _ _ _ (live _ _ _ s)) as [l b0 | l h best st al cs]; cbn [with_samplers sched_samplers].
    - intros Hn. apply rr_next_inv in Hn. destruct Hn as (-> & -> & Hne).
      exists (RR LossV (map (set_bsize u b) l) b0). split.
      + unfold next_sampler. destruct (map (set_bsize u b) l) eqn:Em; [apply map_eq_nil in Em; contradiction|].
        rewrite <- Em, map_length. reflexivity.
      + intros m Hm. cbn [sched_samplers] in *. rewrite nth_error_map, Hm. reflexivity.
    - unfold next_sampler. destruct best; intros H; injection H as <- <-; eexists; (split; [reflexivity|]);
        intros m Hm; cbn [sched_samplers] in *; rewrite nth_error_map, Hm; reflexivity.
  Qed.
End XP.
