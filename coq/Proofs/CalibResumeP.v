(* Round 4 (generator sweep) - two situations the harness now exercises, on the shared calibrator model:
   (1) C05: after a checkpoint + restore ANY sequence of further operations that does not read the folder again
       (calibrate with or without a convergence precision, calibrate(0), set_samplers, set_scheduler, create_checkpoint)
       leaves the live calibrator in the state it reaches on the object that was never stopped: "restore followed by
       reconfiguration followed by calibrate", "early stop followed by a further calibrate";
   (2) C01: a scheduler object handed to the constructor keeps the seeds it (and its samplers) were constructed with; the
       first calibrate() forgets them all. *)
From Coq Require Import List ZArith Bool Arith Lia.
From BlackIt Require Import Model.Calibrator Proofs.CalibratorP Proofs.CalibStopP Proofs.CalibFaultP.
Import ListNotations.

Definition restore_free (o : op) : bool := match o with ORestore => false | _ => true end.

Lemma reseed_from_forgets draws : forall l l' k, map unseeded l = map unseeded l' -> reseed_from draws k l = reseed_from draws k l'.
Proof. induction l as [|s l IH]; intros [|s' l'] k H; cbn in *; try discriminate; [reflexivity|].
  injection H as H1 H2 H3 H4 H5. unfold reseed. rewrite H1, H2, H3, H4. f_equal. now apply IH. Qed.

Section R.
  Variables (Param Series LossV : Type).
  Variable model : Param -> Z -> Series.
  Variable lossf : list Series -> LossV.
  Variable loss_leb : LossV -> LossV -> bool.
  Variable rounds0 : LossV -> nat -> bool.
  Variable propose : sampler -> list Param -> list LossV -> list Param.
  Variable draws : nat -> Z.
  Variable agent_actions : nat -> nat.
  Variable plan : fault.

  Notation core := (core Param Series LossV).
  Notation cstate := (cstate Param Series LossV).
  Notation calibrate := (calibrate Param Series LossV model lossf loss_leb rounds0 propose draws agent_actions plan).
  Notation calibrate_pos := (calibrate_pos Param Series LossV model lossf loss_leb rounds0 propose draws agent_actions plan).
  Notation step := (step Param Series LossV model lossf loss_leb rounds0 propose draws agent_actions plan).
  Notation run := (run Param Series LossV model lossf loss_leb rounds0 propose draws agent_actions plan).

  (* ---------------------------------------------------------------- (1) *)
  Lemma step_disk_irrelevant o c d d' s1 e r : restore_free o = true -> step (mkSt _ _ _ c d) o = (s1, e, r) ->
    exists d1', step (mkSt _ _ _ c d') o = (mkSt _ _ _ (live _ _ _ s1) d1', e, r).
  Proof. destruct o as [n| | |l|l]; cbn [restore_free step]; intros Hf H; try discriminate.
    - eapply calibrate_disk_irrelevant; eauto.
    - unfold create_checkpoint in *. cbn [live] in *. destruct (save _ _ _ c); injection H as <- <- <-; eexists; reflexivity.
    - unfold set_samplers in *. cbn [live disk] in *. destruct (tupdate _ _); injection H as <- <- <-; eexists; reflexivity.
    - unfold set_scheduler in *. cbn [live disk] in *. destruct (tupdate _ _); injection H as <- <- <-; eexists; reflexivity. Qed.

  (* what the folder holds is irrelevant for the live outcome of every restore-free operation sequence *)
  Theorem run_disk_irrelevant : forall ops c d d', forallb restore_free ops = true ->
    live _ _ _ (run ops (mkSt _ _ _ c d)) = live _ _ _ (run ops (mkSt _ _ _ c d')).
  Proof. unfold Calibrator.run. induction ops as [|o ops IH]; intros c d d' Hf; cbn in *; [reflexivity|].
    apply andb_true_iff in Hf. destruct Hf as [Ho Hf].
    destruct (step (mkSt _ _ _ c d) o) as [[s1 e] r] eqn:E.
    destruct (step_disk_irrelevant o c d d' s1 e r Ho E) as [d1' E']. rewrite E'. cbn [fst].
    destruct s1 as [c1 d1]. cbn [live]. now apply IH. Qed.

  (* stopping (create_checkpoint), restoring and then doing anything restore-free = doing it on the live object *)
  Theorem resume_any_ops (s s1 s2 : cstate) e1 e2 l b ops :
    sch _ _ _ (live _ _ _ s) = RR LossV l b ->
    create_checkpoint Param Series LossV s = (s1, e1) -> restore Param Series LossV s1 = (s2, e2) ->
    forallb restore_free ops = true ->
    live _ _ _ (run ops s2) = live _ _ _ (run ops s).
  Proof. intros Hs H1 H2 Hf. destruct (restore_checkpoint_identity _ _ _ _ _ _ _ _ _ _ Hs H1 H2) as (_ & _ & Hl).
    destruct s as [c d], s2 as [c2 d2]. cbn in Hl. subst c2. now apply run_disk_irrelevant. Qed.

  (* the same, operation by operation: every call also raises / returns the same *)
  Theorem resume_any_ops_outcomes : forall ops o (s s1 s2 : cstate) e1 e2 l b,
    sch _ _ _ (live _ _ _ s) = RR LossV l b ->
    create_checkpoint Param Series LossV s = (s1, e1) -> restore Param Series LossV s1 = (s2, e2) ->
    forallb restore_free (ops ++ [o]) = true ->
    snd (fst (step (run ops s2) o)) = snd (fst (step (run ops s) o)) /\ snd (step (run ops s2) o) = snd (step (run ops s) o).
  Proof. intros ops o s s1 s2 e1 e2 l b Hs H1 H2 Hf. rewrite forallb_app in Hf. apply andb_true_iff in Hf. destruct Hf as [Hf Ho].
    cbn in Ho. rewrite andb_true_r in Ho.
    pose proof (resume_any_ops s s1 s2 e1 e2 l b ops Hs H1 H2 Hf) as Hl.
    destruct (run ops s2) as [c2 d2], (run ops s) as [c d]. cbn in Hl. subst c2.
    destruct (step (mkSt _ _ _ c d) o) as [[s3 e] r] eqn:E.
    destruct (step_disk_irrelevant o c d d2 s3 e r Ho E) as [d' E']. rewrite E'. split; reflexivity. Qed.

  (* ---------------------------------------------------------------- (2) *)
  (* two calibrators that differ only in the seeds their sampler objects carry (constructor seeds of the samplers, or the
     seeds an explicitly constructed scheduler handed to them) *)
  Definition reseat (c : core) (l' : list sampler) : core := set_sch _ _ _ c (with_samplers _ (sch _ _ _ c) l').

  Lemma seeds_forgotten_core (c : core) l' : map unseeded l' = map unseeded (sched_samplers _ (sch _ _ _ c)) ->
    set_samplers_seeds Param Series LossV draws (reseat c l') = set_samplers_seeds Param Series LossV draws c.
  Proof. intros H. assert (Hlen : length l' = length (sched_samplers _ (sch _ _ _ c))) by (rewrite <- (map_length unseeded l'), H; apply map_length).
    unfold set_samplers_seeds, reseat. destruct c as [cf ps ls se bn me ns bi sc rp tb mc lc]. cbn in *.
    destruct sc as [l0 b0|l0 h best st al cs]; cbn in *; rewrite Hlen, (reseed_from_forgets draws l' l0 _ H); reflexivity. Qed.

  Theorem first_calibrate_forgets_all_seeds n (c : core) d l' :
    batch_idx _ _ _ c = 0 -> map unseeded l' = map unseeded (sched_samplers _ (sch _ _ _ c)) ->
    calibrate n (mkSt _ _ _ (reseat c l') d) = calibrate n (mkSt _ _ _ c d).
  Proof. intros Hb H.
    assert (Hp : forall k, calibrate_pos k (mkSt _ _ _ (reseat c l') d) = calibrate_pos k (mkSt _ _ _ c d)).
    { intros k. unfold Calibrator.calibrate_pos. cbn [live disk].
      assert (Hb' : batch_idx _ _ _ (reseat c l') = 0) by (destruct c; exact Hb).
      rewrite Hb', Hb. cbn [Nat.eqb]. now rewrite seeds_forgotten_core. }
    rewrite !(calibrate_unfold Param Series LossV). destruct n; now rewrite Hp. Qed.
End R.
